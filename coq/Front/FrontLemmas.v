(* Basic facts about the abstract file system and the naming functions
   (used by FrontProofs.v). *)
From Coq Require Import List NArith Arith Bool String Ascii Lia.
From LBZ Require Import Gen.FrontTab Front.FsModel Front.MainLoop.
Import ListNotations.
Local Open Scope N_scope.

(* ---- association lists ------------------------------------------------------------ *)
Section AssocFacts.
  Context {K V : Type}.
  Variable eqb : K -> K -> bool.
  Hypothesis eqb_eq : forall a b, eqb a b = true <-> a = b.

  Lemma eqb_refl' a : eqb a a = true.
  Proof. apply eqb_eq. reflexivity. Qed.

  Lemma eqb_neq' a b : a <> b -> eqb a b = false.
  Proof. intro H. destruct (eqb a b) eqn:E; auto. apply eqb_eq in E. contradiction. Qed.

  Lemma alook_arem_eq k (l : list (K * V)) : alook eqb k (arem eqb k l) = None.
  Proof.
    induction l as [|[k' v] l IH]; simpl; auto.
    destruct (eqb k' k) eqn:E; auto. simpl. rewrite E. auto.
  Qed.

  Lemma alook_arem_neq k k' (l : list (K * V)) : k <> k' -> alook eqb k' (arem eqb k l) = alook eqb k' l.
  Proof.
    intro N. induction l as [|[k0 v] l IH]; simpl; auto.
    destruct (eqb k0 k) eqn:E.
    - apply eqb_eq in E. subst k0. rewrite (eqb_neq' _ _ N). auto.
    - simpl. destruct (eqb k0 k'); auto.
  Qed.

  Lemma alook_aset_eq k v (l : list (K * V)) : alook eqb k (aset eqb k v l) = Some v.
  Proof. unfold aset. simpl. rewrite eqb_refl'. reflexivity. Qed.

  Lemma alook_aset_neq k k' v (l : list (K * V)) : k <> k' -> alook eqb k' (aset eqb k v l) = alook eqb k' l.
  Proof. intro N. unfold aset. simpl. rewrite (eqb_neq' _ _ N). apply alook_arem_neq; auto. Qed.

  Lemma alook_In k v (l : list (K * V)) : alook eqb k l = Some v -> In (k, v) l.
  Proof.
    induction l as [|[k0 v0] l IH]; simpl; try discriminate.
    destruct (eqb k0 k) eqn:E.
    - apply eqb_eq in E. intro H. inversion H. subst. auto.
    - auto.
  Qed.
End AssocFacts.

Lemma kindc_eqb_eq a b : kindc_eqb a b = true <-> a = b.
Proof.
  unfold kindc_eqb. rewrite Nat.eqb_eq. split; [|intros ->; reflexivity].
  destruct a, b; simpl; intro H; try reflexivity; discriminate.
Qed.

(* ---- names and inodes of a file system ----------------------------------------------- *)
Lemma nlook_set_names f n p : nlook (set_names f n) p = alook String.eqb p n.
Proof. reflexivity. Qed.
Lemma ilook_set_names f n i : ilook (set_names f n) i = ilook f i.
Proof. reflexivity. Qed.
Lemma nlook_set_inodes f n p : nlook (set_inodes f n) p = nlook f p.
Proof. reflexivity. Qed.
Lemma nlook_set_stdout f o p : nlook (set_stdout f o) p = nlook f p.
Proof. reflexivity. Qed.
Lemma ilook_set_stdout f o i : ilook (set_stdout f o) i = ilook f i.
Proof. reflexivity. Qed.

Lemma nlook_upd_inode f i g p : nlook (upd_inode f i g) p = nlook f p.
Proof. unfold upd_inode. destruct (ilook f i); reflexivity. Qed.

Lemma names_upd_inode f i g : f_names (upd_inode f i g) = f_names f.
Proof. unfold upd_inode. destruct (ilook f i); reflexivity. Qed.

Lemma stdout_upd_inode f i g : f_stdout (upd_inode f i g) = f_stdout f.
Proof. unfold upd_inode. destruct (ilook f i); reflexivity. Qed.

Lemma ilook_upd_inode_neq f i g j : i <> j -> ilook (upd_inode f i g) j = ilook f j.
Proof.
  intro N. unfold upd_inode. destruct (ilook f i) eqn:E; auto.
  unfold ilook, set_inodes. simpl. apply alook_aset_neq; auto. apply N.eqb_eq.
Qed.

Lemma ilook_upd_inode_eq f i g nd : ilook f i = Some nd -> ilook (upd_inode f i g) i = Some (g nd).
Proof.
  intro E. unfold upd_inode. rewrite E. unfold ilook, set_inodes. simpl.
  rewrite N.eqb_refl. reflexivity.
Qed.

Lemma ilook_upd_inode_none f i g : ilook f i = None -> upd_inode f i g = f.
Proof. intro E. unfold upd_inode. rewrite E. reflexivity. Qed.

(* unlink only touches the name table *)
Lemma unlink_inodes f p : f_inodes (fst (sys_unlink f p)) = f_inodes f.
Proof.
  unfold sys_unlink. destruct (nlook f p) as [[i|t]|]; simpl; auto.
  destruct (ilook f i) as [nd|]; simpl; auto. destruct (i_kind nd); reflexivity.
Qed.

Lemma unlink_ilook f p i : ilook (fst (sys_unlink f p)) i = ilook f i.
Proof. unfold ilook. rewrite unlink_inodes. reflexivity. Qed.

Lemma unlink_stdout f p : f_stdout (fst (sys_unlink f p)) = f_stdout f.
Proof.
  unfold sys_unlink. destruct (nlook f p) as [[i|t]|]; simpl; auto.
  destruct (ilook f i) as [nd|]; simpl; auto. destruct (i_kind nd); reflexivity.
Qed.

Lemma unlink_nlook_other f p q : p <> q -> nlook (fst (sys_unlink f p)) q = nlook f q.
Proof.
  intro N. unfold sys_unlink. destruct (nlook f p) as [[i|t]|]; simpl; auto.
  - destruct (ilook f i) as [nd|]; simpl; auto.
    + destruct (i_kind nd); simpl; auto; unfold nlook; simpl; apply alook_arem_neq; auto; apply String.eqb_eq.
    + unfold nlook; simpl; apply alook_arem_neq; auto; apply String.eqb_eq.
  - unfold nlook; simpl; apply alook_arem_neq; auto; apply String.eqb_eq.
Qed.

(* after unlink the name is gone or the call failed and nothing changed *)
Lemma unlink_result f p :
  (snd (sys_unlink f p) = SOk tt /\ nlook (fst (sys_unlink f p)) p = None) \/
  (exists e, snd (sys_unlink f p) = SErr e /\ fst (sys_unlink f p) = f).
Proof.
  unfold sys_unlink. destruct (nlook f p) as [[i|t]|] eqn:E; simpl.
  - destruct (ilook f i) as [nd|]; simpl.
    + destruct (i_kind nd); simpl;
        try (left; split; [reflexivity | unfold nlook; simpl; apply alook_arem_eq]).
      right. eexists. split; reflexivity.
    + left. split; [reflexivity | unfold nlook; simpl; apply alook_arem_eq].
  - left. split; [reflexivity | unfold nlook; simpl; apply alook_arem_eq].
  - right. eexists. split; reflexivity.
Qed.

(* ---- fresh inode numbers ------------------------------------------------------------------ *)
Lemma max_list_ge l x : In x l -> x <= max_list l.
Proof.
  induction l as [|y l IH]; simpl; [tauto|]. intros [->|H].
  - apply N.le_max_l.
  - etransitivity; [apply IH; auto | apply N.le_max_r].
Qed.

Lemma fresh_not_in_inodes f : ilook f (fresh_ino f) = None.
Proof.
  destruct (ilook f (fresh_ino f)) eqn:E; auto. exfalso.
  unfold ilook in E. apply (alook_In N.eqb N.eqb_eq) in E.
  assert (H : In (fresh_ino f) (map fst (f_inodes f))) by (apply in_map_iff; eexists; split; [|exact E]; reflexivity).
  apply max_list_ge in H. unfold fresh_ino in H at 1. lia.
Qed.

Lemma fresh_not_named f p i : nlook f p = Some (DLink i) -> i <> fresh_ino f.
Proof.
  intros E. unfold nlook in E. apply (alook_In String.eqb String.eqb_eq) in E.
  assert (H : In i (map dentry_ino (f_names f))) by (apply in_map_iff; exists (p, DLink i); split; [reflexivity | exact E]).
  apply max_list_ge in H. unfold fresh_ino. lia.
Qed.

(* ---- creation ------------------------------------------------------------------------------- *)
Lemma creat_err f p m u g t e : snd (sys_creat_excl f p m u g t) = SErr e -> fst (sys_creat_excl f p m u g t) = f.
Proof.
  unfold sys_creat_excl. destruct (negb (creatable p)); simpl; auto.
  destruct (nlook f p); simpl; auto. discriminate.
Qed.

Lemma creat_not_hang f p m u g t : snd (sys_creat_excl f p m u g t) <> SHang.
Proof.
  unfold sys_creat_excl. destruct (negb (creatable p)); simpl; try discriminate.
  destruct (nlook f p); simpl; discriminate.
Qed.

Lemma creat_ok f p m u g t i :
  snd (sys_creat_excl f p m u g t) = SOk i ->
  nlook f p = None /\ i = fresh_ino f /\
  fst (sys_creat_excl f p m u g t) =
    {| f_names := aset String.eqb p (DLink i) (f_names f);
       f_inodes := aset N.eqb i {| i_kind := KReg; i_mode := m; i_uid := u; i_gid := g; i_atime := t;
                                   i_mtime := t; i_data := []; i_committed := false |} (f_inodes f);
       f_stdout := f_stdout f |}.
Proof.
  unfold sys_creat_excl. destruct (negb (creatable p)); simpl; try discriminate.
  destruct (nlook f p) eqn:E; simpl; try discriminate.
  intro H. inversion H. subst. auto.
Qed.

(* ---- strings ---------------------------------------------------------------------------------- *)
Lemma list_ascii_app a b :
  list_ascii_of_string (a ++ b) = (list_ascii_of_string a ++ list_ascii_of_string b)%list.
Proof. induction a; simpl; congruence. Qed.

Lemma rev_s_app a b : rev_s (a ++ b) = (rev_s b ++ rev_s a)%list.
Proof. unfold rev_s. rewrite list_ascii_app. apply rev_app_distr. Qed.

Lemma length_list_ascii s : List.length (list_ascii_of_string s) = String.length s.
Proof. induction s; simpl; congruence. Qed.

Lemma length_rev_s s : List.length (rev_s s) = String.length s.
Proof. unfold rev_s. rewrite rev_length. apply length_list_ascii. Qed.

Lemma prefixb_app p l : prefixb p (p ++ l)%list = true.
Proof. induction p; simpl; auto. rewrite Ascii.eqb_refl. auto. Qed.

Lemma ends_with_app x c : ends_with (x ++ c) c = true.
Proof. unfold ends_with. rewrite rev_s_app. apply prefixb_app. Qed.

Lemma append_nil_r s : (s ++ "")%string = s.
Proof. induction s; simpl; congruence. Qed.

Lemma strip_suffix_app x c : strip_suffix (x ++ c) c = x.
Proof.
  unfold strip_suffix. rewrite rev_s_app. rewrite <- (length_rev_s c).
  rewrite skipn_app, Nat.sub_diag, skipn_all. simpl.
  unfold rev_s. rewrite rev_involutive. apply string_of_list_ascii_of_string.
Qed.

Lemma prefixb_true_split p l : prefixb p l = true -> exists r, l = (p ++ r)%list.
Proof.
  revert l. induction p as [|a p IH]; intros l H; simpl in *.
  - exists l. reflexivity.
  - destruct l as [|b l]; try discriminate. apply andb_true_iff in H as [H1 H2].
    apply Ascii.eqb_eq in H1. subst. destruct (IH _ H2) as [r ->]. exists r. reflexivity.
Qed.

Lemma string_of_list_app l1 l2 :
  string_of_list_ascii (l1 ++ l2) = (string_of_list_ascii l1 ++ string_of_list_ascii l2)%string.
Proof. induction l1; simpl; congruence. Qed.

(* a name that ends with c is (what strip_suffix leaves) ++ c *)
Lemma ends_with_split s c : ends_with s c = true -> s = (strip_suffix s c ++ c)%string.
Proof.
  unfold ends_with, strip_suffix. intro H. apply prefixb_true_split in H as [r H].
  rewrite H. rewrite <- (length_rev_s c). rewrite skipn_app, Nat.sub_diag, skipn_all. simpl.
  assert (E : list_ascii_of_string s = (rev r ++ list_ascii_of_string c)%list).
  { unfold rev_s in H. apply (f_equal (@rev ascii)) in H. rewrite rev_involutive in H.
    rewrite H, rev_app_distr. rewrite rev_involutive. reflexivity. }
  transitivity (string_of_list_ascii (list_ascii_of_string s)).
  - symmetry. apply string_of_list_ascii_of_string.
  - rewrite E, string_of_list_app, string_of_list_ascii_of_string. reflexivity.
Qed.

Lemma string_app_inv_head a b c : (a ++ b)%string = (a ++ c)%string -> b = c.
Proof. induction a; simpl; intro H; auto. inversion H. auto. Qed.

Lemma string_length_app a b : String.length (a ++ b) = (String.length a + String.length b)%nat.
Proof. induction a; simpl; auto. Qed.

(* ---- path resolution ------------------------------------------------------------------------------ *)
(* q is one of the names visited when p is resolved (including a dangling last target) *)
Fixpoint onchain (f : fs) (n : nat) (p q : path) : bool :=
  String.eqb p q ||
  match nlook f p with
  | Some (DSym t) => match n with O => false | S n' => onchain f n' t q end
  | _ => false
  end.

Lemma resolve_mono f n m p i : resolve f n p = SOk i -> (n <= m)%nat -> resolve f m p = SOk i.
Proof.
  revert m p. induction n as [|n IH]; intros m p H L; destruct m as [|m]; cbn in *;
    destruct (nlook f p) as [[j|t]|]; try congruence; try lia.
  apply IH; auto. lia.
Qed.

(* changing only the name q does not affect a resolution that does not visit q *)
Lemma resolve_frame f f' q n p :
  (forall p', p' <> q -> nlook f' p' = nlook f p') -> onchain f n p q = false -> resolve f' n p = resolve f n p.
Proof.
  intro Hn. revert p. induction n as [|n IH]; intros p H; cbn in H |- *;
    apply orb_false_iff in H as [H1 H2]; apply String.eqb_neq in H1; rewrite (Hn p H1);
    destruct (nlook f p) as [[j|t]|]; auto.
Qed.

Lemma resolve_names_eq f f' n p : f_names f' = f_names f -> resolve f' n p = resolve f n p.
Proof.
  intro E. revert p. induction n as [|n IH]; intro p; cbn; unfold nlook; rewrite E;
    destruct (alook String.eqb p (f_names f)) as [[j|t]|]; auto.
Qed.

Lemma resolve_named f n p i : resolve f n p = SOk i -> exists p', nlook f p' = Some (DLink i).
Proof.
  revert p. induction n as [|n IH]; intros p H; cbn in H; destruct (nlook f p) as [[j|t]|] eqn:E; try discriminate.
  - inversion H; subst. eauto.
  - inversion H; subst. eauto.
  - eauto.
Qed.

(* a successful resolution does not visit a free name, nor a plain link to another inode *)
Lemma onchain_free f n p q i : resolve f n p = SOk i -> nlook f q = None -> onchain f n p q = false.
Proof.
  revert p. induction n as [|n IH]; intros p H Hq; cbn in H |- *;
    destruct (String.eqb_spec p q) as [->|Hp]; cbn [orb];
    try (rewrite Hq in H; discriminate); destruct (nlook f p) as [[j|t]|]; auto; discriminate.
Qed.

Lemma onchain_other f n p q i j :
  resolve f n p = SOk i -> nlook f q = Some (DLink j) -> j <> i -> onchain f n p q = false.
Proof.
  revert p. induction n as [|n IH]; intros p H Hq Hj; cbn in H |- *;
    destruct (String.eqb_spec p q) as [->|Hp]; cbn [orb];
    try (rewrite Hq in H; inversion H; congruence); destruct (nlook f p) as [[k|t]|]; eauto; discriminate.
Qed.

(* if q is visited, q resolves to the same inode *)
Lemma onchain_resolves f n p q i :
  resolve f n p = SOk i -> onchain f n p q = true -> exists m, (m <= n)%nat /\ resolve f m q = SOk i.
Proof.
  revert p. induction n as [|n IH]; intros p H Hc; cbn in H, Hc;
    destruct (String.eqb_spec p q) as [->|Hp]; cbn [orb] in Hc.
  - exists O. split; [lia | exact H].
  - destruct (nlook f p) as [[j|t]|]; discriminate.
  - exists (S n). split; [lia | exact H].
  - destruct (nlook f p) as [[j|t]|]; try discriminate.
    destruct (IH t H Hc) as (m & Lm & Hm). exists m. split; [lia | exact Hm].
Qed.

Lemma resolve_link f n p i : nlook f p = Some (DLink i) -> resolve f n p = SOk i.
Proof. intro H. destruct n; cbn [resolve]; rewrite H; reflexivity. Qed.

Lemma resolve_none f n p : nlook f p = None -> resolve f n p = SErr ENOENT.
Proof. intro H. destruct n; cbn [resolve]; rewrite H; reflexivity. Qed.

Lemma onchain_link f n p q i : nlook f p = Some (DLink i) -> p <> q -> onchain f n p q = false.
Proof. intros H Hp. destruct n; cbn [onchain]; rewrite H, orb_false_r; apply String.eqb_neq; exact Hp. Qed.

Lemma onchain_none f n p q : nlook f p = None -> p <> q -> onchain f n p q = false.
Proof. intros H Hp. destruct n; cbn [onchain]; rewrite H, orb_false_r; apply String.eqb_neq; exact Hp. Qed.
