(* Executable model of the operand loop of main() (src/main.c:925-986) with
   input_init, output_init, output_regf_uninit, input_oprnd_rm, input_uninit,
   cleanup(), the warn/fail functions, cli()/sti()/halt()/bailout() of
   src/signals.c and work() of src/process.c reduced to its externally visible
   behaviour.  Every system call the code makes for an operand is an explicit
   step, in the order of the code; a [plan] says which occurrence of which call
   fails with which errno, or at which call a signal is raised.

   Signal asynchrony as modelled (this is the declared partiality of C16):
   a signal is raised immediately before a counted system call of the process
   (the main thread's calls, and the read()/write() calls the worker threads
   make while the main thread sits in sigsuspend()).
   - SIGKILL ends the run there;
   - SIGINT/SIGTERM outside cli()..sti() have their default action: the
     process dies there;
   - between cli() and sti() they are blocked in every thread; while the main
     thread is in halt() (all read/write steps of the worker threads) the
     handler runs at once: cleanup(), then the signal is re-raised with its
     default action; raised while the main thread itself executes (output_init,
     the header read of decompression, output_regf_uninit, input_oprnd_rm) the
     signal stays pending: it is taken at the next halt() if that is still to
     come, otherwise it kills the process at sti() (handlers already reset, no
     cleanup);
   - two handled signals that coincide (INT/TERM with the SIGUSR1/SIGUSR2 the
     worker threads send) are not modelled: the outcome is that of one of them.

   Regenerated from the source (Gen/FrontTab.v) and consumed here: the suffix
   table, the permission masks of open()/fchmod(), the setuid test mask, the
   stat fields handed to fchown()/futimens(), the link-count limit, the exit
   codes. *)
From Coq Require Import List NArith Arith Bool String Ascii.
From LBZ Require Import Gen.FrontTab Front.FsModel.
Import ListNotations.
Local Open Scope N_scope.

(* ---- configuration, plans, outcomes ------------------------------------------------ *)
Inductive outmode := OmStdout | OmDiscard | OmRegf.

Record cfg := {
  c_decompress : bool;     (* -d / -t *)
  c_force : bool;          (* -f *)
  c_keep : bool;           (* -k *)
  c_outmode : outmode;     (* -c / -t / neither *)
  c_uid : N;               (* effective ids of the process: owner of created files *)
  c_gid : N;
  c_now : N                (* the time stamp new and written files get *)
}.

(* SIGXFSZ / SIGPIPE are never raised by a plan: they accompany a write() that fails with EFBIG / EPIPE *)
Inductive signal := SIGINT | SIGTERM | SIGKILL | SIGXFSZ | SIGPIPE.

(* counted system calls; the descriptor class of the fault shim is part of the kind *)
Inductive kindc :=
| KLstat | KOpen | KFstat | KClose | KUnlink | KRead | KWrite
| KFchown | KFchmod | KFutimens | KWriteStdout | KCloseStdout.

Inductive action := Fail (e : N) | Raise (sg : signal).

(* (call, occurrence counted from 1 over the whole run, what happens there) *)
Definition plan := list (kindc * nat * action).

Inductive outcome := Exit (n : N) | Killed (sg : signal) | Hang.

(* work() seen from outside: the read()/write() calls it makes after the main
   thread entered halt(), in the order they happen, and whether it then ends
   normally (SIGUSR2) or with a failure diagnosed by a worker (SIGUSR1) *)
Inductive cmode := CCompress | CExpand | CCopy.
Inductive ioev := IoRead | IoWrite (chunk : bytes).
Record cres := { c_io : list ioev; c_ok : bool }.

(* ---- names: suffix_xform() over the regenerated table ----------------------------- *)
Definition rev_s (s : string) : list ascii := rev (list_ascii_of_string s).

Fixpoint prefixb (p l : list ascii) : bool :=
  match p with
  | [] => true
  | a :: p' => match l with
               | [] => false
               | b :: l' => Ascii.eqb a b && prefixb p' l'
               end
  end.

(* len >= compr_len && 0 == strcmp(name + len - compr_len, compr) *)
Definition ends_with (s suf : string) : bool := prefixb (rev_s suf) (rev_s s).

(* memcpy of the first len - compr_len characters *)
Definition strip_suffix (s suf : string) : string :=
  string_of_list_ascii (rev (skipn (String.length suf) (rev_s s))).

(* first entry, in table order, that applies; [for_output] = (0 != decompr_pathname) *)
Fixpoint sfx_find (tab : list (string * string * bool)) (for_output : bool) (s : string)
  : option (string * string * bool) :=
  match tab with
  | [] => None
  | (c, d, chk) :: t =>
      if (chk || for_output) && ends_with s c then Some (c, d, chk) else sfx_find t for_output s
  end.

Definition is_compressed_name (s : string) : bool :=
  match sfx_find suffix_tab false s with Some _ => true | None => false end.

Definition out_name (decompress : bool) (s : string) : option string :=
  if decompress then
    match sfx_find suffix_tab true s with
    | Some (c, d, _) => Some (strip_suffix s c ++ d)%string
    | None => None
    end
  else Some (s ++ compress_suffix)%string.

(* ---- stat fields by their C names ---------------------------------------------------- *)
Definition stat_field (name : string) (st : stat) : N :=
  if String.eqb name "st_atim" then st_atime st
  else if String.eqb name "st_mtim" then st_mtime st
  else if String.eqb name "st_uid" then st_uid st
  else if String.eqb name "st_gid" then st_gid st
  else 0.

Definition fld (names : list string) (k : nat) (st : stat) : N := stat_field (nth k names ""%string) st.

(* ---- machine state --------------------------------------------------------------------- *)
Inductive msgclass := MInfo | MWarn | MFail.

(* why a run ended inside an operand *)
Inductive why :=
| WFatal (tag : string)    (* fail*(): cleanup(), _exit(EX_FAIL) *)
| WSigHandled              (* INT/TERM taken in halt(): cleanup(), re-raised *)
| WSigDefault              (* INT/TERM outside cli()..sti(): default action *)
| WSigSti                  (* INT/TERM pending at sti(): default action, no cleanup *)
| WKill
| WHang.

Inductive disp := DSkipped (tag : string) | DDone | DAborted (w : why).

Record hentry := {
  h_op : path;
  h_before : fs;
  h_after : fs;
  h_disp : disp;
  h_rmfail : bool;         (* unlink() of the input failed *)
  h_cleanfail : bool       (* the unlink() inside cleanup() failed *)
}.

Record mstate := {
  m_fs : fs;
  m_cnt : list (kindc * nat);      (* calls made so far, per kind *)
  m_warned : bool;                 (* `warned` *)
  m_opathn : option path;          (* `opathn` *)
  m_blocked : bool;                (* between cli() and sti() *)
  m_pint : bool;                   (* SIGINT pending *)
  m_pterm : bool;                  (* SIGTERM pending *)
  m_msgs : list (msgclass * string);   (* diagnostics, most recent first *)
  m_hist : list hentry;            (* ghost: operands started, most recent first *)
  m_rmfail : bool;                 (* ghost, per operand *)
  m_cleanfail : bool               (* ghost, per operand *)
}.

Definition kcode (k : kindc) : nat :=
  match k with
  | KLstat => 0 | KOpen => 1 | KFstat => 2 | KClose => 3 | KUnlink => 4 | KRead => 5 | KWrite => 6
  | KFchown => 7 | KFchmod => 8 | KFutimens => 9 | KWriteStdout => 10 | KCloseStdout => 11
  end%nat.
Definition kindc_eqb (a b : kindc) : bool := Nat.eqb (kcode a) (kcode b).

Definition cnt_get (k : kindc) (c : list (kindc * nat)) : nat :=
  match alook kindc_eqb k c with Some n => n | None => O end.

Fixpoint plan_lookup (pl : plan) (k : kindc) (n : nat) : option action :=
  match pl with
  | [] => None
  | (k', n', a) :: r => if kindc_eqb k' k && Nat.eqb n' n then Some a else plan_lookup r k n
  end.

Definition set_fs (s : mstate) (f : fs) : mstate :=
  {| m_fs := f; m_cnt := m_cnt s; m_warned := m_warned s; m_opathn := m_opathn s;
     m_blocked := m_blocked s; m_pint := m_pint s; m_pterm := m_pterm s; m_msgs := m_msgs s;
     m_hist := m_hist s; m_rmfail := m_rmfail s; m_cleanfail := m_cleanfail s |}.
Definition set_cnt (s : mstate) (c : list (kindc * nat)) : mstate :=
  {| m_fs := m_fs s; m_cnt := c; m_warned := m_warned s; m_opathn := m_opathn s;
     m_blocked := m_blocked s; m_pint := m_pint s; m_pterm := m_pterm s; m_msgs := m_msgs s;
     m_hist := m_hist s; m_rmfail := m_rmfail s; m_cleanfail := m_cleanfail s |}.
Definition set_opathn (s : mstate) (o : option path) : mstate :=
  {| m_fs := m_fs s; m_cnt := m_cnt s; m_warned := m_warned s; m_opathn := o;
     m_blocked := m_blocked s; m_pint := m_pint s; m_pterm := m_pterm s; m_msgs := m_msgs s;
     m_hist := m_hist s; m_rmfail := m_rmfail s; m_cleanfail := m_cleanfail s |}.
Definition set_blocked (s : mstate) (b : bool) : mstate :=
  {| m_fs := m_fs s; m_cnt := m_cnt s; m_warned := m_warned s; m_opathn := m_opathn s;
     m_blocked := b; m_pint := m_pint s; m_pterm := m_pterm s; m_msgs := m_msgs s;
     m_hist := m_hist s; m_rmfail := m_rmfail s; m_cleanfail := m_cleanfail s |}.
Definition set_pending (s : mstate) (sg : signal) : mstate :=
  {| m_fs := m_fs s; m_cnt := m_cnt s; m_warned := m_warned s; m_opathn := m_opathn s;
     m_blocked := m_blocked s;
     m_pint := match sg with SIGINT => true | _ => m_pint s end;
     m_pterm := match sg with SIGTERM => true | _ => m_pterm s end;
     m_msgs := m_msgs s; m_hist := m_hist s; m_rmfail := m_rmfail s; m_cleanfail := m_cleanfail s |}.
Definition add_msg (s : mstate) (c : msgclass) (tag : string) : mstate :=
  {| m_fs := m_fs s; m_cnt := m_cnt s;
     m_warned := match c with MWarn => true | _ => m_warned s end;
     m_opathn := m_opathn s;
     m_blocked := m_blocked s; m_pint := m_pint s; m_pterm := m_pterm s; m_msgs := (c, tag) :: m_msgs s;
     m_hist := m_hist s; m_rmfail := m_rmfail s; m_cleanfail := m_cleanfail s |}.
Definition set_rmfail (s : mstate) (b : bool) : mstate :=
  {| m_fs := m_fs s; m_cnt := m_cnt s; m_warned := m_warned s; m_opathn := m_opathn s;
     m_blocked := m_blocked s; m_pint := m_pint s; m_pterm := m_pterm s; m_msgs := m_msgs s;
     m_hist := m_hist s; m_rmfail := b; m_cleanfail := m_cleanfail s |}.
Definition set_cleanfail (s : mstate) (b : bool) : mstate :=
  {| m_fs := m_fs s; m_cnt := m_cnt s; m_warned := m_warned s; m_opathn := m_opathn s;
     m_blocked := m_blocked s; m_pint := m_pint s; m_pterm := m_pterm s; m_msgs := m_msgs s;
     m_hist := m_hist s; m_rmfail := m_rmfail s; m_cleanfail := b |}.
Definition push_hist (s : mstate) (h : hentry) : mstate :=
  {| m_fs := m_fs s; m_cnt := m_cnt s; m_warned := m_warned s; m_opathn := m_opathn s;
     m_blocked := m_blocked s; m_pint := m_pint s; m_pterm := m_pterm s; m_msgs := m_msgs s;
     m_hist := h :: m_hist s; m_rmfail := m_rmfail s; m_cleanfail := m_cleanfail s |}.

Definition init_state (f : fs) : mstate :=
  {| m_fs := f; m_cnt := []; m_warned := false; m_opathn := None; m_blocked := false;
     m_pint := false; m_pterm := false; m_msgs := []; m_hist := []; m_rmfail := false;
     m_cleanfail := false |}.

(* ---- the monad: state + early end of the process ------------------------------------ *)
Inductive res (A : Type) : Type :=
| Ret (a : A) (s : mstate)
| Stop (o : outcome) (w : why) (s : mstate).
Arguments Ret {A} a s.
Arguments Stop {A} o w s.

Definition M (A : Type) := mstate -> res A.
Definition ret {A} (a : A) : M A := fun s => Ret a s.
Definition bind {A B} (c : M A) (f : A -> M B) : M B :=
  fun s => match c s with
           | Ret a s' => f a s'
           | Stop o w s' => Stop o w s'
           end.
Definition stop {A} (o : outcome) (w : why) : M A := fun s => Stop o w s.
Definition modify (g : mstate -> mstate) : M unit := fun s => Ret tt (g s).

Notation "x <- c1 ;; c2" := (bind c1 (fun x => c2)) (at level 61, c1 at next level, right associativity).
Notation "c1 ;;; c2" := (bind c1 (fun _ => c2)) (at level 61, right associativity).

Definition input_data (f : fs) (i : N) : bytes :=
  match ilook f i with Some nd => i_data nd | None => [] end.
Definition input_is_dir (f : fs) (i : N) : bool :=
  match ilook f i with Some nd => match i_kind nd with KDir => true | _ => false end | None => false end.

(* xread(&header, 4) on a regular file of the given content: number of read() calls *)
Definition hdr_reads (d : bytes) : nat :=
  if (4 <=? List.length d)%nat then 1%nat else if (List.length d =? 0)%nat then 1%nat else 2%nat.

(* "BZh1" .. "BZh9" (process.c: MAGIC(1) .. MAGIC(9)) *)
Definition hdr_ok (d : bytes) : bool :=
  match d with
  | 66 :: 90 :: 104 :: x :: _ => (49 <=? x) && (x <=? 57)
  | _ => false
  end.

Inductive odst := OStdout | ODiscard | OFile (i : N).

Section Run.
  Variable codec : cmode -> bytes -> cres.
  Variable cf : cfg.
  Variable pl : plan.

  Definition say (c : msgclass) (tag : string) : M unit := modify (fun s => add_msg s c tag).
  Definition warn (tag : string) : M unit := say MWarn tag.

  (* one counted system call.  [inhalt]: made by a worker thread while the main
     thread waits in sigsuspend() *)
  Definition handled_in_halt (cleanup : M unit) (sg : signal) : M unit :=
    cleanup ;;; stop (Killed sg) WSigHandled.

  Definition sys_gen {A} (cleanup : M unit) (inhalt : bool) (k : kindc) (f : fs -> fs * sysres A)
    : M (sysres A) := fun s =>
    let n := S (cnt_get k (m_cnt s)) in
    let s1 := set_cnt s (aset kindc_eqb k n (m_cnt s)) in
    let natural (s2 : mstate) : res (sysres A) :=
        let '(f', r) := f (m_fs s2) in
        match r with
        | SHang => Stop Hang WHang s2
        | _ => Ret r (set_fs s2 f')
        end in
    match plan_lookup pl k n with
    | None => natural s1
    | Some (Fail e) => Ret (SErr e) s1
    | Some (Raise SIGKILL) => Stop (Killed SIGKILL) WKill s1
    | Some (Raise sg) =>
        if m_blocked s1 then
          if inhalt then
            match handled_in_halt cleanup sg s1 with
            | Ret _ s2 => Stop (Killed sg) WSigHandled s2
            | Stop o w s2 => Stop o w s2
            end
          else natural (set_pending s1 sg)
        else Stop (Killed sg) WSigDefault s1
    end.

  (* cleanup(): (void)unlink(opathn); opathn = NULL.  Runs in the main thread
     with the handled signals blocked whenever opathn is set. *)
  Definition cleanup : M unit := fun s =>
    match m_opathn s with
    | None => Ret tt s
    | Some q =>
        (r <- sys_gen (ret tt) false KUnlink (fun f => sys_unlink f q) ;;
         modify (fun s => set_opathn s None) ;;;
         match r with
         | SErr _ => modify (fun s => set_cleanfail s true)
         | _ => ret tt
         end) s
    end.

  Definition sys {A} (inhalt : bool) (k : kindc) (f : fs -> fs * sysres A) : M (sysres A) :=
    sys_gen cleanup inhalt k f.

  (* fail*(): message, bailout() [directly in the main thread, or via SIGUSR1 from
     a worker]: cleanup(), _exit(EX_FAIL) *)
  Definition fatal {A} (tag : string) : M A :=
    say MFail tag ;;; cleanup ;;; stop (Exit bailout_exit) (WFatal tag).

  (* ---- input_init() ------------------------------------------------------------------ *)
  Definition input_init (op : path) : M (string + N * stat) :=
    pre <- (if c_force cf then ret None
            else
              r <- sys false KLstat (fun f => (f, sys_lstat f op)) ;;
              match r with
              | SOk st =>
                  if match c_outmode cf with OmRegf => true | _ => false end
                     && negb (match st_kind st with SReg => true | _ => false end)
                  then warn "notreg" ;;; ret (Some "notreg"%string)
                  else if match c_outmode cf with OmRegf => true | _ => false end
                          && negb (c_keep cf) && (nlink_limit <? st_nlink st)
                  then warn "links" ;;; ret (Some "links"%string)
                  else ret None
              | _ => warn "lstat" ;;; ret (Some "lstat"%string)
              end) ;;
    match pre with
    | Some tag => ret (inl tag)
    | None =>
        if negb (c_decompress cf) && is_compressed_name op
        then warn "suffix" ;;; ret (inl "suffix"%string)
        else
          r <- sys false KOpen (fun f => (f, sys_open_rd f op)) ;;
          match r with
          | SOk iin =>
              r2 <- sys false KFstat (fun f => (f, sys_fstat f iin)) ;;
              match r2 with
              | SOk st => ret (inr (iin, st))
              | _ =>
                  warn "fstat" ;;;
                  r3 <- sys false KClose sys_close_nop ;;
                  match r3 with
                  | SErr _ => fatal "close-in"
                  | _ => ret (inl "fstat"%string)
                  end
              end
          | _ => warn "open" ;;; ret (inl "open"%string)
          end
    end.

  (* ---- output_init() ------------------------------------------------------------------ *)
  Definition output_init (op : path) (st : stat) : M (option odst) :=
    match c_outmode cf with
    | OmStdout => ret (Some OStdout)
    | OmDiscard => ret (Some ODiscard)
    | OmRegf =>
        match out_name (c_decompress cf) op with
        | None => fatal "nosuffix"      (* suffix_xform() found nothing: not reachable with a catch-all entry *)
        | Some q => fun s =>
            (* with the repair of the -f data loss in the source (regenerated flag): the output name is first
               stat()ed, and the operand is skipped if that name leads to the file being read.  The stat() is
               not a counted call (the fault shim does not wrap it; its failure for reasons other than the
               name being absent is not modelled). *)
            if c_force cf && output_init_checks_same_file && same_file (m_fs s) q st
            then (warn "samefile" ;;; ret None) s
            else
            ((if c_force cf then
               r <- sys false KUnlink (fun f => sys_unlink f q) ;;
               match r with
               | SErr e => if N.eqb e ENOENT then ret tt else say MInfo "unlink-out"
               | _ => ret tt
               end
             else ret tt) ;;;
            r <- sys false KOpen (fun f => sys_creat_excl f q (N.land (st_mode st) open_out_mode_mask)
                                                        (c_uid cf) (c_gid cf) (c_now cf)) ;;
            match r with
            | SOk i => modify (fun s => set_opathn s (Some q)) ;;; ret (Some (OFile i))
            | _ => warn "open-out" ;;; ret None
            end) s
        end
    end.

  (* ---- work() ------------------------------------------------------------------------------ *)
  Fixpoint main_reads (n : nat) (iin : N) : M unit :=
    match n with
    | O => ret tt
    | S n' =>
        r <- sys false KRead (fun f => sys_read f iin) ;;
        match r with
        | SErr _ => fatal "read"
        | _ => main_reads n' iin
        end
    end.

  (* A write() that fails with EFBIG / EPIPE comes with SIGXFSZ / SIGPIPE generated for the writing thread, where it
     is blocked (setup_signals()).  failfx() prints nothing for these two; bailout() of a worker thread promotes the
     pending signal to the process and raises SIGUSR1.  While the main thread waits in halt() with the mask saved by
     cli() (regenerated fact), the promoted signal stays blocked: the main thread runs bailout(): cleanup(), then
     unblocks it and dies from it.  If halt() waited with those signals unblocked, the promoted signal would kill the
     process at once, before cleanup().  (Inherited SIG_IGN for these signals is not modelled.) *)
  Definition die_by {A} (inhalt : bool) (sg : signal) : M A :=
    if inhalt && negb fatal_signals_blocked_in_halt
    then stop (Killed sg) WSigDefault
    else cleanup ;;; stop (Killed sg) (WFatal "write").

  Definition write_failed {A} (inhalt : bool) (e : N) : M A :=
    if N.eqb e EFBIG then die_by inhalt SIGXFSZ
    else if N.eqb e EPIPE then die_by inhalt SIGPIPE
    else fatal "write".

  (* xwrite(): no call for an empty buffer or when discarding *)
  Definition do_write (inhalt : bool) (o : odst) (chunk : bytes) : M unit :=
    match chunk with
    | [] => ret tt
    | _ =>
        match o with
        | ODiscard => ret tt
        | OStdout =>
            r <- sys inhalt KWriteStdout (sys_write_stdout chunk) ;;
            match r with SErr e => write_failed inhalt e | _ => ret tt end
        | OFile i =>
            r <- sys inhalt KWrite (sys_write (c_now cf) i chunk) ;;
            match r with SErr e => write_failed inhalt e | _ => ret tt end
        end
    end.

  Fixpoint do_io (iin : N) (o : odst) (evs : list ioev) : M unit :=
    match evs with
    | [] => ret tt
    | IoRead :: r =>
        x <- sys true KRead (fun f => sys_read f iin) ;;
        match x with
        | SErr _ => fatal "read"
        | _ => do_io iin o r
        end
    | IoWrite c :: r => do_write true o c ;;; do_io iin o r
    end.

  (* the main thread reaches sigsuspend(): a signal that became pending while it
     was blocked is handled now *)
  Definition halt_entry : M unit := fun s =>
    if m_pint s then handled_in_halt cleanup SIGINT s
    else if m_pterm s then handled_in_halt cleanup SIGTERM s
    else Ret tt s.

  (* schedule()/copy(): threads do the I/O, the main thread waits in halt() *)
  Definition schedule (iin : N) (o : odst) (isdir : bool) (cr : cres) : M unit :=
    halt_entry ;;;
    do_io iin o (if isdir then [IoRead] else c_io cr) ;;;
    (if c_ok cr || isdir then ret tt else fatal "data").

  Definition is_stdout (o : odst) : bool := match o with OStdout => true | _ => false end.

  Definition work (iin : N) (o : odst) : M unit := fun s =>
    let d := input_data (m_fs s) iin in
    let isdir := input_is_dir (m_fs s) iin in
    (if c_decompress cf then
       main_reads (hdr_reads d) iin ;;;
       if hdr_ok d then schedule iin o isdir (codec CExpand d)
       else if c_force cf && is_stdout o then
         do_write false o (firstn 4 d) ;;; schedule iin o isdir (codec CCopy (skipn 4 d))
       else fatal "notbz2"
     else schedule iin o isdir (codec CCompress d)) s.

  (* ---- output_regf_uninit(), input_oprnd_rm(), sti(), input_uninit() ------------- *)
  Definition regf_uninit (iout : N) (st : stat) : M unit :=
    r <- sys false KFchown (sys_fchown iout (fld fchown_fields 0 st) (fld fchown_fields 1 st)) ;;
    (match r with
     | SErr _ => warn "fchown"
     | _ =>
         (if negb (N.land (st_mode st) special_mask =? 0) then warn "special" else ret tt) ;;;
         r2 <- sys false KFchmod (sys_fchmod iout (N.land (st_mode st) fchmod_mask)) ;;
         match r2 with SErr _ => warn "fchmod" | _ => ret tt end
     end) ;;;
    r3 <- sys false KFutimens (sys_futimens iout (fld futimens_fields 0 st) (fld futimens_fields 1 st)) ;;
    (match r3 with SErr _ => warn "futimens" | _ => ret tt end) ;;;
    r4 <- sys false KClose (sys_close_out iout) ;;
    (match r4 with SErr _ => fatal "close-out" | _ => ret tt end) ;;;
    modify (fun s => set_opathn s None).

  Definition oprnd_rm (op : path) : M unit :=
    r <- sys false KUnlink (fun f => sys_unlink f op) ;;
    match r with
    | SErr e =>
        modify (fun s => set_rmfail s true) ;;;
        if N.eqb e ENOENT then ret tt else warn "unlink-in"
    | _ => ret tt
    end.

  Definition sti : M unit := fun s =>
    let s1 := set_blocked s false in
    if m_pint s then Stop (Killed SIGINT) WSigSti s1
    else if m_pterm s then Stop (Killed SIGTERM) WSigSti s1
    else Ret tt s1.

  Definition input_uninit : M unit :=
    r <- sys false KClose sys_close_nop ;;
    match r with SErr _ => fatal "close-in" | _ => ret tt end.

  (* ---- one operand (body of the do-while loop) ------------------------------------- *)
  Definition run1 (op : path) : M disp :=
    ii <- input_init op ;;
    match ii with
    | inl tag => ret (DSkipped tag)
    | inr (iin, st) =>
        modify (fun s => set_blocked s true) ;;;                    (* cli() *)
        oo <- output_init op st ;;
        d <- (match oo with
              | None => ret (DSkipped "open-out"%string)
              | Some o =>
                  work iin o ;;;
                  (match o with
                   | OFile iout =>
                       regf_uninit iout st ;;;
                       (if c_keep cf then ret tt else oprnd_rm op)
                   | _ => ret tt
                   end) ;;;
                  ret DDone
              end) ;;
        sti ;;;
        input_uninit ;;;
        ret d
    end.

  Definition mk_hentry (op : path) (s0 s1 : mstate) (d : disp) : hentry :=
    {| h_op := op; h_before := m_fs s0; h_after := m_fs s1; h_disp := d;
       h_rmfail := m_rmfail s1; h_cleanfail := m_cleanfail s1 |}.

  Definition run_op (op : path) : M unit := fun s =>
    let s0 := set_cleanfail (set_rmfail s false) false in
    match run1 op s0 with
    | Ret d s1 => Ret tt (push_hist s1 (mk_hentry op s0 s1 d))
    | Stop o w s1 => Stop o w (push_hist s1 (mk_hentry op s0 s1 (DAborted w)))
    end.

  (* after the last operand: close(stdout) under -c, _exit(warned ? EX_WARN : EX_OK) *)
  Definition finish (s : mstate) : mstate * outcome :=
    match (match c_outmode cf with
           | OmStdout =>
               r <- sys false KCloseStdout sys_close_nop ;;
               match r with SErr _ => fatal "close-stdout" | _ => ret tt end
           | _ => ret tt
           end) s with
    | Ret _ s' => (s', Exit (if m_warned s' then exit_if_warned else exit_if_clean))
    | Stop o _ s' => (s', o)
    end.

  Fixpoint run_ops (ops : list path) (s : mstate) : mstate * outcome :=
    match ops with
    | [] => finish s
    | op :: r =>
        match run_op op s with
        | Ret _ s' => run_ops r s'
        | Stop o _ s' => (s', o)
        end
    end.
End Run.

(* The operand loop on FILE operands.  (With no operand lbzip2 is a filter on
   stdin/stdout; that mode belongs to other properties and is not modelled.) *)
Definition run_full (codec : cmode -> bytes -> cres) (cf : cfg) (f : fs) (ops : list path) (pl : plan)
  : mstate * outcome := run_ops codec cf pl ops (init_state f).

Definition run (codec : cmode -> bytes -> cres) (cf : cfg) (f : fs) (ops : list path) (pl : plan)
  : fs * outcome :=
  let '(s, o) := run_full codec cf f ops pl in (m_fs s, o).
