(* Proofs for C17 (naming, admission, metadata, removal, exit status) and C18
   (fold, independence) over the fault-free effect function; the theorems that
   quantify over all fault/signal plans (C17 no_clobber, C16) are in
   FrontSafety.v. *)
From Coq Require Import List NArith Arith Bool String Ascii Lia.
From LBZ Require Import Gen.FrontTab Front.FsModel Front.MainLoop Front.FrontSpec Front.FrontLemmas Front.FrontNoFault.
Import ListNotations.
Local Open Scope N_scope.

(* ---- side conditions on the regenerated constants (by computation) ------------------ *)
Lemma sc_suf_macro : suf_macro_is_strlen = true. Proof. reflexivity. Qed.
Lemma sc_compress_suffix : compress_suffix = ".bz2"%string. Proof. reflexivity. Qed.
Lemma sc_open_out_excl : existsb (String.eqb "O_EXCL") open_out_flags = true /\
                         existsb (String.eqb "O_CREAT") open_out_flags = true /\
                         existsb (String.eqb "O_TRUNC") open_out_flags = false /\
                         existsb (String.eqb "O_WRONLY") open_out_flags = true.
Proof. repeat split. Qed.
Lemma sc_open_in_flags : existsb (String.eqb "O_RDONLY") open_in_flags = true /\
                         existsb (String.eqb "O_CREAT") open_in_flags = false /\
                         existsb (String.eqb "O_TRUNC") open_in_flags = false.
Proof. repeat split. Qed.
Lemma sc_open_out_mode : open_out_mode_mask = 384. Proof. reflexivity. Qed.       (* S_IRUSR|S_IWUSR *)
Lemma sc_fchmod_mask : fchmod_mask = 511. Proof. reflexivity. Qed.               (* S_IRWXU|S_IRWXG|S_IRWXO *)
Lemma sc_special_mask : special_mask = 3584. Proof. reflexivity. Qed.            (* S_ISUID|S_ISGID|S_ISVTX *)
Lemma sc_nlink_limit : nlink_limit = 1. Proof. reflexivity. Qed.
Lemma sc_futimens : futimens_fields = ["st_atim"; "st_mtim"]%string. Proof. reflexivity. Qed.
Lemma sc_fchown : fchown_fields = ["st_uid"; "st_gid"]%string. Proof. reflexivity. Qed.
Lemma sc_exit_codes : exit_if_clean = 0 /\ exit_if_warned = 4 /\ bailout_exit = 1 /\
                      EX_OK = 0 /\ EX_WARN = 4 /\ EX_FAIL = 1.
Proof. repeat split. Qed.
(* no table entry replaces a suffix by itself: the output name differs from the operand *)
Lemma sc_suffix_distinct :
  forallb (fun e => negb (String.eqb (fst (fst e)) (snd (fst e)))) suffix_tab = true.
Proof. reflexivity. Qed.
(* the table ends with a catch-all entry usable for output names *)
Lemma sc_suffix_catch_all :
  existsb (fun e => String.eqb (fst (fst e)) "") suffix_tab = true.
Proof. reflexivity. Qed.

(* ---- the order of calls in the source is the order of the model -------------------- *)
Lemma sc_main_order :
  main_order = ["setup_signals"; "opts_setup"; "input_init"; "cli"; "output_init"; "work"; "output_regf_uninit";
                "input_oprnd_rm"; "sti"; "input_uninit"; "close"; "_exit"]%string.
Proof. reflexivity. Qed.
Lemma sc_main_nesting :
  main_cli_under = ["do"; "if:-1!=ret"]%string /\
  main_work_under = ["do"; "if:-1!=ret"; "if:-1!=output_init(operands,&instat)"]%string /\
  main_output_regf_uninit_under = ["do"; "if:-1!=ret"; "if:-1!=output_init(operands,&instat)"; "if:OM_REGF==outmode"]%string /\
  main_input_oprnd_rm_under = ["do"; "if:-1!=ret"; "if:-1!=output_init(operands,&instat)"; "if:OM_REGF==outmode"; "if:!keep"]%string /\
  main_sti_under = ["do"; "if:-1!=ret"]%string /\
  main_input_uninit_under = ["do"; "if:-1!=ret"]%string /\
  close_stdout_guard = "OM_STDOUT==outmode&&-1==close(STDOUT_FILENO)"%string.
Proof. repeat split. Qed.
Lemma sc_input_init_order :
  input_init_order = ["lstat"; "S_ISREG"; "st_nlink"; "suffix_xform"; "open"; "fstat"; "close"]%string /\
  lstat_under = ["if:!force"]%string /\
  isreg_guard = "OM_REGF==outmode&&!S_ISREG(sbuf->st_mode)"%string /\ isreg_under = ["if:!force"]%string /\
  nlink_guard = "OM_REGF==outmode&&!keep&&sbuf->st_nlink>(nlink_t)1"%string /\ nlink_under = ["if:!force"]%string /\
  sufskip_guard = "!decompress&&suffix_xform(operand->val,0)"%string /\ sufskip_under = []%string.
Proof. repeat split. Qed.
Lemma sc_output_init_order :
  output_init_order = ["suffix_xform"; "unlink"; "open"; "opathn_set"]%string /\
  unlink_out_guard = "force&&-1==unlink(tmp)&&ENOENT!=errno"%string.
Proof. repeat split. Qed.
Lemma sc_regf_uninit_order :
  regf_uninit_order = ["fchown"; "fchmod"; "futimens"; "close"; "opathn_clear"]%string /\
  fchmod_under = ["else"]%string /\ close_out_handler = "failx"%string /\
  rm_handler = "warnx"%string /\ close_in_handler = "failx"%string /\
  rm_guard = "-1==unlink(operand->val)&&ENOENT!=errno"%string.
Proof. repeat split. Qed.
Lemma sc_cleanup_order :
  cleanup_order = ["unlink"; "opathn_clear"]%string /\ cleanup_guard = "opathn!=NULL"%string.
Proof. repeat split. Qed.
Lemma sc_signals :
  handled_signals = ["SIGUSR1"; "SIGUSR2"; "SIGINT"; "SIGTERM"]%string /\
  halt_cases = [("default", "cleanup,terminate"); ("SIGUSR1", "bailout"); ("SIGUSR2", "break")]%string /\
  bailout_main_order = ["cleanup"; "xmask"; "_exit"]%string /\
  bailout_sub_order = ["promote"; "xraise"; "pthread_exit"]%string /\
  terminate_order = ["xaction"; "xraise"; "xmask"; "_exit"]%string /\
  cli_mask = ("SIG_BLOCK", "handled")%string /\ cli_order = ["xmask"; "xaction"]%string /\
  sti_mask = ("SIG_UNBLOCK", "handled")%string /\ sti_order = ["xaction"; "xmask"]%string /\
  sti_action = "SIG_DFL"%string.
Proof. repeat split. Qed.
Lemma sc_suffix_walk :
  suffix_loop = "ofs=0u;ofs<sizeofsuffix/sizeofsuffix[0];++ofs"%string /\
  suffix_entry_guard = "(suffix[ofs].chk_compr||0!=decompr_pathname)&&len>=suffix[ofs].compr_len"%string /\
  suffix_cmp = "0==strcmp(compr_pathname+prefix_len,suffix[ofs].compr)"%string.
Proof. repeat split. Qed.

(* ---- naming ---------------------------------------------------------------------------- *)
Lemma out_name_compress s : out_name false s = Some (s ++ ".bz2")%string.
Proof. reflexivity. Qed.

Lemma ends_with_lit_false x (c d : string) :
  prefixb (rev_s d) (rev_s c) = false -> (String.length d <= String.length c)%nat ->
  ends_with (x ++ c) d = false.
Proof.
  intros H L. unfold ends_with. rewrite rev_s_app.
  destruct (prefixb (rev_s d) (rev_s c ++ rev_s x)) eqn:E; auto.
  apply prefixb_true_split in E as [r E].
  assert (P : prefixb (rev_s d) (rev_s c) = true).
  { rewrite <- (length_rev_s d), <- (length_rev_s c) in L.
    revert E L. generalize (rev_s d) (rev_s c) (rev_s x). clear.
    induction l as [|a l IH]; intros l0 lx E L; simpl; auto.
    destruct l0 as [|b l0]; simpl in *; [lia|].
    inversion E; subst. rewrite Ascii.eqb_refl. simpl. eapply IH; eauto. lia. }
  congruence.
Qed.

Lemma out_name_bz2 x : out_name true (x ++ ".bz2") = Some x.
Proof.
  unfold out_name. cbn [suffix_tab sfx_find orb andb].
  rewrite ends_with_app. cbn [andb]. rewrite strip_suffix_app, append_nil_r. reflexivity.
Qed.

Lemma out_name_tbz2 x : out_name true (x ++ ".tbz2") = Some (x ++ ".tar")%string.
Proof.
  unfold out_name. cbn [suffix_tab sfx_find orb andb].
  rewrite (ends_with_lit_false x ".tbz2" ".bz2") by (cbn; auto; lia).
  rewrite ends_with_app. cbn [andb]. rewrite strip_suffix_app. reflexivity.
Qed.

Lemma out_name_tbz x : out_name true (x ++ ".tbz") = Some (x ++ ".tar")%string.
Proof.
  unfold out_name. cbn [suffix_tab sfx_find orb andb].
  rewrite (ends_with_lit_false x ".tbz" ".bz2") by (cbn; auto; lia).
  assert (E : ends_with (x ++ ".tbz") ".tbz2" = false).
  { unfold ends_with. rewrite rev_s_app. reflexivity. }
  rewrite E. rewrite ends_with_app. cbn [andb]. rewrite strip_suffix_app. reflexivity.
Qed.

Lemma out_name_tz2 x : out_name true (x ++ ".tz2") = Some (x ++ ".tar")%string.
Proof.
  unfold out_name. cbn [suffix_tab sfx_find orb andb].
  rewrite (ends_with_lit_false x ".tz2" ".bz2") by (cbn; auto; lia).
  assert (E : ends_with (x ++ ".tz2") ".tbz2" = false).
  { unfold ends_with. rewrite rev_s_app. reflexivity. }
  rewrite E. rewrite (ends_with_lit_false x ".tz2" ".tbz") by (cbn; auto; lia).
  rewrite ends_with_app. cbn [andb]. rewrite strip_suffix_app. reflexivity.
Qed.

Definition has_compressed_suffix (s : string) : bool :=
  ends_with s ".bz2" || ends_with s ".tbz" || ends_with s ".tbz2" || ends_with s ".tz2".

Lemma ends_with_nil s : ends_with s "" = true.
Proof. reflexivity. Qed.

Lemma strip_suffix_nil s : strip_suffix s "" = s.
Proof.
  unfold strip_suffix. cbn [String.length skipn]. unfold rev_s. rewrite rev_involutive.
  apply string_of_list_ascii_of_string.
Qed.

Lemma out_name_other s : has_compressed_suffix s = false -> out_name true s = Some (s ++ ".out")%string.
Proof.
  unfold has_compressed_suffix. intro H.
  apply orb_false_iff in H as [H H4]. apply orb_false_iff in H as [H H3]. apply orb_false_iff in H as [H1 H2].
  unfold out_name. cbn [suffix_tab sfx_find orb andb]. rewrite H1, H2, H3, H4. cbn [andb].
  rewrite ends_with_nil, strip_suffix_nil. reflexivity.
Qed.

Lemma is_compressed_name_spec s : is_compressed_name s = has_compressed_suffix s.
Proof.
  unfold is_compressed_name, has_compressed_suffix. cbn [suffix_tab sfx_find orb andb].
  destruct (ends_with s ".bz2"), (ends_with s ".tbz2"), (ends_with s ".tbz"), (ends_with s ".tz2"); reflexivity.
Qed.

(* an output name always exists (catch-all entry) and differs from the operand *)
Lemma sfx_find_in tab b s c d k : sfx_find tab b s = Some (c, d, k) -> In (c, d, k) tab /\ ends_with s c = true.
Proof.
  induction tab as [|[[c0 d0] k0] tab IH]; simpl; try discriminate.
  destruct ((k0 || b) && ends_with s c0) eqn:E.
  - intro H. inversion H; subst. apply andb_true_iff in E. tauto.
  - intro H. apply IH in H. tauto.
Qed.

Lemma out_name_some dec s : exists q, out_name dec s = Some q.
Proof.
  destruct dec; [|eexists; reflexivity].
  destruct (has_compressed_suffix s) eqn:E.
  - unfold has_compressed_suffix in E. unfold out_name. cbn [suffix_tab sfx_find orb andb].
    destruct (ends_with s ".bz2"); [eexists; reflexivity|].
    destruct (ends_with s ".tbz2"); [eexists; reflexivity|].
    destruct (ends_with s ".tbz"); [eexists; reflexivity|].
    destruct (ends_with s ".tz2"); [eexists; reflexivity|]. discriminate.
  - rewrite out_name_other by auto. eexists; reflexivity.
Qed.

Lemma out_name_neq dec s q : out_name dec s = Some q -> q <> s.
Proof.
  destruct dec; unfold out_name.
  - destruct (sfx_find suffix_tab true s) as [[[c d] k]|] eqn:E; try discriminate.
    intro H. inversion H; subst. clear H. apply sfx_find_in in E as [Hin He].
    intro Heq. pose proof (ends_with_split s c He) as Hs.
    rewrite Hs in Heq at 2. apply string_app_inv_head in Heq. subst d.
    pose proof sc_suffix_distinct as SC. rewrite forallb_forall in SC. specialize (SC _ Hin).
    cbn in SC. rewrite String.eqb_refl in SC. discriminate.
  - intro H. inversion H; subst. intro Heq.
    apply (f_equal String.length) in Heq. rewrite string_length_app in Heq.
    rewrite sc_compress_suffix in Heq. cbn in Heq. lia.
Qed.

(* ---- what work() does to a freshly created output file ---------------------------------- *)
Definition same_meta (a b : inode) : Prop :=
  i_kind a = i_kind b /\ i_mode a = i_mode b /\ i_uid a = i_uid b /\ i_gid a = i_gid b /\
  i_atime a = i_atime b /\ i_committed a = i_committed b.

Lemma same_meta_refl a : same_meta a a.
Proof. repeat split. Qed.
Lemma same_meta_trans a b c : same_meta a b -> same_meta b c -> same_meta a c.
Proof. unfold same_meta. intuition congruence. Qed.

Section EffFacts.
  Variable codec : cmode -> bytes -> cres.
  Variable cf : cfg.

  (* file system relation: only inode [i] changed, by appending [w] to its data *)
  Definition appended (i : N) (w : bytes) (f f' : fs) : Prop :=
    f_names f' = f_names f /\ f_stdout f' = f_stdout f /\
    (forall j, j <> i -> ilook f' j = ilook f j) /\
    (ilook f i = None -> ilook f' i = None) /\
    (forall nd, ilook f i = Some nd ->
       exists nd', ilook f' i = Some nd' /\ same_meta nd' nd /\ i_data nd' = (i_data nd ++ w)%list).

  Lemma appended_refl i f : appended i [] f f.
  Proof.
    repeat split; auto. intros nd H. exists nd. rewrite app_nil_r. repeat split; auto.
  Qed.

  Lemma appended_trans i w1 w2 f1 f2 f3 :
    appended i w1 f1 f2 -> appended i w2 f2 f3 -> appended i (w1 ++ w2) f1 f3.
  Proof.
    intros (A1 & A2 & A3 & A0 & A4) (B1 & B2 & B3 & B0 & B4). repeat split; try congruence; auto.
    - intros j Hj. rewrite B3, A3; auto.
    - intros nd H. destruct (A4 nd H) as (nd1 & H1 & M1 & D1). destruct (B4 nd1 H1) as (nd2 & H2 & M2 & D2).
      exists nd2. split; [exact H2|]. split; [eapply same_meta_trans; eauto|].
      rewrite D2, D1, app_assoc. reflexivity.
  Qed.

  Lemma eff_write_file i c f : appended i c f (eff_write cf (OFile i) c f).
  Proof.
    destruct c as [|b c]; [apply appended_refl|]. cbn [eff_write sys_write fst].
    repeat split.
    - apply names_upd_inode.
    - apply stdout_upd_inode.
    - intros j Hj. apply ilook_upd_inode_neq. auto.
    - intro H. rewrite ilook_upd_inode_none; auto.
    - intros nd H. eexists. split; [apply ilook_upd_inode_eq; exact H|]. cbn. repeat split.
  Qed.

  Lemma appended_isdir i w f f' j : appended i w f f' -> input_is_dir f' j = input_is_dir f j.
  Proof.
    intros (_ & _ & A3 & A0 & A4). unfold input_is_dir. destruct (N.eq_dec j i) as [->|Hj].
    - destruct (ilook f i) as [nd|] eqn:E.
      + destruct (A4 nd eq_refl) as (nd' & -> & (K & _) & _). rewrite K. reflexivity.
      + rewrite A0; auto.
    - rewrite A3; auto.
  Qed.

  Lemma appended_ilook_some i w f f' j : appended i w f f' -> ilook f j <> None -> ilook f' j <> None.
  Proof.
    intros (_ & _ & A3 & A0 & A4) H. destruct (N.eq_dec j i) as [->|Hj].
    - destruct (ilook f i) as [nd|] eqn:E; [|congruence].
      destruct (A4 nd eq_refl) as (nd' & -> & _). discriminate.
    - rewrite A3; auto.
  Qed.

  Lemma sys_read_ok f iin : input_is_dir f iin = false -> ilook f iin <> None -> snd (sys_read f iin) = SOk tt.
  Proof.
    unfold input_is_dir, sys_read. destruct (ilook f iin) as [nd|]; [|congruence].
    destruct (i_kind nd); try discriminate; reflexivity.
  Qed.

  Lemma sys_read_dir f iin : input_is_dir f iin = true -> exists e, snd (sys_read f iin) = SErr e.
  Proof.
    unfold input_is_dir, sys_read. destruct (ilook f iin) as [nd|]; [|discriminate].
    destruct (i_kind nd); try discriminate. eexists; reflexivity.
  Qed.

  (* the I/O of the worker threads on a file output: everything written is appended,
     and nothing else changes; it only fails if the input is a directory *)
  Lemma eff_io_file iin iout evs : forall f,
    input_is_dir f iin = false -> ilook f iin <> None ->
    exists f', eff_io cf iin (OFile iout) evs f = (f', true) /\ appended iout (writes_of evs) f f'.
  Proof.
    induction evs as [|[|c] evs IH]; intros f Hd Hi; cbn [eff_io].
    - exists f. split; [reflexivity|]. apply appended_refl.
    - rewrite (sys_read_ok f iin Hd Hi). apply IH; auto.
    - pose proof (eff_write_file iout c f) as A.
      destruct (IH (eff_write cf (OFile iout) c f)) as (f' & E & A').
      + rewrite (appended_isdir _ _ _ _ iin A). exact Hd.
      + eapply appended_ilook_some; eauto.
      + exists f'. split; [exact E|]. unfold writes_of. cbn [map List.concat].
        eapply appended_trans; eauto.
  Qed.

  Lemma eff_main_reads_ok n iin f :
    input_is_dir f iin = false -> ilook f iin <> None -> eff_main_reads n iin f = true.
  Proof. intros Hd Hi. induction n; cbn; auto. rewrite (sys_read_ok f iin Hd Hi). exact IHn. Qed.

  Lemma eff_main_reads_dir n iin f :
    input_is_dir f iin = true -> (0 < n)%nat -> eff_main_reads n iin f = false.
  Proof. intros Hd Hn. destruct n; [lia|]. cbn. destruct (sys_read_dir f iin Hd) as [e ->]. reflexivity. Qed.

  Lemma hdr_reads_pos d : (0 < hdr_reads d)%nat.
  Proof. unfold hdr_reads. destruct (4 <=? List.length d)%nat; [lia|]. destruct (List.length d =? 0)%nat; lia. Qed.

  (* work() on a directory fails *)
  Lemma eff_work_dir iin o f : input_is_dir f iin = true -> exists f' tag, eff_work codec cf iin o f = (f', Some tag).
  Proof.
    intro Hd. unfold eff_work. rewrite Hd.
    destruct (c_decompress cf).
    - rewrite (eff_main_reads_dir _ _ _ Hd (hdr_reads_pos _)). eexists; eexists; reflexivity.
    - unfold eff_schedule. cbn [eff_io]. destruct (sys_read_dir f iin Hd) as [e ->]. eexists; eexists; reflexivity.
  Qed.

  (* work() writing to a fresh file: it either fails, or the file holds the complete output *)
  Lemma eff_work_file iin iout f f' :
    ilook f iin <> None ->
    eff_work codec cf iin (OFile iout) f = (f', None) ->
    input_is_dir f iin = false /\
    exists w, expected_output codec cf (input_data f iin) = Some w /\ appended iout w f f'.
  Proof.
    intros Hi H. destruct (input_is_dir f iin) eqn:Hd.
    { destruct (eff_work_dir iin (OFile iout) f Hd) as (f2 & tag & E). congruence. }
    split; [reflexivity|]. unfold eff_work in H. rewrite Hd in H. unfold expected_output.
    destruct (c_decompress cf).
    - rewrite (eff_main_reads_ok _ _ _ Hd Hi) in H.
      destruct (hdr_ok (input_data f iin)).
      + unfold eff_schedule in H.
        destruct (eff_io_file iin iout (c_io (codec CExpand (input_data f iin))) f Hd Hi) as (f2 & E & A).
        rewrite E in H. rewrite orb_false_r in H. destruct (c_ok (codec CExpand (input_data f iin))); [|discriminate].
        inversion H; subst. eexists. split; [reflexivity | exact A].
      + rewrite andb_false_r in H. discriminate.
    - unfold eff_schedule in H.
      destruct (eff_io_file iin iout (c_io (codec CCompress (input_data f iin))) f Hd Hi) as (f2 & E & A).
      rewrite E in H. rewrite orb_false_r in H. destruct (c_ok (codec CCompress (input_data f iin))); [|discriminate].
      inversion H; subst. eexists. split; [reflexivity | exact A].
  Qed.
End EffFacts.

Section OpFacts.
  Variable codec : cmode -> bytes -> cres.
  Variable cf : cfg.

  Lemma open_rd_ok f op iin : sys_open_rd f op = SOk iin -> ilook f iin <> None /\ nlook f op <> None.
  Proof.
    unfold sys_open_rd. unfold SYMLOOP_MAX.
    destruct (resolve f 40 op) as [i|e|] eqn:R; try discriminate.
    destruct (ilook f i) as [nd|] eqn:E; try discriminate.
    intro H. assert (i = iin) by (destruct (i_kind nd); congruence). subst i.
    split; [congruence|]. cbn [resolve] in R. destruct (nlook f op); congruence.
  Qed.

  (* open() on a name that is a plain link opens that inode *)
  Lemma open_rd_link f op i iin : nlook f op = Some (DLink i) -> sys_open_rd f op = SOk iin -> iin = i.
  Proof.
    unfold sys_open_rd, SYMLOOP_MAX. cbn [resolve]. intros ->.
    destruct (ilook f i) as [nd|]; [destruct (i_kind nd)|]; congruence.
  Qed.

  Lemma fstat_ok f iin st : sys_fstat f iin = SOk st -> exists nd, ilook f iin = Some nd /\ st = stat_of f iin nd.
  Proof. unfold sys_fstat. destruct (ilook f iin) as [nd|]; [|discriminate]. intro H. inversion H. eauto. Qed.

  Definition admissible (f : fs) (op : path) : Prop :=
    exists st, sys_lstat f op = SOk st /\ st_kind st = SReg /\ (c_keep cf = true \/ st_nlink st <= nlink_limit).

  Lemma eff_input_init_ok op f iin st :
    eff_input_init cf op f = IIOk iin st ->
    sys_open_rd f op = SOk iin /\ sys_fstat f iin = SOk st /\
    (c_decompress cf = false -> is_compressed_name op = false) /\
    (c_force cf = false -> c_outmode cf = OmRegf -> admissible f op).
  Proof.
    unfold eff_input_init, is_regf, admissible. intro H.
    assert (T : (if negb (c_decompress cf) && is_compressed_name op then IISkip "suffix"
                 else match sys_open_rd f op with
                      | SOk iin => match sys_fstat f iin with SOk st => IIOk iin st | _ => IISkip "fstat" end
                      | SErr _ => IISkip "open" | SHang => IIHang end) = IIOk iin st ->
                sys_open_rd f op = SOk iin /\ sys_fstat f iin = SOk st /\
                (c_decompress cf = false -> is_compressed_name op = false)).
    { destruct (negb (c_decompress cf) && is_compressed_name op) eqn:E; [discriminate|].
      destruct (sys_open_rd f op) as [i|e|]; try discriminate.
      destruct (sys_fstat f i) as [s|e|] eqn:Es; try discriminate.
      intro H'. inversion H'; subst. repeat split; auto.
      intro Hd. rewrite Hd in E. exact E. }
    destruct (c_force cf).
    - destruct (T H) as (A & B & C). repeat split; auto. discriminate.
    - destruct (sys_lstat f op) as [lst|e|] eqn:El; try discriminate.
      destruct (c_outmode cf) eqn:Eo; cbn [andb] in H.
      + destruct (T H) as (A & B & C). repeat split; auto. discriminate.
      + destruct (T H) as (A & B & C). repeat split; auto. discriminate.
      + destruct (st_kind lst) eqn:Ek; cbn [negb] in H; try discriminate.
        destruct (negb (c_keep cf) && (nlink_limit <? st_nlink lst)) eqn:En; [discriminate|].
        destruct (T H) as (A & B & C). repeat split; auto. intros _ _.
        exists lst. repeat split; auto. apply andb_false_iff in En as [En|En].
        * left. destruct (c_keep cf); auto.
        * right. apply N.ltb_ge in En. exact En.
  Qed.

  (* ---- C17 admission: what is not admitted is skipped, warned about, and untouched ---- *)
  Lemma admission op f :
    c_outmode cf = OmRegf -> c_force cf = false -> ~ admissible f op ->
    exists t, op_effect codec cf op f = {| e_fs := f; e_warn := true; e_end := ENext (DSkipped t) |}.
  Proof.
    intros Ho Hf Hn. unfold op_effect.
    destruct (eff_input_init cf op f) as [t|iin st|] eqn:E.
    - eexists; reflexivity.
    - exfalso. apply Hn. apply (eff_input_init_ok op f iin st E); auto.
    - exfalso. unfold eff_input_init in E. rewrite Hf in E.
      destruct (sys_lstat f op) as [lst|e|] eqn:El; try discriminate.
      unfold is_regf in E. rewrite Ho in E. cbn [andb] in E.
      destruct (st_kind lst) eqn:Ek; cbn [negb] in E; try discriminate.
      destruct (negb (c_keep cf) && (nlink_limit <? st_nlink lst)) eqn:En; [discriminate|].
      apply Hn. exists lst. repeat split; auto. apply andb_false_iff in En as [En|En].
      + left. destruct (c_keep cf); auto.
      + right. apply N.ltb_ge in En. exact En.
  Qed.

  (* ---- C17 compressed suffix: skipped when compressing, with or without -f ------------ *)
  Lemma suffix_skip op f :
    c_decompress cf = false -> is_compressed_name op = true ->
    exists t, op_effect codec cf op f = {| e_fs := f; e_warn := true; e_end := ENext (DSkipped t) |}.
  Proof.
    intros Hd Hs. unfold op_effect.
    assert (E : exists t, eff_input_init cf op f = IISkip t).
    { unfold eff_input_init. rewrite Hd, Hs. cbn [negb andb].
      destruct (c_force cf); [eexists; reflexivity|].
      destruct (sys_lstat f op) as [lst|e|]; try (eexists; reflexivity).
      destruct (is_regf cf && negb match st_kind lst with SReg => true | _ => false end); [eexists; reflexivity|].
      destruct (is_regf cf && negb (c_keep cf) && (nlink_limit <? st_nlink lst)); eexists; reflexivity. }
    destruct E as [t ->]. eexists; reflexivity.
  Qed.
End OpFacts.

Section OpDone.
  Variable codec : cmode -> bytes -> cres.
  Variable cf : cfg.

  Lemma unlink_ok f p :
    nlook f p <> None ->
    (forall i, nlook f p = Some (DLink i) -> input_is_dir f i = false) ->
    sys_unlink f p = (set_names f (arem String.eqb p (f_names f)), SOk tt).
  Proof.
    intros H1 H2. unfold sys_unlink. destruct (nlook f p) as [[i|t]|] eqn:E; try congruence.
    specialize (H2 i eq_refl). unfold input_is_dir in H2.
    destruct (ilook f i) as [nd|]; auto. destruct (i_kind nd); auto. discriminate.
  Qed.

  (* the record of everything a completed operand (regular-file output) did *)
  Record done_facts (op : path) (f f' : fs) (warn : bool)
         (df_iin : N) (df_st : stat) (df_q : path) (df_iout : N) (df_nd : inode) (df_ndin : inode) : Prop := {
    df_open : sys_open_rd f op = SOk df_iin;
    df_fstat : sys_fstat f df_iin = SOk df_st;
    df_in : ilook f df_iin = Some df_ndin;
    df_notdir : i_kind df_ndin <> KDir;
    df_name : out_name (c_decompress cf) op = Some df_q;
    df_out : nlook f' df_q = Some (DLink df_iout);
    df_free : c_force cf = false -> nlook f df_q = None;
    df_fresh : ilook f df_iout = None;
    df_node : ilook f' df_iout = Some df_nd;
    df_data : expected_output codec cf (i_data df_ndin) = Some (i_data df_nd);
    df_kind : i_kind df_nd = KReg;
    df_commit : i_committed df_nd = true;
    df_mode : i_mode df_nd = N.land (st_mode df_st) fchmod_mask;
    df_uid : i_uid df_nd = fld fchown_fields 0 df_st;
    df_gid : i_gid df_nd = fld fchown_fields 1 df_st;
    df_atime : i_atime df_nd = fld futimens_fields 0 df_st;
    df_mtime : i_mtime df_nd = fld futimens_fields 1 df_st;
    df_others : forall j, j <> df_iout -> ilook f' j = ilook f j;
    df_names : forall p, p <> df_q -> p <> op -> nlook f' p = nlook f p;
    df_input : nlook f' op = if c_keep cf then nlook f op else None;
    df_warn : warn = negb (N.land (st_mode df_st) special_mask =? 0)
  }.

  Lemma op_done op f :
    c_outmode cf = OmRegf -> e_end (op_effect codec cf op f) = ENext DDone ->
    exists iin st q iout nd ndin,
      done_facts op f (e_fs (op_effect codec cf op f)) (e_warn (op_effect codec cf op f)) iin st q iout nd ndin.
  Proof.
    intros Ho. unfold op_effect. rewrite Ho.
    destruct (eff_input_init cf op f) as [t|iin st|] eqn:Ei; cbn [e_end]; try discriminate.
    destruct (eff_input_init_ok cf op f iin st Ei) as (Eopen & Efst & _ & _).
    destruct (open_rd_ok f op iin Eopen) as [Hin Hop].
    destruct (fstat_ok f iin st Efst) as (ndin & Endin & Est).
    destruct (out_name (c_decompress cf) op) as [q|] eqn:Eq; cbn [e_end]; try discriminate.
    pose proof (out_name_neq _ _ _ Eq) as Hqop.
    destruct (c_force cf && output_init_checks_same_file && same_file f q st) eqn:Esf; cbn [e_end]; try discriminate.
    set (f1 := if c_force cf then fst (sys_unlink f q) else f).
    assert (I1 : forall j, ilook f1 j = ilook f j).
    { intro j. unfold f1. destruct (c_force cf); auto. apply unlink_ilook. }
    assert (N1 : forall p, p <> q -> nlook f1 p = nlook f p).
    { intros p Hp. unfold f1. destruct (c_force cf); auto. apply unlink_nlook_other. auto. }
    destruct (sys_creat_excl f1 q (N.land (st_mode st) open_out_mode_mask) (c_uid cf) (c_gid cf) (c_now cf))
      as [f2 [iout|e|]] eqn:Ec; cbn [e_end]; try discriminate.
    pose proof (creat_ok f1 q (N.land (st_mode st) open_out_mode_mask) (c_uid cf) (c_gid cf) (c_now cf) iout) as Hc.
    rewrite Ec in Hc. cbn [fst snd] in Hc.
    destruct (Hc eq_refl) as (Hfree & Hfresh & Ef2). clear Hc.
    assert (Hio : iout <> iin).
    { intro E. subst iin. rewrite Hfresh in Hin. rewrite <- I1 in Hin. apply Hin. apply fresh_not_in_inodes. }
    assert (I2 : forall j, j <> iout -> ilook f2 j = ilook f j).
    { intros j Hj. rewrite Ef2. unfold ilook. cbn [f_inodes]. rewrite (alook_aset_neq N.eqb N.eqb_eq); auto. apply I1. }
    assert (N2 : forall p, p <> q -> nlook f2 p = nlook f p).
    { intros p Hp. rewrite Ef2. unfold nlook. cbn [f_names]. rewrite (alook_aset_neq String.eqb String.eqb_eq); auto. apply N1; auto. }
    assert (Q2 : nlook f2 q = Some (DLink iout)).
    { rewrite Ef2. unfold nlook. cbn [f_names]. apply (alook_aset_eq String.eqb String.eqb_eq). }
    assert (O2 : ilook f2 iout = Some {| i_kind := KReg; i_mode := N.land (st_mode st) open_out_mode_mask;
                                         i_uid := c_uid cf; i_gid := c_gid cf; i_atime := c_now cf;
                                         i_mtime := c_now cf; i_data := []; i_committed := false |}).
    { rewrite Ef2. unfold ilook. cbn [f_inodes]. rewrite Hfresh. apply (alook_aset_eq N.eqb N.eqb_eq). }
    destruct (eff_work codec cf iin (OFile iout) f2) as [f3 [tag|]] eqn:Ew; cbn [e_end]; try discriminate.
    assert (Hin2 : ilook f2 iin <> None) by (rewrite I2; auto).
    destruct (eff_work_file codec cf iin iout f2 f3 Hin2 Ew) as (Hnd & w & Hexp & (A1 & A2 & A3 & A0 & A4)).
    assert (Ed : input_data f2 iin = i_data ndin).
    { unfold input_data. rewrite I2, Endin; auto. }
    rewrite Ed in Hexp.
    assert (Hk : i_kind ndin <> KDir).
    { unfold input_is_dir in Hnd. rewrite I2, Endin in Hnd; auto. destruct (i_kind ndin); congruence. }
    destruct (A4 _ O2) as (nd3 & O3 & (K3 & _ & _ & _ & _ & _) & D3). cbn in D3, K3.
    (* output_regf_uninit *)
    destruct (eff_regf_uninit iout st f3) as [f4 w1] eqn:Er.
    unfold eff_regf_uninit, sys_fchown, sys_fchmod, sys_futimens, sys_close_out in Er. cbn [fst] in Er.
    injection Er as Ef4 Ew1.
    set (g1 := fun nd => {| i_kind := i_kind nd; i_mode := i_mode nd; i_uid := fld fchown_fields 0 st;
                           i_gid := fld fchown_fields 1 st; i_atime := i_atime nd; i_mtime := i_mtime nd;
                           i_data := i_data nd; i_committed := i_committed nd |}) in *.
    set (g2 := fun nd => {| i_kind := i_kind nd; i_mode := N.land (st_mode st) fchmod_mask; i_uid := i_uid nd;
                           i_gid := i_gid nd; i_atime := i_atime nd; i_mtime := i_mtime nd;
                           i_data := i_data nd; i_committed := i_committed nd |}) in *.
    set (g3 := fun nd => {| i_kind := i_kind nd; i_mode := i_mode nd; i_uid := i_uid nd;
                           i_gid := i_gid nd; i_atime := fld futimens_fields 0 st; i_mtime := fld futimens_fields 1 st;
                           i_data := i_data nd; i_committed := i_committed nd |}) in *.
    set (g4 := fun nd => {| i_kind := i_kind nd; i_mode := i_mode nd; i_uid := i_uid nd;
                           i_gid := i_gid nd; i_atime := i_atime nd; i_mtime := i_mtime nd;
                           i_data := i_data nd; i_committed := true |}) in *.
    assert (O4 : ilook f4 iout = Some (g4 (g3 (g2 (g1 nd3))))).
    { rewrite <- Ef4.
      apply ilook_upd_inode_eq. apply (ilook_upd_inode_eq _ _ g3). apply (ilook_upd_inode_eq _ _ g2).
      apply (ilook_upd_inode_eq _ _ g1). exact O3. }
    assert (I4 : forall j, j <> iout -> ilook f4 j = ilook f j).
    { intros j Hj. rewrite <- Ef4. rewrite !ilook_upd_inode_neq by auto. rewrite A3, I2; auto. }
    assert (N4 : forall p, nlook f4 p = nlook f2 p).
    { intro p. rewrite <- Ef4. rewrite !nlook_upd_inode. unfold nlook. rewrite A1. reflexivity. }
    (* input_oprnd_rm *)
    assert (Hrm : (if c_keep cf then (f4, false) else eff_oprnd_rm op f4) =
                  ((if c_keep cf then f4 else set_names f4 (arem String.eqb op (f_names f4))), false)).
    { destruct (c_keep cf); auto. unfold eff_oprnd_rm. rewrite unlink_ok; auto.
      - rewrite N4, N2; auto.
      - intros i Hi. rewrite N4, N2 in Hi by auto.
        assert (i = iin) by (symmetry; eapply open_rd_link; eauto). subst i.
        unfold input_is_dir. rewrite I4, Endin by auto. destruct (i_kind ndin); congruence. }
    cbv beta iota. rewrite Hrm. cbn [e_end e_fs e_warn]. intros _.
    set (f5 := if c_keep cf then f4 else set_names f4 (arem String.eqb op (f_names f4))).
    assert (I5 : forall j, ilook f5 j = ilook f4 j) by (intro j; unfold f5; destruct (c_keep cf); reflexivity).
    assert (N5 : forall p, p <> op -> nlook f5 p = nlook f4 p).
    { intros p Hp. unfold f5. destruct (c_keep cf); auto. unfold nlook. cbn.
      apply (alook_arem_neq String.eqb String.eqb_eq). auto. }
    exists iin, st, q, iout, (g4 (g3 (g2 (g1 nd3)))), ndin.
    constructor; auto; try reflexivity.
    - rewrite N5, N4; auto.
    - intro Hf. unfold f1 in Hfree. rewrite Hf in Hfree. exact Hfree.
    - rewrite <- I1, Hfresh. apply fresh_not_in_inodes.
    - rewrite I5. exact O4.
    - cbn. rewrite D3. exact Hexp.
    - intros j Hj. rewrite I5. apply I4. auto.
    - intros p Hp1 Hp2. rewrite N5, N4, N2; auto.
    - unfold f5. destruct (c_keep cf).
      + rewrite N4, N2; auto.
      + unfold nlook. cbn. apply (alook_arem_eq String.eqb).
    - rewrite <- Ew1. rewrite orb_false_r. reflexivity.
  Qed.
End OpDone.

(* ---- the fold: exit status, independence, fatal stop (C17 exit, C18) ----------------- *)
Section Fold.
  Variable codec : cmode -> bytes -> cres.
  Variable cf : cfg.

  (* the effects of the operands in order, up to and including the first that stops the run *)
  Fixpoint trace (ops : list path) (f : fs) : list oeff :=
    match ops with
    | [] => []
    | op :: r =>
        let e := op_effect codec cf op f in
        e :: match e_end e with ENext _ => trace r (e_fs e) | EStop _ _ => [] end
    end.

  Definition completes (e : oeff) : Prop := exists d, e_end e = ENext d.

  Lemma exit_status ops : forall f w,
    Forall completes (trace ops f) ->
    snd (run_effect codec cf ops f w) =
    Exit (if w || existsb e_warn (trace ops f) then exit_if_warned else exit_if_clean).
  Proof.
    induction ops as [|op ops IH]; intros f w H; cbn [run_effect trace existsb].
    - rewrite orb_false_r. reflexivity.
    - cbn [trace] in H. inversion H as [|e tr [d Hd] Htr]; subst.
      rewrite Hd in *. rewrite IH by exact Htr. rewrite orb_assoc. reflexivity.
  Qed.

  (* a stopping operand decides the outcome; the operands before it were completed
     (their effects are the first entries of the trace) and later ones are not started *)
  Lemma stop_status ops1 op ops2 : forall f w f1,
    Forall completes (trace ops1 f) ->
    f1 = fold_left (fun g o => e_fs (op_effect codec cf o g)) ops1 f ->
    forall o y, e_end (op_effect codec cf op f1) = EStop o y ->
    run_effect codec cf (ops1 ++ op :: ops2) f w = (e_fs (op_effect codec cf op f1), o).
  Proof.
    induction ops1 as [|a ops1 IH]; intros f w f1 H E o y Hs; cbn [app run_effect fold_left] in *.
    - subst f1. rewrite Hs. reflexivity.
    - cbn [trace] in H. inversion H as [|e tr [d Hd] Htr]; subst.
      rewrite Hd in *. eapply IH; eauto.
  Qed.

  Lemma stop_kinds op f o y :
    e_end (op_effect codec cf op f) = EStop o y ->
    (o = Hang /\ y = WHang) \/ (o = Exit bailout_exit /\ exists tag, y = WFatal tag).
  Proof.
    unfold op_effect.
    destruct (eff_input_init cf op f); cbn [e_end]; try discriminate.
    2:{ intro H. inversion H. auto. }
    destruct (c_outmode cf).
    - destruct (eff_work codec cf iin OStdout f) as [f3 [tag|]]; cbn [e_end fatal_end]; try discriminate.
      intro H. inversion H. right. eauto.
    - destruct (eff_work codec cf iin ODiscard f) as [f3 [tag|]]; cbn [e_end fatal_end]; try discriminate.
      intro H. inversion H. right. eauto.
    - destruct (out_name (c_decompress cf) op); cbn [e_end fatal_end].
      2:{ intro H. inversion H. right. eauto. }
      destruct (c_force cf && output_init_checks_same_file && same_file f s st); cbn [e_end]; try discriminate.
      destruct (sys_creat_excl _ _ _ _ _ _) as [f2 [iout|e|]]; cbn [e_end]; try discriminate.
      destruct (eff_work codec cf iin (OFile iout) f2) as [f3 [tag|]]; cbn [e_end fatal_end].
      + intro H. inversion H. right. eauto.
      + destruct (eff_regf_uninit iout st f3). destruct (if c_keep cf then _ else _). cbn. discriminate.
  Qed.

  (* the sticky flag only upgrades a clean exit *)
  Definition upgrade (w : bool) (o : outcome) : outcome :=
    match o with
    | Exit n => if w && (n =? exit_if_clean) then Exit exit_if_warned else o
    | _ => o
    end.

  Lemma upgrade_false o : upgrade false o = o.
  Proof. destruct o; reflexivity. Qed.

  Lemma upgrade_orb a b o : upgrade (a || b) o = upgrade a (upgrade b o).
  Proof.
    destruct a, b; cbn [orb]; rewrite ?upgrade_false; auto.
    destruct o as [n| |]; cbn; auto.
    destruct (n =? exit_if_clean) eqn:E; cbn.
    - destruct (exit_if_warned =? exit_if_clean); reflexivity.
    - rewrite E. reflexivity.
  Qed.

  Lemma run_effect_warned ops : forall f w,
    run_effect codec cf ops f w =
    (fst (run_effect codec cf ops f false), upgrade w (snd (run_effect codec cf ops f false))).
  Proof.
    induction ops as [|op ops IH]; intros f w; cbn [run_effect].
    - cbn. destruct w; reflexivity.
    - destruct (e_end (op_effect codec cf op f)) as [d|o y] eqn:E.
      + rewrite IH. rewrite (IH _ (false || _)). cbn [fst snd orb].
        rewrite upgrade_orb. reflexivity.
      + cbn [fst snd]. destruct (stop_kinds op f o y E) as [[-> _]|[-> _]]; cbn.
        * reflexivity.
        * destruct w; reflexivity.
  Qed.

  (* one operand processed alone *)
  Lemma run_effect_single op f :
    run_effect codec cf [op] f false =
    (e_fs (op_effect codec cf op f),
     match e_end (op_effect codec cf op f) with
     | ENext _ => Exit (if e_warn (op_effect codec cf op f) then exit_if_warned else exit_if_clean)
     | EStop o _ => o
     end).
  Proof. cbn [run_effect]. destruct (e_end (op_effect codec cf op f)); reflexivity. Qed.

  Definition is_final_exit (o : outcome) : bool :=
    match o with Exit n => (n =? exit_if_clean) || (n =? exit_if_warned) | _ => false end.

  (* several operands = the first alone, then the others on the resulting file system *)
  Lemma run_effect_cons op ops f :
    run_effect codec cf (op :: ops) f false =
    let '(f1, o1) := run_effect codec cf [op] f false in
    if is_final_exit o1 then
      let '(f2, o2) := run_effect codec cf ops f1 false in
      (f2, upgrade (match o1 with Exit n => n =? exit_if_warned | _ => false end) o2)
    else (f1, o1).
  Proof.
    rewrite run_effect_single. cbn [run_effect].
    destruct (e_end (op_effect codec cf op f)) as [d|o y] eqn:E.
    - cbn [orb]. destruct (e_warn (op_effect codec cf op f)); cbn [is_final_exit].
      + rewrite N.eqb_refl, orb_true_r. rewrite run_effect_warned.
        destruct (run_effect codec cf ops (e_fs (op_effect codec cf op f)) false). reflexivity.
      + rewrite N.eqb_refl. cbn [orb]. rewrite (run_effect_warned ops _ false).
        destruct (run_effect codec cf ops (e_fs (op_effect codec cf op f)) false) as [f2 o2]. cbn [fst snd].
        rewrite upgrade_false. destruct (exit_if_clean =? exit_if_warned) eqn:En.
        * (* degenerate: both codes equal *) apply N.eqb_eq in En.
          destruct o2 as [n| |]; cbn; auto. rewrite En. destruct (n =? exit_if_warned) eqn:E2; auto.
          apply N.eqb_eq in E2. subst. reflexivity.
        * rewrite upgrade_false. reflexivity.
    - destruct (stop_kinds op f o y E) as [[-> _]|[-> _]]; cbn [is_final_exit]; auto.
  Qed.
End Fold.

(* ---- -c / -t never touch the tree ---------------------------------------------------------- *)
Section NonFile.
  Variable codec : cmode -> bytes -> cres.
  Variable cf : cfg.

  Definition same_tree (f f' : fs) : Prop := f_names f' = f_names f /\ f_inodes f' = f_inodes f.

  Lemma eff_write_nonfile o c f : (forall i, o <> OFile i) -> same_tree f (eff_write cf o c f).
  Proof.
    intro H. destruct c; [split; reflexivity|]. destruct o; cbn; try (split; reflexivity).
    exfalso. eapply H. reflexivity.
  Qed.

  Lemma eff_io_nonfile iin o evs : forall f, (forall i, o <> OFile i) -> same_tree f (fst (eff_io cf iin o evs f)).
  Proof.
    induction evs as [|[|c] evs IH]; intros f H; cbn [eff_io].
    - split; reflexivity.
    - destruct (snd (sys_read f iin)); auto. split; reflexivity.
    - destruct (eff_write_nonfile o c f H) as [A B]. destruct (IH (eff_write cf o c f) H) as [A' B'].
      split; congruence.
  Qed.

  Lemma eff_work_nonfile iin o f : (forall i, o <> OFile i) -> same_tree f (fst (eff_work codec cf iin o f)).
  Proof.
    intro H. unfold eff_work.
    assert (S : forall isdir cr g, same_tree f g -> same_tree f (fst (eff_schedule cf iin o isdir cr g))).
    { intros isdir cr g [A B]. unfold eff_schedule.
      pose proof (eff_io_nonfile iin o (if isdir then [IoRead] else c_io cr) g H) as [A' B'].
      destruct (eff_io cf iin o (if isdir then [IoRead] else c_io cr) g) as [g' [|]]; cbn [fst] in *.
      - destruct (c_ok cr || isdir); cbn; split; congruence.
      - cbn. split; congruence. }
    destruct (c_decompress cf).
    - destruct (eff_main_reads _ _ _); [|split; reflexivity].
      destruct (hdr_ok _); [apply S; split; reflexivity|].
      destruct (c_force cf && is_stdout o); [|split; reflexivity].
      apply S. apply eff_write_nonfile. exact H.
    - apply S. split; reflexivity.
  Qed.

  Lemma op_effect_nonfile op f : c_outmode cf <> OmRegf -> same_tree f (e_fs (op_effect codec cf op f)).
  Proof.
    intro H. unfold op_effect. destruct (eff_input_init cf op f); cbn; try (split; reflexivity).
    destruct (c_outmode cf) eqn:E; try congruence.
    - pose proof (eff_work_nonfile iin OStdout f) as W.
      destruct (eff_work codec cf iin OStdout f) as [f3 [t|]]; cbn in *; apply W; discriminate.
    - pose proof (eff_work_nonfile iin ODiscard f) as W.
      destruct (eff_work codec cf iin ODiscard f) as [f3 [t|]]; cbn in *; apply W; discriminate.
  Qed.
End NonFile.

(* ---- the statements in the form used by Properties_C17 / Properties_C18 ------------- *)
Lemma suffix_skip_doc codec cf op f :
  c_decompress cf = false ->
  (ends_with op ".bz2" || ends_with op ".tbz" || ends_with op ".tbz2" || ends_with op ".tz2") = true ->
  exists t, op_effect codec cf op f = {| e_fs := f; e_warn := true; e_end := ENext (DSkipped t) |}.
Proof. intros Hd Hs. apply suffix_skip; auto. rewrite is_compressed_name_spec. exact Hs. Qed.

Lemma metadata codec cf op f :
  c_outmode cf = OmRegf -> e_end (op_effect codec cf op f) = ENext DDone ->
  let f' := e_fs (op_effect codec cf op f) in
  exists iin st ndin q iout nd,
    sys_open_rd f op = SOk iin /\ sys_fstat f iin = SOk st /\ ilook f iin = Some ndin /\
    out_name (c_decompress cf) op = Some q /\
    nlook f' q = Some (DLink iout) /\ ilook f iout = None /\ ilook f' iout = Some nd /\
    i_kind nd = KReg /\ i_committed nd = true /\
    expected_output codec cf (i_data ndin) = Some (i_data nd) /\
    i_mode nd = N.land (st_mode st) 511 /\
    i_atime nd = st_atime st /\ i_mtime nd = st_mtime st /\
    i_uid nd = st_uid st /\ i_gid nd = st_gid st /\
    (forall j, j <> iout -> ilook f' j = ilook f j) /\
    (forall p, p <> q -> p <> op -> nlook f' p = nlook f p) /\
    (c_force cf = false -> nlook f q = None) /\
    e_warn (op_effect codec cf op f) = negb (N.land (st_mode st) 3584 =? 0).
Proof.
  intros Ho Hd. destruct (op_done codec cf op f Ho Hd) as (iin & st & q & iout & nd & ndin & D).
  destruct D. exists iin, st, ndin, q, iout, nd.
  repeat split; auto.
Qed.

Lemma removal codec cf op f :
  e_end (op_effect codec cf op f) = ENext DDone ->
  let f' := e_fs (op_effect codec cf op f) in
  match c_outmode cf with
  | OmRegf => nlook f' op = if c_keep cf then nlook f op else None
  | _ => f_names f' = f_names f /\ f_inodes f' = f_inodes f
  end.
Proof.
  intros Hd. destruct (c_outmode cf) eqn:Ho.
  - apply op_effect_nonfile. congruence.
  - apply op_effect_nonfile. congruence.
  - destruct (op_done codec cf op f Ho Hd) as (iin & st & q & iout & nd & ndin & D). destruct D. assumption.
Qed.

Lemma exit_status_run codec cf ops f :
  Forall (completes) (trace codec cf ops f) ->
  snd (run codec cf f ops []) = Exit (if existsb e_warn (trace codec cf ops f) then 4 else 0).
Proof. intro H. rewrite run_is_fold. rewrite exit_status by exact H. reflexivity. Qed.

Lemma run_single codec cf op f :
  run codec cf f [op] [] =
  (e_fs (op_effect codec cf op f),
   match e_end (op_effect codec cf op f) with
   | ENext _ => Exit (if e_warn (op_effect codec cf op f) then 4 else 0)
   | EStop o _ => o
   end).
Proof. rewrite run_is_fold. apply run_effect_single. Qed.

Lemma run_cons codec cf op ops f :
  run codec cf f (op :: ops) [] =
  let '(f1, o1) := run codec cf f [op] [] in
  match o1 with
  | Exit 0 => run codec cf f1 ops []
  | Exit 4 => let '(f2, o2) := run codec cf f1 ops [] in
              (f2, match o2 with Exit 0 => Exit 4 | _ => o2 end)
  | _ => (f1, o1)
  end.
Proof.
  rewrite !run_is_fold. rewrite run_effect_cons. rewrite run_effect_single.
  destruct (e_end (op_effect codec cf op f)) as [d|o y] eqn:E.
  - destruct (e_warn (op_effect codec cf op f)); cbn.
    + rewrite run_is_fold. destruct (run_effect codec cf ops (e_fs (op_effect codec cf op f)) false) as [f2 o2].
      destruct o2 as [n| |]; auto. destruct n as [|p]; auto.
    + rewrite run_is_fold. destruct (run_effect codec cf ops (e_fs (op_effect codec cf op f)) false) as [f2 o2].
      destruct o2 as [n| |]; auto.
  - destruct (stop_kinds codec cf op f o y E) as [[-> _]|[-> _]]; reflexivity.
Qed.

Lemma fatal_stops codec cf ops1 op ops2 f f1 o y :
  Forall (completes) (trace codec cf ops1 f) ->
  f1 = fold_left (fun g o => e_fs (op_effect codec cf o g)) ops1 f ->
  e_end (op_effect codec cf op f1) = EStop o y ->
  run codec cf f (ops1 ++ op :: ops2) [] = (e_fs (op_effect codec cf op f1), o) /\
  ((o = Hang /\ y = WHang) \/ (o = Exit 1 /\ exists tag, y = WFatal tag)).
Proof.
  intros H E S. split.
  - rewrite run_is_fold. eapply stop_status; eauto.
  - apply (stop_kinds codec cf op f1 o y S).
Qed.

(* a processed operand with a setuid bit warns: exit status 4 although nothing was skipped *)
Lemma exit4_without_skip :
  exists codec cf f op,
    e_end (op_effect codec cf op f) = ENext DDone /\ snd (run codec cf f [op] []) = Exit 4.
Proof.
  exists (fun _ d => {| c_io := [IoRead; IoWrite d]; c_ok := true |}),
    {| c_decompress := false; c_force := false; c_keep := false; c_outmode := OmRegf; c_uid := 0; c_gid := 0; c_now := 9 |},
    {| f_names := [("a"%string, DLink 1)];
       f_inodes := [(1, {| i_kind := KReg; i_mode := 2541 (* 04755 *); i_uid := 0; i_gid := 0; i_atime := 1;
                          i_mtime := 2; i_data := [7]; i_committed := true |})];
       f_stdout := [] |}, "a"%string.
  vm_compute. split; reflexivity.
Qed.
