(* C16: under EVERY fault/signal plan every started operand ends in one of the
   two states.  Proof by phase invariants in the Hoare logic of FrontHoare.v:
     A  nothing created yet (opathn = NULL): every older inode unchanged, every
        name except possibly the output name (removed under -f) unchanged;
     B  output created, opathn set, signals blocked: as A, plus the output name
        holds a new regular file containing what has been written so far;
     D  output closed successfully (opathn = NULL again) with the complete
        output; the input name is still there or has been removed.
   Every way out of a phase is examined: a failing call (fatal -> cleanup()
   unlinks the output -> A), a handled signal (same), SIGKILL (state as is), a
   signal with default action (only possible outside cli()..sti()). *)
From Coq Require Import List NArith Arith Bool String Ascii Lia.
From LBZ Require Import Gen.FrontTab Front.FsModel Front.MainLoop Front.FrontSpec Front.FrontLemmas
     Front.FrontNoFault Front.FrontProofs Front.FrontHoare Front.FrontSafety.
Import ListNotations.
Local Open Scope N_scope.

Lemma hc_exists_pre {A T} (c : M A) (P : T -> assn) (Q : A -> assn) (E : eassn) :
  (forall t, hc (P t) c Q E) -> hc (fun k => exists t, P t k) c Q E.
Proof. intros H s [t Hs]. apply (H t s Hs). Qed.

(* side condition on the regenerated signal set-up: halt() waits with the mask that cli() saved, in which
   setup_signals() has blocked SIGPIPE and SIGXFSZ; so a signal promoted by a failing worker thread cannot kill the
   process before the main thread has run cleanup() *)
Lemma sc_halt_mask :
  fatal_signals_blocked_in_halt = true /\ halt_suspend_mask = cli_saved_mask /\
  setup_blocked_set = "blocked"%string /\ blocked_signals = ["SIGPIPE"; "SIGXFSZ"]%string.
Proof. repeat split. Qed.

Section C16.
  Variable codec : cmode -> bytes -> cres.
  Variable cf : cfg.
  Variable pl : plan.
  Variable b : fs.                 (* the file system when the operand is started *)
  Variable op : path.
  Variable q : path.               (* its output name *)
  Hypothesis Hq : out_name (c_decompress cf) op = Some q.

  Definition regf : bool := match c_outmode cf with OmRegf => true | _ => false end.

  Lemma q_neq_op : q <> op.
  Proof. eapply out_name_neq; eauto. Qed.

  (* ---- the shapes of the file system --------------------------------------------------- *)
  (* Unless the source checks that the output name does not lead to the input file (regenerated flag), -f on an operand
     that is a symbolic link is outside the theorem (see C16_force_symlink_refuted). *)
  Definition plain : Prop :=
    output_init_checks_same_file = true \/ (c_force cf = true -> forall t, nlook b op <> Some (DSym t)).

  (* the operand still leads to the same file *)
  Definition rk (f : fs) : Prop :=
    plain -> forall i, resolve b SYMLOOP_MAX op = SOk i -> resolve f SYMLOOP_MAX op = SOk i.

  Definition fsA (f : fs) : Prop :=
    keeps b f /\ (forall p, p <> q -> nlook f p = nlook b p) /\
    (nlook f q = nlook b q \/ (regf = true /\ c_force cf = true /\ nlook f q = None)) /\ rk f.

  Definition qfree : Prop := nlook b q = None \/ (regf = true /\ c_force cf = true).

  Definition fsB (cm : bool) (j : N) (w : bytes) (f : fs) : Prop :=
    qfree /\ ilook b j = None /\ keeps b f /\ (forall p, p <> q -> nlook f p = nlook b p) /\
    nlook f q = Some (DLink j) /\
    (exists nd, ilook f j = Some nd /\ i_kind nd = KReg /\ i_committed nd = cm /\ i_data nd = w) /\
    rk f /\ (plain -> forall i, resolve b SYMLOOP_MAX op = SOk i -> i <> j).

  Definition fsD (j : N) (w : bytes) (f : fs) : Prop :=
    ilook b j = None /\ keeps b f /\ (forall p, p <> q -> p <> op -> nlook f p = nlook b p) /\
    nlook f q = Some (DLink j) /\
    (exists nd, ilook f j = Some nd /\ i_kind nd = KReg /\ i_committed nd = true /\ i_data nd = w) /\
    (nlook f op = nlook b op \/ nlook f op = None).

  (* w is the complete output for the operand's content *)
  Definition Wok (w : bytes) : Prop :=
    exists iin ndin, resolve b SYMLOOP_MAX op = SOk iin /\ ilook b iin = Some ndin /\
                     expected_output codec cf (i_data ndin) = Some w.

  Definition second (f : fs) (rm : bool) : Prop :=
    regf = true /\ exists j w, Wok w /\ fsD j w f /\ (nlook f op = None \/ rm = true \/ c_keep cf = true).

  Definition exit_fs (y : why) (f : fs) (rm : bool) : Prop :=
    match y with
    | WKill => fsA f \/ (regf = true /\ exists cm j w, fsB cm j w f) \/ (regf = true /\ exists j w, Wok w /\ fsD j w f)
    | WSigHandled | WHang => fsA f
    | WFatal t => if String.eqb t "close-in" then fsA f \/ second f rm else fsA f
    | WSigDefault | WSigSti => fsA f \/ second f rm
    end.

  Definition EX : eassn := fun _ y c => k_cleanfail c = true \/ exit_fs y (k_fs c) (k_rmfail c).

  (* ---- assertions of the phases ------------------------------------------------------------ *)
  Definition PA (bl : bool) : assn := fun c => k_opathn c = None /\ k_blocked c = bl /\ fsA (k_fs c).
  Definition PAc (bl : bool) : assn := fun c => k_cleanfail c = true \/ PA bl c.
  Definition PB (cm : bool) (j : N) (w : bytes) : assn := fun c =>
    k_opathn c = Some q /\ k_blocked c = true /\ regf = true /\ fsB cm j w (k_fs c).
  Definition PD (bl : bool) (j : N) (w : bytes) : assn := fun c =>
    k_opathn c = None /\ k_blocked c = bl /\ regf = true /\ Wok w /\ fsD j w (k_fs c) /\
    (nlook (k_fs c) op = None \/ k_rmfail c = true \/ c_keep cf = true).

  (* ---- file system facts ------------------------------------------------------------------------ *)
  Lemma fsA_refl : fsA b.
  Proof. split; [intros i nd H; exact H|]. split; [auto|]. split; [left; reflexivity|]. intros _ i H. exact H. Qed.

  Lemma rk_names f f' : f_names f' = f_names f -> rk f -> rk f'.
  Proof. intros E H Hp i Hi. rewrite (resolve_names_eq f f' _ _ E). apply H; auto. Qed.

  Lemma rk_frame f f' :
    (forall p', p' <> q -> nlook f' p' = nlook f p') ->
    (plain -> forall i, resolve f SYMLOOP_MAX op = SOk i -> onchain f SYMLOOP_MAX op q = false) ->
    rk f -> rk f'.
  Proof.
    intros Hn Hc H Hp i Hi. specialize (H Hp i Hi). rewrite (resolve_frame f f' q _ _ Hn); auto. eapply Hc; eauto.
  Qed.

  Lemma fsA_stdout f o : fsA f -> fsA (set_stdout f o).
  Proof. intros (H1 & H2 & H3 & H4). split; [exact H1|]. split; [exact H2|]. split; [exact H3|]. apply (rk_names f); [reflexivity | exact H4]. Qed.

  Lemma read_fs f iin : fst (sys_read f iin) = f.
  Proof. unfold sys_read. destruct (ilook f iin) as [nd|]; [destruct (i_kind nd)|]; reflexivity. Qed.

  Lemma read_not_hang f iin : snd (sys_read f iin) <> SHang.
  Proof. unfold sys_read. destruct (ilook f iin) as [nd|]; [destruct (i_kind nd)|]; discriminate. Qed.

  (* -f: the output name may be unlinked if it is not on the way from the operand to its file *)
  Lemma fsA_force_unlink :
    regf = true -> c_force cf = true ->
    (plain -> forall i, resolve b SYMLOOP_MAX op = SOk i -> onchain b SYMLOOP_MAX op q = false) ->
    fsA (fst (sys_unlink b q)).
  Proof.
    intros Hr Hf Hc. destruct fsA_refl as (H1 & H2 & H3 & H4). split; [|split; [|split]].
    - intros i nd Hi. rewrite unlink_ilook. auto.
    - intros p Hp. rewrite unlink_nlook_other; auto.
    - destruct (unlink_result b q) as [[_ E]|[e [_ E]]].
      + right. auto.
      + rewrite E. exact H3.
    - eapply rk_frame; [| exact Hc | exact H4]. intros p' Hp'. apply unlink_nlook_other. auto.
  Qed.

  Lemma fsA_creat f m u g t j :
    fsA f -> snd (sys_creat_excl f q m u g t) = SOk j -> fsB false j [] (fst (sys_creat_excl f q m u g t)).
  Proof.
    intros (H1 & H2 & H3 & H4) Hc. destruct (creat_ok _ _ _ _ _ _ _ Hc) as (Hfree & Hfresh & Ef). rewrite Ef.
    assert (Hj : ilook f j = None) by (rewrite Hfresh; apply fresh_not_in_inodes).
    assert (Hbj : ilook b j = None).
    { destruct (ilook b j) as [nd|] eqn:E; auto. apply H1 in E. congruence. }
    assert (Hnm : forall p', p' <> q ->
              nlook {| f_names := aset String.eqb q (DLink j) (f_names f);
                       f_inodes := aset N.eqb j {| i_kind := KReg; i_mode := m; i_uid := u; i_gid := g; i_atime := t;
                                                   i_mtime := t; i_data := []; i_committed := false |} (f_inodes f);
                       f_stdout := f_stdout f |} p' = nlook f p').
    { intros p' Hp. unfold nlook. cbn [f_names]. apply (alook_aset_neq String.eqb String.eqb_eq). auto. }
    split; [|split; [|split; [|split; [|split; [|split; [|split]]]]]].
    - destruct H3 as [H3|(A & B & _)]; [left; congruence | right; auto].
    - exact Hbj.
    - intros i nd Hi. unfold ilook. cbn [f_inodes]. rewrite (alook_aset_neq N.eqb N.eqb_eq).
      + apply H1. exact Hi.
      + intros ->. congruence.
    - intros p Hp. rewrite Hnm; auto.
    - unfold nlook. cbn [f_names]. apply (alook_aset_eq String.eqb String.eqb_eq).
    - eexists. split; [unfold ilook; cbn [f_inodes]; apply (alook_aset_eq N.eqb N.eqb_eq)|]. repeat split.
    - eapply rk_frame; [exact Hnm | | exact H4]. intros Hp i Hi. eapply onchain_free; eauto.
    - (* the file the operand leads to has a name in f, so it is not the new inode *)
      intros Hp i Hi Eij. subst i. specialize (H4 Hp _ Hi).
      destruct (resolve_named _ _ _ _ H4) as [p' Hp']. apply fresh_not_named in Hp'. congruence.
  Qed.

  (* updating the new inode: older inodes and all names are untouched *)
  Lemma fsB_upd cm cm' j w w' f (g : inode -> inode) :
    (forall nd, i_kind (g nd) = i_kind nd) ->
    (forall nd, i_committed nd = cm -> i_committed (g nd) = cm') ->
    (forall nd, i_data nd = w -> i_data (g nd) = w') ->
    fsB cm j w f -> fsB cm' j w' (upd_inode f j g).
  Proof.
    intros Gk Gc Gd (H0 & Hb & H1 & H2 & H3 & (nd & H4 & H5 & H6 & H7) & H8 & H9).
    split; [exact H0|]. split; [exact Hb|]. split; [|split; [|split; [|split; [|split]]]].
    - intros i nd' Hi. rewrite ilook_upd_inode_neq; auto. intros ->. congruence.
    - intros p Hp. rewrite nlook_upd_inode. auto.
    - rewrite nlook_upd_inode. exact H3.
    - exists (g nd). split; [apply ilook_upd_inode_eq; exact H4|]. rewrite Gk. repeat split; auto.
    - apply (rk_names f); [apply names_upd_inode | exact H8].
    - exact H9.
  Qed.

  Lemma fsB_write cm j w c f : fsB cm j w f -> fsB cm j (w ++ c) (eff_write cf (OFile j) c f).
  Proof.
    intro H. destruct c as [|x c]; [rewrite app_nil_r; exact H|].
    cbn [eff_write sys_write fst]. eapply fsB_upd; eauto; cbn; intros; congruence.
  Qed.

  Lemma fsB_unlink cm j w f : fsB cm j w f -> snd (sys_unlink f q) = SOk tt /\ fsA (fst (sys_unlink f q)).
  Proof.
    intros (H0 & Hb & H1 & H2 & H3 & (nd & H4 & H5 & _) & H8 & H9).
    assert (E : sys_unlink f q = (set_names f (arem String.eqb q (f_names f)), SOk tt)).
    { apply unlink_ok. - congruence. - intros i Hi. rewrite H3 in Hi. inversion Hi; subst.
      unfold input_is_dir. rewrite H4, H5. reflexivity. }
    rewrite E. cbn [fst snd]. split; [reflexivity|].
    assert (Hnm : forall p', p' <> q -> nlook (set_names f (arem String.eqb q (f_names f))) p' = nlook f p').
    { intros p' Hp. unfold nlook. cbn [f_names set_names]. apply (alook_arem_neq String.eqb String.eqb_eq). auto. }
    split; [|split; [|split]].
    - intros i nd' Hi. apply H1. exact Hi.
    - intros p Hp. rewrite Hnm; auto.
    - unfold nlook at 1. cbn [f_names set_names]. rewrite (alook_arem_eq String.eqb).
      destruct H0 as [H0|[A B]]; [left; congruence | right].
      split; [exact A|]. split; [exact B|]. unfold nlook. cbn [f_names set_names]. apply (alook_arem_eq String.eqb).
    - intros Hp i Hi. pose proof (H8 Hp i Hi) as Hr.
      rewrite (resolve_frame f _ q _ _ Hnm); auto.
      eapply onchain_other; eauto. intro Ej. apply (H9 Hp i Hi). auto.
  Qed.

  Lemma fsB_fsD j w f : fsB true j w f -> fsD j w f.
  Proof.
    intros (H0 & Hb & H1 & H2 & H3 & Hn & _). split; [exact Hb|]. split; [exact H1|]. split; [auto|]. split; [exact H3|].
    split; [exact Hn|]. left. apply H2. intro E. apply q_neq_op. congruence.
  Qed.

  Lemma fsD_unlink_in j w f :
    fsD j w f ->
    fsD j w (fst (sys_unlink f op)) /\
    (snd (sys_unlink f op) = SOk tt -> nlook (fst (sys_unlink f op)) op = None).
  Proof.
    intros (Hb & H1 & H2 & H3 & Hn & H4).
    destruct (unlink_result f op) as [[E1 E2]|[e [E1 E2]]].
    - split; [|auto]. repeat split; auto.
      + intros i nd Hi. rewrite unlink_ilook. auto.
      + intros p Hp1 Hp2. rewrite unlink_nlook_other; auto.
      + rewrite unlink_nlook_other; auto. intro E. apply q_neq_op. congruence.
      + destruct Hn as (nd & A & B). exists nd. rewrite unlink_ilook. auto.
    - rewrite E2. split; [repeat split; auto|]. rewrite E1. discriminate.
  Qed.

  (* ---- what the shapes mean ------------------------------------------------------------------ *)
  Lemma fsA_first f : plain -> fsA f -> first_state cf b f op.
  Proof.
    intros Hpl (H1 & H2 & H3 & H4). unfold first_state. rewrite Hq. split.
    - split; [apply H2; intro E; apply q_neq_op; congruence|]. split; [exact H1 | exact (H4 Hpl)].
    - unfold output_absent. destruct H3 as [H3|(_ & _ & H3)]; auto.
  Qed.

  Lemma fsB_intact cm j w f : plain -> fsB cm j w f -> input_intact b f op.
  Proof.
    intros Hpl (_ & _ & H1 & H2 & _ & _ & H8 & _).
    split; [apply H2; intro E; apply q_neq_op; congruence|]. split; [exact H1 | exact (H8 Hpl)].
  Qed.

  Lemma fsD_complete j w f : Wok w -> fsD j w f -> output_complete_closed codec cf b f op q.
  Proof.
    intros Hw (Hb & H1 & H2 & H3 & (nd & N1 & N2 & N3 & N4) & _). destruct Hw as (iin & ndin & A & B & C).
    exists iin, ndin, j, nd. rewrite N4. repeat split; auto.
  Qed.

  Lemma second_second f rm : second f rm -> second_state codec cf b f op rm.
  Proof.
    intros (_ & j & w & Hw & Hd & Hr). unfold second_state. rewrite Hq. split.
    - eapply fsD_complete; eauto.
    - unfold input_present. intro Hp. destruct Hr as [Hr|[Hr|Hr]]; auto.
  Qed.

  (* ---- exits of the phases -------------------------------------------------------------------- *)
  Lemma PA_kill bl c : PA bl c -> EX (Killed SIGKILL) WKill c.
  Proof. intro H. right. left. apply H. Qed.
  Lemma PA_default bl c sg : PA bl c -> EX (Killed sg) WSigDefault c.
  Proof. intro H. right. left. apply H. Qed.
  Lemma PAc_handled bl c sg : PAc bl c -> EX (Killed sg) WSigHandled c.
  Proof. intros [H|H]; [left; exact H|]. right. apply H. Qed.
  Lemma PA_hang bl c : PA bl c -> EX Hang WHang c.
  Proof. intro H. right. apply H. Qed.
  Lemma PAc_fatal bl c tag o : PAc bl c -> EX o (WFatal tag) c.
  Proof. intros [H|H]; [left; exact H|]. right. cbn. destruct (String.eqb tag "close-in"); [left|]; apply H. Qed.
  Lemma PB_kill cm j w c : PB cm j w c -> EX (Killed SIGKILL) WKill c.
  Proof. intro H. right. right. left. split; [apply H|]. exists cm, j, w. apply H. Qed.
  Lemma PD_kill bl j w c : PD bl j w c -> EX (Killed SIGKILL) WKill c.
  Proof. intro H. right. right. right. split; [apply H|]. exists j, w. split; apply H. Qed.
  Lemma PD_second bl j w c : PD bl j w c -> second (k_fs c) (k_rmfail c).
  Proof. intro H. split; [apply H|]. exists j, w. split; [apply H|]. split; apply H. Qed.

  (* ---- cleanup() and fatal errors ----------------------------------------------------------- *)
  Definition cleanup_inner (q' : path) : M unit :=
    r <- sys_gen pl (ret tt) false KUnlink (fun f => sys_unlink f q');;
    modify (fun s => set_opathn s None);;;
    match r with SErr _ => modify (fun s => set_cleanfail s true) | _ => ret tt end.

  Lemma cleanup_unfold s : cleanup pl s = match m_opathn s with None => Ret tt s | Some q' => cleanup_inner q' s end.
  Proof. reflexivity. Qed.

  Lemma cleanup_inner_B cm j w :
    hc (fun c => k_blocked c = true /\ regf = true /\ fsB cm j w (k_fs c)) (cleanup_inner q) (fun _ => PAc true) EX.
  Proof.
    unfold cleanup_inner.
    eapply hc_bind with (R := fun r c => match r with
                                         | SErr _ => True
                                         | _ => k_blocked c = true /\ fsA (k_fs c)
                                         end).
    - apply hc_sys_gen.
      + intros c (_ & Hr & H). right. right. left. split; [exact Hr|]. exists cm, j, w. exact H.
      + intros c sg (Hb & _) Hb'. congruence.
      + intros c e _. exact I.
      + intros c (Hb & _ & H). unfold natural_ok. destruct (fsB_unlink _ _ _ _ H) as [E1 E2]. rewrite E1.
        split; [exact Hb | exact E2].
      + discriminate.
    - intro r. destruct r as [u|e|].
      + eapply hc_bind with (R := fun _ => PAc true); [|intros; apply hc_ret; auto].
        apply hc_set_opathn. intros c [Hb H]. right. repeat split; auto; apply H.
      + eapply hc_bind with (R := fun _ _ => True); [apply hc_set_opathn; auto|].
        intros _. apply hc_set_cleanfail. intros c _. left. reflexivity.
      + eapply hc_bind with (R := fun _ => PAc true); [|intros; apply hc_ret; auto].
        apply hc_set_opathn. intros c [Hb H]. right. repeat split; auto; apply H.
  Qed.

  Lemma cleanup_A bl : hc (PA bl) (cleanup pl) (fun _ => PAc bl) EX.
  Proof.
    intros s Hs. rewrite cleanup_unfold. destruct Hs as (Ho & Hr). cbn in Ho. rewrite Ho.
    right. split; auto.
  Qed.

  Lemma cleanup_B cm j w : hc (PB cm j w) (cleanup pl) (fun _ => PAc true) EX.
  Proof.
    intros s Hs. rewrite cleanup_unfold. destruct Hs as (Ho & Hb & H). cbn in Ho. rewrite Ho.
    apply (cleanup_inner_B cm j w s). split; auto.
  Qed.

  Lemma cleanup_D bl j w : hc (PD bl j w) (cleanup pl) (fun _ => PD bl j w) EX.
  Proof.
    intros s Hs. rewrite cleanup_unfold. destruct Hs as (Ho & Hr). cbn in Ho. rewrite Ho. split; auto.
  Qed.

  Lemma fatal_from {T} (P : assn) bl tag (Q : T -> assn) :
    hc P (cleanup pl) (fun _ => PAc bl) EX -> hc P (fatal pl tag) Q EX.
  Proof.
    intro Hc. unfold fatal. eapply hc_bind with (R := fun _ => P); [apply hc_say; auto|]. intro.
    eapply hc_bind with (R := fun _ => PAc bl); [exact Hc|]. intro.
    apply hc_stop. intros c H. eapply PAc_fatal; eauto.
  Qed.

  Lemma fatal_D {T} bl j w (Q : T -> assn) : hc (PD bl j w) (fatal pl "close-in") Q EX.
  Proof.
    unfold fatal. eapply hc_bind with (R := fun _ => PD bl j w); [apply hc_say; auto|]. intro.
    eapply hc_bind with (R := fun _ => PD bl j w); [apply cleanup_D|]. intro.
    apply hc_stop. intros c H. right. cbn. right. eapply PD_second; eauto.
  Qed.

  (* ---- work(): generic in the invariant family ------------------------------------------------- *)
  Section Work.
    Variable iin : N.
    Variable o : odst.
    Variable I : bytes -> assn.        (* indexed by what has been written to a file output so far *)
    Hypothesis I_kill : forall w c, I w c -> EX (Killed SIGKILL) WKill c.
    Hypothesis I_blocked : forall w c, I w c -> k_blocked c = true.
    Hypothesis I_cleanup : forall w, hc (I w) (cleanup pl) (fun _ => PAc true) EX.
    Hypothesis I_write : forall w ch c, I w c -> I (w ++ ch) (with_fs c (eff_write cf o ch (k_fs c))).
    Hypothesis I_fs : forall w c f, I w c -> f = k_fs c -> I w (with_fs c f).

    Lemma I_default w c sg : I w c -> k_blocked c = false -> EX (Killed sg) WSigDefault c.
    Proof. intros H Hb. rewrite (I_blocked _ _ H) in Hb. discriminate. Qed.

    Lemma I_fatal {T} w tag (Q : T -> assn) : hc (I w) (fatal pl tag) Q EX.
    Proof. eapply fatal_from. apply I_cleanup. Qed.

    Lemma I_write_failed {T} inhalt w e (Q : T -> assn) : hc (I w) (write_failed pl inhalt e) Q EX.
    Proof.
      assert (D : forall sg, hc (I w) (die_by pl (A:=T) inhalt sg) Q EX).
      { intro sg. unfold die_by. rewrite (proj1 sc_halt_mask), andb_false_r.
        eapply hc_bind with (R := fun _ => PAc true); [apply I_cleanup|]. intro.
        apply hc_stop. intros c H. apply (PAc_fatal true). exact H. }
      unfold write_failed. destruct (N.eqb e EFBIG); [apply D|]. destruct (N.eqb e EPIPE); [apply D | apply I_fatal].
    Qed.

    Lemma I_handled (P : assn) w sg :
      (forall c, P c -> I w c) ->
      hc (fun c => P c /\ k_blocked c = true) (cleanup pl) (fun _ c => EX (Killed sg) WSigHandled c) EX.
    Proof.
      intro HP. eapply hc_conseq.
      - apply (I_cleanup w).
      - intros k [H _]. auto.
      - intros a0 k H. apply (PAc_handled true); exact H.
      - auto.
    Qed.

    (* a read returns only an error or success; the tree is not changed.  [X]: extra pure-on-fs fact carried along *)
    Lemma I_sys_read inhalt w (X : fs -> Prop) :
      hc (fun c => I w c /\ X (k_fs c)) (sys pl inhalt KRead (fun f => sys_read f iin))
         (fun r c => I w c /\ X (k_fs c) /\ match r with
                                            | SOk _ => snd (sys_read (k_fs c) iin) = SOk tt
                                            | SErr _ => True
                                            | SHang => False
                                            end) EX.
    Proof.
      apply hc_sys_gen.
      - intros c [H _]. eapply I_kill; eauto.
      - intros c sg [H _] Hb. eapply I_default; eauto.
      - intros c e [H Hx]. auto.
      - intros c [H Hx]. unfold natural_ok. rewrite read_fs.
        destruct (snd (sys_read (k_fs c) iin)) eqn:Er.
        + split; [apply I_fs; auto|]. split; [exact Hx|]. cbn [k_fs with_fs]. rewrite Er. destruct a; reflexivity.
        + split; [apply I_fs; auto|]. split; [exact Hx | exact Logic.I].
        + exfalso. eapply read_not_hang; eauto.
      - intros _ sg. apply (I_handled _ w). intros c [H _]. exact H.
    Qed.

    Lemma I_do_write inhalt w ch :
      hc (I w) (do_write cf pl inhalt o ch) (fun _ => I (w ++ ch)) EX.
    Proof.
      unfold do_write. destruct ch as [|x ch]; [apply hc_ret; intros c H; rewrite app_nil_r; exact H|].
      assert (G : forall (k : kindc) (f : fs -> fs * sysres unit),
                 (forall g, fst (f g) = eff_write cf o (x :: ch) g) -> (forall g, snd (f g) = SOk tt) ->
                 hc (I w) (r <- sys pl inhalt k f;; match r with SErr e => write_failed pl inhalt e | _ => ret tt end)
                    (fun _ => I (w ++ x :: ch)) EX).
      { intros k f Hf Hs.
        eapply hc_bind with (R := fun r c => match r with SErr _ => I w c | _ => I (w ++ x :: ch) c end).
        - apply hc_sys_gen.
          + intros c H. eapply I_kill; eauto.
          + intros c sg H Hb. eapply I_default; eauto.
          + intros c e H. exact H.
          + intros c H. unfold natural_ok. rewrite Hs, Hf. apply I_write. exact H.
          + intros _ sg. apply (I_handled _ w). auto.
        - intro r. destruct r; [apply hc_ret; auto | apply I_write_failed | apply hc_ret; auto]. }
      destruct o as [| |i].
      - apply G; reflexivity.
      - apply hc_ret. intros c H. pose proof (I_write w (x :: ch) c H) as H'. cbn in H'.
        revert H'. clear H. destruct c. cbn. auto.
      - apply G; reflexivity.
    Qed.

    Lemma I_do_io evs : forall w,
      hc (I w) (do_io cf pl iin o evs) (fun _ => I (w ++ writes_of evs)) EX.
    Proof.
      induction evs as [|[|ch] evs IH]; intro w; cbn [do_io].
      - apply hc_ret. intros c H. unfold writes_of. cbn. rewrite app_nil_r. exact H.
      - eapply hc_bind.
        + eapply hc_pre; [apply (I_sys_read true w (fun _ => True))|]. intros k H. split; [exact H | exact Logic.I].
        + intro r. destruct r as [u|e|].
          * eapply hc_pre; [apply (IH w)|]. intros k [H _]. exact H.
          * eapply hc_pre; [apply I_fatal|]. intros k [H _]. exact H.
          * eapply hc_pre; [apply hc_false|]. intros k (_ & _ & F). exact F.
      - eapply hc_bind; [apply I_do_write|]. intro.
        eapply hc_conseq.
        + apply (IH (w ++ ch)).
        + auto.
        + intros a0 k H. unfold writes_of in *. cbn [map List.concat]. rewrite app_assoc. exact H.
        + auto.
    Qed.

    (* reading a directory: the first read fails, nothing returns *)
    Definition isdirP (w : bytes) : assn := fun c => I w c /\ input_is_dir (k_fs c) iin = true.

    Lemma I_read_dir {T} inhalt w (k : sysres unit -> M T) (Q : T -> assn) :
      (forall e, k (SErr e) = fatal pl "read") ->
      hc (isdirP w) (r <- sys pl inhalt KRead (fun f => sys_read f iin);; k r) Q EX.
    Proof.
      intro Hk. eapply hc_bind.
      - apply (I_sys_read inhalt w (fun f => input_is_dir f iin = true)).
      - intro r. destruct r as [u|e|].
        + eapply hc_pre; [apply hc_false|]. intros c (_ & Hd & Hr).
          destruct (sys_read_dir _ _ Hd) as [e He]. congruence.
        + rewrite Hk. eapply hc_pre; [apply I_fatal|]. intros c [H _]. exact H.
        + eapply hc_pre; [apply hc_false|]. intros c (_ & _ & F). exact F.
    Qed.

    Lemma I_main_reads n w : hc (I w) (main_reads pl n iin) (fun _ => I w) EX.
    Proof.
      induction n as [|n IH]; cbn [main_reads]; [apply hc_ret; auto|].
      eapply hc_bind.
      - eapply hc_pre; [apply (I_sys_read false w (fun _ => True))|]. intros k H. split; [exact H | exact Logic.I].
      - intro r. destruct r as [u|e|].
        + eapply hc_pre; [apply IH|]. intros k [H _]. exact H.
        + eapply hc_pre; [apply I_fatal|]. intros k [H _]. exact H.
        + eapply hc_pre; [apply hc_false|]. intros k (_ & _ & F). exact F.
    Qed.

    Lemma I_halt_entry w : hc (I w) (halt_entry pl) (fun _ => I w) EX.
    Proof.
      apply hc_halt_entry. intro sg. eapply hc_conseq.
      - apply (I_cleanup w).
      - auto.
      - intros a0 k H. apply (PAc_handled true); exact H.
      - auto.
    Qed.

    Lemma I_halt_entry_dir w : hc (isdirP w) (halt_entry pl) (fun _ => isdirP w) EX.
    Proof.
      apply hc_halt_entry. intro sg. eapply hc_conseq.
      - apply (I_cleanup w).
      - intros k [H _]. exact H.
      - intros a0 k H. apply (PAc_handled true); exact H.
      - auto.
    Qed.

    (* schedule() on a non-directory: everything was written and the verdict was good, or it did not return *)
    Lemma I_schedule w cr :
      hc (I w) (schedule cf pl iin o false cr) (fun _ c => I (w ++ writes_of (c_io cr)) c /\ c_ok cr = true) EX.
    Proof.
      unfold schedule. eapply hc_bind; [apply I_halt_entry|]. intro.
      eapply hc_bind; [apply I_do_io|]. intro. rewrite orb_false_r.
      destruct (c_ok cr); [apply hc_ret; auto | apply I_fatal].
    Qed.

    Lemma I_schedule_dir w cr : hc (isdirP w) (schedule cf pl iin o true cr) (fun _ _ => False) EX.
    Proof.
      unfold schedule. eapply hc_bind; [apply I_halt_entry_dir|]. intro.
      cbn [do_io]. eapply hc_bind with (R := fun _ _ => False); [|intros; apply hc_false].
      apply I_read_dir. reflexivity.
    Qed.

    Hypothesis I_keeps : forall w c, I w c -> keeps b (k_fs c).

    (* work(): when it returns, everything work() writes has been written; for a file
       output this is the complete expected output *)
    Lemma I_work :
      hc (I []) (work codec cf pl iin o)
         (fun _ c => exists w, I w c /\
                     (forall ndin, ilook b iin = Some ndin -> is_stdout o = false ->
                                   expected_output codec cf (i_data ndin) = Some w)) EX.
    Proof.
      intros s Hs. unfold work. cbv zeta.
      set (d := input_data (m_fs s) iin).
      assert (Hd : forall ndin, ilook b iin = Some ndin -> d = i_data ndin).
      { intros ndin Hn. unfold d, input_data. pose proof (I_keeps _ _ Hs _ _ Hn) as Hk. cbn in Hk. rewrite Hk. reflexivity. }
      clearbody d.
      destruct (input_is_dir (m_fs s) iin) eqn:Ed.
      - (* a directory: the first read fails *)
        assert (Hp : isdirP [] (core_of s)) by (split; [exact Hs | exact Ed]).
        assert (H : hc (isdirP [])
                       (if c_decompress cf
                        then main_reads pl (hdr_reads d) iin;;;
                             (if hdr_ok d then schedule cf pl iin o true (codec CExpand d)
                              else if c_force cf && is_stdout o
                                   then do_write cf pl false o (firstn 4 d);;; schedule cf pl iin o true (codec CCopy (skipn 4 d))
                                   else fatal pl "notbz2")
                        else schedule cf pl iin o true (codec CCompress d))
                       (fun _ _ => False) EX).
        { destruct (c_decompress cf); [|apply I_schedule_dir].
          eapply hc_bind with (R := fun _ _ => False); [|intros; apply hc_false].
          pose proof (hdr_reads_pos d) as Hpos. destruct (hdr_reads d) as [|n]; [lia|].
          cbn [main_reads]. apply I_read_dir. reflexivity. }
        specialize (H s Hp).
        match type of H with match ?X with _ => _ end => destruct X as [u s'|o0 w0 s'] end; [contradiction | exact H].
      - assert (H : hc (I [])
                       (if c_decompress cf
                        then main_reads pl (hdr_reads d) iin;;;
                             (if hdr_ok d then schedule cf pl iin o false (codec CExpand d)
                              else if c_force cf && is_stdout o
                                   then do_write cf pl false o (firstn 4 d);;; schedule cf pl iin o false (codec CCopy (skipn 4 d))
                                   else fatal pl "notbz2")
                        else schedule cf pl iin o false (codec CCompress d))
                       (fun _ c => exists w, I w c /\
                                   (forall ndin, ilook b iin = Some ndin -> is_stdout o = false ->
                                                 expected_output codec cf (i_data ndin) = Some w)) EX).
        { unfold expected_output. destruct (c_decompress cf).
          - eapply hc_bind; [apply I_main_reads|]. intro.
            destruct (hdr_ok d) eqn:Eh.
            + eapply hc_conseq; [apply (I_schedule [] (codec CExpand d)) | auto | | auto].
              intros a0 k [Hi Hok]. eexists. split; [exact Hi|]. intros ndin Hn _.
              rewrite <- (Hd _ Hn), Eh, Hok. reflexivity.
            + destruct (c_force cf && is_stdout o) eqn:Ec; [|apply I_fatal].
              eapply hc_bind; [apply I_do_write|]. intro.
              eapply hc_conseq; [apply (I_schedule ([] ++ firstn 4 d) (codec CCopy (skipn 4 d))) | auto | | auto].
              intros a1 k [Hi Hok]. eexists. split; [exact Hi|]. intros ndin Hn Hs'.
              apply andb_true_iff in Ec as [_ Ec]. congruence.
          - eapply hc_conseq; [apply (I_schedule [] (codec CCompress d)) | auto | | auto].
            intros a0 k [Hi Hok]. eexists. split; [exact Hi|]. intros ndin Hn _.
            rewrite <- (Hd _ Hn), Hok. reflexivity. }
        apply (H s Hs).
    Qed.
  End Work.
  (* ---- the two instances of work() ---------------------------------------------------------- *)
  Lemma with_fs_same (P : assn) c f : P c -> f = k_fs c -> P (with_fs c f).
  Proof. intros H ->. destruct c; exact H. Qed.

  Lemma work_file iin j :
    hc (PB false j []) (work codec cf pl iin (OFile j))
       (fun _ c => exists w, PB false j w c /\
                   (forall ndin, ilook b iin = Some ndin -> expected_output codec cf (i_data ndin) = Some w)) EX.
  Proof.
    eapply hc_conseq.
    - apply (I_work iin (OFile j) (PB false j)).
      + intros w c H. eapply PB_kill; eauto.
      + intros w c H. apply H.
      + intro w. apply cleanup_B.
      + intros w ch c (Ho & Hb & Hr & H). split; [exact Ho|]. split; [exact Hb|]. split; [exact Hr|].
        cbn [k_fs with_fs]. apply fsB_write. exact H.
      + intros w c f H E. apply with_fs_same; auto.
      + intros w c (_ & _ & _ & H). apply H.
    - auto.
    - intros a0 k (w & H & Hw). exists w. split; auto.
    - auto.
  Qed.

  Lemma work_nonfile iin o :
    (forall i, o <> OFile i) ->
    hc (PA true) (work codec cf pl iin o) (fun _ => PA true) EX.
  Proof.
    intro Ho. eapply hc_conseq.
    - apply (I_work iin o (fun _ => PA true)).
      + intros w c H. eapply PA_kill; eauto.
      + intros w c H. apply H.
      + intro w. apply cleanup_A.
      + intros w ch c (H1 & H2 & H3). split; [exact H1|]. split; [exact H2|]. cbn [k_fs with_fs].
        destruct ch as [|x ch]; [exact H3|]. destruct o as [| |i]; cbn [eff_write sys_write_stdout fst].
        * apply fsA_stdout. exact H3.
        * exact H3.
        * exfalso. eapply Ho. reflexivity.
      + intros w c f H E. apply with_fs_same; auto.
      + intros w c (_ & _ & H). apply H.
    - auto.
    - intros a0 k (w & H & _). exact H.
    - auto.
  Qed.

  (* ---- output_regf_uninit(), input_oprnd_rm() --------------------------------------------------- *)
  Lemma PB_upd_step j w k (g : inode -> inode) :
    (forall nd, i_kind (g nd) = i_kind nd) -> (forall nd, i_committed (g nd) = i_committed nd) ->
    (forall nd, i_data (g nd) = i_data nd) ->
    hc (PB false j w) (sys pl false k (fun f => (upd_inode f j g, SOk tt))) (fun _ => PB false j w) EX.
  Proof.
    intros G1 G2 G3. apply hc_sys_gen.
    - intros c H. eapply PB_kill; eauto.
    - intros c sg (_ & Hb & _) Hb'. congruence.
    - intros c e H. exact H.
    - intros c (Ho & Hb & Hr & H). unfold natural_ok. cbn [fst snd].
      split; [exact Ho|]. split; [exact Hb|]. split; [exact Hr|]. cbn [k_fs with_fs].
      eapply fsB_upd; eauto; intros; rewrite ?G2, ?G3; congruence.
    - discriminate.
  Qed.

  Definition PC (j : N) (w : bytes) : assn := fun c =>
    k_opathn c = None /\ k_blocked c = true /\ regf = true /\ fsB true j w (k_fs c).

  Lemma regf_uninit_ok j w st :
    hc (PB false j w) (regf_uninit pl j st) (fun _ => PC j w) EX.
  Proof.
    unfold regf_uninit.
    eapply hc_bind with (R := fun _ => PB false j w).
    { unfold sys_fchown. apply PB_upd_step; reflexivity. }
    intro r1. eapply hc_bind with (R := fun _ => PB false j w).
    { assert (Hm : hc (PB false j w)
                      ((if negb (N.land (st_mode st) special_mask =? 0) then warn "special" else ret tt);;;
                       r2 <- sys pl false KFchmod (sys_fchmod j (N.land (st_mode st) fchmod_mask));;
                       match r2 with SErr _ => warn "fchmod" | _ => ret tt end) (fun _ => PB false j w) EX).
      { eapply hc_bind with (R := fun _ => PB false j w).
        - destruct (negb _); [apply hc_say; auto | apply hc_ret; auto].
        - intro. eapply hc_bind with (R := fun _ => PB false j w).
          + unfold sys_fchmod. apply PB_upd_step; reflexivity.
          + intro r2. destruct r2; [apply hc_ret; auto | apply hc_say; auto | apply hc_ret; auto]. }
      destruct r1; [exact Hm | apply hc_say; auto | exact Hm]. }
    intro. eapply hc_bind with (R := fun _ => PB false j w).
    { unfold sys_futimens. apply PB_upd_step; reflexivity. }
    intro r3. eapply hc_bind with (R := fun _ => PB false j w).
    { destruct r3; [apply hc_ret; auto | apply hc_say; auto | apply hc_ret; auto]. }
    intro. eapply hc_bind with (R := fun r c => match r with SErr _ => PB false j w c | _ => PB true j w c end).
    { unfold sys_close_out. apply hc_sys_gen.
      - intros c H. eapply PB_kill; eauto.
      - intros c sg (_ & Hb & _) Hb'. congruence.
      - intros c e H. exact H.
      - intros c (Ho & Hb & Hr & H). unfold natural_ok. cbn [fst snd].
        split; [exact Ho|]. split; [exact Hb|]. split; [exact Hr|]. cbn [k_fs with_fs].
        eapply fsB_upd; eauto.
      - discriminate. }
    intro r4. eapply hc_bind with (R := fun _ => PB true j w).
    { destruct r4; [apply hc_ret; auto | eapply fatal_from; apply cleanup_B | apply hc_ret; auto]. }
    intro. apply hc_set_opathn. intros c (_ & Hb & Hr & H). split; [reflexivity|]. split; [exact Hb|]. split; [exact Hr | exact H].
  Qed.

  Lemma PC_kill j w c : PC j w c -> EX (Killed SIGKILL) WKill c.
  Proof. intros (_ & _ & Hr & H). right. right. left. split; [exact Hr|]. exists true, j, w. exact H. Qed.

  Lemma PD_intro bl j w c :
    k_opathn c = None -> k_blocked c = bl -> regf = true -> Wok w -> fsD j w (k_fs c) ->
    (nlook (k_fs c) op = None \/ k_rmfail c = true \/ c_keep cf = true) -> PD bl j w c.
  Proof. intros. unfold PD. tauto. Qed.

  Lemma oprnd_rm_ok j w :
    Wok w -> hc (PC j w) (oprnd_rm pl op) (fun _ => PD true j w) EX.
  Proof.
    intro Hw. unfold oprnd_rm.
    eapply hc_bind with (R := fun r c => match r with
                                         | SOk _ => PD true j w c
                                         | SErr _ => PC j w c
                                         | SHang => False
                                         end).
    - apply hc_sys_gen.
      + intros c H. eapply PC_kill; eauto.
      + intros c sg (_ & Hb & _) Hb'. congruence.
      + intros c e H. exact H.
      + intros c (Ho & Hb & Hr & H). unfold natural_ok.
        destruct (fsD_unlink_in j w _ (fsB_fsD _ _ _ H)) as [D1 D2].
        destruct (unlink_result (k_fs c) op) as [[E1 E2]|[e [E1 E2]]]; rewrite E1.
        * apply PD_intro; auto.
        * rewrite E2. split; [exact Ho|]. split; [exact Hb|]. split; [exact Hr|]. cbn [k_fs with_fs]. exact H.
      + discriminate.
    - intro r. destruct r as [u|e|].
      + apply hc_ret. auto.
      + eapply hc_bind with (R := fun _ => PD true j w).
        * apply hc_set_rmfail. intros c (Ho & Hb & Hr & H). apply PD_intro; auto. apply fsB_fsD. exact H.
        * intro. destruct (N.eqb e ENOENT); [apply hc_ret; auto | apply hc_say; auto].
      + apply hc_false.
  Qed.

  Lemma keep_ok j w : Wok w -> c_keep cf = true -> forall c, PC j w c -> PD true j w c.
  Proof. intros Hw Hk c (Ho & Hb & Hr & H). apply PD_intro; auto. apply fsB_fsD. exact H. Qed.

  (* ---- sti(), input_uninit() ------------------------------------------------------------------ *)
  Definition Fin : assn := fun c => PA false c \/ exists j w, PD false j w c.

  Lemma tail_A : hc (PA true) (sti;;; input_uninit pl) (fun _ => Fin) EX.
  Proof.
    eapply hc_bind with (R := fun _ => PA false).
    - apply hc_sti.
      + intros c (H1 & _ & H3). split; [exact H1|]. split; [reflexivity | exact H3].
      + intros c sg (H1 & _ & H3). right. cbn. left. exact H3.
    - intro. unfold input_uninit.
      eapply hc_bind with (R := fun _ => PA false).
      + apply hc_sys_gen.
        * intros c H. eapply PA_kill; eauto.
        * intros c sg H _. eapply PA_default; eauto.
        * intros c e H. exact H.
        * intros c H. unfold natural_ok. cbn. destruct c; exact H.
        * discriminate.
      + intro r. destruct r; [apply hc_ret; intros; left; auto | | apply hc_ret; intros; left; auto].
        eapply fatal_from. apply cleanup_A.
  Qed.

  Lemma tail_D j w : hc (PD true j w) (sti;;; input_uninit pl) (fun _ => Fin) EX.
  Proof.
    eapply hc_bind with (R := fun _ => PD false j w).
    - apply hc_sti.
      + intros c (H1 & _ & H3). split; [exact H1|]. split; [reflexivity | exact H3].
      + intros c sg H. right. cbn. right.
        assert (Hd : PD false j w (with_blocked c false)).
        { destruct H as (H1 & _ & H3). split; [exact H1|]. split; [reflexivity | exact H3]. }
        apply (PD_second _ _ _ _ Hd).
    - intro. unfold input_uninit.
      eapply hc_bind with (R := fun _ => PD false j w).
      + apply hc_sys_gen.
        * intros c H. eapply PD_kill; eauto.
        * intros c sg H _. right. cbn. right. eapply PD_second; eauto.
        * intros c e H. exact H.
        * intros c H. unfold natural_ok. cbn. destruct c; exact H.
        * discriminate.
      + intro r. destruct r; [apply hc_ret; intros; right; eauto | apply fatal_D | apply hc_ret; intros; right; eauto].
  Qed.
  (* ---- input_init(): nothing changes; what a successful open tells ---------------------------- *)
  Definition P0 : assn := fun c => k_opathn c = None /\ k_blocked c = false /\ k_fs c = b.

  Lemma P0_fsA c : P0 c -> fsA (k_fs c).
  Proof. intros (_ & _ & ->). apply fsA_refl. Qed.

  Lemma ro_sys {T} k (g : fs -> sysres T) :
    hc P0 (sys pl false k (fun f => (f, g f)))
       (fun r c => P0 c /\ match r with SOk a => g b = SOk a | SErr _ => True | SHang => False end) EX.
  Proof.
    apply hc_sys_gen.
    - intros c H. right. left. apply P0_fsA. exact H.
    - intros c sg H _. right. left. apply P0_fsA. exact H.
    - intros c e H. split; [exact H | exact Logic.I].
    - intros c H. unfold natural_ok. cbn [fst snd]. destruct H as (H1 & H2 & H3). rewrite H3.
      destruct (g b) eqn:Eg.
      + split; [|reflexivity]. repeat split; auto.
      + split; [|exact Logic.I]. repeat split; auto.
      + right. cbn. rewrite H3. apply fsA_refl.
    - discriminate.
  Qed.

  Lemma lstat_reg f p st : sys_lstat f p = SOk st -> st_kind st = SReg -> exists i, nlook f p = Some (DLink i).
  Proof.
    unfold sys_lstat. destruct (nlook f p) as [[i|t]|]; try discriminate.
    - intros _ _. eauto.
    - intro H. inversion H; subst. cbn. discriminate.
  Qed.

  Definition in_facts (iin : N) (st : stat) : Prop :=
    sys_open_rd b op = SOk iin /\ sys_fstat b iin = SOk st /\
    (c_force cf = false -> regf = true -> exists i, nlook b op = Some (DLink i)).

  Lemma fatal_0 {T} tag (Q : T -> assn) : hc P0 (fatal pl tag) Q EX.
  Proof.
    eapply hc_pre; [eapply (fatal_from (PA false) false); apply cleanup_A|].
    intros c H. destruct H as (H1 & H2 & H3). split; [exact H1|]. split; [exact H2|]. rewrite H3. apply fsA_refl.
  Qed.

  Lemma input_init_ok :
    hc P0 (input_init cf pl op)
       (fun r c => P0 c /\ match r with inl _ => True | inr (iin, st) => in_facts iin st end) EX.
  Proof.
    unfold input_init.
    eapply hc_bind with (R := fun pre c => P0 c /\ (pre = None -> c_force cf = false -> regf = true ->
                                                   exists i, nlook b op = Some (DLink i))).
    - destruct (c_force cf) eqn:Ef.
      + apply hc_ret. intros c H. split; [exact H|]. discriminate.
      + eapply hc_bind; [apply ro_sys|]. intro r. destruct r as [st|e|].
        * destruct (match c_outmode cf with OmRegf => true | _ => false end &&
                    negb match st_kind st with SReg => true | _ => false end) eqn:E1.
          { eapply hc_bind with (R := fun _ => P0); [apply hc_say; intros c [H _]; exact H|].
            intro. apply hc_ret. intros c H. split; [exact H | discriminate]. }
          destruct (match c_outmode cf with OmRegf => true | _ => false end && negb (c_keep cf) &&
                    (nlink_limit <? st_nlink st)) eqn:E2.
          { eapply hc_bind with (R := fun _ => P0); [apply hc_say; intros c [H _]; exact H|].
            intro. apply hc_ret. intros c H. split; [exact H | discriminate]. }
          apply hc_ret. intros c [H Hl]. split; [exact H|]. intros _ _ Hr.
          unfold regf in Hr. destruct (c_outmode cf); try discriminate. cbn [andb] in E1.
          apply negb_false_iff in E1. destruct (st_kind st) eqn:Ek; try discriminate.
          eapply lstat_reg; eauto.
        * eapply hc_bind with (R := fun _ => P0); [apply hc_say; intros c [H _]; exact H|].
          intro. apply hc_ret. intros c H. split; [exact H | discriminate].
        * eapply hc_pre; [apply hc_false|]. intros c [_ F]. exact F.
    - intro pre. apply hc_pure_pre. intro Hpre. destruct pre as [t|].
      + apply hc_ret. intros c H. split; [exact H | exact Logic.I].
      + specialize (Hpre eq_refl).
        destruct (_ && _).
        { eapply hc_bind with (R := fun _ => P0); [apply hc_say; auto|].
          intro. apply hc_ret. intros c H. split; [exact H | exact Logic.I]. }
        eapply hc_bind; [apply ro_sys|]. intro r. destruct r as [iin|e|].
        * apply hc_pure_pre. intro Ho.
          eapply hc_bind; [apply ro_sys|]. intro r2. destruct r2 as [st|e|].
          -- apply hc_ret. intros c [H Hst]. split; [exact H|]. split; [exact Ho|]. split; [exact Hst | exact Hpre].
          -- eapply hc_bind with (R := fun _ => P0); [apply hc_say; intros c [H _]; exact H|].
             intro. eapply hc_bind; [apply (ro_sys KClose (fun _ => SOk tt))|]. intro r3.
             destruct r3; [apply hc_ret; intros c [H _]; split; [exact H | exact Logic.I] | |].
             ++ eapply hc_pre; [apply fatal_0|]. intros c [H _]. exact H.
             ++ eapply hc_pre; [apply hc_false|]. intros c [_ F]. exact F.
          -- eapply hc_pre; [apply hc_false|]. intros c [_ F]. exact F.
        * eapply hc_bind with (R := fun _ => P0); [apply hc_say; intros c [H _]; exact H|].
          intro. apply hc_ret. intros c H. split; [exact H | exact Logic.I].
        * eapply hc_pre; [apply hc_false|]. intros c [_ F]. exact F.
  Qed.

  (* ---- output_init() ------------------------------------------------------------------------------ *)
  Definition PA0 : assn := fun c => k_opathn c = None /\ k_blocked c = true /\ k_fs c = b.

  Lemma PA0_PA c : PA0 c -> PA true c.
  Proof. intros (H1 & H2 & H3). split; [exact H1|]. split; [exact H2|]. rewrite H3. apply fsA_refl. Qed.

  Lemma open_rd_resolve f p iin :
    sys_open_rd f p = SOk iin -> resolve f SYMLOOP_MAX p = SOk iin /\ exists nd, ilook f iin = Some nd.
  Proof.
    unfold sys_open_rd. destruct (resolve f SYMLOOP_MAX p) as [i|e|]; try discriminate.
    destruct (ilook f i) as [nd|] eqn:E; try discriminate. intro H.
    assert (i = iin) by (destruct (i_kind nd); congruence). subst i. split; [reflexivity | eauto].
  Qed.

  (* the output name is not on the way from the operand to its file: checked by the (repaired) source, or by hypothesis *)
  Definition qsafe : Prop :=
    plain -> forall i, resolve b SYMLOOP_MAX op = SOk i -> onchain b SYMLOOP_MAX op q = false.

  Lemma check_qsafe iin st :
    in_facts iin st -> c_force cf = true ->
    c_force cf && output_init_checks_same_file && same_file b q st = false -> qsafe.
  Proof.
    intros (Ho & Hst & _) Hf Hc Hpl i Hi.
    destruct (open_rd_resolve _ _ _ Ho) as [Hr [nd Hnd]]. rewrite Hr in Hi. inversion Hi; subst i. clear Hi.
    rewrite Hf in Hc. cbn [andb] in Hc.
    destruct output_init_checks_same_file eqn:Efl.
    - cbn [andb] in Hc. destruct (onchain b SYMLOOP_MAX op q) eqn:Ec; [exfalso | reflexivity].
      destruct (onchain_resolves _ _ _ _ _ Hr Ec) as (m & Lm & Hm).
      apply (resolve_mono _ _ SYMLOOP_MAX) in Hm; auto.
      unfold same_file, sys_stat in Hc. rewrite Hm, Hnd in Hc.
      unfold sys_fstat in Hst. rewrite Hnd in Hst. inversion Hst; subst st.
      cbn in Hc. rewrite N.eqb_refl in Hc. discriminate.
    - destruct Hpl as [Hpl|Hpl]; [discriminate|].
      destruct (nlook b op) as [[i|t]|] eqn:Eop.
      + apply (onchain_link _ _ _ _ i); auto. intro E. apply q_neq_op. auto.
      + exfalso. apply (Hpl Hf t). reflexivity.
      + apply onchain_none; auto. intro E. apply q_neq_op. auto.
  Qed.

  Definition out_post : option odst -> assn := fun r c =>
    match r with
    | Some (OFile j) => PB false j [] c
    | Some _ => PA true c /\ regf = false
    | None => PA true c
    end.

  Lemma output_init_rest_ok st :
    regf = true -> (c_force cf = true -> qsafe) ->
    hc PA0
       ((if c_force cf
         then r <- sys pl false KUnlink (fun f => sys_unlink f q);;
              match r with
              | SErr e => if N.eqb e ENOENT then ret tt else say MInfo "unlink-out"
              | _ => ret tt
              end
         else ret tt);;;
        r <- sys pl false KOpen (fun f => sys_creat_excl f q (N.land (st_mode st) open_out_mode_mask)
                                                      (c_uid cf) (c_gid cf) (c_now cf));;
        match r with
        | SOk i => modify (fun s => set_opathn s (Some q));;; ret (Some (OFile i))
        | _ => warn "open-out";;; ret None
        end) out_post EX.
  Proof.
    intros Hr Hqs.
    eapply hc_bind with (R := fun _ => PA true).
    { destruct (c_force cf) eqn:Ef; [|apply hc_ret; intros c H; apply PA0_PA; exact H].
      eapply hc_bind with (R := fun _ => PA true).
      - apply hc_sys_gen.
        + intros c H. eapply PA_kill. apply PA0_PA. exact H.
        + intros c sg (_ & Hb & _) Hb'. congruence.
        + intros c e H. apply PA0_PA. exact H.
        + intros c (H1 & H2 & H3). unfold natural_ok. rewrite H3.
          assert (Hx : PA true (with_fs c (fst (sys_unlink b q)))).
          { split; [exact H1|]. split; [exact H2|]. cbn [k_fs with_fs]. apply fsA_force_unlink; [exact Hr | exact Ef | exact (Hqs eq_refl)]. }
          destruct (unlink_result b q) as [[E1 _]|[e [E1 _]]]; rewrite E1; exact Hx.
        + discriminate.
      - intro r. destruct r as [u|e|]; try (apply hc_ret; auto).
        destruct (N.eqb e ENOENT); [apply hc_ret; auto | apply hc_say; auto]. }
    intro. eapply hc_bind with (R := fun r c => match r with
                                                | SOk j => k_opathn c = None /\ k_blocked c = true /\ fsB false j [] (k_fs c)
                                                | SErr _ => PA true c
                                                | SHang => False
                                                end).
    + apply hc_sys_gen.
      * intros c H. eapply PA_kill; eauto.
      * intros c sg (_ & Hb & _) Hb'. congruence.
      * intros c e H. exact H.
      * intros c (H1 & H2 & H3). unfold natural_ok.
        destruct (snd (sys_creat_excl (k_fs c) q _ _ _ _)) as [j|e|] eqn:Ec.
        -- split; [exact H1|]. split; [exact H2|]. cbn [k_fs with_fs]. apply fsA_creat; auto.
        -- split; [exact H1|]. split; [exact H2|]. cbn [k_fs with_fs]. rewrite (creat_err _ _ _ _ _ _ _ Ec). exact H3.
        -- exfalso. eapply creat_not_hang; eauto.
      * discriminate.
    + intro r. destruct r as [j|e|].
      * eapply hc_bind with (R := fun _ => PB false j []).
        -- apply hc_set_opathn. intros c (_ & H2 & H3). split; [reflexivity|]. split; [exact H2|]. split; [exact Hr | exact H3].
        -- intro. apply hc_ret. auto.
      * eapply hc_bind with (R := fun _ => PA true); [apply hc_say; auto|]. intro. apply hc_ret. auto.
      * apply hc_false.
  Qed.

  Lemma output_init_ok iin st : in_facts iin st -> hc PA0 (output_init cf pl op st) out_post EX.
  Proof.
    intro Hf. unfold output_init. destruct (c_outmode cf) eqn:Eo.
    - apply hc_ret. intros c H. split; [apply PA0_PA; exact H|]. unfold regf. rewrite Eo. reflexivity.
    - apply hc_ret. intros c H. split; [apply PA0_PA; exact H|]. unfold regf. rewrite Eo. reflexivity.
    - rewrite Hq.
      assert (Hr : regf = true) by (unfold regf; rewrite Eo; reflexivity).
      intros s Hs. cbv beta. pose proof Hs as (_ & _ & Efs). cbn in Efs. rewrite Efs.
      destruct (c_force cf && output_init_checks_same_file && same_file b q st) eqn:Esf.
      + cbn. apply PA0_PA. exact Hs.
      + apply (output_init_rest_ok st Hr); [|exact Hs]. intro Hfo. eapply check_qsafe; eauto.
  Qed.

  (* ---- one operand ------------------------------------------------------------------------------------ *)
  Lemma facts_Wok iin st w :
    in_facts iin st ->
    (forall ndin, ilook b iin = Some ndin -> expected_output codec cf (i_data ndin) = Some w) -> Wok w.
  Proof.
    intros (Ho & _) Hw. destruct (open_rd_resolve _ _ _ Ho) as [Hr [nd Hnd]].
    exists iin, nd. split; [exact Hr|]. split; [exact Hnd | apply Hw; exact Hnd].
  Qed.

  Lemma run1_ok : hc P0 (run1 codec cf pl op) (fun _ => Fin) EX.
  Proof.
    unfold run1. eapply hc_bind; [apply input_init_ok|]. intro ii. destruct ii as [t|[iin st]].
    - apply hc_ret. intros c [H _]. left. destruct H as (H1 & H2 & H3). split; [exact H1|]. split; [exact H2|].
      rewrite H3. apply fsA_refl.
    - apply hc_pure_pre. intro Hf.
      eapply hc_bind with (R := fun _ => PA0).
      { apply hc_set_blocked. intros c (H1 & _ & H3). split; [exact H1|]. split; [reflexivity|]. exact H3. }
      intro. eapply hc_bind; [apply (output_init_ok iin st Hf)|]. intro oo. unfold out_post.
      assert (TA : forall d : disp, hc (PA true) (sti;;; input_uninit pl;;; ret d) (fun _ => Fin) EX).
      { intro d. eapply hc_bind with (R := fun _ => PA false).
        - apply hc_sti.
          + intros c (H1 & _ & H3). split; [exact H1|]. split; [reflexivity | exact H3].
          + intros c sg (H1 & _ & H3). right. cbn. left. exact H3.
        - intro. eapply hc_bind with (R := fun _ => Fin); [|intro; apply hc_ret; auto]. unfold input_uninit.
          eapply hc_bind with (R := fun _ => PA false).
          + apply hc_sys_gen.
            * intros c H. eapply PA_kill; eauto.
            * intros c sg H _. eapply PA_default; eauto.
            * intros c e H. exact H.
            * intros c H. unfold natural_ok. cbn. destruct c; exact H.
            * discriminate.
          + intro r. destruct r; [apply hc_ret; intros; left; auto | | apply hc_ret; intros; left; auto].
            eapply fatal_from. apply cleanup_A. }
      assert (TD : forall j w (d : disp), hc (PD true j w) (sti;;; input_uninit pl;;; ret d) (fun _ => Fin) EX).
      { intros j w d. eapply hc_bind with (R := fun _ => PD false j w).
        - apply hc_sti.
          + intros c (H1 & _ & H3). split; [exact H1|]. split; [reflexivity | exact H3].
          + intros c sg H. right. cbn. right.
            assert (Hd : PD false j w (with_blocked c false)).
            { destruct H as (H1 & _ & H3). split; [exact H1|]. split; [reflexivity | exact H3]. }
            apply (PD_second _ _ _ _ Hd).
        - intro. eapply hc_bind with (R := fun _ => Fin); [|intro; apply hc_ret; auto]. unfold input_uninit.
          eapply hc_bind with (R := fun _ => PD false j w).
          + apply hc_sys_gen.
            * intros c H. eapply PD_kill; eauto.
            * intros c sg H _. right. cbn. right. eapply PD_second; eauto.
            * intros c e H. exact H.
            * intros c H. unfold natural_ok. cbn. destruct c; exact H.
            * discriminate.
          + intro r. destruct r; [apply hc_ret; intros; right; eauto | apply fatal_D | apply hc_ret; intros; right; eauto]. }
      destruct oo as [[| |j]|].
      + (* stdout *)
        apply hc_pure_pre. intros _.
        eapply hc_bind with (R := fun _ => PA true); [|intro d; apply TA].
        eapply hc_bind with (R := fun _ => PA true); [apply work_nonfile; discriminate|].
        intro. eapply hc_bind with (R := fun _ => PA true); apply hc_ret || intro; [auto | apply hc_ret; auto].
      + apply hc_pure_pre. intros _.
        eapply hc_bind with (R := fun _ => PA true); [|intro d; apply TA].
        eapply hc_bind with (R := fun _ => PA true); [apply work_nonfile; discriminate|].
        intro. eapply hc_bind with (R := fun _ => PA true); apply hc_ret || intro; [auto | apply hc_ret; auto].
      + (* regular file output *)
        eapply hc_bind with (R := fun _ c => exists w, PD true j w c); [|intro d; apply hc_exists_pre; intro w; apply TD].
        eapply hc_bind; [apply work_file|]. intro. apply hc_exists_pre. intro w.
        eapply hc_pre with (P := fun c => PB false j w c /\ Wok w).
        2:{ intros c [H Hw]. split; [exact H|]. apply (facts_Wok iin st); auto. }
        apply hc_pure_pre. intro Hw.
        eapply hc_bind with (R := fun _ c => exists w, PD true j w c); [|intro; apply hc_ret; auto].
        eapply hc_bind; [apply regf_uninit_ok|]. intro.
        destruct (c_keep cf) eqn:Ek.
        * apply hc_ret. intros c H. exists w. apply keep_ok; auto.
        * eapply hc_conseq; [apply (oprnd_rm_ok j w Hw) | auto | | auto]. intros u9 k H. exists w. exact H.
      + eapply hc_bind with (R := fun _ => PA true); [apply hc_ret; auto | intro d; apply TA].
  Qed.
End C16.

(* ---- from one operand to the whole run ------------------------------------------------------ *)
(* Unless the source checks that the output name does not lead to the input file (flag regenerated from
   output_init()), -f on an operand that is a symbolic link is excluded. *)
Definition plain_op (cf : cfg) (b : fs) (op : path) : Prop :=
  output_init_checks_same_file = true \/ (c_force cf = true -> forall t, nlook b op <> Some (DSym t)).

Definition first_or_kept (cf : cfg) (b a : fs) (op : path) : Prop :=
  match c_outmode cf with OmRegf => first_state cf b a op | _ => tree_kept b a end.

Definition strict_first (y : why) : bool :=
  match y with
  | WSigHandled | WHang => true
  | WFatal t => negb (String.eqb t "close-in")
  | _ => false
  end.

(* what is proved about every operand that was started *)
Definition entry_ok (codec : cmode -> bytes -> cres) (cf : cfg) (h : hentry) : Prop :=
  h_cleanfail h = false -> plain_op cf (h_before h) (h_op h) ->
  match h_disp h with
  | DAborted WKill => kill_safe codec cf (h_before h) (h_after h) (h_op h)
  | DAborted y => safe codec cf (h_before h) (h_after h) (h_op h) (h_rmfail h) /\
                  (strict_first y = true -> first_or_kept cf (h_before h) (h_after h) (h_op h))
  | _ => safe codec cf (h_before h) (h_after h) (h_op h) (h_rmfail h)
  end.

Definition not_aborted (d : disp) : Prop := match d with DAborted _ => False | _ => True end.

Lemma hc_true {A} (c : M A) : hc (fun _ => True) c (fun _ _ => True) (fun _ _ _ => True).
Proof. intros s _. destruct (c s); exact I. Qed.

Lemma run1_disp codec cf pl op :
  hc (fun _ => True) (run1 codec cf pl op) (fun d _ => not_aborted d) (fun _ _ _ => True).
Proof.
  unfold run1. eapply hc_bind; [apply hc_true|]. intro ii. destruct ii as [t|[iin st]].
  - apply hc_ret. intros. exact I.
  - eapply hc_bind; [apply hc_true|]. intro. eapply hc_bind; [apply hc_true|]. intro oo.
    eapply hc_bind with (R := fun d _ => not_aborted d).
    + destruct oo as [o|]; [|apply hc_ret; intros; exact I].
      eapply hc_bind; [apply hc_true|]. intro. eapply hc_bind; [apply hc_true|]. intro.
      apply hc_ret. intros. exact I.
    + intro d. eapply hc_bind with (R := fun _ _ => not_aborted d).
      * intros s H. destruct (sti s); [exact H | exact I].
      * intro. eapply hc_bind with (R := fun _ _ => not_aborted d).
        -- intros s H. destruct (input_uninit pl s); [exact H | exact I].
        -- intro. apply hc_ret. auto.
Qed.

(* ---- the ghost history is only extended by run_op ---------------------------------------------- *)
Definition hp {A} (c : M A) : Prop :=
  forall s, match c s with Ret _ s' => m_hist s' = m_hist s | Stop _ _ s' => m_hist s' = m_hist s end.

Lemma hp_ret {A} (a : A) : hp (ret a). Proof. intro s. reflexivity. Qed.
Lemma hp_stop {A} o w : hp (stop (A:=A) o w). Proof. intro s. reflexivity. Qed.
Lemma hp_bind {A B} (c : M A) (f : A -> M B) : hp c -> (forall a, hp (f a)) -> hp (bind c f).
Proof.
  intros H1 H2 s. unfold bind. specialize (H1 s). destruct (c s) as [a s'|o w s']; auto.
  specialize (H2 a s'). destruct (f a s'); congruence.
Qed.
Lemma hp_modify (g : mstate -> mstate) : (forall s, m_hist (g s) = m_hist s) -> hp (modify g).
Proof. intros H s. cbn. apply H. Qed.

Section HP.
  Variable codec : cmode -> bytes -> cres.
  Variable cf : cfg.
  Variable pl : plan.

  Lemma hp_sys_gen {A} cl inhalt k (f : fs -> fs * sysres A) : hp cl -> hp (sys_gen pl cl inhalt k f).
  Proof.
    intros Hcl s. unfold sys_gen.
    set (s1 := set_cnt s _).
    assert (N : forall s2, m_hist s2 = m_hist s ->
               match (let '(f', r) := f (m_fs s2) in match r with SHang => Stop Hang WHang s2 | _ => Ret r (set_fs s2 f') end) with
               | Ret _ s' => m_hist s' = m_hist s | Stop _ _ s' => m_hist s' = m_hist s end).
    { intros s2 E. destruct (f (m_fs s2)) as [f' r]. destruct r; exact E. }
    destruct (plan_lookup pl k _) as [[e|sg]|]; [reflexivity| |apply N; reflexivity].
    destruct sg; try reflexivity;
      (destruct (m_blocked s1); [|reflexivity]; destruct inhalt; [|apply N; reflexivity];
       unfold handled_in_halt, bind, stop; specialize (Hcl s1); destruct (cl s1); exact Hcl).
  Qed.

  Ltac hpa :=
    repeat first
      [ apply hp_ret | apply hp_stop | apply hp_bind
      | apply hp_modify; intro; reflexivity
      | match goal with
        | |- forall _, _ => intro
        | |- hp (match ?x with _ => _ end) => destruct x
        | |- hp (if ?x then _ else _) => destruct x
        end ].

  Lemma hp_cleanup : hp (cleanup pl).
  Proof.
    intro s. unfold cleanup. destruct (m_opathn s) as [q'|]; [|reflexivity].
    assert (H : hp (r <- sys_gen pl (ret tt) false KUnlink (fun f => sys_unlink f q');;
                    modify (fun s => set_opathn s None);;;
                    match r with SErr _ => modify (fun s => set_cleanfail s true) | _ => ret tt end)).
    { apply hp_bind; [apply hp_sys_gen; apply hp_ret|]. hpa. }
    apply H.
  Qed.

  Lemma hp_sys {A} inhalt k (f : fs -> fs * sysres A) : hp (sys pl inhalt k f).
  Proof. apply hp_sys_gen. apply hp_cleanup. Qed.

  Lemma hp_say c t : hp (say c t). Proof. apply hp_modify. reflexivity. Qed.

  Lemma hp_fatal {A} tag : hp (fatal pl (A:=A) tag).
  Proof. unfold fatal. apply hp_bind; [apply hp_say|]. intro. apply hp_bind; [apply hp_cleanup|]. intro. apply hp_stop. Qed.

  Ltac hpb :=
    repeat first
      [ apply hp_ret | apply hp_stop | apply hp_sys | apply hp_fatal | apply hp_say | apply hp_cleanup
      | apply hp_bind
      | apply hp_modify; intro; reflexivity
      | match goal with
        | |- forall _, _ => intro
        | |- hp (match ?x with _ => _ end) => destruct x
        | |- hp (if ?x then _ else _) => destruct x
        | |- hp (warn _) => apply hp_say
        end ].

  Lemma hp_input_init op : hp (input_init cf pl op).
  Proof. unfold input_init. hpb. Qed.

  Lemma hp_output_init op st : hp (output_init cf pl op st).
  Proof.
    unfold output_init. destruct (c_outmode cf); try apply hp_ret.
    destruct (out_name (c_decompress cf) op) as [q|]; [|apply hp_fatal].
    intro s. cbv beta. destruct (_ && _).
    - assert (H : hp (warn "samefile";;; ret (@None odst))) by hpb. apply H.
    - match goal with |- match ?c s with _ => _ end => assert (H : hp c) by hpb end. apply H.
  Qed.

  Lemma hp_main_reads n iin : hp (main_reads pl n iin).
  Proof. induction n; cbn [main_reads]; [apply hp_ret|]. apply hp_bind; [apply hp_sys|]. intro r. destruct r; auto. apply hp_fatal. Qed.

  Lemma hp_do_write inhalt o c : hp (do_write cf pl inhalt o c).
  Proof. unfold do_write, write_failed, die_by. hpb. Qed.

  Lemma hp_do_io iin o evs : hp (do_io cf pl iin o evs).
  Proof.
    induction evs as [|[|c] evs IH]; cbn [do_io]; [apply hp_ret| |].
    - apply hp_bind; [apply hp_sys|]. intro r. destruct r; auto. apply hp_fatal.
    - apply hp_bind; [apply hp_do_write|]. auto.
  Qed.

  Lemma hp_halt_entry : hp (halt_entry pl).
  Proof.
    intro s. unfold halt_entry. pose proof (hp_cleanup s) as H.
    destruct (m_pint s); [unfold handled_in_halt, bind, stop; destruct (cleanup pl s); exact H|].
    destruct (m_pterm s); [unfold handled_in_halt, bind, stop; destruct (cleanup pl s); exact H|]. reflexivity.
  Qed.

  Lemma hp_schedule iin o isdir cr : hp (schedule cf pl iin o isdir cr).
  Proof.
    unfold schedule. apply hp_bind; [apply hp_halt_entry|]. intro. apply hp_bind; [apply hp_do_io|]. intro.
    destruct (_ || _); [apply hp_ret | apply hp_fatal].
  Qed.

  Lemma hp_work iin o : hp (work codec cf pl iin o).
  Proof.
    intro s. unfold work. cbv zeta.
    set (d := input_data (m_fs s) iin). set (isd := input_is_dir (m_fs s) iin).
    assert (H : hp (if c_decompress cf
                    then main_reads pl (hdr_reads d) iin;;;
                         (if hdr_ok d then schedule cf pl iin o isd (codec CExpand d)
                          else if c_force cf && is_stdout o
                               then do_write cf pl false o (firstn 4 d);;; schedule cf pl iin o isd (codec CCopy (skipn 4 d))
                               else fatal pl "notbz2")
                    else schedule cf pl iin o isd (codec CCompress d))).
    { destruct (c_decompress cf); [|apply hp_schedule].
      apply hp_bind; [apply hp_main_reads|]. intro. destruct (hdr_ok d); [apply hp_schedule|].
      destruct (_ && _); [|apply hp_fatal]. apply hp_bind; [apply hp_do_write|]. intro. apply hp_schedule. }
    apply H.
  Qed.

  Lemma hp_sti : hp sti.
  Proof. intro s. unfold sti. destruct (m_pint s); [reflexivity|]. destruct (m_pterm s); reflexivity. Qed.

  Lemma hp_regf_uninit j st : hp (regf_uninit pl j st).
  Proof. unfold regf_uninit. hpb. Qed.

  Lemma hp_oprnd_rm op : hp (oprnd_rm pl op).
  Proof. unfold oprnd_rm. hpb. Qed.

  Lemma hp_run1 op : hp (run1 codec cf pl op).
  Proof.
    unfold run1. apply hp_bind; [apply hp_input_init|]. intro ii. destruct ii as [t|[iin st]]; [apply hp_ret|].
    apply hp_bind; [apply hp_modify; reflexivity|]. intro.
    apply hp_bind; [apply hp_output_init|]. intro oo.
    apply hp_bind.
    - destruct oo as [o|]; [|apply hp_ret].
      apply hp_bind; [apply hp_work|]. intro. apply hp_bind; [|intro; apply hp_ret].
      destruct o; try apply hp_ret. apply hp_bind; [apply hp_regf_uninit|]. intro.
      destruct (c_keep cf); [apply hp_ret | apply hp_oprnd_rm].
    - intro d. apply hp_bind; [apply hp_sti|]. intro. apply hp_bind; [|intro; apply hp_ret].
      unfold input_uninit. hpb.
  Qed.
End HP.

Section RunOk.
  Variable codec : cmode -> bytes -> cres.
  Variable cf : cfg.
  Variable pl : plan.

  Lemma fsA_kept b op q f : regf cf = false -> fsA cf b op q f -> tree_kept b f.
  Proof.
    intros Hr (H1 & H2 & H3 & _). split; [|exact H1]. intro p.
    destruct (String.eqb_spec p q) as [->|Hp]; [|apply H2; auto].
    destruct H3 as [H3|(A & _)]; [exact H3 | congruence].
  Qed.

  Lemma regf_spec : regf cf = true <-> c_outmode cf = OmRegf.
  Proof. unfold regf. destruct (c_outmode cf); split; congruence. Qed.

  Lemma fsA_first_or_kept b op q f :
    out_name (c_decompress cf) op = Some q -> plain cf b op -> fsA cf b op q f -> first_or_kept cf b f op.
  Proof.
    intros Hq Hpl H. unfold first_or_kept. destruct (c_outmode cf) eqn:Eo.
    - eapply fsA_kept; eauto. unfold regf. rewrite Eo. reflexivity.
    - eapply fsA_kept; eauto. unfold regf. rewrite Eo. reflexivity.
    - eapply fsA_first; eauto.
  Qed.

  Lemma first_or_kept_safe b f op rm : first_or_kept cf b f op -> safe codec cf b f op rm.
  Proof. unfold first_or_kept, safe. destruct (c_outmode cf); auto. Qed.

  Lemma second_safe b op q f rm :
    out_name (c_decompress cf) op = Some q -> second codec cf b op q f rm -> safe codec cf b f op rm.
  Proof.
    intros Hq H. pose proof H as (Hr & _). apply regf_spec in Hr. unfold safe. rewrite Hr.
    right. eapply second_second; eauto.
  Qed.

  Lemma safe_kill b f op rm : safe codec cf b f op rm -> kill_safe codec cf b f op.
  Proof.
    unfold safe, kill_safe. destruct (c_outmode cf); auto.
    unfold first_state, second_state. destruct (out_name (c_decompress cf) op) as [q|].
    - intros [[H _]|[H _]]; [left; exact H | right; eauto].
    - intros [H|[]]. left. exact H.
  Qed.

  Lemma Fin_safe b op q c :
    out_name (c_decompress cf) op = Some q -> plain cf b op ->
    Fin codec cf b op q c -> safe codec cf b (k_fs c) op (k_rmfail c).
  Proof.
    intros Hq Hpl [H|(j & w & H)].
    - apply first_or_kept_safe. eapply fsA_first_or_kept; eauto. apply H.
    - eapply second_safe; eauto. eapply PD_second; eauto.
  Qed.

  Lemma EX_entry b op q o y c :
    out_name (c_decompress cf) op = Some q -> plain cf b op ->
    EX codec cf b op q o y c -> k_cleanfail c = false ->
    match y with
    | WKill => kill_safe codec cf b (k_fs c) op
    | _ => safe codec cf b (k_fs c) op (k_rmfail c) /\
           (strict_first y = true -> first_or_kept cf b (k_fs c) op)
    end.
  Proof.
    intros Hq Hpl [H|H] Hc; [congruence|].
    assert (FA : forall f, fsA cf b op q f -> first_or_kept cf b f op) by (intros; eapply fsA_first_or_kept; eauto).
    assert (S2 : forall f rm, fsA cf b op q f \/ second codec cf b op q f rm -> safe codec cf b f op rm).
    { intros f rm [A|A]; [apply first_or_kept_safe; auto | eapply second_safe; eauto]. }
    destruct y; cbn in H.
    - destruct (String.eqb tag "close-in") eqn:Et; cbn [strict_first]; rewrite Et; cbn [negb].
      + split; [apply S2; exact H | discriminate].
      + split; [apply first_or_kept_safe; auto | auto].
    - split; [apply first_or_kept_safe; auto | auto].
    - split; [apply S2; exact H | discriminate].
    - split; [apply S2; exact H | discriminate].
    - destruct H as [H|[(Hr & cm & j & w & H)|(Hr & j & w & Hw & H)]].
      + apply (safe_kill b (k_fs c) op false). apply first_or_kept_safe. auto.
      + apply regf_spec in Hr. unfold kill_safe. rewrite Hr. left. eapply fsB_intact; eauto.
      + apply regf_spec in Hr. unfold kill_safe. rewrite Hr. right. exists q. split; [exact Hq|].
        eapply fsD_complete; eauto.
    - split; [apply first_or_kept_safe; auto | auto].
  Qed.

  Definition boundary_ok (s : mstate) : Prop := m_opathn s = None /\ m_blocked s = false.

  Lemma run_op_ok op s : boundary_ok s ->
    match run_op codec cf pl op s with
    | Ret _ s' => boundary_ok s' /\ exists h, m_hist s' = h :: m_hist s /\ entry_ok codec cf h
    | Stop o y s' => exists h, m_hist s' = h :: m_hist s /\ entry_ok codec cf h
    end.
  Proof.
    intros [Bo Bb]. unfold run_op.
    set (s0 := set_cleanfail (set_rmfail s false) false).
    destruct (out_name_some (c_decompress cf) op) as [q Hq].
    assert (H0 : P0 (m_fs s) (core_of s0)) by (repeat split; auto).
    pose proof (run1_ok codec cf pl (m_fs s) op q Hq s0 H0) as H1.
    pose proof (run1_disp codec cf pl op s0 I) as H2.
    pose proof (hp_run1 codec cf pl op s0) as H3.
    destruct (run1 codec cf pl op s0) as [d s1|o y s1].
    - split.
      + destruct H1 as [(A & B & _)|(j & w & A & B & _)]; split; auto.
      + eexists. split; [cbn; rewrite H3; reflexivity|]. intros Hc Hpl. cbn in *.
        assert (Hs : safe codec cf (m_fs s) (m_fs s1) op (m_rmfail s1)).
        { apply (Fin_safe (m_fs s) op q (core_of s1)); auto. }
        destruct d as [t| |y]; auto. contradiction.
    - eexists. split; [cbn; rewrite H3; reflexivity|]. intros Hc Hpl. cbn in *.
      pose proof (EX_entry (m_fs s) op q o y (core_of s1) Hq Hpl H1 Hc) as H4.
      destruct y; exact H4.
  Qed.

  Lemma finish_hist s : m_hist (fst (finish cf pl s)) = m_hist s.
  Proof.
    unfold finish.
    set (prog := match c_outmode cf with
                 | OmStdout => r <- sys pl false KCloseStdout sys_close_nop;;
                               match r with SErr _ => fatal pl "close-stdout" | _ => ret tt end
                 | _ => ret tt end).
    assert (H : hp prog).
    { unfold prog. destruct (c_outmode cf); try apply hp_ret.
      apply hp_bind; [apply hp_sys|]. intro r. destruct r; [apply hp_ret | apply hp_fatal | apply hp_ret]. }
    specialize (H s). destruct (prog s); exact H.
  Qed.

  Theorem run_ops_ok ops : forall s,
    boundary_ok s -> Forall (entry_ok codec cf) (m_hist s) ->
    Forall (entry_ok codec cf) (m_hist (fst (run_ops codec cf pl ops s))).
  Proof.
    induction ops as [|op r IH]; intros s B F; cbn [run_ops].
    - rewrite finish_hist. exact F.
    - pose proof (run_op_ok op s B) as H. destruct (run_op codec cf pl op s) as [u s'|o y s'].
      + destruct H as (B' & h & Eh & Hh). apply IH; auto. rewrite Eh. constructor; auto.
      + destruct H as (h & Eh & Hh). cbn. rewrite Eh. constructor; auto.
  Qed.
End RunOk.

Theorem all_entries_ok codec cf f ops pl :
  Forall (entry_ok codec cf) (m_hist (fst (run_full codec cf f ops pl))).
Proof. unfold run_full. apply run_ops_ok; [split; reflexivity | constructor]. Qed.

Lemma every_started_operand codec cf f ops pl h :
  In h (m_hist (fst (run_full codec cf f ops pl))) ->
  h_cleanfail h = false -> plain_op cf (h_before h) (h_op h) ->
  match h_disp h with
  | DAborted WKill => kill_safe codec cf (h_before h) (h_after h) (h_op h)
  | DAborted y => safe codec cf (h_before h) (h_after h) (h_op h) (h_rmfail h) /\
                  (strict_first y = true -> first_or_kept cf (h_before h) (h_after h) (h_op h))
  | _ => safe codec cf (h_before h) (h_after h) (h_op h) (h_rmfail h)
  end.
Proof.
  intros Hin Hc Hp. pose proof (all_entries_ok codec cf f ops pl) as H.
  rewrite Forall_forall in H. exact (H h Hin Hc Hp).
Qed.

(* When the source checks that the output name does not lead to the input file, no hypothesis about symbolic links
   is needed. *)
Lemma every_started_operand_checked codec cf f ops pl h :
  output_init_checks_same_file = true ->
  In h (m_hist (fst (run_full codec cf f ops pl))) ->
  h_cleanfail h = false ->
  match h_disp h with
  | DAborted WKill => kill_safe codec cf (h_before h) (h_after h) (h_op h)
  | DAborted y => safe codec cf (h_before h) (h_after h) (h_op h) (h_rmfail h) /\
                  (strict_first y = true -> first_or_kept cf (h_before h) (h_after h) (h_op h))
  | _ => safe codec cf (h_before h) (h_after h) (h_op h) (h_rmfail h)
  end.
Proof. intros Hf Hin Hc. apply (every_started_operand codec cf f ops pl h Hin Hc). left. exact Hf. Qed.

(* ---- witnesses --------------------------------------------------------------------------------- *)
Definition ex16_codec (m : cmode) (d : bytes) : cres :=
  match m with
  | CCompress => {| c_io := [IoWrite [66; 90; 104; 57]; IoRead; IoRead; IoWrite (rev d)]; c_ok := true |}
  | _ => {| c_io := [IoRead]; c_ok := false |}
  end.
Definition ex16_cfg : cfg :=
  {| c_decompress := false; c_force := false; c_keep := false; c_outmode := OmRegf; c_uid := 0; c_gid := 0; c_now := 99 |}.
Definition ex16_node (d : bytes) : inode :=
  {| i_kind := KReg; i_mode := 420; i_uid := 7; i_gid := 8; i_atime := 10; i_mtime := 20; i_data := d; i_committed := true |}.
Definition ex16_fs : fs :=
  {| f_names := [("a"%string, DLink 1)]; f_inodes := [(1, ex16_node [1; 2; 3])]; f_stdout := [] |}.

Lemma status_pairing_witness :
  exists codec cf f op pl1 pl2,
    (let '(s, o) := run_full codec cf f [op] pl1 in
     o = Exit 1 /\ exists h, m_hist s = [h] /\ second_state codec cf (h_before h) (h_after h) op (h_rmfail h)) /\
    (let '(s, o) := run_full codec cf f [op] pl2 in
     o = Killed SIGTERM /\ exists h, m_hist s = [h] /\ second_state codec cf (h_before h) (h_after h) op (h_rmfail h)).
Proof.
  exists ex16_codec, ex16_cfg, ex16_fs, "a"%string, [(KClose, 2%nat, Fail EIO)], [(KFchown, 1%nat, Raise SIGTERM)].
  split.
  - vm_compute. split; [reflexivity|]. eexists. split; [reflexivity|]. split.
    + eexists 1, _, _, _. repeat split; try reflexivity.
      intros i nd H. destruct i as [|[[p|p|]|[p|p|]|]]; cbn in *; try discriminate; exact H.
    + intros H. exfalso. apply H. reflexivity.
  - vm_compute. split; [reflexivity|]. eexists. split; [reflexivity|]. split.
    + eexists 1, _, _, _. repeat split; try reflexivity.
      intros i nd H. destruct i as [|[[p|p|]|[p|p|]|]]; cbn in *; try discriminate; exact H.
    + intros H. exfalso. apply H. reflexivity.
Qed.

Lemma force_symlink_witness :
  output_init_checks_same_file = false ->
  exists codec cf f op pl ino,
    nlook f "x"%string = Some (DLink ino) /\ (exists nd, ilook f ino = Some nd /\ i_data nd <> []) /\
    snd (run codec cf f [op] pl) = Exit 1 /\
    forall p, nlook (fst (run codec cf f [op] pl)) p <> Some (DLink ino).
Proof.
  intro Hflag.
  first [ exfalso; vm_compute in Hflag; discriminate Hflag | idtac ].
  all: exists ex16_codec,
    {| c_decompress := true; c_force := true; c_keep := false; c_outmode := OmRegf; c_uid := 0; c_gid := 0; c_now := 99 |},
    {| f_names := [("x"%string, DLink 1); ("x.bz2"%string, DSym "x"%string)];
       f_inodes := [(1, ex16_node [104; 101; 108; 108; 111])]; f_stdout := [] |},
    "x.bz2"%string, [], 1.
  all: split; [reflexivity|]. all: split; [eexists; split; [reflexivity | discriminate]|].
  all: split; [vm_compute; reflexivity|].
  all: intro p. all: unfold nlook.
  all: match goal with |- alook _ _ (f_names (fst ?R)) <> _ =>
    assert (E : f_names (fst R) = [("x.bz2"%string, DSym "x"%string)]) by (vm_compute; reflexivity) end.
  all: rewrite E. all: cbn [alook]. all: destruct (String.eqb "x.bz2" p); discriminate.
Qed.

Lemma cleanup_failure_witness :
  exists codec cf f op pl,
    let '(s, o) := run_full codec cf f [op] pl in
    o = Exit 1 /\ exists h, m_hist s = [h] /\ h_cleanfail h = true /\
      ~ first_state cf (h_before h) (h_after h) op /\ input_intact (h_before h) (h_after h) op.
Proof.
  exists ex16_codec, ex16_cfg, ex16_fs, "a"%string, [(KWrite, 2%nat, Fail ENOSPC); (KUnlink, 1%nat, Fail EIO)].
  vm_compute. split; [reflexivity|]. eexists. split; [reflexivity|]. split; [reflexivity|]. split.
  - intros [_ [H|H]]; discriminate.
  - split; [reflexivity|]. split; [|intros i H; exact H].
    intros i nd H. destruct i as [|[[p|p|]|[p|p|]|]]; cbn in *; try discriminate; exact H.
Qed.

(* ---- after the repair of the -f data loss is in the source (append to coq/Front/FrontC16.v) ---- *)
(* side condition on the regenerated flag: output_init() stat()s the output name and skips the operand when it
   leads to the file being read *)
Lemma sc_same_file_check :
  output_init_checks_same_file = true /\ same_file_under = ["if:force"]%string.
Proof. split; reflexivity. Qed.

Lemma every_started_operand_final codec cf f ops pl h :
  In h (m_hist (fst (run_full codec cf f ops pl))) ->
  h_cleanfail h = false ->
  match h_disp h with
  | DAborted WKill => kill_safe codec cf (h_before h) (h_after h) (h_op h)
  | DAborted y => safe codec cf (h_before h) (h_after h) (h_op h) (h_rmfail h) /\
                  (strict_first y = true -> first_or_kept cf (h_before h) (h_after h) (h_op h))
  | _ => safe codec cf (h_before h) (h_after h) (h_op h) (h_rmfail h)
  end.
Proof. exact (every_started_operand_checked codec cf f ops pl h (proj1 sc_same_file_check)). Qed.

(* the scenario of the former finding: the operand is skipped with a warning, nothing changes *)
Lemma force_symlink_fixed :
  let cf := {| c_decompress := true; c_force := true; c_keep := false; c_outmode := OmRegf; c_uid := 0; c_gid := 0; c_now := 99 |} in
  let f := {| f_names := [("x"%string, DLink 1); ("x.bz2"%string, DSym "x"%string)];
              f_inodes := [(1, ex16_node [104; 101; 108; 108; 111])]; f_stdout := [] |} in
  run ex16_codec cf f ["x.bz2"%string] [] = (f, Exit 4).
Proof. vm_compute. reflexivity. Qed.
