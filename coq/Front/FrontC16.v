(* C16: under EVERY fault/signal plan every started operand ends in one of the
   two states.  Proof by phase invariants in the Hoare logic of FrontHoare.v:
     A  nothing created yet (opathn = NULL): every older inode unchanged, every
        name except possibly the output name (removed under -f) unchanged;
     B  output created, opathn set, signals blocked: as A, plus the output name
        holds a new regular file containing what has been written so far;
     D  output closed successfully (opathn = NULL again) with the complete
        output; the input name is still there or has been removed.
   Every way out of a phase is examined: a failing call (fatal -> cleanup()
   unlinks the output -> A), a handled signal (same), SIGKILL (state as is), a
   signal with default action (only possible outside cli()..sti()). *)
From Coq Require Import List NArith Arith Bool String Ascii Lia.
From LBZ Require Import Gen.FrontTab Front.FsModel Front.MainLoop Front.FrontSpec Front.FrontLemmas
     Front.FrontNoFault Front.FrontProofs Front.FrontHoare Front.FrontSafety.
Import ListNotations.
Local Open Scope N_scope.

Lemma hc_exists_pre {A T} (c : M A) (P : T -> assn) (Q : A -> assn) (E : eassn) :
  (forall t, hc (P t) c Q E) -> hc (fun k => exists t, P t k) c Q E.
Proof. intros H s [t Hs]. apply (H t s Hs). Qed.

Section C16.
  Variable codec : cmode -> bytes -> cres.
  Variable cf : cfg.
  Variable pl : plan.
  Variable b : fs.                 (* the file system when the operand is started *)
  Variable op : path.
  Variable q : path.               (* its output name *)
  Hypothesis Hq : out_name (c_decompress cf) op = Some q.

  Definition regf : bool := match c_outmode cf with OmRegf => true | _ => false end.

  Lemma q_neq_op : q <> op.
  Proof. eapply out_name_neq; eauto. Qed.

  (* ---- the shapes of the file system --------------------------------------------------- *)
  Definition fsA (f : fs) : Prop :=
    keeps b f /\ (forall p, p <> q -> nlook f p = nlook b p) /\
    (nlook f q = nlook b q \/ (regf = true /\ c_force cf = true /\ nlook f q = None)).

  Definition qfree : Prop := nlook b q = None \/ (regf = true /\ c_force cf = true).

  Definition fsB (cm : bool) (j : N) (w : bytes) (f : fs) : Prop :=
    qfree /\ ilook b j = None /\ keeps b f /\ (forall p, p <> q -> nlook f p = nlook b p) /\
    nlook f q = Some (DLink j) /\
    exists nd, ilook f j = Some nd /\ i_kind nd = KReg /\ i_committed nd = cm /\ i_data nd = w.

  Definition fsD (j : N) (w : bytes) (f : fs) : Prop :=
    ilook b j = None /\ keeps b f /\ (forall p, p <> q -> p <> op -> nlook f p = nlook b p) /\
    nlook f q = Some (DLink j) /\
    (exists nd, ilook f j = Some nd /\ i_kind nd = KReg /\ i_committed nd = true /\ i_data nd = w) /\
    (nlook f op = nlook b op \/ nlook f op = None).

  (* w is the complete output for the operand's content *)
  Definition Wok (w : bytes) : Prop :=
    exists iin ndin, nlook b op = Some (DLink iin) /\ ilook b iin = Some ndin /\
                     expected_output codec cf (i_data ndin) = Some w.

  Definition second (f : fs) (rm : bool) : Prop :=
    exists j w, Wok w /\ fsD j w f /\ (nlook f op = None \/ rm = true \/ c_keep cf = true).

  Definition exit_fs (y : why) (f : fs) (rm : bool) : Prop :=
    match y with
    | WKill => fsA f \/ (exists cm j w, fsB cm j w f) \/ (exists j w, Wok w /\ fsD j w f)
    | WSigHandled | WHang => fsA f
    | WFatal t => if String.eqb t "close-in" then fsA f \/ second f rm else fsA f
    | WSigDefault | WSigSti => fsA f \/ second f rm
    end.

  Definition EX : eassn := fun _ y c => k_cleanfail c = true \/ exit_fs y (k_fs c) (k_rmfail c).

  (* ---- assertions of the phases ------------------------------------------------------------ *)
  Definition PA (bl : bool) : assn := fun c => k_opathn c = None /\ k_blocked c = bl /\ fsA (k_fs c).
  Definition PAc (bl : bool) : assn := fun c => k_cleanfail c = true \/ PA bl c.
  Definition PB (cm : bool) (j : N) (w : bytes) : assn := fun c =>
    k_opathn c = Some q /\ k_blocked c = true /\ fsB cm j w (k_fs c).
  Definition PD (bl : bool) (j : N) (w : bytes) : assn := fun c =>
    k_opathn c = None /\ k_blocked c = bl /\ Wok w /\ fsD j w (k_fs c) /\
    (nlook (k_fs c) op = None \/ k_rmfail c = true \/ c_keep cf = true).

  (* ---- file system facts ------------------------------------------------------------------------ *)
  Lemma fsA_refl : fsA b.
  Proof. repeat split; auto. intros i nd H. exact H. Qed.

  Lemma fsA_stdout f o : fsA f -> fsA (set_stdout f o).
  Proof. intros (H1 & H2 & H3). repeat split; auto. Qed.

  Lemma read_fs f iin : fst (sys_read f iin) = f.
  Proof. unfold sys_read. destruct (ilook f iin) as [nd|]; [destruct (i_kind nd)|]; reflexivity. Qed.

  Lemma read_not_hang f iin : snd (sys_read f iin) <> SHang.
  Proof. unfold sys_read. destruct (ilook f iin) as [nd|]; [destruct (i_kind nd)|]; discriminate. Qed.

  Lemma fsA_force_unlink f : regf = true -> c_force cf = true -> fsA f -> fsA (fst (sys_unlink f q)).
  Proof.
    intros Hr Hf (H1 & H2 & H3). repeat split.
    - intros i nd Hi. rewrite unlink_ilook. auto.
    - intros p Hp. rewrite unlink_nlook_other; auto.
    - destruct (unlink_result f q) as [[_ E]|[e [_ E]]].
      + right. auto.
      + rewrite E. exact H3.
  Qed.

  Lemma fsA_creat f m u g t j :
    fsA f -> snd (sys_creat_excl f q m u g t) = SOk j -> fsB false j [] (fst (sys_creat_excl f q m u g t)).
  Proof.
    intros (H1 & H2 & H3) Hc. destruct (creat_ok _ _ _ _ _ _ _ Hc) as (Hfree & Hfresh & Ef). rewrite Ef.
    assert (Hj : ilook f j = None) by (rewrite Hfresh; apply fresh_not_in_inodes).
    assert (Hbj : ilook b j = None).
    { destruct (ilook b j) as [nd|] eqn:E; auto. apply H1 in E. congruence. }
    repeat split.
    - destruct H3 as [H3|(A & B & _)]; [left; congruence | right; auto].
    - exact Hbj.
    - intros i nd Hi. unfold ilook. cbn [f_inodes]. rewrite (alook_aset_neq N.eqb N.eqb_eq).
      + apply H1. exact Hi.
      + intros ->. congruence.
    - intros p Hp. unfold nlook. cbn [f_names]. rewrite (alook_aset_neq String.eqb String.eqb_eq); auto. apply H2; auto.
    - unfold nlook. cbn [f_names]. apply (alook_aset_eq String.eqb String.eqb_eq).
    - eexists. split; [unfold ilook; cbn [f_inodes]; apply (alook_aset_eq N.eqb N.eqb_eq)|]. repeat split.
  Qed.

  (* updating the new inode: older inodes and all names are untouched *)
  Lemma fsB_upd cm cm' j w w' f (g : inode -> inode) :
    (forall nd, i_kind (g nd) = i_kind nd) ->
    (forall nd, i_committed nd = cm -> i_committed (g nd) = cm') ->
    (forall nd, i_data nd = w -> i_data (g nd) = w') ->
    fsB cm j w f -> fsB cm' j w' (upd_inode f j g).
  Proof.
    intros Gk Gc Gd (H0 & Hb & H1 & H2 & H3 & nd & H4 & H5 & H6 & H7). repeat split; auto.
    - intros i nd' Hi. rewrite ilook_upd_inode_neq; auto. intros ->. congruence.
    - intros p Hp. rewrite nlook_upd_inode. auto.
    - rewrite nlook_upd_inode. exact H3.
    - exists (g nd). split; [apply ilook_upd_inode_eq; exact H4|]. rewrite Gk. repeat split; auto.
  Qed.

  Lemma fsB_write cm j w c f : fsB cm j w f -> fsB cm j (w ++ c) (eff_write cf (OFile j) c f).
  Proof.
    intro H. destruct c as [|x c]; [rewrite app_nil_r; exact H|].
    cbn [eff_write sys_write fst]. eapply fsB_upd; eauto; cbn; intros; congruence.
  Qed.

  Lemma fsB_unlink cm j w f : fsB cm j w f -> snd (sys_unlink f q) = SOk tt /\ fsA (fst (sys_unlink f q)).
  Proof.
    intros (H0 & Hb & H1 & H2 & H3 & nd & H4 & H5 & _).
    assert (E : sys_unlink f q = (set_names f (arem String.eqb q (f_names f)), SOk tt)).
    { apply unlink_ok. - congruence. - intros i Hi. rewrite H3 in Hi. inversion Hi; subst.
      unfold input_is_dir. rewrite H4, H5. reflexivity. }
    rewrite E. cbn [fst snd]. split; [reflexivity|]. repeat split.
    - intros i nd' Hi. apply H1. exact Hi.
    - intros p Hp. unfold nlook. cbn [f_names set_names].
      rewrite (alook_arem_neq String.eqb String.eqb_eq); auto. apply H2; auto.
    - unfold nlook at 1. cbn [f_names set_names]. rewrite (alook_arem_eq String.eqb).
      destruct H0 as [H0|[A B]]; [left; congruence | right].
      split; [exact A|]. split; [exact B|]. unfold nlook. cbn [f_names set_names]. apply (alook_arem_eq String.eqb).
  Qed.

  Lemma fsB_fsD j w f : fsB true j w f -> fsD j w f.
  Proof.
    intros (H0 & Hb & H1 & H2 & H3 & Hn). repeat split; auto.
    left. apply H2. intro E. apply q_neq_op. congruence.
  Qed.

  Lemma fsD_unlink_in j w f :
    fsD j w f ->
    fsD j w (fst (sys_unlink f op)) /\
    (snd (sys_unlink f op) = SOk tt -> nlook (fst (sys_unlink f op)) op = None).
  Proof.
    intros (Hb & H1 & H2 & H3 & Hn & H4).
    destruct (unlink_result f op) as [[E1 E2]|[e [E1 E2]]].
    - split; [|auto]. repeat split; auto.
      + intros i nd Hi. rewrite unlink_ilook. auto.
      + intros p Hp1 Hp2. rewrite unlink_nlook_other; auto.
      + rewrite unlink_nlook_other; auto. intro E. apply q_neq_op. congruence.
      + destruct Hn as (nd & A & B). exists nd. rewrite unlink_ilook. auto.
    - rewrite E2. split; [repeat split; auto|]. rewrite E1. discriminate.
  Qed.

  (* ---- what the shapes mean ------------------------------------------------------------------ *)
  Lemma fsA_first f : fsA f -> first_state cf b f op.
  Proof.
    intros (H1 & H2 & H3). unfold first_state. rewrite Hq. split.
    - split; [apply H2; intro E; apply q_neq_op; congruence | exact H1].
    - unfold output_absent. destruct H3 as [H3|(_ & _ & H3)]; auto.
  Qed.

  Lemma fsB_intact cm j w f : fsB cm j w f -> input_intact b f op.
  Proof.
    intros (_ & _ & H1 & H2 & _). split; [apply H2; intro E; apply q_neq_op; congruence | exact H1].
  Qed.

  Lemma fsD_complete j w f : Wok w -> fsD j w f -> output_complete_closed codec cf b f op q.
  Proof.
    intros (iin & ndin & A & B & C) (Hb & H1 & H2 & H3 & (nd & N1 & N2 & N3 & N4) & _).
    exists iin, ndin, j, nd. rewrite N4. repeat split; auto.
  Qed.

  Lemma second_second f rm : second f rm -> second_state codec cf b f op rm.
  Proof.
    intros (j & w & Hw & Hd & Hr). unfold second_state. rewrite Hq. split.
    - eapply fsD_complete; eauto.
    - unfold input_present. intro Hp. destruct Hr as [Hr|[Hr|Hr]]; auto.
  Qed.

  (* ---- exits of the phases -------------------------------------------------------------------- *)
  Lemma PA_kill bl c : PA bl c -> EX (Killed SIGKILL) WKill c.
  Proof. intro H. right. left. apply H. Qed.
  Lemma PA_default bl c sg : PA bl c -> EX (Killed sg) WSigDefault c.
  Proof. intro H. right. left. apply H. Qed.
  Lemma PAc_handled bl c sg : PAc bl c -> EX (Killed sg) WSigHandled c.
  Proof. intros [H|H]; [left; exact H|]. right. apply H. Qed.
  Lemma PA_hang bl c : PA bl c -> EX Hang WHang c.
  Proof. intro H. right. apply H. Qed.
  Lemma PAc_fatal bl c tag o : PAc bl c -> EX o (WFatal tag) c.
  Proof. intros [H|H]; [left; exact H|]. right. cbn. destruct (String.eqb tag "close-in"); [left|]; apply H. Qed.
  Lemma PB_kill cm j w c : PB cm j w c -> EX (Killed SIGKILL) WKill c.
  Proof. intro H. right. right. left. exists cm, j, w. apply H. Qed.
  Lemma PD_kill bl j w c : PD bl j w c -> EX (Killed SIGKILL) WKill c.
  Proof. intro H. right. right. right. exists j, w. split; apply H. Qed.
  Lemma PD_second bl j w c : PD bl j w c -> second (k_fs c) (k_rmfail c).
  Proof. intro H. exists j, w. split; [apply H|]. split; apply H. Qed.

  (* ---- cleanup() and fatal errors ----------------------------------------------------------- *)
  Definition cleanup_inner (q' : path) : M unit :=
    r <- sys_gen pl (ret tt) false KUnlink (fun f => sys_unlink f q');;
    modify (fun s => set_opathn s None);;;
    match r with SErr _ => modify (fun s => set_cleanfail s true) | _ => ret tt end.

  Lemma cleanup_unfold s : cleanup pl s = match m_opathn s with None => Ret tt s | Some q' => cleanup_inner q' s end.
  Proof. reflexivity. Qed.

  Lemma cleanup_inner_B cm j w :
    hc (fun c => k_blocked c = true /\ fsB cm j w (k_fs c)) (cleanup_inner q) (fun _ => PAc true) EX.
  Proof.
    unfold cleanup_inner.
    eapply hc_bind with (R := fun r c => match r with
                                         | SErr _ => True
                                         | _ => k_blocked c = true /\ fsA (k_fs c)
                                         end).
    - apply hc_sys_gen.
      + intros c (_ & H). right. right. left. exists cm, j, w. exact H.
      + intros c sg (Hb & _) Hb'. congruence.
      + intros c e _. exact I.
      + intros c (Hb & H). unfold natural_ok. destruct (fsB_unlink _ _ _ _ H) as [E1 E2]. rewrite E1.
        split; [exact Hb | exact E2].
      + discriminate.
    - intro r. destruct r as [u|e|].
      + eapply hc_bind with (R := fun _ => PAc true); [|intros; apply hc_ret; auto].
        apply hc_set_opathn. intros c [Hb H]. right. repeat split; auto; apply H.
      + eapply hc_bind with (R := fun _ _ => True); [apply hc_set_opathn; auto|].
        intros _. apply hc_set_cleanfail. intros c _. left. reflexivity.
      + eapply hc_bind with (R := fun _ => PAc true); [|intros; apply hc_ret; auto].
        apply hc_set_opathn. intros c [Hb H]. right. repeat split; auto; apply H.
  Qed.

  Lemma cleanup_A bl : hc (PA bl) (cleanup pl) (fun _ => PAc bl) EX.
  Proof.
    intros s Hs. rewrite cleanup_unfold. destruct Hs as (Ho & Hr). cbn in Ho. rewrite Ho.
    right. split; auto.
  Qed.

  Lemma cleanup_B cm j w : hc (PB cm j w) (cleanup pl) (fun _ => PAc true) EX.
  Proof.
    intros s Hs. rewrite cleanup_unfold. destruct Hs as (Ho & Hb & H). cbn in Ho. rewrite Ho.
    apply (cleanup_inner_B cm j w s). split; auto.
  Qed.

  Lemma cleanup_D bl j w : hc (PD bl j w) (cleanup pl) (fun _ => PD bl j w) EX.
  Proof.
    intros s Hs. rewrite cleanup_unfold. destruct Hs as (Ho & Hr). cbn in Ho. rewrite Ho. split; auto.
  Qed.

  Lemma fatal_from {T} (P : assn) bl tag (Q : T -> assn) :
    hc P (cleanup pl) (fun _ => PAc bl) EX -> hc P (fatal pl tag) Q EX.
  Proof.
    intro Hc. unfold fatal. eapply hc_bind with (R := fun _ => P); [apply hc_say; auto|]. intros _.
    eapply hc_bind with (R := fun _ => PAc bl); [exact Hc|]. intros _.
    apply hc_stop. intros c H. eapply PAc_fatal; eauto.
  Qed.

  Lemma fatal_D {T} bl j w (Q : T -> assn) : hc (PD bl j w) (fatal pl "close-in") Q EX.
  Proof.
    unfold fatal. eapply hc_bind with (R := fun _ => PD bl j w); [apply hc_say; auto|]. intros _.
    eapply hc_bind with (R := fun _ => PD bl j w); [apply cleanup_D|]. intros _.
    apply hc_stop. intros c H. right. cbn. right. eapply PD_second; eauto.
  Qed.

  (* ---- work(): generic in the invariant family ------------------------------------------------- *)
  Section Work.
    Variable iin : N.
    Variable o : odst.
    Variable I : bytes -> assn.        (* indexed by what has been written to a file output so far *)
    Hypothesis I_kill : forall w c, I w c -> EX (Killed SIGKILL) WKill c.
    Hypothesis I_blocked : forall w c, I w c -> k_blocked c = true.
    Hypothesis I_cleanup : forall w, hc (I w) (cleanup pl) (fun _ => PAc true) EX.
    Hypothesis I_write : forall w ch c, I w c -> I (w ++ ch) (with_fs c (eff_write cf o ch (k_fs c))).
    Hypothesis I_fs : forall w c f, I w c -> f = k_fs c -> I w (with_fs c f).

    Lemma I_default w c sg : I w c -> k_blocked c = false -> EX (Killed sg) WSigDefault c.
    Proof. intros H Hb. rewrite (I_blocked _ _ H) in Hb. discriminate. Qed.

    Lemma I_fatal {T} w tag (Q : T -> assn) : hc (I w) (fatal pl tag) Q EX.
    Proof. eapply fatal_from. apply I_cleanup. Qed.

    Lemma I_handled (P : assn) w sg :
      (forall c, P c -> I w c) ->
      hc (fun c => P c /\ k_blocked c = true) (cleanup pl) (fun _ c => EX (Killed sg) WSigHandled c) EX.
    Proof.
      intro HP. eapply hc_conseq; [apply (I_cleanup w)| | |]; auto.
      - intros k [H _]. auto.
      - intros a0 k H. eapply PAc_handled; eauto.
    Qed.

    (* a read returns only an error or success; the tree is not changed.  [X]: extra pure-on-fs fact carried along *)
    Lemma I_sys_read inhalt w (X : fs -> Prop) :
      hc (fun c => I w c /\ X (k_fs c)) (sys pl inhalt KRead (fun f => sys_read f iin))
         (fun r c => I w c /\ X (k_fs c) /\ match r with
                                            | SOk _ => snd (sys_read (k_fs c) iin) = SOk tt
                                            | SErr _ => True
                                            | SHang => False
                                            end) EX.
    Proof.
      apply hc_sys_gen.
      - intros c [H _]. eapply I_kill; eauto.
      - intros c sg [H _] Hb. eapply I_default; eauto.
      - intros c e [H Hx]. auto.
      - intros c [H Hx]. unfold natural_ok. rewrite read_fs.
        destruct (snd (sys_read (k_fs c) iin)) eqn:Er.
        + split; [apply I_fs; auto|]. split; [exact Hx|]. cbn [k_fs with_fs]. rewrite Er. destruct a; reflexivity.
        + split; [apply I_fs; auto|]. split; [exact Hx | exact Logic.I].
        + exfalso. eapply read_not_hang; eauto.
      - intros _ sg. apply (I_handled _ w). intros c [H _]. exact H.
    Qed.

    Lemma I_do_write inhalt w ch :
      hc (I w) (do_write cf pl inhalt o ch) (fun _ => I (w ++ ch)) EX.
    Proof.
      unfold do_write. destruct ch as [|x ch]; [apply hc_ret; intros c H; rewrite app_nil_r; exact H|].
      assert (G : forall (k : kindc) (f : fs -> fs * sysres unit),
                 (forall g, fst (f g) = eff_write cf o (x :: ch) g) -> (forall g, snd (f g) = SOk tt) ->
                 hc (I w) (r <- sys pl inhalt k f;; match r with SErr _ => fatal pl "write" | _ => ret tt end)
                    (fun _ => I (w ++ x :: ch)) EX).
      { intros k f Hf Hs.
        eapply hc_bind with (R := fun r c => match r with SErr _ => I w c | _ => I (w ++ x :: ch) c end).
        - apply hc_sys_gen.
          + intros c H. eapply I_kill; eauto.
          + intros c sg H Hb. eapply I_default; eauto.
          + intros c e H. exact H.
          + intros c H. unfold natural_ok. rewrite Hs, Hf. apply I_write. exact H.
          + intros _ sg. apply (I_handled _ w). auto.
        - intro r. destruct r; [apply hc_ret; auto | apply I_fatal | apply hc_ret; auto]. }
      destruct o as [| |i].
      - apply G; reflexivity.
      - apply hc_ret. intros c H. pose proof (I_write w (x :: ch) c H) as H'. cbn in H'.
        revert H'. clear H. destruct c. cbn. auto.
      - apply G; reflexivity.
    Qed.

    Lemma I_do_io evs : forall w,
      hc (I w) (do_io cf pl iin o evs) (fun _ => I (w ++ writes_of evs)) EX.
    Proof.
      induction evs as [|[|ch] evs IH]; intro w; cbn [do_io].
      - apply hc_ret. intros c H. unfold writes_of. cbn. rewrite app_nil_r. exact H.
      - eapply hc_bind.
        + eapply hc_pre; [apply (I_sys_read true w (fun _ => True))|]. intros k H. split; [exact H | exact Logic.I].
        + intro r. destruct r as [u|e|].
          * eapply hc_pre; [apply (IH w)|]. intros k [H _]. exact H.
          * eapply hc_pre; [apply I_fatal|]. intros k [H _]. exact H.
          * eapply hc_pre; [apply hc_false|]. intros k (_ & _ & F). exact F.
      - eapply hc_bind; [apply I_do_write|]. intros _.
        eapply hc_conseq; [apply (IH (w ++ ch))| | |]; auto.
        intros a0 k H. unfold writes_of in *. cbn [map List.concat]. rewrite app_assoc. exact H.
    Qed.

    (* reading a directory: the first read fails, nothing returns *)
    Definition isdirP (w : bytes) : assn := fun c => I w c /\ input_is_dir (k_fs c) iin = true.

    Lemma I_read_dir {T} inhalt w (k : sysres unit -> M T) (Q : T -> assn) :
      (forall e, k (SErr e) = fatal pl "read") ->
      hc (isdirP w) (r <- sys pl inhalt KRead (fun f => sys_read f iin);; k r) Q EX.
    Proof.
      intro Hk. eapply hc_bind.
      - apply (I_sys_read inhalt w (fun f => input_is_dir f iin = true)).
      - intro r. destruct r as [u|e|].
        + eapply hc_pre; [apply hc_false|]. intros c (_ & Hd & Hr).
          destruct (sys_read_dir _ _ Hd) as [e He]. congruence.
        + rewrite Hk. eapply hc_pre; [apply I_fatal|]. intros c [H _]. exact H.
        + eapply hc_pre; [apply hc_false|]. intros c (_ & _ & F). exact F.
    Qed.

    Lemma I_main_reads n w : hc (I w) (main_reads pl n iin) (fun _ => I w) EX.
    Proof.
      induction n as [|n IH]; cbn [main_reads]; [apply hc_ret; auto|].
      eapply hc_bind.
      - eapply hc_pre; [apply (I_sys_read false w (fun _ => True))|]. intros k H. split; [exact H | exact Logic.I].
      - intro r. destruct r as [u|e|].
        + eapply hc_pre; [apply IH|]. intros k [H _]. exact H.
        + eapply hc_pre; [apply I_fatal|]. intros k [H _]. exact H.
        + eapply hc_pre; [apply hc_false|]. intros k (_ & _ & F). exact F.
    Qed.

    Lemma I_halt_entry w : hc (I w) (halt_entry pl) (fun _ => I w) EX.
    Proof.
      apply hc_halt_entry. intro sg. eapply hc_conseq; [apply (I_cleanup w)| | |]; auto.
      intros a0 k H. eapply PAc_handled; eauto.
    Qed.

    Lemma I_halt_entry_dir w : hc (isdirP w) (halt_entry pl) (fun _ => isdirP w) EX.
    Proof.
      apply hc_halt_entry. intro sg. eapply hc_conseq; [apply (I_cleanup w)| | |]; auto.
      - intros k [H _]. exact H.
      - intros a0 k H. eapply PAc_handled; eauto.
    Qed.

    (* schedule() on a non-directory: everything was written and the verdict was good, or it did not return *)
    Lemma I_schedule w cr :
      hc (I w) (schedule cf pl iin o false cr) (fun _ c => I (w ++ writes_of (c_io cr)) c /\ c_ok cr = true) EX.
    Proof.
      unfold schedule. eapply hc_bind; [apply I_halt_entry|]. intros _.
      eapply hc_bind; [apply I_do_io|]. intros _. rewrite orb_false_r.
      destruct (c_ok cr); [apply hc_ret; auto | apply I_fatal].
    Qed.

    Lemma I_schedule_dir {T} w cr (Q : T -> assn) (k : M T) :
      hc (isdirP w) (schedule cf pl iin o true cr;;; k) Q EX.
    Proof.
      unfold schedule. eapply hc_bind with (R := fun _ _ => False); [|intros; apply hc_false].
      eapply hc_bind; [apply I_halt_entry_dir|]. intros _.
      cbn [do_io]. eapply hc_bind with (R := fun _ _ => False); [|intros; apply hc_false].
      apply I_read_dir. reflexivity.
    Qed.
  End Work.
End C16.
