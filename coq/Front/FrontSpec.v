(* Specification-level definitions for C16/C17/C18:
   - [op_effect]: what processing ONE operand does to the file system when no
     fault is injected, written as a plain function of (configuration, operand,
     file system) -- no counters, no history, no warned flag as input;
   - [run_effect]: the fold of op_effect over the operand list;
   - the two-state safety predicate of C16. *)
From Coq Require Import List NArith Arith Bool String Ascii.
From LBZ Require Import Gen.FrontTab Front.FsModel Front.MainLoop.
Import ListNotations.
Local Open Scope N_scope.

Inductive iires := IISkip (tag : string) | IIOk (iin : N) (st : stat) | IIHang.

Inductive oend := ENext (d : disp) | EStop (o : outcome) (w : why).

Record oeff := { e_fs : fs; e_warn : bool; e_end : oend }.

Section Effect.
  Variable codec : cmode -> bytes -> cres.
  Variable cf : cfg.

  Definition is_regf : bool := match c_outmode cf with OmRegf => true | _ => false end.

  (* admission: input_init() without faults *)
  Definition eff_input_init (op : path) (f : fs) : iires :=
    let pre :=
        if c_force cf then None
        else match sys_lstat f op with
             | SOk st =>
                 if is_regf && negb (match st_kind st with SReg => true | _ => false end)
                 then Some "notreg"%string
                 else if is_regf && negb (c_keep cf) && (nlink_limit <? st_nlink st)
                      then Some "links"%string
                      else None
             | _ => Some "lstat"%string
             end in
    match pre with
    | Some t => IISkip t
    | None =>
        if negb (c_decompress cf) && is_compressed_name op then IISkip "suffix"
        else match sys_open_rd f op with
             | SOk iin =>
                 match sys_fstat f iin with
                 | SOk st => IIOk iin st
                 | _ => IISkip "fstat"
                 end
             | SErr _ => IISkip "open"
             | SHang => IIHang
             end
    end.

  Definition eff_write (o : odst) (c : bytes) (f : fs) : fs :=
    match c with
    | [] => f
    | _ => match o with
           | ODiscard => f
           | OStdout => fst (sys_write_stdout c f)
           | OFile i => fst (sys_write (c_now cf) i c f)
           end
    end.

  (* the reads and writes of the worker threads; false = a read failed *)
  Fixpoint eff_io (iin : N) (o : odst) (evs : list ioev) (f : fs) : fs * bool :=
    match evs with
    | [] => (f, true)
    | IoRead :: r =>
        match snd (sys_read f iin) with
        | SErr _ => (f, false)
        | _ => eff_io iin o r f
        end
    | IoWrite c :: r => eff_io iin o r (eff_write o c f)
    end.

  Fixpoint eff_main_reads (n : nat) (iin : N) (f : fs) : bool :=
    match n with
    | O => true
    | S n' => match snd (sys_read f iin) with
              | SErr _ => false
              | _ => eff_main_reads n' iin f
              end
    end.

  Definition eff_schedule (iin : N) (o : odst) (isdir : bool) (cr : cres) (f : fs) : fs * option string :=
    let '(f', ok) := eff_io iin o (if isdir then [IoRead] else c_io cr) f in
    if ok then (if c_ok cr || isdir then (f', None) else (f', Some "data"%string))
    else (f', Some "read"%string).

  (* work(): resulting file system, and the tag of the fatal error if it fails *)
  Definition eff_work (iin : N) (o : odst) (f : fs) : fs * option string :=
    let d := input_data f iin in
    let isdir := input_is_dir f iin in
    if c_decompress cf then
      if eff_main_reads (hdr_reads d) iin f then
        if hdr_ok d then eff_schedule iin o isdir (codec CExpand d) f
        else if c_force cf && is_stdout o then
               eff_schedule iin o isdir (codec CCopy (skipn 4 d)) (eff_write o (firstn 4 d) f)
             else (f, Some "notbz2"%string)
      else (f, Some "read"%string)
    else eff_schedule iin o isdir (codec CCompress d) f.

  (* output_regf_uninit() without faults: file system and whether it warned *)
  Definition eff_regf_uninit (iout : N) (st : stat) (f : fs) : fs * bool :=
    let f1 := fst (sys_fchown iout (fld fchown_fields 0 st) (fld fchown_fields 1 st) f) in
    let w := negb (N.land (st_mode st) special_mask =? 0) in
    let f2 := fst (sys_fchmod iout (N.land (st_mode st) fchmod_mask) f1) in
    let f3 := fst (sys_futimens iout (fld futimens_fields 0 st) (fld futimens_fields 1 st) f2) in
    (fst (sys_close_out iout f3), w).

  Definition eff_oprnd_rm (op : path) (f : fs) : fs * bool :=
    match sys_unlink f op with
    | (f', SErr e) => (f', negb (N.eqb e ENOENT))
    | (f', _) => (f', false)
    end.

  Definition fatal_end (tag : string) : oend := EStop (Exit bailout_exit) (WFatal tag).

  Definition op_effect (op : path) (f : fs) : oeff :=
    match eff_input_init op f with
    | IIHang => {| e_fs := f; e_warn := false; e_end := EStop Hang WHang |}
    | IISkip t => {| e_fs := f; e_warn := true; e_end := ENext (DSkipped t) |}
    | IIOk iin st =>
        match c_outmode cf with
        | OmRegf =>
            match out_name (c_decompress cf) op with
            | None => {| e_fs := f; e_warn := false; e_end := fatal_end "nosuffix" |}
            | Some q =>
                if c_force cf && output_init_checks_same_file && same_file f q st
                then {| e_fs := f; e_warn := true; e_end := ENext (DSkipped "open-out") |}
                else
                let f1 := if c_force cf then fst (sys_unlink f q) else f in
                match sys_creat_excl f1 q (N.land (st_mode st) open_out_mode_mask) (c_uid cf) (c_gid cf) (c_now cf) with
                | (f2, SOk iout) =>
                    match eff_work iin (OFile iout) f2 with
                    | (f3, Some tag) =>
                        (* fatal: cleanup() unlinks the output *)
                        {| e_fs := fst (sys_unlink f3 q); e_warn := false; e_end := fatal_end tag |}
                    | (f3, None) =>
                        let '(f4, w1) := eff_regf_uninit iout st f3 in
                        let '(f5, w2) := if c_keep cf then (f4, false) else eff_oprnd_rm op f4 in
                        {| e_fs := f5; e_warn := w1 || w2; e_end := ENext DDone |}
                    end
                | (_, _) => {| e_fs := f1; e_warn := true; e_end := ENext (DSkipped "open-out") |}
                end
            end
        | om =>
            let o := match om with OmStdout => OStdout | _ => ODiscard end in
            match eff_work iin o f with
            | (f3, Some tag) => {| e_fs := f3; e_warn := false; e_end := fatal_end tag |}
            | (f3, None) => {| e_fs := f3; e_warn := false; e_end := ENext DDone |}
            end
        end
    end.

  (* the operand loop as a fold: (file system, warned so far) -> final file system and outcome *)
  Fixpoint run_effect (ops : list path) (f : fs) (warned : bool) : fs * outcome :=
    match ops with
    | [] => (f, Exit (if warned then exit_if_warned else exit_if_clean))
    | op :: r =>
        let e := op_effect op f in
        match e_end e with
        | ENext _ => run_effect r (e_fs e) (warned || e_warn e)
        | EStop o _ => (e_fs e, o)
        end
    end.

  (* ---- C16: the two states ---------------------------------------------------------- *)
  (* every inode that existed is unchanged *)
  Definition keeps (b a : fs) : Prop := forall i nd, ilook b i = Some nd -> ilook a i = Some nd.

  (* the operand still names the same object, still leads (through symbolic links) to the same file, and every
     file that existed is unchanged *)
  Definition input_intact (b a : fs) (op : path) : Prop :=
    nlook a op = nlook b op /\ keeps b a /\
    (forall i, resolve b SYMLOOP_MAX op = SOk i -> resolve a SYMLOOP_MAX op = SOk i).

  (* no output file remains: the output name is free, or still holds what was
     there before the operand was started (an operand skipped without -f) *)
  Definition output_absent (b a : fs) (q : path) : Prop :=
    nlook a q = None \/ nlook a q = nlook b q.

  Definition writes_of (evs : list ioev) : bytes :=
    List.concat (map (fun e => match e with IoWrite c => c | IoRead => [] end) evs).

  (* what a complete output holds: everything work() writes for this input *)
  Definition expected_output (d : bytes) : option bytes :=
    if c_decompress cf then
      if hdr_ok d then (if c_ok (codec CExpand d) then Some (writes_of (c_io (codec CExpand d))) else None)
      else None
    else if c_ok (codec CCompress d) then Some (writes_of (c_io (codec CCompress d))) else None.

  (* the output name holds a regular file with the complete output, written
     through a descriptor whose close() succeeded; all older inodes are unchanged *)
  Definition output_complete_closed (b a : fs) (op q : path) : Prop :=
    exists iin ndin j nd,
      resolve b SYMLOOP_MAX op = SOk iin /\ ilook b iin = Some ndin /\
      nlook a q = Some (DLink j) /\ ilook a j = Some nd /\ ilook b j = None /\
      i_kind nd = KReg /\ i_committed nd = true /\
      expected_output (i_data ndin) = Some (i_data nd) /\ keeps b a.

  Definition input_present (a : fs) (op : path) : Prop := nlook a op <> None.

  Definition first_state (b a : fs) (op : path) : Prop :=
    match out_name (c_decompress cf) op with
    | Some q => input_intact b a op /\ output_absent b a q
    | None => input_intact b a op
    end.

  Definition second_state (b a : fs) (op : path) (rmfail : bool) : Prop :=
    match out_name (c_decompress cf) op with
    | Some q => output_complete_closed b a op q /\
                (input_present a op -> c_keep cf = true \/ rmfail = true)
    | None => False
    end.

  (* Writing to stdout or discarding (-c, -t) never touches the tree. *)
  Definition tree_kept (b a : fs) : Prop := (forall p, nlook a p = nlook b p) /\ keeps b a.

  Definition safe (b a : fs) (op : path) (rmfail : bool) : Prop :=
    match c_outmode cf with
    | OmRegf => first_state b a op \/ second_state b a op rmfail
    | _ => tree_kept b a
    end.

  (* after SIGKILL: nothing is lost *)
  Definition kill_safe (b a : fs) (op : path) : Prop :=
    match c_outmode cf with
    | OmRegf =>
        input_intact b a op \/
        (exists q, out_name (c_decompress cf) op = Some q /\ output_complete_closed b a op q)
    | _ => tree_kept b a
    end.
End Effect.
