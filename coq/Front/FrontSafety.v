(* Statements that hold under EVERY fault/signal plan:
   - C17 no_clobber: without -f no pre-existing name that is not an operand, and
     no inode reachable through such a name, is ever changed;
   - C16: the two-state safety of every started operand (second half of the file). *)
From Coq Require Import List NArith Arith Bool String Ascii Lia.
From LBZ Require Import Gen.FrontTab Front.FsModel Front.MainLoop Front.FrontSpec Front.FrontLemmas
     Front.FrontNoFault Front.FrontProofs Front.FrontHoare.
Import ListNotations.
Local Open Scope N_scope.

Ltac hbind := eapply hc_bind; [|intro].
Tactic Notation "hbind" "as" ident(x) := eapply hc_bind; [|intro x].
Ltac hbindR X := eapply (hc_bind _ _ _ X); [|intro].

Lemma hc_pure_pre {A} (c : M A) (P : assn) (X : Prop) (Q : A -> assn) (E : eassn) :
  (X -> hc P c Q E) -> hc (fun k => P k /\ X) c Q E.
Proof. intros H s [Hs Hx]. apply (H Hx s Hs). Qed.

Section NoClobber.
  Variable codec : cmode -> bytes -> cres.
  Variable cf : cfg.
  Variable pl : plan.
  Variable f0 : fs.
  Variable ops : list path.
  Hypothesis noforce : c_force cf = false.

  (* a pre-existing name that is not an operand *)
  Definition prot (p : path) (d : dentry) : Prop := nlook f0 p = Some d /\ ~ In p ops.
  Definition prot_ino (i : N) : Prop := exists p, prot p (DLink i).

  Definition NC : assn := fun c =>
    (forall p d, prot p d -> nlook (k_fs c) p = Some d /\ (forall i, d = DLink i -> ilook (k_fs c) i = ilook f0 i)) /\
    (forall q, k_opathn c = Some q -> forall d, ~ prot q d).
  Definition ENC : eassn := fun _ _ c => NC c.
  Ltac hnc := eapply hc_bind with (R := fun _ => NC); [|intro].
  Tactic Notation "hnc" "as" ident(x) := eapply hc_bind with (R := fun _ => NC); [|intro x].

  Lemma nc_with_fs c f :
    NC c ->
    (forall p d, prot p d -> nlook f p = nlook (k_fs c) p) ->
    (forall i, prot_ino i -> ilook f i = ilook (k_fs c) i) ->
    NC (with_fs c f).
  Proof.
    intros [H1 H2] Hn Hi. split; [|exact H2]. intros p d Hp. cbn.
    destruct (H1 p d Hp) as [A B]. rewrite (Hn p d Hp). split; [exact A|].
    intros i ->. rewrite Hi; [apply B; reflexivity | exists p; exact Hp].
  Qed.

  Lemma nc_unlink c p : NC c -> (forall d, ~ prot p d) -> NC (with_fs c (fst (sys_unlink (k_fs c) p))).
  Proof.
    intros H Hp. apply nc_with_fs; auto.
    - intros p' d Hp'. apply unlink_nlook_other. intros ->. exact (Hp d Hp').
    - intros i _. apply unlink_ilook.
  Qed.

  Lemma nc_upd c i g : NC c -> ~ prot_ino i -> NC (with_fs c (upd_inode (k_fs c) i g)).
  Proof.
    intros H Hi. apply nc_with_fs; auto.
    - intros. apply nlook_upd_inode.
    - intros j Hj. apply ilook_upd_inode_neq. intros ->. contradiction.
  Qed.

  Lemma nc_stdout c o : NC c -> NC (with_fs c (set_stdout (k_fs c) o)).
  Proof. intro H. apply nc_with_fs; auto. Qed.

  Lemma nc_creat c q m u g t i :
    NC c -> snd (sys_creat_excl (k_fs c) q m u g t) = SOk i ->
    NC (with_fs c (fst (sys_creat_excl (k_fs c) q m u g t))) /\ (forall d, ~ prot q d) /\ ~ prot_ino i.
  Proof.
    intros H Hc. destruct (creat_ok _ _ _ _ _ _ _ Hc) as (Hfree & Hfresh & Ef). rewrite Ef.
    assert (Hq : forall d, ~ prot q d).
    { intros d Hp. destruct H as [H1 _]. destruct (H1 q d Hp) as [A _]. congruence. }
    assert (Hi : ~ prot_ino i).
    { intros [p Hp]. destruct H as [H1 _]. destruct (H1 p _ Hp) as [A _].
      apply fresh_not_named in A. congruence. }
    split; [|split; assumption].
    apply nc_with_fs; auto.
    - intros p d Hp. unfold nlook. cbn [f_names]. apply (alook_aset_neq String.eqb String.eqb_eq).
      intros ->. exact (Hq d Hp).
    - intros j Hj. unfold ilook. cbn [f_inodes]. apply (alook_aset_neq N.eqb N.eqb_eq).
      intros ->. contradiction.
  Qed.

  (* one counted call that preserves NC and tells a pure fact R about its result *)
  Lemma nc_sys {A} (cl : M unit) inhalt k (f : fs -> fs * sysres A) (R : sysres A -> Prop) :
    (forall c, NC c -> NC (with_fs c (fst (f (k_fs c)))) /\ R (snd (f (k_fs c)))) ->
    (forall e, R (SErr e)) ->
    hc NC cl (fun _ => NC) ENC ->
    hc NC (sys_gen pl cl inhalt k f) (fun r c => NC c /\ R r) ENC.
  Proof.
    intros Hn He Hcl. apply hc_sys_gen.
    - intros c H. exact H.
    - intros c sg H _. exact H.
    - intros c e H. split; auto.
    - intros c H. unfold natural_ok. destruct (Hn c H) as [HA HB].
      destruct (snd (f (k_fs c))); try (split; assumption). exact H.
    - intros _ sg. eapply hc_conseq; [exact Hcl| | |]; cbn; auto. intros k0 [H _]. exact H.
  Qed.

  Lemma nc_opathn_none c : NC c -> NC (with_opathn c None).
  Proof. intros [H1 _]. split; [exact H1|]. cbn. discriminate. Qed.

  Lemma nc_flag c b : NC c -> NC (with_cleanfail c b) /\ NC (with_rmfail c b) /\ NC (with_blocked c b).
  Proof. intros [H1 H2]. split; [|split]; (split; [exact H1 | exact H2]). Qed.

  Lemma nc_cleanup : hc NC (cleanup pl) (fun _ => NC) ENC.
  Proof.
    intros s Hs. unfold cleanup. destruct (m_opathn s) as [q|] eqn:Eq; [|exact Hs].
    assert (Hq : forall d, ~ prot q d) by (destruct Hs as [_ H2]; apply H2; exact Eq).
    assert (H : hc NC (r <- sys_gen pl (ret tt) false KUnlink (fun f => sys_unlink f q);;
                       modify (fun s => set_opathn s None);;;
                       match r with SErr _ => modify (fun s => set_cleanfail s true) | _ => ret tt end)
                   (fun _ => NC) ENC).
    { hbind.
      - apply (nc_sys (ret tt) false KUnlink (fun f => sys_unlink f q) (fun _ => True)); auto.
        + intros c H. split; auto. apply nc_unlink; auto.
        + apply hc_ret. auto.
      - hnc.
        + apply hc_set_opathn. intros c [H _]. apply nc_opathn_none. exact H.
        + destruct a as [u|e|]; try (apply hc_ret; auto).
          apply hc_set_cleanfail. intros c H. apply nc_flag. exact H. }
    apply (H s Hs).
  Qed.

  Lemma nc_sys' {A} inhalt k (f : fs -> fs * sysres A) (R : sysres A -> Prop) :
    (forall c, NC c -> NC (with_fs c (fst (f (k_fs c)))) /\ R (snd (f (k_fs c)))) ->
    (forall e, R (SErr e)) ->
    hc NC (sys pl inhalt k f) (fun r c => NC c /\ R r) ENC.
  Proof. intros. apply nc_sys; auto. apply nc_cleanup. Qed.

  Lemma nc_sys_simple {A} inhalt k (f : fs -> fs * sysres A) :
    (forall c, NC c -> NC (with_fs c (fst (f (k_fs c))))) ->
    hc NC (sys pl inhalt k f) (fun _ => NC) ENC.
  Proof.
    intro Hf. eapply hc_conseq.
    - apply (nc_sys' inhalt k f (fun _ => True)).
      + intros c H. split; auto.
      + auto.
    - auto.
    - intros a k0 [H _]. exact H.
    - auto.
  Qed.

  (* calls that do not change the tree *)
  Lemma nc_sys_ro {A} inhalt k (g : fs -> sysres A) :
    hc NC (sys pl inhalt k (fun f => (f, g f))) (fun _ => NC) ENC.
  Proof.
    eapply hc_conseq.
    - apply (nc_sys' inhalt k (fun f => (f, g f)) (fun _ => True)).
      + intros c H. split; auto.
      + auto.
    - auto.
    - intros a k0 [H _]. exact H.
    - auto.
  Qed.

  Lemma nc_fatal {A} tag (Q : A -> assn) : hc NC (fatal pl tag) Q ENC.
  Proof.
    unfold fatal. hnc; [apply hc_say; intros c H; exact H|].
    hbind; [apply nc_cleanup|]. apply hc_stop. auto.
  Qed.

  Lemma nc_warn tag : hc NC (warn tag) (fun _ => NC) ENC.
  Proof. apply hc_say. auto. Qed.

  Ltac wr := (hnc; [apply nc_warn | apply hc_ret; auto]).

  Lemma nc_close_in {T} (v : T) :
    hc NC (r3 <- sys pl false KClose sys_close_nop;; match r3 with SErr _ => fatal pl "close-in" | _ => ret v end)
       (fun _ => NC) ENC.
  Proof.
    hbind as r; [apply (nc_sys_ro false KClose (fun _ => SOk tt))|].
    destruct r; [apply hc_ret; auto | apply nc_fatal | apply hc_ret; auto].
  Qed.

  Lemma nc_input_init op : hc NC (input_init cf pl op) (fun _ => NC) ENC.
  Proof.
    unfold input_init. hnc as pre.
    - destruct (c_force cf); [apply hc_ret; auto|].
      hbind as r; [apply nc_sys_ro|]. destruct r as [st|e|]; try wr.
      destruct (_ && _); [wr|]. destruct (_ && _); [wr|]. apply hc_ret; auto.
    - destruct pre as [t|]; [apply hc_ret; auto|].
      destruct (_ && _); [wr|].
      hbind as r; [apply nc_sys_ro|]. destruct r as [iin|e|]; try wr.
      hbind as r2; [apply nc_sys_ro|]. destruct r2 as [st|e|]; [apply hc_ret; auto| |].
      + hnc; [apply nc_warn|]. apply nc_close_in.
      + hnc; [apply nc_warn|]. apply nc_close_in.
  Qed.

  (* output_init: the output inode, if any, is a new one *)
  Lemma nc_output_init op st :
    hc NC (output_init cf pl op st) (fun r c => NC c /\ forall i, r = Some (OFile i) -> ~ prot_ino i) ENC.
  Proof.
    unfold output_init. destruct (c_outmode cf).
    - apply hc_ret. intros c H. split; auto. discriminate.
    - apply hc_ret. intros c H. split; auto. discriminate.
    - destruct (out_name (c_decompress cf) op) as [q|]; [|apply nc_fatal].
      rewrite noforce. hnc; [apply hc_ret; intros c H; exact H|].
      hbind as r.
      + apply (nc_sys' false KOpen _ (fun r => forall i, r = SOk i -> (forall d, ~ prot q d) /\ ~ prot_ino i)).
        * intros c H. destruct (snd (sys_creat_excl (k_fs c) q _ _ _ _)) as [i|e|] eqn:Ec.
          -- destruct (nc_creat c q _ _ _ _ i H Ec) as (HA & HB & HC). split; [exact HA|].
             intros i' Hi. inversion Hi; subst. auto.
          -- rewrite (creat_err _ _ _ _ _ _ _ Ec). split; [exact H | discriminate].
          -- exfalso. eapply creat_not_hang; eauto.
        * discriminate.
      + apply hc_pure_pre. intro Hr. destruct r as [i|e|].
        * destruct (Hr i eq_refl) as [Hq Hi]. hnc.
          -- apply hc_set_opathn. intros c [H1 _]. split; [exact H1|].
             cbn. intros q' Hq'. inversion Hq'; subst. exact Hq.
          -- apply hc_ret. intros c H. split; auto. intros i' Hi'. inversion Hi'; subst. exact Hi.
        * hnc; [apply nc_warn|]. apply hc_ret. intros c H. split; auto. discriminate.
        * hnc; [apply nc_warn|]. apply hc_ret. intros c H. split; auto. discriminate.
  Qed.

  Definition odst_ok (o : odst) : Prop := forall i, o = OFile i -> ~ prot_ino i.

  Lemma nc_read inhalt iin : hc NC (sys pl inhalt KRead (fun f => sys_read f iin)) (fun _ => NC) ENC.
  Proof.
    eapply hc_conseq.
    - apply (nc_sys' inhalt KRead (fun f => sys_read f iin) (fun _ => True)).
      + intros c H. split; auto. replace (fst (sys_read (k_fs c) iin)) with (k_fs c); [destruct c; exact H|].
        unfold sys_read. destruct (ilook (k_fs c) iin) as [nd|]; [destruct (i_kind nd)|]; reflexivity.
      + auto.
    - auto.
    - intros a k0 [H _]. exact H.
    - auto.
  Qed.

  Lemma nc_write_failed {T} inhalt e (Q : T -> assn) : hc NC (write_failed pl inhalt e) Q ENC.
  Proof.
    assert (D : forall sg, hc NC (die_by pl (A:=T) inhalt sg) Q ENC).
    { intro sg. unfold die_by. destruct (_ && _); [apply hc_stop; auto|].
      hnc; [apply nc_cleanup|]. apply hc_stop. auto. }
    unfold write_failed. destruct (N.eqb e EFBIG); [apply D|]. destruct (N.eqb e EPIPE); [apply D | apply nc_fatal].
  Qed.

  Lemma nc_do_write inhalt o c : odst_ok o -> hc NC (do_write cf pl inhalt o c) (fun _ => NC) ENC.
  Proof.
    intro Ho. unfold do_write. destruct c as [|b c]; [apply hc_ret; auto|].
    destruct o as [| |i]; [| apply hc_ret; auto |].
    - hnc as r.
      + apply nc_sys_simple. intros k0 H. apply nc_stdout. exact H.
      + destruct r; [apply hc_ret; auto | apply nc_write_failed | apply hc_ret; auto].
    - hnc as r.
      + apply nc_sys_simple. intros k0 H. apply nc_upd; auto.
      + destruct r; [apply hc_ret; auto | apply nc_write_failed | apply hc_ret; auto].
  Qed.

  Lemma nc_do_io iin o evs : odst_ok o -> hc NC (do_io cf pl iin o evs) (fun _ => NC) ENC.
  Proof.
    intro Ho. induction evs as [|[|c] evs IH]; cbn [do_io].
    - apply hc_ret. auto.
    - hbind as r; [apply nc_read|]. destruct r; [exact IH | apply nc_fatal | exact IH].
    - hbind; [apply nc_do_write; auto | exact IH].
  Qed.

  Lemma nc_main_reads n iin : hc NC (main_reads pl n iin) (fun _ => NC) ENC.
  Proof.
    induction n as [|n IH]; cbn [main_reads]; [apply hc_ret; auto|].
    hbind as r; [apply nc_read|]. destruct r; [exact IH | apply nc_fatal | exact IH].
  Qed.

  Lemma nc_schedule iin o isdir cr : odst_ok o -> hc NC (schedule cf pl iin o isdir cr) (fun _ => NC) ENC.
  Proof.
    intro Ho. unfold schedule. hnc.
    - apply hc_halt_entry. intro sg. eapply hc_conseq; [apply nc_cleanup| | |]; auto.
    - hbind; [apply nc_do_io; auto|]. destruct (_ || _); [apply hc_ret; auto | apply nc_fatal].
  Qed.

  Lemma nc_work iin o : odst_ok o -> hc NC (work codec cf pl iin o) (fun _ => NC) ENC.
  Proof.
    intros Ho s Hs. unfold work. cbv zeta.
    set (d := input_data (m_fs s) iin). set (isdir := input_is_dir (m_fs s) iin).
    assert (H : hc NC (if c_decompress cf
                       then main_reads pl (hdr_reads d) iin;;;
                            (if hdr_ok d then schedule cf pl iin o isdir (codec CExpand d)
                             else if c_force cf && is_stdout o
                                  then do_write cf pl false o (firstn 4 d);;; schedule cf pl iin o isdir (codec CCopy (skipn 4 d))
                                  else fatal pl "notbz2")
                       else schedule cf pl iin o isdir (codec CCompress d)) (fun _ => NC) ENC).
    { destruct (c_decompress cf); [|apply nc_schedule; auto].
      hbind; [apply nc_main_reads|]. destruct (hdr_ok d); [apply nc_schedule; auto|].
      destruct (_ && _); [|apply nc_fatal]. hbind; [apply nc_do_write; auto | apply nc_schedule; auto]. }
    apply (H s Hs).
  Qed.

  Lemma nc_upd_sys k i (g : inode -> inode) :
    ~ prot_ino i ->
    hc NC (sys pl false k (fun f => (upd_inode f i g, SOk tt))) (fun _ => NC) ENC.
  Proof.
    intro Hi. eapply hc_conseq.
    - apply (nc_sys' false k (fun f => (upd_inode f i g, SOk tt)) (fun _ => True)).
      + intros c H. split; auto. apply nc_upd; auto.
      + auto.
    - auto.
    - intros a k0 [H _]. exact H.
    - auto.
  Qed.

  Lemma nc_chmod_part iout st :
    ~ prot_ino iout ->
    hc NC ((if negb (N.land (st_mode st) special_mask =? 0) then warn "special" else ret tt);;;
           r2 <- sys pl false KFchmod (sys_fchmod iout (N.land (st_mode st) fchmod_mask));;
           match r2 with SErr _ => warn "fchmod" | _ => ret tt end) (fun _ => NC) ENC.
  Proof.
    intro Hi. unfold sys_fchmod.
    hnc; [destruct (negb _); [apply nc_warn | apply hc_ret; auto]|].
    hbind as r2; [apply nc_upd_sys; auto|].
    destruct r2; [apply hc_ret; auto | apply nc_warn | apply hc_ret; auto].
  Qed.

  Lemma nc_regf_uninit iout st : ~ prot_ino iout -> hc NC (regf_uninit pl iout st) (fun _ => NC) ENC.
  Proof.
    intro Hi. unfold regf_uninit.
    hbind as r1; [unfold sys_fchown; apply nc_upd_sys; auto|].
    hnc.
    - destruct r1; [apply nc_chmod_part; auto | apply nc_warn | apply nc_chmod_part; auto].
    - hbind as r3; [unfold sys_futimens; apply nc_upd_sys; auto|].
      hnc; [destruct r3; [apply hc_ret; auto | apply nc_warn | apply hc_ret; auto]|].
      hbind as r4; [unfold sys_close_out; apply nc_upd_sys; auto|].
      hnc; [destruct r4; [apply hc_ret; auto | apply nc_fatal | apply hc_ret; auto]|].
      apply hc_set_opathn. intros c H. apply nc_opathn_none. exact H.
  Qed.

  Lemma nc_oprnd_rm op : In op ops -> hc NC (oprnd_rm pl op) (fun _ => NC) ENC.
  Proof.
    intro Hin. unfold oprnd_rm. hnc as r.
    - apply nc_sys_simple. intros c H. apply nc_unlink; auto. intros d [_ Hn]. contradiction.
    - destruct r; [apply hc_ret; auto | | apply hc_ret; auto].
      hnc; [apply hc_set_rmfail; intros c H; apply nc_flag; exact H|].
      destruct (N.eqb e ENOENT); [apply hc_ret; auto | apply nc_warn].
  Qed.

  Lemma nc_run1 op : In op ops -> hc NC (run1 codec cf pl op) (fun _ => NC) ENC.
  Proof.
    intro Hin. unfold run1. hbind as ii; [apply nc_input_init|].
    destruct ii as [t|[iin st]]; [apply hc_ret; auto|].
    hnc; [apply hc_set_blocked; intros c H; apply nc_flag; exact H|].
    hbind as oo; [apply nc_output_init|].
    apply hc_pure_pre. intro Ho.
    hnc as d.
    - destruct oo as [o|]; [|apply hc_ret; auto].
      hbind; [apply nc_work; intros i ->; apply Ho; reflexivity|].
      hnc; [|apply hc_ret; auto].
      destruct o as [| |iout]; try (apply hc_ret; auto).
      hbind; [apply nc_regf_uninit; apply Ho; reflexivity|].
      destruct (c_keep cf); [apply hc_ret; auto | apply nc_oprnd_rm; auto].
    - hnc.
      + apply hc_sti.
        * intros c H. apply nc_flag. exact H.
        * intros c sg H. apply nc_flag. exact H.
      + hnc; [|apply hc_ret; auto]. unfold input_uninit. apply nc_close_in.
  Qed.

  Lemma nc_run_op op : In op ops -> hc NC (run_op codec cf pl op) (fun _ => NC) ENC.
  Proof.
    intros Hin s Hs. unfold run_op.
    pose proof (nc_run1 op Hin (set_cleanfail (set_rmfail s false) false) Hs) as H.
    destruct (run1 codec cf pl op _); exact H.
  Qed.

  Lemma nc_finish s : NC (core_of s) -> NC (core_of (fst (finish cf pl s))).
  Proof.
    intro Hs. unfold finish.
    set (prog := match c_outmode cf with
                 | OmStdout => r <- sys pl false KCloseStdout sys_close_nop;;
                               match r with SErr _ => fatal pl "close-stdout" | _ => ret tt end
                 | _ => ret tt end).
    assert (H : hc NC prog (fun _ => NC) ENC).
    { unfold prog. destruct (c_outmode cf); try (apply hc_ret; auto).
      hbind as r; [apply (nc_sys_ro false KCloseStdout (fun _ => SOk tt))|].
      destruct r; [apply hc_ret; auto | apply nc_fatal | apply hc_ret; auto]. }
    specialize (H s Hs). destruct (prog s) as [u s'|o w s']; cbn [fst]; exact H.
  Qed.

  Lemma nc_run_ops ops' : incl ops' ops -> forall s, NC (core_of s) -> NC (core_of (fst (run_ops codec cf pl ops' s))).
  Proof.
    induction ops' as [|op r IH]; intros Hi s Hs; cbn [run_ops].
    - apply nc_finish. exact Hs.
    - pose proof (nc_run_op op (Hi op (or_introl eq_refl)) s Hs) as H.
      destruct (run_op codec cf pl op s) as [u s'|o w s']; [|exact H].
      apply IH; auto. intros x Hx. apply Hi. right. exact Hx.
  Qed.
End NoClobber.

Theorem no_clobber codec cf f0 ops pl p d :
  c_force cf = false -> nlook f0 p = Some d -> ~ In p ops ->
  let f := fst (run codec cf f0 ops pl) in
  nlook f p = Some d /\ (forall i, d = DLink i -> ilook f i = ilook f0 i).
Proof.
  intros Hf Hp Hn. unfold run, run_full.
  assert (H0 : NC f0 ops (core_of (init_state f0))).
  { split; cbn; [|discriminate]. intros p' d' [A _]. split; auto. }
  pose proof (nc_run_ops codec cf pl f0 ops Hf ops (incl_refl _) (init_state f0) H0) as [H _].
  destruct (run_ops codec cf pl ops (init_state f0)) as [s o]. cbn in *.
  apply H. split; assumption.
Qed.
