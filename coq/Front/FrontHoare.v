(* A small Hoare logic for the operand-loop monad, for statements that hold under
   EVERY fault/signal plan.  Assertions talk about the "core" of the machine
   state -- file system, opathn, blocked flag and the two ghost flags -- so they
   are automatically insensitive to call counters, pending-signal flags,
   diagnostics and history. *)
From Coq Require Import List NArith Arith Bool String Ascii Lia.
From LBZ Require Import Gen.FrontTab Front.FsModel Front.MainLoop Front.FrontSpec Front.FrontLemmas.
Import ListNotations.
Local Open Scope N_scope.

Record core := {
  k_fs : fs;
  k_opathn : option path;
  k_blocked : bool;
  k_rmfail : bool;
  k_cleanfail : bool
}.

Definition core_of (s : mstate) : core :=
  {| k_fs := m_fs s; k_opathn := m_opathn s; k_blocked := m_blocked s;
     k_rmfail := m_rmfail s; k_cleanfail := m_cleanfail s |}.

Definition with_fs (c : core) (f : fs) : core :=
  {| k_fs := f; k_opathn := k_opathn c; k_blocked := k_blocked c; k_rmfail := k_rmfail c; k_cleanfail := k_cleanfail c |}.
Definition with_opathn (c : core) (o : option path) : core :=
  {| k_fs := k_fs c; k_opathn := o; k_blocked := k_blocked c; k_rmfail := k_rmfail c; k_cleanfail := k_cleanfail c |}.
Definition with_blocked (c : core) (b : bool) : core :=
  {| k_fs := k_fs c; k_opathn := k_opathn c; k_blocked := b; k_rmfail := k_rmfail c; k_cleanfail := k_cleanfail c |}.
Definition with_rmfail (c : core) (b : bool) : core :=
  {| k_fs := k_fs c; k_opathn := k_opathn c; k_blocked := k_blocked c; k_rmfail := b; k_cleanfail := k_cleanfail c |}.
Definition with_cleanfail (c : core) (b : bool) : core :=
  {| k_fs := k_fs c; k_opathn := k_opathn c; k_blocked := k_blocked c; k_rmfail := k_rmfail c; k_cleanfail := b |}.

Definition assn := core -> Prop.
Definition eassn := outcome -> why -> core -> Prop.

Definition hc {A} (P : assn) (c : M A) (Q : A -> assn) (E : eassn) : Prop :=
  forall s, P (core_of s) ->
    match c s with
    | Ret a s' => Q a (core_of s')
    | Stop o w s' => E o w (core_of s')
    end.

Lemma hc_ret {A} (a : A) (P : assn) (Q : A -> assn) (E : eassn) : (forall c, P c -> Q a c) -> hc P (ret a) Q E.
Proof. intros H s Hs. cbn. auto. Qed.

Lemma hc_bind {A B} (c : M A) (f : A -> M B) (P : assn) (R : A -> assn) (Q : B -> assn) (E : eassn) :
  hc P c R E -> (forall a, hc (R a) (f a) Q E) -> hc P (bind c f) Q E.
Proof.
  intros H1 H2 s Hs. unfold bind. specialize (H1 s Hs). destruct (c s) as [a s'|o w s']; auto.
  apply H2. exact H1.
Qed.

Lemma hc_conseq {A} (c : M A) (P P' : assn) (Q Q' : A -> assn) (E E' : eassn) :
  hc P c Q E -> (forall k, P' k -> P k) -> (forall a k, Q a k -> Q' a k) -> (forall o w k, E o w k -> E' o w k) ->
  hc P' c Q' E'.
Proof.
  intros H HP HQ HE s Hs. specialize (H s (HP _ Hs)). destruct (c s); auto.
Qed.

Lemma hc_pre {A} (c : M A) (P P' : assn) (Q : A -> assn) (E : eassn) : hc P c Q E -> (forall k, P' k -> P k) -> hc P' c Q E.
Proof. intros H HP. eapply hc_conseq; eauto. Qed.

Lemma hc_stop {A} o w (P : assn) (Q : A -> assn) (E : eassn) : (forall c, P c -> E o w c) -> hc P (stop o w) Q E.
Proof. intros H s Hs. cbn. auto. Qed.

(* case analysis on a pure fact about the precondition *)
Lemma hc_case {A} (c : M A) (P : assn) (Q : A -> assn) (E : eassn) (X : Prop) :
  (X -> hc P c Q E) -> (~ X -> hc P c Q E) -> (X \/ ~ X) -> hc P c Q E.
Proof. intros H1 H2 [H|H]; auto. Qed.

Lemma hc_false {A} (c : M A) (Q : A -> assn) (E : eassn) : hc (fun _ => False) c Q E.
Proof. intros s []. Qed.

(* state updates used by the program *)
Lemma hc_say cls tag (P : assn) (Q : unit -> assn) (E : eassn) : (forall c, P c -> Q tt c) -> hc P (say cls tag) Q E.
Proof. intros H s Hs. cbn. apply H. exact Hs. Qed.

Lemma hc_set_opathn o (P : assn) (Q : unit -> assn) (E : eassn) :
  (forall c, P c -> Q tt (with_opathn c o)) -> hc P (modify (fun s => set_opathn s o)) Q E.
Proof. intros H s Hs. cbn. apply (H _ Hs). Qed.

Lemma hc_set_blocked b (P : assn) (Q : unit -> assn) (E : eassn) :
  (forall c, P c -> Q tt (with_blocked c b)) -> hc P (modify (fun s => set_blocked s b)) Q E.
Proof. intros H s Hs. cbn. apply (H _ Hs). Qed.

Lemma hc_set_rmfail b (P : assn) (Q : unit -> assn) (E : eassn) :
  (forall c, P c -> Q tt (with_rmfail c b)) -> hc P (modify (fun s => set_rmfail s b)) Q E.
Proof. intros H s Hs. cbn. apply (H _ Hs). Qed.

Lemma hc_set_cleanfail b (P : assn) (Q : unit -> assn) (E : eassn) :
  (forall c, P c -> Q tt (with_cleanfail c b)) -> hc P (modify (fun s => set_cleanfail s b)) Q E.
Proof. intros H s Hs. cbn. apply (H _ Hs). Qed.

Section Sys.
  Variable pl : plan.

  (* what the natural execution of a call must establish *)
  Definition natural_ok {A} (f : fs -> fs * sysres A) (Q : sysres A -> assn) (E : eassn) (c : core) : Prop :=
    match snd (f (k_fs c)) with
    | SHang => E Hang WHang c
    | r => Q r (with_fs c (fst (f (k_fs c))))
    end.

  Lemma hc_sys_gen {A} (cl : M unit) inhalt k (f : fs -> fs * sysres A) (P : assn) (Q : sysres A -> assn) (E : eassn) :
    (forall c, P c -> E (Killed SIGKILL) WKill c) ->
    (forall c sg, P c -> k_blocked c = false -> E (Killed sg) WSigDefault c) ->
    (forall c e, P c -> Q (SErr e) c) ->
    (forall c, P c -> natural_ok f Q E c) ->
    (inhalt = true -> forall sg, hc (fun c => P c /\ k_blocked c = true) cl (fun _ c => E (Killed sg) WSigHandled c) E) ->
    hc P (sys_gen pl cl inhalt k f) Q E.
  Proof.
    intros Hk Hd He Hn Hh s Hs. unfold sys_gen.
    set (s1 := set_cnt s (aset kindc_eqb k (S (cnt_get k (m_cnt s))) (m_cnt s))).
    assert (C1 : core_of s1 = core_of s) by reflexivity.
    assert (Nat : forall s2, core_of s2 = core_of s ->
              match (let '(f', r) := f (m_fs s2) in
                     match r with SHang => Stop Hang WHang s2 | _ => Ret r (set_fs s2 f') end) with
              | Ret a s' => Q a (core_of s')
              | Stop o w s' => E o w (core_of s')
              end).
    { intros s2 C2. specialize (Hn _ Hs). unfold natural_ok in Hn. rewrite <- C2 in Hn.
      change (k_fs (core_of s2)) with (m_fs s2) in Hn.
      destruct (f (m_fs s2)) as [f' r]. cbn [fst snd] in Hn. destruct r; exact Hn. }
    destruct (plan_lookup pl k (S (cnt_get k (m_cnt s)))) as [[e|sg]|].
    - rewrite C1. apply He. exact Hs.
    - assert (Gen : forall sg0,
                 match (if m_blocked s1
                        then if inhalt
                             then match handled_in_halt cl sg0 s1 with
                                  | Ret _ s2 => Stop (Killed sg0) WSigHandled s2
                                  | Stop o w s2 => Stop o w s2
                                  end
                             else (let '(f', r) := f (m_fs (set_pending s1 sg0)) in
                                   match r with SHang => Stop Hang WHang (set_pending s1 sg0)
                                           | _ => Ret r (set_fs (set_pending s1 sg0) f') end)
                        else Stop (Killed sg0) WSigDefault s1) with
                 | Ret a s' => Q a (core_of s')
                 | Stop o w s' => E o w (core_of s')
                 end).
      { intro sg0. destruct (m_blocked s1) eqn:Eb.
        - destruct inhalt.
          + unfold handled_in_halt, bind, stop.
            specialize (Hh eq_refl sg0 s1). rewrite C1 in Hh.
            assert (Hp : P (core_of s) /\ k_blocked (core_of s) = true) by (split; [exact Hs | exact Eb]).
            specialize (Hh Hp). destruct (cl s1); exact Hh.
          + apply Nat. reflexivity.
        - rewrite C1. apply Hd; auto. }
      destruct sg; try apply Gen. rewrite C1. apply Hk. exact Hs.
    - apply Nat. reflexivity.
  Qed.

  (* halt_entry: a pending signal is handled now, or nothing happens *)
  Lemma hc_halt_entry (cl : M unit) (P : assn) (E : eassn) :
    (forall sg, hc P cl (fun _ c => E (Killed sg) WSigHandled c) E) ->
    hc P (fun s => if m_pint s then handled_in_halt cl SIGINT s
                   else if m_pterm s then handled_in_halt cl SIGTERM s else Ret tt s)
       (fun _ => P) E.
  Proof.
    intros H s Hs. destruct (m_pint s).
    - unfold handled_in_halt, bind, stop. specialize (H SIGINT s Hs). destruct (cl s); exact H.
    - destruct (m_pterm s).
      + unfold handled_in_halt, bind, stop. specialize (H SIGTERM s Hs). destruct (cl s); exact H.
      + exact Hs.
  Qed.

  (* sti(): unblock; a pending signal now kills the process *)
  Lemma hc_sti (P : assn) (Q : unit -> assn) (E : eassn) :
    (forall c, P c -> Q tt (with_blocked c false)) ->
    (forall c sg, P c -> E (Killed sg) WSigSti (with_blocked c false)) ->
    hc P sti Q E.
  Proof.
    intros H1 H2 s Hs. unfold sti. destruct (m_pint s); [apply (H2 _ SIGINT Hs)|].
    destruct (m_pterm s); [apply (H2 _ SIGTERM Hs)|]. apply (H1 _ Hs).
  Qed.
End Sys.
