(* Abstract file system for the operand loop of main() (properties C16, C17, C18).

   Names map to directory entries (a hard link to an inode, or a symbolic link
   holding a target name); inodes carry kind, permission bits, owner, times and
   content.  The link count is not stored: it is the number of names that refer
   to the inode, so unlink() only touches the name table.  An inode that lost
   its last name stays in the table (it may still be open); listings only walk
   the names.

   What is NOT modelled (trusted / declared in the checks):
   - directories as containers: a path is an opaque key; the parent directory of
     every operand is assumed to exist and to be writable, so creating a name
     fails only if it exists already or has an empty final component;
   - permission checks (the checks run as root), umask bits outside 0600;
   - atime updates caused by reading; ctime;
   - concurrent modification of the tree by other processes (no TOCTOU). *)
From Coq Require Import List NArith Arith Bool String Ascii.
Import ListNotations.
Local Open Scope N_scope.

Definition path := string.
Definition bytes := list N.

(* ---- association lists ----------------------------------------------------------- *)
Section Assoc.
  Context {K V : Type}.
  Variable eqb : K -> K -> bool.

  Fixpoint alook (k : K) (l : list (K * V)) : option V :=
    match l with
    | [] => None
    | (k', v) :: r => if eqb k' k then Some v else alook k r
    end.

  Fixpoint arem (k : K) (l : list (K * V)) : list (K * V) :=
    match l with
    | [] => []
    | (k', v) :: r => if eqb k' k then arem k r else (k', v) :: arem k r
    end.

  Definition aset (k : K) (v : V) (l : list (K * V)) : list (K * V) := (k, v) :: arem k l.
End Assoc.

(* ---- errno values (Linux numbers; only ENOENT is ever compared by main.c) ---------- *)
Definition ENOENT : N := 2.
Definition EIO : N := 5.
Definition EBADF : N := 9.
Definition EACCES : N := 13.
Definition EEXIST : N := 17.
Definition EISDIR : N := 21.
Definition EFBIG : N := 27.
Definition ENOSPC : N := 28.
Definition EPIPE : N := 32.
Definition ELOOP : N := 40.

Inductive sysres (A : Type) : Type :=
| SOk (a : A)
| SErr (e : N)
| SHang.                 (* the call never returns (open of a FIFO without writer) *)
Arguments SOk {A} a.
Arguments SErr {A} e.
Arguments SHang {A}.

(* ---- nodes ------------------------------------------------------------------------- *)
Inductive kind := KReg | KDir | KFifo.

Record inode := {
  i_kind : kind;
  i_mode : N;              (* permission bits incl. setuid/setgid/sticky (07777) *)
  i_uid : N;
  i_gid : N;
  i_atime : N;
  i_mtime : N;
  i_data : bytes;
  i_committed : bool       (* ghost: false from creation until a close() of the writing descriptor succeeded *)
}.

Inductive dentry := DLink (ino : N) | DSym (target : path).

Record fs := {
  f_names : list (path * dentry);
  f_inodes : list (N * inode);
  f_stdout : bytes
}.

Definition nlook (f : fs) (p : path) : option dentry := alook String.eqb p (f_names f).
Definition ilook (f : fs) (i : N) : option inode := alook N.eqb i (f_inodes f).

Definition set_names (f : fs) (n : list (path * dentry)) : fs :=
  {| f_names := n; f_inodes := f_inodes f; f_stdout := f_stdout f |}.
Definition set_inodes (f : fs) (n : list (N * inode)) : fs :=
  {| f_names := f_names f; f_inodes := n; f_stdout := f_stdout f |}.
Definition set_stdout (f : fs) (o : bytes) : fs :=
  {| f_names := f_names f; f_inodes := f_inodes f; f_stdout := o |}.

Definition is_link_to (i : N) (e : path * dentry) : bool :=
  match snd e with DLink j => N.eqb j i | DSym _ => false end.

(* st_nlink: number of names of the inode *)
Definition nlink (f : fs) (i : N) : N := N.of_nat (List.length (filter (is_link_to i) (f_names f))).

(* what stat()/lstat()/fstat() report *)
Inductive skind := SReg | SDir | SFifo | SLnk.

Record stat := {
  st_ino : N;              (* inode number (one device) *)
  st_kind : skind;
  st_mode : N;
  st_nlink : N;
  st_uid : N;
  st_gid : N;
  st_atime : N;
  st_mtime : N;
  st_size : N
}.

Definition skind_of (k : kind) : skind :=
  match k with KReg => SReg | KDir => SDir | KFifo => SFifo end.

Definition stat_of (f : fs) (i : N) (nd : inode) : stat :=
  {| st_ino := i; st_kind := skind_of (i_kind nd); st_mode := i_mode nd; st_nlink := nlink f i;
     st_uid := i_uid nd; st_gid := i_gid nd; st_atime := i_atime nd; st_mtime := i_mtime nd;
     st_size := N.of_nat (List.length (i_data nd)) |}.

Definition lnk_stat (target : path) : stat :=
  {| st_ino := 0; st_kind := SLnk; st_mode := 511; st_nlink := 1; st_uid := 0; st_gid := 0;
     st_atime := 0; st_mtime := 0; st_size := N.of_nat (String.length target) |}.

(* ---- path resolution (symbolic links are followed at most [fuel] times) ---------- *)
Definition SYMLOOP_MAX : nat := 40.

Fixpoint resolve (f : fs) (fuel : nat) (p : path) : sysres N :=
  match nlook f p with
  | None => SErr ENOENT
  | Some (DLink i) => SOk i
  | Some (DSym t) =>
      match fuel with
      | O => SErr ELOOP
      | S fuel' => resolve f fuel' t
      end
  end.

(* ---- the system calls main.c makes, natural (fault-free) behaviour ----------------- *)
Definition sys_lstat (f : fs) (p : path) : sysres stat :=
  match nlook f p with
  | None => SErr ENOENT
  | Some (DSym t) => SOk (lnk_stat t)
  | Some (DLink i) =>
      match ilook f i with
      | Some nd => SOk (stat_of f i nd)
      | None => SErr ENOENT
      end
  end.

(* open(p, O_RDONLY|O_NOCTTY): the inode read from *)
Definition sys_open_rd (f : fs) (p : path) : sysres N :=
  match resolve f SYMLOOP_MAX p with
  | SOk i =>
      match ilook f i with
      | Some nd => match i_kind nd with KFifo => SHang | _ => SOk i end
      | None => SErr ENOENT
      end
  | SErr e => SErr e
  | SHang => SHang
  end.

(* stat(p): follows symbolic links *)
Definition sys_stat (f : fs) (p : path) : sysres stat :=
  match resolve f SYMLOOP_MAX p with
  | SOk i => match ilook f i with
             | Some nd => SOk (stat_of f i nd)
             | None => SErr ENOENT
             end
  | SErr e => SErr e
  | SHang => SHang
  end.

(* `0 == stat(q, &o) && o.st_dev == sbuf->st_dev && o.st_ino == sbuf->st_ino`: the name q leads to the file described by st *)
Definition same_file (f : fs) (q : path) (st : stat) : bool :=
  match sys_stat f q with
  | SOk st' => N.eqb (st_ino st') (st_ino st)
  | _ => false
  end.

Definition sys_fstat (f : fs) (i : N) : sysres stat :=
  match ilook f i with
  | Some nd => SOk (stat_of f i nd)
  | None => SErr EBADF
  end.

Definition sys_unlink (f : fs) (p : path) : fs * sysres unit :=
  match nlook f p with
  | None => (f, SErr ENOENT)
  | Some (DSym _) => (set_names f (arem String.eqb p (f_names f)), SOk tt)
  | Some (DLink i) =>
      match ilook f i with
      | Some nd =>
          match i_kind nd with
          | KDir => (f, SErr EISDIR)
          | _ => (set_names f (arem String.eqb p (f_names f)), SOk tt)
          end
      | None => (set_names f (arem String.eqb p (f_names f)), SOk tt)
      end
  end.

(* last character of a name *)
Fixpoint last_char (s : string) : option ascii :=
  match s with
  | EmptyString => None
  | String c EmptyString => Some c
  | String _ r => last_char r
  end.

(* a name whose final component is empty cannot be created *)
Definition creatable (p : path) : bool :=
  match last_char p with
  | None => false
  | Some c => negb (Ascii.eqb c "/"%char)
  end.

Definition max_list (l : list N) : N := fold_right N.max 0 l.

Definition dentry_ino (e : path * dentry) : N :=
  match snd e with DLink i => i | DSym _ => 0 end.

(* an inode number used neither by a name nor by the inode table *)
Definition fresh_ino (f : fs) : N :=
  1 + N.max (max_list (map fst (f_inodes f))) (max_list (map dentry_ino (f_names f))).

(* open(p, O_WRONLY|O_CREAT|O_EXCL, mode): a new empty regular file *)
Definition sys_creat_excl (f : fs) (p : path) (mode uid gid now : N) : fs * sysres N :=
  if negb (creatable p) then (f, SErr ENOENT)
  else match nlook f p with
       | Some _ => (f, SErr EEXIST)
       | None =>
           let i := fresh_ino f in
           let nd := {| i_kind := KReg; i_mode := mode; i_uid := uid; i_gid := gid;
                        i_atime := now; i_mtime := now; i_data := []; i_committed := false |} in
           ({| f_names := aset String.eqb p (DLink i) (f_names f);
               f_inodes := aset N.eqb i nd (f_inodes f);
               f_stdout := f_stdout f |}, SOk i)
       end.

Definition upd_inode (f : fs) (i : N) (g : inode -> inode) : fs :=
  match ilook f i with
  | Some nd => set_inodes f (aset N.eqb i (g nd) (f_inodes f))
  | None => f
  end.

(* read(): only whether it succeeds matters here; the bytes are taken by the codec *)
Definition sys_read (f : fs) (i : N) : fs * sysres unit :=
  match ilook f i with
  | Some nd => match i_kind nd with KDir => (f, SErr EISDIR) | _ => (f, SOk tt) end
  | None => (f, SErr EBADF)
  end.

Definition sys_write (now : N) (i : N) (chunk : bytes) (f : fs) : fs * sysres unit :=
  (upd_inode f i (fun nd =>
     {| i_kind := i_kind nd; i_mode := i_mode nd; i_uid := i_uid nd; i_gid := i_gid nd;
        i_atime := i_atime nd; i_mtime := now; i_data := i_data nd ++ chunk;
        i_committed := i_committed nd |}), SOk tt).

Definition sys_write_stdout (chunk : bytes) (f : fs) : fs * sysres unit :=
  (set_stdout f (f_stdout f ++ chunk), SOk tt).

Definition sys_fchown (i uid gid : N) (f : fs) : fs * sysres unit :=
  (upd_inode f i (fun nd =>
     {| i_kind := i_kind nd; i_mode := i_mode nd; i_uid := uid; i_gid := gid;
        i_atime := i_atime nd; i_mtime := i_mtime nd; i_data := i_data nd;
        i_committed := i_committed nd |}), SOk tt).

Definition sys_fchmod (i mode : N) (f : fs) : fs * sysres unit :=
  (upd_inode f i (fun nd =>
     {| i_kind := i_kind nd; i_mode := mode; i_uid := i_uid nd; i_gid := i_gid nd;
        i_atime := i_atime nd; i_mtime := i_mtime nd; i_data := i_data nd;
        i_committed := i_committed nd |}), SOk tt).

Definition sys_futimens (i at_ mt : N) (f : fs) : fs * sysres unit :=
  (upd_inode f i (fun nd =>
     {| i_kind := i_kind nd; i_mode := i_mode nd; i_uid := i_uid nd; i_gid := i_gid nd;
        i_atime := at_; i_mtime := mt; i_data := i_data nd;
        i_committed := i_committed nd |}), SOk tt).

(* close() of the descriptor the output was written through *)
Definition sys_close_out (i : N) (f : fs) : fs * sysres unit :=
  (upd_inode f i (fun nd =>
     {| i_kind := i_kind nd; i_mode := i_mode nd; i_uid := i_uid nd; i_gid := i_gid nd;
        i_atime := i_atime nd; i_mtime := i_mtime nd; i_data := i_data nd;
        i_committed := true |}), SOk tt).

(* close() of a read-only descriptor / of stdout: no effect on the tree *)
Definition sys_close_nop (f : fs) : fs * sysres unit := (f, SOk tt).

(* ---- canonical listing (what the correspondence compares) ------------------------ *)
Inductive lentry :=
| LFile (p : path) (k : skind) (mode nlk uid gid at_ mt : N) (data : bytes)
| LSym (p : path) (target : path)
| LDangling (p : path).

Definition list_entry (f : fs) (e : path * dentry) : lentry :=
  match snd e with
  | DSym t => LSym (fst e) t
  | DLink i =>
      match ilook f i with
      | Some nd => LFile (fst e) (skind_of (i_kind nd)) (i_mode nd) (nlink f i) (i_uid nd) (i_gid nd)
                         (i_atime nd) (i_mtime nd) (i_data nd)
      | None => LDangling (fst e)
      end
  end.

Definition listing (f : fs) : list lentry := map (list_entry f) (f_names f).
