(* Without injected faults the monadic operand loop computes exactly the plain
   function op_effect / run_effect of FrontSpec.v, from ANY state at an operand
   boundary: counters, history, diagnostics and the sticky `warned` flag do not
   influence what happens to the operand (C18), and `warned` is or-ed. *)
From Coq Require Import List NArith Arith Bool String Ascii Lia.
From LBZ Require Import Gen.FrontTab Front.FsModel Front.MainLoop Front.FrontSpec Front.FrontLemmas.
Import ListNotations.
Local Open Scope N_scope.

(* what a step may change besides the file system: counters, messages, ghosts, warned *)
Definition fr (w : bool) (s s' : mstate) : Prop :=
  m_opathn s' = m_opathn s /\ m_blocked s' = m_blocked s /\ m_pint s' = m_pint s /\
  m_pterm s' = m_pterm s /\ m_hist s' = m_hist s /\ m_warned s' = (m_warned s || w).

Lemma fr_refl s : fr false s s.
Proof. unfold fr. rewrite orb_false_r. tauto. Qed.

Lemma fr_trans w1 w2 s1 s2 s3 : fr w1 s1 s2 -> fr w2 s2 s3 -> fr (w1 || w2) s1 s3.
Proof.
  unfold fr. intros (A1 & A2 & A3 & A4 & A5 & A6) (B1 & B2 & B3 & B4 & B5 & B6).
  rewrite B1, B2, B3, B4, B5, B6, A6, orb_assoc. tauto.
Qed.

Ltac frt := unfold fr; cbn; rewrite ?orb_false_r, ?orb_true_r; tauto.

Section NF.
  Variable codec : cmode -> bytes -> cres.
  Variable cf : cfg.

  Notation sysn := (sys [] ).

  (* one call, no plan *)
  Lemma sys_gen_nf {A} cl inhalt k (f : fs -> fs * sysres A) s :
    exists s1, fr false s s1 /\ m_fs s1 = m_fs s /\
      sys_gen [] cl inhalt k f s =
      match snd (f (m_fs s)) with
      | SHang => Stop Hang WHang s1
      | r => Ret r (set_fs s1 (fst (f (m_fs s))))
      end.
  Proof.
    eexists. split; [|split]; cycle 2.
    - unfold sys_gen. cbn [plan_lookup]. cbv zeta. cbn [m_fs set_cnt].
      destruct (f (m_fs s)) as [f' r]. cbn [fst snd]. destruct r; reflexivity.
    - frt.
    - reflexivity.
  Qed.

  Lemma sys_nf {A} inhalt k (f : fs -> fs * sysres A) s :
    exists s1, fr false s s1 /\ m_fs s1 = m_fs s /\
      sys [] inhalt k f s =
      match snd (f (m_fs s)) with
      | SHang => Stop Hang WHang s1
      | r => Ret r (set_fs s1 (fst (f (m_fs s))))
      end.
  Proof. apply sys_gen_nf. Qed.

  Definition eff_cleanup (q : option path) (f : fs) : fs :=
    match q with Some p => fst (sys_unlink f p) | None => f end.

  Lemma cleanup_nf s :
    exists s', cleanup [] s = Ret tt s' /\ m_fs s' = eff_cleanup (m_opathn s) (m_fs s) /\
               m_opathn s' = None /\ m_hist s' = m_hist s /\ m_blocked s' = m_blocked s /\
               m_warned s' = m_warned s.
  Proof.
    unfold cleanup. destruct (m_opathn s) as [q|] eqn:E.
    - unfold bind. destruct (sys_gen_nf (A:=unit) (ret tt) false KUnlink (fun f => sys_unlink f q) s) as (s1 & F & Ef & R).
      rewrite R. clear R.
      destruct (unlink_result (m_fs s) q) as [[H1 H2]|[e [H1 H2]]]; rewrite H1; cbn.
      + eexists. split; [reflexivity|]. cbn. destruct F as (? & ? & ? & ? & ? & ?).
        rewrite orb_false_r in *. tauto.
      + eexists. split; [reflexivity|]. cbn. destruct F as (? & ? & ? & ? & ? & ?).
        rewrite orb_false_r in *. tauto.
    - eexists. split; [reflexivity|]. cbn. rewrite E. tauto.
  Qed.

  Lemma fatal_nf {A} tag s :
    exists s', fatal [] (A:=A) tag s = Stop (Exit bailout_exit) (WFatal tag) s' /\
               m_fs s' = eff_cleanup (m_opathn s) (m_fs s) /\ m_hist s' = m_hist s.
  Proof.
    unfold fatal, bind, say, modify.
    destruct (cleanup_nf (add_msg s MFail tag)) as (s' & R & Ef & Eo & Eh & _).
    rewrite R. cbn. eexists. split; [reflexivity|]. cbn in *. tauto.
  Qed.

  Lemma warn_nf tag s : exists s', warn tag s = Ret tt s' /\ fr true s s' /\ m_fs s' = m_fs s.
  Proof. eexists. split; [reflexivity|]. split; [frt | reflexivity]. Qed.

  Lemma fstat_not_hang f i : sys_fstat f i <> SHang.
  Proof. unfold sys_fstat. destruct (ilook f i); discriminate. Qed.
  Lemma lstat_not_hang f p : sys_lstat f p <> SHang.
  Proof. unfold sys_lstat. destruct (nlook f p) as [[i|t]|]; try discriminate. destruct (ilook f i); discriminate. Qed.

  Ltac crunch :=
    repeat (cbn [fst snd m_fs m_opathn m_blocked m_pint m_pterm m_hist m_warned m_cnt m_msgs m_rmfail m_cleanfail
                 set_fs set_cnt add_msg set_opathn set_blocked set_pending set_rmfail set_cleanfail push_hist
                 plan_lookup];
            match goal with
            | |- context [match ?x with _ => _ end] =>
                lazymatch x with
                | context [match _ with _ => _ end] => fail
                | _ => destruct x eqn:?
                end
            end).

  Lemma input_init_nf op s :
      match eff_input_init cf op (m_fs s) with
      | IISkip t => exists s', input_init cf [] op s = Ret (inl t) s' /\ fr true s s' /\ m_fs s' = m_fs s
      | IIOk i st => exists s', input_init cf [] op s = Ret (inr (i, st)) s' /\ fr false s s' /\ m_fs s' = m_fs s
      | IIHang => exists s', input_init cf [] op s = Stop Hang WHang s' /\ fr false s s' /\ m_fs s' = m_fs s
      end.
  Proof.
    unfold input_init, eff_input_init, is_regf, bind, sys, sys_gen, ret, warn, say, modify, fatal, stop, sys_close_nop.
    crunch.
    all: try (eexists; split; [reflexivity|]; split; [frt | reflexivity]).
    all: exfalso; first [eapply fstat_not_hang; eassumption | eapply lstat_not_hang; eassumption].
  Qed.

  Lemma bind_Ret {A B} (c : M A) (f : A -> M B) s a s' : c s = Ret a s' -> bind c f s = f a s'.
  Proof. unfold bind. intros ->. reflexivity. Qed.
  Lemma bind_Stop {A B} (c : M A) (f : A -> M B) s o w s' : c s = Stop o w s' -> bind c f s = Stop o w s'.
  Proof. unfold bind. intros ->. reflexivity. Qed.

  Lemma do_write_nf inhalt o c s :
    exists s', do_write cf [] inhalt o c s = Ret tt s' /\ fr false s s' /\ m_fs s' = eff_write cf o c (m_fs s).
  Proof.
    unfold do_write, eff_write, bind, sys, sys_gen, ret, sys_write, sys_write_stdout.
    destruct c; [eexists; split; [reflexivity|]; split; [frt|reflexivity]|].
    destruct o; crunch; eexists; (split; [reflexivity|]); (split; [frt|reflexivity]).
  Qed.

  (* a fatal end: message, cleanup(), exit status EX_FAIL *)
  Definition fatal_res {A} (r : res A) (tag : string) (s0 : mstate) (f : fs) : Prop :=
    exists s', r = Stop (Exit bailout_exit) (WFatal tag) s' /\ m_fs s' = eff_cleanup (m_opathn s0) f /\
               m_hist s' = m_hist s0.

  Lemma fatal_nf' {A} tag s s0 f :
    m_fs s = f -> m_opathn s = m_opathn s0 -> m_hist s = m_hist s0 ->
    fatal_res (fatal [] (A:=A) tag s) tag s0 f.
  Proof.
    intros E0 E1 E2. destruct (fatal_nf (A:=A) tag s) as (s' & R & Ef & Eh).
    exists s'. rewrite R, Ef, Eh, E0, E1, E2. auto.
  Qed.

  Lemma do_io_nf iin o evs : forall s,
    match eff_io cf iin o evs (m_fs s) with
    | (f', true) => exists s', do_io cf [] iin o evs s = Ret tt s' /\ fr false s s' /\ m_fs s' = f'
    | (f', false) => fatal_res (do_io cf [] iin o evs s) "read" s f'
    end.
  Proof.
    induction evs as [|[|c] evs IH]; intro s; cbn [eff_io do_io].
    - eexists. split; [reflexivity|]. split; [apply fr_refl | reflexivity].
    - destruct (sys_nf (A:=unit) true KRead (fun f => sys_read f iin) s) as (s1 & F1 & E1 & R1).
      destruct (snd (sys_read (m_fs s) iin)) eqn:Er.
      + rewrite (bind_Ret _ _ _ _ _ R1).
        assert (Efs : fst (sys_read (m_fs s) iin) = m_fs s).
        { unfold sys_read. destruct (ilook (m_fs s) iin) as [nd|]; [destruct (i_kind nd)|]; reflexivity. }
        specialize (IH (set_fs s1 (fst (sys_read (m_fs s) iin)))). cbn [m_fs set_fs] in IH. rewrite Efs in *.
        destruct (eff_io cf iin o evs (m_fs s)) as [f' [|]].
        * destruct IH as (s' & R & F & E). exists s'. split; [exact R|]. split; [|exact E].
          unfold fr in *. cbn in *. rewrite orb_false_r in *. intuition congruence.
        * destruct IH as (s' & R & E & H). exists s'. split; [exact R|]. cbn in *.
          destruct F1 as (-> & _ & _ & _ & -> & _) in E, H. tauto.
      + rewrite (bind_Ret _ _ _ _ _ R1).
        assert (Efs : fst (sys_read (m_fs s) iin) = m_fs s).
        { unfold sys_read. destruct (ilook (m_fs s) iin) as [nd|]; [destruct (i_kind nd)|]; reflexivity. }
        apply fatal_nf'; cbn; destruct F1 as (? & _ & _ & _ & ? & _); auto.
      + exfalso. unfold sys_read in Er. destruct (ilook (m_fs s) iin) as [nd|]; [destruct (i_kind nd)|]; discriminate.
    - destruct (do_write_nf true o c s) as (s1 & R1 & F1 & E1).
      rewrite (bind_Ret _ _ _ _ _ R1). specialize (IH s1). rewrite E1 in IH.
      destruct (eff_io cf iin o evs (eff_write cf o c (m_fs s))) as [f' [|]].
      + destruct IH as (s' & R & F & E). exists s'. split; [exact R|]. split; [|exact E].
        replace false with (false || false) by reflexivity. eapply fr_trans; eauto.
      + destruct IH as (s' & R & E & H). exists s'. split; [exact R|].
        destruct F1 as (-> & _ & _ & _ & -> & _) in E, H. tauto.
  Qed.

  Lemma main_reads_nf iin n : forall s,
    if eff_main_reads n iin (m_fs s)
    then exists s', main_reads [] n iin s = Ret tt s' /\ fr false s s' /\ m_fs s' = m_fs s
    else fatal_res (main_reads [] n iin s) "read" s (m_fs s).
  Proof.
    induction n as [|n IH]; intro s; cbn [eff_main_reads main_reads].
    - eexists. split; [reflexivity|]. split; [apply fr_refl | reflexivity].
    - destruct (sys_nf (A:=unit) false KRead (fun f => sys_read f iin) s) as (s1 & F1 & E1 & R1).
      assert (Efs : fst (sys_read (m_fs s) iin) = m_fs s).
      { unfold sys_read. destruct (ilook (m_fs s) iin) as [nd|]; [destruct (i_kind nd)|]; reflexivity. }
      destruct (snd (sys_read (m_fs s) iin)) eqn:Er.
      + rewrite (bind_Ret _ _ _ _ _ R1).
        specialize (IH (set_fs s1 (fst (sys_read (m_fs s) iin)))). cbn [m_fs set_fs] in IH. rewrite Efs in *.
        destruct (eff_main_reads n iin (m_fs s)).
        * destruct IH as (s' & R & F & E). exists s'. split; [exact R|]. split; [|exact E].
          unfold fr in *. cbn in *. rewrite orb_false_r in *. intuition congruence.
        * destruct IH as (s' & R & E & H). exists s'. split; [exact R|]. cbn in *.
          destruct F1 as (-> & _ & _ & _ & -> & _) in E, H. tauto.
      + rewrite (bind_Ret _ _ _ _ _ R1).
        apply fatal_nf'; cbn; destruct F1 as (? & _ & _ & _ & ? & _); auto.
      + exfalso. unfold sys_read in Er. destruct (ilook (m_fs s) iin) as [nd|]; [destruct (i_kind nd)|]; discriminate.
  Qed.

  Lemma halt_entry_nf s : m_pint s = false -> m_pterm s = false -> halt_entry [] s = Ret tt s.
  Proof. intros A B. unfold halt_entry. rewrite A, B. reflexivity. Qed.

  Lemma schedule_nf iin o isdir cr s :
    m_pint s = false -> m_pterm s = false ->
    match eff_schedule cf iin o isdir cr (m_fs s) with
    | (f', None) => exists s', schedule cf [] iin o isdir cr s = Ret tt s' /\ fr false s s' /\ m_fs s' = f'
    | (f', Some tag) => fatal_res (schedule cf [] iin o isdir cr s) tag s f'
    end.
  Proof.
    intros A B. unfold schedule, eff_schedule.
    rewrite (bind_Ret _ _ _ _ _ (halt_entry_nf s A B)).
    pose proof (do_io_nf iin o (if isdir then [IoRead] else c_io cr) s) as H.
    destruct (eff_io cf iin o (if isdir then [IoRead] else c_io cr) (m_fs s)) as [f' [|]].
    - destruct H as (s1 & R1 & F1 & E1). rewrite (bind_Ret _ _ _ _ _ R1).
      destruct (c_ok cr || isdir).
      + exists s1. split; [reflexivity|]. split; assumption.
      + apply fatal_nf'; destruct F1 as (? & _ & _ & _ & ? & _); auto.
    - destruct H as (s1 & R1 & E1 & H1). rewrite (bind_Stop _ _ _ _ _ _ R1). exists s1. auto.
  Qed.

  Lemma work_nf iin o s :
    m_pint s = false -> m_pterm s = false ->
    match eff_work codec cf iin o (m_fs s) with
    | (f', None) => exists s', work codec cf [] iin o s = Ret tt s' /\ fr false s s' /\ m_fs s' = f'
    | (f', Some tag) => fatal_res (work codec cf [] iin o s) tag s f'
    end.
  Proof.
    intros A B. unfold work, eff_work.
    destruct (c_decompress cf).
    - pose proof (main_reads_nf iin (hdr_reads (input_data (m_fs s) iin)) s) as H.
      destruct (eff_main_reads (hdr_reads (input_data (m_fs s) iin)) iin (m_fs s)).
      + destruct H as (s1 & R1 & F1 & E1). rewrite (bind_Ret _ _ _ _ _ R1).
        assert (A1 : m_pint s1 = false) by (destruct F1 as (_ & _ & -> & _); auto).
        assert (B1 : m_pterm s1 = false) by (destruct F1 as (_ & _ & _ & -> & _); auto).
        destruct (hdr_ok (input_data (m_fs s) iin)).
        * pose proof (schedule_nf iin o (input_is_dir (m_fs s) iin) (codec CExpand (input_data (m_fs s) iin)) s1 A1 B1) as H.
          rewrite E1 in H.
          destruct (eff_schedule cf iin o (input_is_dir (m_fs s) iin) (codec CExpand (input_data (m_fs s) iin)) (m_fs s)) as [f' [tag|]].
          -- destruct H as (s' & R & E & Hh). exists s'. split; [exact R|].
             destruct F1 as (-> & _ & _ & _ & -> & _) in E, Hh. tauto.
          -- destruct H as (s' & R & F & E). exists s'. split; [exact R|]. split; [|exact E].
             replace false with (false || false) by reflexivity. eapply fr_trans; eauto.
        * destruct (c_force cf && is_stdout o).
          -- destruct (do_write_nf false o (firstn 4 (input_data (m_fs s) iin)) s1) as (s2 & R2 & F2 & E2).
             rewrite (bind_Ret _ _ _ _ _ R2).
             assert (A2 : m_pint s2 = false) by (destruct F2 as (_ & _ & -> & _); auto).
             assert (B2 : m_pterm s2 = false) by (destruct F2 as (_ & _ & _ & -> & _); auto).
             pose proof (schedule_nf iin o (input_is_dir (m_fs s) iin) (codec CCopy (skipn 4 (input_data (m_fs s) iin))) s2 A2 B2) as H.
             rewrite E2, E1 in H.
             destruct (eff_schedule cf iin o (input_is_dir (m_fs s) iin) (codec CCopy (skipn 4 (input_data (m_fs s) iin)))
                                    (eff_write cf o (firstn 4 (input_data (m_fs s) iin)) (m_fs s))) as [f' [tag|]].
             ++ destruct H as (s' & R & E & Hh). exists s'. split; [exact R|].
                destruct F2 as (-> & _ & _ & _ & -> & _) in E, Hh.
                destruct F1 as (-> & _ & _ & _ & -> & _) in E, Hh. tauto.
             ++ destruct H as (s' & R & F & E). exists s'. split; [exact R|]. split; [|exact E].
                replace false with (false || (false || false)) by reflexivity.
                eapply fr_trans; [exact F1|]. eapply fr_trans; eauto.
          -- apply fatal_nf'; destruct F1 as (? & _ & _ & _ & ? & _); auto.
      + destruct H as (s1 & R1 & E1 & H1). rewrite (bind_Stop _ _ _ _ _ _ R1). exists s1. auto.
    - apply schedule_nf; assumption.
  Qed.
  (* frame without opathn *)
  Definition fr2 (w : bool) (s s' : mstate) : Prop :=
    m_blocked s' = m_blocked s /\ m_pint s' = m_pint s /\
    m_pterm s' = m_pterm s /\ m_hist s' = m_hist s /\ m_warned s' = (m_warned s || w).

  Ltac frt2 := unfold fr2, fr; cbn; rewrite ?orb_false_r, ?orb_true_r; tauto.

  Definition creat_part (q : path) (st : stat) : M (option odst) :=
    r <- sys [] false KOpen (fun f => sys_creat_excl f q (N.land (st_mode st) open_out_mode_mask)
                                                      (c_uid cf) (c_gid cf) (c_now cf)) ;;
    match r with
    | SOk i => modify (fun s => set_opathn s (Some q)) ;;; ret (Some (OFile i))
    | _ => warn "open-out" ;;; ret None
    end.

  Lemma creat_part_nf q st s :
    match sys_creat_excl (m_fs s) q (N.land (st_mode st) open_out_mode_mask) (c_uid cf) (c_gid cf) (c_now cf) with
    | (f2, SOk iout) =>
        exists s', creat_part q st s = Ret (Some (OFile iout)) s' /\ m_fs s' = f2 /\
                   m_opathn s' = Some q /\ fr2 false s s'
    | (f2, _) =>
        exists s', creat_part q st s = Ret None s' /\ m_fs s' = m_fs s /\ fr true s s'
    end.
  Proof.
    unfold creat_part.
    destruct (sys_nf false KOpen (fun f => sys_creat_excl f q (N.land (st_mode st) open_out_mode_mask)
                                             (c_uid cf) (c_gid cf) (c_now cf)) s) as (s3 & F3 & E3 & R3).
    destruct (sys_creat_excl (m_fs s) q (N.land (st_mode st) open_out_mode_mask) (c_uid cf) (c_gid cf) (c_now cf))
      as [f2 r] eqn:Ec.
    cbn [fst snd] in R3. destruct r as [i|e|].
    - rewrite (bind_Ret _ _ _ _ _ R3). eexists. split; [reflexivity|]. cbn.
      unfold fr, fr2 in *. cbn. rewrite orb_false_r in *. tauto.
    - rewrite (bind_Ret _ _ _ _ _ R3). eexists. split; [reflexivity|]. cbn.
      assert (f2 = m_fs s) as ->.
      { pose proof (creat_err (m_fs s) q (N.land (st_mode st) open_out_mode_mask) (c_uid cf) (c_gid cf) (c_now cf) e) as H.
        rewrite Ec in H. apply H. reflexivity. }
      split; [reflexivity|]. unfold fr in *. cbn. rewrite orb_false_r in *. rewrite orb_true_r. tauto.
    - exfalso. eapply creat_not_hang. rewrite Ec. reflexivity.
  Qed.

  Lemma output_init_nf op st s :
    match c_outmode cf with
    | OmStdout => output_init cf [] op st s = Ret (Some OStdout) s
    | OmDiscard => output_init cf [] op st s = Ret (Some ODiscard) s
    | OmRegf =>
        match out_name (c_decompress cf) op with
        | None => fatal_res (output_init cf [] op st s) "nosuffix" s (m_fs s)
        | Some q =>
            if c_force cf && output_init_checks_same_file && same_file (m_fs s) q st
            then exists s', output_init cf [] op st s = Ret None s' /\ m_fs s' = m_fs s /\ fr true s s'
            else
            let f1 := if c_force cf then fst (sys_unlink (m_fs s) q) else m_fs s in
            match sys_creat_excl f1 q (N.land (st_mode st) open_out_mode_mask) (c_uid cf) (c_gid cf) (c_now cf) with
            | (f2, SOk iout) =>
                exists s', output_init cf [] op st s = Ret (Some (OFile iout)) s' /\ m_fs s' = f2 /\
                           m_opathn s' = Some q /\ fr2 false s s'
            | (f2, _) =>
                exists s', output_init cf [] op st s = Ret None s' /\ m_fs s' = f1 /\ fr true s s'
            end
        end
    end.
  Proof.
    unfold output_init. destruct (c_outmode cf); try reflexivity.
    destruct (out_name (c_decompress cf) op) as [q|].
    2:{ apply fatal_nf'; reflexivity. }
    cbv beta. destruct (c_force cf && output_init_checks_same_file && same_file (m_fs s) q st) eqn:Esf.
    { eexists. split; [reflexivity|]. split; [reflexivity|]. frt. }
    cbv zeta. fold (creat_part q st).
    assert (Hs : exists s2, ((if c_force cf
                              then r <- sys [] false KUnlink (fun f => sys_unlink f q);;
                                   match r with
                                   | SErr e => if N.eqb e ENOENT then ret tt else say MInfo "unlink-out"
                                   | _ => ret tt
                                   end
                              else ret tt) s) = Ret tt s2 /\ fr false s s2 /\
                            m_fs s2 = (if c_force cf then fst (sys_unlink (m_fs s) q) else m_fs s)).
    { destruct (c_force cf).
      - destruct (sys_nf (A:=unit) false KUnlink (fun f => sys_unlink f q) s) as (s1 & F1 & E1 & R1).
        destruct (unlink_result (m_fs s) q) as [[H1 H2]|[e [H1 H2]]]; rewrite H1 in R1;
          rewrite (bind_Ret _ _ _ _ _ R1).
        + eexists. split; [reflexivity|]. split; [|reflexivity]. unfold fr in *. cbn. tauto.
        + destruct (N.eqb e ENOENT); (eexists; split; [reflexivity|]; split; [|reflexivity]);
            unfold fr in *; cbn; tauto.
      - exists s. split; [reflexivity|]. split; [apply fr_refl|reflexivity]. }
    destruct Hs as (s2 & R2 & F2 & E2). rewrite (bind_Ret _ _ _ _ _ R2).
    pose proof (creat_part_nf q st s2) as H. rewrite E2 in H.
    destruct (sys_creat_excl (if c_force cf then fst (sys_unlink (m_fs s) q) else m_fs s) q
                (N.land (st_mode st) open_out_mode_mask) (c_uid cf) (c_gid cf) (c_now cf)) as [f2 [i|e|]].
    - destruct H as (s' & R & E & Eo & F). exists s'. split; [exact R|]. split; [exact E|]. split; [exact Eo|].
      unfold fr, fr2 in *. rewrite orb_false_r in *. intuition congruence.
    - destruct H as (s' & R & E & F). exists s'. split; [exact R|]. split; [exact E|].
      replace true with (false || true) by reflexivity. eapply fr_trans; eauto.
    - destruct H as (s' & R & E & F). exists s'. split; [exact R|]. split; [exact E|].
      replace true with (false || true) by reflexivity. eapply fr_trans; eauto.
  Qed.

  Lemma regf_uninit_nf iout st s :
    exists s', regf_uninit [] iout st s = Ret tt s' /\
               m_fs s' = fst (eff_regf_uninit iout st (m_fs s)) /\ m_opathn s' = None /\
               fr2 (snd (eff_regf_uninit iout st (m_fs s))) s s'.
  Proof.
    unfold regf_uninit, eff_regf_uninit, bind, sys, sys_gen, ret, warn, say, modify, fatal, stop,
      sys_fchown, sys_fchmod, sys_futimens, sys_close_out.
    crunch; eexists; (split; [reflexivity|]); cbn; (split; [reflexivity|]); (split; [reflexivity|]); frt2.
  Qed.

  Lemma oprnd_rm_nf op s :
    exists s', oprnd_rm [] op s = Ret tt s' /\ m_fs s' = fst (eff_oprnd_rm op (m_fs s)) /\
               fr (snd (eff_oprnd_rm op (m_fs s))) s s'.
  Proof.
    unfold oprnd_rm, eff_oprnd_rm.
    destruct (sys_nf (A:=unit) false KUnlink (fun f => sys_unlink f op) s) as (s1 & F1 & E1 & R1).
    destruct (sys_unlink (m_fs s) op) as [f' r] eqn:Eu. cbn [fst snd] in *.
    destruct r as [u|e|].
    - rewrite (bind_Ret _ _ _ _ _ R1). eexists. split; [reflexivity|]. cbn. split; [reflexivity|].
      unfold fr in *. cbn. tauto.
    - rewrite (bind_Ret _ _ _ _ _ R1). unfold bind, modify.
      destruct (N.eqb e ENOENT); cbn; (eexists; split; [reflexivity|]); cbn; (split; [reflexivity|]);
        unfold fr in *; cbn; rewrite ?orb_true_r, ?orb_false_r in *; tauto.
    - exfalso. destruct (unlink_result (m_fs s) op) as [[H _]|[e [H _]]]; rewrite Eu in H; discriminate.
  Qed.

  Lemma sti_nf s : m_pint s = false -> m_pterm s = false -> sti s = Ret tt (set_blocked s false).
  Proof. intros A B. unfold sti. rewrite A, B. reflexivity. Qed.

  Lemma input_uninit_nf s :
    exists s', input_uninit [] s = Ret tt s' /\ m_fs s' = m_fs s /\ fr false s s'.
  Proof.
    unfold input_uninit, bind, sys, sys_gen, sys_close_nop, ret. cbn.
    eexists. split; [reflexivity|]. split; [reflexivity|]. frt.
  Qed.
  Definition boundary (s : mstate) : Prop :=
    m_opathn s = None /\ m_blocked s = false /\ m_pint s = false /\ m_pterm s = false.

  (* the tail of run1 after work(): sti(); input_uninit() *)
  Lemma tail_nf (d : disp) s :
    m_pint s = false -> m_pterm s = false -> m_opathn s = None ->
    exists s', (sti ;;; input_uninit [] ;;; ret d) s = Ret d s' /\ m_fs s' = m_fs s /\
               m_warned s' = m_warned s /\ boundary s' /\ m_hist s' = m_hist s.
  Proof.
    intros A B C. rewrite (bind_Ret _ _ _ _ _ (sti_nf s A B)).
    destruct (input_uninit_nf (set_blocked s false)) as (s1 & R1 & E1 & F1).
    rewrite (bind_Ret _ _ _ _ _ R1). exists s1. split; [reflexivity|].
    unfold fr, boundary in *. cbn in *. rewrite orb_false_r in *. intuition congruence.
  Qed.

  Definition res_of_end (e : oend) (s' : mstate) : res disp :=
    match e with ENext d => Ret d s' | EStop o w => Stop o w s' end.

  Lemma run1_nf op s : boundary s ->
    exists s', run1 codec cf [] op s = res_of_end (e_end (op_effect codec cf op (m_fs s))) s' /\
               m_fs s' = e_fs (op_effect codec cf op (m_fs s)) /\ m_hist s' = m_hist s /\
               (forall d, e_end (op_effect codec cf op (m_fs s)) = ENext d ->
                          m_warned s' = (m_warned s || e_warn (op_effect codec cf op (m_fs s))) /\ boundary s').
  Proof.
    intros (Bo & Bb & Bi & Bt). unfold run1, op_effect.
    pose proof (input_init_nf op s) as HI.
    destruct (eff_input_init cf op (m_fs s)) as [t|iin st|].
    - destruct HI as (s1 & R1 & F1 & E1). rewrite (bind_Ret _ _ _ _ _ R1). cbn.
      exists s1. split; [reflexivity|]. unfold fr, boundary in *. intuition congruence.
    - destruct HI as (s1 & R1 & F1 & E1). rewrite (bind_Ret _ _ _ _ _ R1). cbv beta iota.
      rewrite (bind_Ret (modify (fun s0 => set_blocked s0 true)) _ s1 tt (set_blocked s1 true) eq_refl).
      set (s2 := set_blocked s1 true).
      assert (E2 : m_fs s2 = m_fs s) by exact E1.
      assert (O2 : m_opathn s2 = None) by (cbn; unfold fr in F1; intuition congruence).
      assert (I2 : m_pint s2 = false) by (cbn; unfold fr in F1; intuition congruence).
      assert (T2 : m_pterm s2 = false) by (cbn; unfold fr in F1; intuition congruence).
      assert (H2 : m_hist s2 = m_hist s) by (cbn; unfold fr in F1; intuition congruence).
      assert (W2 : m_warned s2 = m_warned s) by (cbn; unfold fr in F1; rewrite orb_false_r in F1; intuition congruence).
      clearbody s2.
      pose proof (output_init_nf op st s2) as HO. rewrite E2 in HO.
      assert (Hnr : forall o, is_stdout o = true \/ o = ODiscard ->
                 output_init cf [] op st s2 = Ret (Some o) s2 ->
                 exists s',
                   (oo <- output_init cf [] op st;;
                    d <- match oo with
                         | Some o0 => work codec cf [] iin o0;;;
                                      match o0 with
                                      | OFile iout => regf_uninit [] iout st;;; (if c_keep cf then ret tt else oprnd_rm [] op)
                                      | _ => ret tt
                                      end;;; ret DDone
                         | None => ret (DSkipped "open-out")
                         end;; sti;;; input_uninit [];;; ret d) s2 =
                   res_of_end (e_end (let (f3, o0) := eff_work codec cf iin o (m_fs s) in
                                      match o0 with
                                      | Some tag => {| e_fs := f3; e_warn := false; e_end := fatal_end tag |}
                                      | None => {| e_fs := f3; e_warn := false; e_end := ENext DDone |}
                                      end)) s' /\
                   m_fs s' = e_fs (let (f3, o0) := eff_work codec cf iin o (m_fs s) in
                                   match o0 with
                                   | Some tag => {| e_fs := f3; e_warn := false; e_end := fatal_end tag |}
                                   | None => {| e_fs := f3; e_warn := false; e_end := ENext DDone |}
                                   end) /\ m_hist s' = m_hist s /\
                   (forall d, e_end (let (f3, o0) := eff_work codec cf iin o (m_fs s) in
                                     match o0 with
                                     | Some tag => {| e_fs := f3; e_warn := false; e_end := fatal_end tag |}
                                     | None => {| e_fs := f3; e_warn := false; e_end := ENext DDone |}
                                     end) = ENext d ->
                              m_warned s' = (m_warned s || e_warn (let (f3, o0) := eff_work codec cf iin o (m_fs s) in
                                     match o0 with
                                     | Some tag => {| e_fs := f3; e_warn := false; e_end := fatal_end tag |}
                                     | None => {| e_fs := f3; e_warn := false; e_end := ENext DDone |}
                                     end)) /\ boundary s')).
      { intros o Ho HO'. rewrite (bind_Ret _ _ _ _ _ HO'). cbv beta iota.
        pose proof (work_nf iin o s2 I2 T2) as HW. rewrite E2 in HW.
        destruct (eff_work codec cf iin o (m_fs s)) as [f3 [tag|]]; cbn [e_end e_fs e_warn fatal_end res_of_end].
        - destruct HW as (s3 & R3 & E3 & H3).
          rewrite (bind_Stop _ _ _ _ _ _ (bind_Stop _ _ _ _ _ _ R3)).
          exists s3. split; [reflexivity|]. rewrite O2 in E3. cbn in E3.
          split; [congruence|]. split; [congruence|]. intros d Hd. discriminate.
        - destruct HW as (s3 & R3 & F3 & E3).
          assert (RR : (work codec cf [] iin o;;;
                        match o with
                        | OFile iout => regf_uninit [] iout st;;; (if c_keep cf then ret tt else oprnd_rm [] op)
                        | _ => ret tt
                        end;;; ret DDone) s2 = Ret DDone s3).
          { rewrite (bind_Ret _ _ _ _ _ R3). destruct Ho as [Ho| ->]; [destruct o; try discriminate|]; reflexivity. }
          rewrite (bind_Ret _ _ _ _ _ RR).
          destruct (tail_nf DDone s3) as (s4 & R4 & E4 & W4 & B4 & H4);
            try (unfold fr in F3; intuition congruence).
          rewrite R4. exists s4. split; [reflexivity|].
          unfold fr in F3. rewrite orb_false_r in *. intuition congruence. }
      destruct (c_outmode cf) eqn:Eom.
      + apply (Hnr OStdout); auto.
      + apply (Hnr ODiscard); auto.
      + (* regular file output *)
        clear Hnr.
        destruct (out_name (c_decompress cf) op) as [q|]; cbn [e_end e_fs e_warn fatal_end res_of_end].
        2:{ destruct HO as (s3 & R3 & E3 & H3). rewrite (bind_Stop _ _ _ _ _ _ R3).
            exists s3. split; [reflexivity|]. rewrite O2 in E3. cbn in E3.
            split; [congruence|]. split; [congruence|]. intros d Hd. discriminate. }
        destruct (c_force cf && output_init_checks_same_file && same_file (m_fs s) q st) eqn:Esf.
        { destruct HO as (s3 & R3 & E3 & F3). rewrite (bind_Ret _ _ _ _ _ R3). cbv beta iota.
          rewrite (bind_Ret (ret (DSkipped "open-out")) _ s3 _ s3 eq_refl).
          destruct (tail_nf (DSkipped "open-out") s3) as (s4 & R4 & E4 & W4 & B4 & H4);
            try (unfold fr in F3; intuition congruence).
          rewrite R4. exists s4. split; [reflexivity|].
          cbn [e_fs e_warn e_end]. unfold fr in F3. rewrite ?orb_true_r in *. intuition congruence. }
        cbv zeta in HO.
        destruct (sys_creat_excl (if c_force cf then fst (sys_unlink (m_fs s) q) else m_fs s) q
                    (N.land (st_mode st) open_out_mode_mask) (c_uid cf) (c_gid cf) (c_now cf)) as [f2 [iout|e|]].
        * destruct HO as (s3 & R3 & E3 & O3 & F3). rewrite (bind_Ret _ _ _ _ _ R3). cbv beta iota.
          assert (I3 : m_pint s3 = false) by (unfold fr2 in F3; intuition congruence).
          assert (T3 : m_pterm s3 = false) by (unfold fr2 in F3; intuition congruence).
          pose proof (work_nf iin (OFile iout) s3 I3 T3) as HW. rewrite E3 in HW.
          destruct (eff_work codec cf iin (OFile iout) f2) as [f3 [tag|]]; cbn [e_end e_fs e_warn fatal_end res_of_end].
          -- destruct HW as (s4 & R4 & E4 & H4).
             rewrite (bind_Stop _ _ _ _ _ _ (bind_Stop _ _ _ _ _ _ R4)).
             exists s4. split; [reflexivity|]. rewrite O3 in E4. cbn in E4. split; [exact E4|].
             split; [unfold fr2 in F3; intuition congruence|]. intros d Hd. discriminate.
          -- destruct HW as (s4 & R4 & F4 & E4).
             destruct (regf_uninit_nf iout st s4) as (s5 & R5 & E5 & O5 & F5). rewrite E4 in *.
             assert (Hs6 : exists s6, ((if c_keep cf then ret tt else oprnd_rm [] op) s5) = Ret tt s6 /\
                                      m_fs s6 = fst (if c_keep cf then (m_fs s5, false) else eff_oprnd_rm op (m_fs s5)) /\
                                      fr (snd (if c_keep cf then (m_fs s5, false) else eff_oprnd_rm op (m_fs s5))) s5 s6).
             { destruct (c_keep cf).
               - exists s5. split; [reflexivity|]. split; [reflexivity|]. apply fr_refl.
               - apply oprnd_rm_nf. }
             destruct Hs6 as (s6 & R6 & E6 & F6).
             assert (RR : (work codec cf [] iin (OFile iout);;;
                           (regf_uninit [] iout st;;; (if c_keep cf then ret tt else oprnd_rm [] op));;; ret DDone) s3
                          = Ret DDone s6).
             { rewrite (bind_Ret _ _ _ _ _ R4). unfold bind. rewrite R5, R6. reflexivity. }
             rewrite (bind_Ret _ _ _ _ _ RR).
             destruct (tail_nf DDone s6) as (s7 & R7 & E7 & W7 & B7 & H7);
               try (unfold fr, fr2 in *; intuition congruence).
             rewrite R7. exists s7.
             rewrite E5 in E6.
             destruct (eff_regf_uninit iout st f3) as [f4 w1]. cbn [fst snd] in *.
             destruct (if c_keep cf then (f4, false) else eff_oprnd_rm op f4) as [f5 w2] eqn:Ek.
             cbn [e_fs e_warn e_end res_of_end].
             assert (Ek' : (if c_keep cf then (m_fs s5, false) else eff_oprnd_rm op (m_fs s5)) = (f5, w2))
               by (rewrite E5; exact Ek).
             rewrite Ek' in *. cbn [fst snd] in *.
             split; [reflexivity|]. split; [congruence|].
             split; [unfold fr, fr2 in *; intuition congruence|].
             intros d _. split; [|exact B7].
             destruct F6 as (_ & _ & _ & _ & _ & F6). destruct F5 as (_ & _ & _ & _ & F5).
             destruct F4 as (_ & _ & _ & _ & _ & F4). destruct F3 as (_ & _ & _ & _ & F3).
             rewrite W7, F6, F5, F4, F3, W2, ?orb_false_r, orb_assoc. reflexivity.
        * destruct HO as (s3 & R3 & E3 & F3). rewrite (bind_Ret _ _ _ _ _ R3). cbv beta iota.
          rewrite (bind_Ret (ret (DSkipped "open-out")) _ s3 _ s3 eq_refl).
          destruct (tail_nf (DSkipped "open-out") s3) as (s4 & R4 & E4 & W4 & B4 & H4);
            try (unfold fr in F3; intuition congruence).
          rewrite R4. exists s4. split; [reflexivity|].
          cbn [e_fs e_warn e_end]. unfold fr in F3. rewrite ?orb_true_r in *. intuition congruence.
        * destruct HO as (s3 & R3 & E3 & F3). rewrite (bind_Ret _ _ _ _ _ R3). cbv beta iota.
          rewrite (bind_Ret (ret (DSkipped "open-out")) _ s3 _ s3 eq_refl).
          destruct (tail_nf (DSkipped "open-out") s3) as (s4 & R4 & E4 & W4 & B4 & H4);
            try (unfold fr in F3; intuition congruence).
          rewrite R4. exists s4. split; [reflexivity|].
          cbn [e_fs e_warn e_end]. unfold fr in F3. rewrite ?orb_true_r in *. intuition congruence.
    - destruct HI as (s1 & R1 & F1 & E1). rewrite (bind_Stop _ _ _ _ _ _ R1). cbn.
      exists s1. split; [reflexivity|]. unfold fr in *. split; [congruence|]. split; [intuition congruence|].
      intros d Hd. discriminate.
  Qed.
  Lemma run_op_nf op s : boundary s ->
    let e := op_effect codec cf op (m_fs s) in
    exists s' h,
      m_fs s' = e_fs e /\ m_hist s' = h :: m_hist s /\
      h_op h = op /\ h_before h = m_fs s /\ h_after h = e_fs e /\
      match e_end e with
      | ENext d => run_op codec cf [] op s = Ret tt s' /\ h_disp h = d /\
                   m_warned s' = (m_warned s || e_warn e) /\ boundary s'
      | EStop o w => run_op codec cf [] op s = Stop o w s' /\ h_disp h = DAborted w
      end.
  Proof.
    intros B e. unfold run_op.
    set (s0 := set_cleanfail (set_rmfail s false) false).
    assert (B0 : boundary s0) by exact B.
    destruct (run1_nf op s0 B0) as (s1 & R & E & H & W). change (m_fs s0) with (m_fs s) in *.
    fold e in R, E, W. rewrite R.
    destruct (e_end e) as [d|o w]; cbn [res_of_end].
    - exists (push_hist s1 (mk_hentry op s0 s1 d)), (mk_hentry op s0 s1 d).
      destruct (W d eq_refl) as [W1 W2]. cbn. rewrite H.
      repeat split; auto; apply W2.
    - exists (push_hist s1 (mk_hentry op s0 s1 (DAborted w))), (mk_hentry op s0 s1 (DAborted w)).
      cbn. rewrite H. repeat split; auto.
  Qed.

  Lemma finish_nf s :
    exists s', finish cf [] s = (s', Exit (if m_warned s then exit_if_warned else exit_if_clean)) /\
               m_fs s' = m_fs s /\ m_hist s' = m_hist s.
  Proof.
    unfold finish. destruct (c_outmode cf); cbn; eexists; (split; [reflexivity|]); split; reflexivity.
  Qed.

  (* the operand loop without faults is the fold of op_effect *)
  Lemma run_ops_nf ops : forall s, boundary s ->
    let '(s', o) := run_ops codec cf [] ops s in
    (m_fs s', o) = run_effect codec cf ops (m_fs s) (m_warned s).
  Proof.
    induction ops as [|op ops IH]; intros s B; cbn [run_ops run_effect].
    - destruct (finish_nf s) as (s' & R & E & _). rewrite R, E. reflexivity.
    - destruct (run_op_nf op s B) as (s' & h & E & _ & _ & _ & _ & H).
      destruct (e_end (op_effect codec cf op (m_fs s))) as [d|o w].
      + destruct H as (R & _ & W & B'). rewrite R. specialize (IH s' B').
        rewrite E, W in IH. exact IH.
      + destruct H as (R & _). rewrite R, E. reflexivity.
  Qed.

  Lemma init_boundary f : boundary (init_state f).
  Proof. repeat split. Qed.

  Theorem run_is_fold f ops : run codec cf f ops [] = run_effect codec cf ops f false.
  Proof.
    unfold run, run_full. pose proof (run_ops_nf ops (init_state f) (init_boundary f)) as H.
    destruct (run_ops codec cf [] ops (init_state f)) as [s o]. exact H.
  Qed.
End NF.
