(* Extraction of the array-level deque / heap model (Safe/PoolModel.v over Gen/PoolTab.v): ExtrOcamlBasic only. *)
From Coq Require Import Extraction ExtrOcamlBasic.
From LBZ Require Import Safe.PoolVocab Gen.PoolTab Safe.PoolModel.
Extraction Language OCaml.
Extraction "Extract/ml/pool_model.ml" dq_init dq_uninit q_size q_empty dq_get dq_set dq_shift dq_unshift dq_push dq_pop
  pq_init pq_uninit pq_peek pq_enqueue pq_dequeue UMOD.
