(* Extraction of the I/O-failure state machine (C21): ExtrOcamlBasic only. *)
From Coq Require Import Extraction ExtrOcamlBasic.
From LBZ Require Import Gen.IoFailTab IoFail.IoFailModel.
Extraction Language OCaml.
Extraction "Extract/ml/iofail_model.ml" run_fault predict gen_check_all structure_ok mu gen_cfg gen_mu_bound.
