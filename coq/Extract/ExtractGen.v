(* Extraction of the generate_prefix_code model (Enc/GenModel.v): ExtrOcamlBasic only. *)
From Coq Require Import Extraction ExtrOcamlBasic.
From LBZ Require Import Gen.Consts Enc.PmModel Enc.GenModel.
Extraction Language OCaml.
Extraction "Extract/ml/gen_model.ml" gen_prefix_code make_code_lengths generate_initial_trees sym_freq choose_nt
  find_best_tree len_pack cl0_of dummy_row
  MAX_TREES GROUP_SIZE MAX_HUFF_CODE_LENGTH MIN_ALPHA_SIZE MAX_ALPHA_SIZE enc_selector_size nt_thresholds.
