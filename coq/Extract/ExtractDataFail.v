(* Extraction of the data-error roles of the fatal-exit state machine (C07, process level):
   ExtrOcamlBasic only (strings stay the inductive Coq [string]/[ascii], numbers binary [N]). *)
From Coq Require Import Extraction ExtrOcamlBasic.
From LBZ Require Import Gen.IoFailTab Gen.DataFailTab IoFail.IoFailModel IoFail.DataFail.
Extraction Language OCaml.
Extraction "Extract/ml/datafail_model.ml" run_data data_predict data_sites on_main site_admits site_message
  render_line code_of_name err2str gen_dcheck_all data_structure_ok no_warning_site no_warn_call_in_decompression
  data_init mu gen_cfg final_status decomp_log_calls lock_held_at expansion_tasks.
