(* Extraction of the compression scheduler model: ExtrOcamlBasic only. *)
From Coq Require Import Extraction ExtrOcamlBasic.
From LBZ Require Import SchedC.SchedCIface Gen.SchedCTab SchedC.Pool SchedC.SchedC SchedC.SchedCMemDef.
Extraction Language OCaml.
Extraction "Extract/ml/schedc_model.ml" step_obs init final view select finished
  total_in total_out in_granul cap_coll cap_trans cap_reord cap_output B.
