(* Extraction of the sliding-list inverse-MTF model (C08): ExtrOcamlBasic only. *)
From Coq Require Import Extraction ExtrOcamlBasic.
From LBZ Require Import Gen.DecTabs Safe.SlideModel.
Extraction Language OCaml.
Extraction "Extract/ml/safe_slide_model.ml" mtf_one_c slide_init_c absl s_slide s_rows.
