(* Extraction of the array-level make_tree()/decode-sequence model: ExtrOcamlBasic only. *)
From Coq Require Import Extraction ExtrOcamlBasic.
From LBZ Require Import Gen.Consts Gen.DecTabs Safe.TreeModel.
Extraction Language OCaml.
Extraction "Extract/ml/safe_tree_model.ml" make_tree tree_decode verdict_code garbage_tree pad_len
  START_SIZE BASE_SIZE COUNT_SIZE PERM_SIZE LEN_SIZE RUN_A RUN_B EOB HUFF_START_WIDTH
  E_ERR_INCOMPLT E_ERR_PREFIX MAX_TREES.
