(* Extraction of the operand-loop model: ExtrOcamlBasic only. *)
From Coq Require Import Extraction ExtrOcamlBasic.
From LBZ Require Import Gen.FrontTab Front.FsModel Front.MainLoop.
Extraction Language OCaml.
Extraction "Extract/ml/front_model.ml" run_full listing out_name is_compressed_name hdr_ok.
