(* Extraction of the statement-level model of retrieve() (Safe/RetrModel.v): ExtrOcamlBasic only. *)
From Coq Require Import Extraction ExtrOcamlBasic.
From LBZ Require Import Safe.RetrModel.
Extraction Language OCaml.
Extraction "Extract/ml/retr_model.ml" retrieve retr_chunks attach attach_eof init_state junk_core.
