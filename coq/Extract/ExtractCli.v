(* Extraction of the command-line model: ExtrOcamlBasic only (strings stay the
   inductive Coq [string]/[ascii], numbers stay binary [N]). *)
From Coq Require Import Extraction ExtrOcamlBasic.
From LBZ Require Import Gen.CliTab Cli.CliModel.
Extraction Language OCaml.
Extraction "Extract/ml/cli_model.ml" main_model parse_cli opts_setup effective tokens env_tokens ev_name xstrtol.
