(* Extraction of the decode()/emit() array-level model: ExtrOcamlBasic only. *)
From Coq Require Import Extraction ExtrOcamlBasic.
From LBZ Require Import Safe.EmitModel.
Extraction Language OCaml.
Extraction "Extract/ml/safe_emit_model.ml" decode_model emit_model ftab_of.
