(* Extraction of the lockset checker with the regenerated program: ExtrOcamlBasic only.
   The driver prints the facts and the failing pairs (diagnosis for checks/c12.py). *)
From Coq Require Import Extraction ExtrOcamlBasic.
From LBZ Require Import Lock.LockLang Lock.Lockset Lock.LockConfig Gen.LockProg.
Extraction Language OCaml.
Definition lock_diagnosis := diagnose program classes.
Definition lock_verdict := check program classes.
Definition lock_tracked := tracked_list.
Extraction "Extract/ml/lock_model.ml" lock_diagnosis lock_verdict lock_tracked.
