(* Extraction of the package-merge / assign_codes model (Enc/PmModel.v): ExtrOcamlBasic only. *)
From Coq Require Import Extraction ExtrOcamlBasic.
From LBZ Require Import Gen.Consts Enc.PmModel.
Extraction Language OCaml.
Extraction "Extract/ml/pm_model.ml" pm_lengths_res pm_lengths make_leaf_weight package_merge weight_add
  MAX_CODE_LENGTH MAX_ALPHA_SIZE MAX_HUFF_CODE_LENGTH.
