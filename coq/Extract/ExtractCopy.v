(* Extraction of the -cdf pipeline model: ExtrOcamlBasic only. *)
From Coq Require Import Extraction ExtrOcamlBasic.
From LBZ Require Import SchedC.SchedCIface Gen.SchedCTab SchedC.Pool SchedC.Copy.
Extraction Language OCaml.
Extraction "Extract/ml/copy_model.ml" cstep cinit cfinal exit_of reader_chunks cut xwrite.
