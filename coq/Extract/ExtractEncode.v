(* Extraction of the model of encode() (Enc/EncodeModel.v) together with the bit layout of transmit()
   (Enc/EncModel.write_block): ExtrOcamlBasic only. *)
From Coq Require Import Extraction ExtrOcamlBasic.
From LBZ Require Import Gen.Consts Enc.EncModel Enc.PmModel Enc.GenModel Enc.EncodeModel.
Extraction Language OCaml.
Extraction "Extract/ml/encode_model.ml" encode_block_full encode_block write_block witness_ok enc_syms
  table_walk sel_mtf_step SEL_MTF_INIT HEADER_COST CLUSTER_FACTOR enc_selectorMTF_size.
