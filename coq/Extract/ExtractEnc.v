From Coq Require Import Extraction ExtrOcamlBasic.
From LBZ Require Import Dec.Prog Dec.Format Enc.EncModel.
Extraction Language OCaml.
Extraction "Extract/ml/enc_model.ml" witness_ok write_block block_syms bwt_last used_bytes pad_to_byte write_stream.
