(* Extraction of the RLE / block-cutting model and specification: ExtrOcamlBasic only. *)
From Coq Require Import Extraction ExtrOcamlBasic.
From LBZ Require Import Rle.RleModel.
Extraction Language OCaml.
Extraction "Extract/ml/rle_model.ml" collect_call encoder_init finish_block collect_run full
  rle1 greedy_spec spec_blocks cut crc_of.
