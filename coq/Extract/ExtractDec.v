From Coq Require Import Extraction ExtrOcamlBasic.
From LBZ Require Import Dec.Prog Dec.Format Dec.Delta Dec.Policies Dec.Inspect.
Extraction Language OCaml.
Extraction "Extract/ml/dec_model.ml" lbz_decode ref_decode ref_noexc_decode ref_lenient_decode decode_file_info lbz_policy ref_policy tables_prefix_consistent sel_table_ok inspect_file.
