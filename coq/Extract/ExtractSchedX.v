(* Extraction of the decompression scheduler model: ExtrOcamlBasic only. *)
From Coq Require Import Extraction ExtrOcamlBasic.
From LBZ Require Import Gen.Consts SchedX.XState Gen.SchedXTab SchedX.XSet SchedX.XModel.
Extraction Language OCaml.
Extraction "Extract/ml/schedx_model.ml" step run init_state init_dec gen_cfg selects idle_ok can_terminate final
  att_end first_ready unord_q get_unord dbs_ok dbs_norm
  cap_input_q cap_scan_q cap_retr_q cap_emit_q cap_unord_q cap_order_q cap_reord_q.
