(* Extraction of the scanner model: ExtrOcamlBasic only. *)
From Coq Require Import Extraction ExtrOcamlBasic.
From LBZ Require Import Common.Bits Scan.ScanModel.
Extraction Language OCaml.
Extraction "Extract/ml/scan_model.ml" scan apply_skip flat.
