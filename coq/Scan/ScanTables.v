(* The regenerated scanner tables are the KMP automaton of the header magic. *)
From Coq Require Import List NArith Arith Bool Lia.
From LBZ Require Import Common.Bits Gen.ScanTab Scan.ScanModel.
Import ListNotations.

Lemma P_length : length P = 48.
Proof. reflexivity. Qed.

Lemma ACCEPT_is_48 : ACCEPT = 48%N.
Proof. vm_compute. reflexivity. Qed.

(* ---- suffixb / best / border_len ------------------------------------------------ *)
Lemma suffixb_spec u w : suffixb u w = true <-> is_suffix u w.
Proof.
  unfold suffixb. split.
  - intro H. apply andb_true_iff in H as [H1 H2]. apply Nat.leb_le in H1.
    apply bl_eqb_spec in H2. exists (firstn (length w - length u) w).
    rewrite H2 at 2. symmetry. apply firstn_skipn.
  - intros [t ->]. apply andb_true_iff. split.
    + apply Nat.leb_le. rewrite app_length. lia.
    + apply bl_eqb_spec. rewrite app_length.
      replace (length t + length u - length u) with (length t + 0) by lia.
      rewrite skipn_app. replace (length t + 0 - length t) with 0 by lia.
      rewrite (skipn_all2 t) by lia. reflexivity.
Qed.

Definition Border (w : list bool) (k : nat) : Prop := k <= length P /\ is_suffix (firstn k P) w.

Lemma best_spec w k : k <= length P ->
  best w k <= k /\ is_suffix (firstn (best w k) P) w /\
  (forall j, j <= k -> is_suffix (firstn j P) w -> j <= best w k).
Proof.
  induction k as [|k IH]; intro Hk.
  - simpl. repeat split; auto. apply is_suffix_nil.
  - cbn [best]. destruct (suffixb (firstn (S k) P) w) eqn:E.
    + apply suffixb_spec in E. repeat split; auto.
    + destruct IH as [I1 [I2 I3]]; [lia|]. repeat split; auto.
      intros j Hj Hs. destruct (Nat.eq_dec j (S k)) as [->|Hne].
      * apply suffixb_spec in Hs. congruence.
      * apply I3; [lia|exact Hs].
Qed.

Lemma border_len_Border w : Border w (border_len w).
Proof.
  unfold border_len. destruct (best_spec w (length P)) as [H1 [H2 _]]; [lia|]. split; assumption.
Qed.

Lemma border_len_max w j : Border w j -> j <= border_len w.
Proof.
  intros [H1 H2]. unfold border_len. destruct (best_spec w (length P)) as [_ [_ H3]]; [lia|]. apply H3; assumption.
Qed.

Lemma border_len_le w : border_len w <= 48.
Proof. destruct (border_len_Border w) as [H _]. exact H. Qed.

Lemma border_len_unique w k : Border w k -> (forall j, Border w j -> j <= k) -> border_len w = k.
Proof.
  intros Hk Hmax. apply Nat.le_antisymm.
  - apply Hmax. apply border_len_Border.
  - apply border_len_max. exact Hk.
Qed.

Lemma firstn_P_all : firstn 48 P = P.
Proof. reflexivity. Qed.

Lemma full_border_iff w : border_len w = 48 <-> is_suffix P w.
Proof.
  split.
  - intro H. destruct (border_len_Border w) as [_ Hs]. rewrite H, firstn_P_all in Hs. exact Hs.
  - intro H. apply Nat.le_antisymm; [apply border_len_le|].
    apply border_len_max. split; [rewrite P_length; lia|]. rewrite firstn_P_all. exact H.
Qed.

Lemma firstn_S_snoc (k : nat) : k < 48 -> firstn (S k) P = firstn k P ++ [nth k P false].
Proof.
  intro Hk. rewrite <- (firstn_skipn k P) at 1.
  assert (Hl : length (firstn k P) = k) by (rewrite firstn_length, P_length; lia).
  destruct (skipn k P) as [|c r] eqn:E.
  - apply (f_equal (@length bool)) in E. rewrite skipn_length, P_length in E. change (length (@nil bool)) with 0 in E. lia.
  - assert (Hc : nth k P false = c).
    { rewrite <- (firstn_skipn k P) at 1. rewrite app_nth2; rewrite Hl; [|lia].
      rewrite Nat.sub_diag, E. reflexivity. }
    rewrite Hc. replace (S k) with (length (firstn k P) + 1) by lia.
    rewrite firstn_app_2. simpl. reflexivity.
Qed.

(* the KMP step: borders of w++[b] are exactly the borders of (P[0..k) ++ [b]) *)
Lemma border_step w b k : border_len w = k -> k < 48 ->
  border_len (w ++ [b]) = border_len (firstn k P ++ [b]).
Proof.
  intros Hk Hlt. apply border_len_unique.
  - destruct (border_len_Border (firstn k P ++ [b])) as [B1 B2]. split; [exact B1|].
    eapply is_suffix_trans; [exact B2|]. apply is_suffix_snoc.
    destruct (border_len_Border w) as [_ Hs]. rewrite Hk in Hs. exact Hs.
  - intros j [Hj Hs]. apply border_len_max. split; [exact Hj|].
    destruct j as [|j]; [apply is_suffix_nil|].
    rewrite P_length in Hj.
    rewrite firstn_S_snoc in Hs |- * by lia.
    apply is_suffix_snoc_inv in Hs. destruct Hs as [Hs|[u' [Hu Hs]]].
    + destruct (firstn j P); discriminate.
    + apply app_snoc_inj in Hu as [Hu1 Hu2]. subst u'. rewrite Hu2.
      apply is_suffix_snoc.
      assert (Hjk : j <= k).
      { rewrite <- Hk. apply border_len_max. split; [rewrite P_length; lia|exact Hs]. }
      destruct (border_len_Border w) as [_ Hw]. rewrite Hk in Hw.
      eapply is_suffix_common; [exact Hs|exact Hw|].
      rewrite !firstn_length, P_length. lia.
Qed.

(* ---- the regenerated tables ----------------------------------------------------------- *)
Definition mini_table_ok : bool :=
  forallb (fun s => forallb (fun b => N.eqb (mini (N.of_nat s) b) (N.of_nat (mini_spec s b))) [false; true]) (seq 0 48).

Lemma mini_table_ok_true : mini_table_ok = true.
Proof. vm_compute. reflexivity. Qed.

Lemma mini_ok s b : s < 48 -> mini (N.of_nat s) b = N.of_nat (mini_spec s b).
Proof.
  intro Hs. pose proof mini_table_ok_true as H. unfold mini_table_ok in H.
  rewrite forallb_forall in H. specialize (H s). rewrite forallb_forall in H.
  apply N.eqb_eq. apply H; [apply in_seq; lia|]. destruct b; simpl; auto.
Qed.

Definition big_table_ok : bool :=
  forallb (fun s => forallb (fun c =>
      N.eqb (big (N.of_nat s) (N.of_nat c)) (fold_left mini_abs (bits8 (N.of_nat c)) (N.of_nat s)))
    (seq 0 256)) (seq 0 49).

Lemma big_table_ok_true : big_table_ok = true.
Proof. vm_compute. reflexivity. Qed.

Lemma big_ok s c : (s <= 48)%N -> (c < 256)%N -> big s c = fold_left mini_abs (bits8 c) s.
Proof.
  intros Hs Hc. pose proof big_table_ok_true as H. unfold big_table_ok in H.
  rewrite forallb_forall in H. specialize (H (N.to_nat s)). rewrite forallb_forall in H.
  specialize (H ltac:(apply in_seq; lia) (N.to_nat c) ltac:(apply in_seq; lia)).
  rewrite !N2Nat.id in H. apply N.eqb_eq in H. exact H.
Qed.

Lemma mini_spec_le s b : mini_spec s b <= 48.
Proof. apply border_len_le. Qed.

