(* scan() returns the first occurrence of the header magic (plus 32 bits). *)
From Coq Require Import List NArith Arith Bool Lia.
From LBZ Require Import Common.Bits Gen.ScanTab Scan.ScanModel Scan.ScanTables.
Import ListNotations.

(* ---- run_bits ------------------------------------------------------------------------ *)
Definition no_occ_upto (w : list bool) : Prop := forall e, e <= length w -> ~ is_suffix P (firstn e w).

Lemma firstn_app_le {A} (a b : list A) e : e <= length a -> firstn e (a ++ b) = firstn e a.
Proof. intro H. rewrite firstn_app. replace (e - length a) with 0 by lia. simpl. rewrite app_nil_r. reflexivity. Qed.

Lemma no_occ_snoc w b : no_occ_upto w -> ~ is_suffix P (w ++ [b]) -> no_occ_upto (w ++ [b]).
Proof.
  intros Hn Hb e He. rewrite app_length in He. simpl in He.
  destruct (Nat.eq_dec e (length w + 1)) as [->|Hne].
  - rewrite firstn_all2 by (rewrite app_length; simpl; lia). exact Hb.
  - rewrite firstn_app_le by lia. apply Hn. lia.
Qed.

Lemma run_bits_spec bits : forall w k,
  border_len w = k -> k < 48 -> no_occ_upto w ->
  match run_bits (N.of_nat k) bits with
  | inr rest => exists pre, bits = pre ++ rest /\ is_suffix P (w ++ pre) /\ no_occ_upto (w ++ removelast pre) /\ pre <> []
  | inl st => st = N.of_nat (border_len (w ++ bits)) /\ border_len (w ++ bits) < 48 /\ no_occ_upto (w ++ bits)
  end.
Proof.
  induction bits as [|b r IH]; intros w k Hk Hlt Hn.
  - simpl. rewrite app_nil_r. subst k. auto.
  - cbn [run_bits]. rewrite (mini_ok k b Hlt). unfold mini_spec.
    rewrite <- (border_step w b k Hk Hlt).
    destruct (N.eqb_spec (N.of_nat (border_len (w ++ [b]))) ACCEPT) as [E|E].
    + rewrite ACCEPT_is_48 in E. assert (E' : border_len (w ++ [b]) = 48) by lia.
      apply full_border_iff in E'. exists [b]. simpl. rewrite app_nil_r. repeat split; auto. discriminate.
    + rewrite ACCEPT_is_48 in E.
      assert (Hlt' : border_len (w ++ [b]) < 48) by (pose proof (border_len_le (w ++ [b])); lia).
      assert (Hn' : no_occ_upto (w ++ [b])).
      { apply no_occ_snoc; [exact Hn|]. intro Hs. apply full_border_iff in Hs. lia. }
      specialize (IH (w ++ [b]) _ eq_refl Hlt' Hn').
      destruct (run_bits (N.of_nat (border_len (w ++ [b]))) r) as [st|rest].
      * rewrite <- app_assoc in IH. exact IH.
      * destruct IH as [pre [H1 [H2 [H3 H4]]]]. exists (b :: pre). subst r.
        rewrite <- app_assoc in H2. rewrite <- app_assoc in H3. simpl in H2, H3.
        repeat split; auto; [|discriminate].
        destruct pre as [|p pre']; [congruence|]. exact H3.
Qed.

Lemma fold_mini_abs_accept bits : fold_left mini_abs bits ACCEPT = ACCEPT.
Proof. induction bits as [|c r IH]; cbn [fold_left]; auto. Qed.

Lemma run_bits_fold bits : forall st, st <> ACCEPT ->
  match run_bits st bits with
  | inr _ => fold_left mini_abs bits st = ACCEPT
  | inl st' => fold_left mini_abs bits st = st' /\ st' <> ACCEPT
  end.
Proof.
  induction bits as [|b r IH]; intros st Hst; cbn [run_bits fold_left].
  - auto.
  - assert (E0 : mini_abs st b = mini st b).
    { unfold mini_abs. destruct (N.eqb_spec st ACCEPT) as [|_]; [contradiction|reflexivity]. }
    rewrite E0. destruct (N.eqb_spec (mini st b) ACCEPT) as [E|E].
    + rewrite E. apply fold_mini_abs_accept.
    + apply IH. exact E.
Qed.

(* ---- big4 ----------------------------------------------------------------------------- *)
Definition word_ok (w : word) : Prop :=
  let '(a, b, c, d) := w in (a < 256 /\ b < 256 /\ c < 256 /\ d < 256)%N.

Lemma mini_abs_le s b : (s <= 48)%N -> (mini_abs s b <= 48)%N.
Proof.
  intro Hs. unfold mini_abs. rewrite ACCEPT_is_48. destruct (N.eqb_spec s 48); [lia|].
  assert (Hlt : N.to_nat s < 48) by lia.
  pose proof (mini_ok (N.to_nat s) b Hlt) as H. rewrite N2Nat.id in H. rewrite H.
  pose proof (mini_spec_le (N.to_nat s) b). lia.
Qed.

Lemma fold_mini_abs_le bits : forall s, (s <= 48)%N -> (fold_left mini_abs bits s <= 48)%N.
Proof. induction bits as [|b r IH]; intros s Hs; simpl; auto. apply IH. apply mini_abs_le. exact Hs. Qed.

Lemma big4_fold st w : (st <= 48)%N -> word_ok w -> big4 st w = fold_left mini_abs (bits_of_word w) st.
Proof.
  destruct w as [[[a b] c] d]. intros Hs [Ha [Hb [Hc Hd]]]. unfold big4, bits_of_word.
  rewrite !fold_left_app.
  rewrite <- (big_ok st a Hs Ha).
  assert (H1 : (big st a <= 48)%N) by (rewrite (big_ok st a Hs Ha); apply fold_mini_abs_le; exact Hs).
  rewrite <- (big_ok _ b H1 Hb).
  assert (H2 : (big (big st a) b <= 48)%N) by (rewrite (big_ok _ b H1 Hb); apply fold_mini_abs_le; exact H1).
  rewrite <- (big_ok _ c H2 Hc).
  assert (H3 : (big (big (big st a) b) c <= 48)%N) by (rewrite (big_ok _ c H2 Hc); apply fold_mini_abs_le; exact H2).
  rewrite <- (big_ok _ d H3 Hd). reflexivity.
Qed.

(* ---- result specification ------------------------------------------------------------ *)
Definition result_spec (B : list bool) (r : scan_result) : Prop :=
  match r with
  | ScanOK rest => exists e, first_occ_end B e /\ e + 32 <= length B /\ flat rest = skipn (e + 32) B
  | ScanMORE rest => rest = consumed /\ forall e, occ_end B e -> length B < e + 32
  end.

Lemma flat_cons l w ws : flat {| live := l; data := w :: ws |} = l ++ bits_of_word w ++ flat_map bits_of_word ws.
Proof. reflexivity. Qed.

Lemma skipn_app_ge {A} n (a b : list A) : length a <= n -> skipn n (a ++ b) = skipn (n - length a) b.
Proof. intro H. rewrite skipn_app. rewrite (skipn_all2 a) by lia. reflexivity. Qed.

Lemma skipn_app_le {A} n (a b : list A) : n <= length a -> skipn n (a ++ b) = skipn n a ++ b.
Proof. intro H. rewrite skipn_app. replace (n - length a) with 0 by lia. reflexivity. Qed.

(* w' ends exactly with the first occurrence *)
Lemma first_occ_at w' tail : is_suffix P w' -> no_occ_upto (removelast w') -> w' <> [] ->
  first_occ_end (w' ++ tail) (length w').
Proof.
  intros Hs Hn Hne. split.
  - split; [rewrite app_length; lia|]. rewrite firstn_app_le by lia. rewrite firstn_all. exact Hs.
  - intros e' [He1 He2]. destruct (le_lt_dec (length w') e') as [|Hlt]; [assumption|exfalso].
    destruct (exists_last_or_nil w') as [->|[u [c ->]]]; [congruence|].
    rewrite removelast_last in Hn. rewrite app_length in Hlt. simpl in Hlt.
    apply (Hn e'); [lia|]. rewrite <- app_assoc in He2. rewrite firstn_app_le in He2 by lia. exact He2.
Qed.

Lemma finish_spec w' rest ws : is_suffix P w' -> no_occ_upto (removelast w') -> w' <> [] ->
  result_spec (w' ++ rest ++ flat_map bits_of_word ws) (finish rest ws).
Proof.
  intros Hs Hn Hne. pose proof (first_occ_at w' (rest ++ flat_map bits_of_word ws) Hs Hn Hne) as Hf.
  unfold finish. destruct (Nat.leb_spec 32 (length rest)) as [Hl|Hl].
  - exists (length w'). split; [exact Hf|]. split; [rewrite !app_length; lia|].
    unfold flat; simpl. rewrite skipn_app_ge by lia.
    replace (length w' + 32 - length w') with 32 by lia. rewrite skipn_app_le by lia. reflexivity.
  - destruct ws as [|w1 ws'].
    + split; [reflexivity|]. intros e He. destruct Hf as [_ Hmin]. specialize (Hmin e He).
      simpl. rewrite !app_length. simpl. lia.
    + exists (length w'). split; [exact Hf|]. pose proof (bits_of_word_length w1) as Hw.
      split; [simpl; rewrite !app_length; lia|].
      unfold flat; simpl. rewrite skipn_app_ge by lia.
      replace (length w' + 32 - length w') with 32 by lia.
      rewrite app_assoc. rewrite skipn_app_le by (rewrite app_length; lia). reflexivity.
Qed.

Lemma no_occ_result w : no_occ_upto w -> forall e, occ_end w e -> False.
Proof. intros Hn e [H1 H2]. exact (Hn e H1 H2). Qed.

Lemma scan_words_spec ws : Forall word_ok ws -> forall w k,
  border_len w = k -> k < 48 -> no_occ_upto w ->
  result_spec (w ++ flat_map bits_of_word ws) (scan_words (N.of_nat k) ws).
Proof.
  induction ws as [|w1 ws IH]; intros Hok w k Hk Hlt Hn.
  - simpl. rewrite app_nil_r. split; [reflexivity|]. intros e He. exfalso. exact (no_occ_result w Hn e He).
  - inversion Hok as [|? ? Hw1 Hws]; subst. cbn [scan_words flat_map].
    assert (Hst : (N.of_nat (border_len w) <= 48)%N) by lia.
    rewrite (big4_fold _ w1 Hst Hw1).
    assert (Hna : N.of_nat (border_len w) <> ACCEPT) by (rewrite ACCEPT_is_48; lia).
    pose proof (run_bits_fold (bits_of_word w1) (N.of_nat (border_len w)) Hna) as Hf.
    pose proof (run_bits_spec (bits_of_word w1) w _ eq_refl Hlt Hn) as Hr.
    destruct (run_bits (N.of_nat (border_len w)) (bits_of_word w1)) as [st|rest].
    + destruct Hf as [Hf1 Hf2]. rewrite Hf1. destruct (N.eqb_spec st ACCEPT); [contradiction|].
      destruct Hr as [Hr1 [Hr2 Hr3]]. rewrite Hr1. rewrite app_assoc. apply IH; auto.
    + rewrite Hf. rewrite N.eqb_refl. destruct Hr as [pre [Hp1 [Hp2 [Hp3 Hp4]]]].
      rewrite Hp1. rewrite <- app_assoc. rewrite app_assoc. apply finish_spec.
      * exact Hp2.
      * destruct (exists_last_or_nil pre) as [->|[u [c ->]]]; [congruence|].
        rewrite removelast_last in Hp3. rewrite app_assoc, removelast_last. exact Hp3.
      * destruct w; destruct pre; simpl; congruence.
Qed.

Lemma border_len_nil : border_len [] = 0.
Proof. reflexivity. Qed.

Lemma no_occ_nil : no_occ_upto [].
Proof. intros e He Hs. apply is_suffix_length in Hs. rewrite firstn_nil, P_length in Hs. simpl in Hs. lia. Qed.

Theorem scan_from_spec bs : Forall word_ok (data bs) -> result_spec (flat bs) (scan_from bs).
Proof.
  intro Hok. unfold scan_from, flat.
  pose proof (run_bits_spec (live bs) [] 0 border_len_nil ltac:(lia) no_occ_nil) as Hr.
  simpl in Hr. change (N.of_nat 0) with 0%N in Hr.
  destruct (run_bits 0%N (live bs)) as [st|rest].
  - destruct Hr as [Hr1 [Hr2 Hr3]]. subst st. apply scan_words_spec; auto.
  - destruct Hr as [pre [Hp1 [Hp2 [Hp3 Hp4]]]]. rewrite Hp1, <- app_assoc.
    apply finish_spec; auto.
Qed.

(* the skip only ever moves the start forward to a word boundary, never back *)
Lemma apply_skip_suffix bs skip : is_suffix (flat (apply_skip bs skip)) (flat bs).
Proof.
  unfold apply_skip. destruct (Nat.ltb_spec (length (live bs)) skip) as [H|H]; [|apply is_suffix_refl].
  unfold flat; simpl. set (n := (skip - length (live bs) + 31) / 32).
  exists (live bs ++ flat_map bits_of_word (firstn n (data bs))).
  rewrite <- app_assoc. f_equal. rewrite <- flat_map_app. rewrite firstn_skipn. reflexivity.
Qed.

Lemma apply_skip_ok bs skip : Forall word_ok (data bs) -> Forall word_ok (data (apply_skip bs skip)).
Proof.
  intro H. unfold apply_skip. destruct (length (live bs) <? skip); [|exact H]. simpl.
  rewrite <- (firstn_skipn ((skip - length (live bs) + 31) / 32) (data bs)) in H.
  apply Forall_app in H. tauto.
Qed.

Theorem scan_spec bs skip : Forall word_ok (data bs) ->
  result_spec (flat (apply_skip bs skip)) (scan bs skip).
Proof. intro H. apply scan_from_spec. apply apply_skip_ok. exact H. Qed.

(* every occurrence with its 32 following bits inside the block is found *)
Corollary scan_complete bs skip e : Forall word_ok (data bs) ->
  let B := flat (apply_skip bs skip) in
  occ_end B e -> e + 32 <= length B -> exists rest, scan bs skip = ScanOK rest.
Proof.
  intros Hok B He Hl. pose proof (scan_spec bs skip Hok) as H.
  destruct (scan bs skip) as [rest|rest]; [eauto|]. destruct H as [_ H]. specialize (H e He). fold B in H. lia.
Qed.

(* ---- where the scan effectively starts ------------------------------------------------ *)
Definition eff_start (bs : bitstream) (skip : nat) : nat :=
  if length (live bs) <? skip
  then length (live bs) + 32 * Nat.min ((skip - length (live bs) + 31) / 32) (length (data bs))
  else 0.

Lemma flat_map_skipn_words n : forall ws,
  flat_map bits_of_word (skipn n ws) = skipn (32 * Nat.min n (length ws)) (flat_map bits_of_word ws).
Proof.
  induction n as [|n IH]; intros ws.
  - simpl. reflexivity.
  - destruct ws as [|w ws]; [reflexivity|]. cbn [skipn flat_map length].
    rewrite IH. replace (32 * Nat.min (S n) (S (length ws))) with (32 + 32 * Nat.min n (length ws)) by lia.
    rewrite skipn_app_ge by (rewrite bits_of_word_length; lia). rewrite bits_of_word_length.
    f_equal. lia.
Qed.

Lemma apply_skip_flat bs skip : flat (apply_skip bs skip) = skipn (eff_start bs skip) (flat bs).
Proof.
  unfold apply_skip, eff_start. destruct (Nat.ltb_spec (length (live bs)) skip) as [H|H]; [|reflexivity].
  unfold flat; cbn [live data]. rewrite skipn_app_ge by lia.
  rewrite flat_map_skipn_words. simpl. f_equal. lia.
Qed.

(* the scan never starts before the requested skip unless the skip lies within
   the bits already buffered (then nothing is skipped), or the block is exhausted *)
Lemma eff_start_ge bs skip : length (live bs) < skip ->
  skip <= eff_start bs skip \/ flat (apply_skip bs skip) = [].
Proof.
  intro H. unfold eff_start. destruct (Nat.ltb_spec (length (live bs)) skip) as [_|]; [|lia].
  set (n := (skip - length (live bs) + 31) / 32).
  destruct (le_lt_dec n (length (data bs))) as [Hle|Hgt].
  - left. rewrite Nat.min_l by lia.
    assert (skip - length (live bs) + 31 < 32 * n + 32).
    { unfold n. pose proof (Nat.div_mod (skip - length (live bs) + 31) 32 ltac:(lia)).
      pose proof (Nat.mod_upper_bound (skip - length (live bs) + 31) 32 ltac:(lia)). lia. }
    lia.
  - right. unfold apply_skip. destruct (Nat.ltb_spec (length (live bs)) skip) as [_|]; [|lia].
    unfold flat; cbn [live data]. fold n. rewrite skipn_all2 by lia. reflexivity.
Qed.
