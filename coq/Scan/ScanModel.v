(* Executable model of scan() (src/parse.c:281-342) over the regenerated DFA
   tables, and the declarative specification it is proved against. *)
From Coq Require Import List NArith Arith Bool Lia.
From LBZ Require Import Common.Bits Gen.ScanTab.
Import ListNotations.

(* the 48-bit block header magic 0x314159265359, most significant bit first *)
Definition magic : N := 0x314159265359%N.
Definition P : list bool := bits_msb 48 magic.

(* ---- table access ------------------------------------------------------ *)
Definition tab2 (t : list (list N)) (s i : N) : N :=
  nth (N.to_nat i) (nth (N.to_nat s) t []) 0%N.

Definition mini (s : N) (b : bool) : N := tab2 mini_dfa s (if b then 1 else 0)%N.
Definition big (s : N) (c : N) : N := tab2 big_dfa s c.

(* ---- the scanning routine ---------------------------------------------------- *)
Record bitstream := { live : list bool; data : list word }.

Inductive scan_result := ScanOK (rest : bitstream) | ScanMORE (rest : bitstream).

Definition consumed : bitstream := {| live := []; data := [] |}.

(* bit-at-a-time loop (parse.c:299-315): stops right after the bit that makes
   the automaton accept, returning the bits that follow *)
Fixpoint run_bits (st : N) (bits : list bool) : N + list bool :=
  match bits with
  | [] => inl st
  | b :: r => let st' := mini st b in
              if (st' =? ACCEPT)%N then inr r else run_bits st' r
  end.

(* after the magic: bits_need(bs,32) / bits_dump(bs,32)  (parse.c:306-313) *)
Definition finish (rest : list bool) (ws : list word) : scan_result :=
  if 32 <=? length rest then ScanOK {| live := skipn 32 rest; data := ws |}
  else match ws with
       | w :: ws' => ScanOK {| live := skipn 32 (rest ++ bits_of_word w); data := ws' |}
       | [] => ScanMORE consumed
       end.

Definition big4 (st : N) (w : word) : N :=
  let '(a, b, c, d) := w in big (big (big (big st a) b) c) d.

(* word-at-a-time loop with backtracking (parse.c:317-338) *)
Fixpoint scan_words (st : N) (ws : list word) : scan_result :=
  match ws with
  | [] => ScanMORE consumed
  | w :: r =>
      if (big4 st w =? ACCEPT)%N then
        match run_bits st (bits_of_word w) with
        | inr rest => finish rest r
        | inl st2 => scan_words st2 r
        end
      else scan_words (big4 st w) r
  end.

(* skip handling (parse.c:287-295) *)
Definition apply_skip (bs : bitstream) (skip : nat) : bitstream :=
  if length (live bs) <? skip then
    {| live := []; data := skipn ((skip - length (live bs) + 31) / 32) (data bs) |}
  else bs.

Definition scan_from (bs : bitstream) : scan_result :=
  match run_bits 0%N (live bs) with
  | inr rest => finish rest (data bs)
  | inl st => scan_words st (data bs)
  end.

Definition scan (bs : bitstream) (skip : nat) : scan_result := scan_from (apply_skip bs skip).

(* ---- specification ---------------------------------------------------------- *)
Definition flat (bs : bitstream) : list bool := live bs ++ flat_map bits_of_word (data bs).

(* [e] is the end position of an occurrence of the magic in [B] *)
Definition occ_end (B : list bool) (e : nat) : Prop :=
  e <= length B /\ is_suffix P (firstn e B).

Definition first_occ_end (B : list bool) (e : nat) : Prop :=
  occ_end B e /\ forall e', occ_end B e' -> e <= e'.

(* border function of the pattern: longest k such that the first k bits of P
   are a suffix of w *)
Definition suffixb (u w : list bool) : bool :=
  (length u <=? length w) && bl_eqb u (skipn (length w - length u) w).

Fixpoint best (w : list bool) (k : nat) : nat :=
  match k with
  | 0 => 0
  | S k' => if suffixb (firstn k P) w then k else best w k'
  end.

Definition border_len (w : list bool) : nat := best w (length P).

(* what each automaton entry must be *)
Definition mini_spec (s : nat) (b : bool) : nat := border_len (firstn s P ++ [b]).

(* absorbing extension used by the byte table *)
Definition mini_abs (s : N) (b : bool) : N := if (s =? ACCEPT)%N then ACCEPT else mini s b.
