(* C10: the bytes handed to the writer are those of the sequential decoding.
   Invariants (I1)-(I5) of DESIGN.md, section 4/C10, over runs whose event labels
   are consistent with the oracles (XOracle.v); the scanner is unconstrained. *)
From Coq Require Import List NArith Bool Lia Arith ZifyBool ZifyN.
From LBZ Require Import Gen.Consts SchedX.XState Gen.SchedXTab SchedX.XSet SchedX.XModel SchedX.XLemmas
  SchedX.XFrame SchedX.XInvDefs SchedX.XOps SchedX.XInv SchedX.XInv2 SchedX.XInv3 SchedX.XInv4 SchedX.XOracle.
Import ListNotations.
Local Open Scope N_scope.

Section C10.
  Variable O : oracle.

  (* where the parser will look for the next header *)
  Definition pnext (st : xstate) : N :=
    if x_parse_token st || negb (Nat.eqb (nparse st) 0) then d_bit (x_parser_bs st)
    else d_bit (blk_end O (x_next st)).

  (* what is still to be written: the confirmed blocks, then the parser's future *)
  Inductive Rest : list head -> bool -> N -> N -> list wr -> bool -> Prop :=
  | Rest_tail ps p l r : SeqDec O ps p l r -> Rest [] false ps p l r
  | Rest_done ps p : Rest [] true ps p [] true
  | Rest_ok h q d ps p l1 l2 r :
      BlockOut O (fst (h_base h)) (h_bs100k h) (h_crc h) (snd (h_base h)) l1 true ->
      Rest q d ps p l2 r -> Rest (h :: q) d ps p (l1 ++ l2) r
  | Rest_fail h q d ps p l1 :
      BlockOut O (fst (h_base h)) (h_bs100k h) (h_crc h) (snd (h_base h)) l1 false ->
      Rest (h :: q) d ps p l1 false.

  Definition ejob_ok (e : ejob) : Prop := e_status e = blk_status O (fst (e_base e)).
  Definition cont_ok (c : cont) : Prop :=
    match c with CRetr2 e | CEmit e => ejob_ok e | _ => True end.
  Definition oblk_ok (o : oblk) : Prop :=
    o_status o = out_status O (fst (o_base o)) (snd (o_base o)) /\
    o_size o = chunk_size O (fst (o_base o)) (snd (o_base o)) /\
    o_blksz o = blk_size O (fst (o_base o)) /\
    (o_status o <> MORE -> o_crc o = blk_crc O (fst (o_base o))).

  Record cinv (st : xstate) : Prop := mkcinv {
    (* I1/I2: order_q = the confirmed headers not yet written; written = the sequential prefix *)
    c_seq : forall L R, SeqDec O 0 0 L R ->
            exists l', L = x_written st ++ l' /\
              match x_failed st with
              | None => Rest (x_order_q st) (x_parsing_done st) (x_par st) (pnext st) l' R
              | Some _ => R = false
              end;
    (* I5: a legitimate retriever works on the block confirmed last *)
    c_master : Forall (fun j => jm (x_unords st) j = true -> fst (r_base j) = x_next st) (all_jobs st);
    (* I4: a finished candidate knows where its block ends, unless it is already behind the parser *)
    c_unord : Forall (fun u => u_inq u = true -> u_complete u = true ->
                        u_end u = blk_end O (fst (u_base u)) \/ d_off (u_end u) < x_head_offs st) (x_unords st);
    c_noinq : x_failed st = None -> x_parsing_done st = true -> Forall (fun u => u_inq u = false) (x_unords st);
    (* I3: what a job carries is a function of its base *)
    c_emit : Forall ejob_ok (x_emit_q st);
    c_conts : Forall cont_ok (x_running st);
    c_reord : Forall oblk_ok (x_reord_q st)
  }.

  Lemma cinv_init n tin tout ultra : cinv (init_state n tin tout ultra).
  Proof.
    constructor; simpl; auto; try discriminate.
    intros L R H. exists L. split; auto. simpl. unfold pnext. simpl. constructor. exact H.
    unfold all_jobs. simpl. constructor.
  Qed.

  (* ---- transfer between states that agree on what the parts look at ---- *)
  Lemma pnext_ext st st' : x_parse_token st' = x_parse_token st -> nparse st' = nparse st ->
    x_parser_bs st' = x_parser_bs st -> x_next st' = x_next st -> pnext st' = pnext st.
  Proof. unfold pnext. intros -> -> -> ->. reflexivity. Qed.

  Lemma c_seq_ext st st' :
    x_written st' = x_written st -> x_failed st' = x_failed st -> x_order_q st' = x_order_q st ->
    x_parsing_done st' = x_parsing_done st -> x_par st' = x_par st -> pnext st' = pnext st ->
    (forall L R, SeqDec O 0 0 L R -> exists l', L = x_written st ++ l' /\
        match x_failed st with None => Rest (x_order_q st) (x_parsing_done st) (x_par st) (pnext st) l' R | Some _ => R = false end) ->
    (forall L R, SeqDec O 0 0 L R -> exists l', L = x_written st' ++ l' /\
        match x_failed st' with None => Rest (x_order_q st') (x_parsing_done st') (x_par st') (pnext st') l' R | Some _ => R = false end).
  Proof. intros -> -> -> -> -> ->. auto. Qed.

  (* ---- the sequential decoding and the parser ---------------------------------------- *)
  Lemma SeqDec_next ps p ps' p' l r : next_hdr O ps' p' = next_hdr O ps p -> SeqDec O ps p l r -> SeqDec O ps' p' l r.
  Proof.
    intros E H. inversion H; subst.
    - eapply SD_block; eauto. rewrite E; eauto.
    - eapply SD_blockfail; eauto. rewrite E; eauto.
    - eapply SD_finish. rewrite E; eauto.
    - eapply SD_err. rewrite E. eauto.
  Qed.

  Lemma Rest_more q d ps p ps' p' l r : next_hdr O ps' p' = next_hdr O ps p ->
    Rest q d ps p l r -> Rest q d ps' p' l r.
  Proof.
    intros E H. induction H.
    - constructor. eapply SeqDec_next; eauto.
    - constructor.
    - eapply Rest_ok; eauto.
    - eapply Rest_fail; eauto.
  Qed.

  Lemma Rest_push q ps p ps' base lv crc l r : next_hdr O ps p = HBlock ps' base lv crc ->
    Rest q false ps p l r ->
    Rest (q ++ [mkhead (d_pos base) lv crc]) false ps' (d_bit (blk_end O (d_bit base))) l r.
  Proof.
    intros E H. remember false as d. induction H; subst; simpl.
    - inversion H; subst; try congruence.
      + rewrite E in H0. inversion H0; subst. eapply Rest_ok; simpl; eauto. constructor. auto.
      + rewrite E in H0. inversion H0; subst. eapply Rest_fail; simpl; eauto.
    - discriminate.
    - eapply Rest_ok; eauto.
    - eapply Rest_fail; eauto.
  Qed.

  Lemma Rest_finish q ps p e l r : next_hdr O ps p = HFinish e ->
    Rest q false ps p l r -> if e then r = false else Rest q true ps p l r.
  Proof.
    intros E H. remember false as d. induction H; subst.
    - inversion H; subst; try congruence. rewrite E in H0. inversion H0; subst. destruct e0; simpl; auto. constructor.
    - discriminate.
    - specialize (IHRest E eq_refl). destruct e; auto. eapply Rest_ok; eauto.
    - destruct e; auto. eapply Rest_fail; eauto.
  Qed.

  Lemma Rest_err q ps p c l r : next_hdr O ps p = HErr c -> Rest q false ps p l r -> r = false.
  Proof.
    intros E H. remember false as d. induction H; subst; auto.
    - inversion H; subst; try congruence.
  Qed.

  Lemma Rest_head h q d ps p l r : Rest (h :: q) d ps p l r ->
    let b := fst (h_base h) in let k := snd (h_base h) in
    let s := eff_status O (h_bs100k h) (h_crc h) b k in
    (s = MORE -> exists l' : list wr, l = ((b, k), chunk_size O b k) :: l' /\
                  Rest (mkhead (b, k + 1) (h_bs100k h) (h_crc h) :: q) d ps p l' r) /\
    (s = OK -> exists l' : list wr, l = ((b, k), chunk_size O b k) :: l' /\ Rest q d ps p l' r) /\
    (s <> MORE -> s <> OK -> r = false).
  Proof.
    intro H. inversion H as [| |? ? ? ? ? ? ? ? B R0|? ? ? ? ? ? B]; subst; simpl.
    - inversion B as [? ? ? EM B2|? EO|? N1 N2]; subst.
      + split; [|split]; [|intros K; rewrite K in EM; discriminate|intros K; congruence].
        intros _. eexists. split; [reflexivity|]. eapply Rest_ok; simpl; eauto.
      + split; [|split]; [intros K; rewrite K in EO; discriminate| |intros ? K; congruence].
        intros _. eexists. split; [reflexivity|]. auto.
    - inversion B as [? ? ? EM B2|? EO|? N1 N2]; subst.
      + split; [|split]; [|intros K; rewrite K in EM; discriminate|intros K; congruence].
        intros _. eexists. split; [reflexivity|]. eapply Rest_fail; simpl; eauto.
      + split; [|split]; [intros K; congruence|intros K; congruence|auto].
  Qed.

  (* ---- events that leave alone what cinv looks at ---------------------------------------- *)
  Record cview (st st' : xstate) : Prop := mkcview {
    cv_wr : x_written st' = x_written st; cv_fl : x_failed st' = x_failed st; cv_or : x_order_q st' = x_order_q st;
    cv_dn : x_parsing_done st' = x_parsing_done st; cv_par : x_par st' = x_par st;
    cv_pn : pnext st' = pnext st; cv_nx : x_next st' = x_next st;
    cv_rq : x_retr_q st' = x_retr_q st; cv_rj : run_jobs (x_running st') = run_jobs (x_running st);
    cv_un : x_unords st' = x_unords st; cv_hd : x_head_offs st' = x_head_offs st;
    cv_em : x_emit_q st' = x_emit_q st; cv_ro : x_reord_q st' = x_reord_q st;
    cv_co : Forall cont_ok (x_running st) -> Forall cont_ok (x_running st')
  }.

  Lemma cinv_cview st st' : cview st st' -> cinv st -> cinv st'.
  Proof.
    intros [] [].
    assert (AJ : all_jobs st' = all_jobs st) by (unfold all_jobs; congruence).
    assert (PN := cv_pn0).
    constructor; rewrite ?AJ, ?cv_un0, ?cv_nx0, ?cv_hd0, ?cv_dn0, ?cv_em0, ?cv_ro0; auto.
    rewrite cv_wr0, cv_fl0, cv_or0, cv_par0, PN. auto.
    rewrite cv_fl0. auto.
  Qed.

  Ltac cview_tac := constructor; unfold pnext, nparse; xs; autorewrite with xf; xs; auto.

  Lemma Forall_del {A} (P : A -> Prop) l1 l2 c : Forall P (l1 ++ c :: l2) -> Forall P (l1 ++ l2) /\ P c.
  Proof. rewrite !Forall_app. intros [H1 H2]. inversion H2; subst. tauto. Qed.

  Lemma cview_del_run c st st' : del_run c st = Some st' -> cjobs c = [] -> is_parse c = false -> cview st st'.
  Proof.
    intros H Hj Hp. destruct (del_run_spec _ _ _ H) as (l1 & l2 & E & ->).
    constructor; xs; auto.
    - unfold pnext, nparse. xs. rewrite E, !filter_len_app. simpl. rewrite Hp. reflexivity.
    - rewrite E, !run_jobs_app, run_jobs_cons, Hj. reflexivity.
    - rewrite E. intro F. apply Forall_del in F. tauto.
  Qed.

  Lemma cview_add_run c st : cjobs c = [] -> is_parse c = false -> cont_ok c -> cview st (add_run c st).
  Proof.
    intros Hj Hp Hc. unfold add_run. constructor; xs; auto.
    - unfold pnext, nparse. xs. simpl. rewrite Hp. reflexivity.
    - rewrite run_jobs_cons, Hj. reflexivity.
  Qed.

  Lemma cview_trans a b c : cview a b -> cview b c -> cview a c.
  Proof. intros [] []. constructor; try congruence. auto. Qed.

  Lemma cview_detach att st : cview st (detach att st).
  Proof. cview_tac. Qed.

  Lemma cview_attach d st : cview st (fst (attach d st)).
  Proof. cview_tac. Qed.

  Lemma cinv_input sz m st st' : cinv st -> input sz m st = Some st' -> cinv st'.
  Proof.
    unfold input. intros I H. match type of H with (if ?c then _ else _) = _ => destruct c; [|discriminate] end.
    destruct (x_parsing_done st); inversion H; subst; auto. eapply cinv_cview; [|eauto]. cview_tac.
  Qed.

  Lemma cinv_eof st st' : cinv st -> reader_eof st = Some st' -> cinv st'.
  Proof.
    unfold reader_eof. intros I H. destruct (x_eof st); [discriminate|]. inversion H; subst.
    eapply cinv_cview; [|eauto]. cview_tac.
  Qed.

  Lemma cinv_written st st' : cinv st -> written st = Some st' -> cinv st'.
  Proof.
    unfold written. intros I H. destruct (0 <? x_outq st); [|discriminate]. inversion H; subst.
    eapply cinv_cview; [|eauto]. cview_tac.
  Qed.

  Lemma cinv_parse0 st st' : cinv st -> parse0 st = Some st' -> cinv st'.
  Proof.
    unfold parse0. intros I H. destruct (selects TParse st) eqn:S; [|discriminate].
    apply selects_ready in S. simpl in S. unfold can_parse in S. bool_hyps.
    set (st1 := set_work_units (N.pred (x_work_units st)) (set_parse_token false st)) in *.
    destruct (attach (x_parser_bs st1) st1) as [st2 att] eqn:A.
    assert (E2 : st2 = fst (attach (x_parser_bs st1) st1)) by (rewrite A; reflexivity).
    inversion H; subst st'. clear H. rewrite E2. eapply cinv_cview; [|eauto].
    unfold add_run. subst st1. constructor; unfold pnext, nparse; xs; autorewrite with xf; xs; auto.
    match goal with K : x_parse_token st = true |- _ => rewrite K end. simpl. reflexivity.
    intro F. constructor; simpl; auto.
  Qed.

  Lemma cinv_scan0 st st' : cinv st -> scan0 st = Some st' -> cinv st'.
  Proof.
    unfold scan0. intros I H. destruct (selects TScan st); [|discriminate].
    destruct (qmin d_pos pos_lt (x_scan_q st)) as [s|]; [|discriminate].
    destruct (remove_one dbs_eqb s (x_scan_q st)) as [q|]; [|discriminate].
    set (st1 := set_scan_q q (set_work_units (N.pred (x_work_units st)) st)) in *.
    destruct (attach s st1) as [st2 att] eqn:A.
    assert (E2 : st2 = fst (attach s st1)) by (rewrite A; reflexivity).
    inversion H; subst st'. clear H. rewrite E2. eapply cinv_cview; [|eauto].
    eapply cview_trans; [|apply cview_add_run; simpl; auto]. eapply cview_trans; [|apply cview_attach]. subst st1. cview_tac.
  Qed.

  Lemma cinv_retr2 e st st' : cinv st -> retr2 e st = Some st' -> cinv st'.
  Proof.
    unfold retr2. intros I H. destruct (del_run (CRetr2 e) st) as [s1|] eqn:D; [|discriminate]. inversion H; subst.
    destruct (del_run_spec _ _ _ D) as (l1 & l2 & E & ->).
    destruct I as [Cs Cm Cu Cn Ce Cc Cr]. rewrite E in Cc. apply Forall_del in Cc. destruct Cc as [Cc Ee].
    assert (PN : pnext (set_emit_q (e :: x_emit_q st) (set_running (l1 ++ l2) st)) = pnext st).
    { unfold pnext, nparse. xs. rewrite E, !filter_len_app. reflexivity. }
    constructor; unfold all_jobs in *; xs; auto.
    - rewrite PN. exact Cs.
    - rewrite E in Cm. rewrite !run_jobs_app in *. exact Cm.
  Qed.

  Lemma cinv_emit0 st st' : cinv st -> emit0 st = Some st' -> cinv st'.
  Proof.
    unfold emit0. intros I H. destruct (selects TEmit st); [|discriminate].
    destruct (qmin e_base pos_lt (x_emit_q st)) as [e|]; [|discriminate].
    destruct (remove_one ejob_eqb e (x_emit_q st)) as [q|] eqn:R; [|discriminate]. inversion H; subst.
    destruct I as [Cs Cm Cu Cn Ce Cc Cr]. destruct (remove_one_Forall _ ejob_eqb_eq _ _ _ _ R Ce) as [Ce' Ee].
    unfold add_run.
    assert (PN : pnext (set_running (CEmit e :: x_running st) (set_emit_q q (set_out_slots (N.pred (x_out_slots st)) st))) = pnext st)
      by (unfold pnext, nparse; xs; reflexivity).
    constructor; unfold all_jobs in *; xs; auto.
    all: try (rewrite PN; exact Cs).
  Qed.

  Lemma cinv_emit1 e rv size crc blksz st st' :
    cinv st -> ev_ok O st (EvEmit1 e rv size crc blksz) -> emit1 e rv size crc blksz st = Some st' -> cinv st'.
  Proof.
    unfold emit1. intros I (K1 & K2 & K3 & K4) H. destruct (del_run (CEmit e) st) as [s1|] eqn:D; [|discriminate].
    destruct (del_run_spec _ _ _ D) as (l1 & l2 & E & ->).
    destruct I as [Cs Cm Cu Cn Ce Cc Cr]. rewrite E in Cc. apply Forall_del in Cc. destruct Cc as [Cc Ee]. simpl in Ee.
    match type of H with (if ?c then _ else _) = _ => destruct c; [|discriminate] end.
    assert (PN : pnext (set_running (l1 ++ l2) st) = pnext st).
    { unfold pnext, nparse. xs. rewrite E, !filter_len_app. reflexivity. }
    assert (CM : Forall (fun j => jm (x_unords st) j = true -> fst (r_base j) = x_next st) (x_retr_q st ++ run_jobs (l1 ++ l2))).
    { unfold all_jobs in Cm. rewrite E in Cm. rewrite !run_jobs_app in *. exact Cm. }
    destruct (rv =? MORE) eqn:RV; inversion H; subst st'; clear H.
    - constructor; unfold all_jobs, give_unit in *; xs; auto.
      all: try (erewrite pnext_ext; [exact Cs| | | |]; unfold nparse; xs; auto; rewrite E, !filter_len_app; reflexivity).
      all: try (constructor; auto; unfold oblk_ok; simpl; repeat split; auto; fail).
    - constructor; unfold all_jobs, give_unit in *; xs; auto.
      all: try (erewrite pnext_ext; [exact Cs| | | |]; unfold nparse; xs; auto; rewrite E, !filter_len_app; reflexivity).
      all: try (constructor; auto; unfold oblk_ok; simpl; repeat split; auto; fail).
  Qed.

  Lemma eff_status_model (o : oblk) (ord : head) : oblk_ok o -> o_base o = h_base ord ->
    let status := if h_bs100k ord * 100000 <? o_blksz o then E_ERR_OVERFLOW else o_status o in
    let eff := eff_status O (h_bs100k ord) (h_crc ord) (fst (h_base ord)) (snd (h_base ord)) in
    (status =? MORE) = (eff =? MORE) /\
    ((status =? MORE) = false ->
      (if (status =? OK) && negb (o_crc o =? h_crc ord) then E_ERR_BLKCRC else status) = eff).
  Proof.
    intros (K1 & K2 & K3 & K4) EB. rewrite EB in *. unfold eff_status. rewrite <- K1, <- K3.
    set (s1 := if h_bs100k ord * 100000 <? o_blksz o then E_ERR_OVERFLOW else o_status o). simpl.
    destruct (s1 =? MORE) eqn:E1; [split; [reflexivity|discriminate]|]. split.
    - destruct (s1 =? OK) eqn:E2; simpl.
      + assert (o_crc o = blk_crc O (fst (h_base ord))).
        { apply K4. subst s1. destruct (h_bs100k ord * 100000 <? o_blksz o); [unfold E_ERR_OVERFLOW, OK, E_OK in E2; discriminate|].
          intro X. rewrite X in E1. rewrite N.eqb_refl in E1. discriminate. }
        rewrite <- H. destruct (o_crc o =? h_crc ord); simpl; [rewrite E1|]; reflexivity.
      + rewrite E1. reflexivity.
    - intros _. destruct (s1 =? OK) eqn:E2; simpl; auto.
      assert (o_crc o = blk_crc O (fst (h_base ord))).
      { apply K4. subst s1. destruct (h_bs100k ord * 100000 <? o_blksz o); [unfold E_ERR_OVERFLOW, OK, E_OK in E2; discriminate|].
        intro X. rewrite X in E1. rewrite N.eqb_refl in E1. discriminate. }
      rewrite <- H. reflexivity.
  Qed.

  Lemma cinv_reorder st st' : x_failed st = None -> cinv st -> reorder st = Some st' -> cinv st'.
  Proof.
    unfold reorder. intros NF I H. destruct (selects TReorder st) eqn:S; [|discriminate].
    apply selects_ready in S. simpl in S. unfold can_reorder in S.
    destruct (qmin o_base pos_lt (x_reord_q st)) as [o|] eqn:Q; [|discriminate].
    destruct (remove_one oblk_eqb o (x_reord_q st)) as [q|] eqn:R; [|discriminate].
    destruct I as [Cs Cm Cu Cn Ce Cc Cr]. destruct (remove_one_Forall _ oblk_eqb_eq _ _ _ _ R Cr) as [Cr' Oo].
    xs in H.
    assert (DROP : cinv (set_out_slots (x_out_slots st + 1) (set_reord_q q st))).
    { constructor; unfold all_jobs in *; xs; auto. }
    destruct (x_order_q st) as [|ord rest] eqn:OQ; [inversion H; subst; exact DROP|].
    destruct (pos_lt (o_base o) (h_base ord)) eqn:LT; [inversion H; subst; exact DROP|]. clear DROP.
    assert (EB : o_base o = h_base ord).
    { apply pos_lt_total; auto. bool_hyps. unfold peek_reord in *. rewrite Q in *. unfold order_head in *. rewrite OQ in *. simpl in *.
      match goal with K : _ || _ = true |- _ => apply orb_true_iff in K; destruct K as [K|K] end; bool_hyps.
      - unfold pos_le in *. bool_hyps. auto.
      - discriminate. }
    destruct (eff_status_model o ord Oo EB) as [M1 M2]. cbv zeta in M1, M2.
    set (status := if h_bs100k ord * 100000 <? o_blksz o then E_ERR_OVERFLOW else o_status o) in *.
    set (eff := eff_status O (h_bs100k ord) (h_crc ord) (fst (h_base ord)) (snd (h_base ord))) in *.
    assert (SZ : o_size o = chunk_size O (fst (h_base ord)) (snd (h_base ord))) by (destruct Oo as (_ & K2 & _); rewrite <- EB; exact K2).
    assert (PB : o_base o = (fst (h_base ord), snd (h_base ord))) by (rewrite EB; destruct (h_base ord); reflexivity).
    destruct (status =? MORE) eqn:SM.
    - inversion H; subst st'. clear H. symmetry in M1. apply N.eqb_eq in M1.
      constructor; unfold all_jobs in *; xs; auto.
      intros L Rr SD. destruct (Cs L Rr SD) as (l' & EL & RS). rewrite NF in *.
      destruct (Rest_head _ _ _ _ _ _ _ RS) as (A & _ & _). destruct (A M1) as (l2 & E2 & R2).
      exists l2. split.
      + rewrite EL, E2, <- app_assoc. simpl. rewrite PB, SZ. reflexivity.
      + unfold pnext, nparse in *. xs. exact R2.
    - specialize (M2 eq_refl). rewrite M2 in H.
      assert (EM : eff <> MORE). { intro X. rewrite X in M1. rewrite N.eqb_refl in M1. discriminate. }
      destruct (eff =? OK) eqn:EO.
      + inversion H; subst st'. clear H. apply N.eqb_eq in EO.
        constructor; unfold all_jobs in *; xs; auto.
        intros L Rr SD. destruct (Cs L Rr SD) as (l' & EL & RS). rewrite NF in *.
        destruct (Rest_head _ _ _ _ _ _ _ RS) as (_ & A & _). destruct (A EO) as (l2 & E2 & R2).
        exists l2. split.
        * rewrite EL, E2, <- app_assoc. simpl. rewrite PB, SZ. reflexivity.
        * unfold pnext, nparse in *. xs. exact R2.
      + inversion H; subst st'. clear H. apply N.eqb_neq in EO.
        constructor; unfold all_jobs, fail in *; xs; auto.
        intros L Rr SD. destruct (Cs L Rr SD) as (l' & EL & RS). exists l'. split; auto. rewrite NF in *.
        destruct (Rest_head _ _ _ _ _ _ _ RS) as (_ & _ & A). auto.
  Qed.

  Lemma cinv_retr0 j st st' : cinv st -> retr0 j st = Some st' -> cinv st'.
  Proof.
    unfold retr0. intros I H. destruct (selects TRetrieve st); [|discriminate].
    destruct (take_min rjob_eqb rkey j (x_retr_q st)) as [q|] eqn:T; [|discriminate].
    apply take_min_spec in T. destruct T as [R _].
    destruct (remove_one_split _ rjob_eqb_eq _ _ _ R) as (l1 & l2 & EQ & Eq).
    set (st1 := set_retr_q q st) in *.
    destruct (attach (r_cur j) st1) as [st2 att] eqn:A.
    assert (E2 : st2 = fst (attach (r_cur j) st1)) by (rewrite A; reflexivity).
    inversion H; subst st'. clear H. rewrite E2.
    destruct I as [Cs Cm Cu Cn Ce Cc Cr].
    destruct (move_job l1 l2 (run_jobs (x_running st)) j) as [MF _].
    unfold add_run. subst st1.
    constructor; unfold all_jobs in *; xs; autorewrite with xf; xs; auto.
    all: try (erewrite pnext_ext; [exact Cs| | | |]; unfold nparse; xs; autorewrite with xf; xs; auto; fail).
    all: try (rewrite run_jobs_cons; simpl; rewrite Eq; apply MF; rewrite <- EQ; exact Cm).
    all: try (constructor; simpl; auto; fail).
  Qed.

  Lemma cinv_scan1 cfg s att found s' more st st' :
    inv st -> cinv st -> scan1 cfg s att found s' more st = Some st' -> cinv st'.
  Proof.
    intros IV I H. unfold scan1 in H.
    destruct (del_run (CScan s att) st) as [s1|] eqn:D; [|discriminate].
    assert (V1 : cview st s1) by (eapply cview_del_run; eauto).
    assert (IV1 : inv s1) by (eapply inv_view; [eapply view_del_run; eauto|auto]).
    assert (I1 : cinv s1) by (eapply cinv_cview; eauto). clear I V1 D IV.
    set (aend := att_end att s1) in *. clearbody aend.
    assert (I2 : cinv (detach att s1)) by (eapply cinv_cview; [apply cview_detach|auto]).
    assert (IV2 : inv (detach att s1)) by (eapply inv_view; [apply view_detach|auto]).
    set (s2 := detach att s1) in *. clearbody s2. clear I1 IV1.
    destruct (negb found || x_parsing_done s2) eqn:F.
    { inversion H; subst. eapply cinv_cview; [|eauto]. unfold give_unit. cview_tac. }
    match type of H with (if ?c then _ else _) = _ => destruct c; [|discriminate] end.
    apply orb_false_iff in F. destruct F as [_ PD].
    match type of H with (if ?c && _ then _ else _) = _ => idtac end.
    set (s3 := if pos_le (d_pos s') (d_pos (x_parser_bs s2)) || (c_scan_job_checks_head cfg && (d_off s' <? x_head_offs s2)) then give_unit s2
               else if c_scan_checks_unord_cap cfg && unord_full s2 then give_unit s2
               else set_retr_q (mkrjob (d_pos s') s' (Some (x_next_uid s2)) :: x_retr_q s2)
                     (set_next_uid (x_next_uid s2 + 1)
                        (set_unords (x_unords s2 ++ [mkunord (x_next_uid s2) (d_pos s') s' false false true]) s2))) in *.
    assert (I3 : cinv s3).
    { subst s3. destruct (pos_le (d_pos s') (d_pos (x_parser_bs s2)) || (c_scan_job_checks_head cfg && (d_off s' <? x_head_offs s2)));
        [|destruct (c_scan_checks_unord_cap cfg && unord_full s2)].
      - eapply cinv_cview; [|eauto]. unfold give_unit. cview_tac.
      - eapply cinv_cview; [|eauto]. unfold give_unit. cview_tac.
      - destruct I2 as [Cs Cm Cu Cn Ce Cc Cr]. destruct IV2 as [Ic Ip Ir Is Iu If Ij Il Ie Im Id Ib Iq].
        constructor; unfold all_jobs in *; xs; auto.
        all: try (erewrite pnext_ext; [exact Cs| | | |]; unfold nparse; xs; auto; fail).
        all: try (rewrite PD; discriminate).
        all: try (apply Forall_app; split; auto; constructor; auto; simpl; discriminate).
        simpl. constructor.
        * simpl. unfold jm; simpl. rewrite existsb_app. simpl. rewrite andb_false_r. simpl. rewrite orb_false_r.
          intro E. exfalso. apply existsb_exists in E. destruct E as (u & Hu & E). bool_hyps.
          rewrite Forall_forall in If. apply If in Hu. match goal with K : (u_id u =? _) = true |- _ => apply N.eqb_eq in K end. lia.
        * eapply Forall_impl; [|exact Cm]. intros j. simpl. rewrite jm_app_new by reflexivity. auto. }
    clearbody s3.
    match type of H with (if ?c then _ else _) = _ => destruct c end; inversion H; subst; auto.
    eapply cinv_cview; [|eauto]. cview_tac.
  Qed.

  (* ---- advance(): which unord blocks may have been completed by a dropped job ------------- *)
  Lemma adv_retr_dropped fuel hd q :
    Forall (fun j => d_off (r_cur j) < hd /\ In j q) (fst (adv_retr fuel hd q)).
  Proof.
    revert q; induction fuel as [|f IH]; intro q; simpl; [constructor|].
    destruct (qmin rkey pos_lt q) as [j|] eqn:Q; [|constructor].
    destruct (d_off (r_cur j) <? hd) eqn:E; [|constructor].
    destruct (remove_one rjob_eqb j q) as [q'|] eqn:R; [|constructor].
    specialize (IH q'). destruct (adv_retr f hd q') as [d k]. simpl in *. constructor.
    - split; [lia|]. eapply remove_one_self; eauto using rjob_eqb_eq.
    - eapply Forall_impl; [|exact IH]. simpl. intros a [A B]. split; auto. eapply remove_one_In; eauto.
  Qed.

  Lemma drop_link_raised l us u : In u (drop_link l us) ->
    In u us \/ exists u0 id, In u0 us /\ l = Some id /\ u_id u0 = id /\ u_complete u0 = false /\ u = u_set_complete u0.
  Proof.
    unfold drop_link. destruct l as [id|]; auto. destruct (get_unord id us) as [u1|] eqn:G; auto.
    destruct (u_complete u1) eqn:C.
    - unfold del_unord. rewrite filter_In. tauto.
    - unfold upd_unord. rewrite in_map_iff. intros (u0 & E & H0). destruct (u_id u0 =? id) eqn:K; [|subst; auto].
      destruct (u_complete u0) eqn:C0.
      + left. subst u. destruct u0; simpl in *. subst. exact H0.
      + right. exists u0, id. apply N.eqb_eq in K. auto.
  Qed.

  Lemma drop_links_raised js us u : In u (drop_links js us) ->
    In u us \/ exists u0 j, In u0 us /\ In j js /\ r_link j = Some (u_id u0) /\ u_complete u0 = false /\ u = u_set_complete u0.
  Proof.
    unfold drop_links. revert us u. induction js as [|j r IH]; simpl; intros us u H; auto.
    destruct (IH _ _ H) as [H1|(u0 & j0 & H0 & Hj & L & C & E)].
    - destruct (drop_link_raised _ _ _ H1) as [H2|(u0 & id & H0 & L & Hid & C & E)]; auto.
      right. exists u0, j. subst id. auto 6.
    - destruct (drop_link_raised _ _ _ H0) as [H2|(u1 & id & H1 & L1 & Hid & C1 & E1)].
      + right. exists u0, j0. auto 7.
      + subst u0. simpl in C. discriminate.
  Qed.

  Lemma adv_fields cfg bs st :
    let sa := adv_input (d_off bs) (set_parser_bs bs st) in
    let dk := adv_retr (length (x_retr_q st)) (x_head_offs sa) (x_retr_q st) in
    x_head_offs (advance cfg bs st) = x_head_offs sa /\
    x_unords (advance cfg bs st) = (if c_advance_drops_link cfg then drop_links (fst dk) (x_unords st) else x_unords st).
  Proof.
    cbv zeta. set (sa := adv_input (d_off bs) (set_parser_bs bs st)).
    assert (Erq : x_retr_q sa = x_retr_q st) by (subst sa; xs; autorewrite with xf; xs; reflexivity).
    assert (Eus : x_unords sa = x_unords st) by (subst sa; xs; autorewrite with xf; xs; reflexivity).
    split.
    - unfold advance. autorewrite with xf. reflexivity.
    - unfold advance. autorewrite with xf. unfold adv_jobs. fold sa.
      destruct (c_advance_drops_link cfg); xs; rewrite ?Erq, ?Eus; reflexivity.
  Qed.

  Lemma advance_unords cfg bs st u : inv st -> In u (x_unords (advance cfg bs st)) ->
    In u (x_unords st) \/
    exists u0, In u0 (x_unords st) /\ u = u_set_complete u0 /\ d_off (u_end u0) < x_head_offs (advance cfg bs st).
  Proof.
    intros IV H. destruct (adv_fields cfg bs st) as [EH EU]. cbv zeta in EH, EU. rewrite EU in H. rewrite EH.
    destruct (c_advance_drops_link cfg); auto.
    destruct (drop_links_raised _ _ _ H) as [H1|(u0 & j & H0 & Hj & L & C & E)]; auto.
    right. exists u0. split; auto. split; auto.
    pose proof (adv_retr_dropped (length (x_retr_q st)) (x_head_offs (adv_input (d_off bs) (set_parser_bs bs st))) (x_retr_q st)) as D.
    rewrite Forall_forall in D. destruct (D j Hj) as [Dj Qj].
    destruct IV as [_ _ _ _ _ _ Ij _ _ _ _ _ _]. rewrite Forall_forall in Ij.
    destruct (Ij j) as (_ & _ & _ & _ & J5); [unfold all_jobs; apply in_or_app; auto|].
    destruct (J5 _ u0 L H0 eq_refl) as [_ B]. rewrite (B C). exact Dj.
  Qed.

  (* the parts of cinv that advance() can touch *)
  Definition cparts (st : xstate) : Prop :=
    Forall (fun j => jm (x_unords st) j = true -> fst (r_base j) = x_next st) (all_jobs st) /\
    Forall (fun u => u_inq u = true -> u_complete u = true ->
                     u_end u = blk_end O (fst (u_base u)) \/ d_off (u_end u) < x_head_offs st) (x_unords st) /\
    (x_parsing_done st = true -> Forall (fun u => u_inq u = false) (x_unords st)).

  Lemma cparts_advance cfg bs st :
    inv st -> masters st = 0%nat -> x_head_offs st <= d_off bs -> cparts st -> cparts (advance cfg bs st).
  Proof.
    intros IV M0 HD (Cm & Cu & Cn).
    destruct (inv_advance cfg bs st IV M0 HD) as (I3 & M3 & H3a & H3b & ST & RP).
    assert (RU : x_running (advance cfg bs st) = x_running st) by (autorewrite with xf; reflexivity).
    assert (NX : x_next (advance cfg bs st) = x_next st) by (autorewrite with xf; reflexivity).
    assert (PD : x_parsing_done (advance cfg bs st) = x_parsing_done st) by (autorewrite with xf; reflexivity).
    split; [|split].
    - unfold all_jobs in *. rewrite RU, NX. apply Forall_app in Cm. destruct Cm as [Cm1 Cm2]. apply Forall_app. split.
      + apply RP in Cm1. eapply Forall_impl; [|exact Cm1]. simpl. intros j K J. apply K. eapply jm_stems; eauto. apply IV.
      + eapply Forall_impl; [|exact Cm2]. simpl. intros j K J. apply K. eapply jm_stems; eauto. apply IV.
    - apply Forall_forall. intros u Hu Q C. rewrite Forall_forall in Cu.
      destruct (advance_unords cfg bs st u IV Hu) as [H0|(u0 & H0 & E & LT)].
      + destruct (Cu u H0 Q C) as [A|A]; auto. right. lia.
      + subst u. simpl in *. right. exact LT.
    - rewrite PD. intro K. specialize (Cn K). apply Forall_forall. intros u Hu. rewrite Forall_forall in Cn.
      destruct (ST u Hu) as (u0 & H0 & (_ & _ & _ & S4 & _)). rewrite S4. auto.
  Qed.

  Lemma cparts_of st : x_failed st = None -> cinv st -> cparts st.
  Proof. intros NF []. repeat split; auto. Qed.

  (* the remaining parts: what is written, the emit/reorder queues and the running set *)
  Record cview0 (st st' : xstate) : Prop := mkcview0 {
    c0_wr : x_written st' = x_written st; c0_fl : x_failed st' = x_failed st; c0_or : x_order_q st' = x_order_q st;
    c0_dn : x_parsing_done st' = x_parsing_done st; c0_par : x_par st' = x_par st; c0_pn : pnext st' = pnext st;
    c0_em : x_emit_q st' = x_emit_q st; c0_ro : x_reord_q st' = x_reord_q st;
    c0_co : Forall cont_ok (x_running st) -> Forall cont_ok (x_running st')
  }.

  Lemma cinv_parts st st' : cinv st -> cview0 st st' -> cparts st' -> cinv st'.
  Proof.
    intros [] [] (P1 & P2 & P3). constructor; auto; rewrite ?c0_em0, ?c0_ro0; auto.
    rewrite c0_wr0, c0_fl0, c0_or0, c0_dn0, c0_par0, c0_pn0. auto.
  Qed.

  Ltac cview0_tac := constructor; unfold pnext, nparse, give_unit, add_run; xs; autorewrite with xf; xs; auto.

  Lemma cview0_trans a b c : cview0 a b -> cview0 b c -> cview0 a c.
  Proof. intros [] []. constructor; try congruence. auto. Qed.

  Lemma cinv_del_retr j att st s1 : del_run (CRetr j att) st = Some s1 -> cinv st ->
    cinv s1 /\ (jm (x_unords s1) j = true -> fst (r_base j) = x_next s1).
  Proof.
    intros D [Cs Cm Cu Cn Ce Cc Cr]. destruct (del_run_spec _ _ _ D) as (l1 & l2 & E & ->).
    unfold all_jobs in *. rewrite E in *. rewrite !run_jobs_app, run_jobs_cons in Cm. simpl cjobs in Cm. change ([j] ++ run_jobs l2) with (j :: run_jobs l2) in Cm.
    rewrite !Forall_app in Cm. destruct Cm as (A1 & A2 & A3). inversion A3 as [|? ? Aj A4]; subst.
    apply Forall_del in Cc. destruct Cc as [Cc _].
    split; [|xs; exact Aj].
    constructor; unfold all_jobs; xs; auto.
    - erewrite pnext_ext; [exact Cs| | | |]; unfold nparse; xs; auto. rewrite E, !filter_len_app. reflexivity.
    - rewrite run_jobs_app, !Forall_app. auto.
  Qed.

  (* a job gives its unord block back *)
  Lemma cparts_drop_link l s :
    inv s -> cparts s ->
    (forall u0, In u0 (x_unords s) -> l = Some (u_id u0) -> u_complete u0 = false -> u_inq u0 = true ->
                d_off (u_end u0) < x_head_offs s) ->
    cparts (set_unords (drop_link l (x_unords s)) s).
  Proof.
    intros IV (Cm & Cu & Cn) HR. split; [|split]; xs.
    - unfold all_jobs in *. xs. eapply Forall_impl; [|exact Cm]. simpl. intros j K J. apply K.
      eapply jm_stems; eauto. apply drop_link_stems. apply IV.
    - apply Forall_forall. intros u Hu Q C. rewrite Forall_forall in Cu.
      destruct (drop_link_raised _ _ _ Hu) as [H0|(u0 & id & H0 & L & Hid & C0 & E)]; auto.
      subst u. simpl in *. right. apply HR; auto. congruence.
    - intro K. specialize (Cn K). apply Forall_forall. intros u Hu. rewrite Forall_forall in Cn.
      destruct (drop_link_stems _ _ _ Hu) as (u0 & H0 & (_ & _ & _ & S4 & _)). rewrite S4. auto.
  Qed.

  Lemma cretr1_master cfg j lk rv cur s2 st' :
    r_link j = lk -> c_requeue_retr_checks_head cfg = true -> jfacts j s2 -> cinv s2 -> x_failed s2 = None ->
    jm (x_unords s2) j = true -> fst (r_base j) = x_next s2 -> x_parsing_done s2 = false ->
    d_off (r_cur j) <= d_off cur ->
    (rv <> MORE -> rv = blk_status O (fst (r_base j)) /\ cur = blk_end O (fst (r_base j))) ->
    (let st := advance cfg cur s2 in
     if rv =? MORE then
       if c_requeue_retr_checks_head cfg && (d_off cur <? x_head_offs st)
       then Some (give_unit (if c_stale_drops_link cfg then set_unords (drop_link lk (x_unords st)) st else st))
       else Some (set_retr_q (mkrjob (r_base j) cur lk :: x_retr_q st) st)
     else Some (add_run (CRetr2 (mkejob (r_base j) rv (d_off cur)))
                  (match lk with
                   | Some id => set_unords (del_unord id (x_unords (set_parse_token true st))) (set_parse_token true st)
                   | None => set_parse_token true st
                   end))) = Some st' ->
    cinv st'.
  Proof.
    intros ELK CR (I2 & J2 & L2 & B2 & M2) C2 NF JM BN PD Hoff EV H. subst lk. rewrite JM in B2. simpl in B2.
    assert (M0 : masters s2 = 0%nat) by lia. assert (N0 : nparse s2 = 0%nat) by lia.
    assert (T0 : x_parse_token s2 = false) by (destruct (x_parse_token s2); simpl in B2; auto; exfalso; lia).
    specialize (M2 JM). assert (HD : x_head_offs s2 <= d_off cur) by lia.
    destruct (inv_advance cfg cur s2 I2 M0 HD) as (I3 & M3 & H3a & H3b & ST & RP).
    pose proof (cparts_advance cfg cur s2 I2 M0 HD (cparts_of _ NF C2)) as P3.
    assert (V3 : cview0 s2 (advance cfg cur s2)).
    { constructor; unfold pnext, nparse in *; autorewrite with xf; auto. rewrite T0, N0. simpl. reflexivity. }
    assert (PB3 : x_parser_bs (advance cfg cur s2) = cur) by (unfold advance; autorewrite with xf; xs; reflexivity).
    assert (E3 : x_parse_token (advance cfg cur s2) = false /\ nparse (advance cfg cur s2) = 0%nat /\ x_next (advance cfg cur s2) = x_next s2
                 /\ x_running (advance cfg cur s2) = x_running s2)
      by (unfold nparse in *; autorewrite with xf; auto).
    cbv zeta in H. set (st := advance cfg cur s2) in *. destruct E3 as (T3 & N3 & NX3 & RU3). clearbody st.
    assert (JMj : forall us', jm us' j = jm us' (mkrjob (r_base j) cur (r_link j))) by reflexivity.
    destruct (rv =? MORE) eqn:RV.
    - rewrite CR in H. replace (d_off cur <? x_head_offs st) with false in H by lia. cbn [andb] in H.
      inversion H; subst st'. clear H.
      eapply cinv_parts; [exact C2| |].
      + eapply cview0_trans; [exact V3|]. cview0_tac.
      + destruct P3 as (Pm & Pu & Pn). split; [|split]; unfold all_jobs in *; xs; auto.
        simpl. constructor; auto. simpl. intro K. rewrite NX3. rewrite <- BN. reflexivity.
    - apply N.eqb_neq in RV. destruct (EV RV) as [ES EC].
      set (sf := match r_link j with
                 | Some id => set_unords (del_unord id (x_unords (set_parse_token true st))) (set_parse_token true st)
                 | None => set_parse_token true st end) in *.
      inversion H; subst st'. clear H.
      assert (PN : d_bit cur = pnext s2).
      { unfold pnext. rewrite T0, N0. simpl. rewrite <- BN, <- EC. reflexivity. }
      assert (V4 : cview0 s2 sf).
      { eapply cview0_trans; [exact V3|]. subst sf.
        destruct (r_link j); constructor; unfold pnext, nparse in *; xs; auto; rewrite PB3; simpl; rewrite T3, N3; simpl;
          rewrite NX3; unfold pnext in PN; rewrite T0, N0 in PN; simpl in PN; auto. }
      assert (P4 : cparts sf).
      { destruct P3 as (Pm & Pu & Pn). subst sf. destruct (r_link j) as [id|]; [|split; [|split]; unfold all_jobs in *; xs; auto].
        split; [|split]; unfold all_jobs in *; xs.
        - eapply Forall_impl; [|exact Pm]. simpl. intros x K J. apply K. eapply jm_stems; eauto.
          + unfold del_unord. intros u Hu. apply filter_In in Hu. exists u. split; [tauto|apply stems_refl].
          + apply I3.
        - unfold del_unord. apply Forall_forall. intros u Hu. apply filter_In in Hu. rewrite Forall_forall in Pu. apply Pu. tauto.
        - intro K. specialize (Pn K). unfold del_unord. apply Forall_forall. intros u Hu. apply filter_In in Hu.
          rewrite Forall_forall in Pn. apply Pn. tauto. }
      clearbody sf.
      eapply cinv_parts; [exact C2| |].
      + eapply cview0_trans; [exact V4|]. unfold add_run. constructor; unfold pnext, nparse; xs; auto.
        all: try (intro F; constructor; auto; simpl; unfold ejob_ok; simpl; exact ES).
      + destruct P4 as (Pm & Pu & Pn). split; [|split]; unfold all_jobs, add_run in *; xs; auto.
  Qed.

  Lemma jm_upd_raise id f us x :
    (forall u, u_id (f u) = u_id u /\ u_legit (f u) = u_legit u) -> Forall unord_ok us ->
    jm (upd_unord id f us) x = true -> jm us x = true.
  Proof.
    intros HF HO. unfold jm. destruct (r_link x) as [id2|]; auto. unfold upd_unord. rewrite existsb_map, !existsb_exists.
    intros (u & Hu & E). exists u. split; auto. destruct (u_id u =? id); auto.
    destruct (HF u) as [F1 F2]. rewrite F1, F2 in E. bool_hyps.
    rewrite Forall_forall in HO. destruct (HO u Hu) as (O1 & O2 & _).
    destruct (u_inq u) eqn:Q.
    - destruct (O1 eq_refl) as (_ & _ & L). congruence.
    - rewrite (O2 eq_refl). match goal with A : (u_id u =? id2) = true |- _ => rewrite A end.
      match goal with A : u_legit u = true |- _ => rewrite A end. reflexivity.
  Qed.

  Lemma cretr1_spec cfg j id rv cur s2 st' :
    c_requeue_retr_checks_head cfg = true -> jfacts j s2 -> cinv s2 -> x_failed s2 = None -> r_link j = Some id ->
    (jm (x_unords s2) j = true -> fst (r_base j) = x_next s2) ->
    (forall u, In u (x_unords s2) -> u_id u = id -> u_complete u = false) ->
    dbs_ok cur = true -> d_bit (r_cur j) <= d_bit cur ->
    (rv <> MORE -> rv = blk_status O (fst (r_base j)) /\ cur = blk_end O (fst (r_base j))) ->
    (let st := set_unords (upd_unord id (u_set_end cur) (x_unords s2)) s2 in
     if rv =? MORE then
       if c_requeue_retr_checks_head cfg && (d_off cur <? x_head_offs st)
       then Some (give_unit (if c_stale_drops_link cfg then set_unords (drop_link (Some id) (x_unords st)) st else st))
       else Some (set_retr_q (mkrjob (r_base j) cur (Some id) :: x_retr_q st) st)
     else Some (add_run (CRetr2 (mkejob (r_base j) rv (d_off cur)))
                  (set_unords (upd_unord id (fun u => u_set_complete (u_set_end cur u)) (x_unords st)) st))) = Some st' ->
    cinv st'.
  Proof.
    intros CR (I2 & J2 & L2 & B2 & M2) C2 NF EL BN INC Hok Hbit EV H.
    pose proof (L2 id EL) as Z2. destruct J2 as (J1 & J2' & J3 & J4 & J5).
    assert (UB : forall u, In u (x_unords s2) -> u_id u = id -> u_base u = r_base j) by (intros u Hu Hid; apply (J5 id u EL Hu Hid)).
    destruct (cparts_of _ NF C2) as (Pm & Pu & Pn).
    (* the store after `end_pos = curr_pos` *)
    set (us1 := upd_unord id (u_set_end cur) (x_unords s2)).
    assert (P1 : cparts (set_unords us1 s2)).
    { split; [|split]; unfold all_jobs in *; xs.
      - eapply Forall_impl; [|exact Pm]. simpl. intros x K J. apply K. subst us1.
        rewrite jm_upd_same in J by (intro u; repeat split; reflexivity). exact J.
      - subst us1. unfold upd_unord. apply Forall_forall. intros u Hu Q C. apply in_map_iff in Hu. destruct Hu as (u0 & <- & H0).
        rewrite Forall_forall in Pu. destruct (u_id u0 =? id) eqn:K; [|auto].
        apply N.eqb_eq in K. simpl in C. rewrite (INC u0 H0 K) in C. discriminate.
      - intro K. specialize (Pn K). subst us1. unfold upd_unord. apply Forall_forall. intros u Hu. apply in_map_iff in Hu.
        destruct Hu as (u0 & <- & H0). rewrite Forall_forall in Pn. destruct (u_id u0 =? id); simpl; auto. }
    assert (I1 : inv (set_unords us1 s2)).
    { apply (inv_upd_spec id (u_set_end cur) s2 I2 Z2).
      - intro u. split; reflexivity.
      - intros u Hu Hid. destruct I2 as [_ _ _ _ Iu _ _ _ _ _ _ _ _]. rewrite Forall_forall in Iu. destruct (Iu u Hu) as (O1 & O2 & O3).
        unfold unord_ok, u_set_end; simpl. split; [|split; auto]. intro Q. destruct (O1 Q) as (_ & _ & L).
        repeat split; auto. rewrite (UB u Hu Hid). lia. }
    cbv zeta in H. fold us1 in H. set (st := set_unords us1 s2) in *.
    assert (V1 : cview0 s2 st) by (subst st; cview0_tac).
    assert (HDs : x_head_offs st = x_head_offs s2) by (subst st; xs; auto).
    assert (USs : x_unords st = us1) by (subst st; xs; auto).
    assert (AJs : all_jobs st = all_jobs s2) by (subst st; unfold all_jobs; xs; auto).
    assert (NXs : x_next st = x_next s2) by (subst st; xs; auto).
    assert (JMs : jm (x_unords st) j = jm (x_unords s2) j).
    { rewrite USs. subst us1. apply jm_upd_same. intro u. repeat split; reflexivity. }
    clearbody st.
    destruct (rv =? MORE) eqn:RV.
    - rewrite CR in H. cbn [andb] in H. destruct (d_off cur <? x_head_offs st) eqn:SL.
      + inversion H; subst st'. clear H. eapply cinv_parts; [exact C2| |].
        * eapply cview0_trans; [exact V1|]. destruct (c_stale_drops_link cfg); cview0_tac.
        * assert (PG : forall s, cparts s -> cparts (give_unit s)).
          { intros s0 (A & B & C). split; [|split]; unfold all_jobs, give_unit in *; xs; auto. }
          apply PG. destruct (c_stale_drops_link cfg); auto.
          refine (cparts_drop_link (Some id) st I1 P1 _).
          intros u0 H0 L C Q. inversion L; subst id. rewrite USs in H0. subst us1. unfold upd_unord in H0.
          apply in_map_iff in H0. destruct H0 as (u1 & E1 & H1). destruct (u_id u1 =? u_id u0) eqn:K.
          -- subst u0. simpl. lia.
          -- subst u0. rewrite N.eqb_refl in K. discriminate.
      + inversion H; subst st'. clear H. eapply cinv_parts; [exact C2| |].
        * eapply cview0_trans; [exact V1|]. cview0_tac.
        * destruct P1 as (A & B & C). split; [|split]; unfold all_jobs in *; xs; auto.
          simpl. constructor; [|exact A]. simpl. intro K. rewrite NXs. apply BN. rewrite <- JMs.
          unfold jm in K |- *. simpl in K. rewrite EL. exact K.
    - apply N.eqb_neq in RV. destruct (EV RV) as [ES EC]. inversion H; subst st'. clear H.
      eapply cinv_parts; [exact C2| |].
      + eapply cview0_trans; [exact V1|]. unfold add_run. constructor; unfold pnext, nparse; xs; auto.
        all: try (intro F; constructor; auto; simpl; unfold ejob_ok; simpl; exact ES).
      + destruct P1 as (A & B & C). split; [|split]; unfold all_jobs, add_run in *; xs.
        * rewrite USs in *. eapply Forall_impl; [|exact A]. simpl. intros x K J. apply K.
          eapply jm_upd_raise; [| |exact J]; [intro u; split; reflexivity|]. rewrite <- USs. apply I1.
        * rewrite USs in *. unfold upd_unord at 1. apply Forall_forall. intros u Hu Q Cc. apply in_map_iff in Hu.
          destruct Hu as (u0 & <- & H0). rewrite Forall_forall in B. destruct (u_id u0 =? id) eqn:K; [|first [apply B; auto; fail | rewrite HDs; apply B; auto; fail | rewrite <- HDs; apply B; auto; fail | rewrite HDs in B; apply B; auto; fail | rewrite <- HDs in B; apply B; auto]].
          left. simpl. subst us1. unfold upd_unord in H0. apply in_map_iff in H0. destruct H0 as (u1 & E1 & H1).
          assert (u_base u0 = r_base j).
          { destruct (u_id u1 =? id) eqn:K1; subst u0; simpl in *; apply UB; auto; apply N.eqb_eq; auto. }
          rewrite H. exact EC.
        * rewrite USs in *. intro K. specialize (C K). unfold upd_unord at 1. apply Forall_forall. intros u Hu. apply in_map_iff in Hu.
          destruct Hu as (u0 & <- & H0). rewrite Forall_forall in C. destruct (u_id u0 =? id); simpl; auto.
  Qed.

  Lemma cparts_give_unit s : cparts s -> cparts (give_unit s).
  Proof. intros (A & B & C). split; [|split]; unfold all_jobs, give_unit in *; xs; auto. Qed.

  Lemma cinv_retr1 cfg j att rv cur st st' :
    cfg_safe cfg -> x_failed st = None -> inv st -> cinv st -> ev_ok O st (EvRetr1 j att rv cur) ->
    retr1 cfg j att rv cur st = Some st' -> cinv st'.
  Proof.
    intros (CS & CJ & CR) NF0 I C EV H. unfold retr1 in H. simpl in EV.
    destruct (del_run (CRetr j att) st) as [s1|] eqn:D; [|discriminate].
    assert (NF1 : x_failed s1 = None) by (destruct (del_run_spec _ _ _ D) as (? & ? & ? & ->); xs; auto).
    assert (F1 : jfacts j s1) by (apply (inv_del_retr _ _ _ _ D I)).
    destruct (cinv_del_retr _ _ _ _ D C) as (C1 & BN1). clear I C D.
    set (aend := att_end att s1) in *. clearbody aend.
    match type of H with (if ?c then _ else _) = _ => destruct c eqn:CC; [|discriminate] end.
    assert (F2 : jfacts j (detach att s1)) by (eapply jfacts_view; [apply view_detach|auto]).
    assert (C2 : cinv (detach att s1)) by (eapply cinv_cview; [apply cview_detach|auto]).
    assert (BN2 : jm (x_unords (detach att s1)) j = true -> fst (r_base j) = x_next (detach att s1)) by (autorewrite with xf; exact BN1).
    assert (NF : x_failed (detach att s1) = None) by (autorewrite with xf; auto).
    clear F1 C1 BN1 NF1. set (s2 := detach att s1) in *. clearbody s2. clear s1.
    bool_hyps.
    assert (Hok : dbs_ok cur = true) by assumption.
    assert (Hbit : d_bit (r_cur j) <= d_bit cur) by (apply N.leb_le; assumption).
    assert (Hoff : d_off (r_cur j) <= d_off cur) by (apply N.leb_le; assumption).
    assert (F2' := F2). destruct F2' as (I2 & J2 & L2 & B2 & M2).
    assert (V0 : forall us', cview0 s2 (give_unit (set_unords us' s2))) by (intro; cview0_tac).
    destruct (x_parsing_done s2) eqn:PD.
    { inversion H; subst. eapply cinv_parts; [exact C2| |].
      - destruct (c_retr_done_drops_link cfg); [apply V0|cview0_tac].
      - apply cparts_give_unit. destruct (c_retr_done_drops_link cfg); [|apply cparts_of; auto].
        apply cparts_drop_link; auto; [apply cparts_of; auto|].
        intros u0 Hin0 _ _ Q. exfalso. destruct C2 as [_ _ _ Cn _ _ _]. specialize (Cn NF PD). rewrite Forall_forall in Cn.
        rewrite (Cn u0 Hin0) in Q. discriminate. }
    destruct (link_state (r_link j) s2) as [u|] eqn:LS.
    - destruct (link_state_spec _ _ _ LS) as (id & EL & Hu & Hid). rewrite EL in H. cbn [andb negb orb] in H.
      destruct (u_complete u) eqn:UC; cbn [andb negb orb] in H.
      + destruct (u_legit u) eqn:UL; cbn [andb negb orb] in H.
        * assert (JM : jm (x_unords s2) j = true) by (eapply jm_of_link_state; eauto).
          eapply (cretr1_master cfg j (Some id) rv cur s2 st' EL CR F2 C2 NF JM (BN2 JM) PD Hoff EV). exact H.
        * inversion H; subst. eapply cinv_parts; [exact C2| |].
          -- destruct (c_retr_abort_drops_link cfg); [apply (V0 (drop_link (Some (u_id u)) (x_unords s2)))|cview0_tac].
          -- apply cparts_give_unit. destruct (c_retr_abort_drops_link cfg); [|apply cparts_of; auto].
             refine (cparts_drop_link (Some (u_id u)) s2 I2 (cparts_of _ NF C2) _).
             intros u0 Hin0 L C0 _. exfalso. inversion L.
             assert (u0 = u) by (apply (nodup_id_unique (x_unords s2)); auto; apply I2). congruence.
      + eapply (cretr1_spec cfg j id rv cur s2 st' CR F2 C2 NF EL BN2); try exact H; auto.
        intros u0 Hin0 E0. assert (u0 = u) by (apply (nodup_id_unique (x_unords s2)); auto; [apply I2|congruence]). congruence.
    - assert (EL : (exists id, r_link j = Some id) \/ r_link j = None) by (destruct (r_link j); eauto).
      destruct EL as [[id EL]|EL]; rewrite EL in H; cbn [andb negb orb] in H.
      + eapply (cretr1_spec cfg j id rv cur s2 st' CR F2 C2 NF EL BN2); try exact H; auto.
        intros u0 Hin0 E0. exfalso. unfold link_state in LS. rewrite EL in LS. eapply get_unord_none; eauto.
      + assert (JM : jm (x_unords s2) j = true) by (unfold jm; rewrite EL; reflexivity).
        eapply (cretr1_master cfg j None rv cur s2 st' EL CR F2 C2 NF JM (BN2 JM) PD Hoff EV). exact H.
  Qed.

  (* ---- the parser ---------------------------------------------------------------------------- *)
  Definition CSq (p : N) (s : xstate) : Prop :=
    forall L R, SeqDec O 0 0 L R -> exists l', L = x_written s ++ l' /\
      match x_failed s with
      | None => Rest (x_order_q s) (x_parsing_done s) (x_par s) p l' R
      | Some _ => R = false
      end.

  Lemma CSq_ext p s s' : x_written s' = x_written s -> x_failed s' = x_failed s -> x_order_q s' = x_order_q s ->
    x_parsing_done s' = x_parsing_done s -> x_par s' = x_par s -> CSq p s -> CSq p s'.
  Proof. unfold CSq. intros -> -> -> -> ->. auto. Qed.

  Lemma Rest_done_any q ps p ps' p' l r : Rest q true ps p l r -> Rest q true ps' p' l r.
  Proof.
    intro H. remember true as d. induction H; subst; try discriminate.
    - constructor.
    - eapply Rest_ok; eauto.
    - eapply Rest_fail; eauto.
  Qed.

  Lemma no_masters_jm s j : masters s = 0%nat -> In j (all_jobs s) -> jm (x_unords s) j = false.
  Proof.
    unfold masters. intros M Hj. destruct (jm (x_unords s) j) eqn:E; auto.
    assert (In j (filter (jm (x_unords s)) (all_jobs s))) by (apply filter_In; auto).
    destruct (filter (jm (x_unords s)) (all_jobs s)); [contradiction|discriminate].
  Qed.

  Lemma cparts_detached s us' :
    (forall u, In u us' -> exists u0, In u0 (x_unords s) /\ (u = u0 \/ (u_inq u0 = true /\ u = u_detach false u0))) ->
    cparts s -> cparts (set_unords us' s).
  Proof.
    intros ST (Cm & Cu & Cn). split; [|split]; unfold all_jobs in *; xs.
    - eapply Forall_impl; [|exact Cm]. simpl. intros j K J. apply K. revert J. unfold jm. destruct (r_link j) as [id|]; auto.
      rewrite !existsb_exists. intros (u & Hu & E). destruct (ST u Hu) as (u0 & H0 & [->|[_ ->]]); [exists u0; auto|].
      simpl in E. rewrite andb_false_r in E. discriminate.
    - apply Forall_forall. intros u Hu Q C. rewrite Forall_forall in Cu.
      destruct (ST u Hu) as (u0 & H0 & [->|[_ ->]]); auto. simpl in Q. discriminate.
    - intro K. specialize (Cn K). apply Forall_forall. intros u Hu. rewrite Forall_forall in Cn.
      destruct (ST u Hu) as (u0 & H0 & [->|[_ ->]]); auto.
  Qed.

  Lemma cinv_build st' p :
    CSq p st' -> pnext st' = p -> cparts st' ->
    Forall ejob_ok (x_emit_q st') -> Forall cont_ok (x_running st') -> Forall oblk_ok (x_reord_q st') -> cinv st'.
  Proof. intros Cs PN (A & B & C) E K R. constructor; auto. rewrite PN. exact Cs. Qed.

  Lemma cparse_ok cfg lv crc s :
    inv s -> masters s = 0%nat -> nparse s = 0%nat -> x_parse_token s = false -> x_parsing_done s = false ->
    dbs_norm (x_parser_bs s) = true -> x_next s = d_bit (x_parser_bs s) -> cparts s ->
    Forall ejob_ok (x_emit_q s) -> Forall cont_ok (x_running s) -> Forall oblk_ok (x_reord_q s) ->
    CSq (d_bit (blk_end O (d_bit (x_parser_bs s)))) (set_order_q (x_order_q s ++ [mkhead (d_pos (x_parser_bs s)) lv crc]) s) ->
    cinv (parse_ok cfg lv crc s).
  Proof.
    intros I M0 N0 T0 PD NB NX P0 Ce Cc Cr CS. unfold parse_ok.
    set (p := d_pos (x_parser_bs s)) in *.
    set (s1 := set_order_q (x_order_q s ++ [mkhead p lv crc]) s) in *.
    assert (V1 : view_eq s s1) by (subst s1; view_tac).
    assert (I1 : inv s1) by (eapply inv_view; eauto).
    assert (E1 : masters s1 = 0%nat /\ nparse s1 = 0%nat /\ x_parse_token s1 = false /\ x_parsing_done s1 = false /\
                 x_parser_bs s1 = x_parser_bs s /\ x_next s1 = x_next s /\ x_emit_q s1 = x_emit_q s /\ x_running s1 = x_running s /\
                 x_reord_q s1 = x_reord_q s)
      by (subst s1; unfold masters, all_jobs, nparse in *; xs; auto 10).
    assert (P1 : cparts s1) by (destruct P0 as (A & B & C); subst s1; split; [|split]; unfold all_jobs in *; xs; auto).
    clearbody s1. clear V1 I M0 N0 T0 PD P0. destruct E1 as (M1 & N1 & T1 & PD1 & PB1 & NX1 & EQ1 & RU1 & RO1).
    set (s2 := set_unords (discard_below p (x_unords s1)) s1).
    destruct (inv_detached s1 (discard_below p (x_unords s1))) as (I2 & M2); auto.
    { apply discard_below_spec. } { apply nodup_discard. apply I1. }
    assert (P2 : cparts s2) by (apply cparts_detached; auto; apply discard_below_spec).
    fold s2 in I2, M2.
    assert (E2 : nparse s2 = 0%nat /\ x_parse_token s2 = false /\ x_parsing_done s2 = false /\ x_parser_bs s2 = x_parser_bs s /\
                 x_next s2 = x_next s /\ x_emit_q s2 = x_emit_q s /\ x_running s2 = x_running s /\ x_reord_q s2 = x_reord_q s)
      by (subst s2; unfold nparse in *; xs; auto 10).
    assert (CS2 : CSq (d_bit (blk_end O (d_bit (x_parser_bs s)))) s2) by (eapply CSq_ext; [| | | | |exact CS]; subst s2; xs; auto).
    destruct E2 as (N2 & T2 & PD2 & PB2 & NX2 & EQ2 & RU2 & RO2). clearbody s2. clear I1 P1 CS.
    assert (M2' : masters s2 = 0%nat) by lia. clear M2 M1.
    assert (FN : x_next s2 = fst p) by (rewrite NX2, NX; reflexivity).
    assert (NEW : cinv (set_retr_q (mkrjob p (x_parser_bs s2) None :: x_retr_q s2) s2)).
    { eapply cinv_build; [| | |xs; rewrite EQ2; auto|xs; rewrite RU2; auto|xs; rewrite RO2; auto].
      - eapply CSq_ext; [| | | | |exact CS2]; xs; auto.
      - unfold pnext, nparse in *. xs. rewrite T2, N2. simpl. rewrite NX2, NX. reflexivity.
      - destruct P2 as (A & B & C). split; [|split]; unfold all_jobs in *; xs; auto.
        simpl. constructor; auto; simpl; intros _; auto. }
    destruct (qmin u_base pos_lt (unord_q s2)) as [u|] eqn:Q; [|exact NEW].
    destruct (pos_eq (u_base u) p) eqn:PE; [|exact NEW]. clear NEW.
    apply pos_eq_spec in PE. apply qmin_In in Q. unfold unord_q in Q. apply filter_In in Q. destruct Q as [Hu Qi].
    assert (UO : unord_ok u) by (destruct I2 as [_ _ _ _ Iu _ _ _ _ _ _ _ _]; rewrite Forall_forall in Iu; auto).
    destruct UO as (O1 & O2 & O3). destruct (O1 Qi) as (Oe & Ob & Ol).
    assert (HD : x_head_offs s2 <= d_off (u_end u)).
    { assert (x_head_offs s2 <= d_off (x_parser_bs s2)) by (apply I2; auto).
      rewrite PE in Ob. subst p. unfold d_pos in Ob. simpl in Ob. rewrite PB2 in *. unfold dbs_ok, dbs_norm in *. lia. }
    destruct (inv_advance cfg (u_end u) s2 I2 M2' HD) as (I3 & M3 & H3a & H3b & ST & RP).
    pose proof (cparts_advance cfg (u_end u) s2 I2 M2' HD P2) as P3.
    assert (RJ : forall j, In j (all_jobs s2) -> links (u_id u) j = true -> u_base u = r_base j).
    { intros j Hj L. destruct I2 as [_ _ _ _ _ _ Ij _ _ _ _ _ _]. rewrite Forall_forall in Ij.
      destruct (Ij j Hj) as (_ & _ & _ & _ & J5).
      unfold links in L. apply optN_eqb_eq in L. destruct (J5 _ u L Hu eq_refl) as [B _]. auto. }
    assert (UE : u_complete u = true -> u_end u = blk_end O (fst p)).
    { intro UC. destruct P2 as (_ & Pu & _). rewrite Forall_forall in Pu. destruct (Pu u Hu Qi UC) as [A|A]; [rewrite A, PE; reflexivity|lia]. }
    assert (PB3 : x_parser_bs (advance cfg (u_end u) s2) = u_end u) by (unfold advance; autorewrite with xf; xs; reflexivity).
    assert (AJ3 : forall j, In j (all_jobs (advance cfg (u_end u) s2)) -> In j (all_jobs s2)).
    { intros j Hj. unfold all_jobs in *. autorewrite with xf in Hj. apply in_app_or in Hj. apply in_or_app. destruct Hj as [Hj|Hj]; auto. left.
      assert (RP' := RP (fun x => In x (x_retr_q s2)) ltac:(apply Forall_forall; auto)). rewrite Forall_forall in RP'. apply RP'; auto. }
    assert (E3 : nparse (advance cfg (u_end u) s2) = 0%nat /\ x_parse_token (advance cfg (u_end u) s2) = false /\
                 x_next (advance cfg (u_end u) s2) = x_next s /\ x_emit_q (advance cfg (u_end u) s2) = x_emit_q s /\
                 x_running (advance cfg (u_end u) s2) = x_running s /\ x_reord_q (advance cfg (u_end u) s2) = x_reord_q s)
      by (unfold nparse in *; autorewrite with xf; auto 10).
    assert (CS3 : CSq (d_bit (blk_end O (d_bit (x_parser_bs s)))) (advance cfg (u_end u) s2))
      by (eapply CSq_ext; [| | | | |exact CS2]; autorewrite with xf; auto).
    set (s3 := advance cfg (u_end u) s2) in *. destruct E3 as (N3 & T3 & NX3 & EQ3 & RU3 & RO3). clearbody s3.
    destruct (u_complete u) eqn:UC.
    - specialize (UE eq_refl).
      eapply cinv_build; [| | |unfold give_unit; xs; rewrite EQ3; auto|unfold give_unit; xs; rewrite RU3; auto|unfold give_unit; xs; rewrite RO3; auto].
      + eapply CSq_ext; [| | | | |exact CS3]; unfold give_unit; xs; auto.
      + unfold pnext, give_unit. xs. simpl. rewrite PB3, UE. subst p. reflexivity.
      + apply cparts_give_unit. destruct P3 as (A & B & C). split; [|split]; unfold all_jobs in *; xs.
        * eapply Forall_impl; [|exact A]. simpl. intros x K J. apply K. eapply jm_stems; [| |exact J].
          -- unfold del_unord. intros v Hv. apply filter_In in Hv. exists v. split; [tauto|apply stems_refl].
          -- apply I3.
        * unfold del_unord. apply Forall_forall. intros v Hv. apply filter_In in Hv. rewrite Forall_forall in B. apply B. tauto.
        * intro K. specialize (C K). unfold del_unord. apply Forall_forall. intros v Hv. apply filter_In in Hv.
          rewrite Forall_forall in C. apply C. tauto.
    - eapply cinv_build; [| | |unfold give_unit; xs; rewrite EQ3; auto|unfold give_unit; xs; rewrite RU3; auto|unfold give_unit; xs; rewrite RO3; auto].
      + eapply CSq_ext; [| | | | |exact CS3]; unfold give_unit; xs; auto.
      + unfold pnext, nparse, give_unit in *. xs. rewrite T3, N3. simpl. rewrite NX3, NX. reflexivity.
      + apply cparts_give_unit. destruct P3 as (A & B & C). split; [|split]; unfold all_jobs in *; xs.
        * apply Forall_forall. intros x Hx J. destruct (jm_detach _ _ _ J) as [J1|J1].
          -- exfalso. rewrite (no_masters_jm s3 x M3) in J1; [discriminate|exact Hx].
          -- rewrite NX3, NX. rewrite <- (RJ x (AJ3 x Hx) J1). rewrite PE. subst p. reflexivity.
        * unfold upd_unord. apply Forall_forall. intros v Hv Qv Cv. apply in_map_iff in Hv. destruct Hv as (v0 & <- & H0).
          rewrite Forall_forall in B. destruct (u_id v0 =? u_id u); [simpl in Qv; discriminate|auto].
        * intro K. specialize (C K). unfold upd_unord. apply Forall_forall. intros v Hv. apply in_map_iff in Hv.
          destruct Hv as (v0 & <- & H0). rewrite Forall_forall in C. destruct (u_id v0 =? u_id u); simpl; auto.
  Qed.

  Lemma flush_noinq us : Forall (fun u => u_inq u = false) (flush_unords us).
  Proof.
    unfold flush_unords. apply Forall_forall. intros u Hu. apply in_map_iff in Hu. destruct Hu as (u0 & <- & H0).
    destruct (u_inq u0) eqn:Q; auto.
  Qed.

  Lemma cparse_finish cfg g s :
    inv s -> masters s = 0%nat -> nparse s = 0%nat -> x_failed s = None -> cparts s ->
    Forall ejob_ok (x_emit_q s) -> Forall cont_ok (x_running s) -> Forall oblk_ok (x_reord_q s) ->
    (forall L R, SeqDec O 0 0 L R -> exists l', L = x_written s ++ l' /\
       if finish_eof_error (x_parser_bs s) g s then R = false else Rest (x_order_q s) true (x_par s) 0 l' R) ->
    cinv (parse_finish cfg g s).
  Proof.
    intros I M0 N0 NF (Pm & Pu & Pn) Ce Cc Cr CS.
    pose proof (inv_parse_finish cfg g s I M0 N0) as IR.
    unfold parse_finish in *. unfold finish_eof_error in CS.
    set (pb' := mkdbs _ _) in *.
    match goal with |- cinv (if ?c then _ else _) => destruct c eqn:CK end.
    - (* unexpected end of file *)
      assert (CK' := CK). unfold pb' in CK'. xs in CK'. cbn [d_bit d_off] in CK'. rewrite CK' in CS. clear CK'.
      constructor; unfold all_jobs, fail in *; xs; auto.
      all: try discriminate.
      all: try (intros L R SD; destruct (CS L R SD) as (l' & E & F); exists l'; auto).
    - assert (CK' := CK). unfold pb' in CK'. xs in CK'. cbn [d_bit d_off] in CK'. rewrite CK' in CS. clear CK'.
      match goal with |- cinv ?r => set (r0 := r) in * end.
      assert (MR : masters r0 = 0%nat).
      { pose proof (i_excl _ IR) as Ie. unfold masters.
        assert (x_parse_token r0 = true) by (subst r0; destruct (c_finish_drops_link cfg); xs; autorewrite with xf; xs; reflexivity).
        rewrite H in Ie. change (b2n true) with 1%nat in Ie. lia. }
      assert (UR : Forall (fun u => u_inq u = false) (x_unords r0)).
      { subst r0. destruct (c_finish_drops_link cfg); xs; autorewrite with xf; xs; apply flush_noinq. }
      assert (ER : x_emit_q r0 = x_emit_q s /\ x_running r0 = x_running s /\ x_reord_q r0 = x_reord_q s /\
                   x_written r0 = x_written s /\ x_failed r0 = x_failed s /\ x_order_q r0 = x_order_q s /\
                   x_parsing_done r0 = true /\ x_par r0 = x_par s).
      { subst r0. destruct (c_finish_drops_link cfg); xs; autorewrite with xf; xs; auto 10. }
      destruct ER as (E1 & E2 & E3 & E4 & E5 & E6 & E7 & E8). clearbody r0.
      constructor; rewrite ?E1, ?E2, ?E3; auto.
      + rewrite E4, E5, E6, E7, E8, NF. intros L R SD. destruct (CS L R SD) as (l' & E & F). exists l'. split; auto.
        eapply Rest_done_any; eauto.
      + apply Forall_forall. intros j Hj J. rewrite (no_masters_jm r0 j MR Hj) in J. discriminate.
      + eapply Forall_impl; [|exact UR]. simpl. intros u Q1 Q2. congruence.
  Qed.

  Lemma cinv_parse1 cfg att r st st' :
    x_failed st = None -> inv st -> cinv st -> ev_ok O st (EvParse1 att r) -> parse1 cfg att r st = Some st' -> cinv st'.
  Proof.
    intros NF I C EV H. unfold parse1 in H.
    destruct (del_run (CParse att) st) as [s1|] eqn:D; [|discriminate].
    destruct (inv_del_parse _ _ _ D I) as (I1 & M1 & N1 & T1 & PD1).
    destruct (del_run_spec _ _ _ D) as (l1 & l2 & E & ES1).
    assert (PN0 : pnext st = d_bit (x_parser_bs st)).
    { unfold pnext, nparse. rewrite E, filter_len_app. simpl.
      replace (length (filter is_parse l1) + S (length (filter is_parse l2)) =? 0)%nat with false by (symmetry; apply Nat.eqb_neq; lia).
      rewrite orb_true_r. reflexivity. }
    destruct (cparts_of _ NF C) as (Pm & Pu & Pn). destruct C as [Cs _ _ _ Ce Cc Cr]. rewrite PN0 in Cs.
    rewrite E in Cc. apply Forall_del in Cc. destruct Cc as [Cc _].
    set (p0 := d_bit (x_parser_bs st)) in *. set (ps0 := x_par st) in *.
    assert (F1 : x_failed s1 = None /\ x_emit_q s1 = x_emit_q st /\ x_running s1 = l1 ++ l2 /\ x_reord_q s1 = x_reord_q st /\
                 x_parser_bs s1 = x_parser_bs st /\ x_par s1 = ps0 /\ x_tail_offs s1 = x_tail_offs st /\ x_eof_missing s1 = x_eof_missing st)
      by (subst s1; xs; auto 10).
    assert (CS1 : CSq p0 s1) by (eapply CSq_ext; [| | | | |exact Cs]; subst s1; xs; auto).
    assert (P1 : cparts s1).
    { subst s1. split; [|split]; unfold all_jobs in *; xs; auto. rewrite E in Pm. rewrite !run_jobs_app in *. exact Pm. }
    clear Cs Pm Pu Pn I D ES1 E. destruct F1 as (NF1 & EQ1 & RU1 & RO1 & PB1 & PA1 & TL1 & EM1).
    set (aend := att_end att s1) in *. clearbody aend.
    match type of H with (if ?c then _ else _) = _ => destruct c eqn:CC; [|discriminate] end. bool_hyps.
    assert (I2 : inv (detach att s1)) by (eapply inv_view; [apply view_detach|auto]).
    assert (P2 : cparts (detach att s1)).
    { destruct P1 as (A & B & C). split; [|split]; unfold all_jobs in *; autorewrite with xf; auto. }
    assert (CS2 : CSq p0 (detach att s1)) by (eapply CSq_ext; [| | | | |exact CS1]; autorewrite with xf; auto).
    assert (E2 : masters (detach att s1) = 0%nat /\ nparse (detach att s1) = 0%nat /\ x_parse_token (detach att s1) = false /\
                 x_parsing_done (detach att s1) = false /\ x_parser_bs (detach att s1) = x_parser_bs st /\
                 x_failed (detach att s1) = None /\ x_emit_q (detach att s1) = x_emit_q st /\ x_running (detach att s1) = l1 ++ l2 /\
                 x_reord_q (detach att s1) = x_reord_q st /\ x_par (detach att s1) = ps0 /\
                 x_tail_offs (detach att s1) = x_tail_offs st /\ x_eof_missing (detach att s1) = x_eof_missing st)
      by (unfold masters, all_jobs, nparse in *; autorewrite with xf; auto 15).
    set (s2 := detach att s1) in *. destruct E2 as (M2 & N2 & T2 & PD2 & PB2 & NF2 & EQ2 & RU2 & RO2 & PA2 & TL2 & EM2).
    clearbody s2. clear I1 P1 CS1.
    assert (HD : x_head_offs s2 <= d_off (res_bs r)).
    { assert (x_head_offs s2 <= d_off (x_parser_bs s2)) by (apply I2; auto). rewrite PB2 in *.
      match goal with K : (d_off (x_parser_bs s1) <=? d_off (res_bs r)) = true |- _ => apply N.leb_le in K; rewrite PB1 in K end. lia. }
    destruct (inv_advance cfg (res_bs r) s2 I2 M2 HD) as (I3 & M3 & H3a & H3b & ST & RP).
    pose proof (cparts_advance cfg (res_bs r) s2 I2 M2 HD P2) as P3.
    assert (CS3 : CSq p0 (advance cfg (res_bs r) s2)) by (eapply CSq_ext; [| | | | |exact CS2]; autorewrite with xf; auto).
    assert (E3 : nparse (advance cfg (res_bs r) s2) = 0%nat /\ x_parse_token (advance cfg (res_bs r) s2) = false /\
                 x_parsing_done (advance cfg (res_bs r) s2) = false /\ x_failed (advance cfg (res_bs r) s2) = None /\
                 x_emit_q (advance cfg (res_bs r) s2) = x_emit_q st /\ x_running (advance cfg (res_bs r) s2) = l1 ++ l2 /\
                 x_reord_q (advance cfg (res_bs r) s2) = x_reord_q st /\ x_par (advance cfg (res_bs r) s2) = ps0 /\
                 x_tail_offs (advance cfg (res_bs r) s2) = x_tail_offs st /\ x_eof_missing (advance cfg (res_bs r) s2) = x_eof_missing st)
      by (unfold nparse in *; autorewrite with xf; auto 15).
    assert (PB3 : x_parser_bs (advance cfg (res_bs r) s2) = res_bs r) by (unfold advance; autorewrite with xf; xs; reflexivity).
    set (s3 := advance cfg (res_bs r) s2) in *.
    destruct E3 as (N3 & T3 & PD3 & NF3 & EQ3 & RU3 & RO3 & PA3 & TL3 & EM3). clearbody s3.
    assert (Ce3 : Forall ejob_ok (x_emit_q s3)) by (rewrite EQ3; auto).
    assert (Cc3 : Forall cont_ok (x_running s3)) by (rewrite RU3; auto).
    assert (Cr3 : Forall oblk_ok (x_reord_q s3)) by (rewrite RO3; auto).
    destruct r as [bs ps|bs g|bs code|bs ps lv crc]; simpl res_bs in *; simpl in EV; fold p0 ps0 in EV.
    - (* MORE *)
      match type of H with (if ?c then _ else _) = _ => destruct c; [|discriminate] end. inversion H; subst st'. clear H.
      eapply (cinv_build _ (d_bit bs)); [| | |xs; auto|xs; auto|xs; auto].
      + intros L R SD. destruct (CS3 L R SD) as (l' & EL & RS). exists l'. xs. split; auto.
        rewrite NF3, PA3 in *. eapply Rest_more; eauto.
      + unfold pnext. xs. simpl. rewrite PB3. reflexivity.
      + destruct P3 as (A & B & C). split; [|split]; unfold all_jobs in *; xs; auto.
    - (* FINISH *)
      match type of H with (if ?c then _ else _) = _ => destruct c; [|discriminate] end. inversion H; subst st'. clear H.
      apply cparse_finish; auto.
      intros L R SD. destruct (CS3 L R SD) as (l' & EL & RS). exists l'. split; auto. rewrite NF3, PD3, PA3 in RS.
      assert (FE : finish_eof_error (x_parser_bs s3) g s3 = finish_eof_error bs g st).
      { unfold finish_eof_error. rewrite PB3, TL3, EM3. reflexivity. }
      rewrite FE. pose proof (Rest_finish _ _ _ _ _ _ EV RS) as RF.
      destruct (finish_eof_error bs g st); auto. eapply Rest_done_any; eauto.
    - (* error *)
      match type of H with (if ?c then _ else _) = _ => destruct c; [discriminate|] end. inversion H; subst st'. clear H.
      destruct P3 as (A & B & C). constructor; unfold all_jobs, fail in *; xs; auto.
      all: try discriminate.
      intros L R SD. destruct (CS3 L R SD) as (l' & EL & RS). exists l'. split; auto. rewrite NF3, PD3, PA3 in RS.
      eapply (Rest_err _ ps0 p0); eauto.
    - (* a block header *)
      match type of H with (if ?c then _ else _) = _ => destruct c eqn:NB; [|discriminate] end. inversion H; subst st'. clear H.
      apply cparse_ok; unfold masters, all_jobs, nparse in *; xs; auto.
      + eapply inv_view; [|exact I3]. view_tac.
      + rewrite PB3. exact NB.
      + rewrite PB3. reflexivity.
      + destruct P3 as (A & B & C). split; [|split]; unfold all_jobs in *; xs; auto.
        apply Forall_forall. intros j Hj J. exfalso. rewrite (no_masters_jm s3 j) in J; [discriminate| |exact Hj].
        unfold masters, all_jobs. exact M3.
      + rewrite PB3. intros L R SD. destruct (CS3 L R SD) as (l' & EL & RS). exists l'. xs. split; auto.
        rewrite NF3, PD3, PA3 in *. apply (Rest_push _ ps0 p0); auto.
  Qed.

  Theorem cinv_step cfg st e st' :
    cfg_safe cfg -> inv st -> cinv st -> ev_ok O st e -> step cfg st e = Some st' -> cinv st'.
  Proof.
    intros CS I C EV H. unfold step in H. destruct (x_failed st) eqn:NF; [discriminate|].
    destruct e.
    - eapply cinv_input; eauto.
    - eapply cinv_eof; eauto.
    - eapply cinv_written; eauto.
    - eapply cinv_parse0; eauto.
    - eapply cinv_parse1; eauto.
    - eapply cinv_retr0; eauto.
    - eapply cinv_retr1; eauto.
    - eapply cinv_retr2; eauto.
    - eapply cinv_emit0; eauto.
    - eapply cinv_emit1; eauto.
    - eapply cinv_reorder; eauto.
    - eapply cinv_scan0; eauto.
    - eapply cinv_scan1; eauto.
  Qed.

  Lemma oreach_reach cfg s0 st : oreach O cfg s0 st -> reach cfg s0 st.
  Proof. induction 1; [constructor|econstructor; eauto]. Qed.

  Theorem cinv_oreach cfg n tin tout ultra st :
    cfg_safe cfg -> oreach O cfg (init_state n tin tout ultra) st -> inv st /\ cinv st.
  Proof.
    intros CS R. induction R as [|st e st' R IH EV H].
    - split; [apply inv_init|apply cinv_init].
    - destruct IH as [I C]. split; [eapply inv_step; eauto|eapply cinv_step; eauto].
  Qed.

  (* C10: whatever the scanner reported, for every worker count, slot configuration,
     input fragmentation and interleaving: what has been handed to the writer is a
     prefix of the sequential decoding; a failing run means the sequential decoding
     fails; a run that terminates normally has handed over exactly the sequential
     decoding, which then succeeds. *)
  Theorem speculation_free cfg n tin tout ultra st L R :
    cfg_safe cfg -> oreach O cfg (init_state n tin tout ultra) st -> SeqDec O 0 0 L R ->
    (exists l', L = x_written st ++ l') /\
    (x_failed st <> None -> R = false) /\
    (x_failed st = None -> x_parsing_done st = true -> x_order_q st = [] -> x_written st = L /\ R = true).
  Proof.
    intros CS RE SD. destruct (cinv_oreach _ _ _ _ _ _ CS RE) as [I C].
    destruct (c_seq _ C L R SD) as (l' & EL & RS). split; [eauto|]. split.
    - intro NF. destruct (x_failed st); [auto|congruence].
    - intros NF PD OQ. rewrite NF, PD, OQ in RS. inversion RS; subst. rewrite app_nil_r. auto.
  Qed.
End C10.
