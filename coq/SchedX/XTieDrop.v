(* Tie-breaking (continued, see XTie.v): the unord blocks that advance() gives back do not depend on the
   order in which the dropped retrieve jobs are dequeued. *)
From Coq Require Import List NArith Bool Lia Arith ZifyBool ZifyN ZifyNat Permutation.
From LBZ Require Import Gen.Consts SchedX.XState Gen.SchedXTab SchedX.XSet SchedX.XModel SchedX.XLemmas
  SchedX.XInvDefs SchedX.XInv4 SchedX.XC10 SchedX.XTie.
Import ListNotations.
Local Open Scope N_scope.

(* ---- the unord blocks given back by advance(): independent of the order of the dropped jobs -------- *)
Lemma get_unord_del_other id1 id2 us : id1 <> id2 -> get_unord id1 (del_unord id2 us) = get_unord id1 us.
Proof.
  intro NE. unfold get_unord, del_unord. induction us as [|u r IH]; simpl; auto.
  destruct (u_id u =? id2) eqn:E2; simpl.
  - destruct (u_id u =? id1) eqn:E1; [exfalso; apply NE; apply N.eqb_eq in E1; apply N.eqb_eq in E2; congruence|exact IH].
  - destruct (u_id u =? id1); auto.
Qed.

Lemma get_unord_upd_other id1 id2 f us : id1 <> id2 -> (forall u, u_id (f u) = u_id u) ->
  get_unord id1 (upd_unord id2 f us) = get_unord id1 us.
Proof.
  intros NE HF. unfold get_unord, upd_unord. induction us as [|u r IH]; simpl; auto.
  destruct (u_id u =? id2) eqn:E2.
  - rewrite HF. destruct (u_id u =? id1) eqn:E1; [exfalso; apply NE; apply N.eqb_eq in E1; apply N.eqb_eq in E2; congruence|exact IH].
  - destruct (u_id u =? id1); auto.
Qed.

Lemma del_del_comm a b us : del_unord a (del_unord b us) = del_unord b (del_unord a us).
Proof.
  unfold del_unord. induction us as [|u r IH]; simpl; auto.
  destruct (u_id u =? b) eqn:Eb; destruct (u_id u =? a) eqn:Ea; simpl; rewrite ?Ea, ?Eb; simpl; rewrite ?IH; auto.
Qed.

Lemma del_upd_comm a b f us : (forall u, u_id (f u) = u_id u) ->
  del_unord a (upd_unord b f us) = upd_unord b f (del_unord a us).
Proof.
  intro HF. unfold del_unord, upd_unord. induction us as [|u r IH]; simpl; auto.
  destruct (u_id u =? b) eqn:Eb; [rewrite HF|]; destruct (u_id u =? a) eqn:Ea; simpl; rewrite ?Eb; rewrite ?IH; auto.
Qed.

Lemma upd_upd_comm a b f g us : a <> b -> (forall u, u_id (f u) = u_id u) -> (forall u, u_id (g u) = u_id u) ->
  upd_unord a f (upd_unord b g us) = upd_unord b g (upd_unord a f us).
Proof.
  intros NE HF HG. unfold upd_unord. rewrite !map_map. apply map_ext. intro u.
  destruct (u_id u =? b) eqn:Eb; destruct (u_id u =? a) eqn:Ea; rewrite ?HG, ?HF, ?Ea, ?Eb; auto.
  exfalso. apply NE. apply N.eqb_eq in Ea. apply N.eqb_eq in Eb. congruence.
Qed.

Lemma get_unord_drop_other a b us : a <> b -> get_unord a (drop_link (Some b) us) = get_unord a us.
Proof.
  intro NE. unfold drop_link. destruct (get_unord b us) as [ub|]; auto. destruct (u_complete ub).
  - apply get_unord_del_other. exact NE.
  - apply get_unord_upd_other; auto.
Qed.

Lemma drop_link_comm l1 l2 us : l1 <> l2 \/ l1 = None -> drop_link l1 (drop_link l2 us) = drop_link l2 (drop_link l1 us).
Proof.
  intro D. destruct l1 as [a|]; [|reflexivity]. destruct l2 as [b|]; [|reflexivity].
  assert (NE : a <> b) by (destruct D as [D|D]; congruence). assert (NE' : b <> a) by congruence.
  assert (SC : forall u, u_id (u_set_complete u) = u_id u) by reflexivity.
  set (X := drop_link (Some b) us). set (Y := drop_link (Some a) us). unfold drop_link.
  assert (GA : get_unord a X = get_unord a us) by (subst X; apply get_unord_drop_other; exact NE).
  assert (GB : get_unord b Y = get_unord b us) by (subst Y; apply get_unord_drop_other; exact NE').
  rewrite GA, GB. subst X Y. unfold drop_link.
  destruct (get_unord a us) as [ua|] eqn:Ga; destruct (get_unord b us) as [ub|] eqn:Gb; auto;
    try (destruct (u_complete ua); reflexivity); try (destruct (u_complete ub); reflexivity).
  - destruct (u_complete ua) eqn:Ca; destruct (u_complete ub) eqn:Cb.
    + apply del_del_comm.
    + apply del_upd_comm. exact SC.
    + symmetry. apply del_upd_comm. exact SC.
    + apply upd_upd_comm; auto.
Qed.

(* jobs with pairwise distinct links (or none) *)
Definition links_distinct (js : list rjob) : Prop :=
  forall l1 j l2 j' l3, js = l1 ++ j :: l2 ++ j' :: l3 -> r_link j <> r_link j' \/ r_link j = None.

Lemma drop_links_cons j js us : drop_links (j :: js) us = drop_links js (drop_link (r_link j) us).
Proof. reflexivity. Qed.

Lemma drop_links_swap_head j js us :
  (forall j', In j' js -> r_link j <> r_link j' \/ r_link j = None) ->
  drop_links js (drop_link (r_link j) us) = drop_link (r_link j) (drop_links js us).
Proof.
  revert us. induction js as [|a r IH]; intros us H; [reflexivity|].
  rewrite !drop_links_cons. rewrite <- IH by (intros; apply H; right; auto).
  f_equal. symmetry. apply drop_link_comm. apply H. left. reflexivity.
Qed.

Theorem drop_links_perm js js' us :
  Permutation js js' ->
  (forall j j', In j js -> In j' js -> j <> j' -> r_link j <> r_link j' \/ r_link j = None) ->
  NoDup js ->
  drop_links js us = drop_links js' us.
Proof.
  intros P. revert us. induction P as [|x l l' P IH|x y l|l l' l'' P1 IH1 P2 IH2]; intros us SEP ND.
  - reflexivity.
  - rewrite !drop_links_cons. apply IH.
    + intros j j' Hj Hj'. apply SEP; right; auto.
    + inversion ND; auto.
  - rewrite !drop_links_cons. f_equal. apply drop_link_comm.
    inversion ND as [|? ? N1 N2]; subst. apply SEP; [right; left; auto|left; auto|]. intro E. subst. apply N1. left. reflexivity.
  - rewrite IH1 by auto. apply IH2.
    + intros j j' Hj Hj' NE. apply SEP; auto; eapply Permutation_in; try apply Permutation_sym; eauto.
    + eapply Permutation_NoDup; eauto.
Qed.

(* ---- the retrieve jobs of a reachable state are pairwise different and have different links ---------- *)
Lemma filter_two {A} (p : A -> bool) (l : list A) x y :
  In x l -> In y l -> x <> y -> p x = true -> p y = true -> (2 <= length (filter p l))%nat.
Proof.
  induction l as [|a r IH]; simpl; intros Hx Hy NE Px Py; [tauto|].
  destruct Hx as [->|Hx], Hy as [->|Hy].
  - congruence.
  - rewrite Px. simpl. assert (In y (filter p r)) by (apply filter_In; auto). destruct (filter p r); [contradiction|simpl; lia].
  - rewrite Py. simpl. assert (In x (filter p r)) by (apply filter_In; auto). destruct (filter p r); [contradiction|simpl; lia].
  - specialize (IH Hx Hy NE Px Py). destruct (p a); simpl; lia.
Qed.

Lemma nodup_by_count {A} (l : list A) :
  (forall x, In x l -> exists p : A -> bool, p x = true /\ (length (filter p l) <= 1)%nat) -> NoDup l.
Proof.
  induction l as [|a r IH]; intro H; constructor.
  - intro Ha. destruct (H a (or_introl eq_refl)) as (p & Pa & L). simpl in L. rewrite Pa in L. simpl in L.
    assert (In a (filter p r)) by (apply filter_In; auto). destruct (filter p r); [contradiction|simpl in L; lia].
  - apply IH. intros x Hx. destruct (H x (or_intror Hx)) as (p & Px & L). exists p. split; auto.
    simpl in L. destruct (p a); simpl in L; lia.
Qed.

Lemma links_refl id j : r_link j = Some id -> links id j = true.
Proof. unfold links. intros ->. apply optN_eqb_refl. Qed.

Lemma jm_unlinked us j : r_link j = None -> jm us j = true.
Proof. unfold jm. intros ->. reflexivity. Qed.

Lemma all_jobs_sep st : inv st ->
  NoDup (all_jobs st) /\
  forall j j', In j (all_jobs st) -> In j' (all_jobs st) -> j <> j' -> r_link j <> r_link j' \/ r_link j = None.
Proof.
  intro I. pose proof (i_links _ I) as IL. pose proof (i_excl _ I) as IE. split.
  - apply nodup_by_count. intros x Hx. destruct (r_link x) as [id|] eqn:L.
    + exists (links id). split; [apply links_refl; auto|apply IL].
    + exists (jm (x_unords st)). split; [apply jm_unlinked; auto|lia].
  - intros j j' Hj Hj' NE. destruct (r_link j) as [id|] eqn:L; [left|right; reflexivity].
    intro E. pose proof (filter_two (links id) (all_jobs st) j j' Hj Hj' NE (links_refl id j L) (links_refl id j' (eq_sym E))).
    specialize (IL id). lia.
Qed.

(* advance(): the store of unord blocks after the dropped jobs have given theirs back is the same for
   every rule that picks some minimal element of retr_q *)
Theorem advance_unords_any_tiebreak st pick hd :
  inv st ->
  (forall q j, pick q = Some j -> In j q /\ forall y, In y q -> pos_lt (rkey y) (rkey j) = false) ->
  (forall q, q <> [] -> exists j, pick q = Some j) ->
  drop_links (fst (adv_retr_g pick (length (x_retr_q st)) hd (x_retr_q st))) (x_unords st) =
  drop_links (fst (adv_retr (length (x_retr_q st)) hd (x_retr_q st))) (x_unords st).
Proof.
  intros I PM PS.
  assert (NM : Forall (fun j => dbs_norm (r_cur j) = true) (x_retr_q st)).
  { pose proof (i_jobs _ I) as IJ. unfold all_jobs in IJ. apply Forall_app in IJ. destruct IJ as [IJ _].
    eapply Forall_impl; [|exact IJ]. intros j J. apply J. }
  destruct (adv_retr_any_tiebreak pick hd (x_retr_q st) PM PS NM) as [_ P].
  destruct (adv_retr_g_spec pick PM PS (length (x_retr_q st)) hd (x_retr_q st) (le_n _) NM) as [_ PG].
  destruct (all_jobs_sep st I) as [ND SEP].
  assert (SUB : forall j, In j (fst (adv_retr_g pick (length (x_retr_q st)) hd (x_retr_q st))) -> In j (all_jobs st)).
  { intros j Hj. apply (Permutation_in _ PG) in Hj. apply filter_In in Hj. unfold all_jobs. apply in_or_app. left. tauto. }
  apply drop_links_perm; [exact P| |].
  - intros j j' Hj Hj' NE. apply SEP; auto.
  - apply (Permutation_NoDup (Permutation_sym PG)). apply NoDup_filter.
    unfold all_jobs in ND. clear - ND. induction (x_retr_q st) as [|a r IH]; [constructor|].
    simpl in ND. inversion ND; subst. constructor; [rewrite in_app_iff in *; tauto|auto].
Qed.

Lemma C11x_advance_unords_any_tiebreak_gen n tin tout ultra st (pick : list rjob -> option rjob) hd :
  reach gen_cfg (init_state n tin tout ultra) st ->
  (forall q j, pick q = Some j -> In j q /\ forall y, In y q -> pos_lt (rkey y) (rkey j) = false) ->
  (forall q, q <> [] -> exists j, pick q = Some j) ->
  drop_links (fst (adv_retr_g pick (length (x_retr_q st)) hd (x_retr_q st))) (x_unords st) =
  drop_links (fst (adv_retr (length (x_retr_q st)) hd (x_retr_q st))) (x_unords st).
Proof. intro R. apply advance_unords_any_tiebreak. exact (inv_reach _ _ _ _ _ _ gen_cfg_safe R). Qed.
