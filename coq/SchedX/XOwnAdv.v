(* Ownership invariant (XOwn.v): advance() and the parser's events. *)
From Coq Require Import List NArith Bool Lia Arith ZifyBool ZifyN Sorted.
From LBZ Require Import Gen.Consts SchedX.XState Gen.SchedXTab SchedX.XSet SchedX.XModel SchedX.XLemmas
  SchedX.XFrame SchedX.XInvDefs SchedX.XOps SchedX.XInv SchedX.XInv2 SchedX.XInv3 SchedX.XInv4 SchedX.XOracle
  SchedX.XSeq SchedX.XOwn.
Import ListNotations.
Local Open Scope N_scope.

(* ---- drop_unord_link ------------------------------------------------------------------- *)
Lemma drop_link_done id us u : In u (drop_link (Some id) us) -> u_id u = id -> u_complete u = true.
Proof.
  unfold drop_link. destruct (get_unord id us) as [u1|] eqn:G.
  - destruct (u_complete u1).
    + unfold del_unord. rewrite filter_In. intros [_ K] E. rewrite E, N.eqb_refl in K. discriminate.
    + unfold upd_unord. rewrite in_map_iff. intros (u0 & E0 & H0) E. destruct (u_id u0 =? id) eqn:K.
      * subst u. reflexivity.
      * subst u. rewrite E, N.eqb_refl in K. discriminate.
  - intros Hu E. exfalso. eapply get_unord_none; eauto.
Qed.

Lemma drop_link_other l us u : In u us -> l <> Some (u_id u) -> In u (drop_link l us).
Proof.
  intros Hu N. unfold drop_link. destruct l as [id|]; auto. destruct (get_unord id us) as [u1|]; auto.
  assert (K : (u_id u =? id) = false) by (apply N.eqb_neq; congruence).
  destruct (u_complete u1).
  - unfold del_unord. apply filter_In. split; auto. rewrite K. reflexivity.
  - unfold upd_unord. apply in_map_iff. exists u. rewrite K. auto.
Qed.

Lemma drop_links_other js us u : In u us -> (forall j, In j js -> r_link j <> Some (u_id u)) -> In u (drop_links js us).
Proof.
  unfold drop_links. revert us. induction js as [|j r IH]; simpl; intros us Hu N; auto.
  apply IH; [apply drop_link_other; auto|auto].
Qed.

Lemma drop_links_complete js us u : In u (drop_links js us) -> u_complete u = false ->
  In u us /\ forall j, In j js -> r_link j <> Some (u_id u).
Proof.
  unfold drop_links. revert us. induction js as [|j r IH]; simpl; intros us Hu C; [split; auto|].
  destruct (IH _ Hu C) as [H1 N1]. split.
  - destruct (drop_link_raised _ _ _ H1) as [H2|(u0 & id & _ & _ & _ & _ & E)]; auto. subst u. simpl in C. discriminate.
  - intros j0 [<-|Hj]; auto. intro L. rewrite L in H1. rewrite (drop_link_done _ _ _ H1 eq_refl) in C. discriminate.
Qed.

(* a block whose job is dropped after it has been completed (detached by the parser) is freed *)
Lemma drop_link_gone id us : (forall u, In u us -> u_id u = id -> u_complete u = true) ->
  forall u, In u (drop_link (Some id) us) -> u_id u <> id.
Proof.
  intros HC u Hu E. unfold drop_link in Hu. destruct (get_unord id us) as [u1|] eqn:G.
  - destruct (get_unord_some _ _ _ G) as [H1 E1]. rewrite (HC u1 H1 E1) in Hu.
    unfold del_unord in Hu. apply filter_In in Hu. destruct Hu as [_ K]. rewrite E, N.eqb_refl in K. discriminate.
  - eapply get_unord_none; eauto.
Qed.

Lemma drop_link_ids l us u : In u (drop_link l us) -> exists u0, In u0 us /\ u_id u0 = u_id u /\ (u_complete u0 = true -> u_complete u = true).
Proof. intro Hu. destruct (drop_link_stems _ _ _ Hu) as (u0 & H0 & (S1 & _ & _ & _ & _ & S6)). exists u0. auto. Qed.

Lemma drop_links_gone js us id j : (forall u, In u us -> u_id u = id -> u_complete u = true) ->
  In j js -> r_link j = Some id -> forall u, In u (drop_links js us) -> u_id u <> id.
Proof.
  unfold drop_links. revert us. induction js as [|a r IH]; simpl; intros us HC Hj L u Hu; [tauto|].
  assert (HC' : forall v, In v (drop_link (r_link a) us) -> u_id v = id -> u_complete v = true).
  { intros v Hv Ev. destruct (drop_link_ids _ _ _ Hv) as (v0 & H0 & E0 & C0). apply C0. apply HC; auto. congruence. }
  destruct Hj as [->|Hj].
  - rewrite L in *. assert (NO : forall v, In v (drop_link (Some id) us) -> u_id v <> id) by (apply drop_link_gone; auto).
    clear - NO Hu. revert NO Hu. generalize (drop_link (Some id) us) as l. induction r as [|b r IH]; simpl; intros l NO Hu; auto.
    apply (IH (drop_link (r_link b) l)); auto. intros v Hv. destruct (drop_link_ids _ _ _ Hv) as (v0 & H0 & E0 & _). rewrite <- E0. auto.
  - eapply IH; eauto.
Qed.

Lemma discard_below_spec2 p us u : In u (discard_below p us) ->
  exists u0, In u0 us /\ (u = u0 \/ (u_inq u0 = true /\ u_complete u0 = false /\ u = u_detach false u0)).
Proof.
  unfold discard_below. rewrite in_map_iff. intros (u0 & E & H0). apply filter_In in H0. destruct H0 as [H0 _].
  exists u0. split; auto. destruct (u_inq u0 && pos_lt (u_base u0) p && negb (u_complete u0)) eqn:K; auto.
  right. bool_hyps. auto.
Qed.

Lemma flush_unords_spec2 us u : In u (flush_unords us) ->
  exists u0, In u0 us /\ ((u_inq u0 = false /\ u = u0) \/ (u_inq u0 = true /\ u_complete u0 = false /\ u = u_detach false u0)).
Proof.
  unfold flush_unords. rewrite in_map_iff. intros (u0 & E & H0). apply filter_In in H0. destruct H0 as [H0 K].
  exists u0. split; auto. destruct (u_inq u0) eqn:Q; auto. right. simpl in K. bool_hyps. auto.
Qed.

(* ---- which jobs advance() drops ------------------------------------------------------------ *)
Lemma adv_retr_part fuel hd q j : In j q -> In j (fst (adv_retr fuel hd q)) \/ In j (snd (adv_retr fuel hd q)).
Proof.
  revert q; induction fuel as [|f IH]; intros q Hj; simpl; auto.
  destruct (qmin rkey pos_lt q) as [m|] eqn:Q; simpl; auto.
  destruct (d_off (r_cur m) <? hd); simpl; auto.
  destruct (remove_one rjob_eqb m q) as [q'|] eqn:R; simpl; auto.
  destruct (remove_one_split _ rjob_eqb_eq _ _ _ R) as (l1 & l2 & -> & ->).
  specialize (IH (l1 ++ l2)). destruct (adv_retr f hd (l1 ++ l2)) as [d k]. simpl in *.
  rewrite in_app_iff in Hj. simpl in Hj.
  assert (K : j = m \/ In j (l1 ++ l2)) by (rewrite in_app_iff; destruct Hj as [A|[A|A]]; auto).
  destruct K as [->|K]; auto. destruct (IH K); auto.
Qed.

Lemma adv_retr_q cfg bs st :
  x_retr_q (advance cfg bs st) =
  snd (adv_retr (length (x_retr_q st)) (x_head_offs (adv_input (d_off bs) (set_parser_bs bs st))) (x_retr_q st)).
Proof.
  set (sa := adv_input (d_off bs) (set_parser_bs bs st)).
  assert (Erq : x_retr_q sa = x_retr_q st) by (subst sa; xs; autorewrite with xf; xs; reflexivity).
  unfold advance. autorewrite with xf. unfold adv_jobs. fold sa.
  destruct (c_advance_drops_link cfg); xs; rewrite ?Erq; reflexivity.
Qed.

Lemma la_advance cfg bs st b k : la (advance cfg bs st) b k <-> la st b k.
Proof. unfold la, estage. autorewrite with xf. tauto. Qed.

Lemma ownp_advance cfg bs st H J0 :
  c_advance_drops_link cfg = true ->
  inv st -> masters st = 0%nat -> x_head_offs st <= d_off bs -> dbs_ok bs = true ->
  x_parsing_done st = false -> d_bit (x_parser_bs st) <= d_bit bs -> x_next st <= d_bit bs ->
  (forall j0, In j0 J0 -> jm (x_unords st) j0 = true -> d_bit bs <= d_bit (r_cur j0)) ->
  (forall j0 id j, In j0 J0 -> r_link j0 = Some id -> In j (all_jobs st) -> r_link j <> Some id) ->
  ownp H (J0 ++ all_jobs st) st ->
  ownp H (J0 ++ all_jobs (advance cfg bs st)) (advance cfg bs st) /\
  (forall B, 32 * d_off bs < B + 32 ->
     (forall u, In u (x_unords st) -> u_inq u = true -> u_complete u = true -> la st (fst (u_base u)) 0 \/ fst (u_base u) < B) ->
     (forall u, In u (x_unords (advance cfg bs st)) -> u_inq u = true -> u_complete u = true ->
        la (advance cfg bs st) (fst (u_base u)) 0 \/ fst (u_base u) < B)).
Proof.
  intros CA IV M0 HD OKB PD MONO NXB MB SEP [A B C D E F G K U3].
  destruct (inv_advance cfg bs st IV M0 HD) as (I3 & M3 & H3a & H3b & ST & RP).
  destruct (adv_fields cfg bs st) as [EH EU]. cbv zeta in EH, EU. rewrite CA in EU.
  pose proof (adv_retr_q cfg bs st) as ER.
  set (dk := adv_retr (length (x_retr_q st)) (x_head_offs (adv_input (d_off bs) (set_parser_bs bs st))) (x_retr_q st)) in *.
  assert (RU : x_running (advance cfg bs st) = x_running st) by (autorewrite with xf; reflexivity).
  assert (NX : x_next (advance cfg bs st) = x_next st) by (autorewrite with xf; reflexivity).
  assert (PDn : x_parsing_done (advance cfg bs st) = x_parsing_done st) by (autorewrite with xf; reflexivity).
  assert (PB : x_parser_bs (advance cfg bs st) = bs) by (unfold advance; autorewrite with xf; xs; reflexivity).
  assert (RO : x_reord_q (advance cfg bs st) = x_reord_q st) by (autorewrite with xf; reflexivity).
  assert (DQ : forall j, In j (fst dk) -> In j (x_retr_q st)).
  { intros j Hj. pose proof (adv_retr_dropped (length (x_retr_q st)) (x_head_offs (adv_input (d_off bs) (set_parser_bs bs st))) (x_retr_q st)) as DD.
    rewrite Forall_forall in DD. apply DD. exact Hj. }
  assert (AJ3 : forall j, In j (all_jobs (advance cfg bs st)) -> In j (all_jobs st)).
  { intros j Hj. unfold all_jobs in *. rewrite RU in Hj. apply in_app_or in Hj. apply in_or_app. destruct Hj as [Hj|Hj]; auto. left.
    assert (RP' := RP (fun x => In x (x_retr_q st)) ltac:(apply Forall_forall; auto)). rewrite Forall_forall in RP'. apply RP'; auto. }
  assert (UO : Forall unord_ok (x_unords st)) by apply IV.
  assert (JMold : forall j, jm (x_unords (advance cfg bs st)) j = true -> jm (x_unords st) j = true)
    by (intro j; apply jm_stems; auto).
  assert (ORPH : forall B, 32 * d_off bs < B + 32 ->
     (forall u, In u (x_unords st) -> u_inq u = true -> u_complete u = true -> la st (fst (u_base u)) 0 \/ fst (u_base u) < B) ->
     (forall u, In u (x_unords (advance cfg bs st)) -> u_inq u = true -> u_complete u = true ->
        la (advance cfg bs st) (fst (u_base u)) 0 \/ fst (u_base u) < B)).
  { intros Bd HB OLD u Hu Qu Cu.
    destruct (advance_unords cfg bs st u IV Hu) as [H0|(u0 & H0 & Eu & LT)].
    - destruct (OLD u H0 Qu Cu) as [L|L]; [left; apply la_advance; auto|right; auto].
    - right. subst u. unfold u_set_complete in Qu |- *. cbn [u_inq u_base] in Qu |- *. rewrite Forall_forall in UO. destruct (UO u0 H0) as (O1 & _).
      destruct (O1 Qu) as (Oe & Ob & _). unfold dbs_ok in Oe. lia. }
  split; [|exact ORPH].
  constructor.
  - intros h Hh. destruct (A h Hh) as [[Z (j & J1 & J2 & J3)]|L]; [|right; apply la_advance; auto].
    apply in_app_or in J1. destruct J1 as [J1|J1].
    + left. split; auto. exists j. split; [apply in_or_app; auto|]. split; auto.
      unfold jm in *. destruct (r_link j) as [id|] eqn:L; auto.
      apply existsb_exists in J2. destruct J2 as (u0 & H0 & E0). apply existsb_exists. exists u0. split; auto.
      rewrite EU. apply drop_links_other; auto. intros j' Hj'. bool_hyps.
      match goal with X : (u_id u0 =? id) = true |- _ => apply N.eqb_eq in X; rewrite X end.
      apply (SEP j id j' J1 L). unfold all_jobs. apply in_or_app. left. auto.
    + exfalso. rewrite (no_masters_jm st j M0 J1) in J2. discriminate.
  - intros o Ho S. rewrite RO in Ho. apply la_advance. auto.
  - intros j Hj J. rewrite NX, PB. apply in_app_or in Hj. destruct Hj as [Hj|Hj].
    + destruct (C j (in_or_app _ _ _ (or_introl Hj)) (JMold j J)) as [C1 C2]. split; auto.
    + exfalso. pose proof (JMold j J) as JO. rewrite (no_masters_jm st j M0 (AJ3 _ Hj)) in JO. discriminate.
  - intros u Hu Cu. rewrite EU in Hu. destruct (drop_links_complete _ _ _ Hu Cu) as [H0 N0].
    destruct (D u H0 Cu) as (j & J1 & J2). exists j. split; auto.
    apply in_app_or in J1. apply in_or_app. destruct J1 as [J1|J1]; auto. right.
    unfold all_jobs in *. rewrite RU, ER. apply in_app_or in J1. apply in_or_app. destruct J1 as [J1|J1]; auto. left.
    destruct (adv_retr_part (length (x_retr_q st)) (x_head_offs (adv_input (d_off bs) (set_parser_bs bs st))) (x_retr_q st) j J1) as [P|P]; auto.
    exfalso. apply (N0 j P). exact J2.
  - intros u Hu Qu Cu. unfold orph. rewrite NX.
    destruct (advance_unords cfg bs st u IV Hu) as [H0|(u0 & H0 & Eu & LT)].
    + destruct (E u H0 Qu Cu) as [L|[L|L]]; [left; apply la_advance; auto|right; left; exact L|right; right].
      clear - L H3a. lia.
    + right. right. subst u. unfold u_set_complete in Qu |- *. cbn [u_inq u_base] in Qu |- *. rewrite Forall_forall in UO.
      destruct (UO u0 H0) as (O1 & _). destruct (O1 Qu) as (Oe & Ob & _). clear - Oe Ob LT. unfold dbs_ok in Oe. lia.
  - rewrite PDn, PD. discriminate.
  - intros _. rewrite NX, PB. auto.
  - intros _. rewrite PB. auto.
  - intros u Hu Qu. destruct (ST u Hu) as (u0 & H0 & (S1 & _ & _ & S4 & _)).
    destruct (U3 u0 H0 ltac:(congruence)) as (j & J1 & J2). rewrite <- S1 in J2. exists j. split; auto.
    apply in_app_or in J1. apply in_or_app. destruct J1 as [J1|J1]; auto. right.
    unfold all_jobs in *. rewrite RU, ER. apply in_app_or in J1. apply in_or_app. destruct J1 as [J1|J1]; auto. left.
    destruct (adv_retr_part (length (x_retr_q st)) (x_head_offs (adv_input (d_off bs) (set_parser_bs bs st))) (x_retr_q st) j J1) as [P|P]; auto.
    exfalso. rewrite EU in Hu. refine (drop_links_gone (fst dk) (x_unords st) (u_id u) j _ P J2 u Hu eq_refl).
    intros v Hv Ev. assert (v = u0) by (apply (nodup_id_unique (x_unords st)); auto; [apply IV|congruence]). subst v.
    rewrite Forall_forall in UO. destruct (UO u0 H0) as (_ & O2 & _). apply O2. congruence.
Qed.

(* ---- small transfer lemmas --------------------------------------------------------------- *)
Lemma la_ext st st' b k : estage st' = estage st -> x_reord_q st' = x_reord_q st -> (la st' b k <-> la st b k).
Proof. unfold la. intros -> ->. tauto. Qed.

Lemma no_masters_mastered s b : masters s = 0%nat -> ~ mastered (all_jobs s) (x_unords s) b.
Proof. intros M (j & J1 & J2 & _). rewrite (no_masters_jm s j M J1) in J2. discriminate. Qed.

Lemma sorted_snoc l (p : N) : StronglySorted N.lt l -> Forall (fun x => x < p) l -> StronglySorted N.lt (l ++ [p]).
Proof.
  induction 1 as [|a l S IH F]; intro L; simpl.
  - constructor; constructor.
  - inversion L; subst. constructor; auto. apply Forall_app. split; auto.
Qed.

(* the parser detaches or frees queued candidates *)
Lemma ownp_detached H s us' :
  (forall u, In u us' -> exists u0, In u0 (x_unords s) /\ (u = u0 \/ (u_inq u0 = true /\ u_complete u0 = false /\ u = u_detach false u0))) ->
  masters s = 0%nat -> masters (set_unords us' s) = 0%nat -> x_parsing_done s = false ->
  ownp H (all_jobs s) s ->
  ownp H (all_jobs (set_unords us' s)) (set_unords us' s) /\
  (forall B, (forall u, In u (x_unords s) -> u_inq u = true -> u_complete u = true -> la s (fst (u_base u)) 0 \/ fst (u_base u) < B) ->
     (forall u, In u us' -> u_inq u = true -> u_complete u = true -> la (set_unords us' s) (fst (u_base u)) 0 \/ fst (u_base u) < B)).
Proof.
  intros ST M0 M1 PD [A B C D E F G K U3].
  assert (AJ : all_jobs (set_unords us' s) = all_jobs s) by (unfold all_jobs; xs; reflexivity).
  assert (LA : forall b k, la (set_unords us' s) b k <-> la s b k) by (intros; apply la_ext; unfold estage; xs; reflexivity).
  assert (OB : forall B, (forall u, In u (x_unords s) -> u_inq u = true -> u_complete u = true -> la s (fst (u_base u)) 0 \/ fst (u_base u) < B) ->
     (forall u, In u us' -> u_inq u = true -> u_complete u = true -> la (set_unords us' s) (fst (u_base u)) 0 \/ fst (u_base u) < B)).
  { intros Bd OLD u Hu Qu Cu. destruct (ST u Hu) as (u0 & H0 & [->|(_ & _ & ->)]); [|simpl in Qu; discriminate].
    destruct (OLD u0 H0 Qu Cu) as [L|L]; [left; apply LA; auto|right; auto]. }
  split; [|exact OB]. rewrite AJ.
  constructor; xs.
  - intros h Hh. destruct (A h Hh) as [[_ MS]|L]; [exfalso; exact (no_masters_mastered s _ M0 MS)|right; apply LA; auto].
  - intros o Ho S. apply LA. auto.
  - intros j Hj J. exfalso. rewrite <- AJ in Hj. pose proof (no_masters_jm _ j M1 Hj) as Z. xs in Z. congruence.
  - intros u Hu Cu. destruct (ST u Hu) as (u0 & H0 & [->|(_ & _ & ->)]); [auto|simpl in Cu; discriminate].
  - intros u Hu Qu Cu. destruct (ST u Hu) as (u0 & H0 & [->|(_ & _ & ->)]); [|simpl in Qu; discriminate].
    destruct (E u0 H0 Qu Cu) as [L|L]; [left; apply LA; auto|right; exact L].
  - rewrite PD. discriminate.
  - exact G.
  - exact K.
  - intros u Hu Qu. destruct (ST u Hu) as (u0 & H0 & [->|(Q0 & C0 & ->)]); [auto|]. simpl. apply D; auto.
Qed.

(* ---- do_parse: end of input ------------------------------------------------------------------ *)
Lemma own_parse_finish cfg g s :
  c_finish_drops_link cfg = true -> inv s -> masters s = 0%nat -> nparse s = 0%nat ->
  own s -> x_failed s = None -> x_failed (parse_finish cfg g s) = None -> own (parse_finish cfg g s).
Proof.
  intros CF IV M0 N0 [I S] NF NF'.
  pose proof (inv_parse_finish cfg g s IV M0 N0) as IR.
  unfold parse_finish in *. set (pb' := mkdbs _ _) in *.
  match goal with |- own (if ?c then _ else _) => destruct c eqn:CK end.
  { unfold fail in NF'. xs in NF'. discriminate. }
  rewrite CF in *.
  match goal with |- own ?r => set (r0 := r) in * end.
  assert (MR : masters r0 = 0%nat).
  { pose proof (i_excl _ IR) as Ie. unfold masters.
    assert (T : x_parse_token r0 = true) by (subst r0; xs; autorewrite with xf; xs; reflexivity).
    rewrite T in Ie. change (b2n true) with 1%nat in Ie. lia. }
  assert (UR : Forall (fun u => u_inq u = false) (x_unords r0)).
  { subst r0. xs; autorewrite with xf; xs. apply flush_noinq. }
  assert (ER : x_emit_q r0 = x_emit_q s /\ x_running r0 = x_running s /\ x_reord_q r0 = x_reord_q s /\
               x_order_q r0 = x_order_q s /\ x_parsing_done r0 = true /\ x_next r0 = x_next s /\ x_retr_q r0 = [] /\
               x_unords r0 = flush_unords (drop_links (x_retr_q s) (x_unords s))).
  { subst r0. xs; autorewrite with xf; xs. auto 10. }
  destruct ER as (E1 & E2 & E3 & E4 & E5 & E6 & E7 & E8).
  assert (LA : forall b k, la r0 b k <-> la s b k) by (intros; apply la_ext; unfold estage; congruence).
  clearbody r0. destruct I as [A B C D E F G K U3].
  split.
  - rewrite E4. constructor.
    + intros h Hh. destruct (A h Hh) as [[_ MS]|L]; [exfalso; exact (no_masters_mastered s _ M0 MS)|right; apply LA; auto].
    + intros o Ho SM. rewrite E3 in Ho. apply LA. auto.
    + intros j Hj J. exfalso. rewrite (no_masters_jm _ j MR Hj) in J. discriminate.
    + intros u Hu Cu. exfalso. rewrite Forall_forall in UR. pose proof (i_unord _ IR) as UO. rewrite Forall_forall in UO.
      destruct (UO u Hu) as (_ & O2 & _). rewrite (O2 (UR u Hu)) in Cu. discriminate.
    + intros u Hu Qu Cu. exfalso. rewrite Forall_forall in UR. rewrite (UR u Hu) in Qu. discriminate.
    + intros _. exact UR.
    + rewrite E5. discriminate.
    + rewrite E5. discriminate.
    + intros u Hu _. rewrite E8 in Hu. destruct (flush_unords_spec2 _ _ Hu) as (u1 & H1 & [(Q1 & ->)|(Q1 & C1 & ->)]).
      * destruct (drop_links_stems _ _ _ H1) as (u0 & H0 & (S1 & _ & _ & S4 & _)).
        destruct (U3 u0 H0 ltac:(congruence)) as (j & J1 & J2). rewrite <- S1 in J2. exists j. split; auto.
        unfold all_jobs in *. rewrite E7, E2. simpl. apply in_app_or in J1. destruct J1 as [J1|J1]; auto.
        exfalso. refine (drop_links_gone (x_retr_q s) (x_unords s) (u_id u1) j _ J1 J2 u1 H1 eq_refl).
        intros v Hv Ev. assert (v = u0) by (apply (nodup_id_unique (x_unords s)); auto; [apply IV|congruence]). subst v.
        pose proof (i_unord _ IV) as UO. rewrite Forall_forall in UO. destruct (UO u0 H0) as (_ & O2 & _). apply O2. congruence.
      * simpl. destruct (drop_links_complete _ _ _ H1 C1) as [H0 NO]. destruct (D u1 H0 C1) as (j & J1 & J2). exists j. split; auto.
        unfold all_jobs in *. rewrite E7, E2. simpl. apply in_app_or in J1. destruct J1 as [J1|J1]; auto.
        exfalso. exact (NO j J1 J2).
  - destruct S as [SA SB]. constructor; rewrite E4, ?E6; auto.
Qed.

(* ---- do_parse: a block header ---------------------------------------------------------------- *)
Lemma in_upd_unord id f us u : In u us -> In (if u_id u =? id then f u else u) (upd_unord id f us).
Proof. intro Hu. unfold upd_unord. apply in_map_iff. exists u. auto. Qed.

Lemma own_parse_ok cfg lv crc s :
  c_advance_drops_link cfg = true ->
  inv s -> masters s = 0%nat -> nparse s = 0%nat -> x_parse_token s = false -> x_parsing_done s = false ->
  dbs_norm (x_parser_bs s) = true -> x_next s = d_bit (x_parser_bs s) ->
  ownp (x_order_q s) (all_jobs s) s ->
  StronglySorted N.lt (map hb (x_order_q s)) -> Forall (fun h => hb h < d_bit (x_parser_bs s)) (x_order_q s) ->
  (forall u, In u (x_unords s) -> u_inq u = true -> u_complete u = true ->
     la s (fst (u_base u)) 0 \/ fst (u_base u) < d_bit (x_parser_bs s)) ->
  own (parse_ok cfg lv crc s).
Proof.
  intros CA I M0 N0 T0 PD NB NX OW SRT LTP ORB. unfold parse_ok.
  set (p := d_pos (x_parser_bs s)) in *. set (pb := d_bit (x_parser_bs s)) in *.
  set (H0 := x_order_q s) in *. set (hnew := mkhead p lv crc).
  set (s1 := set_order_q (H0 ++ [hnew]) s).
  assert (V1 : view_eq s s1) by (subst s1; view_tac).
  assert (I1 : inv s1) by (eapply inv_view; eauto).
  assert (E1 : masters s1 = 0%nat /\ nparse s1 = 0%nat /\ x_parse_token s1 = false /\ x_parsing_done s1 = false /\ x_parser_bs s1 = x_parser_bs s)
    by (subst s1; unfold masters, all_jobs, nparse in *; nrm; auto).
  assert (OW1 : ownp H0 (all_jobs s1) s1).
  { eapply ownp_view; [| |exact OW]; subst s1; [constructor; unfold estage; xs; auto|intro; unfold all_jobs; xs; tauto]. }
  assert (ORB1 : forall u, In u (x_unords s1) -> u_inq u = true -> u_complete u = true -> la s1 (fst (u_base u)) 0 \/ fst (u_base u) < pb).
  { intros u Hu Qu Cu. subst s1. xs in Hu. destruct (ORB u Hu Qu Cu) as [L|L]; [left|right; auto].
    eapply la_ext; [| |exact L]; unfold estage; xs; reflexivity. }
  assert (F1 : x_order_q s1 = H0 ++ [hnew] /\ x_next s1 = pb) by (subst s1; xs; auto).
  clearbody s1. clear V1 I M0 N0 T0 PD OW ORB. destruct E1 as (M1 & N1 & T1 & PD1 & PB1). destruct F1 as (OQ1 & NX1).
  set (s2 := set_unords (discard_below p (x_unords s1)) s1).
  destruct (inv_detached s1 (discard_below p (x_unords s1))) as (I2 & M2); auto.
  { apply discard_below_spec. } { apply nodup_discard. apply I1. }
  fold s2 in I2, M2.
  assert (M2' : masters s2 = 0%nat) by lia.
  destruct (ownp_detached H0 s1 (discard_below p (x_unords s1)) (discard_below_spec2 p (x_unords s1)) M1 M2' PD1 OW1) as (OW2 & ORB2).
  specialize (ORB2 pb ORB1). fold s2 in OW2, ORB2.
  assert (E2 : nparse s2 = 0%nat /\ x_parse_token s2 = false /\ x_parsing_done s2 = false /\ x_parser_bs s2 = x_parser_bs s /\
               x_order_q s2 = H0 ++ [hnew] /\ x_next s2 = pb /\ x_unords s2 = discard_below p (x_unords s1))
    by (subst s2; unfold nparse in *; nrm; auto 10).
  destruct E2 as (N2 & T2 & PD2 & PB2 & OQ2 & NX2 & US2). rewrite <- US2 in ORB2. clearbody s2. clear I1 OW1 ORB1 M2 M1 US2.
  (* the shape of the order after the push *)
  assert (SH : forall st', x_order_q st' = H0 ++ [hnew] -> x_next st' = pb -> oshape st').
  { intros st' EO EN. constructor; rewrite EO, ?EN.
    - rewrite map_app. simpl. apply sorted_snoc; auto. rewrite Forall_map. exact LTP.
    - apply Forall_app. split; [eapply Forall_impl; [|exact LTP]; simpl; intros; lia|constructor; auto; unfold hb; simpl; lia]. }
  assert (NOM : forall h, In h H0 -> la s2 (hb h) (hs h)).
  { intros h Hh. destruct (o_heads _ _ _ OW2 h Hh) as [[_ MS]|L]; auto. exfalso. exact (no_masters_mastered s2 _ M2' MS). }
  assert (NEW : own (set_retr_q (mkrjob p (x_parser_bs s2) None :: x_retr_q s2) s2)).
  { split; [|apply SH; xs; auto]. xs. rewrite OQ2.
    set (jn := mkrjob p (x_parser_bs s2) None).
    assert (AJ : forall j, In j (all_jobs (set_retr_q (jn :: x_retr_q s2) s2)) <-> j = jn \/ In j (all_jobs s2)).
    { intro j. unfold all_jobs. xs. simpl. split; intros [X|X]; auto. }
    assert (LA : forall b k, la (set_retr_q (jn :: x_retr_q s2) s2) b k <-> la s2 b k) by (intros; apply la_ext; unfold estage; xs; reflexivity).
    destruct OW2 as [A B C D E F G K U3].
    constructor; xs.
    - intros h Hh. apply in_app_or in Hh. destruct Hh as [Hh|[<-|[]]].
      + right. apply LA. auto.
      + left. split; [reflexivity|]. exists jn. split; [apply AJ; auto|]. split; reflexivity.
    - intros o Ho S. apply LA. auto.
    - intros j Hj J. apply AJ in Hj. destruct Hj as [->|Hj].
      + simpl. rewrite NX2, PB2. subst pb. split; [reflexivity|lia].
      + exfalso. rewrite (no_masters_jm s2 j M2' Hj) in J. discriminate.
    - intros u Hu Cu. destruct (D u Hu Cu) as (j & J1 & J2). exists j. split; auto. apply AJ. auto.
    - intros u Hu Qu Cu. destruct (E u Hu Qu Cu) as [L|L]; [left; apply LA; auto|right; auto].
    - exact F.
    - exact G.
    - exact K.
    - intros u Hu Qu. destruct (U3 u Hu Qu) as (j & J1 & J2). exists j. split; auto. apply AJ. auto. }
  destruct (qmin u_base pos_lt (unord_q s2)) as [u|] eqn:Q; [|exact NEW].
  destruct (pos_eq (u_base u) p) eqn:PE; [|exact NEW]. clear NEW.
  apply pos_eq_spec in PE. apply qmin_In in Q. unfold unord_q in Q. apply filter_In in Q. destruct Q as [Hu Qi].
  assert (UO : unord_ok u) by (destruct I2 as [_ _ _ _ Iu _ _ _ _ _ _ _ _]; rewrite Forall_forall in Iu; auto).
  destruct UO as (O1 & O2 & O3). destruct (O1 Qi) as (Oe & Ob & Ol).
  assert (FB : fst (u_base u) = pb) by (rewrite PE; reflexivity).
  assert (HD : x_head_offs s2 <= d_off (u_end u)).
  { assert (x_head_offs s2 <= d_off (x_parser_bs s2)) by (apply I2; auto).
    rewrite FB in Ob. subst pb. rewrite PB2 in *. unfold dbs_ok, dbs_norm in *. lia. }
  assert (JOK : forall j, In j (all_jobs s2) -> r_link j = Some (u_id u) ->
                  u_base u = r_base j /\ (u_complete u = false -> u_end u = r_cur j)).
  { intros j Hj L. destruct I2 as [_ _ _ _ _ _ Ij _ _ _ _ _ _]. rewrite Forall_forall in Ij.
    destruct (Ij j Hj) as (_ & _ & _ & _ & J5). apply (J5 _ u L Hu eq_refl). }
  destruct (inv_advance cfg (u_end u) s2 I2 M2' HD) as (I3 & M3 & H3a & H3b & ST & RP).
  assert (P1 : d_bit (x_parser_bs s2) <= d_bit (u_end u)) by (rewrite PB2; fold pb; rewrite <- FB; exact Ob).
  assert (P2 : x_next s2 <= d_bit (u_end u)) by (rewrite NX2, <- FB; exact Ob).
  destruct (ownp_advance cfg (u_end u) s2 H0 [] CA I2 M2' HD Oe PD2 P1 P2
              (fun j0 (X : In j0 []) => match X with end) (fun j0 id j (X : In j0 []) => match X with end) OW2) as (OW3 & _).
  simpl app in OW3.
  destruct (adv_fields cfg (u_end u) s2) as [EH EU]. cbv zeta in EH, EU. rewrite CA in EU.
  pose proof (adv_retr_q cfg (u_end u) s2) as ER.
  pose proof (adv_retr_dropped (length (x_retr_q s2)) (x_head_offs (adv_input (d_off (u_end u)) (set_parser_bs (u_end u) s2))) (x_retr_q s2)) as DD.
  rewrite Forall_forall in DD.
  set (dk := adv_retr (length (x_retr_q s2)) (x_head_offs (adv_input (d_off (u_end u)) (set_parser_bs (u_end u) s2))) (x_retr_q s2)) in *.
  assert (AJ3 : forall j, In j (all_jobs (advance cfg (u_end u) s2)) -> In j (all_jobs s2)).
  { intros j Hj. unfold all_jobs in *. autorewrite with xf in Hj. apply in_app_or in Hj. apply in_or_app. destruct Hj as [Hj|Hj]; auto. left.
    assert (RP' := RP (fun x => In x (x_retr_q s2)) ltac:(apply Forall_forall; auto)). rewrite Forall_forall in RP'. apply RP'; auto. }
  assert (LA3 : la (advance cfg (u_end u) s2) pb 0 <-> la s2 pb 0) by apply la_advance.
  assert (E3 : nparse (advance cfg (u_end u) s2) = 0%nat /\ x_parse_token (advance cfg (u_end u) s2) = false /\
               x_running (advance cfg (u_end u) s2) = x_running s2 /\ x_order_q (advance cfg (u_end u) s2) = H0 ++ [hnew] /\
               x_next (advance cfg (u_end u) s2) = pb /\ x_parsing_done (advance cfg (u_end u) s2) = false)
    by (unfold nparse in *; autorewrite with xf; auto 10).
  assert (PB3 : x_parser_bs (advance cfg (u_end u) s2) = u_end u) by (unfold advance; autorewrite with xf; xs; reflexivity).
  set (s3 := advance cfg (u_end u) s2) in *. destruct E3 as (N3 & T3 & R3 & OQ3 & NX3 & PD3).
  destruct (u_complete u) eqn:UC.
  - (* the candidate has been retrieved already: its line owns the new head *)
    assert (LN : la s3 pb 0).
    { apply LA3. destruct (ORB2 u Hu Qi UC) as [L|L]; [rewrite <- FB; exact L|rewrite FB in L; exact (False_ind _ (N.lt_irrefl _ L))]. }
    clearbody s3.
    match goal with |- own ?r => set (st' := r) end.
    assert (LA : forall b k, la st' b k <-> la s3 b k) by (intros; apply la_ext; subst st'; unfold estage, give_unit; xs; reflexivity).
    assert (AJ : all_jobs st' = all_jobs s3) by (subst st'; unfold all_jobs, give_unit; xs; reflexivity).
    assert (US : x_unords st' = del_unord (u_id u) (x_unords s3)) by (subst st'; unfold give_unit; xs; reflexivity).
    assert (USub : forall v, In v (x_unords st') -> In v (x_unords s3)).
    { intros v Hv. rewrite US in Hv. unfold del_unord in Hv. apply filter_In in Hv. tauto. }
    assert (JMs : forall j, jm (x_unords st') j = true -> jm (x_unords s3) j = true).
    { intro j. apply jm_stems; [|apply I3]. intros v Hv. exists v. split; [auto|apply stems_refl]. }
    split; [|apply SH; subst st'; unfold give_unit; xs; auto].
    replace (x_order_q st') with (H0 ++ [hnew]) by (subst st'; unfold give_unit; xs; auto).
    rewrite AJ. destruct OW3 as [A B C D E F G K U3].
    constructor.
    + intros h Hh. apply in_app_or in Hh. destruct Hh as [Hh|[<-|[]]]; right; apply LA.
      * destruct (A h Hh) as [[_ MS]|L]; auto. exfalso. exact (no_masters_mastered s3 _ M3 MS).
      * exact LN.
    + intros o Ho S. apply LA. apply B; auto; subst st'; unfold give_unit in Ho; xs in Ho; auto.
    + intros j Hj J. exfalso. pose proof (JMs j J) as JO. rewrite (no_masters_jm s3 j M3 Hj) in JO. discriminate.
    + intros v Hv Cv. apply D; auto.
    + intros v Hv Qv Cv. replace (x_parser_bs st') with (x_parser_bs s3) by (subst st'; unfold give_unit; xs; auto).
      destruct (E v (USub v Hv) Qv Cv) as [L|L]; [left; apply LA; auto|right; auto].
    + replace (x_parsing_done st') with (x_parsing_done s3) by (subst st'; unfold give_unit; xs; auto). rewrite PD3. discriminate.
    + replace (x_next st') with (x_next s3) by (subst st'; unfold give_unit; xs; auto).
      replace (x_parser_bs st') with (x_parser_bs s3) by (subst st'; unfold give_unit; xs; auto). intros _. apply G. auto.
    + replace (x_parser_bs st') with (x_parser_bs s3) by (subst st'; unfold give_unit; xs; auto). intros _. apply K. auto.
    + intros v Hv Qv. apply U3; auto.
  - (* the candidate is still being retrieved: its job becomes the master *)
    destruct (o_u1 _ _ _ OW2 u Hu UC) as (jm0 & JA & JL).
    destruct (JOK jm0 JA JL) as (JB & JC). specialize (JC eq_refl).
    assert (KEEP : forall j, In j (all_jobs s2) -> r_link j = Some (u_id u) -> In j (all_jobs s3)).
    { intros j Hj L. destruct (JOK j Hj L) as (_ & JC'). specialize (JC' eq_refl).
      unfold all_jobs in *. rewrite R3. subst s3. rewrite ER. apply in_app_or in Hj. apply in_or_app. destruct Hj as [Hj|Hj]; auto. left.
      destruct (adv_retr_part (length (x_retr_q s2)) (x_head_offs (adv_input (d_off (u_end u)) (set_parser_bs (u_end u) s2))) (x_retr_q s2) j Hj) as [P|P]; auto.
      exfalso. fold dk in P. destruct (DD j P) as [Q1 _]. rewrite <- EH in Q1. rewrite <- JC' in Q1. exact (N.lt_irrefl _ (N.lt_le_trans _ _ _ Q1 H3b)). }
    assert (UIN : In u (x_unords s3)).
    { subst s3. rewrite EU. apply drop_links_other; auto. intros j Hj L.
      destruct (DD j Hj) as [Q1 Q2]. assert (JA' : In j (all_jobs s2)) by (unfold all_jobs; apply in_or_app; auto).
      destruct (JOK j JA' L) as (_ & JC'). specialize (JC' eq_refl). rewrite <- EH in Q1. rewrite <- JC' in Q1. exact (N.lt_irrefl _ (N.lt_le_trans _ _ _ Q1 H3b)). }
    clearbody s3.
    match goal with |- own ?r => set (st' := r) end.
    assert (LA : forall b k, la st' b k <-> la s3 b k) by (intros; apply la_ext; subst st'; unfold estage, give_unit; xs; reflexivity).
    assert (AJ : all_jobs st' = all_jobs s3) by (subst st'; unfold all_jobs, give_unit; xs; reflexivity).
    assert (US : x_unords st' = upd_unord (u_id u) (u_detach true) (x_unords s3)) by (subst st'; unfold give_unit; xs; reflexivity).
    assert (UOLD : forall v, In v (x_unords st') -> (u_complete v = false \/ u_inq v = true) -> In v (x_unords s3)).
    { intros v Hv Cv. rewrite US in Hv. unfold upd_unord in Hv. apply in_map_iff in Hv. destruct Hv as (v0 & <- & H0v).
      destruct (u_id v0 =? u_id u); auto. simpl in Cv. destruct Cv; discriminate. }
    split; [|apply SH; subst st'; unfold give_unit; xs; auto].
    replace (x_order_q st') with (H0 ++ [hnew]) by (subst st'; unfold give_unit; xs; auto).
    rewrite AJ. destruct OW3 as [A B C D E F G K U3].
    constructor.
    + intros h Hh. apply in_app_or in Hh. destruct Hh as [Hh|[<-|[]]].
      * right. apply LA. destruct (A h Hh) as [[_ MS]|L]; auto. exfalso. exact (no_masters_mastered s3 _ M3 MS).
      * left. split; [reflexivity|]. exists jm0. split; [apply KEEP; auto|]. split.
        -- unfold jm. rewrite JL. apply existsb_exists. exists (u_detach true u). split.
           ++ rewrite US. pose proof (in_upd_unord (u_id u) (u_detach true) _ _ UIN) as X. rewrite N.eqb_refl in X. exact X.
           ++ simpl. rewrite N.eqb_refl. reflexivity.
        -- rewrite <- JB. exact FB.
    + intros o Ho S. apply LA. apply B; auto; subst st'; unfold give_unit in Ho; xs in Ho; auto.
    + intros j Hj J. rewrite US in J. destruct (jm_detach _ _ _ J) as [J1|J1].
      * exfalso. rewrite (no_masters_jm s3 j M3 Hj) in J1. discriminate.
      * unfold links in J1. apply optN_eqb_eq in J1. destruct (JOK j (AJ3 j Hj) J1) as (JB' & JC'). specialize (JC' eq_refl).
        replace (x_next st') with pb by (subst st'; unfold give_unit; xs; auto).
        replace (x_parser_bs st') with (u_end u) by (subst st'; unfold give_unit; xs; auto).
        rewrite <- JB', <- JC'. split; [exact FB|apply N.le_refl].
    + intros v Hv Cv. apply D; auto.
    + intros v Hv Qv Cv. replace (x_parser_bs st') with (x_parser_bs s3) by (subst st'; unfold give_unit; xs; auto).
      destruct (E v (UOLD v Hv (or_intror Qv)) Qv Cv) as [L|L]; [left; apply LA; auto|right; auto].
    + replace (x_parsing_done st') with (x_parsing_done s3) by (subst st'; unfold give_unit; xs; auto). rewrite PD3. discriminate.
    + replace (x_next st') with (x_next s3) by (subst st'; unfold give_unit; xs; auto).
      replace (x_parser_bs st') with (x_parser_bs s3) by (subst st'; unfold give_unit; xs; auto). intros _. apply G. auto.
    + replace (x_parser_bs st') with (x_parser_bs s3) by (subst st'; unfold give_unit; xs; auto). intros _. apply K. auto.
    + intros v Hv Qv. rewrite US in Hv. unfold upd_unord in Hv. apply in_map_iff in Hv. destruct Hv as (v0 & <- & H0v).
      destruct (u_id v0 =? u_id u) eqn:EV.
      * exists jm0. split; [apply KEEP; auto|]. simpl. apply N.eqb_eq in EV. rewrite EV. exact JL.
      * apply U3; auto.
Qed.

Lemma own_parse1 cfg att r st st' :
  cfg_drops cfg -> x_failed st = None -> x_failed st' = None -> inv st -> own st ->
  ev_prog st (EvParse1 att r) -> parse1 cfg att r st = Some st' -> own st'.
Proof.
  intros (_ & _ & _ & CA & CF) NF NF' I OW EV H. unfold parse1 in H.
  destruct (del_run (CParse att) st) as [s1|] eqn:D; [|discriminate].
  destruct (inv_del_parse _ _ _ D I) as (I1 & M1 & N1 & T1 & PD1).
  destruct (del_run_spec _ _ _ D) as (l1 & l2 & E & ES1).
  assert (OW1 : own s1).
  { eapply own_view; [| | |exact OW]; subst s1.
    - constructor; xs; auto. intro x. unfold estage. xs. rewrite E, !run_ejobs_app, run_ejobs_cons. simpl. auto.
    - xs. auto.
    - intro x. unfold all_jobs. xs. rewrite E, !run_jobs_app, run_jobs_cons. simpl. tauto. }
  assert (F1 : x_failed s1 = None /\ x_parser_bs s1 = x_parser_bs st /\ x_next s1 = x_next st) by (subst s1; xs; auto).
  destruct F1 as (NF1 & PB1 & NX1). clear OW I D ES1 E.
  set (aend := att_end att s1) in *. clearbody aend.
  match type of H with (if ?c then _ else _) = _ => destruct c eqn:CC; [|discriminate] end. bool_hyps.
  assert (I2 : inv (detach att s1)) by (eapply inv_view; [apply view_detach|auto]).
  assert (OW2 : own (detach att s1)).
  { eapply own_view; [| | |exact OW1]; oview_tac. }
  assert (E2 : masters (detach att s1) = 0%nat /\ nparse (detach att s1) = 0%nat /\ x_parse_token (detach att s1) = false /\
               x_parsing_done (detach att s1) = false /\ x_parser_bs (detach att s1) = x_parser_bs st /\
               x_failed (detach att s1) = None /\ x_next (detach att s1) = x_next st)
    by (unfold masters, all_jobs, nparse in *; autorewrite with xf; auto 10).
  set (s2 := detach att s1) in *. destruct E2 as (M2 & N2 & T2 & PD2 & PB2 & NF2 & NX2). clearbody s2. clear I1 OW1.
  set (bs := res_bs r) in *.
  assert (HD : x_head_offs s2 <= d_off bs).
  { assert (x_head_offs s2 <= d_off (x_parser_bs s2)) by (apply I2; auto). rewrite PB2 in *.
    match goal with K : (d_off (x_parser_bs s1) <=? d_off bs) = true |- _ => apply N.leb_le in K; rewrite PB1 in K end. lia. }
  assert (MONO : d_bit (x_parser_bs s2) <= d_bit bs).
  { rewrite PB2. match goal with K : (d_bit (x_parser_bs s1) <=? d_bit bs) = true |- _ => apply N.leb_le in K; rewrite PB1 in K end. lia. }
  destruct OW2 as [OP2 OS2].
  assert (NXB : x_next s2 <= d_bit bs) by (pose proof (o_next _ _ _ OP2 PD2); lia).
  assert (OKB : dbs_ok bs = true) by assumption.
  destruct (inv_advance cfg bs s2 I2 M2 HD) as (I3 & M3 & H3a & H3b & ST & RP).
  destruct (ownp_advance cfg bs s2 (x_order_q s2) [] CA I2 M2 HD OKB PD2 MONO NXB
              (fun j0 (X : In j0 []) => match X with end) (fun j0 id j (X : In j0 []) => match X with end) OP2) as (OP3 & ORPH).
  simpl app in OP3.
  assert (E3 : nparse (advance cfg bs s2) = 0%nat /\ x_parse_token (advance cfg bs s2) = false /\
               x_parsing_done (advance cfg bs s2) = false /\ x_failed (advance cfg bs s2) = None /\
               x_order_q (advance cfg bs s2) = x_order_q s2 /\ x_next (advance cfg bs s2) = x_next s2)
    by (unfold nparse in *; autorewrite with xf; auto 10).
  assert (PB3 : x_parser_bs (advance cfg bs s2) = bs) by (unfold advance; autorewrite with xf; xs; reflexivity).
  set (s3 := advance cfg bs s2) in *. destruct E3 as (N3 & T3 & PD3 & NF3 & OQ3 & NX3).
  assert (OS3 : oshape s3) by (eapply oshape_view; [| |exact OS2]; auto).
  rewrite <- OQ3 in OP3.
  destruct r as [b ps|b g|b code|b ps lv crc]; simpl res_bs in *; subst bs.
  - (* MORE *)
    match type of H with (if ?c then _ else _) = _ => destruct c; [|discriminate] end. inversion H; subst st'. clear H.
    eapply own_view; [| | |exact (conj OP3 OS3)]; oview_tac.
  - (* FINISH *)
    match type of H with (if ?c then _ else _) = _ => destruct c; [|discriminate] end. inversion H; subst st'. clear H.
    apply own_parse_finish; auto. split; auto.
  - (* error *)
    match type of H with (if ?c then _ else _) = _ => destruct c; [discriminate|] end. inversion H; subst st'.
    unfold fail in NF'. xs in NF'. discriminate.
  - (* a block header *)
    match type of H with (if ?c then _ else _) = _ => destruct c eqn:NB; [|discriminate] end. inversion H; subst st'. clear H.
    simpl in EV.
    assert (GAP : x_next s2 + HDR_MIN <= d_bit b) by (rewrite NX2; exact EV).
    assert (LTP : Forall (fun h => hb h < d_bit b) (x_order_q s2)).
    { destruct OS2 as [_ LE]. eapply Forall_impl; [|exact LE]. simpl. intros h Hh.
      clear - Hh GAP. unfold HDR_MIN in *. lia. }
    set (s4 := set_par ps (set_next (d_bit b) s3)).
    assert (LA4 : forall x k, la s4 x k <-> la s3 x k) by (intros; apply la_ext; subst s4; unfold estage; xs; reflexivity).
    assert (AJ4 : all_jobs s4 = all_jobs s3) by (subst s4; unfold all_jobs; xs; reflexivity).
    assert (M4 : masters s4 = 0%nat) by (subst s4; unfold masters, all_jobs in *; xs; auto).
    assert (V4 : view_eq s3 s4) by (subst s4; constructor; xs; auto; intros; reflexivity).
    assert (I4 : inv s4) by (eapply inv_view; [exact V4|exact I3]).
    assert (N4 : nparse s4 = 0%nat) by (subst s4; unfold nparse in *; xs; auto).
    assert (T4 : x_parse_token s4 = false) by (subst s4; xs; auto).
    assert (PD4 : x_parsing_done s4 = false) by (subst s4; xs; auto).
    assert (PB4 : x_parser_bs s4 = b) by (subst s4; xs; auto).
    assert (NB4 : dbs_norm (x_parser_bs s4) = true) by (rewrite PB4; exact NB).
    assert (NX4 : x_next s4 = d_bit (x_parser_bs s4)) by (rewrite PB4; subst s4; xs; reflexivity).
    assert (OQ4 : x_order_q s4 = x_order_q s3) by (subst s4; xs; reflexivity).
    assert (US4 : x_unords s4 = x_unords s3) by (subst s4; xs; reflexivity).
    assert (OW4 : ownp (x_order_q s4) (all_jobs s4) s4).
    { rewrite OQ4, AJ4. destruct OP3 as [A B C D E F G K U3].
      constructor; rewrite ?US4, ?PB4, ?PD4.
      - intros h Hh. destruct (A h Hh) as [[_ MS]|L]; [exfalso; exact (no_masters_mastered s3 _ M3 MS)|right; apply LA4; auto].
      - intros o Ho S. apply LA4. apply B; auto.
      - intros j Hj J. exfalso. rewrite (no_masters_jm s3 j M3 Hj) in J. discriminate.
      - exact D.
      - intros u Hu Qu Cu. destruct (E u Hu Qu Cu) as [L|[L|L]]; [left; apply LA4; auto|right; left|right; right].
        + rewrite NX4, PB4. rewrite NX3 in L. exact (N.le_trans _ _ _ L NXB).
        + replace (x_head_offs s4) with (x_head_offs s3) by (subst s4; xs; reflexivity). exact L.
      - discriminate.
      - intros _. rewrite NX4, PB4. apply N.le_refl.
      - intros _. exact OKB.
      - exact U3. }
    assert (SRT4 : StronglySorted N.lt (map hb (x_order_q s4))) by (rewrite OQ4; apply OS3).
    assert (LTP4 : Forall (fun h => hb h < d_bit (x_parser_bs s4)) (x_order_q s4)) by (rewrite OQ4, OQ3, PB4; exact LTP).
    assert (ORB4 : forall u, In u (x_unords s4) -> u_inq u = true -> u_complete u = true ->
                     la s4 (fst (u_base u)) 0 \/ fst (u_base u) < d_bit (x_parser_bs s4)).
    { rewrite PB4, US4. intros u Hu Qu Cu.
      assert (X : la s3 (fst (u_base u)) 0 \/ fst (u_base u) < d_bit b).
      { apply (ORPH (d_bit b)); auto.
        - clear - NB. unfold dbs_norm in NB. lia.
        - intros u0 Hu0 Q0 C0. destruct (o_u2 _ _ _ OP2 u0 Hu0 Q0 C0) as [L|[L|L]]; auto; right.
          + clear - L GAP. unfold HDR_MIN in GAP. lia.
          + clear - L HD NB. unfold dbs_norm in NB. lia. }
      destruct X as [L|L]; [left; apply LA4; auto|right; auto]. }
    exact (own_parse_ok cfg lv crc s4 CA I4 M4 N4 T4 PD4 NB4 NX4 OW4 SRT4 LTP4 ORB4).
Qed.
