(* (L3) The label hypothesis of SchedX/XLiveTerm.v [ev_term] about emit() ("emit() returns MORE
   fewer than K times for one block"), derived from the model of decode()/emit()
   (Safe/EmitModel.v) and its proofs (Safe/EmitProofs.v).

   [decode_emit col idx rand sizes] = decode(), then emit() called with the buffer sizes
   [sizes] one after the other as long as it returns MORE.  Every call that returns MORE filled
   its buffer completely (>= 1 byte), and everything written is a prefix of the un-run-length-
   encoded block [unrle false 256 0 (block_of col idx rand)], which is at most 255 bytes per byte
   of the block: so at most 255 * 900000 calls return MORE, whatever the buffer sizes; with
   buffers of >= b bytes, at most (255 * 900000) / b. *)
From Coq Require Import List NArith Arith Bool Lia.
From LBZ Require Import Gen.Consts Gen.CrcTab Gen.DecTabs Dec.Prog Dec.Format Safe.EmitModel Safe.EmitProofs.
Import ListNotations.
Local Open Scope N_scope.

(* ---- the size of the output of one block -------------------------------------------------- *)
Lemma unrle_length strict : forall blk prev cnt o,
  Forall (fun c => c < 256) blk -> unrle strict prev cnt blk = Ok o ->
  N.of_nat (length o) <= 255 * N.of_nat (length blk).
Proof.
  induction blk as [|c r IH]; intros prev cnt o HF H; cbn [unrle] in H.
  - destruct (strict && (cnt =? 4)); [discriminate|]. injection H as <-. cbn. lia.
  - inversion HF as [|? ? Hc HF']; subst. cbn [length]. rewrite Nat2N.inj_succ.
    destruct (cnt =? 4).
    + destruct (unrle strict 256 0 r) as [o'|e] eqn:E; [|discriminate]. cbn [rbind] in H. injection H as <-.
      specialize (IH _ _ _ HF' E). rewrite app_length, repeat_length, Nat2N.inj_add, N2Nat.id. lia.
    + destruct (unrle strict c (if c =? prev then cnt + 1 else 1) r) as [o'|e] eqn:E; [|discriminate].
      cbn [rbind] in H. injection H as <-. specialize (IH _ _ _ HF' E). cbn [length]. rewrite Nat2N.inj_succ. lia.
Qed.

Lemma unrle_false_total : forall blk prev cnt, exists o, unrle false prev cnt blk = Ok o.
Proof.
  induction blk as [|c r IH]; intros prev cnt; cbn [unrle andb]; [eauto|].
  destruct (cnt =? 4).
  - destruct (IH 256 0) as [o ->]. cbn [rbind]. eauto.
  - destruct (IH c (if c =? prev then cnt + 1 else 1)) as [o ->]. cbn [rbind]. eauto.
Qed.

(* what decode() hands to emit(): bytes, as many as the block has *)
Lemma block_of_bytes col idx rand : block_ok col idx ->
  Forall (fun c => c < 256) (block_of col idx rand) /\ length (block_of col idx rand) = length col.
Proof.
  intro H. destruct (decode_inv col idx rand 0 H) as (tt' & ft' & st & _ & _ & _ & _ & S0 & AV & _ & HI).
  destruct HI as (ws & _ & HA & _ & _ & _ & _ & _ & [(_ & _ & _ & R)|[(S5 & _)|(S14 & _)]]).
  - rewrite R. split.
    + apply Forall_forall. intros x Hx. apply in_map_iff in Hx as [w [<- _]]. apply low8_lt.
    + rewrite map_length. rewrite AV in HA. lia.
  - rewrite S0 in S5. discriminate.
  - rewrite S0 in S14. destruct S14 as [X|[X|[X|X]]]; discriminate.
Qed.

Definition MAX_BLOCK_OUTPUT : N := 255 * MAX_BLOCK_SIZE.

Theorem block_output_bounded col idx rand : block_ok col idx ->
  exists out, unrle false 256 0 (block_of col idx rand) = Ok out /\
              N.of_nat (length out) <= 255 * N.of_nat (length col) <= MAX_BLOCK_OUTPUT.
Proof.
  intro H. destruct (unrle_false_total (block_of col idx rand) 256 0) as [out E].
  destruct (block_of_bytes col idx rand H) as [F L].
  pose proof (unrle_length false _ _ _ _ F E) as B. rewrite L in B.
  exists out. split; [exact E|]. split; [exact B|].
  destruct H as (_ & [_ M] & _). unfold MAX_BLOCK_OUTPUT. lia.
Qed.

(* ---- the calls that return MORE ------------------------------------------------------------- *)
(* [emit_run]: the chunks written are one per call; all calls but the last returned MORE (a run
   that is RPending consists of MORE calls only); cutting the sizes after the MORE calls gives
   the RPending run of exactly these calls *)
Lemma emit_run_finished_split tt : forall sizes st status chunks st',
  emit_run tt st sizes = RFinished status chunks st' ->
  exists pre last stm, chunks = pre ++ [last] /\ (length pre < length sizes)%nat /\
                       emit_run tt st (firstn (length pre) sizes) = RPending pre stm.
Proof.
  induction sizes as [|b rest IH]; intros st status chunks st' H; cbn [emit_run] in H; [discriminate|].
  destruct (emit_model tt st b) as [[[[s out] st1] m]|f] eqn:EM; [|discriminate].
  destruct (s =? E_MORE) eqn:ES.
  - destruct (emit_run tt st1 rest) as [s2 cs st2|cs st2|f] eqn:ER; cbn [rcons] in H; try discriminate.
    injection H as -> <- ->. destruct (IH _ _ _ _ ER) as (pre & last & stm & -> & L & P).
    exists (out :: pre), last, stm. split; [reflexivity|]. split; [cbn [length]; lia|].
    cbn [length firstn emit_run]. rewrite EM, ES, P. reflexivity.
  - injection H as -> <- ->. exists [], out, st. split; [reflexivity|]. split; [cbn [length]; lia|]. reflexivity.
Qed.

Lemma firstn_In' {A} (x : A) : forall n l, In x (firstn n l) -> In x l.
Proof.
  induction n as [|n IH]; intros [|y l] H; cbn [firstn] in H; try contradiction.
  destruct H as [->|H]; [left; reflexivity|right; apply IH; exact H].
Qed.

Lemma firstn_sizes_ok n sizes : sizes_ok sizes -> sizes_ok (firstn n sizes).
Proof.
  unfold sizes_ok. rewrite !Forall_forall. intros H x Hx. apply H. eapply firstn_In'; eauto.
Qed.

Lemma total_ge_length sizes : sizes_ok sizes -> N.of_nat (length sizes) <= total sizes.
Proof.
  induction 1 as [|b bs [Hb _] _ IH]; [cbn; lia|]. cbn [length total fold_right]. fold (total bs).
  rewrite Nat2N.inj_succ. lia.
Qed.

Lemma total_ge_mul b sizes : Forall (fun x => b <= x) sizes -> b * N.of_nat (length sizes) <= total sizes.
Proof.
  induction 1 as [|x bs Hb _ IH]; [cbn; lia|]. cbn [length total fold_right]. fold (total bs).
  rewrite Nat2N.inj_succ. lia.
Qed.

(* a run of MORE calls: the buffers were filled and what was written is the beginning of the
   (non-strict) output of the block *)
Lemma pending_prefix col idx rand sizes chunks st' out : block_ok col idx -> sizes_ok sizes ->
  decode_emit col idx rand sizes = RPending chunks st' ->
  unrle false 256 0 (block_of col idx rand) = Ok out ->
  length chunks = length sizes /\ N.of_nat (length (concat chunks)) = total sizes /\
  exists more, out = concat chunks ++ more.
Proof.
  intros H Hs E Hout.
  destruct (decode_inv col idx rand 0 H) as (tt' & ft' & st & HD & _ & _ & _ & _ & _ & _ & HI).
  rewrite (decode_emit_unfold _ _ _ _ _ _ _ HD) in E.
  pose proof (emit_run_spec sizes tt' st 0 256 _ M1 HI Hs) as HR. rewrite E in HR.
  destruct HR as (HF & k' & d' & rest' & _ & Hu). split; [|split].
  - clear -HF. induction HF; cbn [length]; congruence.
  - clear -HF. induction HF as [|c b cs bs Hc HF IH]; [reflexivity|].
    cbn [concat total fold_right]. rewrite app_length. fold (total bs). lia.
  - rewrite (Hu false) in Hout. destruct (unrle false d' k' rest') as [o|e]; [|discriminate].
    cbn [rbind] in Hout. injection Hout as <-. eauto.
Qed.

(* the number of emit() calls that return MORE, for ANY buffer sizes >= 1:
   [more_calls r] = number of calls of the run that returned MORE *)
Definition more_calls (r : run_result) : nat :=
  match r with
  | RFinished _ chunks _ => pred (length chunks)
  | RPending chunks _ => length chunks
  | RFault _ => 0%nat
  end.

(* the sizes of the buffers of the calls that returned MORE add up to at most the output size *)
Theorem emit_more_calls_filled col idx rand sizes out : block_ok col idx -> sizes_ok sizes ->
  unrle false 256 0 (block_of col idx rand) = Ok out ->
  (more_calls (decode_emit col idx rand sizes) <= length sizes)%nat /\
  total (firstn (more_calls (decode_emit col idx rand sizes)) sizes) <= N.of_nat (length out).
Proof.
  intros H Hs Hout.
  destruct (decode_emit col idx rand sizes) as [status chunks st'|chunks st'|f] eqn:E; cbn [more_calls].
  - pose proof E as E0.
    destruct (decode_inv col idx rand 0 H) as (tt' & ft' & st & HD & _).
    rewrite (decode_emit_unfold _ _ _ _ _ _ _ HD) in E.
    destruct (emit_run_finished_split _ _ _ _ _ _ E) as (pre & last & stm & -> & L & P).
    rewrite app_length. cbn [length]. rewrite Nat.add_1_r. cbn [pred]. split; [lia|].
    rewrite <- (decode_emit_unfold _ _ _ _ _ _ _ HD) in P.
    destruct (pending_prefix _ _ _ _ _ _ _ H (firstn_sizes_ok _ _ Hs) P Hout) as (_ & T & more & ->).
    rewrite <- T, app_length, Nat2N.inj_add. lia.
  - destruct (pending_prefix _ _ _ _ _ _ _ H Hs E Hout) as (L & T & more & ->).
    split; [lia|]. rewrite L, firstn_all, <- T, app_length, Nat2N.inj_add. lia.
  - cbn [firstn total fold_right]. split; lia.
Qed.

(* H4: fewer than K = MAX_BLOCK_OUTPUT + 1 calls return MORE for one block; with buffers of at
   least b bytes each, at most MAX_BLOCK_OUTPUT / b *)
Theorem emit_more_calls_bounded col idx rand sizes : block_ok col idx -> sizes_ok sizes ->
  N.of_nat (more_calls (decode_emit col idx rand sizes)) <= 255 * N.of_nat (length col) <= MAX_BLOCK_OUTPUT.
Proof.
  intros H Hs. destruct (block_output_bounded col idx rand H) as (out & Hout & B1 & B2).
  destruct (emit_more_calls_filled col idx rand sizes out H Hs Hout) as [L T].
  pose proof (total_ge_length _ (firstn_sizes_ok (more_calls (decode_emit col idx rand sizes)) _ Hs)) as G.
  rewrite firstn_length, Nat.min_l in G by exact L. split; [lia|exact B2].
Qed.

Theorem emit_more_calls_bounded_buf col idx rand sizes b : block_ok col idx -> sizes_ok sizes ->
  1 <= b -> Forall (fun x => b <= x) sizes ->
  N.of_nat (more_calls (decode_emit col idx rand sizes)) <= MAX_BLOCK_OUTPUT / b.
Proof.
  intros H Hs Hb HB. destruct (block_output_bounded col idx rand H) as (out & Hout & B1 & B2).
  destruct (emit_more_calls_filled col idx rand sizes out H Hs Hout) as [L T].
  assert (HB' : Forall (fun x => b <= x) (firstn (more_calls (decode_emit col idx rand sizes)) sizes)).
  { rewrite Forall_forall in *. intros x Hx. apply HB. eapply firstn_In'; eauto. }
  pose proof (total_ge_mul b _ HB') as G. rewrite firstn_length, Nat.min_l in G by exact L.
  apply N.div_le_lower_bound; lia.
Qed.

Lemma max_block_output_value : MAX_BLOCK_OUTPUT = 229500000.
Proof. reflexivity. Qed.

(* ---- the same, counting the MORE results of the calls directly ------------------------------- *)
Fixpoint emit_more_count (tt : list N) (st : estate) (sizes : list N) : nat :=
  match sizes with
  | [] => 0%nat
  | b :: rest =>
      match emit_model tt st b with
      | Bad _ => 0%nat
      | Good (status, _, st', _) => if status =? E_MORE then S (emit_more_count tt st' rest) else 0%nat
      end
  end.

Lemma more_calls_count tt : forall sizes st,
  match emit_run tt st sizes with
  | RFinished _ cs _ => cs <> [] /\ pred (length cs) = emit_more_count tt st sizes
  | RPending cs _ => length cs = emit_more_count tt st sizes
  | RFault _ => True
  end.
Proof.
  induction sizes as [|b rest IH]; intro st; cbn [emit_run emit_more_count]; [reflexivity|].
  destruct (emit_model tt st b) as [[[[s out] st1] m]|f]; [|exact I].
  destruct (s =? E_MORE).
  - specialize (IH st1). destruct (emit_run tt st1 rest) as [s2 cs st2|cs st2|f]; cbn [rcons]; [| |exact I].
    + destruct IH as [NE IH]. split; [discriminate|]. cbn [length pred]. rewrite <- IH.
      destruct cs; [congruence|reflexivity].
    + cbn [length]. rewrite IH. reflexivity.
  - split; [discriminate|reflexivity].
Qed.

(* decode(), then emit() with the buffer sizes [sizes]: how many of the calls return MORE *)
Definition decode_more_count (col : list N) (idx : N) (rand : bool) (sizes : list N) : nat :=
  match decode_model col (ftab_of col) (N.of_nat (length col)) idx rand 0 with
  | Bad _ => 0%nat
  | Good (tt', _, st) => emit_more_count tt' st sizes
  end.

Lemma decode_more_count_calls col idx rand sizes : block_ok col idx -> sizes_ok sizes ->
  decode_more_count col idx rand sizes = more_calls (decode_emit col idx rand sizes).
Proof.
  intros H Hs. pose proof (emit_safe col idx rand sizes H Hs) as NF.
  unfold decode_more_count, decode_emit in *.
  destruct (decode_model col (ftab_of col) (N.of_nat (length col)) idx rand 0) as [[[tt' ft'] st]|f]; [|contradiction].
  pose proof (more_calls_count tt' sizes st) as C.
  destruct (emit_run tt' st sizes) as [s cs st2|cs st2|f]; cbn [more_calls]; [| |contradiction].
  - symmetry. exact (proj2 C).
  - symmetry. exact C.
Qed.

Theorem emit_more_count_bounded col idx rand sizes b : block_ok col idx -> sizes_ok sizes ->
  1 <= b -> Forall (fun x => b <= x) sizes ->
  N.of_nat (decode_more_count col idx rand sizes) <= MAX_BLOCK_OUTPUT / b <= MAX_BLOCK_OUTPUT.
Proof.
  intros H Hs Hb HB. rewrite (decode_more_count_calls _ _ _ _ H Hs). split.
  - apply emit_more_calls_bounded_buf; assumption.
  - apply N.div_le_upper_bound; [lia|]. unfold MAX_BLOCK_OUTPUT. nia.
Qed.

(* non-vacuity: the block of Safe/EmitProofs.v (14 bytes of output), one byte per call:
   13 calls return MORE, the 14th returns OK *)
Example emit_more_count_example :
  decode_more_count ex_col 5 false [1; 1; 1; 1; 1; 1; 1; 1; 1; 1; 1; 1; 1; 1; 1] = 13%nat /\
  decode_more_count ex_col 5 false [4; 4; 4; 4; 4] = 3%nat.
Proof. vm_compute. split; reflexivity. Qed.

Print Assumptions emit_more_calls_bounded.
Print Assumptions emit_more_calls_bounded_buf.
Print Assumptions emit_more_count_bounded.
Print Assumptions block_output_bounded.
