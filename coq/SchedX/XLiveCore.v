(* Liveness of the decompression scheduler: the case analysis.

   A non-failed, non-final state in which no worker is inside an unlocked computation and
   which satisfies the invariants inv / own / cnt / lin / ltk / llm / lrs has an enabled
   event that is not a stutter: the reader or the writer can move, or some task is ready.
   No induction here; the invariants are established in XLiveIn / XLiveTok / XLiveLines /
   XLiveRes. *)
From Coq Require Import List NArith Bool Lia Arith ZifyBool ZifyN ZifyNat Sorted.
From LBZ Require Import Gen.Consts SchedX.XState Gen.SchedXTab SchedX.XSet SchedX.XModel SchedX.XLemmas
  SchedX.XFrame SchedX.XInvDefs SchedX.XOps SchedX.XInv SchedX.XInv2 SchedX.XOracle SchedX.XCount
  SchedX.XOwn SchedX.XOwnProofs SchedX.XScanOwn SchedX.XLiveDefs.
Import ListNotations.
Local Open Scope N_scope.

(* ---- a ready task can start --------------------------------------------------------------- *)
Lemma ready_first t st : ready t st = true -> exists u, first_ready st = Some u.
Proof.
  intro R. unfold first_ready. destruct (find (fun t0 => ready t0 st) task_list) as [u|] eqn:F; [eauto|].
  exfalso. pose proof (find_none _ _ F t) as K. simpl in K. rewrite R in K.
  assert (In t task_list) by (destruct t; simpl; tauto). specialize (K H). discriminate.
Qed.

Lemma selects_first st u : first_ready st = Some u -> selects u st = true.
Proof. unfold selects. intros ->. destruct u; reflexivity. Qed.

Lemma qmin_remove {A} (eqb : A -> A -> bool) (refl : forall a, eqb a a = true) (key : A -> pos) l x :
  qmin key pos_lt l = Some x -> exists l', remove_one eqb x l = Some l'.
Proof. intro Q. apply In_remove_one_some; auto. eapply qmin_In; eauto. Qed.

Lemma oblk_eqb_refl a : oblk_eqb a a = true.
Proof. unfold oblk_eqb. rewrite pos_eqb_refl. lia. Qed.

Lemma nilb_false {A} (l : list A) : nilb l = false -> l <> [].
Proof. destruct l; simpl; congruence. Qed.

Lemma task_starts cfg st u :
  x_failed st = None -> first_ready st = Some u ->
  exists e st', step cfg st e = Some st' /\ productive st e = true.
Proof.
  intros NF FR. pose proof (selects_first _ _ FR) as SEL. pose proof (selects_ready _ _ SEL) as RD.
  destruct u; simpl in RD.
  - (* reorder *)
    exists EvReorder. unfold step. rewrite NF. unfold reorder. rewrite SEL.
    unfold can_reorder in RD. apply andb_true_iff in RD. destruct RD as [RD _]. apply negb_true_iff in RD. apply nilb_false in RD.
    destruct (qmin_some o_base _ RD) as [o Q]. rewrite Q.
    destruct (qmin_remove oblk_eqb oblk_eqb_refl _ _ _ Q) as [q R]. rewrite R.
    destruct (x_order_q (set_reord_q q st)) as [|ord rest]; [eexists; split; [reflexivity|reflexivity]|].
    destruct (pos_lt (o_base o) (h_base ord)); [eexists; split; reflexivity|].
    match goal with |- context [if ?c then _ else _] => destruct c end; [eexists; split; reflexivity|].
    match goal with |- context [if ?c then _ else _] => destruct c end; eexists; split; reflexivity.
  - (* parse *)
    exists EvParse0. unfold step. rewrite NF. unfold parse0. rewrite SEL.
    match goal with |- context [attach ?d ?s] => destruct (attach d s) as [s2 att] end. eexists; split; reflexivity.
  - (* emit *)
    exists EvEmit0. unfold step. rewrite NF. unfold emit0. rewrite SEL.
    unfold can_emit in RD. apply andb_true_iff in RD. destruct RD as [RD _]. apply negb_true_iff in RD. apply nilb_false in RD.
    destruct (qmin_some e_base _ RD) as [e Q]. rewrite Q.
    destruct (qmin_remove ejob_eqb ejob_eqb_refl _ _ _ Q) as [q R]. rewrite R. eexists; split; reflexivity.
  - (* retrieve *)
    unfold can_retrieve in RD. apply andb_true_iff in RD. destruct RD as [RD _]. apply negb_true_iff in RD. apply nilb_false in RD.
    destruct (qmin_some rkey _ RD) as [j Q].
    exists (EvRetr0 j). unfold step. rewrite NF. unfold retr0. rewrite SEL. unfold take_min.
    assert (M : is_minimal rkey pos_lt j (x_retr_q st) = true) by (apply is_minimal_spec; intros y Hy; eapply qmin_min; eauto).
    rewrite M. destruct (qmin_remove rjob_eqb rjob_eqb_refl _ _ _ Q) as [q R]. rewrite R.
    match goal with |- context [attach ?d ?s] => destruct (attach d s) as [s2 att] end. eexists; split; reflexivity.
  - (* scan *)
    exists EvScan0. unfold step. rewrite NF. unfold scan0. rewrite SEL.
    unfold can_scan in RD. apply andb_true_iff in RD. destruct RD as [RD _]. apply andb_true_iff in RD. destruct RD as [_ RD].
    apply negb_true_iff in RD. apply nilb_false in RD.
    destruct (qmin_some d_pos _ RD) as [s Q]. rewrite Q.
    destruct (qmin_remove dbs_eqb dbs_eqb_refl _ _ _ Q) as [q R]. rewrite R.
    match goal with |- context [attach ?d ?s] => destruct (attach d s) as [s2 att] end. eexists; split; reflexivity.
Qed.

Lemma ready_starts cfg st t :
  x_failed st = None -> ready t st = true -> exists e st', step cfg st e = Some st' /\ productive st e = true.
Proof. intros NF R. destruct (ready_first _ _ R) as [u F]. eapply task_starts; eauto. Qed.

(* ---- guards from witnesses ------------------------------------------------------------------ *)
Lemma lexlt_trans a b c : lexlt a b -> lexlt b c -> lexlt a c.
Proof. unfold lexlt. lia. Qed.

Lemma can_reorder_wit st h rest o :
  x_order_q st = h :: rest -> In o (x_reord_q st) -> ~ lexlt (h_base h) (o_base o) -> can_reorder st = true.
Proof.
  intros OQ Ho LE. unfold can_reorder, peek_reord, order_head. rewrite OQ. simpl.
  destruct (x_reord_q st) as [|a r] eqn:RQ; [destruct Ho|]. rewrite <- RQ in *.
  destruct (qmin_some o_base (x_reord_q st)) as [m Q]; [rewrite RQ; discriminate|]. rewrite Q.
  assert (NE : nilb (x_reord_q st) = false) by (rewrite RQ; reflexivity). rewrite NE. simpl.
  rewrite orb_false_r. unfold pos_le. apply negb_true_iff. apply not_true_iff_false. intro K. apply pos_lt_spec in K.
  pose proof (qmin_min _ _ _ _ Q Ho) as M. apply not_true_iff_false in M. rewrite pos_lt_spec in M.
  apply LE. unfold lexlt in *. lia.
Qed.

Lemma can_emit_wit st h rest e :
  x_order_q st = h :: rest -> In e (x_emit_q st) -> ~ lexlt (h_base h) (e_base e) -> 0 < x_out_slots st -> can_emit st = true.
Proof.
  intros OQ He LE S. unfold can_emit, peek_emit, order_head. rewrite OQ. simpl.
  destruct (x_emit_q st) as [|a r] eqn:EQ; [destruct He|]. rewrite <- EQ in *.
  destruct (qmin_some e_base (x_emit_q st)) as [m Q]; [rewrite EQ; discriminate|]. rewrite Q.
  assert (NE : nilb (x_emit_q st) = false) by (rewrite EQ; reflexivity). rewrite NE. simpl.
  apply orb_true_iff. right. apply andb_true_iff. split; [apply andb_true_iff; split; [apply N.ltb_lt; exact S|reflexivity]|].
  unfold pos_le. apply negb_true_iff. apply not_true_iff_false. intro K. apply pos_lt_spec in K.
  pose proof (qmin_min _ _ _ _ Q He) as M. apply not_true_iff_false in M. rewrite pos_lt_spec in M.
  apply LE. unfold lexlt in *. lia.
Qed.

Lemma filter_pos_ex {A} (p : A -> bool) l : (0 < length (filter p l))%nat -> exists x, In x l /\ p x = true.
Proof.
  destruct (filter p l) as [|x r] eqn:F; simpl; [lia|]. intros _.
  assert (In x (filter p l)) by (rewrite F; left; auto). apply filter_In in H. eauto.
Qed.

(* ---- the head of the order can always move --------------------------------------------------- *)
Lemma head_moves st h rest :
  own st -> lrs st -> x_running st = [] -> x_outq st = 0 -> EMIT_THRESH <= x_total_out st ->
  x_order_q st = h :: rest -> (forall j, In j (all_jobs st) -> jm (x_unords st) j = false) ->
  can_reorder st = true \/ can_emit st = true.
Proof.
  intros [OP OS] [CH RS] RUN OUTQ TH OQ NOM.
  assert (Hh : In h (x_order_q st)) by (rewrite OQ; left; auto).
  assert (ES : estage st = x_emit_q st) by (unfold estage; rewrite RUN; simpl; apply app_nil_r).
  (* a buffer at the head itself, or the emit job of the head *)
  assert (K : (exists o, In o (x_reord_q st) /\ o_base o = h_base h) \/ (exists e, In e (x_emit_q st) /\ e_base e = h_base h)).
  { destruct (o_heads _ _ _ OP h Hh) as [[_ (j & J1 & J2 & _)]|L].
    { rewrite (NOM j J1) in J2. discriminate. }
    assert (X : exists x, In x (linepos st) /\ fst x = hb h /\ hs h <= snd x /\
                  ((exists o, In o (x_reord_q st) /\ o_base o = x) \/ (exists e, In e (x_emit_q st) /\ e_base e = x))).
    { destruct L as [(e & E1 & E2 & E3)|(o & O1 & O2 & O3 & O4)].
      - exists (e_base e). split; [unfold linepos; apply in_or_app; left; apply in_map; exact E1|].
        split; [exact E2|]. split; [exact E3|]. right. exists e. rewrite <- ES. auto.
      - exists (o_base o). split; [unfold linepos; apply in_or_app; right; apply in_map; exact O1|].
        split; [exact O3|]. split; [exact O4|]. left. exists o. auto. }
    destruct X as (x & X1 & X2 & X3 & X4).
    destruct (N.eq_dec (snd x) (hs h)) as [EQ|NE].
    - assert (x = h_base h) by (unfold hb, hs in *; destruct x, (h_base h); simpl in *; congruence). subst x.
      destruct X4 as [(o & A & B)|(e & A & B)]; [left; exists o; auto|right; exists e; auto].
    - left. assert (LT : hs h < snd x) by lia.
      destruct (CH x (hs h) X1 LT) as [(o & A & B & _)|[_ P]].
      + exists o. split; auto. rewrite B, X2. unfold hb, hs. destruct (h_base h); reflexivity.
      + exfalso. specialize (P h Hh). rewrite X2 in P. unfold hb, hs, lexlt in P. simpl in P. lia. }
  destruct K as [(o & O1 & O2)|(e & E1 & E2)].
  - left. eapply can_reorder_wit; eauto. rewrite O2. unfold lexlt. lia.
  - destruct (N.eq_dec (x_out_slots st) 0) as [Z|NZ].
    + left. specialize (RS TH). unfold rcount in RS. rewrite Z, OUTQ, RUN in RS. simpl in RS.
      assert (P : (0 < length (filter (fun o => atmostb st (o_base o)) (x_reord_q st)))%nat) by (unfold EMIT_THRESH in RS; lia).
      destruct (filter_pos_ex _ _ P) as (o & O1 & O2). unfold atmostb in O2. rewrite OQ in O2.
      eapply can_reorder_wit; eauto. apply pos_le_spec. exact O2.
    + right. eapply can_emit_wit; eauto; [rewrite E2; unfold lexlt; lia|lia].
Qed.

(* ---- nothing is attached: every input slot is free or in input_q ------------------------------ *)
Lemma no_zombies st : lin st -> x_running st = [] -> x_zombies st = [].
Proof.
  intros L RUN. destruct (x_zombies st) as [|z r] eqn:Z; auto. exfalso.
  destruct (li_refz _ L z) as (A & B & _); [rewrite Z; left; auto|]. rewrite RUN in A. unfold natt in A. simpl in A. lia.
Qed.

Lemma parser_at_tail_input_empty st :
  inv st -> lin st -> x_parsing_done st = false -> d_off (x_parser_bs st) = x_tail_offs st -> x_input_q st = [].
Proof.
  intros I L PD E. destruct (x_input_q st) as [|b r] eqn:Q; auto. exfalso.
  pose proof (li_first _ L PD b r Q) as F.
  destruct (contig_bounds _ _ _ b (i_contig _ I)) as (_ & B & _); [rewrite Q; left; auto|]. lia.
Qed.

Lemma reader_fed st :
  inv st -> cnt st -> lin st -> x_failed st = None -> x_running st = [] -> x_parsing_done st = false ->
  d_off (x_parser_bs st) = x_tail_offs st -> 1 <= x_total_in st -> 0 < x_in_slots st.
Proof.
  intros I C L NF RUN PD E TI. pose proof (k_in _ C NF) as K. unfold in_held in K.
  rewrite (parser_at_tail_input_empty st I L PD E), (no_zombies st L RUN) in K. simpl in K. lia.
Qed.

(* ---- deadlock freedom --------------------------------------------------------------------------- *)
Theorem progress_core cfg st :
  inv st -> own st -> cnt st -> lin st -> ltk st -> llm st -> lrs st ->
  x_failed st = None -> x_running st = [] -> final st = false ->
  1 <= x_total_in st -> EMIT_THRESH < x_total_out st ->
  exists e st', step cfg st e = Some st' /\ productive st e = true.
Proof.
  intros I OW C LI LT LL LR NF RUN NFIN TI TO.
  (* the reader *)
  destruct (reader_can_move st) eqn:RD.
  { exists EvEof. unfold step. rewrite NF. unfold reader_eof. unfold reader_can_move in RD.
    apply andb_true_iff in RD. destruct RD as [RD1 RD2]. apply negb_true_iff in RD1. rewrite RD1.
    eexists. split; [reflexivity|]. simpl. unfold reader_can_move. rewrite RD1, RD2. reflexivity. }
  (* the writer *)
  destruct (0 <? x_outq st) eqn:WR.
  { exists EvWritten. unfold step. rewrite NF. unfold written. rewrite WR. eexists. split; reflexivity. }
  apply N.ltb_ge in WR. assert (OUTQ : x_outq st = 0) by lia. clear WR.
  assert (TH : EMIT_THRESH <= x_total_out st) by lia.
  pose proof (k_units _ C NF) as KU. pose proof (k_slots _ C NF) as KS.
  unfold units_held in KU. unfold slots_held, nemit in KS. rewrite RUN in KU, KS. simpl in KU, KS. rewrite OUTQ in KS.
  assert (AJ : all_jobs st = x_retr_q st) by (unfold all_jobs; rewrite RUN; simpl; apply app_nil_r).
  assert (NP : nparse st = 0%nat) by (unfold nparse; rewrite RUN; reflexivity).
  (* it is enough to find a ready task *)
  assert (G : (exists t, ready t st = true) -> exists e st', step cfg st e = Some st' /\ productive st e = true).
  { intros [t R]. eapply ready_starts; eauto. }
  apply G. clear G.
  destruct (x_parsing_done st) eqn:PD.
  - (* ---- the parser has finished ---- *)
    pose proof (lt_closed _ LT) as CL. rewrite PD in CL.
    assert (EOF : x_eof st = true).
    { unfold reader_can_move in RD. rewrite CL, orb_true_r, andb_true_r in RD. apply negb_false_iff in RD. exact RD. }
    destruct (i_done _ I PD) as [_ TOK].
    pose proof (lt_r0 _ LT PD) as RQ.
    assert (NT : (x_work_units st =? x_num_worker st) && (x_out_slots st =? x_total_out st) = false).
    { unfold final in NFIN. rewrite RUN in NFIN. simpl in NFIN. rewrite andb_true_r in NFIN.
      unfold can_terminate in NFIN. rewrite EOF, PD, TOK in NFIN. simpl in NFIN.
      destruct (x_work_units st =? x_num_worker st); simpl in *; auto. }
    rewrite RQ in KU. simpl in KU.
    destruct (x_order_q st) as [|h rest] eqn:OQ.
    + destruct (x_reord_q st) as [|o r] eqn:RQQ.
      * (* only emit jobs are left and every output slot is free *)
        exists TEmit. simpl. unfold can_emit. simpl in KS.
        assert (S : x_out_slots st = x_total_out st) by lia.
        assert (NE : x_emit_q st <> []).
        { intro Z. rewrite Z in KU. simpl in KU. rewrite S in NT.
          assert (x_work_units st = x_num_worker st) by lia. rewrite H, !N.eqb_refl in NT. discriminate. }
        destruct (x_emit_q st); [congruence|]. simpl.
        apply orb_true_iff. left. apply N.ltb_lt. lia.
      * exists TReorder. simpl. unfold can_reorder. rewrite RQQ, OQ, PD. reflexivity.
    + assert (NOM : forall j, In j (all_jobs st) -> jm (x_unords st) j = false) by (rewrite AJ, RQ; intros j []).
      destruct (head_moves st h rest OW LR RUN OUTQ TH OQ NOM) as [R|R]; [exists TReorder|exists TEmit]; exact R.
  - (* ---- the parser has not finished ---- *)
    pose proof (lt_closed _ LT) as CL. rewrite PD in CL.
    assert (RDF : x_eof st = true \/ x_in_slots st = 0).
    { unfold reader_can_move in RD. rewrite CL, orb_false_r in RD. apply andb_false_iff in RD.
      destruct RD as [RD|RD]; [left; apply negb_false_iff; exact RD|right; apply N.ltb_ge in RD; lia]. }
    (* a bit stream that cannot be attached stands at tail_offs, and the input has not ended *)
    assert (NA : forall d, d_off d <= x_tail_offs st -> can_attach st d = false -> d_off d = x_tail_offs st /\ x_eof st = false).
    { intros d LE CA. unfold can_attach in CA. apply orb_false_iff in CA. destruct CA as [CA1 CA2].
      apply N.ltb_ge in CA1. assert (E : d_off d = x_tail_offs st) by lia. split; auto.
      rewrite E, N.eqb_refl, andb_true_r in CA2. exact CA2. }
    assert (FED : d_off (x_parser_bs st) = x_tail_offs st -> x_eof st = false -> False).
    { intros E NE. pose proof (reader_fed st I C LI NF RUN PD E TI). destruct RDF as [X|X]; [congruence|lia]. }
    pose proof (lt_ex _ LT PD) as EX. rewrite NP in EX.
    pose proof (i_excl _ I) as EXC. rewrite NP in EXC.
    destruct (x_parse_token st) eqn:TOK.
    + (* the token is free *)
      assert (NOM : forall j, In j (all_jobs st) -> jm (x_unords st) j = false).
      { intros j Hj. destruct (jm (x_unords st) j) eqn:J; auto. exfalso.
        assert (Hf : In j (filter (jm (x_unords st)) (all_jobs st))) by (apply filter_In; auto).
        destruct (filter (jm (x_unords st)) (all_jobs st)); [destruct Hf|simpl in EXC; lia]. }
      destruct (can_attach st (x_parser_bs st)) eqn:CA.
      * destruct (N.eq_dec (x_work_units st) 0) as [WZ|WNZ].
        -- destruct (ll_tw _ LL PD TOK WZ) as (h0 & _ & H0 & _).
           destruct (x_order_q st) as [|h rest] eqn:OQ; [destruct H0|].
           destruct (head_moves st h rest OW LR RUN OUTQ TH OQ NOM) as [R|R]; [exists TReorder|exists TEmit]; exact R.
        -- exists TParse. simpl. unfold can_parse. rewrite PD, TOK, CA. simpl. rewrite andb_true_r. apply N.ltb_lt. lia.
      * exfalso. destruct (NA _ (li_pbs _ LI PD) CA) as [E NE]. exact (FED E NE).
    + (* a master retriever is queued *)
      assert (MS : exists j, In j (x_retr_q st) /\ jm (x_unords st) j = true).
      { unfold masters in EX. simpl in EX. destruct (filter (jm (x_unords st)) (all_jobs st)) as [|j r] eqn:F; [simpl in EX; lia|].
        assert (Hf : In j (filter (jm (x_unords st)) (all_jobs st))) by (rewrite F; left; auto).
        apply filter_In in Hf. rewrite AJ in Hf. exists j. exact Hf. }
      destruct MS as (j & J1 & J2).
      assert (NE : x_retr_q st <> []) by (intro Z; rewrite Z in J1; destruct J1).
      destruct (qmin_some rkey _ NE) as [j0 Q].
      destruct (can_attach st (r_cur j0)) eqn:CA.
      * exists TRetrieve. simpl. unfold can_retrieve, peek_retr. rewrite Q, CA.
        destruct (x_retr_q st); [congruence|reflexivity].
      * exfalso.
        pose proof (li_retr _ LI) as LR'. rewrite Forall_forall in LR'.
        destruct (NA _ (LR' j0 (qmin_In _ _ _ Q)) CA) as [E0 NEOF].
        pose proof (qmin_min _ _ _ _ Q J1) as M. apply not_true_iff_false in M. rewrite pos_lt_spec in M.
        unfold rkey, d_pos, lexlt in M. simpl in M.
        pose proof (i_jobs _ I) as IJ. rewrite Forall_forall in IJ.
        assert (N1 : dbs_norm (r_cur j) = true) by (apply (IJ j); rewrite AJ; exact J1).
        assert (N0 : dbs_norm (r_cur j0) = true) by (apply (IJ j0); rewrite AJ; eapply qmin_In; eauto).
        pose proof (LR' j J1) as LJ.
        assert (EJ : d_off (r_cur j) = x_tail_offs st).
        { clear - M N1 N0 LJ E0. unfold dbs_norm in *. lia. }
        rewrite (lt_mp _ LT PD j J1 J2) in EJ. exact (FED EJ NEOF).
Qed.
