(* (L2) The label hypothesis [ev_scan_prog] of SchedX/XLiveDefs.v ("a scan() call that finds a
   magic ends strictly after the position it started from"), derived from the model of scan()
   (Scan/ScanModel.v) and its specification (Scan/ScanProofs.v [scan_spec] = C14_scan).

   Positions: [flat bs] = all the unread bits of the scanner's bit stream (buffered bits ++ the
   words not yet loaded), so "the position of bs" = total length - length (flat bs).  scan()
   returning OK with stream [rest] has therefore advanced by
   [length (flat bs) - length (flat rest)] bits. *)
From Coq Require Import List NArith Arith Bool Lia.
From LBZ Require Import Common.Bits Gen.ScanTab Scan.ScanModel Scan.ScanTables Scan.ScanProofs.
Import ListNotations.

Lemma P_length : length P = 48.
Proof. vm_compute. reflexivity. Qed.

Lemma occ_end_ge B e : occ_end B e -> 48 <= e.
Proof.
  intros [L S]. apply is_suffix_length in S. rewrite P_length, firstn_length in S. lia.
Qed.

Lemma skipn_add {A} a : forall b (l : list A), skipn a (skipn b l) = skipn (b + a) l.
Proof.
  induction b as [|b IH]; intro l; [reflexivity|].
  destruct l as [|x l]; [destruct a; reflexivity|]. cbn [skipn Nat.add]. apply IH.
Qed.

(* scan() = OK: the stream handed back is the input stream with eff_start + e + 32 bits dropped,
   where e >= 48 is the end of the first occurrence of the magic at or after the effective
   start; all of these bits existed *)
Theorem scan_ok_position bs skip rest :
  Forall word_ok (data bs) -> scan bs skip = ScanOK rest ->
  exists e, first_occ_end (skipn (eff_start bs skip) (flat bs)) e /\
            48 <= e /\
            eff_start bs skip + e + 32 <= length (flat bs) /\
            flat rest = skipn (eff_start bs skip + e + 32) (flat bs).
Proof.
  intros W H. pose proof (scan_spec bs skip W) as S. rewrite H in S.
  destruct S as [e [F [L R]]]. rewrite apply_skip_flat in *.
  exists e. split; [exact F|]. pose proof (occ_end_ge _ _ (proj1 F)) as G. split; [exact G|].
  rewrite skipn_length in L. split; [lia|].
  rewrite R, skipn_add. f_equal. lia.
Qed.

(* H2: a scan() call that returns OK ends at least 80 bits (48-bit magic + 32-bit CRC) after the
   position it was called at -- and at least 80 bits after the position where it started looking *)
Theorem scan_ok_advances bs skip rest :
  Forall word_ok (data bs) -> scan bs skip = ScanOK rest ->
  length (flat rest) + 80 <= length (flat (apply_skip bs skip)) /\
  length (flat rest) + eff_start bs skip + 80 <= length (flat bs).
Proof.
  intros W H. destruct (scan_ok_position bs skip rest W H) as [e [_ [G [L R]]]].
  rewrite apply_skip_flat, R, !skipn_length. lia.
Qed.

Corollary scan_ok_strict bs skip rest :
  Forall word_ok (data bs) -> scan bs skip = ScanOK rest -> length (flat rest) < length (flat bs).
Proof. intros W H. pose proof (scan_ok_advances bs skip rest W H). lia. Qed.

(* MORE: everything was consumed (the position moves to the end of the block) *)
Theorem scan_more_consumes_all bs skip rest :
  Forall word_ok (data bs) -> scan bs skip = ScanMORE rest -> flat rest = [].
Proof.
  intros W H. pose proof (scan_spec bs skip W) as S. rewrite H in S. destruct S as [-> _]. reflexivity.
Qed.

(* non-vacuity: the example of Properties_C14 -- the magic planted at bit 5: 5 + 48 + 32 = 85 bits *)
Example scan_ok_example :
  let bs := {| live := [true; false; true; true; false] ++ P;
               data := [(1, 2, 3, 4); (5, 6, 7, 8)]%N |} in
  exists rest, scan bs 0 = ScanOK rest /\ length (flat bs) - length (flat rest) = 85.
Proof. eexists. split; vm_compute; reflexivity. Qed.

Print Assumptions scan_ok_position.
Print Assumptions scan_ok_advances.
Print Assumptions scan_more_consumes_all.
