(* A worker that is inside an unlocked computation (an element of [x_running]) can always
   complete its second locked segment: some label is accepted by the corresponding event.
   This complements deadlock freedom (which speaks about states with x_running = []).

   [lrun]   what the second-segment events test, for every running continuation
   [lrun']  the inductive strengthening: instead of "the block that [find] returns ends at or
            after the position" it records "EVERY block of input_q ++ zombies with the attached
            offset ends at or after the position", plus  position <= tail_offs,
            emit_q holds no job whose status is FINISH, the parser's bit stream is well formed.
   Organisation as in XLiveIn.v: a list-level predicate, frame lemmas, one lemma per event. *)
From Coq Require Import List NArith Bool Lia Arith ZifyBool ZifyN ZifyNat.
From LBZ Require Import Gen.Consts SchedX.XState Gen.SchedXTab SchedX.XSet SchedX.XModel SchedX.XLemmas
  SchedX.XFrame SchedX.XInvDefs SchedX.XOps SchedX.XInv SchedX.XInv2 SchedX.XInv3 SchedX.XInv4 SchedX.XCount SchedX.XScanOwn
  SchedX.XLiveDefs SchedX.XLiveIn.
Import ListNotations.
Local Open Scope N_scope.

(* ---- the property --------------------------------------------------------------------------------- *)
Definition cont_ok (st : xstate) (c : cont) : Prop :=
  match c with
  | CParse att => x_parsing_done st = false /\ dbs_ok (x_parser_bs st) = true /\ d_off (x_parser_bs st) <= att_end att st
  | CRetr j att => dbs_ok (r_cur j) = true /\ d_off (r_cur j) <= att_end att st
  | CRetr2 e | CEmit e => e_status e <> FINISH
  | CScan _ _ => True
  end.
Definition lrun (st : xstate) : Prop := Forall (cont_ok st) (x_running st).

(* ---- the strengthened invariant ------------------------------------------------------------------- *)
Definition shapes (st : xstate) : list (N * N) := map bshape (x_input_q st) ++ map bshape (x_zombies st).

(* position [p] of a bit stream attached to [att]; [SH]: shapes of the live blocks *)
Definition aok (SH : list (N * N)) (tl : N) (att : option N) (p : N) : Prop :=
  p <= tl /\ match att with None => True | Some o => forall r, In r SH -> fst r = o -> p <= fst r + snd r end.

Definition cok (SH : list (N * N)) (tl : N) (done : bool) (pbs : dbs) (c : cont) : Prop :=
  match c with
  | CParse att => done = false /\ dbs_ok pbs = true /\ aok SH tl att (d_off pbs)
  | CRetr j att => dbs_ok (r_cur j) = true /\ aok SH tl att (d_off (r_cur j))
  | CRetr2 e | CEmit e => e_status e <> FINISH
  | CScan _ _ => True
  end.

Definition eok (e : ejob) : Prop := e_status e <> FINISH.

Record lrc (SH : list (N * N)) (tl : N) (done : bool) (pbs : dbs) (R : list cont) (EQ : list ejob) : Prop := mklrc {
  lc_run : Forall (cok SH tl done pbs) R;
  lc_emit : Forall eok EQ;
  lc_pok : done = false -> dbs_ok pbs = true
}.

Definition cokS (st : xstate) : cont -> Prop := cok (shapes st) (x_tail_offs st) (x_parsing_done st) (x_parser_bs st).
Definition lrcS (st : xstate) : Prop :=
  lrc (shapes st) (x_tail_offs st) (x_parsing_done st) (x_parser_bs st) (x_running st) (x_emit_q st).

Record lrun' (st : xstate) : Prop := mklrun' {
  lr_core : lrcS st;
  lr_att : forall c o, In c (x_running st) -> catt c = Some o -> exists b, In b (x_input_q st ++ x_zombies st) /\ ib_off b = o
}.

(* ---- lrun' implies lrun ---------------------------------------------------------------------------- *)
Lemma aok_att_end st att p :
  (forall o, att = Some o -> exists b, In b (x_input_q st ++ x_zombies st) /\ ib_off b = o) ->
  aok (shapes st) (x_tail_offs st) att p -> p <= att_end att st.
Proof.
  intros EX [A B]. unfold att_end. destruct att as [o|]; [|exact A].
  destruct (find (fun b => ib_off b =? o) (x_input_q st ++ x_zombies st)) as [b|] eqn:F.
  - apply find_some in F. destruct F as [F1 F2]. apply N.eqb_eq in F2.
    assert (X : In (bshape b) (shapes st)).
    { unfold shapes. rewrite <- map_app. apply in_map. exact F1. }
    specialize (B _ X F2). unfold ib_end. exact B.
  - exfalso. destruct (EX o eq_refl) as (b & Hb & Ob). pose proof (find_none _ _ F b Hb) as K. simpl in K.
    apply N.eqb_neq in K. contradiction.
Qed.

Theorem lrun'_lrun st : lrun' st -> lrun st.
Proof.
  intros [[A _ _] B]. unfold lrun. apply Forall_forall. intros c Hc. rewrite Forall_forall in A. specialize (A c Hc).
  unfold cokS in A. destruct c as [att|j att|e|e|s att]; cbn [cok cont_ok] in *; auto.
  - destruct A as (A1 & A2 & A3). split; [|split]; auto. apply aok_att_end; auto.
    intros o E. apply (B (CParse att) o Hc). exact E.
  - destruct A as (A1 & A2). split; auto. apply aok_att_end; auto.
    intros o E. apply (B (CRetr j att) o Hc). exact E.
Qed.

(* ---- list level: monotonicity ------------------------------------------------------------------------ *)
Lemma aok_mono SH tl SH' tl' att p :
  (forall r, In r SH' -> In r SH \/ tl <= fst r + snd r) -> tl <= tl' -> aok SH tl att p -> aok SH' tl' att p.
Proof.
  intros HS HT [A B]. split; [lia|]. destruct att as [o|]; auto. intros r Hr E.
  destruct (HS r Hr) as [X|X]; [apply B; auto|lia].
Qed.

Lemma cok_mono SH tl done pbs SH' tl' done' pbs' c :
  (forall r, In r SH' -> In r SH \/ tl <= fst r + snd r) -> tl <= tl' ->
  (is_parse c = true -> done' = done /\ pbs' = pbs) ->
  cok SH tl done pbs c -> cok SH' tl' done' pbs' c.
Proof.
  intros HS HT HP. destruct c as [att|j att|e|e|s att]; cbn [cok]; auto.
  - destruct (HP eq_refl) as [-> ->]. intros (A1 & A2 & A3). split; [|split]; auto. eapply aok_mono; eauto.
  - intros (A1 & A2). split; auto. eapply aok_mono; eauto.
Qed.

Lemma lrc_chg SH tl done pbs R EQ SH' tl' done' pbs' :
  lrc SH tl done pbs R EQ ->
  (forall r, In r SH' -> In r SH \/ tl <= fst r + snd r) -> tl <= tl' ->
  ((done' = done /\ pbs' = pbs) \/ (Forall (fun c => is_parse c = false) R /\ (done' = false -> dbs_ok pbs' = true))) ->
  lrc SH' tl' done' pbs' R EQ.
Proof.
  intros [A B C] HS HT HP. constructor; auto.
  - rewrite Forall_forall in A. apply Forall_forall. intros c Hc. apply (cok_mono SH tl done pbs); auto.
    intro IP. destruct HP as [HP|[HP _]]; auto. rewrite Forall_forall in HP. rewrite (HP c Hc) in IP. discriminate.
  - destruct HP as [[-> ->]|[_ HP]]; auto.
Qed.

Lemma nparse_zero st : nparse st = 0%nat -> Forall (fun c => is_parse c = false) (x_running st).
Proof. unfold nparse. apply filter_len_zero. Qed.

(* ---- state level: frames ------------------------------------------------------------------------------- *)
Ltac fld := unfold add_run, give_unit, fail; xs; autorewrite with xf; xs.

Lemma lrcS_same st st' : lrcS st ->
  x_input_q st' = x_input_q st -> x_zombies st' = x_zombies st -> x_tail_offs st' = x_tail_offs st ->
  x_parsing_done st' = x_parsing_done st -> x_parser_bs st' = x_parser_bs st ->
  x_running st' = x_running st -> x_emit_q st' = x_emit_q st -> lrcS st'.
Proof. intros L E1 E2 E3 E4 E5 E6 E7. unfold lrcS, shapes in *. rewrite E1, E2, E3, E4, E5, E6, E7. exact L. Qed.

Ltac ls L := apply (lrcS_same _ _ L); fld; reflexivity.

Lemma lrcS_add c st : lrcS st -> cokS st c -> lrcS (add_run c st).
Proof.
  intros [A B C] K. unfold lrcS, cokS, shapes, add_run in *. xs. constructor; auto.
Qed.

Lemma lrcS_emitq q st : lrcS st -> Forall eok q -> lrcS (set_emit_q q st).
Proof. intros [A B C] K. unfold lrcS, shapes in *. xs. constructor; auto. Qed.

Lemma lrcS_del c st s1 : del_run c st = Some s1 -> lrcS st ->
  lrcS s1 /\ cokS st c /\ x_emit_q s1 = x_emit_q st /\ exists l1 l2, x_running st = l1 ++ c :: l2 /\ x_running s1 = l1 ++ l2.
Proof.
  intros D [A B C]. destruct (del_run_spec _ _ _ D) as (l1 & l2 & E & ->).
  rewrite E in A. apply Forall_app in A. destruct A as [A1 A2]. inversion A2 as [|? ? A3 A4]; subst.
  split; [|split; [exact A3|split; [xs; reflexivity|exists l1, l2; xs; auto]]].
  unfold lrcS, shapes in *. xs. constructor; auto. apply Forall_app. auto.
Qed.

Lemma shapes_attach d st : shapes (fst (attach d st)) = shapes st.
Proof. unfold shapes. rewrite shape_attach. autorewrite with xf. reflexivity. Qed.

Lemma lrcS_attach d st : lrcS st -> lrcS (fst (attach d st)).
Proof. intro L. unfold lrcS in *. rewrite shapes_attach. autorewrite with xf. exact L. Qed.

Lemma cokS_attach d st c : cokS st c -> cokS (fst (attach d st)) c.
Proof. unfold cokS. rewrite shapes_attach. autorewrite with xf. auto. Qed.

Lemma shapes_detach att st r : In r (shapes (detach att st)) -> In r (shapes st).
Proof.
  unfold shapes. rewrite shape_detach. rewrite !in_app_iff. intros [X|X]; auto. right.
  apply in_map_iff in X. destruct X as (z & <- & Hz). destruct (detach_zombies _ _ _ Hz) as (z0 & Z0 & _).
  revert Hz. unfold detach. destruct att as [o|]; [|intro; apply in_map; auto].
  destruct (has_blk o (x_input_q st)); xs; [intro; apply in_map; auto|].
  rewrite filter_In. intros [X _]. apply upd_ref_In in X. destruct X as (b & Hb & ->).
  replace (bshape (if ib_off b =? o then set_ref (N.pred (ib_ref b)) b else b)) with (bshape b)
    by (destruct (ib_off b =? o); reflexivity).
  apply in_map; auto.
Qed.

Lemma lrcS_detach att st : lrcS st -> lrcS (detach att st).
Proof.
  intro L. unfold lrcS in *. autorewrite with xf.
  eapply lrc_chg; [exact L| |apply N.le_refl|left; auto].
  intros r Hr. left. eapply shapes_detach; eauto.
Qed.

Lemma zrel_shape p r : In r (map bshape (zrel p)) -> In r (map bshape p).
Proof.
  unfold zrel. rewrite map_map. rewrite !in_map_iff. intros (b & <- & Hb). apply filter_In in Hb. exists b. split; [reflexivity|tauto].
Qed.

Lemma shapes_advance cfg bs st r : In r (shapes (advance cfg bs st)) -> In r (shapes st).
Proof.
  destruct (advance_fields cfg bs st) as (F1 & F2 & _). unfold shapes. rewrite F1, F2.
  rewrite (pop_input_app (d_off bs) (x_input_q st)) at 3. rewrite !map_app, !in_app_iff.
  intros [X|[X|X]]; auto. apply zrel_shape in X. auto.
Qed.

Lemma lrcS_advance cfg bs st : lrcS st -> nparse st = 0%nat -> (x_parsing_done st = false -> dbs_ok bs = true) ->
  lrcS (advance cfg bs st).
Proof.
  intros L N0 OK. unfold lrcS in *. destruct (advance_fields cfg bs st) as (_ & _ & _ & F4 & _). rewrite F4.
  autorewrite with xf.
  eapply lrc_chg; [exact L| |apply N.le_refl|right; split; [apply nparse_zero; exact N0|exact OK]].
  intros r Hr. left. eapply shapes_advance; eauto.
Qed.

(* ---- attach(): the new continuation ----------------------------------------------------------------------- *)
Lemma attach_snd d st o : snd (attach d st) = Some o ->
  exists b, find_blk (d_off d) (x_input_q st) = Some b /\ o = ib_off b.
Proof.
  unfold attach. destruct (can_attach_assert st d && (d_off d <=? x_tail_offs st));
    destruct (d_off d =? x_tail_offs st); simpl; xs; try discriminate;
    destruct (find_blk (d_off d) (x_input_q st)) as [b|] eqn:F; simpl; try discriminate;
    intro H; inversion H; eauto.
Qed.

Lemma aok_attach d st : cg st -> lin st -> x_head_offs st <= d_off d -> d_off d <= x_tail_offs st ->
  aok (shapes st) (x_tail_offs st) (snd (attach d st)) (d_off d).
Proof.
  intros CT L HD TL. split; [exact TL|]. destruct (snd (attach d st)) as [o|] eqn:A; [|exact I].
  destruct (attach_snd _ _ _ A) as (b & F & ->). unfold cg in CT.
  destruct (find_blk_spec _ _ _ _ CT HD b F) as (Hb & B1 & B2).
  apply lin_split in L. destruct L as [LB _]. unfold lblk_st in LB.
  intros r Hr E. unfold shapes in Hr. apply in_app_or in Hr. destruct Hr as [Hr|Hr]; apply in_map_iff in Hr; destruct Hr as (b' & <- & Hb').
  - cbn [bshape fst snd] in *.
    assert (S : bshape b = bshape b').
    { destruct (contig_bounds _ _ _ _ CT Hb) as (_ & _ & P). destruct (contig_bounds _ _ _ _ CT Hb') as (_ & _ & P').
      apply (contig_disjoint _ _ _ CT b b' (ib_off b)); auto; unfold ib_end; lia. }
    unfold bshape in S. inversion S. unfold ib_end in B2. lia.
  - exfalso. cbn [bshape fst] in E. pose proof (zomb_lt _ _ _ _ _ b' b CT LB Hb' Hb). lia.
Qed.

(* ---- events: the light ones ---------------------------------------------------------------------------------- *)
Lemma lrcS_init n tin tout ultra : lrcS (init_state n tin tout ultra).
Proof. constructor; simpl; auto. Qed.

Lemma lrcS_input sz m st st' : lrcS st -> input sz m st = Some st' -> lrcS st'.
Proof.
  unfold input. intros L H. match type of H with (if ?c then _ else _) = _ => destruct c eqn:C; [|discriminate] end.
  destruct (x_parsing_done st) eqn:PD; inversion H; subst; [exact L|]. clear H.
  unfold lrcS in *. unfold shapes. xs. rewrite PD in *.
  eapply lrc_chg; [exact L| |lia|left; auto].
  intros r Hr. unfold shapes. rewrite map_app in Hr. rewrite !in_app_iff in *. simpl in Hr.
  destruct Hr as [[X|[<-|[]]]|X]; auto. right. cbn [bshape fst snd ib_off ib_size]. lia.
Qed.

Lemma lrcS_light cfg st e st' : lrcS st -> step cfg st e = Some st' ->
  match e with EvEof | EvWritten | EvRetr2 _ | EvEmit0 | EvEmit1 _ _ _ _ _ | EvReorder => True | _ => False end -> lrcS st'.
Proof.
  intros L H E. unfold step in H. destruct (x_failed st); [discriminate|]. destruct e; try contradiction.
  - unfold reader_eof in H. destruct (x_eof st); inversion H. ls L.
  - unfold written in H. destruct (0 <? x_outq st); inversion H. ls L.
  - unfold retr2 in H. destruct (del_run (CRetr2 e) st) as [s1|] eqn:D; [|discriminate]. inversion H; subst.
    destruct (lrcS_del _ _ _ D L) as (L1 & K & _). apply lrcS_emitq; auto. constructor; [exact K|apply L1].
  - unfold emit0 in H. destruct (selects TEmit st); [|discriminate].
    destruct (qmin e_base pos_lt (x_emit_q st)) as [e|] eqn:Q; [|discriminate].
    destruct (remove_one ejob_eqb e (x_emit_q st)) as [q|] eqn:R; [|discriminate]. inversion H; subst st'.
    pose proof (lc_emit _ _ _ _ _ _ L) as FE. rewrite Forall_forall in FE.
    assert (L1 : lrcS (set_out_slots (N.pred (x_out_slots st)) st)) by (ls L).
    apply lrcS_add.
    + apply lrcS_emitq; auto. apply Forall_forall. intros y Hy. apply FE. eapply remove_one_In; eauto using ejob_eqb_eq.
    + unfold cokS. cbn [cok]. apply FE. eapply qmin_In; eauto.
  - unfold emit1 in H. destruct (del_run (CEmit e) st) as [s1|] eqn:D; [|discriminate].
    destruct (lrcS_del _ _ _ D L) as (L1 & K & _). unfold cokS in K. cbn [cok] in K.
    match type of H with (if ?c then _ else _) = _ => destruct c; [|discriminate] end.
    destruct (rv =? MORE); inversion H; subst.
    + assert (L2 : lrcS (set_emit_q (mkejob (fst (e_base e), snd (e_base e) + 1) (e_status e) (e_end e) :: x_emit_q s1) s1)).
      { apply lrcS_emitq; auto. constructor; [exact K|apply L1]. }
      ls L2.
    + ls L1.
  - unfold reorder in H. destruct (selects TReorder st); [|discriminate]. destruct (qmin o_base pos_lt (x_reord_q st)); [|discriminate].
    destruct (remove_one oblk_eqb o (x_reord_q st)); [|discriminate]. xs in H.
    destruct (x_order_q st); [inversion H; ls L|].
    repeat match type of H with context [if ?c then _ else _] => destruct c end; inversion H; subst; ls L.
Qed.

(* ---- first halves: attach ---------------------------------------------------------------------------------------- *)
Lemma lrcS_parse0 st st' : inv st -> lin st -> lrcS st -> parse0 st = Some st' -> lrcS st'.
Proof.
  unfold parse0. intros IV LI L H. destruct (selects TParse st) eqn:SE; [|discriminate].
  apply selects_ready in SE. cbn [ready] in SE. unfold can_parse in SE. bool_hyps.
  assert (PD : x_parsing_done st = false) by (destruct (x_parsing_done st); auto; discriminate).
  set (s0 := set_work_units (N.pred (x_work_units st)) (set_parse_token false st)) in *.
  assert (L0 : lrcS s0) by (subst s0; ls L).
  assert (A0 : aok (shapes s0) (x_tail_offs s0) (snd (attach (x_parser_bs s0) s0)) (d_off (x_parser_bs s0))).
  { apply aok_attach.
    - subst s0. unfold cg. xs. apply IV.
    - subst s0. apply (lin_chg _ _ LI); try (fld; reflexivity); fld; [apply rq_refl|apply us_refl].
    - subst s0. xs. apply (i_parser _ IV PD).
    - subst s0. xs. apply (li_pbs _ LI PD). }
  assert (P0 : x_parsing_done s0 = false /\ dbs_ok (x_parser_bs s0) = true).
  { subst s0. xs. split; auto. apply (lc_pok _ _ _ _ _ _ L PD). }
  clearbody s0.
  match type of H with context [attach ?a ?b] =>
    destruct (attach a b) as [s2 att] eqn:A; assert (E2 : s2 = fst (attach a b)) by (rewrite A; auto);
    assert (EA : att = snd (attach a b)) by (rewrite A; auto) end.
  inversion H; subst st' s2 att. apply lrcS_add; [apply lrcS_attach; exact L0|].
  apply cokS_attach. unfold cokS. cbn [cok]. destruct P0. auto.
Qed.

Lemma lrcS_retr0 j st st' : inv st -> lin st -> lrcS st -> retr0 j st = Some st' -> lrcS st'.
Proof.
  unfold retr0. intros IV LI L H. destruct (selects TRetrieve st); [|discriminate].
  destruct (take_min rjob_eqb rkey j (x_retr_q st)) as [q|] eqn:TM; [|discriminate].
  apply take_min_spec in TM. destruct TM as [RM _].
  assert (Hj : In j (x_retr_q st)) by (eapply remove_one_self; eauto using rjob_eqb_eq).
  set (s0 := set_retr_q q st) in *.
  assert (L0 : lrcS s0) by (subst s0; ls L).
  assert (A0 : aok (shapes s0) (x_tail_offs s0) (snd (attach (r_cur j) s0)) (d_off (r_cur j))).
  { apply aok_attach.
    - subst s0. unfold cg. xs. apply IV.
    - subst s0. apply (lin_chg _ _ LI); try (fld; reflexivity); fld; [|apply us_refl].
      intros j' Hj'. left. eapply remove_one_In; eauto using rjob_eqb_eq.
    - subst s0. xs. pose proof (i_retr _ IV) as F. rewrite Forall_forall in F. apply F; auto.
    - subst s0. xs. pose proof (li_retr _ LI) as F. rewrite Forall_forall in F. apply F; auto. }
  assert (JO : dbs_ok (r_cur j) = true).
  { pose proof (i_jobs _ IV) as F. rewrite Forall_forall in F. apply dbs_norm_ok. apply (F j). unfold all_jobs. apply in_or_app; auto. }
  clearbody s0.
  match type of H with context [attach ?a ?b] =>
    destruct (attach a b) as [s2 att] eqn:A; assert (E2 : s2 = fst (attach a b)) by (rewrite A; auto);
    assert (EA : att = snd (attach a b)) by (rewrite A; auto) end.
  inversion H; subst st' s2 att. apply lrcS_add; [apply lrcS_attach; exact L0|].
  apply cokS_attach. unfold cokS. cbn [cok]. auto.
Qed.

Lemma lrcS_scan0 st st' : lrcS st -> scan0 st = Some st' -> lrcS st'.
Proof.
  unfold scan0. intros L H. destruct (selects TScan st); [|discriminate].
  destruct (qmin d_pos pos_lt (x_scan_q st)) as [s|] eqn:Q; [|discriminate].
  destruct (remove_one dbs_eqb s (x_scan_q st)) as [q|] eqn:R; [|discriminate].
  match type of H with context [attach ?a ?b] =>
    destruct (attach a b) as [s2 att] eqn:A; assert (E2 : s2 = fst (attach a b)) by (rewrite A; auto);
    assert (EA : att = snd (attach a b)) by (rewrite A; auto) end.
  inversion H; subst st' s2 att. apply lrcS_add; [apply lrcS_attach; ls L|]. exact I.
Qed.

(* ---- do_scan, second half ------------------------------------------------------------------------------------------ *)
Lemma lrcS_scan1 cfg s att found s' more st st' : lrcS st -> scan1 cfg s att found s' more st = Some st' -> lrcS st'.
Proof.
  intros L H. unfold scan1 in H.
  destruct (del_run (CScan s att) st) as [s1|] eqn:D; [|discriminate].
  destruct (lrcS_del _ _ _ D L) as (L1 & _). clear D L.
  set (aend := att_end att s1) in *. clearbody aend.
  pose proof (lrcS_detach att s1 L1) as L2. set (s2 := detach att s1) in *. clearbody s2.
  destruct (negb found || x_parsing_done s2).
  { inversion H; subst. ls L2. }
  match type of H with (if ?c then _ else _) = _ => destruct c; [|discriminate] end.
  match type of H with context [set_scan_q (s' :: x_scan_q ?x) _] => set (s3 := x) in H end.
  assert (L3 : lrcS s3).
  { subst s3. repeat match goal with |- context [if ?c then _ else _] => destruct c end; ls L2. }
  clearbody s3.
  match type of H with (if ?c then _ else _) = _ => destruct c end; inversion H; subst; [ls L3|exact L3].
Qed.

(* ---- do_parse, second half ------------------------------------------------------------------------------------------ *)
Definition uok (u : unord) : Prop := u_inq u = true -> dbs_ok (u_end u) = true.

Lemma uok_stems u u0 : stems u u0 -> uok u0 -> uok u.
Proof. unfold stems, uok. intros (_ & _ & E3 & E4 & _). rewrite E3, E4. auto. Qed.

Lemma lrcS_parse_finish cfg g s : lrcS s -> nparse s = 0%nat -> lrcS (parse_finish cfg g s).
Proof.
  intros L N0. unfold parse_finish. set (pb' := mkdbs _ _). clearbody pb'.
  apply nparse_zero in N0.
  match goal with |- context [if ?c then _ else _] => destruct c end.
  { unfold lrcS, shapes, fail in *. xs. eapply lrc_chg; [exact L|intros; auto|apply N.le_refl|right; split; [exact N0|discriminate]]. }
  unfold lrcS, shapes in *.
  destruct (c_finish_drops_link cfg); xs; autorewrite with xf; xs; rewrite fold_release_zrel; xs;
    (eapply lrc_chg; [exact L| |apply N.le_refl|right; split; [exact N0|discriminate]]);
    intros r Hr; left; simpl in Hr; rewrite map_app in Hr; rewrite !in_app_iff in *;
    (destruct Hr as [X|X]; [auto|apply zrel_shape in X; auto]).
Qed.

Lemma lrcS_parse_ok cfg lv crc s : lrcS s -> nparse s = 0%nat -> Forall uok (x_unords s) -> lrcS (parse_ok cfg lv crc s).
Proof.
  intros L N0 UO. unfold parse_ok.
  set (s2 := set_unords _ (set_order_q _ s)).
  assert (L2 : lrcS s2) by (subst s2; ls L).
  assert (N2 : nparse s2 = 0%nat) by (subst s2; unfold nparse in *; xs; exact N0).
  assert (U2 : forall u, In u (unord_q s2) -> dbs_ok (u_end u) = true).
  { intros u Hu. unfold unord_q in Hu. apply filter_In in Hu. destruct Hu as [Hu IQ]. subst s2. xs in Hu.
    apply discard_below_spec in Hu. destruct Hu as (u0 & H0 & [->|[_ ->]]).
    - rewrite Forall_forall in UO. apply (UO u0 H0 IQ).
    - simpl in IQ. discriminate. }
  assert (B2 : x_parser_bs s2 = x_parser_bs s) by (subst s2; xs; reflexivity).
  assert (NEW : lrcS (set_retr_q (mkrjob (d_pos (x_parser_bs s)) (x_parser_bs s2) None :: x_retr_q s2) s2)) by (ls L2).
  clearbody s2.
  destruct (qmin u_base pos_lt (unord_q s2)) as [u|] eqn:Q; [|exact NEW].
  destruct (pos_eq (u_base u) (d_pos (x_parser_bs s))); [|exact NEW]. clear NEW.
  apply qmin_In in Q. specialize (U2 u Q).
  pose proof (lrcS_advance cfg (u_end u) s2 L2 N2 (fun _ => U2)) as L3.
  set (s3 := advance cfg (u_end u) s2) in *. clearbody s3.
  destruct (u_complete u); ls L3.
Qed.

Lemma lrcS_parse1 cfg att r st st' : inv st -> lrcS st -> parse1 cfg att r st = Some st' -> lrcS st'.
Proof.
  intros IV L H. unfold parse1 in H.
  destruct (del_run (CParse att) st) as [s1|] eqn:D; [|discriminate].
  destruct (lrcS_del _ _ _ D L) as (L1 & _).
  destruct (inv_del_parse _ _ _ D IV) as (I1 & _ & N1 & _ & PD1).
  clear D L IV.
  set (aend := att_end att s1) in *. clearbody aend.
  match type of H with (if ?c then _ else _) = _ => destruct c eqn:CK; [|discriminate] end.
  assert (OK : dbs_ok (res_bs r) = true).
  { apply andb_true_iff in CK. destruct CK as [CK _]. apply andb_true_iff in CK. destruct CK as [CK _].
    apply andb_true_iff in CK. destruct CK as [CK _]. exact CK. }
  clear CK.
  pose proof (lrcS_detach att s1 L1) as L2.
  assert (N2 : nparse (detach att s1) = 0%nat) by (unfold nparse in *; autorewrite with xf; exact N1).
  assert (U2 : Forall uok (x_unords (detach att s1))).
  { autorewrite with xf. eapply Forall_impl; [|apply (i_unord _ I1)]. intros u (O1 & _) Q. apply (O1 Q). }
  set (s2 := detach att s1) in *. clearbody s2. clear L1 N1 I1 PD1.
  pose proof (lrcS_advance cfg (res_bs r) s2 L2 N2 (fun _ => OK)) as L3.
  assert (N3 : nparse (advance cfg (res_bs r) s2) = 0%nat) by (unfold nparse in *; autorewrite with xf; exact N2).
  assert (U3 : Forall uok (x_unords (advance cfg (res_bs r) s2))).
  { apply Forall_forall. intros u Hu. destruct (advance_fields cfg (res_bs r) s2) as (_ & _ & _ & _ & _ & F6).
    destruct (F6 u Hu) as (u0 & H0 & S0). rewrite Forall_forall in U2. eapply uok_stems; eauto. }
  set (s3 := advance cfg (res_bs r) s2) in *. clearbody s3.
  destruct r as [bs ps|bs g|bs code|bs ps lv crc].
  - match type of H with (if ?c then _ else _) = _ => destruct c; [|discriminate] end. inversion H; subst. ls L3.
  - match type of H with (if ?c then _ else _) = _ => destruct c; [|discriminate] end. inversion H; subst.
    apply lrcS_parse_finish; auto.
  - match type of H with (if ?c then _ else _) = _ => destruct c; [discriminate|] end. inversion H; subst. ls L3.
  - match type of H with (if ?c then _ else _) = _ => destruct c; [|discriminate] end. inversion H; subst.
    apply lrcS_parse_ok.
    + ls L3.
    + unfold nparse in *. xs. exact N3.
    + xs. exact U3.
Qed.

(* ---- do_retrieve, second half ---------------------------------------------------------------------------------------- *)
Lemma master_cond j s :
  (match r_link j with Some _ => true | None => false end) &&
  (match link_state (r_link j) s with Some u => u_complete u | None => false end) &&
  negb (match link_state (r_link j) s with Some u => u_legit u | None => false end) = false ->
  negb (match r_link j with Some _ => true | None => false end) ||
  (match link_state (r_link j) s with Some u => u_complete u | None => false end) = true ->
  jm (x_unords s) j = true.
Proof.
  destruct (link_state (r_link j) s) as [u|] eqn:LS.
  - destruct (link_state_spec _ _ _ LS) as (id & EL & _). rewrite EL. cbn [negb andb orb].
    destruct (u_complete u) eqn:UC; [|discriminate]. destruct (u_legit u) eqn:UL; [|discriminate].
    intros _ _. eapply jm_of_link_state; eauto.
  - destruct (r_link j) eqn:EL; cbn [negb andb orb]; [discriminate|]. intros _ _. unfold jm. rewrite EL. reflexivity.
Qed.

Lemma lrcS_retr1 cfg j att rv cur st st' : inv st -> lrcS st -> retr1 cfg j att rv cur st = Some st' -> lrcS st'.
Proof.
  intros IV L H. unfold retr1 in H.
  destruct (del_run (CRetr j att) st) as [s1|] eqn:D; [|discriminate].
  destruct (lrcS_del _ _ _ D L) as (L1 & _).
  destruct (inv_del_retr _ _ _ _ D IV) as (_ & _ & _ & EX & _).
  clear D L IV.
  set (aend := att_end att s1) in *. clearbody aend.
  match type of H with (if ?c then _ else _) = _ => destruct c eqn:CK; [|discriminate] end.
  assert (OK : dbs_ok cur = true /\ rv <> FINISH).
  { apply andb_true_iff in CK. destruct CK as [CK NF]. apply andb_true_iff in CK. destruct CK as [CK _].
    apply andb_true_iff in CK. destruct CK as [CK _]. apply andb_true_iff in CK. destruct CK as [CK _].
    apply andb_true_iff in CK. destruct CK as [CK _]. split; auto.
    apply negb_true_iff in NF. apply N.eqb_neq in NF. exact NF. }
  destruct OK as [OK NF]. clear CK.
  pose proof (lrcS_detach att s1 L1) as L2.
  assert (EX2 : jm (x_unords (detach att s1)) j = true -> nparse (detach att s1) = 0%nat).
  { unfold nparse in *. autorewrite with xf. intro JM. rewrite JM in EX. simpl in EX. lia. }
  set (s2 := detach att s1) in *. clearbody s2. clear L1 EX.
  destruct (x_parsing_done s2).
  { inversion H; subst. destruct (c_retr_done_drops_link cfg); ls L2. }
  cbv zeta in H.
  match type of H with (if ?c then _ else _) = _ => destruct c eqn:AB end.
  { inversion H; subst. destruct (c_retr_abort_drops_link cfg); ls L2. }
  match type of H with context [d_off cur <? x_head_offs ?s] => set (s3 := s) in H end.
  assert (L3 : lrcS s3).
  { subst s3. match goal with |- context [if ?c then _ else _] => destruct c eqn:AD end.
    - apply lrcS_advance; auto. apply EX2. apply master_cond; assumption.
    - destruct (r_link j); [ls L2|exact L2]. }
  clearbody s3. clear AB EX2 L2.
  destruct (rv =? MORE).
  - match type of H with (if ?c then _ else _) = _ => destruct c end; inversion H; subst.
    + destruct (c_stale_drops_link cfg); ls L3.
    + ls L3.
  - inversion H; subst. apply lrcS_add; [|exact NF].
    match goal with |- context [if ?c then _ else _] => destruct c end; destruct (r_link j); try exact L3; ls L3.
Qed.

(* ---- the invariant is inductive ------------------------------------------------------------------------------------- *)
Lemma lrun'_init n tin tout ultra : lrun' (init_state n tin tout ultra).
Proof. constructor; [apply lrcS_init|]. simpl. intros c o []. Qed.

Lemma lrun_init n tin tout ultra : lrun (init_state n tin tout ultra).
Proof. apply lrun'_lrun, lrun'_init. Qed.

(* hypotheses used: inv st, lin st *)
Theorem lrcS_step cfg st e st' : inv st -> lin st -> lrcS st -> step cfg st e = Some st' -> lrcS st'.
Proof.
  intros IV LI L H.
  destruct e; try (eapply lrcS_light; eauto; exact I); unfold step in H; destruct (x_failed st); try discriminate.
  - eapply lrcS_input; eauto.
  - eapply lrcS_parse0; eauto.
  - eapply lrcS_parse1; eauto.
  - eapply lrcS_retr0; eauto.
  - eapply lrcS_retr1; eauto.
  - eapply lrcS_scan0; eauto.
  - eapply lrcS_scan1; eauto.
Qed.

Theorem lrun'_step_min cfg st e st' : inv st -> lin st -> lrun' st -> step cfg st e = Some st' -> lrun' st'.
Proof.
  intros IV LI [L _] H. constructor; [eapply lrcS_step; eauto|].
  apply (li_att _ (lin_step_min cfg st e st' IV LI H)).
Qed.

Theorem lrun'_step cfg st e st' :
  cfg_safe cfg -> inv st -> sown st -> lin st -> x_failed st' = None -> lrun' st -> step cfg st e = Some st' -> lrun' st'.
Proof. intros _ IV _ LI _. apply lrun'_step_min; auto. Qed.

(* [lrun] alone is not inductive (it says nothing about emit_q, from which emit0 creates CEmit continuations,
   nor about the parser's bit stream, from which parse0 creates CParse): the step theorem for [lrun]
   starts from the strengthened invariant *)
Theorem lrun_step cfg st e st' :
  cfg_safe cfg -> inv st -> sown st -> lin st -> x_failed st' = None -> lrun' st -> step cfg st e = Some st' -> lrun st'.
Proof. intros CS IV SO LI NF L H. apply lrun'_lrun. eapply lrun'_step; eauto. Qed.

Theorem lrun'_reach cfg n tin tout ultra st : cfg_safe cfg -> reach cfg (init_state n tin tout ultra) st -> lrun' st.
Proof.
  intros CS R. induction R as [|st e st' R IH H]; [apply lrun'_init|].
  destruct (sown_reach _ _ _ _ _ _ CS R) as [IV _]. eapply lrun'_step_min; eauto. eapply lin_reach; eauto.
Qed.

Theorem lrun_reach cfg n tin tout ultra st : cfg_safe cfg -> reach cfg (init_state n tin tout ultra) st -> lrun st.
Proof. intros CS R. apply lrun'_lrun. eapply lrun'_reach; eauto. Qed.

(* ---- every running worker can finish its second locked segment -------------------------------------------------- *)
Lemma del_run_in c st : In c (x_running st) -> exists l, del_run c st = Some (set_running l st).
Proof.
  intro H. destruct (In_remove_one_some cont_eqb cont_eqb_refl c _ H) as [l E]. exists l. unfold del_run. rewrite E. reflexivity.
Qed.

Lemma att_end_running att l st : att_end att (set_running l st) = att_end att st.
Proof. unfold att_end. xs. reflexivity. Qed.

Theorem running_returns cfg st c : x_failed st = None -> lrun st -> In c (x_running st) ->
  exists e st', step cfg st e = Some st' /\ productive st e = true.
Proof.
  intros NF L Hc. unfold lrun in L. rewrite Forall_forall in L. specialize (L c Hc).
  destruct (del_run_in c st Hc) as [l D].
  destruct c as [att|j att|e|e|s att]; cbn [cont_ok] in L.
  - (* parse: report an error *)
    destruct L as (PD & DK & LE).
    exists (EvParse1 att (PErr (x_parser_bs st) E_ERR_MAGIC)). unfold step. rewrite NF. unfold parse1. rewrite D.
    cbn [res_bs]. rewrite att_end_running. xs. rewrite DK.
    replace (d_bit (x_parser_bs st) <=? d_bit (x_parser_bs st)) with true by (symmetry; apply N.leb_refl).
    replace (d_off (x_parser_bs st) <=? d_off (x_parser_bs st)) with true by (symmetry; apply N.leb_refl).
    replace (d_off (x_parser_bs st) <=? att_end att st) with true by (symmetry; apply N.leb_le; exact LE).
    cbn [andb]. change ((E_ERR_MAGIC =? OK) || (E_ERR_MAGIC =? MORE) || (E_ERR_MAGIC =? FINISH)) with false. cbv iota.
    eexists. split; reflexivity.
  - (* retrieve: report an error *)
    destruct L as (DK & LE).
    exists (EvRetr1 j att E_ERR_BITMAP (r_cur j)). unfold step. rewrite NF. unfold retr1. rewrite D.
    rewrite att_end_running. rewrite DK.
    replace (d_bit (r_cur j) <=? d_bit (r_cur j)) with true by (symmetry; apply N.leb_refl).
    replace (d_off (r_cur j) <=? d_off (r_cur j)) with true by (symmetry; apply N.leb_refl).
    replace (d_off (r_cur j) <=? att_end att st) with true by (symmetry; apply N.leb_le; exact LE).
    change (E_ERR_BITMAP =? MORE) with false. change (E_ERR_BITMAP =? FINISH) with false. cbn [andb negb]. cbv iota. cbv zeta.
    set (s2 := detach att (set_running l st)). clearbody s2.
    destruct (x_parsing_done s2); [eexists; split; reflexivity|].
    match goal with |- context [if ?c then _ else _] => destruct c end; eexists; split; reflexivity.
  - exists (EvRetr2 e). unfold step. rewrite NF. unfold retr2. rewrite D. eexists. split; reflexivity.
  - exists (EvEmit1 e (e_status e) 0 0 0). unfold step. rewrite NF. unfold emit1. rewrite D.
    rewrite N.eqb_refl, orb_true_r. replace (e_status e =? FINISH) with false by (symmetry; apply N.eqb_neq; exact L).
    cbn [andb negb]. destruct (e_status e =? MORE); eexists; split; reflexivity.
  - exists (EvScan1 s att false s false). unfold step. rewrite NF. unfold scan1. rewrite D.
    cbn [negb orb]. eexists. split; reflexivity.
Qed.

Corollary running_returns' cfg st c : x_failed st = None -> lrun' st -> In c (x_running st) ->
  exists e st', step cfg st e = Some st' /\ productive st e = true.
Proof. intros NF L. apply running_returns; auto. apply lrun'_lrun; auto. Qed.

Print Assumptions lrun_init.
Print Assumptions lrun_step.
Print Assumptions lrun'_lrun.
Print Assumptions lrun'_step.
Print Assumptions lrun'_reach.
Print Assumptions running_returns.
