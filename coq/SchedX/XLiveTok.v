(* Liveness of the decompression scheduler, group G2: [ltk] (XLiveDefs.v) is an inductive
   invariant.  While the parser has not finished exactly one of {parse token, running parser,
   master retrieve job} exists ([inv] gives "at most one", here "at least one"), a queued
   master stands at the parser's position, request_close = parsing_done and no retrieve
   job is queued once parsing is done. *)
From Coq Require Import List NArith Bool Lia Arith ZifyBool ZifyN ZifyNat Sorted.
From LBZ Require Import Gen.Consts SchedX.XState Gen.SchedXTab SchedX.XSet SchedX.XModel SchedX.XLemmas
  SchedX.XFrame SchedX.XInvDefs SchedX.XOps SchedX.XInv SchedX.XInv2 SchedX.XInv3 SchedX.XInv4 SchedX.XOracle
  SchedX.XSeq SchedX.XCount SchedX.XOwn SchedX.XOwnAdv SchedX.XOwnRetr SchedX.XOwnProofs SchedX.XLiveDefs.
Import ListNotations.
Local Open Scope N_scope.

(* ---- the lower bound as an existence statement ------------------------------------------- *)
Definition hasm (s : xstate) : Prop := exists j, In j (all_jobs s) /\ jm (x_unords s) j = true.
Definition tokp (s : xstate) : Prop := x_parse_token s = true \/ (1 <= nparse s)%nat \/ hasm s.
Definition mpq (s : xstate) : Prop :=
  forall j, In j (x_retr_q s) -> jm (x_unords s) j = true -> r_cur j = x_parser_bs s.

Lemma masters_pos s : (1 <= masters s)%nat <-> hasm s.
Proof.
  unfold masters, hasm. split.
  - intro P. destruct (filter (jm (x_unords s)) (all_jobs s)) as [|j r] eqn:F; [simpl in P; lia|].
    assert (Hf : In j (filter (jm (x_unords s)) (all_jobs s))) by (rewrite F; left; auto).
    apply filter_In in Hf. exists j. exact Hf.
  - intros (j & J1 & J2). assert (Hf : In j (filter (jm (x_unords s)) (all_jobs s))) by (apply filter_In; auto).
    destruct (filter (jm (x_unords s)) (all_jobs s)); [destruct Hf|simpl; lia].
Qed.

Lemma ex_tokp s : (1 <= b2n (x_parse_token s) + nparse s + masters s)%nat <-> tokp s.
Proof.
  unfold tokp. rewrite <- masters_pos. destruct (x_parse_token s); simpl.
  - split; [left; reflexivity|lia].
  - split; [lia|intros [H|[H|H]]; [discriminate|lia|lia]].
Qed.

Lemma ltk_mk s :
  x_closed s = x_parsing_done s -> (x_parsing_done s = true -> x_retr_q s = []) ->
  (x_parsing_done s = false -> tokp s) -> (x_parsing_done s = false -> mpq s) -> ltk s.
Proof.
  intros A B C D. constructor; auto.
  intro PD. apply (ex_tokp s). auto.
Qed.

Lemma ltk_tokp s : ltk s -> x_parsing_done s = false -> tokp s.
Proof. intros L PD. apply ex_tokp. apply (lt_ex _ L PD). Qed.

Lemma ltk_mpq s : ltk s -> x_parsing_done s = false -> mpq s.
Proof. intros L PD. exact (lt_mp _ L PD). Qed.

(* with the token free, or a parser running, no job is a master *)
Lemma inv_no_master s : inv s -> x_parse_token s = true \/ (1 <= nparse s)%nat -> masters s = 0%nat.
Proof.
  intros I H. pose proof (i_excl _ I) as E. fold (masters s) in E.
  destruct H as [H|H]; [rewrite H in E; simpl in E; lia|lia].
Qed.

Lemma mpq_no_master s : masters s = 0%nat -> mpq s.
Proof.
  intros M j Hj J. exfalso. rewrite (no_masters_jm s j M) in J; [discriminate|].
  unfold all_jobs. apply in_or_app. auto.
Qed.

(* ---- states that agree on what ltk looks at ------------------------------------------------ *)
Lemma ltk_eq st st' :
  x_closed st' = x_closed st -> x_parsing_done st' = x_parsing_done st -> x_retr_q st' = x_retr_q st ->
  x_parse_token st' = x_parse_token st -> x_unords st' = x_unords st -> x_parser_bs st' = x_parser_bs st ->
  nparse st' = nparse st -> run_jobs (x_running st') = run_jobs (x_running st) -> ltk st -> ltk st'.
Proof.
  intros EC v_done v_retr v_tok v_un v_pbs v_np v_rj [A B C D].
  assert (AJ : all_jobs st' = all_jobs st) by (unfold all_jobs; congruence).
  constructor; unfold masters; rewrite ?AJ, ?EC, ?v_done, ?v_retr, ?v_tok, ?v_np, ?v_un, ?v_pbs; auto.
Qed.

Lemma ltk_view st st' : view_eq st st' -> x_closed st' = x_closed st -> ltk st -> ltk st'.
Proof. intros [] EC. apply ltk_eq; auto. Qed.

Ltac lview := first [reflexivity | unfold nparse; xs; autorewrite with xf; xs; reflexivity].

Lemma ltk_input sz m st st' : ltk st -> input sz m st = Some st' -> ltk st'.
Proof.
  unfold input. intros L H. match type of H with (if ?c then _ else _) = _ => destruct c; [|discriminate] end.
  destruct (x_parsing_done st); inversion H; subst; auto.
  apply (ltk_eq st); try exact L; lview.
Qed.

Lemma ltk_eof st st' : ltk st -> reader_eof st = Some st' -> ltk st'.
Proof.
  unfold reader_eof. intros L H. destruct (x_eof st); [discriminate|]. inversion H; subst.
  eapply ltk_view; [| |exact L]; [view_tac|lview].
Qed.

Lemma ltk_written st st' : ltk st -> written st = Some st' -> ltk st'.
Proof.
  unfold written. intros L H. destruct (0 <? x_outq st); [|discriminate]. inversion H; subst.
  eapply ltk_view; [| |exact L]; [view_tac|lview].
Qed.

Lemma closed_del_run c st s1 : del_run c st = Some s1 -> x_closed s1 = x_closed st.
Proof. intro D. destruct (del_run_spec _ _ _ D) as (l1 & l2 & _ & ->). reflexivity. Qed.

Lemma ltk_retr2 e st st' : ltk st -> retr2 e st = Some st' -> ltk st'.
Proof.
  unfold retr2. intros L H. destruct (del_run (CRetr2 e) st) as [s1|] eqn:D; [|discriminate]. inversion H; subst.
  eapply ltk_view; [| |exact L].
  - eapply view_trans; [eapply view_del_run; eauto|]. view_tac.
  - xs. eapply closed_del_run; eauto.
Qed.

Lemma ltk_emit0 st st' : ltk st -> emit0 st = Some st' -> ltk st'.
Proof.
  unfold emit0. intros L H. destruct (selects TEmit st); [|discriminate].
  destruct (qmin e_base pos_lt (x_emit_q st)) as [e|]; [|discriminate].
  destruct (remove_one ejob_eqb e (x_emit_q st)) as [q|]; [|discriminate]. inversion H; subst.
  eapply ltk_view; [| |exact L]; [|lview].
  eapply view_trans; [|apply view_add_run; auto]. view_tac.
Qed.

Lemma ltk_emit1 e rv size crc blksz st st' : ltk st -> emit1 e rv size crc blksz st = Some st' -> ltk st'.
Proof.
  unfold emit1. intros L H. destruct (del_run (CEmit e) st) as [s1|] eqn:D; [|discriminate].
  assert (V : view_eq st s1) by (eapply view_del_run; eauto).
  pose proof (closed_del_run _ _ _ D) as EC.
  destruct (((e_status e =? OK) || (rv =? e_status e)) && negb (rv =? FINISH)); [|discriminate].
  destruct (rv =? MORE); inversion H; subst; (eapply ltk_view; [| |exact L]);
    try (eapply view_trans; [exact V|]; unfold give_unit; view_tac); unfold give_unit; xs; exact EC.
Qed.

Lemma ltk_reorder st st' : ltk st -> reorder st = Some st' -> ltk st'.
Proof.
  unfold reorder. intros L H. destruct (selects TReorder st); [|discriminate].
  destruct (qmin o_base pos_lt (x_reord_q st)) as [o|]; [|discriminate].
  destruct (remove_one oblk_eqb o (x_reord_q st)) as [q|]; [|discriminate].
  xs in H.
  destruct (x_order_q st) as [|ord rest]; [inversion H; subst; eapply ltk_view; [| |exact L]; [view_tac|lview]|].
  destruct (pos_lt (o_base o) (h_base ord)); [inversion H; subst; eapply ltk_view; [| |exact L]; [view_tac|lview]|].
  repeat match type of H with context [if ?c then _ else _] => destruct c end;
    inversion H; subst; (eapply ltk_view; [unfold fail; view_tac|unfold fail; lview|exact L]).
Qed.

Lemma ltk_scan0 st st' : ltk st -> scan0 st = Some st' -> ltk st'.
Proof.
  unfold scan0. intros L H. destruct (selects TScan st); [|discriminate].
  destruct (qmin d_pos pos_lt (x_scan_q st)) as [s|]; [|discriminate].
  destruct (remove_one dbs_eqb s (x_scan_q st)) as [q|]; [|discriminate].
  set (st1 := set_scan_q q (set_work_units (N.pred (x_work_units st)) st)) in *.
  destruct (attach s st1) as [st2 att] eqn:A.
  assert (E2 : st2 = fst (attach s st1)) by (rewrite A; reflexivity).
  inversion H; subst st'. clear H. rewrite E2. subst st1. destruct L as [A1 B1 C1 D1].
  constructor; unfold masters, all_jobs, nparse, add_run in *; xs; autorewrite with xf; xs; auto.
Qed.

(* ---- do_parse / do_retrieve: a task starts ---------------------------------------------------- *)
Lemma ltk_parse0 st st' : ltk st -> parse0 st = Some st' -> ltk st'.
Proof.
  unfold parse0. intros L H. destruct (selects TParse st); [|discriminate].
  set (st1 := set_work_units (N.pred (x_work_units st)) (set_parse_token false st)) in *.
  destruct (attach (x_parser_bs st1) st1) as [st2 att] eqn:A.
  assert (E2 : st2 = fst (attach (x_parser_bs st1) st1)) by (rewrite A; reflexivity).
  inversion H; subst st'. clear H. rewrite E2. subst st1. destruct L as [A1 B1 C1 D1].
  apply ltk_mk.
  - unfold add_run; xs; autorewrite with xf; xs. exact A1.
  - unfold add_run; xs; autorewrite with xf; xs. exact B1.
  - intros _. right. left. unfold add_run. rewrite nparse_cons. simpl. lia.
  - unfold mpq, add_run; xs; autorewrite with xf; xs. exact D1.
Qed.

Lemma ltk_retr0 j st st' : ltk st -> retr0 j st = Some st' -> ltk st'.
Proof.
  unfold retr0. intros L H. destruct (selects TRetrieve st); [|discriminate].
  destruct (take_min rjob_eqb rkey j (x_retr_q st)) as [q|] eqn:T; [|discriminate].
  apply take_min_spec in T. destruct T as [R _].
  destruct (remove_one_split _ rjob_eqb_eq _ _ _ R) as (l1 & l2 & EQ & Eq).
  set (st1 := set_retr_q q st) in *.
  destruct (attach (r_cur j) st1) as [st2 att] eqn:A.
  assert (E2 : st2 = fst (attach (r_cur j) st1)) by (rewrite A; reflexivity).
  inversion H; subst st'. clear H. rewrite E2. subst st1.
  apply ltk_mk.
  - unfold add_run; xs; autorewrite with xf; xs. apply L.
  - unfold add_run; xs; autorewrite with xf; xs. intro PD. exfalso. rewrite (lt_r0 _ L PD) in EQ. destruct l1; discriminate.
  - unfold add_run at 1; xs; autorewrite with xf; xs. intro PD.
    destruct (ltk_tokp st L PD) as [T|[N|(x & X1 & X2)]].
    + left. unfold add_run; xs; autorewrite with xf; xs. exact T.
    + right. left. unfold add_run. rewrite nparse_cons. xs; autorewrite with xf; xs. simpl. exact N.
    + right. right. exists x. split.
      * unfold all_jobs, add_run in *. xs; autorewrite with xf; xs. rewrite run_jobs_cons. simpl cjobs.
        rewrite EQ in X1. rewrite Eq. apply In_app_mid. exact X1.
      * unfold add_run; xs; autorewrite with xf; xs. exact X2.
  - unfold add_run at 1; xs; autorewrite with xf; xs. intro PD.
    unfold mpq, add_run; xs; autorewrite with xf; xs. intros x Hx J. apply (lt_mp _ L PD); auto.
    rewrite EQ. rewrite Eq in Hx. rewrite in_app_iff in *. simpl. tauto.
Qed.

(* ---- do_scan ------------------------------------------------------------------------------------ *)
Lemma ltk_scan1 cfg s att found s' more st st' :
  inv st -> ltk st -> scan1 cfg s att found s' more st = Some st' -> ltk st'.
Proof.
  intros I L H. unfold scan1 in H.
  destruct (del_run (CScan s att) st) as [s1|] eqn:D; [|discriminate].
  assert (I1 : inv s1) by (eapply inv_view; [eapply view_del_run; eauto|auto]).
  assert (L1 : ltk s1) by (eapply ltk_view; [eapply view_del_run; eauto|eapply closed_del_run; eauto|auto]).
  clear I L D. set (aend := att_end att s1) in *. clearbody aend.
  assert (I2 : inv (detach att s1)) by (eapply inv_view; [apply view_detach|auto]).
  assert (L2 : ltk (detach att s1)) by (eapply ltk_view; [apply view_detach|lview|auto]).
  set (s2 := detach att s1) in *. clearbody s2. clear I1 L1 s1.
  destruct (negb found || x_parsing_done s2) eqn:F.
  { inversion H; subst. eapply ltk_view; [| |exact L2]; [view_tac|lview]. }
  match type of H with (if ?c then _ else _) = _ => destruct c; [|discriminate] end.
  apply orb_false_iff in F. destruct F as [_ PD].
  set (s3 := if pos_le (d_pos s') (d_pos (x_parser_bs s2)) || (c_scan_job_checks_head cfg && (d_off s' <? x_head_offs s2)) then give_unit s2
             else if c_scan_checks_unord_cap cfg && unord_full s2 then give_unit s2
             else set_retr_q (mkrjob (d_pos s') s' (Some (x_next_uid s2)) :: x_retr_q s2)
                   (set_next_uid (x_next_uid s2 + 1)
                      (set_unords (x_unords s2 ++ [mkunord (x_next_uid s2) (d_pos s') s' false false true]) s2))) in *.
  assert (L3 : ltk s3).
  { subst s3. destruct (pos_le (d_pos s') (d_pos (x_parser_bs s2)) || (c_scan_job_checks_head cfg && (d_off s' <? x_head_offs s2)));
      [|destruct (c_scan_checks_unord_cap cfg && unord_full s2)].
    - eapply ltk_view; [| |exact L2]; [view_tac|lview].
    - eapply ltk_view; [| |exact L2]; [view_tac|lview].
    - set (un := mkunord (x_next_uid s2) (d_pos s') s' false false true).
      set (jn := mkrjob (d_pos s') s' (Some (x_next_uid s2))).
      assert (NJ : jm (x_unords s2 ++ [un]) jn = false).
      { unfold jm. simpl. rewrite existsb_app. simpl. rewrite andb_false_r. simpl. rewrite orb_false_r.
        apply not_true_iff_false. intro X. apply existsb_exists in X. destruct X as (u & Hu & X). bool_hyps.
        pose proof (i_ufresh _ I2) as If. rewrite Forall_forall in If. apply If in Hu.
        match goal with K : (u_id u =? x_next_uid s2) = true |- _ => apply N.eqb_eq in K; rewrite K in Hu end. exact (N.lt_irrefl _ Hu). }
      assert (JO : forall x, jm (x_unords s2 ++ [un]) x = jm (x_unords s2) x) by (intro x; apply jm_app_new; reflexivity).
      apply ltk_mk.
      + xs. apply L2.
      + xs. intro X. congruence.
      + intros _. destruct (ltk_tokp s2 L2 PD) as [T|[N|(x & X1 & X2)]].
        * left. xs. exact T.
        * right. left. unfold nparse in *. xs. exact N.
        * right. right. exists x. unfold all_jobs in *. xs. split; [right; exact X1|]. rewrite JO. exact X2.
      + intros _. unfold mpq. xs. intros x [<-|Hx] J.
        * congruence.
        * rewrite JO in J. apply (lt_mp _ L2 PD); auto. }
  clearbody s3.
  match type of H with (if ?c then _ else _) = _ => destruct c end; inversion H; subst; auto.
  apply (ltk_eq s3); try exact L3; lview.
Qed.

(* ---- do_parse: a block header ------------------------------------------------------------------ *)
Definition ulinked (s : xstate) : Prop :=
  forall u, In u (x_unords s) -> u_complete u = false -> exists j, In j (all_jobs s) /\ r_link j = Some (u_id u).

Lemma ltk_parse_ok cfg lv crc s :
  c_advance_drops_link cfg = true ->
  inv s -> masters s = 0%nat -> x_parsing_done s = false -> x_closed s = false ->
  dbs_norm (x_parser_bs s) = true -> ulinked s -> inv (parse_ok cfg lv crc s) ->
  ltk (parse_ok cfg lv crc s).
Proof.
  intros CA I M0 PD CL NB UL IR. unfold parse_ok in *.
  set (p := d_pos (x_parser_bs s)) in *.
  set (s1 := set_order_q (x_order_q s ++ [mkhead p lv crc]) s) in *.
  assert (V1 : view_eq s s1) by (subst s1; view_tac).
  assert (I1 : inv s1) by (eapply inv_view; eauto).
  assert (E1 : masters s1 = 0%nat /\ x_parsing_done s1 = false /\ x_parser_bs s1 = x_parser_bs s /\ x_closed s1 = false)
    by (subst s1; unfold masters, all_jobs in *; nrm; auto).
  assert (UL1 : ulinked s1) by (subst s1; unfold ulinked, all_jobs in *; xs; exact UL).
  clearbody s1. clear V1 I M0 PD CL UL. destruct E1 as (M1 & PD1 & PB1 & CL1).
  set (s2 := set_unords (discard_below p (x_unords s1)) s1) in *.
  destruct (inv_detached s1 (discard_below p (x_unords s1))) as (I2 & M2); auto.
  { apply discard_below_spec. } { apply nodup_discard. apply I1. }
  fold s2 in I2, M2.
  assert (M2' : masters s2 = 0%nat) by lia.
  assert (E2 : x_parsing_done s2 = false /\ x_parser_bs s2 = x_parser_bs s /\ x_closed s2 = false)
    by (subst s2; nrm; auto).
  assert (UL2 : ulinked s2).
  { subst s2. unfold ulinked, all_jobs in *. xs. intros u Hu Cu.
    destruct (discard_below_spec2 _ _ _ Hu) as (u0 & H0 & [->|(_ & _ & ->)]); [auto|simpl in Cu; discriminate]. }
  destruct E2 as (PD2 & PB2 & CL2). clearbody s2. clear I1 UL1 M2 M1.
  assert (NEW : inv (set_retr_q (mkrjob p (x_parser_bs s2) None :: x_retr_q s2) s2) ->
                ltk (set_retr_q (mkrjob p (x_parser_bs s2) None :: x_retr_q s2) s2)).
  { intros _. apply ltk_mk; xs.
    - congruence.
    - intro X. congruence.
    - intros _. right. right. exists (mkrjob p (x_parser_bs s2) None). unfold all_jobs. xs. split; [left; reflexivity|reflexivity].
    - intros _. unfold mpq. xs. intros j [<-|Hj] J; [reflexivity|].
      exfalso. rewrite (no_masters_jm s2 j M2') in J; [discriminate|]. unfold all_jobs. apply in_or_app. auto. }
  destruct (qmin u_base pos_lt (unord_q s2)) as [u|] eqn:Q; [|exact (NEW IR)].
  destruct (pos_eq (u_base u) p) eqn:PE; [|exact (NEW IR)]. clear NEW.
  apply pos_eq_spec in PE. apply qmin_In in Q. unfold unord_q in Q. apply filter_In in Q. destruct Q as [Hu Qi].
  assert (UO : unord_ok u) by (pose proof (i_unord _ I2) as Iu; rewrite Forall_forall in Iu; auto).
  destruct UO as (O1 & O2 & O3). destruct (O1 Qi) as (Oe & Ob & Ol).
  assert (HD : x_head_offs s2 <= d_off (u_end u)).
  { assert (x_head_offs s2 <= d_off (x_parser_bs s2)) by (apply I2; auto).
    rewrite PE in Ob. subst p. unfold d_pos in Ob. simpl in Ob. rewrite PB2 in *. clear - H Ob Oe NB. unfold dbs_ok, dbs_norm in *. lia. }
  assert (JOK : forall j, In j (all_jobs s2) -> r_link j = Some (u_id u) ->
                  u_base u = r_base j /\ (u_complete u = false -> u_end u = r_cur j)).
  { intros j Hj L. pose proof (i_jobs _ I2) as Ij. rewrite Forall_forall in Ij.
    destruct (Ij j Hj) as (_ & _ & _ & _ & J5). apply (J5 _ u L Hu eq_refl). }
  destruct (inv_advance cfg (u_end u) s2 I2 M2' HD) as (I3 & M3 & H3a & H3b & ST & RP).
  destruct (adv_fields cfg (u_end u) s2) as [EH EU]. cbv zeta in EH, EU. rewrite CA in EU.
  pose proof (adv_retr_q cfg (u_end u) s2) as ER.
  pose proof (adv_retr_dropped (length (x_retr_q s2)) (x_head_offs (adv_input (d_off (u_end u)) (set_parser_bs (u_end u) s2))) (x_retr_q s2)) as DD.
  rewrite Forall_forall in DD.
  set (dk := adv_retr (length (x_retr_q s2)) (x_head_offs (adv_input (d_off (u_end u)) (set_parser_bs (u_end u) s2))) (x_retr_q s2)) in *.
  assert (AJ3 : forall j, In j (all_jobs (advance cfg (u_end u) s2)) -> In j (all_jobs s2)).
  { intros j Hj. unfold all_jobs in *. autorewrite with xf in Hj. apply in_app_or in Hj. apply in_or_app. destruct Hj as [Hj|Hj]; auto. left.
    assert (RP' := RP (fun x => In x (x_retr_q s2)) ltac:(apply Forall_forall; auto)). rewrite Forall_forall in RP'. apply RP'; auto. }
  assert (E3 : x_running (advance cfg (u_end u) s2) = x_running s2 /\ x_parsing_done (advance cfg (u_end u) s2) = false /\
               x_closed (advance cfg (u_end u) s2) = false)
    by (autorewrite with xf; auto).
  assert (PB3 : x_parser_bs (advance cfg (u_end u) s2) = u_end u) by (unfold advance; autorewrite with xf; xs; reflexivity).
  set (s3 := advance cfg (u_end u) s2) in *. destruct E3 as (R3 & PD3 & CL3).
  destruct (u_complete u) eqn:UC.
  - (* the candidate has been retrieved already: the token is free again *)
    clearbody s3. apply ltk_mk.
    + unfold give_unit; xs. congruence.
    + unfold give_unit; xs. intro X. congruence.
    + intros _. left. unfold give_unit; xs. reflexivity.
    + intros _. apply mpq_no_master. apply inv_no_master; [exact IR|]. left. unfold give_unit; xs. reflexivity.
  - (* the candidate is still being retrieved: its job becomes the master *)
    destruct (UL2 u Hu UC) as (jm0 & JA & JL).
    assert (KEEP : In jm0 (all_jobs s3)).
    { destruct (JOK jm0 JA JL) as (_ & JC'). specialize (JC' eq_refl).
      unfold all_jobs in *. rewrite R3. subst s3. rewrite ER. apply in_app_or in JA. apply in_or_app. destruct JA as [Hj|Hj]; auto. left.
      destruct (adv_retr_part (length (x_retr_q s2)) (x_head_offs (adv_input (d_off (u_end u)) (set_parser_bs (u_end u) s2))) (x_retr_q s2) jm0 Hj) as [P|P]; auto.
      exfalso. fold dk in P. destruct (DD jm0 P) as [Q1 _]. rewrite <- EH in Q1. rewrite <- JC' in Q1. exact (N.lt_irrefl _ (N.lt_le_trans _ _ _ Q1 H3b)). }
    assert (UIN : In u (x_unords s3)).
    { subst s3. rewrite EU. apply drop_links_other; auto. intros j Hj L.
      destruct (DD j Hj) as [Q1 Q2]. assert (JA' : In j (all_jobs s2)) by (unfold all_jobs; apply in_or_app; auto).
      destruct (JOK j JA' L) as (_ & JC'). specialize (JC' eq_refl). rewrite <- EH in Q1. rewrite <- JC' in Q1. exact (N.lt_irrefl _ (N.lt_le_trans _ _ _ Q1 H3b)). }
    clearbody s3. apply ltk_mk.
    + unfold give_unit; xs. congruence.
    + unfold give_unit; xs. intro X. congruence.
    + intros _. right. right. exists jm0. unfold give_unit, all_jobs in *; xs. split; [exact KEEP|].
      unfold jm. rewrite JL. apply existsb_exists. exists (u_detach true u). split.
      * pose proof (in_upd_unord (u_id u) (u_detach true) _ _ UIN) as X. rewrite N.eqb_refl in X. exact X.
      * simpl. rewrite N.eqb_refl. reflexivity.
    + intros _. unfold mpq, give_unit; xs. intros j Hj J.
      assert (Hj' : In j (all_jobs s3)) by (unfold all_jobs; apply in_or_app; auto).
      destruct (jm_detach _ _ _ J) as [J1|J1].
      * exfalso. rewrite (no_masters_jm s3 j M3 Hj') in J1. discriminate.
      * unfold links in J1. apply optN_eqb_eq in J1. destruct (JOK j (AJ3 j Hj') J1) as (_ & JC'). specialize (JC' eq_refl).
        rewrite PB3. symmetry. exact JC'.
Qed.

Lemma ulinked_advance cfg bs s :
  c_advance_drops_link cfg = true -> ulinked s -> ulinked (advance cfg bs s).
Proof.
  intros CA UL u Hu Cu.
  destruct (adv_fields cfg bs s) as [EH EU]. cbv zeta in EH, EU. rewrite CA in EU.
  pose proof (adv_retr_q cfg bs s) as ER.
  assert (RU : x_running (advance cfg bs s) = x_running s) by (autorewrite with xf; reflexivity).
  rewrite EU in Hu. destruct (drop_links_complete _ _ _ Hu Cu) as [H0 N0].
  destruct (UL u H0 Cu) as (j & J1 & J2). exists j. split; auto.
  unfold all_jobs in *. rewrite RU, ER. apply in_app_or in J1. apply in_or_app. destruct J1 as [J1|J1]; auto. left.
  destruct (adv_retr_part (length (x_retr_q s)) (x_head_offs (adv_input (d_off bs) (set_parser_bs bs s))) (x_retr_q s) j J1) as [P|P]; auto.
  exfalso. apply (N0 j P). exact J2.
Qed.

Lemma ltk_parse_finish cfg g s :
  x_failed (parse_finish cfg g s) = None -> ltk (parse_finish cfg g s).
Proof.
  intro NF. unfold parse_finish in *. set (pb' := mkdbs _ _) in *.
  match goal with |- ltk (if ?c then _ else _) => destruct c end.
  { unfold fail in NF. xs in NF. discriminate. }
  destruct (c_finish_drops_link cfg); apply ltk_mk; xs; autorewrite with xf; xs; auto; intro X; discriminate.
Qed.

Lemma ltk_parse1 cfg att r st st' :
  cfg_drops cfg -> inv st -> own st -> x_failed st' = None -> ltk st -> parse1 cfg att r st = Some st' -> ltk st'.
Proof.
  intros (_ & _ & _ & CA & CF) I OW NF' L H.
  pose proof (inv_parse1 _ _ _ _ _ I H) as IR.
  unfold parse1 in H.
  destruct (del_run (CParse att) st) as [s1|] eqn:D; [|discriminate].
  destruct (inv_del_parse _ _ _ D I) as (I1 & M1 & N1 & T1 & PD1).
  destruct (del_run_spec _ _ _ D) as (l1 & l2 & E & ES1).
  assert (UL1 : ulinked s1).
  { subst s1. unfold ulinked, all_jobs. xs. intros u Hu Cu. destruct (o_u1 _ _ _ (proj1 OW) u Hu Cu) as (j & J1 & J2).
    exists j. split; auto. unfold all_jobs in J1. rewrite E, !run_jobs_app, run_jobs_cons in J1. simpl in J1.
    rewrite run_jobs_app. exact J1. }
  assert (CL1 : x_closed s1 = false).
  { rewrite (closed_del_run _ _ _ D), (lt_closed _ L). subst s1. xs in PD1. exact PD1. }
  clear OW L I D ES1 E.
  set (aend := att_end att s1) in *. clearbody aend.
  match type of H with (if ?c then _ else _) = _ => destruct c eqn:CC; [|discriminate] end. bool_hyps.
  assert (I2 : inv (detach att s1)) by (eapply inv_view; [apply view_detach|auto]).
  assert (E2 : masters (detach att s1) = 0%nat /\ x_parsing_done (detach att s1) = false /\
               x_parser_bs (detach att s1) = x_parser_bs s1 /\ x_closed (detach att s1) = false)
    by (unfold masters, all_jobs in *; autorewrite with xf; auto).
  assert (UL2 : ulinked (detach att s1)) by (unfold ulinked, all_jobs in *; autorewrite with xf; exact UL1).
  set (s2 := detach att s1) in *. destruct E2 as (M2 & PD2 & PB2 & CL2). clearbody s2. clear I1 UL1.
  set (bs := res_bs r) in *.
  assert (HD : x_head_offs s2 <= d_off bs).
  { assert (x_head_offs s2 <= d_off (x_parser_bs s2)) by (apply I2; auto). rewrite PB2 in *.
    match goal with K : (d_off (x_parser_bs s1) <=? d_off bs) = true |- _ => apply N.leb_le in K end. lia. }
  destruct (inv_advance cfg bs s2 I2 M2 HD) as (I3 & M3 & H3a & H3b & ST & RP).
  pose proof (ulinked_advance cfg bs s2 CA UL2) as UL3.
  assert (E3 : x_parsing_done (advance cfg bs s2) = false /\ x_closed (advance cfg bs s2) = false)
    by (autorewrite with xf; auto).
  assert (PB3 : x_parser_bs (advance cfg bs s2) = bs) by (unfold advance; autorewrite with xf; xs; reflexivity).
  set (s3 := advance cfg bs s2) in *. destruct E3 as (PD3 & CL3). clearbody s3.
  destruct r as [b ps|b g|b code|b ps lv crc]; simpl res_bs in *; subst bs.
  - (* MORE *)
    match type of H with (if ?c then _ else _) = _ => destruct c; [|discriminate] end. inversion H; subst st'. clear H.
    apply ltk_mk.
    + xs. congruence.
    + xs. intro X. congruence.
    + intros _. left. xs. reflexivity.
    + intros _. apply mpq_no_master. apply inv_no_master; [exact IR|]. left. xs. reflexivity.
  - (* FINISH *)
    match type of H with (if ?c then _ else _) = _ => destruct c; [|discriminate] end. inversion H; subst st'. clear H.
    apply ltk_parse_finish. exact NF'.
  - (* error *)
    match type of H with (if ?c then _ else _) = _ => destruct c; [discriminate|] end. inversion H; subst st'.
    unfold fail in NF'. xs in NF'. discriminate.
  - (* a block header *)
    match type of H with (if ?c then _ else _) = _ => destruct c eqn:NB; [|discriminate] end. inversion H; subst st'. clear H.
    set (s4 := set_par ps (set_next (d_bit b) s3)) in *.
    assert (V4 : view_eq s3 s4) by (subst s4; constructor; xs; auto; intros; reflexivity).
    assert (I4 : inv s4) by (eapply inv_view; [exact V4|exact I3]).
    apply ltk_parse_ok; [exact CA|exact I4| | | | | |exact IR].
    + subst s4; unfold masters, all_jobs in *; xs; exact M3.
    + subst s4; xs; exact PD3.
    + subst s4; xs; exact CL3.
    + subst s4; xs. rewrite PB3. exact NB.
    + subst s4; unfold ulinked, all_jobs in *; xs. exact UL3.
Qed.

(* ---- do_retrieve ---------------------------------------------------------------------------------- *)
(* the state after the retrieve continuation of [j] has left the running set *)
Definition lcore (j : rjob) (s : xstate) : Prop :=
  x_closed s = x_parsing_done s /\ (x_parsing_done s = true -> x_retr_q s = []) /\
  (x_parsing_done s = false -> tokp s \/ jm (x_unords s) j = true) /\ (x_parsing_done s = false -> mpq s).

Lemma lcore_view j a b : view_eq a b -> x_closed b = x_closed a -> lcore j a -> lcore j b.
Proof.
  intros [] EC (A & B & C & D).
  assert (AJ : all_jobs b = all_jobs a) by (unfold all_jobs; congruence).
  unfold lcore, tokp, hasm, mpq. rewrite AJ, EC, v_done, v_retr, v_tok, v_np, v_un, v_pbs. auto.
Qed.

Lemma lcore_ltk j s : lcore j s -> (x_parsing_done s = false -> jm (x_unords s) j = false) -> ltk s.
Proof.
  intros (A & B & C & D) NJ. apply ltk_mk; auto.
  intro PD. destruct (C PD) as [T|T]; auto. rewrite (NJ PD) in T. discriminate.
Qed.

Lemma lcore_del_retr j att st s1 : del_run (CRetr j att) st = Some s1 -> ltk st -> lcore j s1.
Proof.
  intros D L. destruct (del_run_spec _ _ _ D) as (l1 & l2 & E & ->).
  unfold lcore. xs. split; [apply L|]. split; [apply L|]. split.
  - intro PD. destruct (ltk_tokp st L PD) as [T|[N|(x & X1 & X2)]].
    + left. left. xs. exact T.
    + left. right. left. unfold nparse in *. xs. rewrite E in N. rewrite !filter_len_app in *. simpl in N. exact N.
    + unfold all_jobs in X1. rewrite E, !run_jobs_app, run_jobs_cons in X1. simpl cjobs in X1.
      rewrite !in_app_iff in X1. simpl in X1.
      assert (K : x = j \/ In x (x_retr_q st ++ run_jobs (l1 ++ l2))).
      { rewrite run_jobs_app, !in_app_iff. destruct X1 as [X1|[X1|[[<-|[]]|X1]]]; auto. }
      destruct K as [->|K]; [right; exact X2|]. left. right. right. exists x. unfold all_jobs. xs. auto.
  - intro PD. unfold mpq. xs. exact (lt_mp _ L PD).
Qed.

(* a store in which the jobs keep their status *)
Lemma ltk_unords us' s :
  (forall x, In x (all_jobs s) -> jm us' x = jm (x_unords s) x) -> ltk s -> ltk (set_unords us' s).
Proof.
  intros JE L. apply ltk_mk; xs; try apply L.
  - intro PD. destruct (ltk_tokp s L PD) as [T|[N|(x & X1 & X2)]].
    + left. xs. exact T.
    + right. left. unfold nparse in *. xs. exact N.
    + right. right. exists x. unfold all_jobs in *. xs. split; auto. rewrite JE; auto.
  - intro PD. unfold mpq. xs. intros x Hx J. apply (lt_mp _ L PD); auto. rewrite <- JE; auto.
    unfold all_jobs. apply in_or_app. auto.
Qed.

(* a job that nobody else is linked with gives its unord block back *)
Lemma ltk_drop l s :
  inv s -> (forall id x, l = Some id -> In x (all_jobs s) -> r_link x <> Some id) -> ltk s ->
  ltk (set_unords (drop_link l (x_unords s)) s).
Proof.
  intros I SEP L. apply ltk_mk; xs; try apply L.
  - intro PD. destruct (ltk_tokp s L PD) as [T|[N|(x & X1 & X2)]].
    + left. xs. exact T.
    + right. left. unfold nparse in *. xs. exact N.
    + right. right. exists x. unfold all_jobs in *. xs. split; auto.
      unfold jm in *. destruct (r_link x) as [idx|] eqn:LX; auto.
      apply existsb_exists in X2. destruct X2 as (u0 & H0 & E0). apply existsb_exists. exists u0. split; auto.
      apply drop_link_other; auto. intro LJ. bool_hyps.
      match goal with X : (u_id u0 =? idx) = true |- _ => apply N.eqb_eq in X; rewrite X in LJ end.
      apply (SEP idx x LJ X1). exact LX.
  - intro PD. unfold mpq. xs. intros x Hx J. apply (lt_mp _ L PD); auto.
    revert J. apply jm_stems; [apply drop_link_stems|apply I].
Qed.

Lemma ltk_give_unit s : ltk s -> ltk (give_unit s).
Proof. intro L. eapply ltk_view; [apply view_give_unit|lview|exact L]. Qed.

Lemma ltk_add_run c s : cjobs c = [] -> is_parse c = false -> ltk s -> ltk (add_run c s).
Proof. intros A B L. eapply ltk_view; [apply view_add_run; auto|lview|exact L]. Qed.

Lemma ltk_requeue j' s :
  x_parsing_done s = false -> jm (x_unords s) j' = false -> ltk s -> ltk (set_retr_q (j' :: x_retr_q s) s).
Proof.
  intros PD NJ L. apply ltk_mk; xs; try apply L.
  - intro X. congruence.
  - intros _. destruct (ltk_tokp s L PD) as [T|[N|(x & X1 & X2)]].
    + left. xs. exact T.
    + right. left. unfold nparse in *. xs. exact N.
    + right. right. exists x. unfold all_jobs in *. xs. split; auto. right. exact X1.
  - intros _. unfold mpq. xs. intros x [<-|Hx] J; [congruence|]. apply (lt_mp _ L PD); auto.
Qed.

(* the master (created by the parser, or adopted) *)
Lemma lretr1_master cfg j lk rv cur s2 st' :
  r_link j = lk ->
  c_requeue_retr_checks_head cfg = true -> jfacts j s2 -> jm (x_unords s2) j = true -> x_parsing_done s2 = false ->
  x_closed s2 = false -> d_off (r_cur j) <= d_off cur -> inv st' ->
  (let st := advance cfg cur s2 in
   if rv =? MORE then
     if c_requeue_retr_checks_head cfg && (d_off cur <? x_head_offs st)
     then Some (give_unit (if c_stale_drops_link cfg then set_unords (drop_link lk (x_unords st)) st else st))
     else Some (set_retr_q (mkrjob (r_base j) cur lk :: x_retr_q st) st)
   else Some (add_run (CRetr2 (mkejob (r_base j) rv (d_off cur)))
                (match lk with
                 | Some id => set_unords (del_unord id (x_unords (set_parse_token true st))) (set_parse_token true st)
                 | None => set_parse_token true st
                 end))) = Some st' ->
  ltk st'.
Proof.
  intros ELK CR (I2 & J2 & L2 & B2 & M2) JM PD CL Hoff IR H. subst lk. rewrite JM in B2. simpl in B2.
  assert (M0 : masters s2 = 0%nat) by lia.
  specialize (M2 JM).
  destruct (inv_advance cfg cur s2 I2 M0 ltac:(lia)) as (I3 & M3 & H3a & H3b & ST & RP).
  destruct (adv_fields cfg cur s2) as [EH EU]. cbv zeta in EH, EU.
  pose proof (adv_retr_dropped (length (x_retr_q s2)) (x_head_offs (adv_input (d_off cur) (set_parser_bs cur s2))) (x_retr_q s2)) as DD.
  rewrite Forall_forall in DD.
  assert (JM3 : jm (x_unords (advance cfg cur s2)) j = true).
  { rewrite EU. destruct (c_advance_drops_link cfg); [|exact JM].
    unfold jm in *. destruct (r_link j) as [id|] eqn:L; auto.
    apply existsb_exists in JM. destruct JM as (u0 & H0 & E0). apply existsb_exists. exists u0. split; auto.
    apply drop_links_other; auto. intros j' Hj'. bool_hyps.
    match goal with X : (u_id u0 =? id) = true |- _ => apply N.eqb_eq in X; rewrite X end.
    apply (no_link_job id s2 j' (L2 id eq_refl)). unfold all_jobs. apply in_or_app. left. apply (DD j' Hj'). }
  assert (E3 : x_parsing_done (advance cfg cur s2) = false /\ x_closed (advance cfg cur s2) = false)
    by (autorewrite with xf; auto).
  assert (PB3 : x_parser_bs (advance cfg cur s2) = cur) by (unfold advance; autorewrite with xf; xs; reflexivity).
  cbv zeta in H. set (st := advance cfg cur s2) in *. destruct E3 as (PD3 & CL3). clearbody st.
  destruct (rv =? MORE) eqn:RV.
  - rewrite CR in H. replace (d_off cur <? x_head_offs st) with false in H by lia. cbn [andb] in H.
    inversion H; subst st'. clear H. apply ltk_mk; xs.
    + congruence.
    + intro X. congruence.
    + intros _. right. right. exists (mkrjob (r_base j) cur (r_link j)). unfold all_jobs. xs. split; [left; reflexivity|].
      rewrite (jm_link _ j); [exact JM3|reflexivity].
    + intros _. unfold mpq. xs. intros x [<-|Hx] J; [simpl; congruence|].
      exfalso. rewrite (no_masters_jm st x M3) in J; [discriminate|]. unfold all_jobs. apply in_or_app. auto.
  - inversion H; subst st'. clear H. apply ltk_mk.
    + destruct (r_link j); unfold add_run; xs; congruence.
    + destruct (r_link j); unfold add_run; xs; intro X; congruence.
    + intros _. left. destruct (r_link j); unfold add_run; xs; reflexivity.
    + intros _. apply mpq_no_master. apply inv_no_master; [exact IR|]. left. destruct (r_link j); unfold add_run; xs; reflexivity.
Qed.

(* a speculative job *)
Lemma lretr1_spec cfg j id rv cur s2 st' :
  c_requeue_retr_checks_head cfg = true -> jfacts j s2 -> r_link j = Some id ->
  jm (x_unords s2) j = false -> x_parsing_done s2 = false -> ltk s2 ->
  dbs_ok cur = true -> d_bit (r_cur j) <= d_bit cur ->
  (let st := set_unords (upd_unord id (u_set_end cur) (x_unords s2)) s2 in
   if rv =? MORE then
     if c_requeue_retr_checks_head cfg && (d_off cur <? x_head_offs st)
     then Some (give_unit (if c_stale_drops_link cfg then set_unords (drop_link (Some id) (x_unords st)) st else st))
     else Some (set_retr_q (mkrjob (r_base j) cur (Some id) :: x_retr_q st) st)
   else Some (add_run (CRetr2 (mkejob (r_base j) rv (d_off cur)))
                (set_unords (upd_unord id (fun u => u_set_complete (u_set_end cur u)) (x_unords st)) st))) = Some st' ->
  ltk st'.
Proof.
  intros CR (I2 & J2 & L2 & B2 & M2) EL NJ PD LT Hok Hbit H.
  pose proof (L2 id EL) as Z2. destruct J2 as (J1 & J2' & J3 & J4 & J5).
  assert (UO : forall u, In u (x_unords s2) -> u_id u = id -> unord_ok u /\ u_base u = r_base j).
  { intros u Hu Hid. split; [pose proof (i_unord _ I2) as Iu; rewrite Forall_forall in Iu; auto|].
    apply (J5 id u EL Hu Hid). }
  destruct (inv_upd_spec id (u_set_end cur) s2 I2 Z2) as (I3 & M3).
  { intro u. split; reflexivity. }
  { intros u Hu Hid. destruct (UO u Hu Hid) as ((O1 & O2 & O3) & B). unfold unord_ok, u_set_end; simpl.
    split; [intro Q; destruct (O1 Q) as (_ & _ & L); repeat split; auto; rewrite B; lia|split; auto]. }
  assert (L3 : ltk (set_unords (upd_unord id (u_set_end cur) (x_unords s2)) s2)).
  { apply ltk_unords; auto. intros x _. apply jm_upd_same. intro u. repeat split; reflexivity. }
  cbv zeta in H. set (st := set_unords (upd_unord id (u_set_end cur) (x_unords s2)) s2) in *.
  assert (AJ : all_jobs st = all_jobs s2) by (subst st; unfold all_jobs; nrm; auto).
  assert (Z3 : length (filter (links id) (all_jobs st)) = 0%nat) by (rewrite AJ; auto).
  assert (JMe : jm (x_unords st) j = false).
  { subst st. nrm. rewrite <- NJ. apply jm_upd_same. intro u. repeat split; reflexivity. }
  assert (PD3 : x_parsing_done st = false) by (subst st; nrm; auto).
  clearbody st.
  destruct (rv =? MORE) eqn:RV.
  - rewrite CR in H. cbn [andb] in H. destruct (d_off cur <? x_head_offs st) eqn:SL.
    + injection H as <-. apply ltk_give_unit. destruct (c_stale_drops_link cfg); auto.
      apply (ltk_drop (Some id) st); auto. intros id0 x E0 Hx. inversion E0; subst id0. apply (no_link_job id st x Z3 Hx).
    + inversion H; subst st'. clear H. apply ltk_requeue; auto.
      rewrite <- JMe. apply jm_link. simpl. symmetry. exact EL.
  - inversion H; subst st'. clear H. apply ltk_add_run; auto.
    apply ltk_unords; auto. intros x Hx. apply jm_upd_other; [apply (no_link_job id st x Z3 Hx)|reflexivity].
Qed.

Lemma ltk_retr1 cfg j att rv cur st st' :
  cfg_safe cfg -> inv st -> ltk st -> retr1 cfg j att rv cur st = Some st' -> ltk st'.
Proof.
  intros CS I L H. pose proof (inv_retr1 _ _ _ _ _ _ _ CS I H) as IR. destruct CS as (CS & CJ & CR).
  unfold retr1 in H.
  destruct (del_run (CRetr j att) st) as [s1|] eqn:D; [|discriminate].
  assert (F1 : jfacts j s1) by (apply (inv_del_retr _ _ _ _ D I)).
  pose proof (lcore_del_retr _ _ _ _ D L) as C1. clear I L D.
  set (aend := att_end att s1) in *. clearbody aend.
  match type of H with (if ?c then _ else _) = _ => destruct c eqn:C; [|discriminate] end.
  assert (F2 : jfacts j (detach att s1)) by (eapply jfacts_view; [apply view_detach|auto]).
  assert (C2 : lcore j (detach att s1)) by (eapply lcore_view; [apply view_detach|lview|auto]).
  clear F1 C1. set (s2 := detach att s1) in *. clearbody s2. clear s1.
  bool_hyps.
  assert (Hok : dbs_ok cur = true) by assumption.
  assert (Hbit : d_bit (r_cur j) <= d_bit cur) by (apply N.leb_le; assumption).
  assert (Hoff : d_off (r_cur j) <= d_off cur) by (apply N.leb_le; assumption).
  assert (F2' := F2). destruct F2' as (I2 & J2 & L2 & B2 & M2).
  assert (C2' := C2). destruct C2' as (CA & CB & CC & CD).
  (* parsing_done *)
  destruct (x_parsing_done s2) eqn:PD.
  { inversion H; subst. apply ltk_mk.
    - destruct (c_retr_done_drops_link cfg); unfold give_unit; xs; congruence.
    - intros _. destruct (c_retr_done_drops_link cfg); unfold give_unit; xs; auto.
    - destruct (c_retr_done_drops_link cfg); unfold give_unit; xs; intro X; congruence.
    - destruct (c_retr_done_drops_link cfg); unfold give_unit; xs; intro X; congruence. }
  assert (CL : x_closed s2 = false) by congruence.
  assert (SEP : forall id x, r_link j = Some id -> In x (all_jobs s2) -> r_link x <> Some id).
  { intros id x E0 Hx. apply (no_link_job id s2 x (L2 id E0) Hx). }
  destruct (link_state (r_link j) s2) as [u|] eqn:LS.
  - destruct (link_state_spec _ _ _ LS) as (id & EL & Hu & Hid). rewrite EL in H. cbn [andb negb orb] in H.
    assert (UNI : forall u0, In u0 (x_unords s2) -> u_id u0 = id -> u0 = u).
    { intros u0 Hv0 E0. apply (nodup_id_unique (x_unords s2)); auto; [apply I2|congruence]. }
    destruct (u_complete u) eqn:UC; cbn [andb negb orb] in H.
    + destruct (u_legit u) eqn:UL; cbn [andb negb orb] in H.
      * (* adopted: acts as the master *)
        eapply (lretr1_master cfg j (Some id) rv cur s2 st' EL CR F2); try exact H; auto.
        eapply jm_of_link_state; eauto.
      * (* proven not legitimate: aborted *)
        assert (NM : jm (x_unords s2) j = false).
        { apply (not_jm_incomplete s2 j id I2 EL). intros u0 Hv0 E0. right. rewrite (UNI u0 Hv0 E0). exact UL. }
        assert (LT2 : ltk s2) by (apply (lcore_ltk j); auto).
        inversion H; subst st'. apply ltk_give_unit. destruct (c_retr_abort_drops_link cfg); auto.
        apply (ltk_drop (Some id) s2); auto. rewrite <- EL. exact SEP.
    + (* speculative *)
      assert (NM : jm (x_unords s2) j = false).
      { apply (not_jm_incomplete s2 j id I2 EL). intros u0 Hv0 E0. left. rewrite (UNI u0 Hv0 E0). exact UC. }
      assert (LT2 : ltk s2) by (apply (lcore_ltk j); auto).
      eapply (lretr1_spec cfg j id rv cur s2 st' CR F2 EL NM PD LT2); try exact H; auto.
  - assert (EL : (exists id, r_link j = Some id) \/ r_link j = None) by (destruct (r_link j); eauto).
    destruct EL as [[id EL]|EL]; rewrite EL in H; cbn [andb negb orb] in H.
    + (* dangling link: treated as speculative, the update is void *)
      assert (NM : jm (x_unords s2) j = false).
      { apply (not_jm_incomplete s2 j id I2 EL). intros u0 Hv0 E0. exfalso.
        unfold link_state in LS. rewrite EL in LS. eapply get_unord_none; eauto. }
      assert (LT2 : ltk s2) by (apply (lcore_ltk j); auto).
      eapply (lretr1_spec cfg j id rv cur s2 st' CR F2 EL NM PD LT2); try exact H; auto.
    + (* created by the parser: the master *)
      eapply (lretr1_master cfg j None rv cur s2 st' EL CR F2); try exact H; auto.
      unfold jm. rewrite EL. reflexivity.
Qed.

(* ---- the invariant ---------------------------------------------------------------------------------- *)
Lemma ltk_init n tin tout ultra : ltk (init_state n tin tout ultra).
Proof.
  apply ltk_mk.
  - reflexivity.
  - intros _. reflexivity.
  - intros _. left. reflexivity.
  - intros _ j [].
Qed.

Theorem ltk_step cfg st e st' :
  cfg_safe cfg -> cfg_drops cfg -> inv st -> own st -> x_failed st' = None -> ltk st ->
  step cfg st e = Some st' -> ltk st'.
Proof.
  intros CS CD I OW NF' L H. unfold step in H. destruct (x_failed st) eqn:NF; [discriminate|].
  destruct e.
  - eapply ltk_input; eauto.
  - eapply ltk_eof; eauto.
  - eapply ltk_written; eauto.
  - eapply ltk_parse0; eauto.
  - eapply ltk_parse1; eauto.
  - eapply ltk_retr0; eauto.
  - eapply ltk_retr1; eauto.
  - eapply ltk_retr2; eauto.
  - eapply ltk_emit0; eauto.
  - eapply ltk_emit1; eauto.
  - eapply ltk_reorder; eauto.
  - eapply ltk_scan0; eauto.
  - eapply ltk_scan1; eauto.
Qed.

(* along runs whose parser labels make progress (XOwn.preach) *)
Theorem ltk_preach cfg n tin tout ultra st :
  cfg_safe cfg -> cfg_drops cfg -> preach cfg (init_state n tin tout ultra) st -> x_failed st = None -> ltk st.
Proof.
  intros CS CD R. induction R as [|st e st' R IH EV H]; intro NF.
  - apply ltk_init.
  - pose proof (step_not_failed _ _ _ _ H) as NF0.
    destruct (own_preach cfg n tin tout ultra st CS CD R) as [I OW].
    eapply ltk_step; eauto.
Qed.

Print Assumptions ltk_init.
Print Assumptions ltk_step.
Print Assumptions ltk_preach.
