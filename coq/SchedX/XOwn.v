(* Ownership invariant of the decompression scheduler (expand.c): which job accounts
   for every element of order_q.

   Every head (b, k) of order_q is owned by
     - the master retrieve job of block b (created by the parser or adopted), if k = 0, or
     - a "line above": an emit-stage job (CRetr2 / emit_q / CEmit) or a final buffer in
       reord_q with base (b, k') and k' >= k.
   Heads have strictly increasing bit positions, so distinct heads have distinct owners
   and length order_q <= masters + emit-stage jobs + final buffers <= work units + slots.

   The model admits labels that the unlocked computations cannot produce: parse1 accepts
   a POk label whose position equals the parser's (a block header of zero bits).  With
   such labels the invariant is FALSE (XOwnRefuted.v exhibits a run that reaches
   can_terminate with order_q <> []).  The invariant is therefore proved over runs all of
   whose POk labels lie at least HDR_MIN = 32 bits after the base of the block confirmed before
   (parse() in parse.c consumes the 48-bit block magic and the 32-bit CRC of a header - possibly
   over several calls that return MORE when the header straddles input blocks, so the LAST call
   may consume fewer than 32 bits: the reference is the previous base [x_next], not the parser's
   position at the start of the call.  Every trace replay checks this hypothesis). *)
From Coq Require Import List NArith Bool Lia Arith ZifyBool ZifyN Sorted.
From LBZ Require Import Gen.Consts SchedX.XState Gen.SchedXTab SchedX.XSet SchedX.XModel SchedX.XLemmas
  SchedX.XFrame SchedX.XInvDefs SchedX.XOps SchedX.XInv SchedX.XInv2 SchedX.XInv3 SchedX.XInv4 SchedX.XOracle.
Import ListNotations.
Local Open Scope N_scope.

(* ---- runs whose parser labels make progress ---------------------------------------- *)
Definition HDR_MIN : N := 32.

Definition ev_prog (st : xstate) (e : event) : Prop :=
  match e with
  | EvParse1 _ (POk bs _ _ _) => x_next st + HDR_MIN <= d_bit bs
  | _ => True
  end.

Inductive preach (cfg : xcfg) (s0 : xstate) : xstate -> Prop :=
| preach_init : preach cfg s0 s0
| preach_step st e st' : preach cfg s0 st -> ev_prog st e -> step cfg st e = Some st' -> preach cfg s0 st'.

Inductive opreach (O : oracle) (cfg : xcfg) (s0 : xstate) : xstate -> Prop :=
| opreach_init : opreach O cfg s0 s0
| opreach_step st e st' : opreach O cfg s0 st -> ev_ok O st e -> ev_prog st e -> step cfg st e = Some st' ->
                          opreach O cfg s0 st'.

Lemma preach_reach cfg s0 st : preach cfg s0 st -> reach cfg s0 st.
Proof. induction 1; [constructor|econstructor; eauto]. Qed.

Lemma opreach_oreach O cfg s0 st : opreach O cfg s0 st -> oreach O cfg s0 st.
Proof. induction 1; [constructor|econstructor; eauto]. Qed.

Lemma opreach_preach O cfg s0 st : opreach O cfg s0 st -> preach cfg s0 st.
Proof. induction 1; [constructor|econstructor; eauto]. Qed.

(* the source gives every unord block of a dropped job back (repair of finding F3) *)
Definition cfg_drops (cfg : xcfg) : Prop :=
  c_stale_drops_link cfg = true /\ c_retr_done_drops_link cfg = true /\ c_retr_abort_drops_link cfg = true /\
  c_advance_drops_link cfg = true /\ c_finish_drops_link cfg = true.

(* ---- vocabulary ------------------------------------------------------------------------ *)
Definition hb (h : head) : N := fst (h_base h).
Definition hs (h : head) : N := snd (h_base h).

Definition cejobs (c : cont) : list ejob := match c with CRetr2 e | CEmit e => [e] | _ => [] end.
Definition run_ejobs (r : list cont) : list ejob := flat_map cejobs r.
(* jobs past retrieve that still hold their work unit *)
Definition estage (st : xstate) : list ejob := x_emit_q st ++ run_ejobs (x_running st).

Definition lineabove (EL : list ejob) (RQ : list oblk) (b k : N) : Prop :=
  (exists e, In e EL /\ fst (e_base e) = b /\ k <= snd (e_base e)) \/
  (exists o, In o RQ /\ o_status o <> MORE /\ fst (o_base o) = b /\ k <= snd (o_base o)).
Definition la (st : xstate) : N -> N -> Prop := lineabove (estage st) (x_reord_q st).

(* where a queued, complete candidate without a line may lie: at or before the block confirmed
   last, or (its job was dropped because it fell behind head_offs) a whole word below head_offs *)
Definition orph (st : xstate) (b : N) : Prop := b <= x_next st \/ b + 32 <= 32 * x_head_offs st.

Definition mastered (JL : list rjob) (us : list unord) (b : N) : Prop :=
  exists j, In j JL /\ jm us j = true /\ fst (r_base j) = b.

(* [H]: the heads accounted for; [JL]: the retrieve jobs (queued or running) *)
Record ownp (H : list head) (JL : list rjob) (st : xstate) : Prop := mkownp {
  o_heads : forall h, In h H -> (hs h = 0 /\ mastered JL (x_unords st) (hb h)) \/ la st (hb h) (hs h);
  o_more : forall o, In o (x_reord_q st) -> o_status o = MORE -> la st (fst (o_base o)) (snd (o_base o) + 1);
  o_m1 : forall j, In j JL -> jm (x_unords st) j = true ->
         fst (r_base j) = x_next st /\ d_bit (x_parser_bs st) <= d_bit (r_cur j);
  o_u1 : forall u, In u (x_unords st) -> u_complete u = false -> exists j, In j JL /\ r_link j = Some (u_id u);
  o_u2 : forall u, In u (x_unords st) -> u_inq u = true -> u_complete u = true ->
         la st (fst (u_base u)) 0 \/ orph st (fst (u_base u));
  o_noinq : x_parsing_done st = true -> Forall (fun u => u_inq u = false) (x_unords st);
  o_next : x_parsing_done st = false -> x_next st <= d_bit (x_parser_bs st);
  o_pok : x_parsing_done st = false -> dbs_ok (x_parser_bs st) = true;
  (* an unord block outside unord_q is still referenced by its retrieve job *)
  o_u3 : forall u, In u (x_unords st) -> u_inq u = false -> exists j, In j JL /\ r_link j = Some (u_id u)
}.

Record oshape (st : xstate) : Prop := mkoshape {
  o_sorted : StronglySorted N.lt (map hb (x_order_q st));
  o_le_next : Forall (fun h => hb h <= x_next st) (x_order_q st)
}.

Definition own (st : xstate) : Prop := ownp (x_order_q st) (all_jobs st) st /\ oshape st.

(* ---- monotonicity ------------------------------------------------------------------------ *)
Lemma lineabove_mono EL EL' RQ RQ' b k :
  (forall e, In e EL -> In e EL') -> (forall o, In o RQ -> In o RQ') ->
  lineabove EL RQ b k -> lineabove EL' RQ' b k.
Proof.
  intros HE HR [(e & A & B)|(o & A & B)]; [left; exists e|right; exists o]; auto.
Qed.

Lemma lineabove_le EL RQ b k k' : k' <= k -> lineabove EL RQ b k -> lineabove EL RQ b k'.
Proof.
  intros L [(e & A & B & C)|(o & A & B & C & D)]; [left; exists e|right; exists o]; repeat split; auto; lia.
Qed.

Lemma run_ejobs_app a b : run_ejobs (a ++ b) = run_ejobs a ++ run_ejobs b.
Proof. unfold run_ejobs. apply flat_map_app. Qed.

Lemma run_ejobs_cons c r : run_ejobs (c :: r) = cejobs c ++ run_ejobs r.
Proof. reflexivity. Qed.

(* states that agree on what ownp looks at *)
Record oview (st st' : xstate) : Prop := mkoview {
  ov_un : x_unords st' = x_unords st;
  ov_ro : x_reord_q st' = x_reord_q st;
  ov_nx : x_next st' = x_next st;
  ov_hd : x_head_offs st' = x_head_offs st;
  ov_pb : x_parser_bs st' = x_parser_bs st;
  ov_dn : x_parsing_done st' = x_parsing_done st;
  ov_es : forall e, In e (estage st) -> In e (estage st')
}.

Lemma la_view st st' b k : oview st st' -> la st b k -> la st' b k.
Proof.
  intros [] L. unfold la in *. rewrite ov_ro0. eapply lineabove_mono; [| |exact L]; auto.
Qed.

Lemma ownp_view H JL JL' st st' :
  oview st st' -> (forall j, In j JL <-> In j JL') -> ownp H JL st -> ownp H JL' st'.
Proof.
  intros V EJ [A B C D E F G K U3]. pose proof (la_view st st') as LV. destruct V.
  constructor; unfold orph; rewrite ?ov_un0, ?ov_ro0, ?ov_nx0, ?ov_hd0, ?ov_pb0, ?ov_dn0; auto.
  - intros h Hh. destruct (A h Hh) as [[Z (j & J1 & J2)]|L]; [left; split; auto; exists j; split; [apply EJ; auto|auto]|right].
    apply LV; auto. constructor; auto.
  - intros o Ho S. apply LV; auto. constructor; auto.
  - intros j Hj. apply C. apply EJ; auto.
  - intros u Hu Cu. destruct (D u Hu Cu) as (j & J1 & J2). exists j. split; auto. apply EJ; auto.
  - intros u Hu Q Cu. destruct (E u Hu Q Cu) as [L|L]; [left|right; auto]. apply LV; auto. constructor; auto.
  - intros u Hu Qu. destruct (U3 u Hu Qu) as (j & J1 & J2). exists j. split; auto. apply EJ; auto.
Qed.

Lemma oshape_view st st' : x_order_q st' = x_order_q st -> x_next st' = x_next st -> oshape st -> oshape st'.
Proof. intros E1 E2 [A B]. constructor; rewrite E1, ?E2; auto. Qed.

Lemma own_view st st' :
  oview st st' -> x_order_q st' = x_order_q st -> (forall j, In j (all_jobs st) <-> In j (all_jobs st')) ->
  own st -> own st'.
Proof.
  intros V EO EJ [A B]. split.
  - rewrite EO. eapply ownp_view; eauto.
  - eapply oshape_view; eauto. apply V.
Qed.

Ltac onrm := unfold estage, all_jobs, add_run, give_unit; xs; autorewrite with xf; xs.
Ltac oview_tac :=
  first [ onrm; first [reflexivity | intro; tauto]
        | constructor; onrm; auto; try tauto ].

(* ---- events that do not touch what the invariant looks at ------------------------------- *)
Lemma own_input sz m st st' : own st -> input sz m st = Some st' -> own st'.
Proof.
  unfold input. intros I H. match type of H with (if ?c then _ else _) = _ => destruct c; [|discriminate] end.
  destruct (x_parsing_done st); inversion H; subst; auto.
  eapply own_view; [| | |exact I]; oview_tac.
Qed.

Lemma own_eof st st' : own st -> reader_eof st = Some st' -> own st'.
Proof.
  unfold reader_eof. intros I H. destruct (x_eof st); [discriminate|]. inversion H; subst.
  eapply own_view; [| | |exact I]; oview_tac.
Qed.

Lemma own_written st st' : own st -> written st = Some st' -> own st'.
Proof.
  unfold written. intros I H. destruct (0 <? x_outq st); [|discriminate]. inversion H; subst.
  eapply own_view; [| | |exact I]; oview_tac.
Qed.

Lemma own_parse0 st st' : own st -> parse0 st = Some st' -> own st'.
Proof.
  unfold parse0. intros I H. destruct (selects TParse st); [|discriminate].
  set (st1 := set_work_units (N.pred (x_work_units st)) (set_parse_token false st)) in *.
  destruct (attach (x_parser_bs st1) st1) as [st2 att] eqn:A.
  assert (E2 : st2 = fst (attach (x_parser_bs st1) st1)) by (rewrite A; reflexivity).
  inversion H; subst st'. clear H. rewrite E2. subst st1.
  eapply own_view; [| | |exact I]; oview_tac.
Qed.

Lemma own_scan0 st st' : own st -> scan0 st = Some st' -> own st'.
Proof.
  unfold scan0. intros I H. destruct (selects TScan st); [|discriminate].
  destruct (qmin d_pos pos_lt (x_scan_q st)) as [s|]; [|discriminate].
  destruct (remove_one dbs_eqb s (x_scan_q st)) as [q|]; [|discriminate].
  set (st1 := set_scan_q q (set_work_units (N.pred (x_work_units st)) st)) in *.
  destruct (attach s st1) as [st2 att] eqn:A.
  assert (E2 : st2 = fst (attach s st1)) by (rewrite A; reflexivity).
  inversion H; subst st'. clear H. rewrite E2. subst st1.
  eapply own_view; [| | |exact I]; oview_tac.
Qed.

Lemma In_app_mid {A} (x : A) l1 l2 c r : In x ((l1 ++ c :: l2) ++ r) <-> In x ((l1 ++ l2) ++ c :: r).
Proof. rewrite !in_app_iff. simpl. rewrite ?in_app_iff. tauto. Qed.

Lemma own_retr0 j st st' : own st -> retr0 j st = Some st' -> own st'.
Proof.
  unfold retr0. intros I H. destruct (selects TRetrieve st); [|discriminate].
  destruct (take_min rjob_eqb rkey j (x_retr_q st)) as [q|] eqn:T; [|discriminate].
  apply take_min_spec in T. destruct T as [R _].
  destruct (remove_one_split _ rjob_eqb_eq _ _ _ R) as (l1 & l2 & EQ & Eq).
  set (st1 := set_retr_q q st) in *.
  destruct (attach (r_cur j) st1) as [st2 att] eqn:A.
  assert (E2 : st2 = fst (attach (r_cur j) st1)) by (rewrite A; reflexivity).
  inversion H; subst st'. clear H. rewrite E2. subst st1.
  eapply own_view; [| | |exact I]; try (oview_tac; fail).
  intro x. unfold all_jobs, add_run. xs. autorewrite with xf. xs. rewrite run_jobs_cons. simpl cjobs.
  rewrite EQ, Eq. apply In_app_mid.
Qed.

Lemma own_retr2 e st st' : own st -> retr2 e st = Some st' -> own st'.
Proof.
  unfold retr2. intros I H. destruct (del_run (CRetr2 e) st) as [s1|] eqn:D; [|discriminate]. inversion H; subst.
  destruct (del_run_spec _ _ _ D) as (l1 & l2 & E & ->).
  eapply own_view; [| | |exact I].
  - constructor; xs; auto. intros x. unfold estage. xs. rewrite E, !run_ejobs_app, run_ejobs_cons. simpl.
    rewrite !in_app_iff. simpl. rewrite ?in_app_iff. tauto.
  - xs. auto.
  - intro x. unfold all_jobs. xs. rewrite E, !run_jobs_app, run_jobs_cons. simpl. tauto.
Qed.

Lemma own_emit0 st st' : own st -> emit0 st = Some st' -> own st'.
Proof.
  unfold emit0. intros I H. destruct (selects TEmit st); [|discriminate].
  destruct (qmin e_base pos_lt (x_emit_q st)) as [e|]; [|discriminate].
  destruct (remove_one ejob_eqb e (x_emit_q st)) as [q|] eqn:R; [|discriminate]. inversion H; subst.
  destruct (remove_one_split _ ejob_eqb_eq _ _ _ R) as (l1 & l2 & EQ & Eq).
  eapply own_view; [| | |exact I].
  - constructor; unfold add_run; xs; auto. intros x. unfold estage. xs. rewrite run_ejobs_cons. simpl.
    rewrite EQ, Eq. rewrite !in_app_iff. simpl. rewrite ?in_app_iff. tauto.
  - unfold add_run. xs. auto.
  - intro x. unfold all_jobs, add_run. xs. rewrite run_jobs_cons. simpl. tauto.
Qed.

(* ---- transfer when only the lines change ------------------------------------------------- *)
Lemma ownp_la H JL JL' st st' :
  x_unords st' = x_unords st -> x_next st' = x_next st -> x_parser_bs st' = x_parser_bs st ->
  x_head_offs st' = x_head_offs st ->
  x_parsing_done st' = x_parsing_done st -> (forall j, In j JL <-> In j JL') ->
  (forall b k, la st b k -> la st' b k) ->
  (forall o, In o (x_reord_q st') -> o_status o = MORE -> la st' (fst (o_base o)) (snd (o_base o) + 1)) ->
  ownp H JL st -> ownp H JL' st'.
Proof.
  intros E1 E2 E3 E5 E4 EJ LV MO [A B C D E F G K U3].
  constructor; unfold orph; rewrite ?E1, ?E2, ?E3, ?E4, ?E5; auto.
  - intros h Hh. destruct (A h Hh) as [[Z (j & J1 & J2)]|L]; [left; split; auto; exists j; split; [apply EJ; auto|auto]|right; auto].
  - intros j Hj. apply C. apply EJ; auto.
  - intros u Hu Cu. destruct (D u Hu Cu) as (j & J1 & J2). exists j. split; auto. apply EJ; auto.
  - intros u Hu Q Cu. destruct (E u Hu Q Cu) as [L|L]; [left|right]; auto.
  - intros u Hu Qu. destruct (U3 u Hu Qu) as (j & J1 & J2). exists j. split; auto. apply EJ; auto.
Qed.

Lemma own_emit1 e rv size crc blksz st st' : own st -> emit1 e rv size crc blksz st = Some st' -> own st'.
Proof.
  unfold emit1. intros [I S] H. destruct (del_run (CEmit e) st) as [s1|] eqn:D; [|discriminate].
  destruct (del_run_spec _ _ _ D) as (l1 & l2 & E & ->).
  match type of H with (if ?c then _ else _) = _ => destruct c; [|discriminate] end.
  assert (AJ : forall st2, x_retr_q st2 = x_retr_q st -> x_running st2 = l1 ++ l2 ->
               forall j, In j (all_jobs st) <-> In j (all_jobs st2)).
  { intros st2 R1 R2 j. unfold all_jobs. rewrite R1, R2, E, !run_jobs_app, run_jobs_cons. simpl. tauto. }
  destruct (rv =? MORE) eqn:RV; inversion H; subst st'; clear H.
  - apply N.eqb_eq in RV.
    match goal with |- own ?s => set (st' := s) end.
    assert (LV : forall b k, la st b k -> la st' b k).
    { intros b k [(e0 & A & B & C)|(o & A & B)].
      - unfold estage in A. rewrite E, run_ejobs_app, run_ejobs_cons in A. simpl in A.
        rewrite !in_app_iff in A. simpl in A. rewrite ?in_app_iff in A.
        assert (K : e0 = e \/ In e0 (x_emit_q st ++ run_ejobs (l1 ++ l2))).
        { rewrite run_ejobs_app, !in_app_iff. destruct A as [A|[A|[A|A]]]; auto. }
        destruct K as [->|K].
        + left. eexists. split; [subst st'; unfold estage; xs; left; reflexivity|]. simpl. split; auto. lia.
        + left. exists e0. split; [|auto]. subst st'. unfold estage. xs. right. exact K.
      - right. exists o. split; [|auto]. subst st'. xs. right. exact A. }
    split.
    + replace (x_order_q st') with (x_order_q st) by (subst st'; xs; reflexivity).
      apply (ownp_la _ (all_jobs st) _ st st'); try exact I; try (subst st'; xs; reflexivity); [apply AJ; subst st'; xs; auto|exact LV|].
      intros o Ho SM. assert (K : o = mkoblk (e_base e) size crc blksz rv 0 \/ In o (x_reord_q st)) by (subst st'; xs in Ho; destruct Ho; auto).
      destruct K as [->|K]; [|apply LV; apply (o_more _ _ _ I); auto].
      simpl. left. eexists. split; [subst st'; unfold estage; xs; left; reflexivity|]. simpl. split; auto. lia.
    + eapply oshape_view; [| |exact S]; subst st'; xs; auto.
  - apply N.eqb_neq in RV.
    match goal with |- own ?s => set (st' := s) end.
    assert (LV : forall b k, la st b k -> la st' b k).
    { intros b k [(e0 & A & B & C)|(o & A & B)].
      - unfold estage in A. rewrite E, run_ejobs_app, run_ejobs_cons in A. simpl in A.
        rewrite !in_app_iff in A. simpl in A. rewrite ?in_app_iff in A.
        assert (K : e0 = e \/ In e0 (x_emit_q st ++ run_ejobs (l1 ++ l2))).
        { rewrite run_ejobs_app, !in_app_iff. destruct A as [A|[A|[A|A]]]; auto. }
        destruct K as [->|K].
        + right. eexists. split; [subst st'; unfold give_unit; xs; left; reflexivity|]. simpl. auto.
        + left. exists e0. split; [|auto]. subst st'. unfold estage, give_unit. xs. exact K.
      - right. exists o. split; [|auto]. subst st'. unfold give_unit. xs. right. exact A. }
    split.
    + replace (x_order_q st') with (x_order_q st) by (subst st'; unfold give_unit; xs; reflexivity).
      apply (ownp_la _ (all_jobs st) _ st st'); try exact I; try (subst st'; unfold give_unit; xs; reflexivity);
        [apply AJ; subst st'; unfold give_unit; xs; auto|exact LV|].
      intros o Ho SM. assert (K : o = mkoblk (e_base e) size crc blksz rv (e_end e) \/ In o (x_reord_q st))
          by (subst st'; unfold give_unit in Ho; xs in Ho; destruct Ho; auto).
      destruct K as [->|K]; [simpl in SM; congruence|apply LV; apply (o_more _ _ _ I); auto].
    + eapply oshape_view; [| |exact S]; subst st'; unfold give_unit; xs; auto.
Qed.

(* ---- do_reorder --------------------------------------------------------------------------- *)
Lemma la_remove st b k o q : remove_one oblk_eqb o (x_reord_q st) = Some q -> la st b k ->
  lineabove (estage st) q b k \/ (o_status o <> MORE /\ fst (o_base o) = b /\ k <= snd (o_base o)).
Proof.
  intros R [(e0 & A & B)|(o' & A & B)]; [left; left; eauto|].
  destruct (remove_one_split _ oblk_eqb_eq _ _ _ R) as (l1 & l2 & EQ & ->). rewrite EQ in A.
  rewrite in_app_iff in A. simpl in A.
  assert (K : o' = o \/ In o' (l1 ++ l2)) by (rewrite in_app_iff; destruct A as [A|[A|A]]; auto).
  destruct K as [->|K]; [right; auto|left; right; exists o'; auto].
Qed.

Lemma sorted_head_lt (a : N) l x : StronglySorted N.lt (a :: l) -> In x l -> a < x.
Proof. intros S Hx. inversion S as [|? ? _ F]; subst. rewrite Forall_forall in F. auto. Qed.

Lemma E_ERR_OVERFLOW_not_more : (E_ERR_OVERFLOW =? MORE) = false.
Proof. reflexivity. Qed.
Lemma E_ERR_OVERFLOW_not_ok : (E_ERR_OVERFLOW =? OK) = false.
Proof. reflexivity. Qed.
Lemma E_ERR_BLKCRC_not_ok : (E_ERR_BLKCRC =? OK) = false.
Proof. reflexivity. Qed.
Lemma OK_not_more : OK <> MORE.
Proof. discriminate. Qed.

Lemma own_reorder st st' : x_failed st = None -> x_failed st' = None -> own st -> reorder st = Some st' -> own st'.
Proof.
  unfold reorder. intros NF NF' [I S] H. destruct (selects TReorder st) eqn:SEL; [|discriminate].
  apply selects_ready in SEL. simpl in SEL. unfold can_reorder in SEL.
  destruct (qmin o_base pos_lt (x_reord_q st)) as [o|] eqn:Q; [|discriminate].
  destruct (remove_one oblk_eqb o (x_reord_q st)) as [q|] eqn:R; [|discriminate].
  assert (MIN : forall y, In y (x_reord_q st) -> pos_lt (o_base y) (o_base o) = false) by (intros; eapply qmin_min; eauto).
  assert (QS : forall y, In y q -> In y (x_reord_q st)) by (intros; eapply remove_one_In; eauto using oblk_eqb_eq).
  (* a buffer with status MORE is never a witness through the removed (minimal) buffer *)
  assert (MO : forall o2, In o2 q -> o_status o2 = MORE -> lineabove (estage st) q (fst (o_base o2)) (snd (o_base o2) + 1)).
  { intros o2 H2 S2. destruct (la_remove _ _ _ _ _ R (o_more _ _ _ I o2 (QS _ H2) S2)) as [L|(A & B & C)]; auto.
    exfalso. pose proof (MIN o2 (QS _ H2)) as M. apply not_true_iff_false in M. apply M. apply pos_lt_spec. unfold lexlt. lia. }
  (* no queued candidate once parsing is done; otherwise the heads are behind the parser *)
  assert (U2 : forall st2, x_unords st2 = x_unords st -> x_next st2 = x_next st -> x_head_offs st2 = x_head_offs st ->
                 estage st2 = estage st -> x_reord_q st2 = q ->
                 (x_parsing_done st = false -> o_status o <> MORE -> fst (o_base o) <= x_next st) ->
                 (x_parsing_done st = true \/ x_order_q st <> []) ->
                 forall u, In u (x_unords st2) -> u_inq u = true -> u_complete u = true ->
                   la st2 (fst (u_base u)) 0 \/ orph st2 (fst (u_base u))).
  { intros st2 E1 E2 E2' E3 E4 HB HD u Hu Qu Cu. rewrite E1 in Hu. unfold orph. rewrite E2, E2'. unfold la. rewrite E3, E4.
    destruct (o_u2 _ _ _ I u Hu Qu Cu) as [L|L]; auto.
    destruct (la_remove _ _ _ _ _ R L) as [L'|(A & B & C)]; auto. right. left.
    destruct (x_parsing_done st) eqn:PD.
    - exfalso. pose proof (o_noinq _ _ _ I PD) as NI. rewrite Forall_forall in NI. rewrite (NI u Hu) in Qu. discriminate.
    - specialize (HB eq_refl A). rewrite <- B. exact HB. }
  xs in H.
  destruct (x_order_q st) as [|ord rest] eqn:OQ.
  { (* nothing confirmed: parsing is done *)
    inversion H; subst st'; clear H.
    assert (PD : x_parsing_done st = true).
    { rewrite ?OQ in SEL. simpl in SEL. bool_hyps. repeat match goal with K : _ || _ = true |- _ => apply orb_true_iff in K; destruct K as [K|K] end; bool_hyps; auto; discriminate. }
    split.
    - xs. rewrite OQ. constructor; xs; try apply I; auto.
      + intros h [].
      + intros u Hu Qu Cu. exfalso. pose proof (o_noinq _ _ _ I PD) as NI. rewrite Forall_forall in NI. rewrite (NI u Hu) in Qu. discriminate.
    - eapply oshape_view; [| |exact S]; xs; auto. }
  assert (SRT : StronglySorted N.lt (hb ord :: map hb rest)) by (destruct S as [A _]; rewrite OQ in A; exact A).
  assert (LEN : Forall (fun h => hb h <= x_next st) (ord :: rest)) by (destruct S as [_ B]; rewrite OQ in B; exact B).
  assert (LO : hb ord <= x_next st) by (inversion LEN; auto).
  destruct (pos_lt (o_base o) (h_base ord)) eqn:LT.
  { (* a bogus buffer is rejected *)
    inversion H; subst st'; clear H.
    apply pos_lt_spec in LT. unfold lexlt in LT.
    split.
    - xs. rewrite OQ. constructor; xs; try apply I; auto.
      + intros h Hh. destruct (o_heads _ _ _ I h Hh) as [M|L]; [left; exact M|right].
        destruct (la_remove _ _ _ _ _ R L) as [L'|(A & B & C)]; [exact L'|]. exfalso.
        destruct Hh as [<-|Hh].
        * unfold hb, hs in *. lia.
        * pose proof (sorted_head_lt _ _ _ SRT (in_map hb _ _ Hh)). unfold hb in *. lia.
      + apply (U2 (set_out_slots (x_out_slots st + 1) (set_reord_q q st))); xs; auto.
        * intros _ _. unfold hb in *. lia.
        * right. rewrite ?OQ. discriminate.
    - eapply oshape_view; [| |exact S]; xs; auto. }
  (* the buffer at the head of the order *)
  assert (EB : o_base o = h_base ord).
  { apply pos_lt_total; auto. unfold peek_reord, order_head in SEL. rewrite Q, ?OQ in SEL. simpl in SEL.
    bool_hyps. repeat match goal with K : _ || _ = true |- _ => apply orb_true_iff in K; destruct K as [K|K] end; bool_hyps;
      unfold pos_le in *; bool_hyps; auto; discriminate. }
  set (incr := if x_reord_offs st <? o_end o then o_end o - x_reord_offs st else 0) in *.
  set (status := if h_bs100k ord * 100000 <? o_blksz o then E_ERR_OVERFLOW else o_status o) in *.
  destruct (status =? MORE) eqn:SM.
  { (* one more buffer of the block: the head moves on *)
    inversion H; subst st'; clear H.
    assert (OM : o_status o = MORE).
    { subst status. destruct (h_bs100k ord * 100000 <? o_blksz o); [rewrite E_ERR_OVERFLOW_not_more in SM; discriminate|apply N.eqb_eq; auto]. }
    match goal with |- own ?s => set (st' := s) end.
    assert (ES : estage st' = estage st) by (subst st'; unfold estage; xs; reflexivity).
    assert (LV : forall b k, la st b k -> la st' b k).
    { intros b k L. unfold la. rewrite ES. replace (x_reord_q st') with q by (subst st'; xs; reflexivity).
      destruct (la_remove _ _ _ _ _ R L) as [L'|(A & _)]; [exact L'|congruence]. }
    split.
    - replace (x_order_q st') with (mkhead (fst (h_base ord), snd (h_base ord) + 1) (h_bs100k ord) (h_crc ord) :: rest)
        by (subst st'; xs; reflexivity).
      constructor; try (subst st'; xs; apply I).
      + intros h [<-|Hh].
        * right. unfold hb, hs. simpl. apply LV. rewrite <- EB. apply (o_more _ _ _ I o); auto.
          eapply remove_one_self; eauto using oblk_eqb_eq.
        * assert (Hh' : In h (ord :: rest)) by (right; auto).
          destruct (o_heads _ _ _ I h Hh') as [M|L]; [left; subst st'; xs; exact M|right; auto].
      + intros o2 H2 S2. replace (x_reord_q st') with q in H2 by (subst st'; xs; reflexivity).
        unfold la. rewrite ES. replace (x_reord_q st') with q by (subst st'; xs; reflexivity). auto.
      + intros u Hu Qu Cu. apply (U2 st'); try (subst st'; xs; reflexivity); auto.
        * intros _ K. congruence.
        * right. rewrite ?OQ. discriminate.
    - destruct S as [SA SB]. constructor.
      + replace (x_order_q st') with (mkhead (fst (h_base ord), snd (h_base ord) + 1) (h_bs100k ord) (h_crc ord) :: rest)
          by (subst st'; xs; reflexivity). exact SRT.
      + replace (x_order_q st') with (mkhead (fst (h_base ord), snd (h_base ord) + 1) (h_bs100k ord) (h_crc ord) :: rest)
          by (subst st'; xs; reflexivity).
        replace (x_next st') with (x_next st) by (subst st'; xs; reflexivity).
        inversion LEN; subst. constructor; auto. }
  (* the last buffer of the block: the head leaves the order *)
  set (status2 := if (status =? OK) && negb (o_crc o =? h_crc ord) then E_ERR_BLKCRC else status) in *.
  destruct (status2 =? OK) eqn:SOK; inversion H; subst st'; clear H; [|unfold fail in NF'; xs in NF'; discriminate].
  assert (OF : o_status o <> MORE).
  { subst status2 status. destruct (h_bs100k ord * 100000 <? o_blksz o).
    - destruct (o_crc o =? h_crc ord); vm_compute in SOK; discriminate.
    - apply N.eqb_neq. exact SM. }
  match goal with |- own ?s => set (st' := s) end.
  assert (ES : estage st' = estage st) by (subst st'; unfold estage; xs; reflexivity).
  assert (RQ' : x_reord_q st' = q) by (subst st'; xs; reflexivity).
  split.
  - replace (x_order_q st') with rest by (subst st'; xs; reflexivity).
    constructor; try (subst st'; xs; apply I).
    + intros h Hh. assert (Hh' : In h (ord :: rest)) by (right; auto).
      destruct (o_heads _ _ _ I h Hh') as [M|L]; [left; subst st'; xs; exact M|right].
      unfold la. rewrite ES, RQ'. destruct (la_remove _ _ _ _ _ R L) as [L'|(A & B & C)]; [exact L'|]. exfalso.
      pose proof (sorted_head_lt _ _ _ SRT (in_map hb _ _ Hh)). rewrite EB in B. unfold hb in *. lia.
    + intros o2 H2 S2. rewrite RQ' in H2. unfold la. rewrite ES, RQ'. auto.
    + intros u Hu Qu Cu. apply (U2 st'); try (subst st'; xs; reflexivity); auto.
      * intros _ _. rewrite EB. exact LO.
      * right. rewrite ?OQ. discriminate.
  - constructor.
    + replace (x_order_q st') with rest by (subst st'; xs; reflexivity). inversion SRT; auto.
    + replace (x_order_q st') with rest by (subst st'; xs; reflexivity).
      replace (x_next st') with (x_next st) by (subst st'; xs; reflexivity). inversion LEN; auto.
Qed.
