(* Ownership invariant (XOwn.v): do_retrieve and do_scan. *)
From Coq Require Import List NArith Bool Lia Arith ZifyBool ZifyN Sorted.
From LBZ Require Import Gen.Consts SchedX.XState Gen.SchedXTab SchedX.XSet SchedX.XModel SchedX.XLemmas
  SchedX.XFrame SchedX.XInvDefs SchedX.XOps SchedX.XInv SchedX.XInv2 SchedX.XInv3 SchedX.XInv4 SchedX.XOracle
  SchedX.XSeq SchedX.XOwn SchedX.XOwnAdv.
Import ListNotations.
Local Open Scope N_scope.

Lemma jm_link us j j' : r_link j' = r_link j -> jm us j' = jm us j.
Proof. unfold jm. intros ->. reflexivity. Qed.

Lemma ownp_job_upd H j j' JL s :
  r_base j' = r_base j -> r_link j' = r_link j -> d_bit (r_cur j) <= d_bit (r_cur j') ->
  ownp H (j :: JL) s -> ownp H (j' :: JL) s.
Proof.
  intros EB EL LE [A B C D E F G K U3].
  constructor; auto.
  - intros h Hh. destruct (A h Hh) as [[Z (x & [<-|X1] & X2 & X3)]|L]; [left|left|right; auto]; split; auto.
    + exists j'. split; [left; auto|]. rewrite (jm_link _ _ _ EL), EB. auto.
    + exists x. split; [right; auto|auto].
  - intros x [<-|Hx] J.
    + rewrite (jm_link _ _ _ EL) in J. destruct (C j (or_introl eq_refl) J) as [C1 C2]. rewrite EB. split; auto.
      eapply N.le_trans; eauto.
    + apply C; auto. right; auto.
  - intros u Hu Cu. destruct (D u Hu Cu) as (x & [<-|X1] & X2).
    + exists j'. split; [left; auto|congruence].
    + exists x. split; [right; auto|auto].
  - intros u Hu Qu. destruct (U3 u Hu Qu) as (x & [<-|X1] & X2).
    + exists j'. split; [left; auto|congruence].
    + exists x. split; [right; auto|auto].
Qed.

(* a job that is not the master is dropped and gives its unord block back *)
Lemma ownp_drop H j s :
  inv s -> jm (x_unords s) j = false ->
  (forall id x, r_link j = Some id -> In x (all_jobs s) -> r_link x <> Some id) ->
  (forall u, In u (x_unords s) -> r_link j = Some (u_id u) -> u_inq u = true -> u_complete u = false ->
     orph s (fst (u_base u))) ->
  ownp H (j :: all_jobs s) s ->
  ownp H (all_jobs s) (set_unords (drop_link (r_link j) (x_unords s)) s).
Proof.
  intros IV NM SEP ORP [A B C D E F G K U3].
  set (us' := drop_link (r_link j) (x_unords s)).
  assert (LA : forall b k, la (set_unords us' s) b k <-> la s b k) by (intros; apply la_ext; unfold estage; xs; reflexivity).
  assert (JMold : forall x, jm us' x = true -> jm (x_unords s) x = true).
  { intro x. apply jm_stems; [apply drop_link_stems|apply IV]. }
  constructor; xs.
  - intros h Hh. destruct (A h Hh) as [[Z (x & [<-|X1] & X2 & X3)]|L]; [congruence|left; split; auto|right; apply LA; auto].
    exists x. split; auto. split; auto.
    unfold jm in *. destruct (r_link x) as [idx|] eqn:LX; auto.
    apply existsb_exists in X2. destruct X2 as (u0 & H0 & E0). apply existsb_exists. exists u0. split; auto.
    apply drop_link_other; auto. intro LJ. bool_hyps.
    match goal with X : (u_id u0 =? idx) = true |- _ => apply N.eqb_eq in X; rewrite X in LJ end.
    apply (SEP idx x LJ X1). exact LX.
  - intros o Ho S. apply LA. auto.
  - intros x Hx J. apply C; [right; auto|]. apply JMold. exact J.
  - intros u Hu Cu. destruct (drop_link_raised _ _ _ Hu) as [H0|(u0 & id & _ & _ & _ & _ & Eu)]; [|subst u; simpl in Cu; discriminate].
    destruct (D u H0 Cu) as (x & [<-|X1] & X2); [|exists x; auto].
    exfalso. fold us' in Hu. unfold us' in Hu. rewrite X2 in Hu. rewrite (drop_link_done _ _ _ Hu eq_refl) in Cu. discriminate.
  - intros u Hu Qu Cu. destruct (drop_link_raised _ _ _ Hu) as [H0|(u0 & id & H0 & LJ & Hid & C0 & Eu)].
    + destruct (E u H0 Qu Cu) as [L|L]; [left; apply LA; auto|right; auto].
    + right. subst u. unfold u_set_complete in Qu |- *. cbn [u_inq u_base] in Qu |- *. apply ORP; auto. rewrite LJ, Hid. reflexivity.
  - intros PD. specialize (F PD). apply Forall_forall. intros u Hu. rewrite Forall_forall in F.
    destruct (drop_link_stems _ _ _ Hu) as (u0 & H0 & (_ & _ & _ & S4 & _)). rewrite S4. auto.
  - exact G.
  - exact K.
  - intros u Hu Qu. destruct (drop_link_stems _ _ _ Hu) as (u0 & H0 & (S1 & _ & _ & S4 & _)).
    destruct (U3 u0 H0 ltac:(congruence)) as (x & [<-|X1] & X2); [|exists x; rewrite S1; auto].
    exfalso. fold us' in Hu. unfold us' in Hu. rewrite X2 in Hu. refine (drop_link_gone (u_id u0) (x_unords s) _ u Hu S1).
    intros v Hv Ev. assert (v = u0) by (apply (nodup_id_unique (x_unords s)); auto; apply IV). subst v.
    pose proof (i_unord _ IV) as UO. rewrite Forall_forall in UO. destruct (UO u0 H0) as (_ & O2 & _). apply O2. congruence.
Qed.

Lemma ownp_give_unit H JL s : ownp H JL s -> ownp H JL (give_unit s).
Proof. intro O. eapply ownp_view; [| |exact O]; [unfold give_unit; constructor; unfold estage; xs; auto|tauto]. Qed.

Lemma jm_upd_other id f us x : r_link x <> Some id -> (forall u, u_id (f u) = u_id u) -> jm (upd_unord id f us) x = jm us x.
Proof.
  intros NL HF. unfold jm. destruct (r_link x) as [id2|]; auto.
  assert (id2 <> id) by congruence. unfold upd_unord. rewrite existsb_map. apply existsb_ext'. intros u Hu.
  destruct (u_id u =? id) eqn:E; auto. rewrite HF. replace (u_id u =? id2) with false by lia. reflexivity.
Qed.

(* an update of the store that changes nothing the invariant looks at *)
Lemma ownp_upd_keep H JL id f s :
  (forall u, u_id (f u) = u_id u /\ u_base (f u) = u_base u /\ u_inq (f u) = u_inq u /\
             u_complete (f u) = u_complete u /\ u_legit (f u) = u_legit u) ->
  ownp H JL s -> ownp H JL (set_unords (upd_unord id f (x_unords s)) s).
Proof.
  intros HF [A B C D E F G K U3].
  assert (LA : forall b k, la (set_unords (upd_unord id f (x_unords s)) s) b k <-> la s b k)
    by (intros; apply la_ext; unfold estage; xs; reflexivity).
  assert (JM : forall x, jm (upd_unord id f (x_unords s)) x = jm (x_unords s) x).
  { intro x. apply jm_upd_same. intro u. destruct (HF u) as (F1 & _ & _ & F4 & F5). auto. }
  assert (UP : forall u, In u (upd_unord id f (x_unords s)) -> exists u0, In u0 (x_unords s) /\
             u_id u = u_id u0 /\ u_base u = u_base u0 /\ u_inq u = u_inq u0 /\ u_complete u = u_complete u0).
  { intros u Hu. unfold upd_unord in Hu. apply in_map_iff in Hu. destruct Hu as (u0 & <- & H0). exists u0. split; auto.
    destruct (u_id u0 =? id); auto. destruct (HF u0) as (F1 & F2 & F3 & F4 & _). auto. }
  constructor; xs.
  - intros h Hh. destruct (A h Hh) as [[Z (x & X1 & X2 & X3)]|L]; [left; split; auto; exists x; rewrite JM; auto|right; apply LA; auto].
  - intros o Ho S. apply LA. auto.
  - intros x Hx J. rewrite JM in J. auto.
  - intros u Hu Cu. destruct (UP u Hu) as (u0 & H0 & E1 & E2 & E3 & E4). rewrite E1. apply D; auto. congruence.
  - intros u Hu Qu Cu. destruct (UP u Hu) as (u0 & H0 & E1 & E2 & E3 & E4). rewrite E2.
    destruct (E u0 H0) as [L|L]; try congruence; [left; apply LA; auto|right; auto].
  - intros PD. specialize (F PD). apply Forall_forall. intros u Hu. rewrite Forall_forall in F.
    destruct (UP u Hu) as (u0 & H0 & E1 & E2 & E3 & E4). rewrite E3. auto.
  - exact G.
  - exact K.
  - intros u Hu Qu. destruct (UP u Hu) as (u0 & H0 & E1 & E2 & E3 & E4). rewrite E1. apply U3; auto. congruence.
Qed.

Lemma not_jm_incomplete s j id : inv s -> r_link j = Some id ->
  (forall u, In u (x_unords s) -> u_id u = id -> u_complete u = false \/ u_legit u = false) -> jm (x_unords s) j = false.
Proof.
  intros IV EL HU. unfold jm. rewrite EL. apply not_true_iff_false. intro X. apply existsb_exists in X.
  destruct X as (u & Hu & E). bool_hyps.
  match goal with K : (u_id u =? id) = true |- _ => apply N.eqb_eq in K; destruct (HU u Hu K) end; congruence.
Qed.

(* ---- do_retrieve: the master (created by the parser, or adopted) --------------------------- *)
Lemma oretr1_master cfg j lk rv cur s2 st' H :
  r_link j = lk -> c_requeue_retr_checks_head cfg = true -> c_advance_drops_link cfg = true ->
  jfacts j s2 -> jm (x_unords s2) j = true -> x_parsing_done s2 = false ->
  dbs_ok cur = true -> d_bit (r_cur j) <= d_bit cur -> d_off (r_cur j) <= d_off cur ->
  ownp H (j :: all_jobs s2) s2 ->
  (let st := advance cfg cur s2 in
   if rv =? MORE then
     if c_requeue_retr_checks_head cfg && (d_off cur <? x_head_offs st)
     then Some (give_unit (if c_stale_drops_link cfg then set_unords (drop_link lk (x_unords st)) st else st))
     else Some (set_retr_q (mkrjob (r_base j) cur lk :: x_retr_q st) st)
   else Some (add_run (CRetr2 (mkejob (r_base j) rv (d_off cur)))
                (match lk with
                 | Some id => set_unords (del_unord id (x_unords (set_parse_token true st))) (set_parse_token true st)
                 | None => set_parse_token true st
                 end))) = Some st' ->
  ownp H (all_jobs st') st' /\ x_order_q st' = x_order_q s2 /\ x_next st' = x_next s2.
Proof.
  intros ELK CR CA (I2 & J2 & L2 & B2 & M2) JM PD Hok Hbit Hoff OW Hst. subst lk. rewrite JM in B2. simpl in B2.
  assert (M0 : masters s2 = 0%nat) by lia. assert (N0 : nparse s2 = 0%nat) by lia.
  specialize (M2 JM). assert (HD : x_head_offs s2 <= d_off cur) by (clear - M2 Hoff; lia).
  set (j' := mkrjob (r_base j) cur (r_link j)).
  assert (OW' : ownp H (j' :: all_jobs s2) s2) by (apply (ownp_job_upd H j j'); auto).
  destruct (o_m1 _ _ _ OW j (or_introl eq_refl) JM) as [BN PL].
  assert (MONO : d_bit (x_parser_bs s2) <= d_bit cur) by (clear - PL Hbit; lia).
  assert (NXB : x_next s2 <= d_bit cur) by (pose proof (o_next _ _ _ OW PD) as X; clear - X MONO; lia).
  assert (MB : forall j0, In j0 [j'] -> jm (x_unords s2) j0 = true -> d_bit cur <= d_bit (r_cur j0)).
  { intros j0 [<-|[]] _. simpl. apply N.le_refl. }
  assert (SEP : forall j0 id x, In j0 [j'] -> r_link j0 = Some id -> In x (all_jobs s2) -> r_link x <> Some id).
  { intros j0 id x [<-|[]] L Hx. simpl in L. apply (no_link_job id s2 x (L2 id L) Hx). }
  destruct (inv_advance cfg cur s2 I2 M0 HD) as (I3 & M3 & H3a & H3b & ST & RP).
  destruct (ownp_advance cfg cur s2 H [j'] CA I2 M0 HD Hok PD MONO NXB MB SEP OW') as (OW3 & _).
  assert (E3 : x_order_q (advance cfg cur s2) = x_order_q s2 /\ x_next (advance cfg cur s2) = x_next s2)
    by (autorewrite with xf; auto).
  cbv zeta in Hst. set (st := advance cfg cur s2) in *. destruct E3 as (OQ3 & NX3). clearbody st.
  destruct (rv =? MORE) eqn:RV.
  - rewrite CR in Hst. replace (d_off cur <? x_head_offs st) with false in Hst by (clear - H3b; lia). cbn [andb] in Hst.
    inversion Hst; subst st'. clear Hst. xs. split; [|auto].
    eapply ownp_view; [| |exact OW3]; [constructor; unfold estage; xs; auto|].
    intro x. unfold all_jobs. xs. simpl. tauto.
  - inversion Hst; subst st'. clear Hst.
    match goal with |- context [add_run _ ?x] => set (sf := x) end.
    assert (EF : x_order_q sf = x_order_q st /\ x_next sf = x_next st /\ x_emit_q sf = x_emit_q st /\ x_running sf = x_running st /\
                 x_reord_q sf = x_reord_q st /\ x_retr_q sf = x_retr_q st /\ x_parser_bs sf = x_parser_bs st /\
                 x_parsing_done sf = x_parsing_done st /\ x_head_offs sf = x_head_offs st).
    { subst sf. destruct (r_link j); xs; auto 10. }
    destruct EF as (F1 & F2 & F3 & F4 & F5 & F6 & F7 & F8 & F9).
    assert (USub : forall u, In u (x_unords sf) -> In u (x_unords st)).
    { subst sf. destruct (r_link j); xs; auto. intros u Hu. unfold del_unord in Hu. apply filter_In in Hu. tauto. }
    assert (UDel : forall u, In u (x_unords sf) -> r_link j <> Some (u_id u)).
    { subst sf. destruct (r_link j) as [id|]; xs; [|discriminate]. intros u Hu. unfold del_unord in Hu. apply filter_In in Hu.
      destruct Hu as [_ K]. intro X. inversion X; subst id. rewrite N.eqb_refl in K. discriminate. }
    assert (JMs : forall x, jm (x_unords sf) x = true -> jm (x_unords st) x = true).
    { intro x. apply jm_stems; [|apply I3]. intros v Hv. exists v. split; [auto|apply stems_refl]. }
    clearbody sf. unfold add_run. xs. rewrite F1, F2, OQ3, NX3. split; [|auto].
    set (e := mkejob (r_base j) rv (d_off cur)).
    set (st' := set_running (CRetr2 e :: x_running sf) sf).
    assert (AJ : all_jobs st' = all_jobs st) by (subst st'; unfold all_jobs; xs; rewrite F6, F4; reflexivity).
    assert (LAm : forall b k, la st b k -> la st' b k).
    { intros b k L. unfold la in *. eapply lineabove_mono; [| |exact L].
      - intros x Hx. subst st'. unfold estage in *. xs. rewrite run_ejobs_cons. simpl. rewrite F3, F4. rewrite in_app_iff in *. simpl. tauto.
      - intros o Ho. subst st'. xs. rewrite F5. exact Ho. }
    assert (LAe : la st' (fst (r_base j)) 0).
    { left. exists e. split; [subst st'; unfold estage; xs; rewrite run_ejobs_cons; simpl; apply in_or_app; right; left; reflexivity|].
      simpl. split; auto. apply N.le_0_l. }
    rewrite AJ. destruct OW3 as [A B C D E F G K U3].
    constructor.
    + intros h Hh. destruct (A h Hh) as [[Z (x & X1 & X2 & X3)]|L]; [|right; auto].
      right. destruct X1 as [<-|X1].
      * simpl in X3. rewrite <- X3, Z. exact LAe.
      * exfalso. rewrite (no_masters_jm st x M3 X1) in X2. discriminate.
    + intros o Ho S. apply LAm. apply B; auto. subst st'. xs in Ho. rewrite F5 in Ho. exact Ho.
    + intros x Hx J. exfalso. assert (J' : jm (x_unords st) x = true) by (apply JMs; subst st'; xs in J; exact J).
      rewrite (no_masters_jm st x M3 Hx) in J'. discriminate.
    + intros u Hu Cu. assert (Hu' : In u (x_unords sf)) by (subst st'; xs in Hu; exact Hu).
      destruct (D u (USub u Hu') Cu) as (x & [<-|X1] & X2); [|exists x; auto].
      exfalso. simpl in X2. exact (UDel u Hu' X2).
    + intros u Hu Qu Cu. assert (Hu' : In u (x_unords sf)) by (subst st'; xs in Hu; exact Hu).
      destruct (E u (USub u Hu') Qu Cu) as [L|L]; [left; auto|right].
      unfold orph in *. replace (x_next st') with (x_next st) by (subst st'; xs; auto).
      replace (x_head_offs st') with (x_head_offs st) by (subst st'; xs; auto). exact L.
    + replace (x_parsing_done st') with (x_parsing_done st) by (subst st'; xs; auto). intro PD'. specialize (F PD').
      apply Forall_forall. intros u Hu. rewrite Forall_forall in F. apply F. apply USub. subst st'; xs in Hu; exact Hu.
    + replace (x_parsing_done st') with (x_parsing_done st) by (subst st'; xs; auto).
      replace (x_next st') with (x_next st) by (subst st'; xs; auto).
      replace (x_parser_bs st') with (x_parser_bs st) by (subst st'; xs; auto). exact G.
    + replace (x_parsing_done st') with (x_parsing_done st) by (subst st'; xs; auto).
      replace (x_parser_bs st') with (x_parser_bs st) by (subst st'; xs; auto). exact K.
    + intros u Hu Qu. assert (Hu' : In u (x_unords sf)) by (subst st'; xs in Hu; exact Hu).
      destruct (U3 u (USub u Hu') Qu) as (x & [<-|X1] & X2); [|exists x; auto].
      exfalso. simpl in X2. exact (UDel u Hu' X2).
Qed.

(* ---- do_retrieve: a speculative job -------------------------------------------------------- *)
Lemma oretr1_spec cfg j id rv cur s2 st' H :
  c_requeue_retr_checks_head cfg = true -> c_stale_drops_link cfg = true ->
  jfacts j s2 -> r_link j = Some id -> x_parsing_done s2 = false ->
  (forall u, In u (x_unords s2) -> u_id u = id -> u_complete u = false) ->
  dbs_ok cur = true -> d_bit (r_cur j) <= d_bit cur -> (rv = MORE -> dbs_norm cur = true) ->
  ownp H (j :: all_jobs s2) s2 ->
  (let st := set_unords (upd_unord id (u_set_end cur) (x_unords s2)) s2 in
   if rv =? MORE then
     if c_requeue_retr_checks_head cfg && (d_off cur <? x_head_offs st)
     then Some (give_unit (if c_stale_drops_link cfg then set_unords (drop_link (Some id) (x_unords st)) st else st))
     else Some (set_retr_q (mkrjob (r_base j) cur (Some id) :: x_retr_q st) st)
   else Some (add_run (CRetr2 (mkejob (r_base j) rv (d_off cur)))
                (set_unords (upd_unord id (fun u => u_set_complete (u_set_end cur u)) (x_unords st)) st))) = Some st' ->
  ownp H (all_jobs st') st' /\ x_order_q st' = x_order_q s2 /\ x_next st' = x_next s2.
Proof.
  intros CR CSD (I2 & J2 & L2 & B2 & M2) EL PD INC Hok Hbit Hn OW Hst.
  pose proof (L2 id EL) as Z2. destruct J2 as (J1 & J2' & J3 & J4 & J5).
  assert (NL : forall x, In x (all_jobs s2) -> r_link x <> Some id) by (intros x Hx; apply (no_link_job id s2 x Z2 Hx)).
  assert (UB : forall u, In u (x_unords s2) -> u_id u = id -> u_base u = r_base j) by (intros u Hu Hid; apply (J5 id u EL Hu Hid)).
  (* the store after `end_pos = curr_pos` *)
  assert (I3 : inv (set_unords (upd_unord id (u_set_end cur) (x_unords s2)) s2)).
  { apply (inv_upd_spec id (u_set_end cur) s2 I2 Z2).
    - intro u. split; reflexivity.
    - intros u Hu Hid. destruct I2 as [_ _ _ _ Iu _ _ _ _ _ _ _ _]. rewrite Forall_forall in Iu. destruct (Iu u Hu) as (O1 & O2 & O3).
      unfold unord_ok, u_set_end; simpl. split; [|split; auto]. intro Q. destruct (O1 Q) as (_ & _ & L).
      repeat split; auto. rewrite (UB u Hu Hid). clear - J1 Hbit. lia. }
  assert (OW3 : ownp H (j :: all_jobs s2) (set_unords (upd_unord id (u_set_end cur) (x_unords s2)) s2)).
  { apply ownp_upd_keep; [intro u; repeat split; reflexivity|exact OW]. }
  cbv zeta in Hst. set (st := set_unords (upd_unord id (u_set_end cur) (x_unords s2)) s2) in *.
  assert (ES : x_order_q st = x_order_q s2 /\ x_next st = x_next s2 /\ all_jobs st = all_jobs s2 /\ x_head_offs st = x_head_offs s2 /\
               x_parser_bs st = x_parser_bs s2 /\ x_parsing_done st = false)
    by (subst st; unfold all_jobs; xs; auto 10).
  destruct ES as (OQ3 & NX3 & AJ3 & HD3 & PB3 & PD3).
  assert (US : forall u, In u (x_unords st) -> exists u0, In u0 (x_unords s2) /\ u_id u = u_id u0 /\ u_base u = u_base u0 /\
                 u_inq u = u_inq u0 /\ u_complete u = u_complete u0 /\ u_legit u = u_legit u0).
  { intros u Hu. subst st. xs in Hu. unfold upd_unord in Hu. apply in_map_iff in Hu. destruct Hu as (u0 & <- & H0). exists u0. split; auto.
    destruct (u_id u0 =? id); simpl; auto 10. }
  assert (INC3 : forall u, In u (x_unords st) -> u_id u = id -> u_complete u = false).
  { intros u Hu Hid. destruct (US u Hu) as (u0 & H0 & E1 & _ & _ & E4 & _). rewrite E4. apply INC; auto. congruence. }
  assert (NJ : jm (x_unords st) j = false).
  { apply (not_jm_incomplete st j id I3 EL). intros u Hu Hid. left. apply INC3; auto. }
  rewrite <- AJ3 in OW3. clearbody st.
  destruct (rv =? MORE) eqn:RV.
  - rewrite CR, CSD in Hst. cbn [andb] in Hst. apply N.eqb_eq in RV. specialize (Hn RV).
    destruct (d_off cur <? x_head_offs st) eqn:SL.
    + (* the master has released the input this job needs next: it is dropped *)
      inversion Hst; subst st'. clear Hst. unfold give_unit. xs. rewrite OQ3, NX3. split; [|auto].
      change (all_jobs (set_work_units (x_work_units (set_unords (drop_link (Some id) (x_unords st)) st) + 1)
                 (set_unords (drop_link (Some id) (x_unords st)) st)))
        with (all_jobs st).
      apply (ownp_give_unit H (all_jobs st) (set_unords (drop_link (Some id) (x_unords st)) st)).
      rewrite <- EL. apply ownp_drop; auto.
      * intros id0 x L0 Hx. rewrite EL in L0. inversion L0; subst id0. rewrite AJ3 in Hx. apply NL; auto.
      * intros u Hu LJ Qu Cu. destruct (US u Hu) as (u0 & H0 & E1 & E2 & _).
        rewrite EL in LJ. inversion LJ as [Hid]. rewrite E2, (UB u0 H0 ltac:(congruence)).
        right. apply N.ltb_lt in SL. unfold dbs_norm in Hn. clear - J1 Hbit Hn SL. lia.
    + inversion Hst; subst st'. clear Hst. xs. rewrite OQ3, NX3. split; [|auto].
      assert (OW4 : ownp H (mkrjob (r_base j) cur (Some id) :: all_jobs st) st) by (apply (ownp_job_upd H j); auto).
      eapply ownp_view; [| |exact OW4]; [constructor; unfold estage; xs; auto|].
      intro x. unfold all_jobs. xs. simpl. tauto.
  - inversion Hst; subst st'. clear Hst.
    set (e := mkejob (r_base j) rv (d_off cur)).
    set (f := fun u => u_set_complete (u_set_end cur u)).
    match goal with |- ownp _ (all_jobs ?s) ?s /\ _ => set (st' := s) end.
    assert (EQ' : x_order_q st' = x_order_q st /\ x_next st' = x_next st) by (subst st'; unfold add_run; xs; auto).
    destruct EQ' as (-> & ->). rewrite OQ3, NX3. split; [|auto].
    assert (AJ : all_jobs st' = all_jobs st) by (subst st'; unfold all_jobs, add_run; xs; reflexivity).
    assert (LAm : forall b k, la st b k -> la st' b k).
    { intros b k L. unfold la in *. eapply lineabove_mono; [| |exact L].
      - intros x Hx. subst st'. unfold estage, add_run in *. xs. rewrite run_ejobs_cons. simpl. rewrite in_app_iff in *. simpl. tauto.
      - intros o Ho. subst st'. unfold add_run. xs. exact Ho. }
    assert (LAe : la st' (fst (r_base j)) 0).
    { left. exists e. split; [subst st'; unfold estage, add_run; xs; rewrite run_ejobs_cons; simpl; apply in_or_app; right; left; reflexivity|].
      simpl. split; auto. apply N.le_0_l. }
    assert (USN : x_unords st' = upd_unord id f (x_unords st)) by (subst st'; unfold add_run; xs; reflexivity).
    assert (UP : forall u, In u (x_unords st') -> exists u0, In u0 (x_unords st) /\
               ((u_id u0 <> id /\ u = u0) \/ (u_id u0 = id /\ u = f u0))).
    { intros u Hu. rewrite USN in Hu. unfold upd_unord in Hu. apply in_map_iff in Hu. destruct Hu as (u0 & <- & H0). exists u0. split; auto.
      destruct (u_id u0 =? id) eqn:K; [right; split; auto; apply N.eqb_eq; auto|left; split; auto; apply N.eqb_neq; auto]. }
    rewrite AJ. destruct OW3 as [A B C D E F G K U3].
    constructor.
    + intros h Hh. destruct (A h Hh) as [[Z (x & X1 & X2 & X3)]|L]; [left; split; auto|right; auto].
      destruct X1 as [<-|X1]; [congruence|]. exists x. split; auto. split; auto.
      rewrite USN. rewrite jm_upd_other; [exact X2|apply NL; rewrite <- AJ3; exact X1|reflexivity].
    + intros o Ho S. apply LAm. apply B; auto.
    + intros x Hx J. apply C; [right; auto|]. rewrite USN in J.
      eapply jm_upd_raise; [| |exact J]; [intro u; split; reflexivity|apply I3].
    + intros u Hu Cu. destruct (UP u Hu) as (u0 & H0 & [[NE ->]|[EQ ->]]); [|simpl in Cu; discriminate].
      destruct (D u0 H0 Cu) as (x & [<-|X1] & X2); [congruence|exists x; auto].
    + intros u Hu Qu Cu. replace (x_parser_bs st') with (x_parser_bs st) by (subst st'; unfold add_run; xs; auto).
      destruct (UP u Hu) as (u0 & H0 & [[NE ->]|[EQ ->]]).
      * destruct (E u0 H0 Qu Cu) as [L|L]; [left; auto|right; auto].
      * left. simpl. destruct (US u0 H0) as (u1 & H1 & E1 & E2 & _). rewrite E2, (UB u1 H1 ltac:(congruence)). exact LAe.
    + replace (x_parsing_done st') with (x_parsing_done st) by (subst st'; unfold add_run; xs; auto). rewrite PD3. discriminate.
    + replace (x_parsing_done st') with (x_parsing_done st) by (subst st'; unfold add_run; xs; auto).
      replace (x_next st') with (x_next st) by (subst st'; unfold add_run; xs; auto).
      replace (x_parser_bs st') with (x_parser_bs st) by (subst st'; unfold add_run; xs; auto). exact G.
    + replace (x_parsing_done st') with (x_parsing_done st) by (subst st'; unfold add_run; xs; auto).
      replace (x_parser_bs st') with (x_parser_bs st) by (subst st'; unfold add_run; xs; auto). exact K.
    + intros u Hu Qu. destruct (UP u Hu) as (u0 & H0 & [[NE ->]|[EQ ->]]).
      * destruct (U3 u0 H0 Qu) as (x & [<-|X1] & X2); [congruence|exists x; auto].
      * exfalso. simpl in Qu. pose proof (i_unord _ I3) as UO. rewrite Forall_forall in UO. destruct (UO u0 H0) as (_ & O2 & _).
        rewrite (INC3 u0 H0 EQ) in O2. specialize (O2 Qu). discriminate.
Qed.

Lemma own_of_parts st' s2 :
  ownp (x_order_q s2) (all_jobs st') st' /\ x_order_q st' = x_order_q s2 /\ x_next st' = x_next s2 -> oshape s2 -> own st'.
Proof. intros (A & B & C) S. split; [rewrite B; exact A|eapply oshape_view; eauto]. Qed.

Lemma own_retr1 cfg j att rv cur st st' :
  cfg_safe cfg -> cfg_drops cfg -> inv st -> own st -> retr1 cfg j att rv cur st = Some st' -> own st'.
Proof.
  intros (CS & CJ & CR) (CSD & CDD & CAD & CA & CF) I OW H. unfold retr1 in H.
  destruct (del_run (CRetr j att) st) as [s1|] eqn:D; [|discriminate].
  assert (F1 : jfacts j s1) by (apply (inv_del_retr _ _ _ _ D I)).
  destruct (del_run_spec _ _ _ D) as (l1 & l2 & E & ES1).
  assert (OW1 : ownp (x_order_q s1) (j :: all_jobs s1) s1 /\ oshape s1).
  { destruct OW as [OP OS]. subst s1. split.
    - xs. eapply ownp_view; [| |exact OP].
      + constructor; xs; auto. intro x. unfold estage. xs. rewrite E, !run_ejobs_app, run_ejobs_cons. simpl. auto.
      + intro x. unfold all_jobs. xs. rewrite E, !run_jobs_app, run_jobs_cons. simpl. rewrite !in_app_iff. simpl. rewrite ?in_app_iff. tauto.
    - eapply oshape_view; [| |exact OS]; xs; auto. }
  clear I OW D ES1 E.
  set (aend := att_end att s1) in *. clearbody aend.
  match type of H with (if ?c then _ else _) = _ => destruct c eqn:C; [|discriminate] end.
  assert (F2 : jfacts j (detach att s1)) by (eapply jfacts_view; [apply view_detach|auto]).
  assert (OW2 : ownp (x_order_q (detach att s1)) (j :: all_jobs (detach att s1)) (detach att s1) /\ oshape (detach att s1)).
  { destruct OW1 as [OP OS]. split.
    - replace (x_order_q (detach att s1)) with (x_order_q s1) by (autorewrite with xf; reflexivity).
      eapply ownp_view; [| |exact OP]; [oview_tac|]. intro x. unfold all_jobs. autorewrite with xf. tauto.
    - eapply oshape_view; [| |exact OS]; autorewrite with xf; auto. }
  clear F1 OW1. set (s2 := detach att s1) in *. clearbody s2. clear s1.
  bool_hyps.
  assert (Hok : dbs_ok cur = true) by assumption.
  assert (Hbit : d_bit (r_cur j) <= d_bit cur) by (apply N.leb_le; assumption).
  assert (Hoff : d_off (r_cur j) <= d_off cur) by (apply N.leb_le; assumption).
  assert (HnM : rv = MORE -> dbs_norm cur = true).
  { intro EM; subst rv. match goal with K : (if MORE =? MORE then _ else _) = true |- _ => rewrite N.eqb_refl in K end. bool_hyps. auto. }
  destruct OW2 as [OP2 OS2].
  assert (F2' := F2). destruct F2' as (I2 & J2 & L2 & B2 & M2).
  (* parsing_done *)
  destruct (x_parsing_done s2) eqn:PD.
  { inversion H; subst st'. rewrite CDD.
    assert (NM : jm (x_unords s2) j = false).
    { destruct (i_done _ I2 PD) as [_ T]. rewrite T in B2. simpl in B2. destruct (jm (x_unords s2) j); auto. exfalso. simpl in B2. clear - B2. lia. }
    assert (X : ownp (x_order_q s2) (all_jobs s2) (set_unords (drop_link (r_link j) (x_unords s2)) s2)).
    { apply ownp_drop; auto.
      - intros id x L Hx. apply (no_link_job id s2 x (L2 id L) Hx).
      - intros u Hu _ Qu _. exfalso. pose proof (o_noinq _ _ _ OP2 PD) as NI. rewrite Forall_forall in NI. rewrite (NI u Hu) in Qu. discriminate. }
    apply (own_of_parts _ s2); [|exact OS2].
    split; [exact (ownp_give_unit _ _ _ X)|split; reflexivity]. }
  destruct (link_state (r_link j) s2) as [u|] eqn:LS.
  - destruct (link_state_spec _ _ _ LS) as (id & EL & Hu & Hid). rewrite EL in H. cbn [andb negb orb] in H.
    assert (UNI : forall u0, In u0 (x_unords s2) -> u_id u0 = id -> u0 = u).
    { intros u0 Hv0 E0. apply (nodup_id_unique (x_unords s2)); auto; [apply I2|congruence]. }
    destruct (u_complete u) eqn:UC; cbn [andb negb orb] in H.
    + destruct (u_legit u) eqn:UL; cbn [andb negb orb] in H.
      * (* adopted: acts as the master *)
        apply (own_of_parts _ s2); [|exact OS2].
        eapply (oretr1_master cfg j (Some id) rv cur s2 st' _ EL CR CA F2); try exact H; auto.
        eapply jm_of_link_state; eauto.
      * (* proven not legitimate: aborted *)
        inversion H; subst st'. rewrite CAD.
        assert (NM : jm (x_unords s2) j = false).
        { apply (not_jm_incomplete s2 j id I2 EL). intros u0 Hv0 E0. right. rewrite (UNI u0 Hv0 E0). exact UL. }
        assert (X : ownp (x_order_q s2) (all_jobs s2) (set_unords (drop_link (r_link j) (x_unords s2)) s2)).
        { apply ownp_drop; auto.
          - intros id0 x L Hx. apply (no_link_job id0 s2 x (L2 id0 L) Hx).
          - intros u0 Hv0 LJ _ C0. exfalso. rewrite EL in LJ. inversion LJ as [X]. rewrite (UNI u0 Hv0 (eq_sym X)) in C0. congruence. }
        rewrite EL in X. subst id.
        apply (own_of_parts _ s2); [|exact OS2].
        split; [exact (ownp_give_unit _ _ _ X)|split; reflexivity].
    + (* speculative *)
      apply (own_of_parts _ s2); [|exact OS2].
      eapply (oretr1_spec cfg j id rv cur s2 st' _ CR CSD F2 EL PD); try exact H; auto.
      intros u0 Hv0 E0. rewrite (UNI u0 Hv0 E0). exact UC.
  - assert (EL : (exists id, r_link j = Some id) \/ r_link j = None) by (destruct (r_link j); eauto).
    destruct EL as [[id EL]|EL]; rewrite EL in H; cbn [andb negb orb] in H.
    + (* dangling link: treated as speculative, the update is void *)
      apply (own_of_parts _ s2); [|exact OS2].
      eapply (oretr1_spec cfg j id rv cur s2 st' _ CR CSD F2 EL PD); try exact H; auto.
      intros u0 Hv0 E0. exfalso. unfold link_state in LS. rewrite EL in LS. eapply get_unord_none; eauto.
    + (* created by the parser: the master *)
      apply (own_of_parts _ s2); [|exact OS2].
      eapply (oretr1_master cfg j None rv cur s2 st' _ EL CR CA F2); try exact H; auto.
      unfold jm. rewrite EL. reflexivity.
Qed.

(* ---- do_scan -------------------------------------------------------------------------------- *)
Lemma own_scan1 cfg s att found s' more st st' :
  inv st -> own st -> scan1 cfg s att found s' more st = Some st' -> own st'.
Proof.
  intros I OW H. unfold scan1 in H.
  destruct (del_run (CScan s att) st) as [s1|] eqn:D; [|discriminate].
  assert (I1 : inv s1) by (eapply inv_view; [eapply view_del_run; eauto|auto]).
  destruct (del_run_spec _ _ _ D) as (l1 & l2 & E & ES1).
  assert (OW1 : own s1).
  { eapply own_view; [| | |exact OW]; subst s1.
    - constructor; xs; auto. intro x. unfold estage. xs. rewrite E, !run_ejobs_app, run_ejobs_cons. simpl. auto.
    - xs. auto.
    - intro x. unfold all_jobs. xs. rewrite E, !run_jobs_app, run_jobs_cons. simpl. tauto. }
  clear I OW D ES1 E. set (aend := att_end att s1) in *. clearbody aend.
  assert (I2 : inv (detach att s1)) by (eapply inv_view; [apply view_detach|auto]).
  assert (OW2 : own (detach att s1)) by (eapply own_view; [| | |exact OW1]; oview_tac).
  set (s2 := detach att s1) in *. clearbody s2. clear I1 OW1 s1.
  destruct (negb found || x_parsing_done s2) eqn:F.
  { inversion H; subst. eapply own_view; [| | |exact OW2]; oview_tac. }
  match type of H with (if ?c then _ else _) = _ => destruct c; [|discriminate] end.
  apply orb_false_iff in F. destruct F as [_ PD].
  set (s3 := if pos_le (d_pos s') (d_pos (x_parser_bs s2)) || (c_scan_job_checks_head cfg && (d_off s' <? x_head_offs s2)) then give_unit s2
             else if c_scan_checks_unord_cap cfg && unord_full s2 then give_unit s2
             else set_retr_q (mkrjob (d_pos s') s' (Some (x_next_uid s2)) :: x_retr_q s2)
                   (set_next_uid (x_next_uid s2 + 1)
                      (set_unords (x_unords s2 ++ [mkunord (x_next_uid s2) (d_pos s') s' false false true]) s2))) in *.
  assert (O3 : own s3).
  { subst s3. destruct (pos_le (d_pos s') (d_pos (x_parser_bs s2)) || (c_scan_job_checks_head cfg && (d_off s' <? x_head_offs s2)));
      [|destruct (c_scan_checks_unord_cap cfg && unord_full s2)].
    - eapply own_view; [| | |exact OW2]; oview_tac.
    - eapply own_view; [| | |exact OW2]; oview_tac.
    - destruct OW2 as [OP OS]. destruct I2 as [Ic Ip Ir Is Iu If Ij Il Ie Im Id Ib Iq].
      set (un := mkunord (x_next_uid s2) (d_pos s') s' false false true).
      set (jn := mkrjob (d_pos s') s' (Some (x_next_uid s2))).
      match goal with |- own ?x => set (st3 := x) end.
      assert (LA : forall b k, la st3 b k <-> la s2 b k) by (intros; apply la_ext; subst st3; unfold estage; xs; reflexivity).
      assert (AJ : forall x, In x (all_jobs st3) <-> x = jn \/ In x (all_jobs s2)).
      { intro x. subst st3. unfold all_jobs. xs. simpl. split; intros [X|X]; auto. }
      assert (US : x_unords st3 = x_unords s2 ++ [un]) by (subst st3; xs; reflexivity).
      assert (NJ : jm (x_unords st3) jn = false).
      { rewrite US. unfold jm. simpl. rewrite existsb_app. simpl. rewrite andb_false_r. simpl. rewrite orb_false_r.
        apply not_true_iff_false. intro X. apply existsb_exists in X. destruct X as (u & Hu & X). bool_hyps.
        rewrite Forall_forall in If. apply If in Hu.
        match goal with K : (u_id u =? x_next_uid s2) = true |- _ => apply N.eqb_eq in K; rewrite K in Hu end. exact (N.lt_irrefl _ Hu). }
      assert (JO : forall x, jm (x_unords st3) x = jm (x_unords s2) x) by (intro x; rewrite US; apply jm_app_new; reflexivity).
      split.
      + replace (x_order_q st3) with (x_order_q s2) by (subst st3; xs; reflexivity).
        destruct OP as [A B C D E F G K U3].
        constructor.
        * intros h Hh. destruct (A h Hh) as [[Z (x & X1 & X2 & X3)]|L]; [left; split; auto|right; apply LA; auto].
          exists x. split; [apply AJ; auto|]. rewrite JO. auto.
        * intros o Ho S. apply LA. apply B; auto.
        * intros x Hx J. apply AJ in Hx. destruct Hx as [->|Hx]; [congruence|].
          replace (x_next st3) with (x_next s2) by (subst st3; xs; reflexivity).
          replace (x_parser_bs st3) with (x_parser_bs s2) by (subst st3; xs; reflexivity).
          apply C; auto. rewrite <- JO. exact J.
        * intros u Hu Cu. rewrite US in Hu. apply in_app_or in Hu. destruct Hu as [Hu|[<-|[]]].
          -- destruct (D u Hu Cu) as (x & X1 & X2). exists x. split; [apply AJ; auto|auto].
          -- exists jn. split; [apply AJ; auto|reflexivity].
        * intros u Hu Qu Cu. rewrite US in Hu. apply in_app_or in Hu. destruct Hu as [Hu|[<-|[]]]; [|simpl in Cu; discriminate].
          replace (x_parser_bs st3) with (x_parser_bs s2) by (subst st3; xs; reflexivity).
          destruct (E u Hu Qu Cu) as [L|L]; [left; apply LA; auto|right; auto].
        * replace (x_parsing_done st3) with (x_parsing_done s2) by (subst st3; xs; reflexivity). rewrite PD. discriminate.
        * replace (x_parsing_done st3) with (x_parsing_done s2) by (subst st3; xs; reflexivity).
          replace (x_next st3) with (x_next s2) by (subst st3; xs; reflexivity).
          replace (x_parser_bs st3) with (x_parser_bs s2) by (subst st3; xs; reflexivity). exact G.
        * replace (x_parsing_done st3) with (x_parsing_done s2) by (subst st3; xs; reflexivity).
          replace (x_parser_bs st3) with (x_parser_bs s2) by (subst st3; xs; reflexivity). exact K.
        * intros u Hu Qu. rewrite US in Hu. apply in_app_or in Hu. destruct Hu as [Hu|[<-|[]]]; [|simpl in Qu; discriminate].
          destruct (U3 u Hu Qu) as (x & X1 & X2). exists x. split; [apply AJ; auto|auto].
      + eapply oshape_view; [| |exact OS]; subst st3; xs; auto. }
  clearbody s3.
  match type of H with (if ?c then _ else _) = _ => destruct c end; inversion H; subst; auto.
  eapply own_view; [| | |exact O3]; oview_tac.
Qed.
