From Coq Require Import List NArith Bool Lia Arith ZifyBool ZifyN.
From LBZ Require Import Gen.Consts SchedX.XState Gen.SchedXTab SchedX.XSet SchedX.XModel SchedX.XLemmas
  SchedX.XFrame SchedX.XInvDefs SchedX.XOps SchedX.XInv SchedX.XInv2 SchedX.XInv3.
Import ListNotations.
Local Open Scope N_scope.

(* the parser's continuation leaves the running set: nobody else may move head_offs *)
Lemma inv_del_parse att st s1 : del_run (CParse att) st = Some s1 -> inv st ->
  inv s1 /\ masters s1 = 0%nat /\ nparse s1 = 0%nat /\ x_parse_token s1 = false /\ x_parsing_done s1 = false.
Proof.
  intros D [Ic Ip Ir Is Iu If Ij Il Ie Im Id Ib Iq].
  destruct (del_run_spec _ _ _ D) as (l1 & l2 & E & ->). unfold masters, all_jobs, nparse in *.
  rewrite E in *. rewrite !run_jobs_app, run_jobs_cons in *. simpl cjobs in *. simpl app in *.
  rewrite !filter_len_app in Ie, Id. simpl in Ie, Id.
  assert (T : x_parse_token st = false) by (destruct (x_parse_token st); auto; exfalso; simpl in Ie; lia).
  assert (PD : x_parsing_done st = false) by (destruct (x_parsing_done st); auto; exfalso; destruct (Id eq_refl); lia).
  rewrite T in Ie. simpl in Ie. rewrite ?filter_len_app in Ie.
  split; [|nrm; rewrite ?run_jobs_app, ?filter_len_app; split; [lia|split; [lia|split; auto]]].
  constructor; unfold all_jobs, nparse; nrm; rewrite ?run_jobs_app, ?filter_len_app; auto.
  all: try (rewrite T; simpl; lia).
  all: try (intro K; congruence).
Qed.

(* a weaker relation between unord stores that is enough for the jobs *)
Definition stemsj (u u0 : unord) : Prop :=
  u_id u = u_id u0 /\ u_base u = u_base u0 /\ u_end u = u_end u0 /\ (u_complete u0 = true -> u_complete u = true).

Lemma job_ok_stemsj st st' j : x_next_uid st' = x_next_uid st ->
  (forall u, In u (x_unords st') -> exists u0, In u0 (x_unords st) /\ stemsj u u0) ->
  job_ok st j -> job_ok st' j.
Proof.
  intros EN HS (J1 & J2 & J3 & J4 & J5). unfold job_ok. rewrite EN.
  split; [auto|]. split; [auto|]. split; [auto|]. split; [auto|].
  intros id u E Hin Hid. destruct (HS u Hin) as (u0 & H0 & (S1 & S2 & S3 & S6)).
  destruct (J5 id u0 E H0 ltac:(congruence)) as [B1 B2]. split; [congruence|].
  intro C. rewrite S3. apply B2. destruct (u_complete u0); auto. specialize (S6 eq_refl). congruence.
Qed.

(* replacing the store by one in which some queued elements have been detached (not legitimate) or freed *)
Lemma inv_detached s us' :
  (forall u, In u us' -> exists u0, In u0 (x_unords s) /\ (u = u0 \/ (u_inq u0 = true /\ u = u_detach false u0))) ->
  NoDup (map u_id us') -> inv s ->
  inv (set_unords us' s) /\ (masters (set_unords us' s) <= masters s)%nat.
Proof.
  intros ST ND [Ic Ip Ir Is Iu If Ij Il Ie Im Id Ib Iq]. unfold masters, all_jobs, nparse in *.
  assert (JM : forall j, jm us' j = true -> jm (x_unords s) j = true).
  { intro j. unfold jm. destruct (r_link j) as [id|]; auto. rewrite !existsb_exists. intros (u & Hu & E).
    destruct (ST u Hu) as (u0 & H0 & [->|[_ ->]]); [exists u0; auto|]. simpl in E. rewrite andb_false_r in E. discriminate. }
  assert (LE : (length (filter (jm us') (x_retr_q s ++ run_jobs (x_running s))) <=
                length (filter (jm (x_unords s)) (x_retr_q s ++ run_jobs (x_running s))))%nat)
    by (apply filter_len_mono; intros; auto).
  split.
  - constructor; unfold all_jobs, nparse; nrm; auto.
    + apply Forall_forall. intros u Hu. rewrite Forall_forall in Iu. destruct (ST u Hu) as (u0 & H0 & [->|[Q ->]]); auto.
      destruct (Iu u0 H0) as (O1 & O2 & O3). unfold unord_ok, u_detach; simpl. split; [discriminate|split; auto].
    + apply Forall_forall. intros u Hu. rewrite Forall_forall in If. destruct (ST u Hu) as (u0 & H0 & [->|[Q ->]]); simpl; auto.
    + eapply Forall_impl; [|exact Ij]. intros j. apply job_ok_stemsj; nrm; auto.
      intros u Hu. destruct (ST u Hu) as (u0 & H0 & [->|[Q ->]]); exists u0; split; auto; unfold stemsj, u_detach; simpl; tauto.
    + lia.
    + eapply Forall_impl; [|exact Im]. simpl. intros j H K. auto.
  - nrm. exact LE.
Qed.

Lemma discard_below_spec p us u : In u (discard_below p us) ->
  exists u0, In u0 us /\ (u = u0 \/ (u_inq u0 = true /\ u = u_detach false u0)).
Proof.
  unfold discard_below. rewrite in_map_iff. intros (u0 & E & H0). apply filter_In in H0. destruct H0 as [H0 _].
  exists u0. split; auto. destruct (u_inq u0 && pos_lt (u_base u0) p && negb (u_complete u0)) eqn:K; auto.
  right. bool_hyps. auto.
Qed.

Lemma flush_unords_spec us u : In u (flush_unords us) ->
  exists u0, In u0 us /\ (u = u0 \/ (u_inq u0 = true /\ u = u_detach false u0)).
Proof.
  unfold flush_unords. rewrite in_map_iff. intros (u0 & E & H0). apply filter_In in H0. destruct H0 as [H0 _].
  exists u0. split; auto. destruct (u_inq u0) eqn:K; auto.
Qed.

Lemma nodup_map_idpres (f : unord -> unord) p us : (forall u, u_id (f u) = u_id u) ->
  NoDup (map u_id us) -> NoDup (map u_id (map f (filter p us))).
Proof.
  intros H ND. rewrite map_map. rewrite (map_ext _ u_id) by auto. apply nodup_map_filter. auto.
Qed.

Lemma nodup_discard p us : NoDup (map u_id us) -> NoDup (map u_id (discard_below p us)).
Proof. unfold discard_below. apply nodup_map_idpres. intro u. destruct (_ && _ && _); reflexivity. Qed.

Lemma nodup_flush us : NoDup (map u_id us) -> NoDup (map u_id (flush_unords us)).
Proof. unfold flush_unords. apply nodup_map_idpres. intro u. destruct (u_inq u); reflexivity. Qed.

Lemma contig_sum h q t : contig h q t -> h + sum_sizes q = t.
Proof.
  revert h; induction q as [|b r IH]; simpl; intros h H; [lia|]. destruct H as (H1 & H2 & H3).
  apply IH in H3. unfold ib_end in H3. lia.
Qed.
