From Coq Require Import List NArith Bool Lia Arith ZifyBool ZifyN.
From LBZ Require Import Gen.Consts SchedX.XState Gen.SchedXTab SchedX.XSet SchedX.XModel SchedX.XLemmas
  SchedX.XFrame SchedX.XInvDefs SchedX.XOps SchedX.XInv SchedX.XInv2 SchedX.XInv3.
Import ListNotations.
Local Open Scope N_scope.

(* the parser's continuation leaves the running set: nobody else may move head_offs *)
Lemma inv_del_parse att st s1 : del_run (CParse att) st = Some s1 -> inv st ->
  inv s1 /\ masters s1 = 0%nat /\ nparse s1 = 0%nat /\ x_parse_token s1 = false /\ x_parsing_done s1 = false.
Proof.
  intros D [Ic Ip Ir Is Iu If Ij Il Ie Im Id Ib Iq].
  destruct (del_run_spec _ _ _ D) as (l1 & l2 & E & ->). unfold masters, all_jobs, nparse in *.
  rewrite E in *. rewrite !run_jobs_app, run_jobs_cons in *. simpl cjobs in *. simpl app in *.
  rewrite !filter_len_app in Ie, Id. simpl in Ie, Id.
  assert (T : x_parse_token st = false) by (destruct (x_parse_token st); auto; exfalso; simpl in Ie; lia).
  assert (PD : x_parsing_done st = false) by (destruct (x_parsing_done st); auto; exfalso; destruct (Id eq_refl); lia).
  rewrite T in Ie. simpl in Ie. rewrite ?filter_len_app in Ie.
  split; [|nrm; rewrite ?run_jobs_app, ?filter_len_app; split; [lia|split; [lia|split; auto]]].
  constructor; unfold all_jobs, nparse; nrm; rewrite ?run_jobs_app, ?filter_len_app; auto.
  all: try (rewrite T; simpl; lia).
  all: try (intro K; congruence).
Qed.

(* a weaker relation between unord stores that is enough for the jobs *)
Definition stemsj (u u0 : unord) : Prop :=
  u_id u = u_id u0 /\ u_base u = u_base u0 /\ u_end u = u_end u0 /\ (u_complete u0 = true -> u_complete u = true).

Lemma job_ok_stemsj st st' j : x_next_uid st' = x_next_uid st ->
  (forall u, In u (x_unords st') -> exists u0, In u0 (x_unords st) /\ stemsj u u0) ->
  job_ok st j -> job_ok st' j.
Proof.
  intros EN HS (J1 & J2 & J3 & J4 & J5). unfold job_ok. rewrite EN.
  split; [auto|]. split; [auto|]. split; [auto|]. split; [auto|].
  intros id u E Hin Hid. destruct (HS u Hin) as (u0 & H0 & (S1 & S2 & S3 & S6)).
  destruct (J5 id u0 E H0 ltac:(congruence)) as [B1 B2]. split; [congruence|].
  intro C. rewrite S3. apply B2. destruct (u_complete u0); auto. specialize (S6 eq_refl). congruence.
Qed.

(* replacing the store by one in which some queued elements have been detached (not legitimate) or freed *)
Lemma inv_detached s us' :
  (forall u, In u us' -> exists u0, In u0 (x_unords s) /\ (u = u0 \/ (u_inq u0 = true /\ u = u_detach false u0))) ->
  NoDup (map u_id us') -> inv s ->
  inv (set_unords us' s) /\ (masters (set_unords us' s) <= masters s)%nat.
Proof.
  intros ST ND [Ic Ip Ir Is Iu If Ij Il Ie Im Id Ib Iq]. unfold masters, all_jobs, nparse in *.
  assert (JM : forall j, jm us' j = true -> jm (x_unords s) j = true).
  { intro j. unfold jm. destruct (r_link j) as [id|]; auto. rewrite !existsb_exists. intros (u & Hu & E).
    destruct (ST u Hu) as (u0 & H0 & [->|[_ ->]]); [exists u0; auto|]. simpl in E. rewrite andb_false_r in E. discriminate. }
  assert (LE : (length (filter (jm us') (x_retr_q s ++ run_jobs (x_running s))) <=
                length (filter (jm (x_unords s)) (x_retr_q s ++ run_jobs (x_running s))))%nat)
    by (apply filter_len_mono; intros; auto).
  split.
  - constructor; unfold all_jobs, nparse; nrm; auto.
    + apply Forall_forall. intros u Hu. rewrite Forall_forall in Iu. destruct (ST u Hu) as (u0 & H0 & [->|[Q ->]]); auto.
      destruct (Iu u0 H0) as (O1 & O2 & O3). unfold unord_ok, u_detach; simpl. split; [discriminate|split; auto].
    + apply Forall_forall. intros u Hu. rewrite Forall_forall in If. destruct (ST u Hu) as (u0 & H0 & [->|[Q ->]]); simpl; auto.
    + eapply Forall_impl; [|exact Ij]. intros j. apply job_ok_stemsj; nrm; auto.
      intros u Hu. destruct (ST u Hu) as (u0 & H0 & [->|[Q ->]]); exists u0; split; auto; unfold stemsj, u_detach; simpl; tauto.
    + lia.
    + eapply Forall_impl; [|exact Im]. simpl. intros j H K. auto.
  - nrm. exact LE.
Qed.

Lemma discard_below_spec p us u : In u (discard_below p us) ->
  exists u0, In u0 us /\ (u = u0 \/ (u_inq u0 = true /\ u = u_detach false u0)).
Proof.
  unfold discard_below. rewrite in_map_iff. intros (u0 & E & H0). apply filter_In in H0. destruct H0 as [H0 _].
  exists u0. split; auto. destruct (u_inq u0 && pos_lt (u_base u0) p && negb (u_complete u0)) eqn:K; auto.
  right. bool_hyps. auto.
Qed.

Lemma flush_unords_spec us u : In u (flush_unords us) ->
  exists u0, In u0 us /\ (u = u0 \/ (u_inq u0 = true /\ u = u_detach false u0)).
Proof.
  unfold flush_unords. rewrite in_map_iff. intros (u0 & E & H0). apply filter_In in H0. destruct H0 as [H0 _].
  exists u0. split; auto. destruct (u_inq u0) eqn:K; auto.
Qed.

Lemma nodup_map_idpres (f : unord -> unord) p us : (forall u, u_id (f u) = u_id u) ->
  NoDup (map u_id us) -> NoDup (map u_id (map f (filter p us))).
Proof.
  intros H ND. rewrite map_map. rewrite (map_ext _ u_id) by auto. apply nodup_map_filter. auto.
Qed.

Lemma nodup_discard p us : NoDup (map u_id us) -> NoDup (map u_id (discard_below p us)).
Proof. unfold discard_below. apply nodup_map_idpres. intro u. destruct (_ && _ && _); reflexivity. Qed.

Lemma nodup_flush us : NoDup (map u_id us) -> NoDup (map u_id (flush_unords us)).
Proof. unfold flush_unords. apply nodup_map_idpres. intro u. destruct (u_inq u); reflexivity. Qed.

Lemma contig_sum h q t : contig h q t -> h + sum_sizes q = t.
Proof.
  revert h; induction q as [|b r IH]; simpl; intros h H; [lia|]. destruct H as (H1 & H2 & H3).
  apply IH in H3. unfold ib_end in H3. lia.
Qed.

Lemma inv_clear_jobs s w : inv s -> inv (set_scan_q [] (set_work_units w (set_retr_q [] s))) /\
  (masters (set_scan_q [] (set_work_units w (set_retr_q [] s))) <= masters s)%nat.
Proof.
  intros [Ic Ip Ir Is Iu If Ij Il Ie Im Id Ib Iq]. unfold masters, all_jobs, nparse in *.
  rewrite Forall_app in Ij. destruct Ij as [Ij1 Ij2].
  split.
  - constructor; unfold all_jobs, nparse; nrm; simpl; auto.
    all: try (eapply Forall_impl; [|exact Ij2]; intros; eapply job_ok_ext; [| |eassumption]; nrm; auto).
    all: try (intro id; specialize (Il id); rewrite filter_len_app in Il; lia).
    all: try (rewrite filter_len_app in Ie; lia).
  - nrm. simpl. rewrite filter_len_app. lia.
Qed.

Lemma inv_clear_input s :
  inv s -> x_parsing_done s = true -> x_retr_q s = [] -> x_scan_q s = [] -> masters s = 0%nat ->
  inv (set_head_offs (x_head_offs s + sum_sizes (x_input_q s))
         (fold_left (fun a b => release_blk b a) (x_input_q s) (set_input_q [] s))).
Proof.
  intros [Ic Ip Ir Is Iu If Ij Il Ie Im Id Ib Iq] PD RQ SQ M0. unfold masters, all_jobs, nparse in *.
  constructor; unfold all_jobs, nparse; nrm; rewrite ?RQ, ?SQ in *; auto.
  all: try (simpl; apply contig_sum in Ic; auto; fail).
  all: try congruence.
  all: try (eapply Forall_impl; [|exact Ij]; intros; eapply job_ok_ext; [| |eassumption]; nrm; auto; fail).
  all: try (apply Forall_forall; intros j Hj K; exfalso; simpl in M0;
    assert (In j (filter (jm (x_unords s)) (run_jobs (x_running s)))) by (apply filter_In; auto);
    destruct (filter (jm (x_unords s)) (run_jobs (x_running s))); [contradiction|discriminate]).
Qed.

Lemma inv_parse_finish cfg g s :
  inv s -> masters s = 0%nat -> nparse s = 0%nat -> inv (parse_finish cfg g s).
Proof.
  intros I M0 N0. unfold parse_finish.
  set (pb' := mkdbs _ _). clearbody pb'.
  set (sA := set_parser_bs pb' (set_parsing_done true (set_parse_token true (set_closed true s)))).
  assert (IA : inv sA /\ masters sA = 0%nat).
  { destruct I as [Ic Ip Ir Is Iu If Ij Il Ie Im Id Ib Iq]. unfold masters, all_jobs, nparse in *. subst sA. split; [|nrm; auto].
    constructor; unfold all_jobs, nparse; nrm; auto.
    all: try discriminate.
    all: try (simpl; lia). }
  destruct IA as (IA & MA).
  assert (PDA : x_parsing_done sA = true) by (subst sA; nrm; auto). clearbody sA.
  match goal with |- inv (if ?c then _ else _) => destruct c end.
  { eapply inv_view; [|exact IA]. unfold fail. view_tac. }
  set (sB := if c_finish_drops_link cfg then set_unords (drop_links (x_retr_q sA) (x_unords sA)) sA else sA).
  assert (IB : inv sB /\ masters sB = 0%nat /\ x_parsing_done sB = true).
  { subst sB. destruct (c_finish_drops_link cfg); [|auto].
    destruct (inv_stems sA (drop_links (x_retr_q sA) (x_unords sA))) as (A & B); auto.
    - apply drop_links_stems.
    - apply nodup_drop_links. apply IA.
    - split; [auto|split; [lia|nrm; auto]]. }
  destruct IB as (IB & MB & PDB). clearbody sB.
  set (sC := set_scan_q [] (set_work_units (x_work_units sB + N.of_nat (length (x_retr_q sB))) (set_retr_q [] sB))).
  destruct (inv_clear_jobs sB (x_work_units sB + N.of_nat (length (x_retr_q sB))) IB) as (IC & MC). fold sC in IC, MC.
  assert (PDC : x_parsing_done sC = true) by (subst sC; nrm; auto).
  assert (RQC : x_retr_q sC = []) by (subst sC; nrm; auto).
  assert (SQC : x_scan_q sC = []) by (subst sC; nrm; auto).
  clearbody sC.
  set (sD := set_unords (flush_unords (x_unords sC)) sC).
  destruct (inv_detached sC (flush_unords (x_unords sC))) as (ID & MD); auto.
  { apply flush_unords_spec. } { apply nodup_flush. apply IC. }
  fold sD in ID, MD.
  assert (PDD : x_parsing_done sD = true) by (subst sD; nrm; auto).
  assert (RQD : x_retr_q sD = []) by (subst sD; nrm; auto).
  assert (SQD : x_scan_q sD = []) by (subst sD; nrm; auto).
  clearbody sD.
  eapply inv_view; [|apply (inv_clear_input sD ID PDD RQD SQD ltac:(lia))]. view_tac.
Qed.

Lemma jm_detach id us j : jm (upd_unord id (u_detach true) us) j = true -> jm us j = true \/ links id j = true.
Proof.
  unfold jm, links. destruct (r_link j) as [id2|]; auto. unfold upd_unord. rewrite existsb_map, !existsb_exists.
  intros (u & Hu & E). destruct (u_id u =? id) eqn:K.
  - right. simpl in E. bool_hyps. simpl. apply N.eqb_eq in K. apply N.eqb_eq. match goal with A : (u_id u =? id2) = true |- _ => apply N.eqb_eq in A end. congruence.
  - left. exists u. auto.
Qed.

Lemma inv_adopt id s :
  inv s -> masters s = 0%nat -> nparse s = 0%nat -> x_parse_token s = false ->
  (forall j, In j (run_jobs (x_running s)) -> links id j = true -> x_head_offs s <= d_off (r_cur j)) ->
  inv (set_unords (upd_unord id (u_detach true) (x_unords s)) s).
Proof.
  intros [Ic Ip Ir Is Iu If Ij Il Ie Im Id Ib Iq] M0 N0 T0 HR. unfold masters, all_jobs, nparse in *.
  constructor; unfold all_jobs, nparse; nrm; auto.
  - unfold upd_unord. apply Forall_forall. intros u Hu. apply in_map_iff in Hu. destruct Hu as (u0 & <- & H0).
    rewrite Forall_forall in Iu. specialize (Iu u0 H0). destruct (u_id u0 =? id); auto.
    destruct Iu as (O1 & O2 & O3). unfold unord_ok, u_detach; simpl. split; [discriminate|auto].
  - unfold upd_unord. apply Forall_forall. intros u Hu. apply in_map_iff in Hu. destruct Hu as (u0 & <- & H0).
    rewrite Forall_forall in If. specialize (If u0 H0). destruct (u_id u0 =? id); auto.
  - eapply Forall_impl; [|exact Ij]. intros j. apply job_ok_stemsj; nrm; auto.
    intros u Hu. unfold upd_unord in Hu. apply in_map_iff in Hu. destruct Hu as (u0 & <- & H0). exists u0. split; auto.
    destruct (u_id u0 =? id); unfold stemsj, u_detach; simpl; tauto.
  - rewrite T0, N0. simpl.
    pose proof (filter_len_mono2 (jm (upd_unord id (u_detach true) (x_unords s))) (jm (x_unords s)) (links id)
                 (x_retr_q s ++ run_jobs (x_running s)) (fun x _ => jm_detach id (x_unords s) x)) as LE.
    specialize (Il id). lia.
  - apply Forall_forall. intros j Hj K. destruct (jm_detach _ _ _ K) as [K1|K1]; [|auto].
    exfalso. assert (In j (filter (jm (x_unords s)) (x_retr_q s ++ run_jobs (x_running s)))) by (apply filter_In; split; auto; apply in_or_app; auto).
    destruct (filter (jm (x_unords s)) (x_retr_q s ++ run_jobs (x_running s))); [contradiction|discriminate].
  - rewrite map_id_upd; auto.
Qed.

Lemma inv_parse_ok cfg lv crc s :
  inv s -> masters s = 0%nat -> nparse s = 0%nat -> x_parse_token s = false -> x_parsing_done s = false ->
  dbs_norm (x_parser_bs s) = true -> inv (parse_ok cfg lv crc s).
Proof.
  intros I M0 N0 T0 PD NB. unfold parse_ok.
  set (p := d_pos (x_parser_bs s)).
  set (s1 := set_order_q (x_order_q s ++ [mkhead p lv crc]) s).
  assert (V1 : view_eq s s1) by (subst s1; view_tac).
  assert (I1 : inv s1) by (eapply inv_view; eauto).
  assert (E1 : masters s1 = 0%nat /\ nparse s1 = 0%nat /\ x_parse_token s1 = false /\ x_parsing_done s1 = false /\ x_parser_bs s1 = x_parser_bs s)
    by (subst s1; unfold masters, all_jobs, nparse in *; nrm; auto).
  clearbody s1. clear V1 I M0 N0 T0 PD. destruct E1 as (M1 & N1 & T1 & PD1 & PB1).
  set (s2 := set_unords (discard_below p (x_unords s1)) s1).
  destruct (inv_detached s1 (discard_below p (x_unords s1))) as (I2 & M2); auto.
  { apply discard_below_spec. } { apply nodup_discard. apply I1. }
  fold s2 in I2, M2.
  assert (E2 : nparse s2 = 0%nat /\ x_parse_token s2 = false /\ x_parsing_done s2 = false /\ x_parser_bs s2 = x_parser_bs s)
    by (subst s2; unfold nparse in *; nrm; auto).
  destruct E2 as (N2 & T2 & PD2 & PB2). clearbody s2. clear I1.
  assert (M2' : masters s2 = 0%nat) by lia. clear M2 M1.
  assert (NEW : inv (set_retr_q (mkrjob p (x_parser_bs s2) None :: x_retr_q s2) s2)).
  { apply inv_requeue; auto.
    - unfold job_ok; simpl. rewrite PB2. subst p. unfold d_pos; simpl. repeat split; auto; try lia; discriminate.
    - simpl. apply I2. auto.
    - simpl. discriminate.
    - rewrite T2, N2, M2'. simpl. lia. }
  destruct (qmin u_base pos_lt (unord_q s2)) as [u|] eqn:Q; [|exact NEW].
  destruct (pos_eq (u_base u) p) eqn:PE; [|exact NEW]. clear NEW.
  apply pos_eq_spec in PE. apply qmin_In in Q. unfold unord_q in Q. apply filter_In in Q. destruct Q as [Hu Qi].
  assert (UO : unord_ok u) by (destruct I2 as [_ _ _ _ Iu _ _ _ _ _ _ _ _]; rewrite Forall_forall in Iu; auto).
  destruct UO as (O1 & O2 & O3). destruct (O1 Qi) as (Oe & Ob & Ol).
  assert (HD : x_head_offs s2 <= d_off (u_end u)).
  { assert (x_head_offs s2 <= d_off (x_parser_bs s2)) by (apply I2; auto).
    rewrite PE in Ob. subst p. unfold d_pos in Ob. simpl in Ob. rewrite PB2 in *. unfold dbs_ok, dbs_norm in *. lia. }
  destruct (inv_advance cfg (u_end u) s2 I2 M2' HD) as (I3 & M3 & H3a & H3b & ST & RP).
  assert (RJ : forall j, In j (run_jobs (x_running s2)) -> links (u_id u) j = true -> u_complete u = false -> u_end u = r_cur j).
  { intros j Hj L C. destruct I2 as [_ _ _ _ _ _ Ij _ _ _ _ _ _]. rewrite Forall_forall in Ij.
    destruct (Ij j) as (_ & _ & _ & _ & J5); [unfold all_jobs; apply in_or_app; auto|].
    unfold links in L. apply optN_eqb_eq in L. destruct (J5 _ u L Hu eq_refl) as [_ B]. auto. }
  set (s3 := advance cfg (u_end u) s2) in *.
  assert (E3 : nparse s3 = 0%nat /\ x_parse_token s3 = false /\ x_running s3 = x_running s2)
    by (subst s3; unfold nparse in *; nrm; auto).
  destruct E3 as (N3 & T3 & R3). clearbody s3.
  destruct (u_complete u) eqn:UC.
  - eapply inv_view; [apply view_give_unit|].
    assert (I4 : inv (set_unords (del_unord (u_id u) (x_unords s3)) s3) /\ (masters (set_unords (del_unord (u_id u) (x_unords s3)) s3) <= masters s3)%nat).
    { apply inv_stems; auto.
      - unfold del_unord. intros v Hv. apply filter_In in Hv. exists v. split; [tauto|apply stems_refl].
      - unfold del_unord. apply nodup_map_filter. apply I3. }
    destruct I4 as (I4 & M4).
    eapply inv_view; [|apply (inv_set_token _ I4); [lia|unfold nparse in *; nrm; auto]]. view_tac.
  - eapply inv_view; [apply view_give_unit|].
    apply inv_adopt; auto. intros j Hj L. rewrite R3 in Hj. rewrite <- (RJ j Hj L eq_refl). exact H3b.
Qed.

Lemma inv_parse1 cfg att r st st' : inv st -> parse1 cfg att r st = Some st' -> inv st'.
Proof.
  intros I H. unfold parse1 in H.
  destruct (del_run (CParse att) st) as [s1|] eqn:D; [|discriminate].
  destruct (inv_del_parse _ _ _ D I) as (I1 & M1 & N1 & T1 & PD1). clear I D.
  set (aend := att_end att s1) in *. clearbody aend.
  match type of H with (if ?c then _ else _) = _ => destruct c eqn:C; [|discriminate] end. bool_hyps.
  assert (V2 : view_eq s1 (detach att s1)) by apply view_detach.
  assert (I2 : inv (detach att s1)) by (eapply inv_view; eauto).
  assert (E2 : masters (detach att s1) = 0%nat /\ nparse (detach att s1) = 0%nat /\ x_parse_token (detach att s1) = false /\
               x_parsing_done (detach att s1) = false /\ x_parser_bs (detach att s1) = x_parser_bs s1)
    by (unfold masters, all_jobs, nparse in *; nrm; auto).
  set (s2 := detach att s1) in *. destruct E2 as (M2 & N2 & T2 & PD2 & PB2). clearbody s2.
  assert (HD : x_head_offs s2 <= d_off (res_bs r)).
  { assert (x_head_offs s2 <= d_off (x_parser_bs s2)) by (apply I2; auto). rewrite PB2 in *.
    match goal with K : (d_off (x_parser_bs s1) <=? d_off (res_bs r)) = true |- _ => apply N.leb_le in K end. lia. }
  destruct (inv_advance cfg (res_bs r) s2 I2 M2 HD) as (I3 & M3 & H3a & H3b & ST & RP).
  assert (E3 : nparse (advance cfg (res_bs r) s2) = 0%nat /\ x_parse_token (advance cfg (res_bs r) s2) = false /\
               x_parsing_done (advance cfg (res_bs r) s2) = false)
    by (unfold nparse in *; nrm; auto).
  assert (PB3 : x_parser_bs (advance cfg (res_bs r) s2) = res_bs r) by (unfold advance; nrm; auto).
  set (s3 := advance cfg (res_bs r) s2) in *. destruct E3 as (N3 & T3 & PD3). clearbody s3.
  destruct r as [bs ps|bs g|bs code|bs ps lv crc]; simpl res_bs in *.
  - match type of H with (if ?c then _ else _) = _ => destruct c; [|discriminate] end. inversion H; subst st'.
    eapply inv_view; [|apply (inv_set_token s3 I3 M3 N3)]. view_tac.
  - match type of H with (if ?c then _ else _) = _ => destruct c; [|discriminate] end. inversion H; subst st'.
    apply inv_parse_finish; auto.
  - match type of H with (if ?c then _ else _) = _ => destruct c; [discriminate|] end. inversion H; subst st'.
    eapply inv_view; [|exact I3]. unfold fail. view_tac.
  - match type of H with (if ?c then _ else _) = _ => destruct c eqn:NB; [|discriminate] end. inversion H; subst st'.
    apply inv_parse_ok; unfold masters, all_jobs, nparse in *; nrm; auto.
    eapply inv_view; [|exact I3]. view_tac.
    rewrite PB3. exact NB.
Qed.

Lemma inv_init n tin tout ultra : inv (init_state n tin tout ultra).
Proof.
  unfold init_state. constructor; unfold all_jobs, nparse; simpl; auto; try constructor; try lia; try discriminate.
Qed.

Theorem inv_step cfg st e st' : cfg_safe cfg -> inv st -> step cfg st e = Some st' -> inv st'.
Proof.
  intros C I H. unfold step in H. destruct (x_failed st); [discriminate|].
  destruct e.
  - eapply inv_input; eauto.
  - eapply inv_eof; eauto.
  - eapply inv_written; eauto.
  - eapply inv_parse0; eauto.
  - eapply inv_parse1; eauto.
  - eapply inv_retr0; eauto.
  - eapply inv_retr1; eauto.
  - eapply inv_retr2; eauto.
  - eapply inv_emit0; eauto.
  - eapply inv_emit1; eauto.
  - eapply inv_reorder; eauto.
  - eapply inv_scan0; eauto.
  - eapply inv_scan1; eauto.
Qed.

Theorem inv_reach cfg n tin tout ultra st : cfg_safe cfg -> reach cfg (init_state n tin tout ultra) st -> inv st.
Proof.
  intros C R. induction R; [apply inv_init|eapply inv_step; eauto].
Qed.

(* Finding F4, positive part: with the offset tests in place no bit stream is ever
   attached outside the live input, and no queued job lies below head_offs. *)
Theorem no_bad_attach cfg n tin tout ultra st :
  cfg_safe cfg -> reach cfg (init_state n tin tout ultra) st ->
  x_bad_attach st = false /\ Forall (fun j => x_head_offs st <= d_off (r_cur j)) (x_retr_q st) /\
  Forall (fun s => x_head_offs st <= d_off s) (x_scan_q st).
Proof.
  intros C R. pose proof (inv_reach _ _ _ _ _ _ C R) as [Ic Ip Ir Is Iu If Ij Il Ie Im Id Ib Iq].
  repeat split; auto. eapply Forall_impl; [|exact Is]. simpl. tauto.
Qed.
