(* Decompression parts of C11 and C13: theorems about the source as it is now. *)
From Coq Require Import List NArith Bool Lia Arith ZifyBool ZifyN ZifyNat.
From LBZ Require Import Gen.Consts SchedX.XState Gen.SchedXTab SchedX.XSet SchedX.XModel SchedX.XLemmas
  SchedX.XInvDefs SchedX.XCount.
Import ListNotations.
Local Open Scope N_scope.

Lemma cnt_reach cfg n tin tout ultra st : reach cfg (init_state n tin tout ultra) st -> cnt st.
Proof. induction 1; [apply cnt_init|eapply cnt_step; eauto]. Qed.

(* conservation: every work unit, output slot and input slot is either free or held by
   exactly one queue element / running task / buffer under way to the writer *)
Lemma C11x_conserve_gen n tin tout ultra st :
  reach gen_cfg (init_state n tin tout ultra) st -> x_failed st = None ->
  x_work_units st + units_held st = x_num_worker st /\
  x_out_slots st + slots_held st = x_total_out st /\
  x_in_slots st + in_held st = x_total_in st.
Proof. intros R NF. destruct (cnt_reach _ _ _ _ _ _ R) as [A B C]. auto. Qed.

(* capacities regenerated from init(): four of the seven queues *)
Lemma C11x_capacity_gen n tin tout ultra st :
  reach gen_cfg (init_state n tin tout ultra) st -> x_failed st = None ->
  let cap f := f (x_total_in st) (x_num_worker st) (x_total_out st) in
  N.of_nat (length (x_input_q st)) <= cap cap_input_q /\
  N.of_nat (length (x_retr_q st)) <= cap cap_retr_q /\
  N.of_nat (length (x_emit_q st)) <= cap cap_emit_q /\
  N.of_nat (length (x_reord_q st)) <= cap cap_reord_q.
Proof.
  intros R NF. destruct (C11x_conserve_gen _ _ _ _ _ R NF) as (A & B & C).
  unfold units_held, slots_held, in_held, cap_input_q, cap_retr_q, cap_emit_q, cap_reord_q in *. cbv zeta. lia.
Qed.

(* when the workers may exit everything has been given back *)
Lemma C11x_final_gen n tin tout ultra st :
  reach gen_cfg (init_state n tin tout ultra) st -> x_failed st = None -> can_terminate st = true ->
  x_work_units st = x_num_worker st /\ x_out_slots st = x_total_out st /\
  x_retr_q st = [] /\ x_emit_q st = [] /\ x_running st = [] /\ x_reord_q st = [] /\ x_outq st = 0 /\
  x_parsing_done st = true /\ x_parse_token st = true.
Proof.
  intros R NF T. destruct (C11x_conserve_gen _ _ _ _ _ R NF) as (A & B & C).
  unfold can_terminate in T. repeat (apply andb_true_iff in T; destruct T as [T ?]).
  assert (W : x_work_units st = x_num_worker st) by lia. assert (S : x_out_slots st = x_total_out st) by lia.
  unfold units_held, slots_held, nemit in *.
  assert (length (x_retr_q st) = 0 /\ length (x_emit_q st) = 0 /\ length (x_running st) = 0 /\ length (x_reord_q st) = 0)%nat by lia.
  destruct H3 as (L1 & L2 & L3 & L4). apply length_zero_iff_nil in L1, L2, L3, L4.
  repeat split; auto. lia.
Qed.

(* C13: number of large buffers alive, linear in the worker count through the
   regenerated slot formulas; nothing depends on the input length *)
Definition big_buffers (st : xstate) : N :=
  in_held st        (* input blocks of in_granul bytes: input_q and blocks still attached *)
  + units_held st   (* decoder states (4*900000 bytes + tables): one per held work unit at most *)
  + slots_held st.  (* output buffers of out_granul bytes *)

Lemma C13x_buffers_gen n small ultra st :
  reach gen_cfg (init_dec n small ultra) st -> x_failed st = None ->
  big_buffers st <= dec_total_in small n + n + dec_total_out small n.
Proof.
  intros R NF. unfold init_dec in R.
  assert (K : consts st = (n, dec_total_in small n, dec_total_out small n)).
  { clear NF. induction R; [reflexivity|]. rewrite (consts_step _ _ _ _ H). exact IHR. }
  unfold consts in K. inversion K as [[K1 K2 K3]].
  destruct (C11x_conserve_gen _ _ _ _ _ R NF) as (A & B & C).
  unfold big_buffers. lia.
Qed.

(* the bound is linear in the worker count (regenerated slot formulas) *)
Lemma C13x_linear_gen small : exists a b, forall n, dec_total_in small n + n + dec_total_out small n = a * n + b.
Proof. destruct small; unfold dec_total_in, dec_total_out; [exists 3, 2|exists 21, 0]; intro n; lia. Qed.
