(* Invariants of the decompression scheduler model: definitions. *)
From Coq Require Import List NArith Bool Lia Arith ZifyBool ZifyN.
From LBZ Require Import Gen.Consts SchedX.XState Gen.SchedXTab SchedX.XSet SchedX.XModel SchedX.XLemmas.
Import ListNotations.
Local Open Scope N_scope.

(* the source has the offset tests at the three sites that put a job into retr_q / scan_q *)
Definition cfg_safe (cfg : xcfg) : Prop :=
  c_requeue_scan_checks_head cfg = true /\ c_scan_job_checks_head cfg = true /\
  c_requeue_retr_checks_head cfg = true.

(* input_q covers [head_offs, tail_offs) contiguously *)
Fixpoint contig (h : N) (q : list inblk) (t : N) : Prop :=
  match q with
  | [] => h = t
  | b :: r => ib_off b = h /\ 0 < ib_size b /\ contig (ib_end b) r t
  end.

Definition run_jobs (r : list cont) : list rjob :=
  flat_map (fun c => match c with CRetr j _ => [j] | _ => [] end) r.
Definition all_jobs (st : xstate) : list rjob := x_retr_q st ++ run_jobs (x_running st).

Definition is_parse (c : cont) : bool := match c with CParse _ => true | _ => false end.
Definition nparse (st : xstate) : nat := length (filter is_parse (x_running st)).

Definition links (id : N) (j : rjob) : bool := optN_eqb (r_link j) (Some id).

(* master-like job: created by the parser, or its candidate has been adopted *)
Definition jm (us : list unord) (j : rjob) : bool :=
  match r_link j with
  | None => true
  | Some id => existsb (fun u => (u_id u =? id) && u_complete u && u_legit u) us
  end.

Definition b2n (b : bool) : nat := if b then 1%nat else 0%nat.

Definition unord_ok (u : unord) : Prop :=
  (u_inq u = true -> dbs_ok (u_end u) = true /\ fst (u_base u) <= d_bit (u_end u) /\ u_legit u = false) /\
  (u_inq u = false -> u_complete u = true) /\ snd (u_base u) = 0.

Definition job_ok (st : xstate) (j : rjob) : Prop :=
  fst (r_base j) <= d_bit (r_cur j) /\ dbs_norm (r_cur j) = true /\ snd (r_base j) = 0 /\
  (forall id, r_link j = Some id -> id < x_next_uid st) /\
  (forall id u, r_link j = Some id -> In u (x_unords st) -> u_id u = id ->
     u_base u = r_base j /\ (u_complete u = false -> u_end u = r_cur j)).

Record inv (st : xstate) : Prop := mkinv {
  i_contig : contig (x_head_offs st) (x_input_q st) (x_tail_offs st);
  i_parser : x_parsing_done st = false -> x_head_offs st <= d_off (x_parser_bs st);
  i_retr : Forall (fun j => x_head_offs st <= d_off (r_cur j)) (x_retr_q st);
  i_scan : Forall (fun s => x_head_offs st <= d_off s /\ dbs_norm s = true) (x_scan_q st);
  i_unord : Forall unord_ok (x_unords st);
  i_ufresh : Forall (fun u => u_id u < x_next_uid st) (x_unords st);
  i_jobs : Forall (job_ok st) (all_jobs st);
  i_links : forall id, (length (filter (links id) (all_jobs st)) <= 1)%nat;
  i_excl : (b2n (x_parse_token st) + nparse st + length (filter (jm (x_unords st)) (all_jobs st)) <= 1)%nat;
  i_runm : Forall (fun j => jm (x_unords st) j = true -> x_head_offs st <= d_off (r_cur j)) (run_jobs (x_running st));
  i_done : x_parsing_done st = true -> nparse st = 0%nat /\ x_parse_token st = true;
  i_noassert : x_bad_attach st = false;
  i_unodup : NoDup (map u_id (x_unords st))
}.

Inductive reach (cfg : xcfg) (s0 : xstate) : xstate -> Prop :=
| reach_init : reach cfg s0 s0
| reach_step st e st' : reach cfg s0 st -> step cfg st e = Some st' -> reach cfg s0 st'.

Lemma run_reach cfg s0 evs st : run cfg s0 evs = Some st -> reach cfg s0 st.
Proof.
  intro H. assert (G : forall s, reach cfg s0 s -> run cfg s evs = Some st -> reach cfg s0 st).
  { clear H. induction evs as [|e r IH]; simpl; intros s Hs H.
    - inversion H; subst; auto.
    - destruct (step cfg s e) eqn:E; [|discriminate]. eapply IH; [|exact H]. econstructor; eauto. }
  eapply G; eauto. constructor.
Qed.

Lemma reach_run cfg s0 st : reach cfg s0 st -> exists evs, run cfg s0 evs = Some st.
Proof.
  induction 1 as [|st e st' _ [evs IH] Hs].
  - exists []; reflexivity.
  - exists (evs ++ [e]). revert IH. generalize s0. induction evs as [|a r IHr]; simpl; intros s IH.
    + inversion IH; subst. rewrite Hs. reflexivity.
    + destruct (step cfg s a); [|discriminate]. apply IHr; auto.
Qed.
