(* Positions: the model order on (bit, sub) is isomorphic to the C order on
   struct position (major, minor) for every input block size that is a multiple of 4
   (W = in_granul/4 words per block): major = word / W,
   minor = ((word mod W) << 32) + (bit_offset << 27) + sub, sub < 2^27. *)
From Coq Require Import NArith Lia ZifyN.
From LBZ Require Import SchedX.XState Gen.SchedXTab SchedX.XLemmas.
Local Open Scope N_scope.

Definition c_pos (W : N) (p : pos) : pos :=
  let word := fst p / 32 in
  (word / W, (word mod W) * 2 ^ 32 + (fst p mod 32) * 2 ^ 27 + snd p).

Lemma pos_iso W p q : 0 < W -> snd p < 2 ^ 27 -> snd q < 2 ^ 27 ->
  (pos_lt (c_pos W p) (c_pos W q) = true <-> lexlt p q).
Proof.
  intros HW Hp Hq. rewrite pos_lt_spec. unfold lexlt, c_pos. destruct p as [a s], q as [b t]; simpl in *.
  pose proof (N.div_mod a 32 ltac:(lia)) as A1. pose proof (N.mod_lt a 32 ltac:(lia)) as A2.
  pose proof (N.div_mod b 32 ltac:(lia)) as B1. pose proof (N.mod_lt b 32 ltac:(lia)) as B2.
  set (wa := a / 32) in *. set (wb := b / 32) in *. set (ra := a mod 32) in *. set (rb := b mod 32) in *.
  pose proof (N.div_mod wa W ltac:(lia)) as C1. pose proof (N.mod_lt wa W ltac:(lia)) as C2.
  pose proof (N.div_mod wb W ltac:(lia)) as D1. pose proof (N.mod_lt wb W ltac:(lia)) as D2.
  set (ja := wa / W) in *. set (jb := wb / W) in *. set (ma := wa mod W) in *. set (mb := wb mod W) in *.
  change (2 ^ 32) with 4294967296 in *. change (2 ^ 27) with 134217728 in *.
  split; intro H; nia.
Qed.
