(* Liveness of the decompression scheduler: the invariant [lrs] (XLiveDefs.v) is inductive.

     lr_ch  the buffers of a line are contiguous: for every position (b, n) of an emit-stage
            job or of a buffer in reord_q and every k < n, the buffer (b, k) with status MORE
            waits in reord_q, or the order has moved past (b, k)
     lr_rs  EMIT_THRESH output slots stay reserved for what is at or before the head of
            order_q: free slots + buffers at the writer + buffers of reord_q and running emit
            jobs that are at or before the head

   Hypotheses of the step theorem: [inv st] (the parser runs only while parsing_done is
   false; retrieve jobs have sub-position 0), [own st] (only its [oshape] part: heads of
   order_q sorted by bit position and <= x_next; used by do_reorder), [ev_next st e] (a POk
   label lies >= 32 bits beyond the block confirmed last) and [x_failed st' = None] (a
   failing do_reorder drops its buffer).  cfg_safe, cfg_drops, cnt, sown are not needed. *)
From Coq Require Import List NArith Bool Lia Arith ZifyBool ZifyN ZifyNat Sorted.
From LBZ Require Import Gen.Consts SchedX.XState Gen.SchedXTab SchedX.XSet SchedX.XModel SchedX.XLemmas
  SchedX.XFrame SchedX.XInvDefs SchedX.XOps SchedX.XInv SchedX.XInv2 SchedX.XInv3 SchedX.XInv4 SchedX.XOracle
  SchedX.XCount SchedX.XOwn SchedX.XOwnProofs SchedX.XLiveDefs.
Import ListNotations.
Local Open Scope N_scope.

(* ---- running emit jobs ------------------------------------------------------------------- *)
Definition cemits (c : cont) : list ejob := match c with CEmit e => [e] | _ => [] end.
Definition emits (r : list cont) : list ejob := flat_map cemits r.

Lemma emits_app a b : emits (a ++ b) = emits a ++ emits b.
Proof. unfold emits. apply flat_map_app. Qed.

Lemma emits_cons c r : emits (c :: r) = cemits c ++ emits r.
Proof. reflexivity. Qed.

Lemma res_len st r :
  length (filter (res_cont st) r) = length (filter (fun e => atmostb st (e_base e)) (emits r)).
Proof.
  induction r as [|c r IH]; [reflexivity|]. rewrite emits_cons.
  destruct c; simpl; auto. destruct (atmostb st (e_base e)); simpl; auto.
Qed.

Lemma cejobs_cemits c : cejobs c = [] -> cemits c = [].
Proof. destruct c; simpl; auto. Qed.

(* ---- the order only moves forward ------------------------------------------------------------ *)
Definition omono (st st' : xstate) : Prop :=
  (forall x, passed st x -> passed st' x) /\ (forall x, atmostb st x = true -> atmostb st' x = true).

Lemma omono_same st st' :
  x_order_q st' = x_order_q st -> x_next st' = x_next st -> x_parsing_done st' = x_parsing_done st -> omono st st'.
Proof. unfold omono, passed, atmostb. intros -> -> ->. auto. Qed.

(* do_parse confirms a block: x_next moves to the new head, which is pushed at the back *)
Lemma omono_push st st' p lv crc :
  x_parsing_done st = false -> x_next st < p ->
  x_order_q st' = x_order_q st ++ [mkhead (p, 0) lv crc] -> x_next st' = p -> x_parsing_done st' = x_parsing_done st ->
  omono st st'.
Proof.
  intros PD LT EO EN ED. split.
  - intros x [[A|A] B]; [|congruence]. split; [left; rewrite EN; lia|].
    intros h Hh. rewrite EO in Hh. apply in_app_or in Hh. destruct Hh as [Hh|[<-|[]]]; auto.
    unfold lexlt. simpl. lia.
  - intros x. unfold atmostb. rewrite EO, EN, ED, PD. destruct (x_order_q st) as [|h r]; simpl; auto.
    rewrite orb_false_r. intro A. apply N.leb_le in A. apply pos_le_spec. unfold lexlt. simpl. lia.
Qed.

Lemma omono_done st st' :
  x_order_q st' = x_order_q st -> x_next st' = x_next st -> x_parsing_done st' = true -> omono st st'.
Proof.
  intros EO EN ED. split.
  - intros x [A B]. split; [right; auto|rewrite EO; auto].
  - intros x. unfold atmostb. rewrite EO, EN, ED. destruct (x_order_q st); auto. intros _. apply orb_true_r.
Qed.

(* do_reorder consumes the buffer at the head *)
Lemma omono_pop st st' ord rest :
  StronglySorted N.lt (map hb (x_order_q st)) -> Forall (fun h => hb h <= x_next st) (x_order_q st) ->
  x_order_q st = ord :: rest ->
  (x_order_q st' = rest \/ exists a b, x_order_q st' = mkhead (fst (h_base ord), snd (h_base ord) + 1) a b :: rest) ->
  x_next st' = x_next st -> x_parsing_done st' = x_parsing_done st -> omono st st'.
Proof.
  intros SRT LEN OQ EO EN ED. rewrite OQ in SRT, LEN. simpl in SRT.
  assert (LO : hb ord <= x_next st) by (inversion LEN; auto).
  split.
  - intros x [A B]. rewrite OQ in B. split; [rewrite EN, ED; exact A|].
    intros h Hh. destruct EO as [EO|(a & b & EO)]; rewrite EO in Hh.
    + apply B. right. exact Hh.
    + destruct Hh as [<-|Hh]; [|apply B; right; exact Hh].
      specialize (B ord (or_introl eq_refl)). unfold lexlt in *. simpl. lia.
  - intros x. unfold atmostb. rewrite OQ, EN, ED. intro A. apply pos_le_spec in A.
    assert (R : match rest with [] => (fst x <=? x_next st) || x_parsing_done st | h :: _ => pos_le x (h_base h) end = true).
    { destruct rest as [|h' r'].
      - apply orb_true_iff. left. apply N.leb_le. unfold lexlt, hb in *. lia.
      - pose proof (sorted_head_lt _ _ (hb h') SRT (or_introl eq_refl)) as K.
        apply pos_le_spec. unfold lexlt, hb in *. lia. }
    destruct EO as [EO|(a & b & EO)]; rewrite EO; [exact R|].
    apply pos_le_spec. unfold lexlt in *. simpl. lia.
Qed.

Lemma atmost_len_mono {A} (f : A -> pos) st st' l :
  (forall x, atmostb st x = true -> atmostb st' x = true) ->
  (length (filter (fun a => atmostb st (f a)) l) <= length (filter (fun a => atmostb st' (f a)) l))%nat.
Proof. intro M. apply filter_len_mono. intros x _. apply M. Qed.

(* ---- transfer: reord_q and the running emit jobs stay, emit-stage jobs may appear at (b, 0) ----- *)
Lemma lrs_keep st st' :
  omono st st' ->
  x_total_out st' = x_total_out st -> x_reord_q st' = x_reord_q st ->
  x_out_slots st + x_outq st <= x_out_slots st' + x_outq st' ->
  (forall e, In e (estage st') -> In e (estage st) \/ snd (e_base e) = 0) ->
  emits (x_running st') = emits (x_running st) ->
  lrs st -> lrs st'.
Proof.
  intros [MP MA] ET ER ES EE EM [CH RS]. constructor.
  - intros x k Hx Hk. unfold linepos in Hx. rewrite ER in Hx. apply in_app_or in Hx.
    assert (X : In x (linepos st)).
    { unfold linepos. apply in_or_app. destruct Hx as [Hx|Hx]; [|right; exact Hx].
      apply in_map_iff in Hx. destruct Hx as (e & <- & He). destruct (EE e He) as [K|K]; [left; apply in_map; exact K|].
      exfalso. rewrite K in Hk. exact (N.nlt_0_r _ Hk). }
    destruct (CH x k X Hk) as [(o & A & B)|P]; [left; exists o; rewrite ER; auto|right; apply MP; exact P].
  - intros T. rewrite ET in T. specialize (RS T). unfold rcount in *. rewrite ER, !res_len, EM in *.
    pose proof (atmost_len_mono o_base st st' (x_reord_q st) MA) as L1.
    pose proof (atmost_len_mono e_base st st' (emits (x_running st)) MA) as L2.
    lia.
Qed.

Lemma lrs_fields_m st st' :
  omono st st' ->
  x_total_out st' = x_total_out st -> x_reord_q st' = x_reord_q st -> x_out_slots st' = x_out_slots st ->
  x_outq st' = x_outq st -> x_emit_q st' = x_emit_q st -> x_running st' = x_running st ->
  lrs st -> lrs st'.
Proof.
  intros M E1 E2 E3 E4 E5 E6. apply lrs_keep; auto.
  - rewrite E3, E4. apply N.le_refl.
  - intros e He. left. unfold estage in *. rewrite E5, E6 in He. exact He.
  - rewrite E6. reflexivity.
Qed.

Lemma lrs_fields st st' :
  x_order_q st' = x_order_q st -> x_next st' = x_next st -> x_parsing_done st' = x_parsing_done st ->
  x_total_out st' = x_total_out st -> x_reord_q st' = x_reord_q st -> x_out_slots st' = x_out_slots st ->
  x_outq st' = x_outq st -> x_emit_q st' = x_emit_q st -> x_running st' = x_running st ->
  lrs st -> lrs st'.
Proof. intros A B C. apply lrs_fields_m. apply omono_same; auto. Qed.

Lemma lrs_del c st s1 : cejobs c = [] -> del_run c st = Some s1 -> lrs st -> lrs s1.
Proof.
  intros CJ D. destruct (del_run_spec _ _ _ D) as (l1 & l2 & E & ->).
  apply lrs_keep; xs; auto.
  - apply omono_same; reflexivity.
  - apply N.le_refl.
  - intros e He. left. unfold estage in *. xs in He. rewrite E, run_ejobs_app, run_ejobs_cons, CJ.
    rewrite run_ejobs_app in He. exact He.
  - rewrite E, !emits_app, emits_cons, (cejobs_cemits _ CJ). reflexivity.
Qed.

Lemma lrs_add c st : (forall e, In e (cejobs c) -> snd (e_base e) = 0) -> cemits c = [] -> lrs st -> lrs (add_run c st).
Proof.
  intros CJ CE. apply lrs_keep; unfold add_run; xs; auto.
  - apply omono_same; reflexivity.
  - apply N.le_refl.
  - intros e He. unfold estage in *. xs in He. rewrite run_ejobs_cons in He.
    apply in_app_or in He. destruct He as [He|He]; [left; apply in_or_app; auto|].
    apply in_app_or in He. destruct He as [He|He]; [right; auto|left; apply in_or_app; auto].
  - rewrite emits_cons, CE. reflexivity.
Qed.

Ltac lnrm := unfold add_run, give_unit, fail; xs; autorewrite with xf; xs.
Ltac fields_tac L := eapply lrs_fields; [..|exact L]; lnrm; reflexivity.

(* ---- events that do not touch what the invariant looks at ------------------------------------ *)
Lemma lrs_input sz m st st' : lrs st -> input sz m st = Some st' -> lrs st'.
Proof.
  unfold input. intros I H. match type of H with (if ?c then _ else _) = _ => destruct c; [|discriminate] end.
  destruct (x_parsing_done st); inversion H; subst; auto. fields_tac I.
Qed.

Lemma lrs_eof st st' : lrs st -> reader_eof st = Some st' -> lrs st'.
Proof.
  unfold reader_eof. intros I H. destruct (x_eof st); [discriminate|]. inversion H; subst. fields_tac I.
Qed.

Lemma lrs_written st st' : lrs st -> written st = Some st' -> lrs st'.
Proof.
  unfold written. intros I H. destruct (0 <? x_outq st) eqn:C; [|discriminate]. inversion H; subst.
  apply N.ltb_lt in C.
  eapply lrs_keep; [..|exact I]; xs; auto.
  - apply omono_same; reflexivity.
  - lia.
Qed.

Lemma lrs_parse0 st st' : lrs st -> parse0 st = Some st' -> lrs st'.
Proof.
  unfold parse0. intros I H. destruct (selects TParse st); [|discriminate].
  set (st1 := set_work_units (N.pred (x_work_units st)) (set_parse_token false st)) in *.
  destruct (attach (x_parser_bs st1) st1) as [st2 att] eqn:A.
  assert (E2 : st2 = fst (attach (x_parser_bs st1) st1)) by (rewrite A; reflexivity).
  inversion H; subst st'. clear H. rewrite E2. subst st1.
  apply lrs_add; [intros e []|reflexivity|]. fields_tac I.
Qed.

Lemma lrs_scan0 st st' : lrs st -> scan0 st = Some st' -> lrs st'.
Proof.
  unfold scan0. intros I H. destruct (selects TScan st); [|discriminate].
  destruct (qmin d_pos pos_lt (x_scan_q st)) as [s|]; [|discriminate].
  destruct (remove_one dbs_eqb s (x_scan_q st)) as [q|]; [|discriminate].
  set (st1 := set_scan_q q (set_work_units (N.pred (x_work_units st)) st)) in *.
  destruct (attach s st1) as [st2 att] eqn:A.
  assert (E2 : st2 = fst (attach s st1)) by (rewrite A; reflexivity).
  inversion H; subst st'. clear H. rewrite E2. subst st1.
  apply lrs_add; [intros e []|reflexivity|]. fields_tac I.
Qed.

Lemma lrs_retr0 j st st' : lrs st -> retr0 j st = Some st' -> lrs st'.
Proof.
  unfold retr0. intros I H. destruct (selects TRetrieve st); [|discriminate].
  destruct (take_min rjob_eqb rkey j (x_retr_q st)) as [q|] eqn:T; [|discriminate].
  set (st1 := set_retr_q q st) in *.
  destruct (attach (r_cur j) st1) as [st2 att] eqn:A.
  assert (E2 : st2 = fst (attach (r_cur j) st1)) by (rewrite A; reflexivity).
  inversion H; subst st'. clear H. rewrite E2. subst st1.
  apply lrs_add; [intros e []|reflexivity|]. fields_tac I.
Qed.

Lemma lrs_retr2 e st st' : lrs st -> retr2 e st = Some st' -> lrs st'.
Proof.
  unfold retr2. intros I H. destruct (del_run (CRetr2 e) st) as [s1|] eqn:D; [|discriminate]. inversion H; subst.
  destruct (del_run_spec _ _ _ D) as (l1 & l2 & E & ->).
  eapply lrs_keep; [..|exact I]; xs; auto.
  - apply omono_same; reflexivity.
  - apply N.le_refl.
  - intros x Hx. left. unfold estage in *. xs in Hx. rewrite E, run_ejobs_app, run_ejobs_cons.
    rewrite run_ejobs_app in Hx. simpl in *. rewrite !in_app_iff in *. simpl. tauto.
  - rewrite E, !emits_app, emits_cons. reflexivity.
Qed.

(* ---- do_scan ------------------------------------------------------------------------------------ *)
Lemma lrs_scan1 cfg s att found s' more st st' : lrs st -> scan1 cfg s att found s' more st = Some st' -> lrs st'.
Proof.
  unfold scan1. intros I H. destruct (del_run (CScan s att) st) as [s1|] eqn:D; [|discriminate].
  assert (I1 : lrs s1) by (exact (lrs_del (CScan s att) _ _ eq_refl D I)).
  set (aend := att_end att s1) in *. clearbody aend.
  assert (I2 : lrs (detach att s1)) by (fields_tac I1).
  set (s2 := detach att s1) in *. clearbody s2. clear D I I1.
  repeat match type of H with context [if ?c then _ else _] => destruct c end; inversion H; subst; fields_tac I2.
Qed.

(* ---- do_retrieve --------------------------------------------------------------------------------- *)
Lemma lrs_retr1 cfg j att rv cur st st' : inv st -> lrs st -> retr1 cfg j att rv cur st = Some st' -> lrs st'.
Proof.
  unfold retr1. intros IV I H. destruct (del_run (CRetr j att) st) as [s1|] eqn:D; [|discriminate].
  assert (Z : snd (r_base j) = 0).
  { destruct (del_run_spec _ _ _ D) as (l1 & l2 & E & _). pose proof (i_jobs _ IV) as IJ. rewrite Forall_forall in IJ.
    apply (IJ j). unfold all_jobs. apply in_or_app. right. rewrite E, run_jobs_app, run_jobs_cons. simpl.
    apply in_or_app. right. left. reflexivity. }
  assert (I1 : lrs s1) by (exact (lrs_del (CRetr j att) _ _ eq_refl D I)).
  set (aend := att_end att s1) in *. clearbody aend.
  match type of H with (if ?c then _ else _) = _ => destruct c; [|discriminate] end.
  assert (I2 : lrs (detach att s1)) by (fields_tac I1).
  set (s2 := detach att s1) in *. clearbody s2. clear D I I1 IV. cbv zeta in H.
  repeat match type of H with context [if ?c then _ else _] => destruct c end; try destruct (r_link j); inversion H; subst;
    try (apply lrs_add; [intros e0 [<-|[]]; exact Z|reflexivity|]); fields_tac I2.
Qed.

(* ---- do_emit ---------------------------------------------------------------------------------------- *)
Lemma linepos_incl st st' :
  (forall e, In e (estage st') -> In e (estage st)) -> (forall o, In o (x_reord_q st') -> In o (x_reord_q st)) ->
  forall x, In x (linepos st') -> In x (linepos st).
Proof.
  intros HE HO x Hx. unfold linepos in *. apply in_app_or in Hx. apply in_or_app.
  destruct Hx as [Hx|Hx]; apply in_map_iff in Hx; destruct Hx as (y & <- & Hy); [left|right]; apply in_map; auto.
Qed.

Lemma lrs_emit0 st st' : lrs st -> emit0 st = Some st' -> lrs st'.
Proof.
  unfold emit0. intros [CH RS] H. destruct (selects TEmit st) eqn:SEL; [|discriminate].
  apply selects_ready in SEL. simpl in SEL. unfold can_emit in SEL.
  destruct (qmin e_base pos_lt (x_emit_q st)) as [e|] eqn:Q; [|discriminate].
  destruct (remove_one ejob_eqb e (x_emit_q st)) as [q|] eqn:R; [|discriminate]. inversion H; subst st'; clear H.
  destruct (remove_one_split _ ejob_eqb_eq _ _ _ R) as (l1 & l2 & EQ & Eq).
  match goal with |- lrs ?s => set (st' := s) end.
  assert (M : omono st st') by (apply omono_same; reflexivity). destruct M as [MP MA].
  constructor.
  - intros x k Hx Hk.
    assert (X : In x (linepos st)).
    { revert Hx. apply linepos_incl; [|subst st'; unfold add_run; xs; auto].
      intros e0. subst st'. unfold estage, add_run. xs. rewrite run_ejobs_cons, EQ, Eq. simpl.
      rewrite !in_app_iff. simpl. rewrite ?in_app_iff. tauto. }
    destruct (CH x k X Hk) as [(o & A & B)|P]; [left; exists o; auto|right; apply MP; exact P].
  - intros T. specialize (RS T). unfold rcount in *.
    replace (x_reord_q st') with (x_reord_q st) by reflexivity.
    replace (x_outq st') with (x_outq st) by reflexivity.
    replace (x_out_slots st') with (N.pred (x_out_slots st)) by reflexivity.
    replace (x_running st') with (CEmit e :: x_running st) by reflexivity.
    rewrite !res_len in *. rewrite emits_cons. simpl cemits. simpl app.
    pose proof (atmost_len_mono o_base st st' (x_reord_q st) MA) as L1.
    pose proof (atmost_len_mono e_base st st' (emits (x_running st)) MA) as L2.
    apply andb_true_iff in SEL. destruct SEL as [_ SEL]. apply orb_true_iff in SEL. destruct SEL as [SEL|SEL].
    + apply N.ltb_lt in SEL. lia.
    + apply andb_true_iff in SEL. destruct SEL as [SEL S3]. apply andb_true_iff in SEL. destruct SEL as [S1 S2].
      apply N.ltb_lt in S1. unfold peek_emit in S3. rewrite Q in S3. unfold order_head in S3.
      assert (AE : atmostb st' (e_base e) = true).
      { apply MA. unfold atmostb. destruct (x_order_q st); [discriminate|exact S3]. }
      simpl filter. rewrite AE. simpl length. lia.
Qed.

(* the running emit job [e] hands its buffer [ob] to reord_q and is queued again at the next
   sub-position (status MORE) or finishes *)
Lemma lrs_emit1_gen st st' e l1 l2 ob :
  lrs st -> omono st st' -> x_running st = l1 ++ CEmit e :: l2 -> x_running st' = l1 ++ l2 ->
  o_base ob = e_base e -> x_reord_q st' = ob :: x_reord_q st ->
  x_total_out st' = x_total_out st -> x_out_slots st' = x_out_slots st -> x_outq st' = x_outq st ->
  (forall e0, In e0 (x_emit_q st') -> In e0 (x_emit_q st) \/
              (o_status ob = MORE /\ e_base e0 = (fst (e_base e), snd (e_base e) + 1))) ->
  lrs st'.
Proof.
  intros [CH RS] [MP MA] E E' OB RQ ET EO EQ EM.
  assert (EL : In (e_base e) (linepos st)).
  { unfold linepos, estage. apply in_or_app. left. apply in_map. apply in_or_app. right.
    rewrite E, run_ejobs_app, run_ejobs_cons. simpl. apply in_or_app. right. left. reflexivity. }
  assert (LIFT : forall x k, In x (linepos st) -> k < snd x ->
            (exists o, In o (x_reord_q st') /\ o_base o = (fst x, k) /\ o_status o = MORE) \/ passed st' (fst x, k)).
  { intros x k X Hk. destruct (CH x k X Hk) as [(o & A & B)|P]; [left; exists o; rewrite RQ; split; [right; exact A|exact B]|right; apply MP; exact P]. }
  constructor.
  - intros x k Hx Hk. unfold linepos in Hx. apply in_app_or in Hx. destruct Hx as [Hx|Hx].
    + apply in_map_iff in Hx. destruct Hx as (e0 & <- & He). unfold estage in He. rewrite E' in He.
      apply in_app_or in He. destruct He as [He|He].
      * destruct (EM e0 He) as [K|(SM & K)].
        -- apply LIFT; auto. unfold linepos, estage. apply in_or_app. left. apply in_map. apply in_or_app. left. exact K.
        -- rewrite K in *. simpl in *. destruct (N.eq_dec k (snd (e_base e))) as [->|NE].
           ++ left. exists ob. split; [rewrite RQ; left; reflexivity|]. split; [|exact SM]. rewrite OB. destruct (e_base e); reflexivity.
           ++ apply (LIFT (e_base e) k EL). lia.
      * apply LIFT; auto. unfold linepos, estage. apply in_or_app. left. apply in_map. apply in_or_app. right.
        rewrite E, run_ejobs_app, run_ejobs_cons. rewrite run_ejobs_app in He. rewrite !in_app_iff in *. tauto.
    + rewrite RQ in Hx. simpl in Hx. destruct Hx as [<-|Hx].
      * rewrite OB in *. apply LIFT; auto.
      * apply LIFT; auto. unfold linepos. apply in_or_app. right. exact Hx.
  - intros T. rewrite ET in T. specialize (RS T). unfold rcount in *. rewrite EO, EQ, RQ, !res_len in *.
    rewrite E, E', !emits_app, emits_cons in *. simpl cemits in RS. simpl app in RS.
    rewrite !filter_app, !app_length in *. simpl filter in *. rewrite OB.
    pose proof (atmost_len_mono o_base st st' (x_reord_q st) MA) as L1.
    pose proof (atmost_len_mono e_base st st' (emits l1) MA) as L2.
    pose proof (atmost_len_mono e_base st st' (emits l2) MA) as L3.
    pose proof (MA (e_base e)) as L4.
    destruct (atmostb st (e_base e)); [rewrite (L4 eq_refl)|destruct (atmostb st' (e_base e))]; simpl length in *; lia.
Qed.

Lemma lrs_emit1 e rv size crc blksz st st' : lrs st -> emit1 e rv size crc blksz st = Some st' -> lrs st'.
Proof.
  unfold emit1. intros I H. destruct (del_run (CEmit e) st) as [s1|] eqn:D; [|discriminate].
  destruct (del_run_spec _ _ _ D) as (l1 & l2 & E & ->).
  match type of H with (if ?c then _ else _) = _ => destruct c; [|discriminate] end.
  destruct (rv =? MORE) eqn:RV; inversion H; subst st'; clear H.
  - apply N.eqb_eq in RV.
    eapply (lrs_emit1_gen st _ e l1 l2 (mkoblk (e_base e) size crc blksz rv 0)); eauto; xs; try reflexivity;
      try (apply omono_same; reflexivity).
    intros e0 [<-|K]; [right; split; [exact RV|reflexivity]|left; exact K].
  - eapply (lrs_emit1_gen st _ e l1 l2 (mkoblk (e_base e) size crc blksz rv (e_end e))); eauto; unfold give_unit; xs; try reflexivity;
      try (apply omono_same; reflexivity); try (intros e0 K; left; exact K).
Qed.

(* ---- do_reorder ---------------------------------------------------------------------------------------- *)
(* the buffer [o] leaves reord_q for an output slot or the writer; the order has passed it *)
Lemma lrs_remove st st' o q :
  lrs st -> remove_one oblk_eqb o (x_reord_q st) = Some q -> x_reord_q st' = q ->
  omono st st' -> passed st' (o_base o) ->
  estage st' = estage st -> x_running st' = x_running st -> x_total_out st' = x_total_out st ->
  x_out_slots st + x_outq st + 1 <= x_out_slots st' + x_outq st' -> lrs st'.
Proof.
  intros [CH RS] R RQ [MP MA] PO ES ER ET LE.
  destruct (remove_one_split _ oblk_eqb_eq _ _ _ R) as (l1 & l2 & EQ & Eq).
  constructor.
  - intros x k Hx Hk.
    assert (X : In x (linepos st)).
    { revert Hx. apply linepos_incl; [rewrite ES; auto|]. rewrite RQ. intros y Hy. eapply remove_one_In; eauto using oblk_eqb_eq. }
    destruct (CH x k X Hk) as [(o' & A & B & C)|P]; [|right; apply MP; exact P].
    rewrite EQ in A. apply in_app_or in A. simpl in A.
    assert (K : o' = o \/ In o' q) by (rewrite Eq; rewrite in_app_iff; destruct A as [A|[A|A]]; auto).
    destruct K as [->|K]; [right; rewrite <- B; exact PO|left; exists o'; rewrite RQ; auto].
  - intros T. rewrite ET in T. specialize (RS T). unfold rcount in *. rewrite ER, RQ, !res_len in *.
    rewrite (remove_one_filter_len _ oblk_eqb_eq (fun o0 => atmostb st (o_base o0)) _ _ _ R) in RS.
    pose proof (atmost_len_mono o_base st st' q MA) as L1.
    pose proof (atmost_len_mono e_base st st' (emits (x_running st)) MA) as L2.
    destruct (atmostb st (o_base o)); lia.
Qed.

Lemma lrs_reorder st st' : x_failed st' = None -> own st -> lrs st -> reorder st = Some st' -> lrs st'.
Proof.
  unfold reorder. intros NF' [_ [SRT0 LEN0]] I H. destruct (selects TReorder st) eqn:SEL; [|discriminate].
  apply selects_ready in SEL. simpl in SEL. unfold can_reorder in SEL.
  destruct (qmin o_base pos_lt (x_reord_q st)) as [o|] eqn:Q; [|discriminate].
  destruct (remove_one oblk_eqb o (x_reord_q st)) as [q|] eqn:R; [|discriminate].
  xs in H.
  destruct (x_order_q st) as [|ord rest] eqn:OQ.
  { (* nothing confirmed: parsing is done *)
    inversion H; subst st'; clear H.
    assert (PD : x_parsing_done st = true).
    { rewrite ?OQ in SEL. simpl in SEL. bool_hyps. repeat match goal with K : _ || _ = true |- _ => apply orb_true_iff in K; destruct K as [K|K] end; bool_hyps; auto; discriminate. }
    eapply (lrs_remove st _ o q); eauto; xs; try reflexivity.
    - apply omono_same; reflexivity.
    - split; xs; [right; exact PD|rewrite OQ; intros h []].
    - lia. }
  assert (SRT : StronglySorted N.lt (hb ord :: map hb rest)) by exact SRT0.
  assert (LEN : Forall (fun h => hb h <= x_next st) (ord :: rest)) by exact LEN0.
  assert (LO : hb ord <= x_next st) by (inversion LEN; auto).
  assert (RB : forall h, In h rest -> hb ord < hb h).
  { intros h Hh. exact (sorted_head_lt _ _ _ SRT (in_map hb _ _ Hh)). }
  destruct (pos_lt (o_base o) (h_base ord)) eqn:LT.
  { (* a bogus buffer is rejected *)
    inversion H; subst st'; clear H.
    apply pos_lt_spec in LT.
    eapply (lrs_remove st _ o q); eauto; xs; try reflexivity.
    - apply omono_same; reflexivity.
    - split; xs.
      + left. unfold lexlt, hb in *. lia.
      + rewrite OQ. intros h [<-|Hh]; [exact LT|]. specialize (RB h Hh). unfold lexlt, hb in *. lia.
    - lia. }
  (* the buffer at the head of the order *)
  assert (EB : o_base o = h_base ord).
  { apply pos_lt_total; auto. unfold peek_reord, order_head in SEL. rewrite Q, ?OQ in SEL. simpl in SEL.
    bool_hyps. repeat match goal with K : _ || _ = true |- _ => apply orb_true_iff in K; destruct K as [K|K] end; bool_hyps;
      unfold pos_le in *; bool_hyps; auto; discriminate. }
  set (incr := if x_reord_offs st <? o_end o then o_end o - x_reord_offs st else 0) in *.
  set (status := if h_bs100k ord * 100000 <? o_blksz o then E_ERR_OVERFLOW else o_status o) in *.
  destruct (status =? MORE) eqn:SM.
  { (* one more buffer of the block: the head moves on *)
    inversion H; subst st'; clear H.
    eapply (lrs_remove st _ o q); eauto; xs; try reflexivity.
    - eapply omono_pop; [rewrite OQ; exact SRT|rewrite OQ; exact LEN|exact OQ| |reflexivity|reflexivity].
      right. xs. eauto.
    - split; xs.
      + left. rewrite EB. exact LO.
      + intros h [<-|Hh]; [rewrite EB; unfold lexlt; simpl; lia|].
        specialize (RB h Hh). rewrite EB. unfold lexlt, hb in *. lia.
    - lia. }
  (* the last buffer of the block: the head leaves the order *)
  set (status2 := if (status =? OK) && negb (o_crc o =? h_crc ord) then E_ERR_BLKCRC else status) in *.
  destruct (status2 =? OK) eqn:SOK; inversion H; subst st'; clear H; [|unfold fail in NF'; xs in NF'; discriminate].
  eapply (lrs_remove st _ o q); eauto; xs; try reflexivity.
  - eapply omono_pop; [rewrite OQ; exact SRT|rewrite OQ; exact LEN|exact OQ| |reflexivity|reflexivity].
    left. xs. reflexivity.
  - split; xs.
    + left. rewrite EB. exact LO.
    + intros h Hh. specialize (RB h Hh). rewrite EB. unfold lexlt, hb in *. lia.
  - lia.
Qed.

(* ---- do_parse ---------------------------------------------------------------------------------------------- *)
Lemma lrs_parse_finish cfg g s : lrs s -> lrs (parse_finish cfg g s).
Proof.
  intro I. unfold parse_finish. set (pb := mkdbs _ _). clearbody pb.
  match goal with |- context [if ?c then _ else _] => destruct c end.
  - eapply lrs_fields_m; [apply omono_done|..|exact I]; lnrm; reflexivity.
  - destruct (c_finish_drops_link cfg); (eapply lrs_fields_m; [apply omono_done|..|exact I]; lnrm; reflexivity).
Qed.

Lemma parse_ok_fields cfg lv crc s :
  x_order_q (parse_ok cfg lv crc s) = x_order_q s ++ [mkhead (d_pos (x_parser_bs s)) lv crc] /\
  x_next (parse_ok cfg lv crc s) = x_next s /\ x_parsing_done (parse_ok cfg lv crc s) = x_parsing_done s /\
  x_total_out (parse_ok cfg lv crc s) = x_total_out s /\ x_reord_q (parse_ok cfg lv crc s) = x_reord_q s /\
  x_out_slots (parse_ok cfg lv crc s) = x_out_slots s /\ x_outq (parse_ok cfg lv crc s) = x_outq s /\
  x_emit_q (parse_ok cfg lv crc s) = x_emit_q s /\ x_running (parse_ok cfg lv crc s) = x_running s.
Proof.
  unfold parse_ok.
  match goal with |- context [match ?c with Some _ => _ | None => _ end] => destruct c end; [|lnrm; repeat split; reflexivity].
  match goal with |- context [if ?c then _ else _] => destruct c end; [|lnrm; repeat split; reflexivity].
  destruct (u_complete u); lnrm; repeat split; reflexivity.
Qed.

Lemma lrs_parse1 cfg att r st st' :
  inv st -> ev_next st (EvParse1 att r) -> lrs st -> parse1 cfg att r st = Some st' -> lrs st'.
Proof.
  intros IV EV I H. unfold parse1 in H.
  destruct (del_run (CParse att) st) as [s1|] eqn:D; [|discriminate].
  destruct (inv_del_parse _ _ _ D IV) as (_ & _ & _ & _ & PD1).
  assert (I1 : lrs s1) by (exact (lrs_del (CParse att) _ _ eq_refl D I)).
  assert (NX1 : x_next s1 = x_next st) by (destruct (del_run_spec _ _ _ D) as (l1 & l2 & _ & ->); reflexivity).
  set (aend := att_end att s1) in *. clearbody aend.
  match type of H with (if ?c then _ else _) = _ => destruct c; [|discriminate] end.
  assert (I2 : lrs (detach att s1)) by (fields_tac I1).
  assert (F2 : x_parsing_done (detach att s1) = false /\ x_next (detach att s1) = x_next st) by (autorewrite with xf; auto).
  set (s2 := detach att s1) in *. clearbody s2. clear D I I1 IV PD1 NX1.
  set (bs := res_bs r) in *.
  assert (I3 : lrs (advance cfg bs s2)) by (fields_tac I2).
  assert (F3 : x_parsing_done (advance cfg bs s2) = false /\ x_next (advance cfg bs s2) = x_next st /\
               x_parser_bs (advance cfg bs s2) = bs).
  { destruct F2 as [A B]. split; [|split]; [autorewrite with xf; exact A|autorewrite with xf; exact B|].
    unfold advance. autorewrite with xf. xs. reflexivity. }
  set (s3 := advance cfg bs s2) in *. clearbody s3. clear I2 F2. destruct F3 as (PD3 & NX3 & PB3).
  destruct r as [b ps|b g|b code|b ps lv crc]; simpl res_bs in *; subst bs.
  - match type of H with (if ?c then _ else _) = _ => destruct c; [|discriminate] end. inversion H; subst st'. fields_tac I3.
  - match type of H with (if ?c then _ else _) = _ => destruct c; [|discriminate] end. inversion H; subst st'.
    apply lrs_parse_finish. exact I3.
  - match type of H with (if ?c then _ else _) = _ => destruct c; [discriminate|] end. inversion H; subst st'. fields_tac I3.
  - match type of H with (if ?c then _ else _) = _ => destruct c; [|discriminate] end. inversion H; subst st'. clear H.
    simpl in EV. unfold HDR_MIN in EV.
    set (s4 := set_par ps (set_next (d_bit b) s3)).
    destruct (parse_ok_fields cfg lv crc s4) as (E1 & E2 & E3 & E4 & E5 & E6 & E7 & E8 & E9).
    eapply lrs_fields_m; [|rewrite E4|rewrite E5|rewrite E6|rewrite E7|rewrite E8|rewrite E9|exact I3]; try (subst s4; xs; reflexivity).
    apply (omono_push s3 _ (d_bit b) lv crc);
      [exact PD3|rewrite NX3; lia|rewrite E1; subst s4; xs; rewrite PB3; reflexivity
      |rewrite E2; subst s4; xs; reflexivity|rewrite E3; subst s4; xs; reflexivity].
Qed.

(* ---- the invariant is inductive ------------------------------------------------------------------------------ *)
Lemma lrs_init n tin tout ultra : lrs (init_state n tin tout ultra).
Proof.
  constructor.
  - intros x k [].
  - unfold rcount. simpl. lia.
Qed.

Theorem lrs_step cfg st e st' :
  inv st -> own st -> ev_next st e -> x_failed st' = None -> lrs st -> step cfg st e = Some st' -> lrs st'.
Proof.
  intros IV OW EV NF' I H. unfold step in H. destruct (x_failed st) eqn:NF; [discriminate|].
  destruct e.
  - eapply lrs_input; eauto.
  - eapply lrs_eof; eauto.
  - eapply lrs_written; eauto.
  - eapply lrs_parse0; eauto.
  - eapply lrs_parse1; eauto.
  - eapply lrs_retr0; eauto.
  - eapply lrs_retr1; eauto.
  - eapply lrs_retr2; eauto.
  - eapply lrs_emit0; eauto.
  - eapply lrs_emit1; eauto.
  - eapply lrs_reorder; eauto.
  - eapply lrs_scan0; eauto.
  - eapply lrs_scan1; eauto.
Qed.

Print Assumptions lrs_step.
Print Assumptions lrs_init.
