(* Generic facts used by the invariant proofs of the decompression scheduler:
   the regenerated order on positions, minimum search, removal, counting. *)
From Coq Require Import List NArith Bool Lia Arith ZifyBool ZifyN.
From LBZ Require Import Gen.Consts SchedX.XState Gen.SchedXTab SchedX.XSet SchedX.XModel.
Import ListNotations.
Local Open Scope N_scope.

(* ---- the regenerated macros are the lexicographic order ------------------ *)
Definition lexlt (a b : pos) : Prop := fst a < fst b \/ (fst a = fst b /\ snd a < snd b).

Lemma pos_lt_spec a b : pos_lt a b = true <-> lexlt a b.
Proof. unfold pos_lt, lexlt. destruct a, b; simpl. lia. Qed.

Lemma pos_eq_spec a b : pos_eq a b = true <-> a = b.
Proof.
  unfold pos_eq. destruct a as [a1 a2], b as [b1 b2]; simpl. split.
  - intro H. assert (a1 = b1 /\ a2 = b2) as [-> ->] by lia. reflexivity.
  - intro H; inversion H; subst. lia.
Qed.

Lemma pos_le_spec a b : pos_le a b = true <-> ~ lexlt b a.
Proof. unfold pos_le. rewrite negb_true_iff, <- not_true_iff_false, pos_lt_spec. tauto. Qed.

Lemma pos_lt_irrefl a : pos_lt a a = false.
Proof. apply not_true_iff_false. rewrite pos_lt_spec. unfold lexlt. lia. Qed.

Lemma pos_lt_trans a b c : pos_lt a b = true -> pos_lt b c = true -> pos_lt a c = true.
Proof. rewrite !pos_lt_spec. unfold lexlt. lia. Qed.

(* negative transitivity: "not less" is transitive *)
Lemma pos_nlt_trans a b c : pos_lt b a = false -> pos_lt c b = false -> pos_lt c a = false.
Proof. rewrite <- !not_true_iff_false, !pos_lt_spec. unfold lexlt. lia. Qed.

Lemma pos_lt_total a b : pos_lt a b = false -> pos_lt b a = false -> a = b.
Proof.
  rewrite <- !not_true_iff_false, !pos_lt_spec. unfold lexlt. destruct a, b; simpl.
  intros. assert (n = n1 /\ n0 = n2) as [-> ->] by lia. reflexivity.
Qed.

(* ---- qmin ------------------------------------------------------------------- *)
Section QMin.
  Context {A : Type} (key : A -> pos).

  Lemma qmin_acc_In best l : qmin_acc key pos_lt best l = best \/ In (qmin_acc key pos_lt best l) l.
  Proof.
    revert best; induction l as [|x r IH]; intro best; simpl; auto.
    destruct (IH (if pos_lt (key x) (key best) then x else best)) as [H|H]; auto.
    rewrite H. destruct (pos_lt (key x) (key best)); auto.
  Qed.

  Lemma qmin_acc_le_best best l : pos_lt (key best) (key (qmin_acc key pos_lt best l)) = false.
  Proof.
    revert best; induction l as [|x r IH]; intro best; simpl.
    - apply pos_lt_irrefl.
    - destruct (pos_lt (key x) (key best)) eqn:E.
      + eapply pos_nlt_trans; [apply IH|].
        apply not_true_iff_false. intro H. apply pos_lt_spec in H, E. unfold lexlt in *. lia.
      + apply IH.
  Qed.

  Lemma qmin_acc_min best l y : In y l -> pos_lt (key y) (key (qmin_acc key pos_lt best l)) = false.
  Proof.
    revert best; induction l as [|x r IH]; intro best; simpl; [tauto|].
    intros [->|H].
    - destruct (pos_lt (key y) (key best)) eqn:E.
      + apply qmin_acc_le_best.
      + eapply pos_nlt_trans; [apply qmin_acc_le_best|]. exact E.
    - apply IH; auto.
  Qed.

  Lemma qmin_In l x : qmin key pos_lt l = Some x -> In x l.
  Proof.
    destruct l as [|a r]; simpl; [discriminate|]. intro H; inversion H; subst.
    destruct (qmin_acc_In a r) as [E|E]; [left; auto | right; auto].
  Qed.

  Lemma qmin_min l x y : qmin key pos_lt l = Some x -> In y l -> pos_lt (key y) (key x) = false.
  Proof.
    destruct l as [|a r]; simpl; [discriminate|]. intro H; inversion H; subst. intros [->|Hy].
    - apply qmin_acc_le_best.
    - apply qmin_acc_min; auto.
  Qed.

  Lemma qmin_none l : qmin key pos_lt l = None -> l = [].
  Proof. destruct l; simpl; [auto|discriminate]. Qed.

  Lemma qmin_some l : l <> [] -> exists x, qmin key pos_lt l = Some x.
  Proof. destruct l; [congruence|]. simpl; eauto. Qed.

  Lemma is_minimal_spec x l : is_minimal key pos_lt x l = true <-> forall y, In y l -> pos_lt (key y) (key x) = false.
  Proof.
    unfold is_minimal. rewrite forallb_forall. split; intros H y Hy; specialize (H y Hy).
    - now apply negb_true_iff in H.
    - now apply negb_true_iff.
  Qed.
End QMin.

(* ---- remove_one ---------------------------------------------------------------- *)
Section Remove.
  Context {A : Type} (eqb : A -> A -> bool).
  Hypothesis eqb_eq : forall a b, eqb a b = true -> a = b.

  Lemma remove_one_In x l l' y : remove_one eqb x l = Some l' -> In y l' -> In y l.
  Proof.
    revert l'; induction l as [|a r IH]; simpl; intros l'; [discriminate|].
    destruct (eqb x a) eqn:E.
    - intro H; inversion H; subst. auto.
    - destruct (remove_one eqb x r) eqn:R; [|discriminate]. intro H; inversion H; subst.
      simpl. intros [->|Hy]; auto. right. eapply IH; eauto.
  Qed.

  Lemma remove_one_self x l l' : remove_one eqb x l = Some l' -> In x l.
  Proof.
    revert l'; induction l as [|a r IH]; simpl; intros l'; [discriminate|].
    destruct (eqb x a) eqn:E.
    - apply eqb_eq in E; subst; auto.
    - destruct (remove_one eqb x r) eqn:R; [|discriminate]. intros _. right. eapply IH; eauto.
  Qed.

  Lemma remove_one_split x l l' : remove_one eqb x l = Some l' ->
    exists l1 l2, l = l1 ++ x :: l2 /\ l' = l1 ++ l2.
  Proof.
    revert l'; induction l as [|a r IH]; simpl; intros l'; [discriminate|].
    destruct (eqb x a) eqn:E.
    - apply eqb_eq in E; subst. intro H; inversion H; subst. exists [], l'. auto.
    - destruct (remove_one eqb x r) eqn:R; [|discriminate]. intro H; inversion H; subst.
      destruct (IH _ eq_refl) as (l1 & l2 & -> & ->). exists (a :: l1), l2. auto.
  Qed.

  Lemma remove_one_length x l l' : remove_one eqb x l = Some l' -> length l = S (length l').
  Proof.
    intro H. destruct (remove_one_split _ _ _ H) as (l1 & l2 & -> & ->).
    rewrite !app_length. simpl. lia.
  Qed.

  Lemma remove_one_Forall P x l l' : remove_one eqb x l = Some l' -> Forall P l -> Forall P l' /\ P x.
  Proof.
    intro H. destruct (remove_one_split _ _ _ H) as (l1 & l2 & -> & ->).
    rewrite !Forall_app. intros [H1 H2]. inversion H2; subst. tauto.
  Qed.

  Lemma remove_one_filter_len p x l l' : remove_one eqb x l = Some l' ->
    length (filter p l) = (length (filter p l') + (if p x then 1 else 0))%nat.
  Proof.
    intro H. destruct (remove_one_split _ _ _ H) as (l1 & l2 & -> & ->).
    rewrite !filter_app, !app_length. simpl. destruct (p x); simpl; lia.
  Qed.
End Remove.

Lemma In_remove_one_some {A} (eqb : A -> A -> bool) (refl : forall a, eqb a a = true) x l :
  In x l -> exists l', remove_one eqb x l = Some l'.
Proof.
  induction l as [|a r IH]; simpl; [tauto|].
  destruct (eqb x a) eqn:E; [eauto|]. intros [->|H]; [rewrite refl in E; discriminate|].
  destruct (IH H) as [l' ->]. eauto.
Qed.

(* ---- the decidable equalities are equalities ------------------------------------- *)
Lemma pos_eqb_eq a b : pos_eqb a b = true -> a = b.
Proof. unfold pos_eqb. destruct a, b; simpl. intro. assert (n = n1 /\ n0 = n2) as [-> ->] by lia. reflexivity. Qed.
Lemma pos_eqb_refl a : pos_eqb a a = true.
Proof. unfold pos_eqb. lia. Qed.
Lemma dbs_eqb_eq a b : dbs_eqb a b = true -> a = b.
Proof. unfold dbs_eqb. destruct a, b; simpl. intro. assert (d_bit = d_bit0 /\ d_off = d_off0) as [-> ->] by lia. reflexivity. Qed.
Lemma dbs_eqb_refl a : dbs_eqb a a = true.
Proof. unfold dbs_eqb. lia. Qed.
Lemma optN_eqb_eq a b : optN_eqb a b = true -> a = b.
Proof. destruct a, b; simpl; try discriminate; auto. intro. f_equal. lia. Qed.
Lemma optN_eqb_refl a : optN_eqb a a = true.
Proof. destruct a; simpl; auto. lia. Qed.
Lemma rjob_eqb_eq a b : rjob_eqb a b = true -> a = b.
Proof.
  unfold rjob_eqb. destruct a, b; simpl. rewrite !andb_true_iff. intros [[H1 H2] H3].
  apply pos_eqb_eq in H1. apply dbs_eqb_eq in H2. apply optN_eqb_eq in H3. congruence.
Qed.
Lemma rjob_eqb_refl a : rjob_eqb a a = true.
Proof. unfold rjob_eqb. rewrite pos_eqb_refl, dbs_eqb_refl, optN_eqb_refl. reflexivity. Qed.
Lemma ejob_eqb_eq a b : ejob_eqb a b = true -> a = b.
Proof.
  unfold ejob_eqb. destruct a, b; simpl. rewrite !andb_true_iff. intros [[H1 H2] H3].
  apply pos_eqb_eq in H1. f_equal; auto; lia.
Qed.
Lemma ejob_eqb_refl a : ejob_eqb a a = true.
Proof. unfold ejob_eqb. rewrite pos_eqb_refl. lia. Qed.
Lemma oblk_eqb_eq a b : oblk_eqb a b = true -> a = b.
Proof.
  unfold oblk_eqb. destruct a, b; simpl. rewrite !andb_true_iff. intros [[[[[H1 H2] H3] H4] H5] H6].
  apply pos_eqb_eq in H1. f_equal; auto; lia.
Qed.
Lemma cont_eqb_eq a b : cont_eqb a b = true -> a = b.
Proof.
  destruct a, b; simpl; try discriminate; rewrite ?andb_true_iff; intros H.
  - apply optN_eqb_eq in H; congruence.
  - destruct H as [H1 H2]. apply rjob_eqb_eq in H1. apply optN_eqb_eq in H2. congruence.
  - apply ejob_eqb_eq in H; congruence.
  - apply ejob_eqb_eq in H; congruence.
  - destruct H as [H1 H2]. apply dbs_eqb_eq in H1. apply optN_eqb_eq in H2. congruence.
Qed.
Lemma cont_eqb_refl a : cont_eqb a a = true.
Proof.
  destruct a; simpl; rewrite ?rjob_eqb_refl, ?ejob_eqb_refl, ?dbs_eqb_refl, ?optN_eqb_refl; reflexivity.
Qed.

(* take_min *)
Lemma take_min_spec {A} (eqb : A -> A -> bool) key x q q' :
  take_min eqb key x q = Some q' ->
  remove_one eqb x q = Some q' /\ forall y, In y q -> pos_lt (key y) (key x) = false.
Proof.
  unfold take_min. destruct (is_minimal key pos_lt x q) eqn:E; [|discriminate].
  intro H. split; auto. now apply is_minimal_spec.
Qed.

(* ---- bit position / word offset arithmetic ------------------------------------------ *)
Lemma dbs_norm_ok d : dbs_norm d = true -> dbs_ok d = true.
Proof. unfold dbs_norm, dbs_ok. lia. Qed.

(* for normalised streams the word offset is a monotone function of the bit position *)
Lemma norm_off_mono a b : dbs_norm a = true -> dbs_norm b = true -> d_bit a <= d_bit b -> d_off a <= d_off b.
Proof. unfold dbs_norm. lia. Qed.

Lemma ok_norm_off_mono a b : dbs_norm a = true -> dbs_ok b = true -> d_bit a <= d_bit b -> d_off a <= d_off b.
Proof. unfold dbs_norm, dbs_ok. lia. Qed.
