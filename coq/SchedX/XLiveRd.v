(* The keys of the priority queue reord_q of the decompression scheduler (expand.c) are
   pairwise distinct.

   [lrd]: the bases (bit, sub) of the buffers waiting in reord_q are pairwise distinct
   (rd_nodup); a buffer of a block lies strictly below the emit-stage job of that block
   (rd_below_e) and a buffer with status MORE strictly below the block's last buffer
   (rd_below_f).  The three clauses are inductive as stated, given the invariant [lld]
   (XLiveDefs: retrieve jobs, emit-stage jobs and last buffers have pairwise distinct bit
   positions) and [own] (XOwn: a buffer with status MORE is followed by its block's emit job
   or last buffer) of the pre-state.

   Organisation: a transfer lemma [lrd_view] for the events that change neither reord_q
   nor the set of emit-stage jobs, [lrd_add_e] for a new emit-stage job on a fresh bit
   (retr1), [lrd_emit_more] / [lrd_emit_last] for emit1, [lrd_reorder]; one lemma per event. *)
From Coq Require Import List NArith Bool Lia Arith ZifyBool ZifyN.
From LBZ Require Import Gen.Consts SchedX.XState Gen.SchedXTab SchedX.XSet SchedX.XModel SchedX.XLemmas
  SchedX.XFrame SchedX.XInvDefs SchedX.XOps SchedX.XInv SchedX.XInv2 SchedX.XInv3 SchedX.XInv4 SchedX.XOracle
  SchedX.XOwn SchedX.XOwnAdv SchedX.XOwnRetr SchedX.XOwnProofs SchedX.XCount SchedX.XLiveDefs.
Import ListNotations.
Local Open Scope N_scope.

Record lrd (st : xstate) : Prop := mklrd {
  rd_nodup : NoDup (map o_base (x_reord_q st));
  (* a buffer of a block lies strictly below the emit job of that block *)
  rd_below_e : forall o e, In o (x_reord_q st) -> In e (estage st) -> ebit e = obit o -> snd (o_base o) < snd (e_base e);
  (* and strictly below the block's last buffer *)
  rd_below_f : forall o o', In o (x_reord_q st) -> In o' (x_reord_q st) -> o_status o = MORE -> o_status o' <> MORE ->
               obit o = obit o' -> snd (o_base o) < snd (o_base o')
}.

Lemma lrd_init n tin tout ultra : lrd (init_state n tin tout ultra).
Proof. constructor; simpl; [constructor|intros o e []|intros o o' []]. Qed.

(* ---- lists ------------------------------------------------------------------------------------- *)
Lemma nodup_app_l {A} (l1 l2 : list A) : NoDup (l1 ++ l2) -> NoDup l1.
Proof.
  induction l1 as [|a l IH]; simpl; intro H; [constructor|]. inversion H; subst. constructor; auto.
  intro X. apply H2. apply in_or_app. auto.
Qed.

Lemma nodup_app_r {A} (l1 l2 : list A) : NoDup (l1 ++ l2) -> NoDup l2.
Proof. induction l1 as [|a l IH]; simpl; intro H; auto. inversion H; auto. Qed.

Lemma nodup_app_disj {A} (l1 l2 : list A) x : NoDup (l1 ++ l2) -> In x l1 -> In x l2 -> False.
Proof.
  induction l1 as [|a l IH]; simpl; intros H H1 H2; [contradiction|]. inversion H; subst.
  destruct H1 as [->|H1]; [apply H4; apply in_or_app; auto|auto].
Qed.

Lemma is_final_true o : o_status o <> MORE -> is_final o = true.
Proof. intro H. unfold is_final. apply negb_true_iff. apply N.eqb_neq. exact H. Qed.

(* ---- what [lld] says about the lines ---------------------------------------------------------- *)
Lemma lines_job_emit st j e : lld st -> In j (all_jobs st) -> In e (estage st) -> jbit j <> ebit e.
Proof.
  intros L Hj He EQ. apply (nodup_app_disj _ _ (jbit j) (ll_dist _ L)).
  - apply in_map. exact Hj.
  - apply in_or_app. left. rewrite EQ. apply in_map. exact He.
Qed.

Lemma lines_job_final st j o : lld st -> In j (all_jobs st) -> In o (x_reord_q st) -> o_status o <> MORE -> jbit j <> obit o.
Proof.
  intros L Hj Ho F EQ. apply (nodup_app_disj _ _ (jbit j) (ll_dist _ L)).
  - apply in_map. exact Hj.
  - apply in_or_app. right. rewrite EQ. apply in_map. apply filter_In. split; auto using is_final_true.
Qed.

Lemma lines_emit_final st e o : lld st -> In e (estage st) -> In o (x_reord_q st) -> o_status o <> MORE -> obit o <> ebit e.
Proof.
  intros L He Ho F EQ. pose proof (nodup_app_r _ _ (ll_dist _ L)) as D.
  apply (nodup_app_disj _ _ (ebit e) D).
  - apply in_map. exact He.
  - rewrite <- EQ. apply in_map. apply filter_In. split; auto using is_final_true.
Qed.

Lemma lines_emit_other st e A B : lld st -> estage st = A ++ e :: B -> forall e2, In e2 (A ++ B) -> ebit e2 <> ebit e.
Proof.
  intros L ES e2 H2 EQ. pose proof (nodup_app_l _ _ (nodup_app_r _ _ (ll_dist _ L))) as D.
  rewrite ES, map_app in D. simpl in D. apply NoDup_remove_2 in D. apply D. rewrite <- map_app, <- EQ. apply in_map. exact H2.
Qed.

(* no buffer of the block of a retrieve job waits in reord_q *)
Lemma job_no_buffer st j o : lld st -> own st -> In j (all_jobs st) -> In o (x_reord_q st) -> obit o <> jbit j.
Proof.
  intros L [OP _] Hj Ho EQ.
  destruct (N.eq_dec (o_status o) MORE) as [M|F].
  - destruct (o_more _ _ _ OP o Ho M) as [(e & E1 & E2 & _)|(o' & O1 & O2 & O3 & _)].
    + apply (lines_job_emit st j e L Hj E1). unfold ebit, obit in *. congruence.
    + apply (lines_job_final st j o' L Hj O1 O2). unfold obit in *. congruence.
  - apply (lines_job_final st j o L Hj Ho F). auto.
Qed.

(* ---- transfer lemmas ---------------------------------------------------------------------------- *)
Lemma lrd_view st st' :
  x_reord_q st' = x_reord_q st -> (forall e, In e (estage st') -> In e (estage st)) -> lrd st -> lrd st'.
Proof. intros E S [A B C]. constructor; rewrite E; auto. Qed.

Lemma lrd_add_e st st' en :
  x_reord_q st' = x_reord_q st -> (forall e, In e (estage st') -> e = en \/ In e (estage st)) ->
  (forall o, In o (x_reord_q st) -> obit o <> ebit en) -> lrd st -> lrd st'.
Proof.
  intros E S F [A B C]. constructor; rewrite E; auto.
  intros o e Ho He EB. destruct (S e He) as [->|K]; auto. exfalso. apply (F o Ho). auto.
Qed.

Lemma lrd_emit_more st st' e A B size crc blksz en :
  estage st = A ++ e :: B ->
  (forall o, In o (x_reord_q st) -> o_status o <> MORE -> obit o <> ebit e) ->
  (forall e2, In e2 (A ++ B) -> ebit e2 <> ebit e) ->
  x_reord_q st' = mkoblk (e_base e) size crc blksz MORE en :: x_reord_q st ->
  (forall x, In x (estage st') -> x = mkejob (fst (e_base e), snd (e_base e) + 1) (e_status e) (e_end e) \/ In x (A ++ B)) ->
  lrd st -> lrd st'.
Proof.
  intros ES FA FB RQ S [N0 B0 C0].
  assert (He : In e (estage st)) by (rewrite ES; apply in_elt).
  assert (Sub : forall x, In x (A ++ B) -> In x (estage st)).
  { rewrite ES. intros x Hx. apply in_app_or in Hx. apply in_or_app. simpl. tauto. }
  assert (BE : forall o, In o (x_reord_q st) -> obit o = ebit e -> snd (o_base o) < snd (e_base e)) by (intros; apply B0; auto).
  constructor; rewrite RQ.
  - simpl. constructor; auto. intro X. apply in_map_iff in X. destruct X as (o & Eo & Ho).
    specialize (BE o Ho). unfold obit, ebit in BE. rewrite Eo in BE. specialize (BE eq_refl). lia.
  - intros o x [<-|Ho] Hx EB.
    + destruct (S x Hx) as [->|K]; [simpl; lia|]. exfalso. apply (FB x K). exact EB.
    + destruct (S x Hx) as [->|K]; [|apply B0; auto].
      unfold ebit in EB. simpl in EB. specialize (BE o Ho (eq_sym EB)). simpl. lia.
  - intros o o' [<-|Ho] [<-|Ho'] SM SF EB.
    + simpl in SF. congruence.
    + exfalso. apply (FA o' Ho' SF). symmetry. exact EB.
    + simpl in SF. congruence.
    + apply C0; auto.
Qed.

Lemma lrd_emit_last st st' e A B size crc blksz rv en :
  rv <> MORE ->
  estage st = A ++ e :: B ->
  (forall e2, In e2 (A ++ B) -> ebit e2 <> ebit e) ->
  x_reord_q st' = mkoblk (e_base e) size crc blksz rv en :: x_reord_q st ->
  (forall x, In x (estage st') -> In x (A ++ B)) ->
  lrd st -> lrd st'.
Proof.
  intros RV ES FB RQ S [N0 B0 C0].
  assert (He : In e (estage st)) by (rewrite ES; apply in_elt).
  assert (Sub : forall x, In x (A ++ B) -> In x (estage st)).
  { rewrite ES. intros x Hx. apply in_app_or in Hx. apply in_or_app. simpl. tauto. }
  assert (BE : forall o, In o (x_reord_q st) -> obit o = ebit e -> snd (o_base o) < snd (e_base e)) by (intros; apply B0; auto).
  constructor; rewrite RQ.
  - simpl. constructor; auto. intro X. apply in_map_iff in X. destruct X as (o & Eo & Ho).
    specialize (BE o Ho). unfold obit, ebit in BE. rewrite Eo in BE. specialize (BE eq_refl). lia.
  - intros o x [<-|Ho] Hx EB.
    + exfalso. apply (FB x (S x Hx)). exact EB.
    + apply B0; auto.
  - intros o o' [<-|Ho] [<-|Ho'] SM SF EB.
    + simpl in SM. congruence.
    + simpl in SM. congruence.
    + simpl. apply BE; auto.
    + apply C0; auto.
Qed.

Lemma lrd_remove st st' l1 l2 o :
  x_reord_q st = l1 ++ o :: l2 -> x_reord_q st' = l1 ++ l2 -> (forall e, In e (estage st') -> In e (estage st)) ->
  lrd st -> lrd st'.
Proof.
  intros E E' S [N0 B0 C0].
  assert (Sub : forall x, In x (l1 ++ l2) -> In x (x_reord_q st)).
  { rewrite E. intros x Hx. apply in_app_or in Hx. apply in_or_app. simpl. tauto. }
  constructor; rewrite E'.
  - rewrite E, map_app in N0. simpl in N0. apply NoDup_remove_1 in N0. rewrite map_app. exact N0.
  - intros; apply B0; auto.
  - intros; apply C0; auto.
Qed.

(* ---- the corollary ------------------------------------------------------------------------------ *)
Lemma reord_keys_distinct st o1 o2 l1 l2 l3 :
  lrd st -> x_reord_q st = l1 ++ o1 :: l2 ++ o2 :: l3 -> o_base o1 <> o_base o2.
Proof.
  intros [N0 _ _] E EQ. rewrite E, map_app in N0. simpl in N0. apply NoDup_remove_2 in N0. apply N0.
  apply in_or_app. right. rewrite map_app. apply in_or_app. right. simpl. left. auto.
Qed.

(* ---- events that touch neither reord_q nor the emit-stage jobs ---------------------------------- *)
Ltac lv_tac := onrm; rewrite ?run_ejobs_cons; simpl; auto.

Lemma lrd_input sz m st st' : lrd st -> input sz m st = Some st' -> lrd st'.
Proof.
  unfold input. intros I H. match type of H with (if ?c then _ else _) = _ => destruct c; [|discriminate] end.
  destruct (x_parsing_done st); inversion H; subst; auto.
  eapply lrd_view; [| |exact I]; lv_tac.
Qed.

Lemma lrd_eof st st' : lrd st -> reader_eof st = Some st' -> lrd st'.
Proof.
  unfold reader_eof. intros I H. destruct (x_eof st); [discriminate|]. inversion H; subst.
  eapply lrd_view; [| |exact I]; lv_tac.
Qed.

Lemma lrd_written st st' : lrd st -> written st = Some st' -> lrd st'.
Proof.
  unfold written. intros I H. destruct (0 <? x_outq st); [|discriminate]. inversion H; subst.
  eapply lrd_view; [| |exact I]; lv_tac.
Qed.

Lemma lrd_parse0 st st' : lrd st -> parse0 st = Some st' -> lrd st'.
Proof.
  unfold parse0. intros I H. destruct (selects TParse st); [|discriminate].
  set (st1 := set_work_units (N.pred (x_work_units st)) (set_parse_token false st)) in *.
  destruct (attach (x_parser_bs st1) st1) as [st2 att] eqn:A.
  assert (E2 : st2 = fst (attach (x_parser_bs st1) st1)) by (rewrite A; reflexivity).
  inversion H; subst st'. clear H. rewrite E2. subst st1.
  eapply lrd_view; [| |exact I]; lv_tac.
Qed.

Lemma lrd_scan0 st st' : lrd st -> scan0 st = Some st' -> lrd st'.
Proof.
  unfold scan0. intros I H. destruct (selects TScan st); [|discriminate].
  destruct (qmin d_pos pos_lt (x_scan_q st)) as [s|]; [|discriminate].
  destruct (remove_one dbs_eqb s (x_scan_q st)) as [q|]; [|discriminate].
  set (st1 := set_scan_q q (set_work_units (N.pred (x_work_units st)) st)) in *.
  destruct (attach s st1) as [st2 att] eqn:A.
  assert (E2 : st2 = fst (attach s st1)) by (rewrite A; reflexivity).
  inversion H; subst st'. clear H. rewrite E2. subst st1.
  eapply lrd_view; [| |exact I]; lv_tac.
Qed.

Lemma lrd_retr0 j st st' : lrd st -> retr0 j st = Some st' -> lrd st'.
Proof.
  unfold retr0. intros I H. destruct (selects TRetrieve st); [|discriminate].
  destruct (take_min rjob_eqb rkey j (x_retr_q st)) as [q|] eqn:T; [|discriminate].
  set (st1 := set_retr_q q st) in *.
  destruct (attach (r_cur j) st1) as [st2 att] eqn:A.
  assert (E2 : st2 = fst (attach (r_cur j) st1)) by (rewrite A; reflexivity).
  inversion H; subst st'. clear H. rewrite E2. subst st1.
  eapply lrd_view; [| |exact I]; lv_tac.
Qed.

Lemma lrd_retr2 e st st' : lrd st -> retr2 e st = Some st' -> lrd st'.
Proof.
  unfold retr2. intros I H. destruct (del_run (CRetr2 e) st) as [s1|] eqn:D; [|discriminate]. inversion H; subst.
  destruct (del_run_spec _ _ _ D) as (l1 & l2 & E & ->).
  eapply lrd_view; [| |exact I]; xs; auto.
  intros x. unfold estage. xs. rewrite E, !run_ejobs_app, run_ejobs_cons. simpl.
  rewrite !in_app_iff. simpl. rewrite ?in_app_iff. tauto.
Qed.

Lemma lrd_emit0 st st' : lrd st -> emit0 st = Some st' -> lrd st'.
Proof.
  unfold emit0. intros I H. destruct (selects TEmit st); [|discriminate].
  destruct (qmin e_base pos_lt (x_emit_q st)) as [e|]; [|discriminate].
  destruct (remove_one ejob_eqb e (x_emit_q st)) as [q|] eqn:R; [|discriminate]. inversion H; subst.
  destruct (remove_one_split _ ejob_eqb_eq _ _ _ R) as (l1 & l2 & EQ & Eq).
  eapply lrd_view; [| |exact I]; unfold add_run; xs; auto.
  intros x. unfold estage. xs. rewrite run_ejobs_cons. simpl.
  rewrite EQ, Eq. rewrite !in_app_iff. simpl. rewrite ?in_app_iff. tauto.
Qed.

(* ---- do_emit: a buffer enters reord_q -------------------------------------------------------------- *)
Lemma lrd_emit1 e rv size crc blksz st st' : lld st -> lrd st -> emit1 e rv size crc blksz st = Some st' -> lrd st'.
Proof.
  unfold emit1. intros L I H. destruct (del_run (CEmit e) st) as [s1|] eqn:D; [|discriminate].
  destruct (del_run_spec _ _ _ D) as (l1 & l2 & E & ->).
  match type of H with (if ?c then _ else _) = _ => destruct c; [|discriminate] end.
  assert (ES : estage st = (x_emit_q st ++ run_ejobs l1) ++ e :: run_ejobs l2).
  { unfold estage. rewrite E, run_ejobs_app, run_ejobs_cons. simpl. rewrite app_assoc. reflexivity. }
  assert (He : In e (estage st)) by (rewrite ES; apply in_elt).
  pose proof (lines_emit_other st e _ _ L ES) as FB.
  destruct (rv =? MORE) eqn:RV; inversion H; subst st'; clear H.
  - apply N.eqb_eq in RV. subst rv.
    eapply (lrd_emit_more st _ e _ _ size crc blksz 0 ES); [|exact FB|xs; reflexivity| |exact I].
    + intros o Ho F. apply (lines_emit_final st e o L He Ho F).
    + intros x. unfold estage. xs. rewrite run_ejobs_app. simpl. rewrite !in_app_iff. intuition.
  - apply N.eqb_neq in RV.
    eapply (lrd_emit_last st _ e _ _ size crc blksz rv (e_end e) RV ES); [exact FB|unfold give_unit; xs; reflexivity| |exact I].
    intros x. unfold estage, give_unit. xs. rewrite run_ejobs_app. rewrite !in_app_iff. tauto.
Qed.

(* ---- do_reorder: a buffer leaves reord_q ----------------------------------------------------------- *)
Lemma lrd_reorder st st' : lrd st -> reorder st = Some st' -> lrd st'.
Proof.
  unfold reorder. intros I H. destruct (selects TReorder st); [|discriminate].
  destruct (qmin o_base pos_lt (x_reord_q st)) as [o|]; [|discriminate].
  destruct (remove_one oblk_eqb o (x_reord_q st)) as [q|] eqn:R; [|discriminate].
  destruct (remove_one_split _ oblk_eqb_eq _ _ _ R) as (l1 & l2 & EQ & ->).
  assert (G : x_reord_q st' = l1 ++ l2 /\ estage st' = estage st).
  { xs in H. unfold estage.
    repeat match type of H with
    | match ?c with [] => _ | _ :: _ => _ end = _ => destruct c
    | (if ?c then _ else _) = _ => destruct c
    end; inversion H; subst st'; unfold fail; xs; auto. }
  destruct G as [G1 G2]. eapply (lrd_remove st st' l1 l2 o EQ G1); [|exact I]. rewrite G2. auto.
Qed.

(* ---- do_parse ---------------------------------------------------------------------------------------- *)
Lemma pf_fields cfg g s :
  x_reord_q (parse_finish cfg g s) = x_reord_q s /\ x_emit_q (parse_finish cfg g s) = x_emit_q s /\
  x_running (parse_finish cfg g s) = x_running s.
Proof.
  unfold parse_finish. set (pb' := mkdbs _ _).
  match goal with |- context [if ?c then _ else _] => destruct c end; [unfold fail; xs; auto|].
  destruct (c_finish_drops_link cfg); xs; autorewrite with xf; xs; auto.
Qed.

Lemma pok_fields cfg lv crc s :
  x_reord_q (parse_ok cfg lv crc s) = x_reord_q s /\ x_emit_q (parse_ok cfg lv crc s) = x_emit_q s /\
  x_running (parse_ok cfg lv crc s) = x_running s.
Proof.
  unfold parse_ok.
  destruct (qmin u_base pos_lt _) as [u|]; [|xs; auto].
  destruct (pos_eq (u_base u) _); [|xs; auto].
  destruct (u_complete u); xs; autorewrite with xf; xs; auto.
Qed.

Lemma lrd_parse1 cfg att r st st' : lrd st -> parse1 cfg att r st = Some st' -> lrd st'.
Proof.
  unfold parse1. intros I H. destruct (del_run (CParse att) st) as [s1|] eqn:D; [|discriminate].
  destruct (del_run_spec _ _ _ D) as (l1 & l2 & E & ->).
  match type of H with (if ?c then _ else _) = _ => destruct c; [|discriminate] end.
  assert (G : x_reord_q st' = x_reord_q st /\ x_emit_q st' = x_emit_q st /\ x_running st' = l1 ++ l2).
  { destruct r;
      match type of H with (if ?c then _ else _) = _ => destruct c | _ => idtac end;
      try discriminate; inversion H; try subst st'; clear H.
    - xs. autorewrite with xf. xs. auto.
    - match goal with |- context [parse_finish cfg ?a ?s] => destruct (pf_fields cfg a s) as (-> & -> & ->) end.
      autorewrite with xf. xs. auto.
    - unfold fail. xs. autorewrite with xf. xs. auto.
    - match goal with |- context [parse_ok cfg ?a ?b ?s] => destruct (pok_fields cfg a b s) as (-> & -> & ->) end.
      xs. autorewrite with xf. xs. auto. }
  destruct G as (G1 & G2 & G3). eapply lrd_view; [exact G1| |exact I].
  intro x. unfold estage. rewrite G2, G3, E, !run_ejobs_app, run_ejobs_cons. simpl. auto.
Qed.

(* ---- do_retrieve ------------------------------------------------------------------------------------- *)
Lemma lrd_retr1 cfg j att rv cur st st' : lld st -> own st -> lrd st -> retr1 cfg j att rv cur st = Some st' -> lrd st'.
Proof.
  unfold retr1. intros L OW I H. destruct (del_run (CRetr j att) st) as [s1|] eqn:D; [|discriminate].
  destruct (del_run_spec _ _ _ D) as (l1 & l2 & E & ->).
  match type of H with (if ?c then _ else _) = _ => destruct c; [|discriminate] end.
  assert (G : x_reord_q st' = x_reord_q st /\ x_emit_q st' = x_emit_q st /\
              (x_running st' = l1 ++ l2 \/ x_running st' = CRetr2 (mkejob (r_base j) rv (d_off cur)) :: l1 ++ l2)).
  { set (s2 := detach att (set_running (l1 ++ l2) st)) in *.
    assert (F : x_reord_q s2 = x_reord_q st /\ x_emit_q s2 = x_emit_q st /\ x_running s2 = l1 ++ l2)
      by (subst s2; autorewrite with xf; xs; auto).
    clearbody s2. destruct F as (F1 & F2 & F3). cbv zeta in H.
    repeat match type of H with (if ?c then _ else _) = _ => destruct c end; inversion H; try subst st'; clear H;
      unfold give_unit, add_run; destruct (r_link j);
      repeat match goal with |- context [if ?c then _ else _] => destruct c end;
      xs; autorewrite with xf; xs; rewrite ?F1, ?F2, ?F3; auto. }
  assert (Hj : In j (all_jobs st)).
  { unfold all_jobs. rewrite E, !run_jobs_app, run_jobs_cons. simpl. rewrite !in_app_iff. simpl. auto. }
  assert (ES : forall x, In x (x_emit_q st ++ run_ejobs (l1 ++ l2)) -> In x (estage st)).
  { intro x. unfold estage. rewrite E, !run_ejobs_app, run_ejobs_cons. simpl. auto. }
  destruct G as (G1 & G2 & [G3|G3]).
  - eapply lrd_view; [exact G1| |exact I]. intro x. unfold estage at 1. rewrite G2, G3. apply ES.
  - eapply (lrd_add_e st st' (mkejob (r_base j) rv (d_off cur))); [exact G1| | |exact I].
    + intro x. unfold estage at 1. rewrite G2, G3, run_ejobs_cons. simpl. rewrite in_app_iff. simpl.
      intros [K|[K|K]]; [right; apply ES; apply in_or_app; auto|left; auto|right; apply ES; apply in_or_app; auto].
    + intros o Ho. apply (job_no_buffer st j o L OW Hj Ho).
Qed.

(* ---- do_scan ----------------------------------------------------------------------------------------- *)
Lemma lrd_scan1 cfg s att found s' more st st' : lrd st -> scan1 cfg s att found s' more st = Some st' -> lrd st'.
Proof.
  unfold scan1. intros I H. destruct (del_run (CScan s att) st) as [s1|] eqn:D; [|discriminate].
  destruct (del_run_spec _ _ _ D) as (l1 & l2 & E & ->).
  assert (G : x_reord_q st' = x_reord_q st /\ x_emit_q st' = x_emit_q st /\ x_running st' = l1 ++ l2).
  { set (s2 := detach att (set_running (l1 ++ l2) st)) in *.
    assert (F : x_reord_q s2 = x_reord_q st /\ x_emit_q s2 = x_emit_q st /\ x_running s2 = l1 ++ l2)
      by (subst s2; autorewrite with xf; xs; auto).
    clearbody s2. destruct F as (F1 & F2 & F3). cbv zeta in H.
    repeat match type of H with (if ?c then _ else _) = _ => destruct c end; try discriminate; inversion H; try subst st'; clear H;
      unfold give_unit;
      repeat match goal with |- context [if ?c then _ else _] => destruct c end;
      xs; autorewrite with xf; xs; rewrite ?F1, ?F2, ?F3; auto. }
  destruct G as (G1 & G2 & G3). eapply lrd_view; [exact G1| |exact I].
  intro x. unfold estage. rewrite G2, G3, E, !run_ejobs_app, run_ejobs_cons. simpl. auto.
Qed.

(* ---- the invariant ------------------------------------------------------------------------------------ *)
(* hypotheses used: [own st] (clause o_more, for retr1) and [lld st] (clause ll_dist, for retr1 and emit1);
   no hypothesis on the labels ([ev_next], [ev_fresh]), on the configuration, on [inv] or on failure *)
Theorem lrd_step cfg st e st' : own st -> lld st -> lrd st -> step cfg st e = Some st' -> lrd st'.
Proof.
  intros OW L I H. unfold step in H. destruct (x_failed st); [discriminate|].
  destruct e.
  - eapply lrd_input; eauto.
  - eapply lrd_eof; eauto.
  - eapply lrd_written; eauto.
  - eapply lrd_parse0; eauto.
  - eapply lrd_parse1; eauto.
  - eapply lrd_retr0; eauto.
  - eapply lrd_retr1; eauto.
  - eapply lrd_retr2; eauto.
  - eapply lrd_emit0; eauto.
  - eapply lrd_emit1; eauto.
  - eapply lrd_reorder; eauto.
  - eapply lrd_scan0; eauto.
  - eapply lrd_scan1; eauto.
Qed.

(* the same with the common hypothesis list of the liveness invariants *)
Corollary lrd_step_live cfg st e st' :
  cfg_safe cfg -> cfg_drops cfg -> inv st -> own st -> lld st -> x_failed st' = None ->
  lrd st -> step cfg st e = Some st' -> lrd st'.
Proof. intros _ _ _ OW L _ I H. eapply lrd_step; eauto. Qed.

Print Assumptions lrd_init.
Print Assumptions lrd_step.
Print Assumptions reord_keys_distinct.
