(* The scanner's frontier (XLiveDefs.lsf): a candidate position reported by scan() is never
   the base of a candidate that is still in unord_q.

   [lsf]: the candidates the scan job of the input block [o, e) may still report lie in
   (d_bit s, 32 e]; no queued candidate lies in that range.  From it the label hypothesis
   [ev_fresh] of the liveness runs follows ([fresh_of_front]); it is maintained under the much
   weaker label hypothesis [ev_scan_prog] (a scan() call that finds a magic ends strictly after
   the position it started from).

   [lsf] alone is not inductive: for scan jobs that run on a block that has been shifted out
   of input_q (a zombie) one needs that zombies are non-empty, pairwise disjoint, and that at
   most one running scan is attached to a zombie ([sown] of XScanOwn.v says so only for the
   blocks of input_q).  [lsf'] adds these three clauses; it is inductive ([lsf'_step]) and
   implies [lsf].

   Organisation: the invariant is restated over lists ([frontp], [zombp]); every event except
   input / scan0 / scan1 only takes a "sub-structure" of the state ([ssub]: scan_q, input_q,
   running scans, unord_q shrink, zombies come from old zombies or old input blocks), under
   which the invariant is monotone ([lsx_ssub]). *)
From Coq Require Import List NArith Bool Lia Arith ZifyBool ZifyN ZifyNat.
From LBZ Require Import Gen.Consts SchedX.XState Gen.SchedXTab SchedX.XSet SchedX.XModel SchedX.XLemmas
  SchedX.XFrame SchedX.XInvDefs SchedX.XOps SchedX.XInv SchedX.XInv2 SchedX.XInv3 SchedX.XInv4 SchedX.XSeq SchedX.XCount
  SchedX.XOwn SchedX.XOwnAdv SchedX.XOwnProofs SchedX.XScanOwn SchedX.XLiveDefs.
Import ListNotations.
Local Open Scope N_scope.

(* ---- shapes of input blocks ------------------------------------------------------------------ *)
Definition rend (r : N * N) : N := fst r + snd r.
Definition sep (r r' : N * N) : Prop := r = r' \/ rend r <= fst r' \/ rend r' <= fst r.

Lemma sep_same r r' : sep r r' -> 0 < snd r -> 0 < snd r' -> fst r = fst r' -> r = r'.
Proof. unfold sep, rend. intros [E|[L|L]] P P' EQ; auto; exfalso; lia. Qed.

Lemma sep_point r r' x : sep r r' -> fst r <= x -> x < rend r -> fst r' <= x -> x < rend r' -> r = r'.
Proof. unfold sep. intros [E|[L|L]]; auto; intros; exfalso; lia. Qed.

Lemma in_rng_spec r s : in_rng r s = true <-> fst r <= d_off s /\ d_off s < rend r.
Proof. unfold in_rng, rend. lia. Qed.

Lemma contig_sep h q t : contig h q t -> forall b b', In b q -> In b' q -> sep (bshape b) (bshape b').
Proof.
  revert h; induction q as [|a r IH]; simpl; intros h C b b' Hb Hb'; [tauto|]. destruct C as (C1 & C2 & C3).
  destruct Hb as [->|Hb], Hb' as [->|Hb'].
  - left; auto.
  - right; left. destruct (contig_bounds _ _ _ _ C3 Hb') as (A1 & _). exact A1.
  - right; right. destruct (contig_bounds _ _ _ _ C3 Hb) as (A1 & _). exact A1.
  - eapply IH; eauto.
Qed.

Lemma filter_len_pos {A} (p : A -> bool) x l : In x l -> p x = true -> (1 <= length (filter p l))%nat.
Proof.
  intros H P. assert (X : In x (filter p l)) by (apply filter_In; auto).
  destruct (filter p l); [contradiction|simpl; lia].
Qed.

(* ---- queued candidates ------------------------------------------------------------------------- *)
Definition ubl (us : list unord) : list N := map ubit (filter u_inq us).
Definition clr (U : list N) (lo hi : N) : Prop := forall x, In x U -> x <= lo \/ hi < x.

Lemma ubits_ubl st : ubits st = ubl (x_unords st).
Proof. reflexivity. Qed.

Lemma clear_of_clr st s e : clear_of st s e <-> clr (ubl (x_unords st)) (d_bit s) (32 * e).
Proof.
  unfold clear_of, clr, ubl, unord_q. split.
  - intros H x Hx. apply in_map_iff in Hx. destruct Hx as (u & <- & Hu). auto.
  - intros H u Hu. apply H. apply in_map. exact Hu.
Qed.

Lemma clr_incl U U' lo hi : incl U' U -> clr U lo hi -> clr U' lo hi.
Proof. intros I C x Hx. apply C, I, Hx. Qed.

(* [us'] has no queued candidate that [us] has not *)
Definition usub (us' us : list unord) : Prop :=
  forall u, In u us' -> u_inq u = true -> exists u0, In u0 us /\ u_inq u0 = true /\ u_base u0 = u_base u.

Lemma ubl_usub us' us : usub us' us -> incl (ubl us') (ubl us).
Proof.
  intros H x Hx. unfold ubl in *. apply in_map_iff in Hx. destruct Hx as (u & <- & Hu). apply filter_In in Hu.
  destruct Hu as [Hu Q]. destruct (H u Hu Q) as (u0 & H0 & Q0 & E). apply in_map_iff. exists u0.
  split; [unfold ubit; rewrite E; auto|apply filter_In; auto].
Qed.

Lemma usub_refl us : usub us us.
Proof. intros u Hu Q. exists u. auto. Qed.

Lemma usub_stems us' us us0 : (forall u, In u us' -> exists u1, In u1 us /\ stems u u1) -> usub us us0 -> usub us' us0.
Proof.
  intros H S u Hu Q. destruct (H u Hu) as (u1 & H1 & (E1 & E2 & E3 & E4 & _)).
  destruct (S u1 H1) as (u0 & H0 & Q0 & E0); [congruence|]. exists u0. repeat split; auto. congruence.
Qed.

Lemma usub_drop_link l us us0 : usub us us0 -> usub (drop_link l us) us0.
Proof. apply usub_stems. apply drop_link_stems. Qed.

Lemma usub_drop_links js us us0 : usub us us0 -> usub (drop_links js us) us0.
Proof. apply usub_stems. apply drop_links_stems. Qed.

Lemma usub_filter p us us0 : usub us us0 -> usub (filter p us) us0.
Proof. intros S u Hu Q. apply filter_In in Hu. destruct Hu as [Hu _]. auto. Qed.

Lemma usub_del id us us0 : usub us us0 -> usub (del_unord id us) us0.
Proof. apply usub_filter. Qed.

Definition keeps (f : unord -> unord) : Prop := forall u, u_base (f u) = u_base u /\ (u_inq (f u) = true -> u_inq u = true).

Lemma usub_map f us us0 : keeps f -> usub us us0 -> usub (map f us) us0.
Proof.
  intros K S u Hu Q. apply in_map_iff in Hu. destruct Hu as (u1 & <- & H1). destruct (K u1) as [K1 K2].
  destruct (S u1 H1 (K2 Q)) as (u0 & H0 & Q0 & E0). exists u0. repeat split; auto. congruence.
Qed.

Lemma usub_upd id f us us0 : keeps f -> usub us us0 -> usub (upd_unord id f us) us0.
Proof.
  intros K. unfold upd_unord. apply usub_map. intro u. destruct (u_id u =? id); [apply K|auto].
Qed.

Lemma keeps_end c : keeps (u_set_end c).                 Proof. intro u; simpl; auto. Qed.
Lemma keeps_complete : keeps u_set_complete.             Proof. intro u; simpl; auto. Qed.
Lemma keeps_detach b : keeps (u_detach b).               Proof. intro u; simpl; split; [auto|discriminate]. Qed.
Lemma keeps_ce c : keeps (fun u => u_set_complete (u_set_end c u)). Proof. intro u; simpl; auto. Qed.

Lemma usub_discard p us us0 : usub us us0 -> usub (discard_below p us) us0.
Proof.
  intro S. unfold discard_below. apply usub_map; [|apply usub_filter; exact S].
  intro u. destruct (u_inq u && pos_lt (u_base u) p && negb (u_complete u)); [apply keeps_detach|auto].
Qed.

Lemma usub_flush us us0 : usub us us0 -> usub (flush_unords us) us0.
Proof.
  intro S. unfold flush_unords. apply usub_map; [|apply usub_filter; exact S].
  intro u. destruct (u_inq u) eqn:Q; simpl; [split; [reflexivity|discriminate]|rewrite Q; auto].
Qed.

Create HintDb usb.
#[local] Hint Resolve usub_refl usub_drop_link usub_drop_links usub_del usub_upd usub_discard usub_flush
  keeps_end keeps_complete keeps_detach keeps_ce : usb.

(* ---- the invariant over lists --------------------------------------------------------------------- *)
(* SQ scan_q, IS shapes of input_q, BS shapes of input_q ++ zombies, R running, U bit positions of unord_q *)
Record frontp (SQ : list dbs) (IS BS : list (N * N)) (R : list cont) (U : list N) (tl : N) : Prop := mkfrontp {
  f_q : forall s r, In s SQ -> In r IS -> in_rng r s = true -> 32 * fst r <= d_bit s /\ clr U (d_bit s) (32 * rend r);
  f_r : forall s o r, In (CScan s (Some o)) R -> In r BS -> fst r = o -> 32 * o <= d_bit s /\ clr U (d_bit s) (32 * rend r);
  f_t : forall x, In x U -> x <= 32 * tl
}.

Record zombp (ZS : list (N * N)) (R : list cont) : Prop := mkzombp {
  z_pos : forall r, In r ZS -> 0 < snd r;
  z_sep : forall r r', In r ZS -> In r' ZS -> sep r r';
  z_one : forall r, In r ZS -> (length (filter (att_scan (fst r)) R) <= 1)%nat
}.

(* what [inv], [sown] and [zombp] say about the blocks *)
Record geo (SQ : list dbs) (IS BS : list (N * N)) (R : list cont) (tl : N) : Prop := mkgeo {
  g_pos : forall r, In r BS -> 0 < snd r;
  g_sep : forall r r', In r BS -> In r' BS -> sep r r';
  g_one : forall r, In r IS -> (length (filter (in_rng r) SQ) + length (filter (att_scan (fst r)) R) <= 1)%nat;
  g_att : forall r, In r BS -> (length (filter (att_scan (fst r)) R) <= 1)%nat;
  g_tl : forall r, In r BS -> rend r <= tl
}.

Lemma front_mono SQ SQ' IS IS' BS BS' R R' U U' tl tl' :
  incl SQ' SQ -> incl IS' IS -> incl BS' BS -> (forall s o, In (CScan s (Some o)) R' -> In (CScan s (Some o)) R) ->
  incl U' U -> tl <= tl' -> frontp SQ IS BS R U tl -> frontp SQ' IS' BS' R' U' tl'.
Proof.
  intros HQ HI HB HR HU HT [A B C]. constructor.
  - intros s r Hs Hr IR. destruct (A s r (HQ _ Hs) (HI _ Hr) IR) as [X Y]. split; [exact X|eapply clr_incl; eauto].
  - intros s o r Hc Hr E. destruct (B s o r (HR _ _ Hc) (HB _ Hr) E) as [X Y]. split; [exact X|eapply clr_incl; eauto].
  - intros x Hx. specialize (C x (HU _ Hx)). lia.
Qed.

Lemma zomb_sub SQ IS BS R tl ZS' R' :
  geo SQ IS BS R tl -> (forall r, In r ZS' -> In r BS) ->
  (forall o, (length (filter (att_scan o) R') <= length (filter (att_scan o) R))%nat) -> zombp ZS' R'.
Proof.
  intros [GP GS GO GA GT] HZ HC. constructor.
  - intros r Hr. apply GP. auto.
  - intros r r' Hr Hr'. apply GS; auto.
  - intros r Hr. eapply Nat.le_trans; [apply HC|]. apply GA. auto.
Qed.

(* input: a new block at the tail and its scan job *)
Lemma front_input SQ IS ZS R U t sz :
  frontp SQ IS (IS ++ ZS) R U t -> Forall (fun s => d_off s < t) SQ -> (forall r, In r IS -> rend r <= t) ->
  (forall s o, In (CScan s (Some o)) R -> o < t) ->
  frontp (mkdbs (32 * t) t :: SQ) (IS ++ [(t, sz)]) ((IS ++ [(t, sz)]) ++ ZS) R U (t + sz).
Proof.
  intros [A B C] LT IE RO. constructor.
  - intros s r Hs Hr IR. apply in_rng_spec in IR. destruct Hs as [<-|Hs]; apply in_app_or in Hr; destruct Hr as [Hr|[<-|[]]]; simpl in *.
    + exfalso. specialize (IE r Hr). lia.
    + split; [lia|]. intros x Hx. left. auto.
    + apply A; auto. apply in_rng_spec; auto.
    + exfalso. rewrite Forall_forall in LT. specialize (LT s Hs). lia.
  - intros s o r Hc Hr E. assert (K : In r (IS ++ ZS) \/ r = (t, sz)).
    { rewrite !in_app_iff in *. simpl in Hr. intuition. }
    destruct K as [K| ->]; [apply (B s o r); auto|]. exfalso. specialize (RO s o Hc). simpl in E. lia.
  - intros x Hx. specialize (C x Hx). lia.
Qed.

(* scan0: the job [s] of the block [rb] starts to run *)
Lemma front_scan0 l1 l2 s IS BS R U tl rb :
  geo (l1 ++ s :: l2) IS BS R tl -> incl IS BS -> frontp (l1 ++ s :: l2) IS BS R U tl -> In rb IS -> in_rng rb s = true ->
  frontp (l1 ++ l2) IS BS (CScan s (Some (fst rb)) :: R) U tl.
Proof.
  intros [GP GS GO GA GT] II [A B C] Hrb IR. constructor.
  - intros s2 r Hs Hr. apply A; auto. rewrite in_app_iff in *. simpl. tauto.
  - intros s2 o r [X|Hc] Hr E.
    + inversion X; subst s2 o. assert (r = rb) by (apply sep_same; auto). subst r.
      apply A; auto. apply in_or_app; right; left; auto.
    + apply (B s2 o r); auto.
  - exact C.
Qed.

(* scan1: the job [s] attached to the block [rb] comes back having found a magic at [s'] *)
Lemma front_scan1 SQ IS BS BS' l1 l2 U tl s o rb s' (addc requeue : bool) :
  geo SQ IS BS (l1 ++ CScan s (Some o) :: l2) tl -> incl IS BS -> incl BS' BS ->
  frontp SQ IS BS (l1 ++ CScan s (Some o) :: l2) U tl ->
  In rb BS -> fst rb = o -> d_bit s < d_bit s' -> d_bit s' <= 32 * rend rb ->
  (requeue = true -> o <= d_off s' /\ d_off s' < rend rb) ->
  frontp (if requeue then s' :: SQ else SQ) IS BS' (l1 ++ l2) (if addc then U ++ [d_bit s'] else U) tl.
Proof.
  intros [GP GS GO GA GT] II BI [A B C] Hrb Eo LT LE RQ.
  assert (Hc : In (CScan s (Some o)) (l1 ++ CScan s (Some o) :: l2)) by (apply in_or_app; right; left; auto).
  destruct (B s o rb Hc Hrb Eo) as [B1 B2].
  (* the new candidate and another job standing at [d] on the block [r] *)
  assert (NEW : forall r d, In r BS -> r <> rb -> 32 * fst r <= d -> d_bit s' <= d \/ 32 * rend r < d_bit s').
  { intros r d Hr NE L. destruct (GS r rb Hr Hrb) as [X|[X|X]]; [contradiction| |].
    - right. clear - X Eo B1 LT. lia.
    - left. clear - X LE L. lia. }
  assert (CL : forall r d, In r BS -> r <> rb -> 32 * fst r <= d -> clr U d (32 * rend r) ->
                           clr (if addc then U ++ [d_bit s'] else U) d (32 * rend r)).
  { intros r d Hr NE L K. destruct addc; [|exact K]. intros x Hx. apply in_app_or in Hx.
    destruct Hx as [Hx|[<-|[]]]; [auto|]. apply NEW; auto. }
  assert (F1 : frontp SQ IS BS' (l1 ++ l2) (if addc then U ++ [d_bit s'] else U) tl).
  { constructor.
    - intros s2 r Hs Hr IR. destruct (A s2 r Hs Hr IR) as [X Y]. split; [exact X|]. apply CL; auto.
      intro EQ. subst r. pose proof (GO rb Hr) as O1.
      pose proof (filter_len_pos (in_rng rb) s2 SQ Hs IR) as P1.
      assert (P2 : (1 <= length (filter (att_scan (fst rb)) (l1 ++ CScan s (Some o) :: l2)))%nat).
      { eapply filter_len_pos; [exact Hc|]. simpl. rewrite Eo. apply N.eqb_refl. }
      clear - O1 P1 P2. lia.
    - intros s2 o2 r Hc2 Hr E2.
      assert (Hc2' : In (CScan s2 (Some o2)) (l1 ++ CScan s (Some o) :: l2)).
      { rewrite in_app_iff in *. simpl. tauto. }
      destruct (B s2 o2 r Hc2' (BI _ Hr) E2) as [X Y]. split; [exact X|]. apply CL; auto; [|rewrite E2; exact X].
      intro EQ. subst r. pose proof (GA rb Hrb) as O1.
      rewrite filter_app, app_length in O1. simpl in O1. rewrite Eo, N.eqb_refl in O1. simpl in O1.
      assert (P2 : (1 <= length (filter (att_scan o) (l1 ++ l2)))%nat).
      { eapply filter_len_pos; [exact Hc2|]. simpl. rewrite <- E2, Eo. apply N.eqb_refl. }
      rewrite filter_app, app_length in P2. clear - O1 P2. lia.
    - intros x Hx. destruct addc; [|auto]. apply in_app_or in Hx. destruct Hx as [Hx|[<-|[]]]; auto.
      pose proof (GT rb Hrb) as T1. clear - T1 LE. lia. }
  destruct requeue; [|exact F1]. destruct (RQ eq_refl) as [R1 R2]. destruct F1 as [A1 B1' C1]. constructor; auto.
  intros s2 r [<-|Hs] Hr IR; [|auto].
  assert (r = rb).
  { apply in_rng_spec in IR. destruct IR as [I1 I2]. apply (sep_point r rb (d_off s')); auto. rewrite Eo. exact R1. }
  subst r. split; [clear - B1 LT Eo; lia|]. intros x Hx.
  assert (K : In x U \/ x = d_bit s').
  { destruct addc; auto. apply in_app_or in Hx. destruct Hx as [Hx|[<-|[]]]; auto. }
  destruct K as [K| ->]; [|left; apply N.le_refl]. destruct (B2 x K) as [Y|Y]; [left; clear - Y LT; lia|right; exact Y].
Qed.

(* ---- the invariant on states ------------------------------------------------------------------------ *)
Definition ishapes (st : xstate) : list (N * N) := map bshape (x_input_q st).
Definition zshapes (st : xstate) : list (N * N) := map bshape (x_zombies st).
Definition front (st : xstate) : Prop :=
  frontp (x_scan_q st) (ishapes st) (ishapes st ++ zshapes st) (x_running st) (ubl (x_unords st)) (x_tail_offs st).
Definition zomb (st : xstate) : Prop := zombp (zshapes st) (x_running st).
Definition lsx (st : xstate) : Prop := front st /\ zomb st.

(* [lsf] and what it lacks: zombies are non-empty and pairwise disjoint, and at most one running scan
   is attached to a zombie *)
Record lsf' (st : xstate) : Prop := mklsf' {
  sf_lsf : lsf st;
  sf_zpos : forall z, In z (x_zombies st) -> 0 < ib_size z;
  sf_zsep : forall z z', In z (x_zombies st) -> In z' (x_zombies st) ->
            bshape z = bshape z' \/ ib_end z <= ib_off z' \/ ib_end z' <= ib_off z;
  sf_u : forall z, In z (x_zombies st) -> (length (filter (att_scan (ib_off z)) (x_running st)) <= 1)%nat
}.

Lemma front_lsf st : front st <-> lsf st.
Proof.
  split.
  - intros [A B C]. constructor.
    + intros s b Hs Hb L1 L2. destruct (A s (bshape b)) as [X Y]; auto.
      * apply in_map. exact Hb.
      * apply in_rng_spec. split; [exact L1|exact L2].
      * split; [exact X|apply clear_of_clr; exact Y].
    + intros s o b Hc Hb E. destruct (B s o (bshape b)) as [X Y]; auto.
      * unfold ishapes, zshapes. rewrite <- map_app. apply in_map. exact Hb.
      * split; [exact X|apply clear_of_clr; exact Y].
    + intros u Hu. apply C. unfold ubl. apply in_map. exact Hu.
  - intros [A B C]. constructor.
    + intros s r Hs Hr IR. apply in_map_iff in Hr. destruct Hr as (b & <- & Hb). apply in_rng_spec in IR. destruct IR as [L1 L2].
      destruct (A s b Hs Hb L1 L2) as [X Y]. split; [exact X|apply clear_of_clr in Y; exact Y].
    + intros s o r Hc Hr E. unfold ishapes, zshapes in Hr. rewrite <- map_app in Hr. apply in_map_iff in Hr.
      destruct Hr as (b & <- & Hb). destruct (B s o b Hc Hb E) as [X Y]. split; [exact X|apply clear_of_clr in Y; exact Y].
    + intros x Hx. unfold ubl in Hx. apply in_map_iff in Hx. destruct Hx as (u & <- & Hu). apply C. exact Hu.
Qed.

Lemma lsf'_lsx st : lsf' st <-> lsx st.
Proof.
  split.
  - intros [A B C D]. split; [apply front_lsf; exact A|]. constructor.
    + intros r Hr. apply in_map_iff in Hr. destruct Hr as (z & <- & Hz). apply B. exact Hz.
    + intros r r' Hr Hr'. apply in_map_iff in Hr, Hr'. destruct Hr as (z & <- & Hz), Hr' as (z' & <- & Hz'). apply (C z z'); auto.
    + intros r Hr. apply in_map_iff in Hr. destruct Hr as (z & <- & Hz). apply (D z). exact Hz.
  - intros [A [B C D]]. constructor.
    + apply front_lsf. exact A.
    + intros z Hz. apply (B (bshape z)). apply in_map. exact Hz.
    + intros z z' Hz Hz'. apply (C (bshape z) (bshape z')); apply in_map; auto.
    + intros z Hz. apply (D (bshape z)). apply in_map. exact Hz.
Qed.

Lemma lsf'_lsf st : lsf' st -> lsf st.
Proof. apply sf_lsf. Qed.

Lemma geo_st st : cg st -> sown st -> zomb st ->
  geo (x_scan_q st) (ishapes st) (ishapes st ++ zshapes st) (x_running st) (x_tail_offs st) /\
  (forall r, In r (ishapes st) -> x_head_offs st <= fst r) /\ (forall r, In r (zshapes st) -> rend r <= x_head_offs st).
Proof.
  intros CT [SA SB SC SD] [ZP ZS ZO].
  assert (HI : forall r, In r (ishapes st) -> x_head_offs st <= fst r /\ rend r <= x_tail_offs st /\ 0 < snd r).
  { intros r Hr. apply in_map_iff in Hr. destruct Hr as (b & <- & Hb). apply (contig_bounds _ _ _ _ CT Hb). }
  assert (HZ : forall r, In r (zshapes st) -> rend r <= x_head_offs st).
  { intros r Hr. apply in_map_iff in Hr. destruct Hr as (b & <- & Hb). rewrite Forall_forall in SD. apply (SD b Hb). }
  pose proof (contig_le _ _ _ CT) as HT.
  split; [|split; [intros r Hr; apply HI; auto|exact HZ]]. constructor.
  - intros r Hr. apply in_app_or in Hr. destruct Hr as [Hr|Hr]; [apply HI; auto|apply ZP; auto].
  - intros r r' Hr Hr'. apply in_app_or in Hr, Hr'. destruct Hr as [Hr|Hr], Hr' as [Hr'|Hr'].
    + apply in_map_iff in Hr, Hr'. destruct Hr as (b & <- & Hb), Hr' as (b' & <- & Hb'). eapply contig_sep; eauto.
    + right; right. specialize (HZ r' Hr'). destruct (HI r Hr) as (X & _). clear - HZ X. lia.
    + right; left. specialize (HZ r Hr). destruct (HI r' Hr') as (X & _). clear - HZ X. lia.
    + apply ZS; auto.
  - exact SB.
  - intros r Hr. apply in_app_or in Hr. destruct Hr as [Hr|Hr]; [|apply ZO; auto].
    specialize (SB r Hr). clear - SB. lia.
  - intros r Hr. apply in_app_or in Hr. destruct Hr as [Hr|Hr]; [apply HI; auto|]. specialize (HZ r Hr). clear - HZ HT. lia.
Qed.

(* ---- sub-structures ----------------------------------------------------------------------------------- *)
Record ssub (st st' : xstate) : Prop := mkssub {
  ss_sq : incl (x_scan_q st') (x_scan_q st);
  ss_iq : incl (ishapes st') (ishapes st);
  ss_zq : forall r, In r (zshapes st') -> In r (zshapes st) \/ In r (ishapes st);
  ss_ru : forall s a, In (CScan s a) (x_running st') -> In (CScan s a) (x_running st);
  ss_rc : forall o, (length (filter (att_scan o) (x_running st')) <= length (filter (att_scan o) (x_running st)))%nat;
  ss_un : usub (x_unords st') (x_unords st);
  ss_tl : x_tail_offs st' = x_tail_offs st
}.

Lemma lsx_ssub st st' : cg st -> sown st -> ssub st st' -> lsx st -> lsx st'.
Proof.
  intros CT S [Q I Z RU RC UN TL] [F ZB]. destruct (geo_st st CT S ZB) as (G & _ & _).
  assert (BI : incl (ishapes st' ++ zshapes st') (ishapes st ++ zshapes st)).
  { intros r Hr. apply in_app_or in Hr. apply in_or_app. destruct Hr as [Hr|Hr]; [left; auto|]. destruct (Z r Hr); auto. }
  split.
  - unfold front. rewrite TL. eapply front_mono; try exact F; auto.
    + apply ubl_usub. exact UN.
    + apply N.le_refl.
  - eapply zomb_sub; [exact G| |exact RC]. intros r Hr. apply BI. apply in_or_app. right. exact Hr.
Qed.

Lemma ssub_trans a b c : ssub a b -> ssub b c -> ssub a c.
Proof.
  intros [Q1 I1 Z1 U1 C1 N1 T1] [Q2 I2 Z2 U2 C2 N2 T2]. constructor.
  - eapply incl_tran; eauto.
  - eapply incl_tran; eauto.
  - intros r Hr. destruct (Z2 r Hr) as [X|X]; auto.
  - auto.
  - intro o. eapply Nat.le_trans; eauto.
  - intros u Hu Q. destruct (N2 u Hu Q) as (u1 & H1 & Q1' & E1). destruct (N1 u1 H1 Q1') as (u0 & H0 & Q0 & E0).
    exists u0. repeat split; auto. congruence.
  - congruence.
Qed.

Ltac ss_norm := unfold ishapes, zshapes, add_run, give_unit, fail; xs; autorewrite with xf; xs.
Ltac ss_tac := constructor; ss_norm; auto using incl_refl with usb.

Lemma ssub_refl st : ssub st st.
Proof. ss_tac. Qed.

Lemma ssub_del_run c st st' : del_run c st = Some st' -> ssub st st'.
Proof.
  intro D. destruct (del_run_spec _ _ _ D) as (l1 & l2 & E & ->). constructor; ss_norm; auto using incl_refl with usb.
  - intros s a. rewrite E, !in_app_iff. simpl. tauto.
  - intro o. rewrite E, !filter_app, !app_length. simpl. destruct (att_scan o c); simpl; lia.
Qed.

Lemma ssub_add_run c st : is_scan c = false -> ssub st (add_run c st).
Proof.
  intro NS. constructor; ss_norm; auto using incl_refl with usb.
  - intros s a [X|X]; auto. subst c. discriminate.
  - intro o. simpl. destruct c; simpl in *; try discriminate; lia.
Qed.

Lemma detach_zshapes att st r : In r (zshapes (detach att st)) -> In r (zshapes st).
Proof.
  unfold zshapes, detach. destruct att as [o|]; auto. destruct (has_blk o (x_input_q st)); xs; auto.
  rewrite !in_map_iff. intros (z & <- & Hz). apply filter_In in Hz. destruct Hz as [Hz _]. unfold upd_ref in Hz.
  apply in_map_iff in Hz. destruct Hz as (z0 & <- & Z0). exists z0. split; auto. destruct (ib_off z0 =? o); reflexivity.
Qed.

Lemma ssub_detach att st : ssub st (detach att st).
Proof.
  constructor; unfold ishapes; rewrite ?shape_detach; autorewrite with xf; auto using incl_refl with usb.
  intros r Hr. left. eapply detach_zshapes; eauto.
Qed.

Lemma ssub_attach d st : ssub st (fst (attach d st)).
Proof.
  constructor; unfold ishapes, zshapes; rewrite ?shape_attach; autorewrite with xf; auto using incl_refl with usb.
Qed.

Lemma pop_input_incl lim q : incl (fst (pop_input lim q)) q /\ incl (snd (pop_input lim q)) q.
Proof.
  induction q as [|a r IH]; simpl; [split; apply incl_refl|]. destruct (ib_end a <=? lim).
  - destruct (pop_input lim r) as [p k]. simpl in *. destruct IH as [I1 I2]. split.
    + intros b [<-|Hb]; [left; auto|right; auto].
    + intros b Hb. right. auto.
  - simpl. split; [intros b []|apply incl_refl].
Qed.

Lemma release_zshapes b st r : In r (zshapes (release_blk b st)) -> In r (zshapes st) \/ r = bshape b.
Proof.
  unfold zshapes, release_blk. destruct (ib_ref b =? 1); xs; auto. rewrite map_app, in_app_iff. simpl. intros [X|[<-|[]]]; auto.
Qed.

Lemma fold_release_zshapes l st r : In r (zshapes (fold_left (fun a b => release_blk b a) l st)) ->
  In r (zshapes st) \/ In r (map bshape l).
Proof.
  revert st; induction l as [|b q IH]; simpl; intros st Hr; auto.
  destruct (IH _ Hr) as [X|X]; [|auto]. destruct (release_zshapes _ _ _ X) as [Y|Y]; auto.
Qed.

Lemma adv_scan_incl fuel hd q : incl (adv_scan fuel hd q) q.
Proof.
  intros s Hs. assert (F : Forall (fun x => In x q) (adv_scan fuel hd q)) by (apply adv_scan_forall; apply Forall_forall; auto).
  rewrite Forall_forall in F. auto.
Qed.

Lemma ssub_advance cfg bs st : ssub st (advance cfg bs st).
Proof.
  set (s0 := set_parser_bs bs st). set (sa := adv_input (d_off bs) s0).
  destruct (pop_input_incl (d_off bs) (x_input_q st)) as [PI1 PI2].
  constructor.
  - assert (EQ : x_scan_q (advance cfg bs st) = adv_scan (length (x_scan_q st)) (x_head_offs sa) (x_scan_q st)).
    { unfold advance, adv_scans. xs. autorewrite with xf. subst sa s0. autorewrite with xf. xs. reflexivity. }
    rewrite EQ. apply adv_scan_incl.
  - assert (EI : x_input_q (advance cfg bs st) = snd (pop_input (d_off bs) (x_input_q st))).
    { unfold advance. autorewrite with xf. rewrite adv_input_q. xs. reflexivity. }
    unfold ishapes. rewrite EI. apply incl_map. exact PI2.
  - assert (EZ : x_zombies (advance cfg bs st) = x_zombies sa) by (unfold advance; autorewrite with xf; reflexivity).
    unfold zshapes at 1. rewrite EZ. fold (zshapes sa). subst sa. unfold adv_input. intros r Hr.
    destruct (fold_release_zshapes _ _ _ Hr) as [X|X].
    + left. unfold zshapes in *. subst s0. xs in X. exact X.
    + right. subst s0. xs in X. unfold ishapes. eapply incl_map; [exact PI1|exact X].
  - autorewrite with xf. auto.
  - autorewrite with xf. auto.
  - destruct (adv_fields cfg bs st) as [_ EU]. cbv zeta in EU. rewrite EU.
    destruct (c_advance_drops_link cfg); auto with usb.
  - autorewrite with xf. reflexivity.
Qed.

Lemma ssub_parse_finish cfg g s : ssub s (parse_finish cfg g s).
Proof.
  unfold parse_finish. set (pb' := mkdbs _ _). clearbody pb'.
  match goal with |- ssub _ (if ?c then _ else _) => destruct c end; [ss_tac|].
  destruct (c_finish_drops_link cfg); constructor; ss_norm; auto using incl_refl with usb;
    try (intros x []).
  all: intros r Hr; apply fold_release_zshapes in Hr; unfold zshapes in Hr; xs in Hr; tauto.
Qed.

Lemma ssub_parse_ok cfg lv crc s : ssub s (parse_ok cfg lv crc s).
Proof.
  unfold parse_ok.
  set (s2 := set_unords _ (set_order_q _ s)).
  assert (V2 : ssub s s2) by (subst s2; ss_tac).
  clearbody s2.
  destruct (qmin u_base pos_lt (unord_q s2)) as [u|]; [|eapply ssub_trans; [exact V2|ss_tac]].
  destruct (pos_eq (u_base u) (d_pos (x_parser_bs s))); [|eapply ssub_trans; [exact V2|ss_tac]].
  pose proof (ssub_advance cfg (u_end u) s2) as S3. set (s3 := advance cfg (u_end u) s2) in *. clearbody s3.
  eapply ssub_trans; [exact V2|]. eapply ssub_trans; [exact S3|]. destruct (u_complete u); ss_tac.
Qed.

Lemma ssub_parse1 cfg att r st st' : parse1 cfg att r st = Some st' -> ssub st st'.
Proof.
  intros H. unfold parse1 in H.
  destruct (del_run (CParse att) st) as [s1|] eqn:D; [|discriminate].
  pose proof (ssub_del_run _ _ _ D) as S1.
  match type of H with (if ?c then _ else _) = _ => destruct c; [|discriminate] end.
  pose proof (ssub_detach att s1) as S2. set (s2 := detach att s1) in *. clearbody s2.
  pose proof (ssub_advance cfg (res_bs r) s2) as S3. set (s3 := advance cfg (res_bs r) s2) in *. clearbody s3.
  eapply ssub_trans; [exact S1|]. eapply ssub_trans; [exact S2|]. eapply ssub_trans; [exact S3|]. clear S1 S2 S3 D.
  destruct r as [bs ps|bs g|bs code|bs ps lv crc].
  - match type of H with (if ?c then _ else _) = _ => destruct c; [|discriminate] end. inversion H; subst. ss_tac.
  - match type of H with (if ?c then _ else _) = _ => destruct c; [|discriminate] end. inversion H; subst.
    apply ssub_parse_finish.
  - match type of H with (if ?c then _ else _) = _ => destruct c; [discriminate|] end. inversion H; subst. ss_tac.
  - match type of H with (if ?c then _ else _) = _ => destruct c; [|discriminate] end. inversion H; subst.
    eapply ssub_trans; [|apply ssub_parse_ok]. ss_tac.
Qed.

Lemma ssub_retr1 cfg j att rv cur st st' : retr1 cfg j att rv cur st = Some st' -> ssub st st'.
Proof.
  intros H. unfold retr1 in H.
  destruct (del_run (CRetr j att) st) as [s1|] eqn:D; [|discriminate].
  pose proof (ssub_del_run _ _ _ D) as S1.
  match type of H with (if ?c then _ else _) = _ => destruct c; [|discriminate] end.
  pose proof (ssub_detach att s1) as S2. set (s2 := detach att s1) in *. clearbody s2.
  eapply ssub_trans; [exact S1|]. eapply ssub_trans; [exact S2|]. clear S1 S2 D.
  destruct (x_parsing_done s2).
  { inversion H; subst. destruct (c_retr_done_drops_link cfg); ss_tac. }
  cbv zeta in H.
  match type of H with (if ?c then _ else _) = _ => destruct c end.
  { inversion H; subst. destruct (c_retr_abort_drops_link cfg); ss_tac. }
  match type of H with context [d_off cur <? x_head_offs ?s] => set (s3 := s) in H end.
  assert (S3 : ssub s2 s3).
  { subst s3. match goal with |- context [if ?c then _ else _] => destruct c end; [apply ssub_advance|].
    destruct (r_link j); ss_tac. }
  clearbody s3. eapply ssub_trans; [exact S3|]. clear S3.
  destruct (rv =? MORE).
  - match type of H with (if ?c then _ else _) = _ => destruct c end; inversion H; subst.
    + destruct (c_stale_drops_link cfg); ss_tac.
    + ss_tac.
  - inversion H; subst. eapply ssub_trans; [|apply ssub_add_run; reflexivity].
    match goal with |- context [if ?c then _ else _] => destruct c end; destruct (r_link j); ss_tac.
Qed.

(* ---- the three events that are not sub-structures ------------------------------------------------------- *)
Lemma lsx_input sz m st st' : inv st -> sown st -> lsx st -> input sz m st = Some st' -> lsx st'.
Proof.
  unfold input. intros IV S [F ZB] H. match type of H with (if ?c then _ else _) = _ => destruct c eqn:C; [|discriminate] end.
  destruct (x_parsing_done st); inversion H; subst; [split; auto|]. clear H C.
  pose proof (i_contig _ IV) as CT. destruct S as [SA SB SC SD].
  split.
  - unfold front, ishapes, zshapes. xs. rewrite map_app. cbn [map bshape ib_off ib_size].
    apply front_input.
    + exact F.
    + exact SA.
    + intros r Hr. apply in_map_iff in Hr. destruct Hr as (b & <- & Hb). apply (contig_bounds _ _ _ _ CT Hb).
    + intros s o Hc. destruct (SC _ _ Hc) as (o' & E & _ & LT). inversion E; subst. exact LT.
  - unfold zomb, zshapes. xs. exact ZB.
Qed.

Lemma lsx_scan0 st st' : inv st -> sown st -> lsx st -> scan0 st = Some st' -> lsx st'.
Proof.
  unfold scan0. intros IV S [F ZB] H. destruct (selects TScan st); [|discriminate].
  destruct (qmin d_pos pos_lt (x_scan_q st)) as [s|] eqn:Q; [|discriminate].
  destruct (remove_one dbs_eqb s (x_scan_q st)) as [q|] eqn:R; [|discriminate].
  set (st1 := set_scan_q q (set_work_units (N.pred (x_work_units st)) st)) in *.
  destruct (attach s st1) as [st2 att] eqn:A.
  assert (E2 : st2 = fst (attach s st1)) by (rewrite A; reflexivity).
  assert (EA : att = snd (attach s st1)) by (rewrite A; reflexivity).
  inversion H; subst st'. clear H.
  pose proof (i_contig _ IV) as CT.
  destruct (geo_st st CT S ZB) as (G & GI & GZ).
  destruct S as [SA SB SC SD].
  destruct (remove_one_split _ dbs_eqb_eq _ _ _ R) as (l1 & l2 & EQ & Eq).
  assert (Hs : In s (x_scan_q st)) by (rewrite EQ; apply in_or_app; right; left; auto).
  assert (LT : d_off s < x_tail_offs st) by (rewrite Forall_forall in SA; auto).
  assert (HD : x_head_offs st <= d_off s) by (pose proof (i_scan _ IV) as X; rewrite Forall_forall in X; apply X; auto).
  destruct (find_blk_contig (d_off s) _ _ _ CT HD LT) as [b FB].
  destruct (find_blk_spec _ _ _ _ CT HD b FB) as (Hb & B1 & B2).
  assert (ATT : att = Some (ib_off b)).
  { rewrite EA. unfold attach. subst st1. xs.
    destruct (can_attach_assert _ s && (d_off s <=? x_tail_offs st)); replace (d_off s =? x_tail_offs st) with false by lia;
      xs; rewrite FB; reflexivity. }
  assert (Hrb : In (bshape b) (ishapes st)) by (apply in_map; exact Hb).
  assert (II : incl (ishapes st) (ishapes st ++ zshapes st)) by (intros r Hr; apply in_or_app; left; exact Hr).
  split.
  - unfold front, ishapes, zshapes, add_run. xs. rewrite E2, shape_attach. autorewrite with xf. subst st1. xs.
    rewrite Eq, ATT. change (ib_off b) with (fst (bshape b)).
    unfold front in F. rewrite EQ in F, G. apply front_scan0; auto.
    apply in_rng_spec. split; [exact B1|exact B2].
  - destruct ZB as [ZP ZS ZO]. unfold zomb, zshapes, add_run. xs. rewrite E2. autorewrite with xf. subst st1. xs.
    constructor; auto. intros r Hr. specialize (ZO r Hr). rewrite ATT. simpl.
    destruct (ib_off b =? fst r) eqn:EO; [|exact ZO]. exfalso. apply N.eqb_eq in EO.
    specialize (GZ r Hr). specialize (ZP r Hr). specialize (GI _ Hrb). simpl in GI. unfold rend in GZ. clear - EO GZ ZP GI. lia.
Qed.

Lemma dbs_norm_bit s : dbs_norm s = true -> d_bit s <= 32 * d_off s.
Proof. unfold dbs_norm. lia. Qed.

(* the block a running scan job is attached to *)
Lemma att_end_block o st : 0 < att_end (Some o) st ->
  exists b, In b (x_input_q st ++ x_zombies st) /\ ib_off b = o /\ att_end (Some o) st = ib_end b.
Proof.
  unfold att_end. destruct (find (fun b => ib_off b =? o) (x_input_q st ++ x_zombies st)) as [b|] eqn:FD; [|lia].
  intros _. apply find_some in FD. destruct FD as [F1 F2]. apply N.eqb_eq in F2. exists b. auto.
Qed.

Lemma lsx_scan1 cfg s att found s' more st st' :
  inv st -> sown st -> (found = true -> d_bit s < d_bit s') -> lsx st ->
  scan1 cfg s att found s' more st = Some st' -> lsx st'.
Proof.
  intros IV S PR [F ZB] H. unfold scan1 in H.
  destruct (del_run (CScan s att) st) as [s1|] eqn:D; [|discriminate].
  pose proof (ssub_del_run _ _ _ D) as SS1.
  destruct (del_run_spec _ _ _ D) as (l1 & l2 & E & ES1).
  pose proof (i_contig _ IV) as CT.
  destruct (geo_st st CT S ZB) as (G & GI & GZ).
  assert (RUN : exists o, att = Some o).
  { destruct S as [_ _ C _]. destruct (C s att) as (o & EA & _); [|eauto]. rewrite E. apply in_or_app. right. left. auto. }
  destruct RUN as (o & ->).
  assert (F1 : x_input_q s1 = x_input_q st /\ x_zombies s1 = x_zombies st) by (subst s1; xs; auto).
  destruct F1 as (IQ1 & ZQ1).
  set (aend := att_end (Some o) s1) in *.
  pose proof (ssub_detach (Some o) s1) as SS2.
  assert (F2 : ishapes (detach (Some o) s1) = ishapes st /\ x_tail_offs (detach (Some o) s1) = x_tail_offs st /\
               x_scan_q (detach (Some o) s1) = x_scan_q st /\ x_running (detach (Some o) s1) = l1 ++ l2 /\
               x_unords (detach (Some o) s1) = x_unords st).
  { unfold ishapes. rewrite shape_detach. autorewrite with xf. subst s1. xs. auto 10. }
  set (s2 := detach (Some o) s1) in *. destruct F2 as (IQ2 & TL2 & SQ2 & RU2 & UN2).
  assert (SS : ssub st s2) by (eapply ssub_trans; eauto).
  destruct (negb found || x_parsing_done s2) eqn:FD.
  { inversion H; subst st'. eapply lsx_ssub; [exact CT|exact S| |split; auto]. eapply ssub_trans; [exact SS|ss_tac]. }
  match type of H with (if ?c then _ else _) = _ => destruct c eqn:CK; [|discriminate] end. bool_hyps.
  assert (FT : found = true) by (destruct found; auto; discriminate). specialize (PR FT).
  match goal with K : dbs_norm s' = true |- _ => pose proof (dbs_norm_bit _ K) as NB end.
  (* the block the job is attached to *)
  assert (AE : exists b, In b (x_input_q st ++ x_zombies st) /\ ib_off b = o /\ aend = ib_end b).
  { rewrite <- IQ1, <- ZQ1. apply att_end_block. fold aend.
    match goal with K : (d_off s' <=? aend) = true |- _ => clear - K NB PR; lia end. }
  destruct AE as (b & Hb & BO & AE).
  assert (Hrb : In (bshape b) (ishapes st ++ zshapes st)).
  { unfold ishapes, zshapes. rewrite <- map_app. apply in_map. exact Hb. }
  set (s3 := if pos_le (d_pos s') (d_pos (x_parser_bs s2)) || (c_scan_job_checks_head cfg && (d_off s' <? x_head_offs s2)) then give_unit s2
             else if c_scan_checks_unord_cap cfg && unord_full s2 then give_unit s2
             else set_retr_q (mkrjob (d_pos s') s' (Some (x_next_uid s2)) :: x_retr_q s2)
                   (set_next_uid (x_next_uid s2 + 1)
                      (set_unords (x_unords s2 ++ [mkunord (x_next_uid s2) (d_pos s') s' false false true]) s2))) in *.
  assert (V3 : sview s2 s3).
  { subst s3. repeat match goal with |- context [if ?c then _ else _] => destruct c end; sv_tac. }
  assert (UE : exists addc : bool, ubl (x_unords s3) = if addc then ubl (x_unords st) ++ [d_bit s'] else ubl (x_unords st)).
  { subst s3. repeat match goal with |- context [if ?c then _ else _] => destruct c end;
      [exists false|exists false|exists true]; unfold give_unit; xs; rewrite UN2; auto.
    unfold ubl. rewrite filter_app, map_app. reflexivity. }
  destruct UE as (addc & UE).
  destruct V3 as [V1 V2 V4 V5 V6 V7].
  assert (IS3 : ishapes s3 = ishapes st) by (unfold ishapes in *; congruence).
  assert (ZS3 : forall r, In r (zshapes s3) -> In r (ishapes st ++ zshapes st)).
  { intros r Hr. unfold zshapes in Hr. rewrite V4 in Hr. destruct (ss_zq _ _ SS r Hr); apply in_or_app; auto. }
  assert (RC : forall o0, (length (filter (att_scan o0) (l1 ++ l2)) <= length (filter (att_scan o0) (x_running st)))%nat).
  { intro o0. rewrite <- RU2. apply (ss_rc _ _ SS). }
  clearbody s3.
  set (requeue := more && (negb (c_requeue_scan_checks_head cfg) || (x_head_offs s3 <=? d_off s'))) in *.
  assert (EQS : x_scan_q st' = (if requeue then s' :: x_scan_q st else x_scan_q st) /\ ishapes st' = ishapes st /\
                zshapes st' = zshapes s3 /\ x_running st' = l1 ++ l2 /\ x_tail_offs st' = x_tail_offs st /\
                ubl (x_unords st') = (if addc then ubl (x_unords st) ++ [d_bit s'] else ubl (x_unords st))).
  { destruct requeue; inversion H; subst st'; unfold ishapes, zshapes in *; xs; rewrite ?V1, ?V2, ?V6, ?V7, ?SQ2, ?RU2, ?TL2; auto 10. }
  destruct EQS as (Q' & I' & Z' & R' & T' & U').
  split.
  - unfold front. rewrite Q', I', Z', R', T', U'. unfold front in F. rewrite E in F, G.
    eapply (front_scan1 _ _ _ _ _ _ _ _ s o (bshape b)); eauto.
    + intros r Hr. apply in_or_app. left. exact Hr.
    + intros r Hr. apply in_app_or in Hr. destruct Hr as [Hr|Hr]; [apply in_or_app; left; exact Hr|auto].
    + change (rend (bshape b)) with (ib_end b). rewrite <- AE.
      match goal with K : (d_off s' <=? aend) = true |- _ => clear - K NB; lia end.
    + intro RQ. change (rend (bshape b)) with (ib_end b). rewrite <- AE. subst requeue. bool_hyps. subst more.
      match goal with K : Bool.eqb true _ = true |- _ => apply eqb_prop in K; symmetry in K; rename K into MO end.
      match goal with K : (d_off s <=? d_off s') = true |- _ => rename K into OS end.
      destruct (f_r _ _ _ _ _ _ F s o (bshape b)) as [X _]; auto; [apply in_or_app; right; left; auto|].
      destruct S as [_ _ C _]. destruct (C s (Some o)) as (o' & EA & OL & _); [rewrite E; apply in_or_app; right; left; auto|].
      inversion EA; subst o'. clear - MO OS OL. lia.
  - unfold zomb. rewrite Z', R'. rewrite E in G. eapply zomb_sub; [exact G|exact ZS3|]. rewrite <- E. exact RC.
Qed.

(* ---- the invariant is inductive --------------------------------------------------------------------------- *)
Lemma lsx_init n tin tout ultra : lsx (init_state n tin tout ultra).
Proof.
  split.
  - unfold front. simpl. constructor; [intros s r []|intros s o r []|intros x []].
  - unfold zomb. simpl. constructor; [intros r []|intros r r' []|intros r []].
Qed.

Theorem lsx_step cfg st e st' :
  inv st -> sown st -> ev_scan_prog e -> lsx st -> step cfg st e = Some st' -> lsx st'.
Proof.
  intros IV S EP L H. unfold step in H. destruct (x_failed st); [discriminate|].
  pose proof (i_contig _ IV) as CT.
  assert (SUB : ssub st st' -> lsx st') by (intro X; eapply lsx_ssub; eauto).
  destruct e.
  - eapply lsx_input; eauto.
  - apply SUB. unfold reader_eof in H. destruct (x_eof st); inversion H. ss_tac.
  - apply SUB. unfold written in H. destruct (0 <? x_outq st); inversion H. ss_tac.
  - apply SUB. unfold parse0 in H. destruct (selects TParse st); [|discriminate].
    match type of H with context [attach ?a ?b] => destruct (attach a b) as [s2 att] eqn:A; assert (E2 : s2 = fst (attach a b)) by (rewrite A; auto) end.
    inversion H; subst st'. eapply ssub_trans; [|apply ssub_add_run; reflexivity]. rewrite E2.
    eapply ssub_trans; [|apply ssub_attach]. ss_tac.
  - apply SUB. eapply ssub_parse1; eauto.
  - apply SUB. unfold retr0 in H. destruct (selects TRetrieve st); [|discriminate]. destruct (take_min rjob_eqb rkey j (x_retr_q st)); [|discriminate].
    match type of H with context [attach ?a ?b] => destruct (attach a b) as [s2 att] eqn:A; assert (E2 : s2 = fst (attach a b)) by (rewrite A; auto) end.
    inversion H; subst st'. eapply ssub_trans; [|apply ssub_add_run; reflexivity]. rewrite E2.
    eapply ssub_trans; [|apply ssub_attach]. ss_tac.
  - apply SUB. eapply ssub_retr1; eauto.
  - apply SUB. unfold retr2 in H. destruct (del_run (CRetr2 e) st) as [s1|] eqn:D; [|discriminate]. inversion H; subst.
    eapply ssub_trans; [eapply ssub_del_run; eauto|]. ss_tac.
  - apply SUB. unfold emit0 in H. destruct (selects TEmit st); [|discriminate]. destruct (qmin e_base pos_lt (x_emit_q st)); [|discriminate].
    destruct (remove_one ejob_eqb e (x_emit_q st)) as [q|]; [|discriminate]. inversion H; subst st'.
    eapply ssub_trans; [|apply ssub_add_run; reflexivity]. ss_tac.
  - apply SUB. unfold emit1 in H. destruct (del_run (CEmit e) st) as [s1|] eqn:D; [|discriminate].
    eapply ssub_trans; [eapply ssub_del_run; eauto|].
    repeat match type of H with context [if ?c then _ else _] => destruct c end; inversion H; subst; ss_tac.
  - apply SUB. unfold reorder in H. destruct (selects TReorder st); [|discriminate]. destruct (qmin o_base pos_lt (x_reord_q st)); [|discriminate].
    destruct (remove_one oblk_eqb o (x_reord_q st)); [|discriminate]. xs in H.
    destruct (x_order_q st); [inversion H; ss_tac|].
    repeat match type of H with context [if ?c then _ else _] => destruct c end; inversion H; subst; ss_tac.
  - eapply lsx_scan0; eauto.
  - eapply lsx_scan1; eauto. simpl in EP. intro FT. subst found. exact EP.
Qed.

Lemma lsf'_init n tin tout ultra : lsf' (init_state n tin tout ultra).
Proof. apply lsf'_lsx. apply lsx_init. Qed.

Lemma lsf_init n tin tout ultra : lsf (init_state n tin tout ultra).
Proof. apply lsf'_lsf. apply lsf'_init. Qed.

Theorem lsf'_step cfg st e st' :
  cfg_safe cfg -> inv st -> sown st -> ev_scan_prog e -> lsf' st -> step cfg st e = Some st' -> lsf' st'.
Proof. intros _ IV S EP L H. apply lsf'_lsx. apply lsf'_lsx in L. eapply lsx_step; eauto. Qed.

Corollary lsf_step cfg st e st' :
  cfg_safe cfg -> inv st -> sown st -> ev_scan_prog e -> lsf' st -> step cfg st e = Some st' -> lsf st'.
Proof. intros CS IV S EP L H. apply lsf'_lsf. eapply lsf'_step; eauto. Qed.

(* ---- the label hypothesis [ev_fresh] ------------------------------------------------------------------------- *)
Theorem fresh_of_front cfg st e st' :
  cfg_safe cfg -> inv st -> own st -> sown st -> lsf st -> ev_scan_prog e -> step cfg st e = Some st' -> ev_fresh st e.
Proof.
  intros _ IV OW S L EP H. destruct e; try exact I. destruct found; [|exact I]. simpl in EP. simpl.
  unfold step in H. destruct (x_failed st); [discriminate|]. unfold scan1 in H.
  destruct (del_run (CScan s att) st) as [s1|] eqn:D; [|discriminate].
  destruct (del_run_spec _ _ _ D) as (l1 & l2 & E & ES1).
  assert (Hc : In (CScan s att) (x_running st)) by (rewrite E; apply in_or_app; right; left; auto).
  assert (RUN : exists o, att = Some o) by (destruct S as [_ _ C _]; destruct (C s att Hc) as (o & EA & _); eauto).
  destruct RUN as (o & ->).
  assert (F1 : x_input_q s1 = x_input_q st /\ x_zombies s1 = x_zombies st) by (subst s1; xs; auto).
  destruct F1 as (IQ1 & ZQ1).
  set (aend := att_end (Some o) s1) in *.
  assert (PD : x_parsing_done (detach (Some o) s1) = x_parsing_done st) by (autorewrite with xf; subst s1; xs; reflexivity).
  set (s2 := detach (Some o) s1) in *. clearbody s2.
  destruct (x_parsing_done s2) eqn:P2.
  { (* unord_q is empty once the parser is done *)
    destruct OW as [OP _]. pose proof (o_noinq _ _ _ OP (eq_sym PD)) as NQ.
    unfold ubits, unord_q. intro Hin. apply in_map_iff in Hin. destruct Hin as (u & _ & Hu). apply filter_In in Hu.
    destruct Hu as [Hu Q]. rewrite Forall_forall in NQ. rewrite (NQ u Hu) in Q. discriminate. }
  simpl in H.
  match type of H with (if ?c then _ else _) = _ => destruct c eqn:CK; [|discriminate] end. bool_hyps.
  match goal with K : dbs_norm s' = true |- _ => pose proof (dbs_norm_bit _ K) as NB end.
  match goal with K : (d_off s' <=? aend) = true |- _ => rename K into LE end.
  assert (AE : exists b, In b (x_input_q st ++ x_zombies st) /\ ib_off b = o /\ aend = ib_end b).
  { rewrite <- IQ1, <- ZQ1. apply att_end_block. fold aend. clear - LE NB EP. lia. }
  destruct AE as (b & Hb & BO & AE).
  destruct (sf_r _ L s o b Hc Hb BO) as [_ CL].
  unfold ubits. intro Hin. apply in_map_iff in Hin. destruct Hin as (u & EU & Hu).
  destruct (CL u Hu) as [X|X]; rewrite EU in X; rewrite <- AE in *; clear - X EP LE NB; lia.
Qed.

(* ---- runs under [ev_scan_prog] are runs under [ev_fresh] -------------------------------------------------------- *)
Lemma sreach_inv cfg n tin tout ultra st :
  cfg_safe cfg -> cfg_drops cfg -> sreach cfg (init_state n tin tout ultra) st ->
  lreach cfg (init_state n tin tout ultra) st /\ inv st /\ sown st /\ lsf' st /\ (x_failed st = None -> own st).
Proof.
  intros CS CD R. induction R as [|st e st' R (LR & IV & S & L & OW) EV EP H].
  - split; [constructor|]. split; [apply inv_init|]. split; [apply sown_init|]. split; [apply lsf'_init|].
    intros _. apply own_init.
  - pose proof (step_not_failed _ _ _ _ H) as NF. specialize (OW NF).
    assert (FR : ev_fresh st e) by (eapply fresh_of_front; eauto; apply lsf'_lsf; exact L).
    split; [econstructor; eauto|]. split; [eapply inv_step; eauto|]. split; [eapply sown_step; eauto|].
    split; [eapply lsf'_step; eauto|]. intro NF'. eapply own_step; eauto.
Qed.

Theorem sreach_lreach cfg n tin tout ultra st :
  cfg_safe cfg -> cfg_drops cfg -> sreach cfg (init_state n tin tout ultra) st -> lreach cfg (init_state n tin tout ultra) st.
Proof. intros CS CD R. apply (sreach_inv _ _ _ _ _ _ CS CD R). Qed.

Theorem lsf'_sreach cfg n tin tout ultra st :
  cfg_safe cfg -> cfg_drops cfg -> sreach cfg (init_state n tin tout ultra) st -> lsf' st.
Proof. intros CS CD R. apply (sreach_inv _ _ _ _ _ _ CS CD R). Qed.

Theorem lsf_sreach cfg n tin tout ultra st :
  cfg_safe cfg -> cfg_drops cfg -> sreach cfg (init_state n tin tout ultra) st -> lsf st.
Proof. intros CS CD R. apply lsf'_lsf. eapply lsf'_sreach; eauto. Qed.

Print Assumptions lsf'_step.
Print Assumptions fresh_of_front.
Print Assumptions sreach_lreach.
Print Assumptions lsf_sreach.
