(* The unlocked computations as oracles, the sequential decoding they define,
   and which event labels are consistent with them.

   [next_hdr ps p]   what the parser finds when it runs from parser state [ps]
                     at bit position [p] with all the input at hand
   [blk_* b]         what retrieve()/decode() give for a block whose data start
                     at bit [b] (end position, status, size, CRC) - for EVERY
                     bit position, block or not
   [chunk_* b k]     status and size of the k-th output buffer of that block
   The scanner has no oracle: scan events are unconstrained. *)
From Coq Require Import List NArith Bool Lia.
From LBZ Require Import Gen.Consts SchedX.XState Gen.SchedXTab SchedX.XSet SchedX.XModel.
Import ListNotations.
Local Open Scope N_scope.

Inductive hres :=
| HBlock (ps' : N) (base : dbs) (lv crc : N)
| HFinish (eof_error : bool)
| HErr (code : N).

Record oracle := mkoracle {
  next_hdr : N -> N -> hres;
  blk_end : N -> dbs;
  blk_status : N -> N;
  blk_size : N -> N;
  blk_crc : N -> N;
  chunk_status : N -> N -> N;
  chunk_size : N -> N -> N }.

Section Seq.
  Variable O : oracle.

  (* status of the k-th buffer of block b as do_reorder sees it *)
  Definition out_status (b k : N) : N :=
    if blk_status O b =? OK then chunk_status O b k else blk_status O b.

  Definition eff_status (lv crc b k : N) : N :=
    let s1 := if lv * 100000 <? blk_size O b then E_ERR_OVERFLOW else out_status b k in
    if s1 =? MORE then MORE
    else if (s1 =? OK) && negb (blk_crc O b =? crc) then E_ERR_BLKCRC else s1.

  Definition wr := (pos * N)%type.      (* what sink_write_buffer receives: (base, size) *)

  (* the buffers of one block from the k-th on; false = the block fails *)
  Inductive BlockOut (b lv crc : N) : N -> list wr -> bool -> Prop :=
  | BO_more k l r : eff_status lv crc b k = MORE -> BlockOut b lv crc (k + 1) l r ->
                    BlockOut b lv crc k (((b, k), chunk_size O b k) :: l) r
  | BO_ok k : eff_status lv crc b k = OK -> BlockOut b lv crc k [((b, k), chunk_size O b k)] true
  | BO_err k : eff_status lv crc b k <> MORE -> eff_status lv crc b k <> OK -> BlockOut b lv crc k [] false.

  (* the sequential decoding: parser, then the block at the position the parser
     arrived at, then the parser again from the end of that block *)
  Inductive SeqDec : N -> N -> list wr -> bool -> Prop :=
  | SD_block ps p ps' base lv crc l1 l2 r :
      next_hdr O ps p = HBlock ps' base lv crc -> BlockOut (d_bit base) lv crc 0 l1 true ->
      SeqDec ps' (d_bit (blk_end O (d_bit base))) l2 r -> SeqDec ps p (l1 ++ l2) r
  | SD_blockfail ps p ps' base lv crc l1 :
      next_hdr O ps p = HBlock ps' base lv crc -> BlockOut (d_bit base) lv crc 0 l1 false ->
      SeqDec ps p l1 false
  | SD_finish ps p e : next_hdr O ps p = HFinish e -> SeqDec ps p [] (negb e)
  | SD_err ps p c : next_hdr O ps p = HErr c -> SeqDec ps p [] false.

  (* ---- consistency of an event label with the oracles, in state [st] ---- *)
  Definition finish_eof_error (bs : dbs) (g : N) (st : xstate) : bool :=
    let live := 32 * d_off bs - d_bit bs + g in
    let off' := if 32 <=? live then N.pred (d_off bs) else d_off bs in
    let live' := 32 * off' - (d_bit bs - g) in
    (off' =? x_tail_offs st) && (live' <? 8 * x_eof_missing st).

  Definition ev_ok (st : xstate) (e : event) : Prop :=
    match e with
    | EvParse1 _ (PMore bs ps') =>
        next_hdr O ps' (d_bit bs) = next_hdr O (x_par st) (d_bit (x_parser_bs st))
    | EvParse1 _ (POk bs ps' lv crc) =>
        next_hdr O (x_par st) (d_bit (x_parser_bs st)) = HBlock ps' bs lv crc
    | EvParse1 _ (PFinish bs g) =>
        next_hdr O (x_par st) (d_bit (x_parser_bs st)) = HFinish (finish_eof_error bs g st)
    | EvParse1 _ (PErr bs c) =>
        next_hdr O (x_par st) (d_bit (x_parser_bs st)) = HErr c
    | EvRetr1 j _ rv cur =>
        rv <> MORE -> rv = blk_status O (fst (r_base j)) /\ cur = blk_end O (fst (r_base j))
    | EvEmit1 e rv size crc blksz =>
        rv = out_status (fst (e_base e)) (snd (e_base e)) /\ size = chunk_size O (fst (e_base e)) (snd (e_base e)) /\
        blksz = blk_size O (fst (e_base e)) /\ (rv <> MORE -> crc = blk_crc O (fst (e_base e)))
    | _ => True
    end.

  (* a run all of whose labels are consistent *)
  Inductive oreach (cfg : xcfg) (s0 : xstate) : xstate -> Prop :=
  | oreach_init : oreach cfg s0 s0
  | oreach_step st e st' : oreach cfg s0 st -> ev_ok st e -> step cfg st e = Some st' -> oreach cfg s0 st'.
End Seq.
