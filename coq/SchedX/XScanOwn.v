(* Capacity of scan_q: at most one scan job (queued or running) per live input block.
   pqueue_init(scan_q, in_slots) and deque_init(input_q, in_slots): length scan_q <= length input_q. *)
From Coq Require Import List NArith Bool Lia Arith ZifyBool ZifyN ZifyNat.
From LBZ Require Import Gen.Consts SchedX.XState Gen.SchedXTab SchedX.XSet SchedX.XModel SchedX.XLemmas
  SchedX.XFrame SchedX.XInvDefs SchedX.XOps SchedX.XInv SchedX.XInv2 SchedX.XInv3 SchedX.XInv4 SchedX.XCount.
Import ListNotations.
Local Open Scope N_scope.

Definition bshape (b : inblk) : N * N := (ib_off b, ib_size b).
Definition in_rng (r : N * N) (s : dbs) : bool := (fst r <=? d_off s) && (d_off s <? fst r + snd r).
Definition att_scan (o : N) (c : cont) : bool := match c with CScan _ (Some o') => o' =? o | _ => false end.
Definition is_scan (c : cont) : bool := match c with CScan _ _ => true | _ => false end.

Record sownp (SQ : list dbs) (IS : list (N * N)) (ZQ : list inblk) (hd tl : N) (R : list cont) : Prop := mksownp {
  s_lt : Forall (fun s => d_off s < tl) SQ;
  s_one : forall r, In r IS -> (length (filter (in_rng r) SQ) + length (filter (att_scan (fst r)) R) <= 1)%nat;
  s_run : forall s att, In (CScan s att) R -> exists o, att = Some o /\ o <= d_off s /\ o < tl;
  s_zomb : Forall (fun z => ib_end z <= hd) ZQ
}.

Definition sown (st : xstate) : Prop :=
  sownp (x_scan_q st) (map bshape (x_input_q st)) (x_zombies st) (x_head_offs st) (x_tail_offs st) (x_running st).

(* ---- list-level transfer lemmas ------------------------------------------------------------ *)
Lemma shape_upd_ref f o q : map bshape (upd_ref f o q) = map bshape q.
Proof. unfold upd_ref. rewrite map_map. apply map_ext. intro b. destruct (ib_off b =? o); reflexivity. Qed.

Lemma sownp_running SQ IS ZQ hd tl R R' :
  (forall o, (length (filter (att_scan o) R') <= length (filter (att_scan o) R))%nat) ->
  (forall s att, In (CScan s att) R' -> In (CScan s att) R) ->
  sownp SQ IS ZQ hd tl R -> sownp SQ IS ZQ hd tl R'.
Proof.
  intros HC HI [A B C D]. constructor; auto.
  - intros r Hr. specialize (B r Hr). specialize (HC (fst r)). lia.
Qed.

Lemma sownp_del SQ IS ZQ hd tl l1 c l2 : sownp SQ IS ZQ hd tl (l1 ++ c :: l2) -> sownp SQ IS ZQ hd tl (l1 ++ l2).
Proof.
  apply sownp_running.
  - intro o. rewrite !filter_app, !app_length. simpl. destruct (att_scan o c); simpl; lia.
  - intros s att. rewrite !in_app_iff. simpl. tauto.
Qed.

Lemma sownp_add SQ IS ZQ hd tl c R : is_scan c = false -> sownp SQ IS ZQ hd tl R -> sownp SQ IS ZQ hd tl (c :: R).
Proof.
  intro NS. apply sownp_running.
  - intro o. simpl. destruct c; simpl in *; try discriminate; lia.
  - intros s att [X|X]; auto. subst c. discriminate.
Qed.

Lemma filter_len_le {A} (p : A -> bool) l l' : (forall q, (length (filter q l') <= length (filter q l))%nat) ->
  (length (filter p l') <= length (filter p l))%nat.
Proof. auto. Qed.

Lemma sownp_subq SQ SQ' IS ZQ hd tl R :
  (forall q, (length (filter q SQ') <= length (filter q SQ))%nat) -> (forall P, Forall P SQ -> Forall P SQ') ->
  sownp SQ IS ZQ hd tl R -> sownp SQ' IS ZQ hd tl R.
Proof.
  intros HC HF [A B C D]. constructor; auto.
  intros r Hr. specialize (B r Hr). specialize (HC (in_rng r)). lia.
Qed.

Lemma remove_one_count {A} (eqb : A -> A -> bool) (eqb_eq : forall a b, eqb a b = true -> a = b) x l l' q :
  remove_one eqb x l = Some l' -> (length (filter q l') <= length (filter q l))%nat.
Proof.
  intro R. destruct (remove_one_split _ eqb_eq _ _ _ R) as (l1 & l2 & -> & ->).
  rewrite !filter_app, !app_length. simpl. destruct (q x); simpl; lia.
Qed.

Lemma adv_scan_count fuel hd q p : (length (filter p (adv_scan fuel hd q)) <= length (filter p q))%nat.
Proof.
  revert q; induction fuel as [|f IH]; intro q; simpl; auto.
  destruct (qmin d_pos pos_lt q) as [s|]; auto. destruct (d_off s <? hd); auto.
  destruct (remove_one dbs_eqb s q) as [q'|] eqn:R; auto.
  eapply Nat.le_trans; [apply IH|]. eapply remove_one_count; eauto using dbs_eqb_eq.
Qed.

Lemma adv_scan_forall fuel hd q (P : dbs -> Prop) : Forall P q -> Forall P (adv_scan fuel hd q).
Proof.
  revert q; induction fuel as [|f IH]; intro q; simpl; auto. intro F.
  destruct (qmin d_pos pos_lt q) as [s|]; auto. destruct (d_off s <? hd); auto.
  destruct (remove_one dbs_eqb s q) as [q'|] eqn:R; auto.
  apply IH. destruct (remove_one_Forall _ dbs_eqb_eq P _ _ _ R F). auto.
Qed.

(* ---- input blocks ---------------------------------------------------------------------------- *)
Lemma contig_bounds h q t b : contig h q t -> In b q -> h <= ib_off b /\ ib_end b <= t /\ 0 < ib_size b.
Proof.
  revert h; induction q as [|a r IH]; simpl; intros h C Hb; [tauto|]. destruct C as (C1 & C2 & C3).
  pose proof (contig_le _ _ _ C3) as LE. unfold ib_end in *.
  destruct Hb as [->|Hb]; [lia|]. destruct (IH _ C3 Hb) as (A1 & A2 & A3). unfold ib_end in *. lia.
Qed.

Lemma contig_disjoint h q t : contig h q t ->
  forall b b' x, In b q -> In b' q -> ib_off b <= x -> x < ib_end b -> ib_off b' <= x -> x < ib_end b' -> bshape b = bshape b'.
Proof.
  revert h; induction q as [|a r IH]; simpl; intros h C b b' x Hb Hb' L1 L2 L3 L4; [tauto|]. destruct C as (C1 & C2 & C3).
  destruct Hb as [->|Hb], Hb' as [->|Hb']; auto.
  - exfalso. destruct (contig_bounds _ _ _ _ C3 Hb') as (A1 & _). unfold ib_end in *. lia.
  - exfalso. destruct (contig_bounds _ _ _ _ C3 Hb) as (A1 & _). unfold ib_end in *. lia.
  - eapply IH; eauto.
Qed.

Lemma find_blk_spec off q : forall h t, contig h q t -> h <= off -> forall b, find_blk off q = Some b ->
  In b q /\ ib_off b <= off /\ off < ib_end b.
Proof.
  induction q as [|a r IH]; simpl; intros h t C Hl b F; [discriminate|]. destruct C as (C1 & C2 & C3).
  destruct (off <? ib_end a) eqn:E.
  - inversion F; subst b. split; auto. lia.
  - destruct (IH _ _ C3 ltac:(lia) b F) as (A & B). split; auto.
Qed.

Lemma pop_input_in lim q : forall h t, contig h q t ->
  (forall b, In b (fst (pop_input lim q)) -> In b q /\ ib_end b <= h + sum_sizes (fst (pop_input lim q))) /\
  (forall b, In b (snd (pop_input lim q)) -> In b q).
Proof.
  induction q as [|a r IH]; simpl; intros h t C; [split; intros b []|]. destruct C as (C1 & C2 & C3).
  destruct (ib_end a <=? lim) eqn:E.
  - specialize (IH _ _ C3). destruct (pop_input lim r) as [p k]. simpl in *. destruct IH as [I1 I2]. split.
    + intros b [<-|Hb]; [split; auto; unfold ib_end in *; lia|]. destruct (I1 b Hb) as [A B]. split; auto. unfold ib_end in *. lia.
    + intros b Hb. right. auto.
  - simpl. split; [intros b []|auto].
Qed.

Lemma release_zombies b st z : In z (x_zombies (release_blk b st)) -> In z (x_zombies st) \/ ib_end z = ib_end b.
Proof.
  unfold release_blk. destruct (ib_ref b =? 1); xs; auto. rewrite in_app_iff. simpl. intros [X|[<-|[]]]; auto.
Qed.

Lemma fold_release_zombies l st z : In z (x_zombies (fold_left (fun a b => release_blk b a) l st)) ->
  In z (x_zombies st) \/ exists b, In b l /\ ib_end z = ib_end b.
Proof.
  revert st; induction l as [|b r IH]; simpl; intros st Hz; auto.
  destruct (IH _ Hz) as [X|(b' & B1 & B2)]; [|right; exists b'; auto].
  destruct (release_zombies _ _ _ X) as [Y|Y]; [auto|right; exists b; auto].
Qed.

Lemma detach_zombies att st z : In z (x_zombies (detach att st)) -> exists z0, In z0 (x_zombies st) /\ ib_end z = ib_end z0.
Proof.
  unfold detach. destruct att as [o|]; [|eauto]. destruct (has_blk o (x_input_q st)); xs; [eauto|].
  rewrite filter_In. intros [X _]. unfold upd_ref in X. apply in_map_iff in X. destruct X as (z0 & <- & Z0). exists z0. split; auto.
  destruct (ib_off z0 =? o); reflexivity.
Qed.

Lemma shape_detach att st : map bshape (x_input_q (detach att st)) = map bshape (x_input_q st).
Proof. unfold detach. destruct att as [o|]; auto. destruct (has_blk o (x_input_q st)); xs; auto. apply shape_upd_ref. Qed.

Lemma shape_attach d st : map bshape (x_input_q (fst (attach d st))) = map bshape (x_input_q st).
Proof.
  unfold attach. destruct (can_attach_assert st d && (d_off d <=? x_tail_offs st));
    destruct (d_off d =? x_tail_offs st); simpl; xs; auto;
    destruct (find_blk (d_off d) (x_input_q st)); simpl; xs; auto; apply shape_upd_ref.
Qed.

(* ---- the derived operations -------------------------------------------------------------------- *)
Lemma sown_detach att st : sown st -> sown (detach att st).
Proof.
  intros [A B C D]. unfold sown. rewrite shape_detach. autorewrite with xf. constructor; auto.
  apply Forall_forall. intros z Hz. destruct (detach_zombies _ _ _ Hz) as (z0 & Z0 & E). rewrite E.
  rewrite Forall_forall in D. auto.
Qed.

Lemma sown_attach d st : sown st -> sown (fst (attach d st)).
Proof. intros S. unfold sown in *. rewrite shape_attach. autorewrite with xf. exact S. Qed.

Lemma sown_advance cfg bs st :
  contig (x_head_offs st) (x_input_q st) (x_tail_offs st) -> sown st -> sown (advance cfg bs st).
Proof.
  intros CT [A B C D]. unfold advance, sown.
  set (s0 := set_parser_bs bs st). set (sa := adv_input (d_off bs) s0).
  assert (EQ : x_scan_q (adv_scans (adv_jobs cfg sa)) = adv_scan (length (x_scan_q st)) (x_head_offs sa) (x_scan_q st)).
  { unfold adv_scans. xs. autorewrite with xf. subst sa s0. autorewrite with xf. xs. reflexivity. }
  rewrite EQ. autorewrite with xf.
  destruct (pop_input_in (d_off bs) (x_input_q st) _ _ CT) as [PI1 PI2].
  assert (EI : x_input_q sa = snd (pop_input (d_off bs) (x_input_q st))) by (subst sa s0; rewrite adv_input_q; xs; reflexivity).
  assert (EH : x_head_offs sa = x_head_offs st + sum_sizes (fst (pop_input (d_off bs) (x_input_q st)))) by (subst sa s0; rewrite adv_input_head; xs; reflexivity).
  assert (ET : x_tail_offs sa = x_tail_offs st) by (subst sa s0; autorewrite with xf; xs; reflexivity).
  assert (ER : x_running sa = x_running st) by (subst sa s0; autorewrite with xf; xs; reflexivity).
  rewrite EI, ET, ER.
  constructor.
  - apply adv_scan_forall. exact A.
  - intros r Hr. apply in_map_iff in Hr. destruct Hr as (b & <- & Hb).
    pose proof (B (bshape b) (in_map bshape _ _ (PI2 b Hb))) as B1.
    pose proof (adv_scan_count (length (x_scan_q st)) (x_head_offs sa) (x_scan_q st) (in_rng (bshape b))). lia.
  - exact C.
  - apply Forall_forall. intros z Hz. subst sa. unfold adv_input in Hz. fold s0 in Hz.
    destruct (fold_release_zombies _ _ _ Hz) as [X|(b & B1 & B2)].
    + xs in X. rewrite Forall_forall in D. specialize (D z X). rewrite EH. lia.
    + destruct (PI1 b B1) as [_ LE]. rewrite B2, EH. subst s0. xs. exact LE.
Qed.

(* ---- states that agree on what sown looks at ----------------------------------------------- *)
Record sview (st st' : xstate) : Prop := mksview {
  sv_sq : x_scan_q st' = x_scan_q st;
  sv_iq : map bshape (x_input_q st') = map bshape (x_input_q st);
  sv_zq : x_zombies st' = x_zombies st;
  sv_hd : x_head_offs st' = x_head_offs st;
  sv_tl : x_tail_offs st' = x_tail_offs st;
  sv_ru : x_running st' = x_running st
}.

Lemma sown_sview st st' : sview st st' -> sown st -> sown st'.
Proof. intros [] S. unfold sown in *. rewrite sv_sq0, sv_iq0, sv_zq0, sv_hd0, sv_tl0, sv_ru0. exact S. Qed.

Ltac sv_tac := constructor; unfold add_run, give_unit, fail; xs; autorewrite with xf; xs; reflexivity.

Definition cg (st : xstate) : Prop := contig (x_head_offs st) (x_input_q st) (x_tail_offs st).

Lemma cg_advance cfg bs st : cg st -> cg (advance cfg bs st).
Proof.
  unfold cg. intro C. unfold advance. autorewrite with xf.
  assert (P0 : contig (x_head_offs (set_parser_bs bs st)) (x_input_q (set_parser_bs bs st)) (x_tail_offs (set_parser_bs bs st))) by (xs; exact C).
  destruct (adv_input_spec (d_off bs) _ P0) as (A1 & _). xs in A1. exact A1.
Qed.

Lemma sown_del_run c st st' : del_run c st = Some st' -> sown st -> sown st'.
Proof.
  intros D S. destruct (del_run_spec _ _ _ D) as (l1 & l2 & E & ->). unfold sown in *. xs. rewrite E in S.
  eapply sownp_del; eauto.
Qed.

Lemma sown_add_run c st : is_scan c = false -> sown st -> sown (add_run c st).
Proof. intros NS S. unfold sown, add_run in *. xs. apply sownp_add; auto. Qed.

(* ---- events ---------------------------------------------------------------------------------- *)
Lemma sown_input sz m st st' : cg st -> sown st -> input sz m st = Some st' -> sown st'.
Proof.
  unfold input. intros CT S H. match type of H with (if ?c then _ else _) = _ => destruct c eqn:C; [|discriminate] end.
  bool_hyps. destruct (x_parsing_done st); inversion H; subst; auto. clear H.
  destruct S as [A B C D]. unfold sown. xs. rewrite map_app. simpl.
  set (t := x_tail_offs st) in *.
  constructor.
  - constructor; [simpl; lia|]. eapply Forall_impl; [|exact A]. simpl. intros. lia.
  - intros r Hr. apply in_app_or in Hr. destruct Hr as [Hr|[<-|[]]].
    + specialize (B r Hr). apply in_map_iff in Hr. destruct Hr as (b & <- & Hb).
      destruct (contig_bounds _ _ _ _ CT Hb) as (_ & LE & _). unfold ib_end in LE. fold t in LE.
      simpl. unfold in_rng at 1. simpl.
      replace ((ib_off b <=? t) && (t <? ib_off b + ib_size b)) with false by lia. exact B.
    + unfold bshape. simpl.
      assert (Z1 : length (filter (in_rng (t, sz)) (x_scan_q st)) = 0%nat).
      { apply filter_len_zero. eapply Forall_impl; [|exact A]. simpl. intros s Hs. unfold in_rng. simpl. lia. }
      assert (Z2 : length (filter (att_scan t) (x_running st)) = 0%nat).
      { apply filter_len_zero. apply Forall_forall. intros c Hc. destruct c; simpl; auto. destruct att; auto.
        destruct (C _ _ Hc) as (o & E & _ & LT). inversion E; subst. fold t in LT. lia. }
      unfold in_rng at 1. simpl. replace ((t <=? t) && (t <? t + sz)) with true by lia. simpl. rewrite Z1, Z2. lia.
  - intros s att Hc. destruct (C s att Hc) as (o & E & L1 & L2). exists o. repeat split; auto. fold t in L2. lia.
  - exact D.
Qed.

Lemma sown_scan0 st st' : inv st -> sown st -> scan0 st = Some st' -> sown st'.
Proof.
  unfold scan0. intros IV S H. destruct (selects TScan st); [|discriminate].
  destruct (qmin d_pos pos_lt (x_scan_q st)) as [s|] eqn:Q; [|discriminate].
  destruct (remove_one dbs_eqb s (x_scan_q st)) as [q|] eqn:R; [|discriminate].
  set (st1 := set_scan_q q (set_work_units (N.pred (x_work_units st)) st)) in *.
  destruct (attach s st1) as [st2 att] eqn:A.
  assert (E2 : st2 = fst (attach s st1)) by (rewrite A; reflexivity).
  assert (EA : att = snd (attach s st1)) by (rewrite A; reflexivity).
  inversion H; subst st'. clear H.
  destruct S as [SA SB SC SD].
  destruct (remove_one_split _ dbs_eqb_eq _ _ _ R) as (l1 & l2 & EQ & Eq).
  assert (Hs : In s (x_scan_q st)) by (rewrite EQ; apply in_or_app; right; left; auto).
  assert (LT : d_off s < x_tail_offs st) by (rewrite Forall_forall in SA; auto).
  assert (HD : x_head_offs st <= d_off s) by (pose proof (i_scan _ IV) as X; rewrite Forall_forall in X; apply X; auto).
  pose proof (i_contig _ IV) as CT.
  destruct (find_blk_contig (d_off s) _ _ _ CT HD LT) as [b FB].
  destruct (find_blk_spec _ _ _ _ CT HD b FB) as (Hb & B1 & B2).
  assert (ATT : att = Some (ib_off b)).
  { rewrite EA. unfold attach. subst st1. xs.
    destruct (can_attach_assert _ s && (d_off s <=? x_tail_offs st)); replace (d_off s =? x_tail_offs st) with false by lia;
      xs; rewrite FB; reflexivity. }
  unfold sown, add_run. xs. rewrite E2, shape_attach. autorewrite with xf. subst st1. xs.
  constructor.
  - rewrite EQ in SA. rewrite Eq. rewrite Forall_app in *. destruct SA as [X Y]. inversion Y; subst. auto.
  - intros r Hr. specialize (SB r Hr). apply in_map_iff in Hr. destruct Hr as (b' & <- & Hb').
    rewrite EQ in SB. rewrite Eq. rewrite !filter_app, !app_length in *. simpl in *. rewrite ATT. simpl.
    destruct (in_rng (bshape b') s) eqn:IR.
    + simpl in SB. assert (X : ib_off b = ib_off b').
      { unfold in_rng, bshape in IR. simpl in IR. assert (Y : bshape b' = bshape b) by (eapply (contig_disjoint _ _ _ CT b' b (d_off s)); auto; unfold ib_end; lia).
        unfold bshape in Y. inversion Y. auto. }
      rewrite X, N.eqb_refl. simpl. lia.
    + destruct (ib_off b =? ib_off b') eqn:EO; simpl; [|lia]. exfalso.
      apply N.eqb_eq in EO. destruct (contig_bounds _ _ _ _ CT Hb') as (_ & _ & P').
      assert (Y : bshape b = bshape b') by (eapply (contig_disjoint _ _ _ CT b b' (ib_off b)); auto; unfold ib_end in *; try lia; destruct (contig_bounds _ _ _ _ CT Hb) as (_ & _ & P); lia).
      unfold bshape in Y. inversion Y as [[Y1 Y2]]. unfold in_rng, bshape in IR. simpl in IR. unfold ib_end in *. lia.
  - intros s0 att0 [X|X]; [|auto]. inversion X; subst s0 att0. exists (ib_off b). rewrite ATT. repeat split; auto.
    destruct (contig_bounds _ _ _ _ CT Hb) as (_ & LE & P). unfold ib_end in *. lia.
  - exact SD.
Qed.

Lemma find_att_end o st : forall b, find (fun b => ib_off b =? o) (x_input_q st ++ x_zombies st) = Some b ->
  (In b (x_input_q st) /\ ib_off b = o) \/ (In b (x_zombies st) /\ ib_off b = o).
Proof.
  intros b F. apply find_some in F. destruct F as [F1 F2]. apply N.eqb_eq in F2. apply in_app_or in F1. tauto.
Qed.

Lemma sown_scan1 cfg s att found s' more st st' :
  c_requeue_scan_checks_head cfg = true -> inv st -> sown st -> scan1 cfg s att found s' more st = Some st' -> sown st'.
Proof.
  intros CS IV S H. unfold scan1 in H.
  destruct (del_run (CScan s att) st) as [s1|] eqn:D; [|discriminate].
  destruct (del_run_spec _ _ _ D) as (l1 & l2 & E & ES1).
  assert (RUN : exists o, att = Some o /\ o <= d_off s /\ o < x_tail_offs st).
  { destruct S as [_ _ C _]. apply C. rewrite E. apply in_or_app. right. left. auto. }
  assert (CNT : forall b, In b (x_input_q st) -> att = Some (ib_off b) ->
                  length (filter (in_rng (bshape b)) (x_scan_q st)) = 0%nat /\ length (filter (att_scan (ib_off b)) (l1 ++ l2)) = 0%nat).
  { intros b Hb EA. destruct S as [_ B _ _]. specialize (B (bshape b) (in_map bshape _ _ Hb)). rewrite E in B.
    rewrite !filter_app, !app_length in *. simpl in B. rewrite EA in B. simpl in B. rewrite N.eqb_refl in B. simpl in B. lia. }
  assert (S1 : sown s1) by (eapply sown_del_run; eauto).
  assert (IV1 : inv s1) by (eapply inv_view; [eapply view_del_run; eauto|auto]).
  assert (F1 : x_input_q s1 = x_input_q st /\ x_zombies s1 = x_zombies st /\ x_tail_offs s1 = x_tail_offs st /\
               x_scan_q s1 = x_scan_q st /\ x_running s1 = l1 ++ l2 /\ x_head_offs s1 = x_head_offs st) by (subst s1; xs; auto 10).
  destruct F1 as (IQ1 & ZQ1 & TL1 & SQ1 & RU1 & HD1).
  set (aend := att_end att s1) in *.
  assert (S2 : sown (detach att s1)) by (apply sown_detach; auto).
  assert (IV2 : inv (detach att s1)) by (eapply inv_view; [apply view_detach|auto]).
  assert (F2 : map bshape (x_input_q (detach att s1)) = map bshape (x_input_q st) /\ x_tail_offs (detach att s1) = x_tail_offs st /\
               x_scan_q (detach att s1) = x_scan_q st /\ x_running (detach att s1) = l1 ++ l2 /\ x_head_offs (detach att s1) = x_head_offs st).
  { rewrite shape_detach. autorewrite with xf. rewrite IQ1. auto 10. }
  set (s2 := detach att s1) in *. destruct F2 as (IQ2 & TL2 & SQ2 & RU2 & HD2).
  destruct (negb found || x_parsing_done s2) eqn:F.
  { inversion H; subst. eapply sown_sview; [|exact S2]. sv_tac. }
  match type of H with (if ?c then _ else _) = _ => destruct c eqn:CK; [|discriminate] end. bool_hyps.
  set (s3 := if pos_le (d_pos s') (d_pos (x_parser_bs s2)) || (c_scan_job_checks_head cfg && (d_off s' <? x_head_offs s2)) then give_unit s2
             else if c_scan_checks_unord_cap cfg && unord_full s2 then give_unit s2
             else set_retr_q (mkrjob (d_pos s') s' (Some (x_next_uid s2)) :: x_retr_q s2)
                   (set_next_uid (x_next_uid s2 + 1)
                      (set_unords (x_unords s2 ++ [mkunord (x_next_uid s2) (d_pos s') s' false false true]) s2))) in *.
  assert (V3 : sview s2 s3).
  { subst s3. repeat match goal with |- context [if ?c then _ else _] => destruct c end; sv_tac. }
  assert (S3 : sown s3) by (eapply sown_sview; eauto).
  destruct V3 as [V1 V2 V4 V5 V6 V7].
  destruct (more && (negb (c_requeue_scan_checks_head cfg) || (x_head_offs s3 <=? d_off s'))) eqn:RQ; inversion H; subst st'; auto.
  clear H. rewrite CS in RQ. simpl in RQ. bool_hyps. subst more.
  match goal with K : Bool.eqb true _ = true |- _ => apply eqb_prop in K; symmetry in K; rename K into MO end.
  (* the job is put back: it stays inside the block it was attached to, which is still live *)
  destruct RUN as (o & EA & OL & OT). subst att.
  assert (AE : exists b, In b (x_input_q st) /\ ib_off b = o /\ aend = ib_end b).
  { subst aend. unfold att_end. rewrite IQ1, ZQ1.
    destruct (find (fun b => ib_off b =? o) (x_input_q st ++ x_zombies st)) as [b|] eqn:FD.
    - destruct (find_att_end o st b FD) as [[X Y]|[X Y]]; [exists b; auto|].
      exfalso. destruct S as [_ _ _ Z]. rewrite Forall_forall in Z. specialize (Z b X).
      unfold att_end in MO. rewrite IQ1, ZQ1, FD in MO. rewrite V5, HD2 in *. lia.
    - exfalso. unfold att_end in MO. rewrite IQ1, ZQ1, FD in MO. lia. }
  destruct AE as (b & Hb & BO & AE). rewrite AE in *. subst o.
  destruct (CNT b Hb eq_refl) as (Z1 & Z2).
  pose proof (i_contig _ IV) as CT. destruct (contig_bounds _ _ _ _ CT Hb) as (_ & LE & _).
  destruct S3 as [SA SB SC SD]. unfold sown. xs. rewrite V1, V2, V4, V5, V6, V7, SQ2, IQ2, TL2, HD2, RU2 in *.
  constructor.
  - constructor; auto. lia.
  - intros r Hr. specialize (SB r Hr). apply in_map_iff in Hr. destruct Hr as (b' & <- & Hb'). simpl.
    destruct (in_rng (bshape b') s') eqn:IR; [|exact SB].
    assert (Y : bshape b' = bshape b).
    { unfold in_rng, bshape in IR. simpl in IR. eapply (contig_disjoint _ _ _ CT b' b (d_off s')); auto; unfold ib_end in *; lia. }
    rewrite Y. assert (X : ib_off b' = ib_off b) by (unfold bshape in Y; inversion Y; auto). simpl. rewrite X. lia.
  - exact SC.
  - exact SD.
Qed.

Lemma sown_parse_finish cfg g s : cg s -> sown s -> sown (parse_finish cfg g s).
Proof.
  intros CT [A B C D]. unfold parse_finish. set (pb' := mkdbs _ _). clearbody pb'.
  match goal with |- sown (if ?c then _ else _) => destruct c end.
  { unfold sown, fail. xs. constructor; auto. }
  unfold sown. destruct (c_finish_drops_link cfg); xs; autorewrite with xf; xs; (constructor; [constructor|intros r []|exact C|]).
  all: apply Forall_forall; intros z Hz; destruct (fold_release_zombies _ _ _ Hz) as [X|(b & B1 & B2)];
    [xs in X; rewrite Forall_forall in D; specialize (D z X); lia|].
  all: xs in B1; destruct (contig_bounds _ _ _ _ CT B1) as (_ & LE & _); pose proof (contig_sum _ _ _ CT); rewrite B2; lia.
Qed.

Lemma sown_parse_ok cfg lv crc s : cg s -> sown s -> sown (parse_ok cfg lv crc s).
Proof.
  intros CT S. unfold parse_ok.
  set (s2 := set_unords _ (set_order_q _ s)).
  assert (V2 : sview s s2) by (subst s2; sv_tac).
  assert (S2 : sown s2) by (eapply sown_sview; eauto).
  assert (C2 : cg s2) by (unfold cg in *; subst s2; xs; exact CT).
  clearbody s2.
  destruct (qmin u_base pos_lt (unord_q s2)) as [u|]; [|eapply sown_sview; [|exact S2]; sv_tac].
  destruct (pos_eq (u_base u) (d_pos (x_parser_bs s))); [|eapply sown_sview; [|exact S2]; sv_tac].
  pose proof (sown_advance cfg (u_end u) s2 C2 S2) as S3. set (s3 := advance cfg (u_end u) s2) in *. clearbody s3.
  destruct (u_complete u); (eapply sown_sview; [|exact S3]); sv_tac.
Qed.

Lemma cg_view st st' : view_eq st st' -> cg st -> cg st'.
Proof. intros [] C. unfold cg in *. rewrite v_head, v_tail. apply v_inq. exact C. Qed.

Lemma sown_parse1 cfg att r st st' : inv st -> sown st -> parse1 cfg att r st = Some st' -> sown st'.
Proof.
  intros IV S H. unfold parse1 in H.
  destruct (del_run (CParse att) st) as [s1|] eqn:D; [|discriminate].
  assert (S1 : sown s1) by (eapply sown_del_run; eauto).
  assert (C1 : cg s1).
  { destruct (del_run_spec _ _ _ D) as (l1 & l2 & E & ->). unfold cg. xs. apply IV. }
  match type of H with (if ?c then _ else _) = _ => destruct c; [|discriminate] end.
  assert (S2 : sown (detach att s1)) by (apply sown_detach; auto).
  assert (C2 : cg (detach att s1)) by (eapply cg_view; [apply view_detach|auto]).
  set (s2 := detach att s1) in *. clearbody s2.
  pose proof (sown_advance cfg (res_bs r) s2 C2 S2) as S3. pose proof (cg_advance cfg (res_bs r) s2 C2) as C3.
  set (s3 := advance cfg (res_bs r) s2) in *. clearbody s3.
  destruct r as [bs ps|bs g|bs code|bs ps lv crc].
  - match type of H with (if ?c then _ else _) = _ => destruct c; [|discriminate] end. inversion H; subst.
    eapply sown_sview; [|exact S3]. sv_tac.
  - match type of H with (if ?c then _ else _) = _ => destruct c; [|discriminate] end. inversion H; subst.
    apply sown_parse_finish; auto.
  - match type of H with (if ?c then _ else _) = _ => destruct c; [discriminate|] end. inversion H; subst.
    eapply sown_sview; [|exact S3]. sv_tac.
  - match type of H with (if ?c then _ else _) = _ => destruct c; [|discriminate] end. inversion H; subst.
    apply sown_parse_ok.
    + unfold cg in *. xs. exact C3.
    + eapply sown_sview; [|exact S3]. sv_tac.
Qed.

Lemma sown_retr1 cfg j att rv cur st st' : inv st -> sown st -> retr1 cfg j att rv cur st = Some st' -> sown st'.
Proof.
  intros IV S H. unfold retr1 in H.
  destruct (del_run (CRetr j att) st) as [s1|] eqn:D; [|discriminate].
  assert (S1 : sown s1) by (eapply sown_del_run; eauto).
  assert (C1 : cg s1).
  { destruct (del_run_spec _ _ _ D) as (l1 & l2 & E & ->). unfold cg. xs. apply IV. }
  match type of H with (if ?c then _ else _) = _ => destruct c; [|discriminate] end.
  assert (S2 : sown (detach att s1)) by (apply sown_detach; auto).
  assert (C2 : cg (detach att s1)) by (eapply cg_view; [apply view_detach|auto]).
  set (s2 := detach att s1) in *. clearbody s2.
  destruct (x_parsing_done s2).
  { inversion H; subst. destruct (c_retr_done_drops_link cfg); (eapply sown_sview; [|exact S2]); sv_tac. }
  cbv zeta in H.
  match type of H with (if ?c then _ else _) = _ => destruct c end.
  { inversion H; subst. destruct (c_retr_abort_drops_link cfg); (eapply sown_sview; [|exact S2]); sv_tac. }
  match type of H with context [d_off cur <? x_head_offs ?s] => set (s3 := s) in H end.
  assert (S3 : sown s3).
  { subst s3. match goal with |- context [if ?c then _ else _] => destruct c end; [apply sown_advance; auto|].
    destruct (r_link j); [|exact S2]. eapply sown_sview; [|exact S2]. sv_tac. }
  clearbody s3.
  destruct (rv =? MORE).
  - match type of H with (if ?c then _ else _) = _ => destruct c end; inversion H; subst.
    + destruct (c_stale_drops_link cfg); (eapply sown_sview; [|exact S3]); sv_tac.
    + eapply sown_sview; [|exact S3]. sv_tac.
  - inversion H; subst. apply sown_add_run; auto.
    match goal with |- context [if ?c then _ else _] => destruct c end; destruct (r_link j); try exact S3;
      (eapply sown_sview; [|exact S3]); sv_tac.
Qed.

Lemma sown_init n tin tout ultra : sown (init_state n tin tout ultra).
Proof. unfold sown. simpl. constructor; [constructor|intros r []|intros s att []|constructor]. Qed.

Theorem sown_step cfg st e st' : cfg_safe cfg -> inv st -> sown st -> step cfg st e = Some st' -> sown st'.
Proof.
  intros (CS & _ & _) IV S H. unfold step in H. destruct (x_failed st); [discriminate|]. destruct e.
  - eapply sown_input; eauto. apply IV.
  - unfold reader_eof in H. destruct (x_eof st); inversion H. eapply sown_sview; [|exact S]. sv_tac.
  - unfold written in H. destruct (0 <? x_outq st); inversion H. eapply sown_sview; [|exact S]. sv_tac.
  - unfold parse0 in H. destruct (selects TParse st); [|discriminate].
    match type of H with context [attach ?a ?b] => destruct (attach a b) as [s2 att] eqn:A; assert (E2 : s2 = fst (attach a b)) by (rewrite A; auto) end.
    inversion H; subst st'. apply sown_add_run; [reflexivity|]. rewrite E2. apply sown_attach. eapply sown_sview; [|exact S]. sv_tac.
  - eapply sown_parse1; eauto.
  - unfold retr0 in H. destruct (selects TRetrieve st); [|discriminate]. destruct (take_min rjob_eqb rkey j (x_retr_q st)); [|discriminate].
    match type of H with context [attach ?a ?b] => destruct (attach a b) as [s2 att] eqn:A; assert (E2 : s2 = fst (attach a b)) by (rewrite A; auto) end.
    inversion H; subst st'. apply sown_add_run; [reflexivity|]. rewrite E2. apply sown_attach. eapply sown_sview; [|exact S]. sv_tac.
  - eapply sown_retr1; eauto.
  - unfold retr2 in H. destruct (del_run (CRetr2 e) st) as [s1|] eqn:D; [|discriminate]. inversion H; subst.
    eapply sown_sview; [|eapply sown_del_run; eauto]. sv_tac.
  - unfold emit0 in H. destruct (selects TEmit st); [|discriminate]. destruct (qmin e_base pos_lt (x_emit_q st)); [|discriminate].
    destruct (remove_one ejob_eqb e (x_emit_q st)) as [q|]; [|discriminate]. inversion H; subst st'.
    apply sown_add_run; [reflexivity|]. eapply sown_sview; [|exact S]. sv_tac.
  - unfold emit1 in H. destruct (del_run (CEmit e) st) as [s1|] eqn:D; [|discriminate].
    pose proof (sown_del_run _ _ _ D S) as S1.
    repeat match type of H with context [if ?c then _ else _] => destruct c end; inversion H; subst; (eapply sown_sview; [|exact S1]); sv_tac.
  - unfold reorder in H. destruct (selects TReorder st); [|discriminate]. destruct (qmin o_base pos_lt (x_reord_q st)); [|discriminate].
    destruct (remove_one oblk_eqb o (x_reord_q st)); [|discriminate]. xs in H.
    destruct (x_order_q st); [inversion H; eapply sown_sview; [|exact S]; sv_tac|].
    repeat match type of H with context [if ?c then _ else _] => destruct c end; inversion H; subst; (eapply sown_sview; [|exact S]); sv_tac.
  - eapply sown_scan0; eauto.
  - eapply sown_scan1; eauto.
Qed.

Theorem sown_reach cfg n tin tout ultra st : cfg_safe cfg -> reach cfg (init_state n tin tout ultra) st -> inv st /\ sown st.
Proof.
  intros CS R. induction R as [|st e st' R [I S] H].
  - split; [apply inv_init|apply sown_init].
  - split; [eapply inv_step; eauto|eapply sown_step; eauto].
Qed.

(* ---- counting ------------------------------------------------------------------------------------ *)
Lemma scan_le_blocks q : forall h t l, contig h q t -> Forall (fun s => h <= d_off s /\ d_off s < t) l ->
  (forall b, In b q -> (length (filter (in_rng (bshape b)) l) <= 1)%nat) -> (length l <= length q)%nat.
Proof.
  induction q as [|b r IH]; simpl; intros h t l C F ONE.
  - subst t. destruct l as [|s l']; auto. inversion F; subst. lia.
  - destruct C as (C1 & C2 & C3).
    pose proof (filter_split_len (in_rng (bshape b)) l) as SP.
    pose proof (ONE b (or_introl eq_refl)) as O1.
    assert (L2 : (length (filter (fun x => negb (in_rng (bshape b) x)) l) <= length r)%nat).
    { apply (IH (ib_end b) t); auto.
      - apply Forall_forall. intros s Hs. apply filter_In in Hs. destruct Hs as [Hs NI]. rewrite Forall_forall in F.
        specialize (F s Hs). unfold in_rng, bshape in NI. simpl in NI. unfold ib_end. split; lia.
      - intros b' Hb'. eapply Nat.le_trans; [|apply (ONE b' (or_intror Hb'))].
        clear. induction l as [|x l IHl]; simpl; auto. destruct (in_rng (bshape b) x); simpl; destruct (in_rng (bshape b') x); simpl; lia. }
    lia.
Qed.

(* capacity of scan_q: pqueue_init(scan_q, in_slots) *)
Theorem scan_q_le_input_q cfg n tin tout ultra st :
  cfg_safe cfg -> reach cfg (init_state n tin tout ultra) st -> (length (x_scan_q st) <= length (x_input_q st))%nat.
Proof.
  intros CS R. destruct (sown_reach _ _ _ _ _ _ CS R) as [IV [A B _ _]].
  apply (scan_le_blocks _ (x_head_offs st) (x_tail_offs st)).
  - apply IV.
  - pose proof (i_scan _ IV) as IS. rewrite Forall_forall in *. intros s Hs. split; [apply IS; auto|apply A; auto].
  - intros b Hb. specialize (B (bshape b) (in_map bshape _ _ Hb)). lia.
Qed.

Theorem scan_q_capacity cfg n tin tout ultra st :
  cfg_safe cfg -> reach cfg (init_state n tin tout ultra) st -> x_failed st = None ->
  N.of_nat (length (x_scan_q st)) <= cap_scan_q (x_total_in st) (x_num_worker st) (x_total_out st).
Proof.
  intros CS R NF. pose proof (scan_q_le_input_q _ _ _ _ _ _ CS R) as L.
  assert (K : cnt st) by (clear - R; induction R; [apply cnt_init|eapply cnt_step; eauto]).
  destruct K as [_ _ KI]. specialize (KI NF). unfold in_held, cap_scan_q in *. lia.
Qed.
