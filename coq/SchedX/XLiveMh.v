(* Liveness of the decompression scheduler: the invariant [llm] (XLiveDefs.v).

     ll_mh  while the parser has not finished, the block of every master retrieve job
            still has its head in order_q
     ll_tw  the parse token is never stranded without a work unit: when the token is free
            and no work unit is, the block confirmed last is still in the emit stage (its
            emit job gives a unit back when it finishes)

   [llm] is inductive given [inv] (XInvDefs) and [lld] (the lines have pairwise distinct
   bit positions) of the pre-state; [lld] is needed for do_reorder only: a head leaves
   order_q when the last buffer of its block is consumed, and then no master job and no
   emit-stage job of that block exists.

   Events are treated one by one, as in XOwn*.v.  The two clauses are transferred
   separately ([mhp] with an explicit list of jobs, [twp]). *)
From Coq Require Import List NArith Bool Lia Arith ZifyBool ZifyN ZifyNat Sorted.
From LBZ Require Import Gen.Consts SchedX.XState Gen.SchedXTab SchedX.XSet SchedX.XModel SchedX.XLemmas
  SchedX.XFrame SchedX.XInvDefs SchedX.XOps SchedX.XInv SchedX.XInv2 SchedX.XInv3 SchedX.XInv4 SchedX.XOracle
  SchedX.XSeq SchedX.XCount SchedX.XOwn SchedX.XOwnAdv SchedX.XOwnRetr SchedX.XOwnProofs SchedX.XLiveDefs.
Import ListNotations.
Local Open Scope N_scope.

(* ---- the two clauses ---------------------------------------------------------------------- *)
(* [JL]: the retrieve jobs (queued or running) *)
Definition mhp (JL : list rjob) (st : xstate) : Prop :=
  x_parsing_done st = false -> forall j, In j JL -> jm (x_unords st) j = true ->
  exists h, In h (x_order_q st) /\ hb h = jbit j.

Definition twp (st : xstate) : Prop :=
  x_parsing_done st = false -> x_parse_token st = true -> x_work_units st = 0 ->
  exists h e, In h (x_order_q st) /\ In e (estage st) /\ ebit e = hb h.

Lemma llm_parts st : llm st -> mhp (all_jobs st) st /\ twp st.
Proof. intros [A B]. split; auto. Qed.

Lemma llm_of_parts st : mhp (all_jobs st) st -> twp st -> llm st.
Proof. intros A B. constructor; auto. Qed.

Lemma llm_done st : x_parsing_done st = true -> llm st.
Proof. intro P. constructor; intro Q; congruence. Qed.

Lemma mhp_transfer JL JL' st st' :
  (x_parsing_done st' = false -> x_parsing_done st = false) ->
  (forall h, In h (x_order_q st) -> exists h', In h' (x_order_q st') /\ hb h' = hb h) ->
  (forall j, In j JL' -> jm (x_unords st') j = true ->
     exists j0, In j0 JL /\ jm (x_unords st) j0 = true /\ jbit j0 = jbit j) ->
  mhp JL st -> mhp JL' st'.
Proof.
  intros PD HO HJ A P j Hj J. destruct (HJ j Hj J) as (j0 & J1 & J2 & J3).
  destruct (A (PD P) j0 J1 J2) as (h & H1 & H2). destruct (HO h H1) as (h' & H3 & H4).
  exists h'. split; auto. congruence.
Qed.

Lemma mhp_same JL JL' st st' :
  x_parsing_done st' = x_parsing_done st -> x_order_q st' = x_order_q st -> x_unords st' = x_unords st ->
  (forall j, In j JL' -> In j JL) -> mhp JL st -> mhp JL' st'.
Proof.
  intros E1 E2 E3 EJ. apply mhp_transfer.
  - congruence.
  - intros h Hh. exists h. rewrite E2. auto.
  - intros j Hj J. exists j. rewrite E3 in J. auto.
Qed.

Lemma twp_transfer st st' :
  (x_parsing_done st' = false -> x_parsing_done st = false) ->
  (forall h, In h (x_order_q st) -> exists h', In h' (x_order_q st') /\ hb h' = hb h) ->
  (forall e, In e (estage st) -> exists e', In e' (estage st') /\ ebit e' = ebit e) ->
  (x_parse_token st' = true -> x_work_units st' = 0 -> x_parse_token st = true /\ x_work_units st = 0) ->
  twp st -> twp st'.
Proof.
  intros PD HO HE HT B P T W. destruct (HT T W) as [T0 W0].
  destruct (B (PD P) T0 W0) as (h & e & H1 & H2 & H3).
  destruct (HO h H1) as (h' & H4 & H5). destruct (HE e H2) as (e' & H6 & H7).
  exists h', e'. repeat split; auto. congruence.
Qed.

Lemma twp_same st st' :
  x_parsing_done st' = x_parsing_done st -> x_order_q st' = x_order_q st ->
  x_parse_token st' = x_parse_token st -> x_work_units st' = x_work_units st ->
  (forall e, In e (estage st) -> In e (estage st')) -> twp st -> twp st'.
Proof.
  intros E1 E2 E3 E4 EE. apply twp_transfer.
  - congruence.
  - intros h Hh. exists h. rewrite E2. auto.
  - intros e He. exists e. auto.
  - rewrite E3, E4. auto.
Qed.

Lemma twp_vac st :
  (x_parsing_done st = false -> x_parse_token st = true -> x_work_units st = 0 -> False) -> twp st.
Proof. intros V P T W. destruct (V P T W). Qed.

Lemma succ_not_zero (x : N) : x + 1 = 0 -> False.
Proof. lia. Qed.

(* no master at all and a free work unit *)
Lemma llm_nomaster_unit st :
  (forall j, In j (all_jobs st) -> jm (x_unords st) j = false) -> x_work_units st <> 0 -> llm st.
Proof.
  intros NM W. constructor.
  - intros _ j Hj J. rewrite (NM j Hj) in J. discriminate.
  - intros _ _ Z. destruct (W Z).
Qed.

(* ---- small facts about jm and the unord store ----------------------------------------------- *)
Lemma jm_sub us us' j : (forall u, In u us' -> In u us) -> jm us' j = true -> jm us j = true.
Proof.
  intro S. unfold jm. destruct (r_link j) as [id|]; auto. rewrite !existsb_exists.
  intros (u & Hu & E). exists u. auto.
Qed.

Lemma nodup_app_disj {A} (l1 l2 : list A) x : NoDup (l1 ++ l2) -> In x l1 -> In x l2 -> False.
Proof.
  induction l1 as [|a l IH]; simpl; intros N H1 H2; [tauto|].
  inversion N as [|? ? NI ND]; subst. destruct H1 as [->|H1]; [apply NI; apply in_or_app; auto|eauto].
Qed.

Lemma nodup_app_r {A} (l1 l2 : list A) : NoDup (l1 ++ l2) -> NoDup l2.
Proof. induction l1 as [|a l IH]; simpl; intro N; auto. inversion N; subst. auto. Qed.

(* ---- advance(): jobs and masters only disappear ----------------------------------------------- *)
Lemma adv_retr_snd_sub fuel hd q j : In j (snd (adv_retr fuel hd q)) -> In j q.
Proof.
  revert q; induction fuel as [|f IH]; intros q Hj; simpl in *; auto.
  destruct (qmin rkey pos_lt q) as [m|] eqn:Q; simpl in *; auto.
  destruct (d_off (r_cur m) <? hd); simpl in *; auto.
  destruct (remove_one rjob_eqb m q) as [q'|] eqn:R; simpl in *; auto.
  specialize (IH q'). destruct (adv_retr f hd q') as [d k]. simpl in *.
  eapply remove_one_In; eauto using rjob_eqb_eq.
Qed.

Lemma adv_jobs_sub cfg bs st j : In j (all_jobs (advance cfg bs st)) -> In j (all_jobs st).
Proof.
  unfold all_jobs. rewrite adv_retr_q. autorewrite with xf. rewrite !in_app_iff. intros [H|H]; auto.
  left. eapply adv_retr_snd_sub; eauto.
Qed.

Lemma adv_jm cfg bs st j :
  Forall unord_ok (x_unords st) -> jm (x_unords (advance cfg bs st)) j = true -> jm (x_unords st) j = true.
Proof.
  intros UO. destruct (adv_fields cfg bs st) as [_ EU]. cbv zeta in EU. rewrite EU.
  destruct (c_advance_drops_link cfg); auto. apply jm_stems; auto.
  intros u Hu. eapply drop_links_stems; eauto.
Qed.

Lemma adv_unord_ok cfg bs st : Forall unord_ok (x_unords st) -> Forall unord_ok (x_unords (advance cfg bs st)).
Proof.
  intros UO. destruct (adv_fields cfg bs st) as [_ EU]. cbv zeta in EU. rewrite EU.
  destruct (c_advance_drops_link cfg); auto. apply Forall_forall. intros u Hu.
  destruct (drop_links_stems _ _ _ Hu) as (u0 & H0 & S0). eapply unord_ok_stems; eauto.
  rewrite Forall_forall in UO. auto.
Qed.

Lemma adv_nomaster cfg bs st :
  Forall unord_ok (x_unords st) -> (forall j, In j (all_jobs st) -> jm (x_unords st) j = false) ->
  forall j, In j (all_jobs (advance cfg bs st)) -> jm (x_unords (advance cfg bs st)) j = false.
Proof.
  intros UO NM j Hj. destruct (jm (x_unords (advance cfg bs st)) j) eqn:J; auto.
  apply adv_jm in J; auto. rewrite (NM j (adv_jobs_sub _ _ _ _ Hj)) in J. discriminate.
Qed.

(* ---- events that do not touch what the invariant looks at ----------------------------------- *)
Ltac lnrm := unfold all_jobs, estage, add_run, give_unit; xs; autorewrite with xf; xs.

Lemma llm_input sz m st st' : llm st -> input sz m st = Some st' -> llm st'.
Proof.
  unfold input. intros I H. match type of H with (if ?c then _ else _) = _ => destruct c; [|discriminate] end.
  destruct (x_parsing_done st); inversion H; subst; auto.
  destruct (llm_parts _ I) as [A B]. apply llm_of_parts.
  - eapply mhp_same; [..|exact A]; lnrm; auto.
  - eapply twp_same; [..|exact B]; lnrm; auto.
Qed.

Lemma llm_eof st st' : llm st -> reader_eof st = Some st' -> llm st'.
Proof.
  unfold reader_eof. intros I H. destruct (x_eof st); [discriminate|]. inversion H; subst.
  destruct (llm_parts _ I) as [A B]. apply llm_of_parts.
  - eapply mhp_same; [..|exact A]; lnrm; auto.
  - eapply twp_same; [..|exact B]; lnrm; auto.
Qed.

Lemma llm_written st st' : llm st -> written st = Some st' -> llm st'.
Proof.
  unfold written. intros I H. destruct (0 <? x_outq st); [|discriminate]. inversion H; subst.
  destruct (llm_parts _ I) as [A B]. apply llm_of_parts.
  - eapply mhp_same; [..|exact A]; lnrm; auto.
  - eapply twp_same; [..|exact B]; lnrm; auto.
Qed.

Lemma llm_parse0 st st' : llm st -> parse0 st = Some st' -> llm st'.
Proof.
  unfold parse0. intros I H. destruct (selects TParse st); [|discriminate].
  set (st1 := set_work_units (N.pred (x_work_units st)) (set_parse_token false st)) in *.
  destruct (attach (x_parser_bs st1) st1) as [st2 att] eqn:A.
  assert (E2 : st2 = fst (attach (x_parser_bs st1) st1)) by (rewrite A; reflexivity).
  inversion H; subst st'. clear H. rewrite E2. subst st1.
  destruct (llm_parts _ I) as [MH TW]. apply llm_of_parts.
  - eapply mhp_same; [..|exact MH]; lnrm; auto.
  - apply twp_vac. lnrm. intros; discriminate.
Qed.

Lemma llm_scan0 st st' : llm st -> scan0 st = Some st' -> llm st'.
Proof.
  unfold scan0. intros I H. destruct (selects TScan st) eqn:SEL; [|discriminate].
  apply selects_ready in SEL. simpl in SEL. unfold can_scan in SEL.
  destruct (qmin d_pos pos_lt (x_scan_q st)) as [s|]; [|discriminate].
  destruct (remove_one dbs_eqb s (x_scan_q st)) as [q|]; [|discriminate].
  set (st1 := set_scan_q q (set_work_units (N.pred (x_work_units st)) st)) in *.
  destruct (attach s st1) as [st2 att] eqn:A.
  assert (E2 : st2 = fst (attach s st1)) by (rewrite A; reflexivity).
  inversion H; subst st'. clear H. rewrite E2. subst st1.
  destruct (llm_parts _ I) as [MH TW]. apply llm_of_parts.
  - eapply mhp_same; [..|exact MH]; lnrm; auto.
  - eapply twp_transfer; [| | | |exact TW]; lnrm.
    + auto.
    + intros h Hh. exists h. auto.
    + intros e He. exists e. auto.
    + intros T W. exfalso. bool_hyps.
      match goal with K : _ || _ = true |- _ => rename K into G end.
      rewrite T in G. clear - G W. unfold SCAN_THRESH in G. lia.
Qed.

Lemma llm_retr0 j st st' : llm st -> retr0 j st = Some st' -> llm st'.
Proof.
  unfold retr0. intros I H. destruct (selects TRetrieve st); [|discriminate].
  destruct (take_min rjob_eqb rkey j (x_retr_q st)) as [q|] eqn:T; [|discriminate].
  apply take_min_spec in T. destruct T as [R _].
  destruct (remove_one_split _ rjob_eqb_eq _ _ _ R) as (l1 & l2 & EQ & Eq).
  set (st1 := set_retr_q q st) in *.
  destruct (attach (r_cur j) st1) as [st2 att] eqn:A.
  assert (E2 : st2 = fst (attach (r_cur j) st1)) by (rewrite A; reflexivity).
  inversion H; subst st'. clear H. rewrite E2. subst st1.
  destruct (llm_parts _ I) as [MH TW]. apply llm_of_parts.
  - eapply mhp_same; [..|exact MH]; try (lnrm; auto; fail).
    intro x. lnrm. rewrite run_jobs_cons. simpl cjobs. rewrite EQ, Eq. apply In_app_mid.
  - eapply twp_same; [..|exact TW]; lnrm; auto.
Qed.

Lemma llm_retr2 e st st' : llm st -> retr2 e st = Some st' -> llm st'.
Proof.
  unfold retr2. intros I H. destruct (del_run (CRetr2 e) st) as [s1|] eqn:D; [|discriminate]. inversion H; subst.
  destruct (del_run_spec _ _ _ D) as (l1 & l2 & E & ->).
  destruct (llm_parts _ I) as [MH TW]. apply llm_of_parts.
  - eapply mhp_same; [..|exact MH]; xs; auto.
    intro x. unfold all_jobs. xs. rewrite E, !run_jobs_app, run_jobs_cons. simpl. tauto.
  - eapply twp_same; [..|exact TW]; xs; auto.
    intros x. unfold estage. xs. rewrite E, !run_ejobs_app, run_ejobs_cons. simpl.
    rewrite !in_app_iff. simpl. rewrite ?in_app_iff. tauto.
Qed.

Lemma llm_emit0 st st' : llm st -> emit0 st = Some st' -> llm st'.
Proof.
  unfold emit0. intros I H. destruct (selects TEmit st); [|discriminate].
  destruct (qmin e_base pos_lt (x_emit_q st)) as [e|]; [|discriminate].
  destruct (remove_one ejob_eqb e (x_emit_q st)) as [q|] eqn:R; [|discriminate]. inversion H; subst.
  destruct (remove_one_split _ ejob_eqb_eq _ _ _ R) as (l1 & l2 & EQ & Eq).
  destruct (llm_parts _ I) as [MH TW]. apply llm_of_parts.
  - eapply mhp_same; [..|exact MH]; unfold add_run; xs; auto.
    all: try (intro x; unfold all_jobs; xs; rewrite run_jobs_cons; simpl; tauto).
  - eapply twp_same; [..|exact TW]; unfold add_run; xs; auto.
    intros x. unfold estage. xs. rewrite run_ejobs_cons. simpl.
    rewrite EQ, Eq. rewrite !in_app_iff. simpl. rewrite ?in_app_iff. tauto.
Qed.

Lemma llm_emit1 e rv size crc blksz st st' : llm st -> emit1 e rv size crc blksz st = Some st' -> llm st'.
Proof.
  unfold emit1. intros I H. destruct (del_run (CEmit e) st) as [s1|] eqn:D; [|discriminate].
  destruct (del_run_spec _ _ _ D) as (l1 & l2 & E & ->).
  match type of H with (if ?c then _ else _) = _ => destruct c; [|discriminate] end.
  destruct (llm_parts _ I) as [MH TW].
  assert (AJ : forall st2, x_retr_q st2 = x_retr_q st -> x_running st2 = l1 ++ l2 ->
               forall j, In j (all_jobs st2) -> In j (all_jobs st)).
  { intros st2 R1 R2 j. unfold all_jobs. rewrite R1, R2, E, !run_jobs_app, run_jobs_cons. simpl. tauto. }
  destruct (rv =? MORE) eqn:RV; inversion H; subst st'; clear H.
  - apply llm_of_parts.
    + eapply mhp_same; [..|exact MH]; xs; auto. apply AJ; xs; auto.
    + eapply twp_transfer; [| | | |exact TW]; xs.
      * auto.
      * intros h Hh. exists h. auto.
      * intros e0 A. unfold estage in A. rewrite E, run_ejobs_app, run_ejobs_cons in A. simpl in A.
        rewrite !in_app_iff in A. simpl in A. rewrite ?in_app_iff in A.
        assert (K : e0 = e \/ In e0 (x_emit_q st ++ run_ejobs (l1 ++ l2))).
        { rewrite run_ejobs_app, !in_app_iff. destruct A as [A|[A|[A|A]]]; auto. }
        destruct K as [->|K].
        -- eexists. split; [unfold estage; xs; left; reflexivity|]. reflexivity.
        -- exists e0. split; [|auto]. unfold estage. xs. right. exact K.
      * auto.
  - apply llm_of_parts.
    + eapply mhp_same; [..|exact MH]; unfold give_unit; xs; auto. apply AJ; xs; auto.
    + apply twp_vac. unfold give_unit. xs. intros _ _ W. exact (succ_not_zero _ W).
Qed.

(* ---- do_reorder: a head leaves the order only with the last buffer of its block ------------- *)
Lemma llm_reorder st st' :
  x_failed st' = None -> lld st -> llm st -> reorder st = Some st' -> llm st'.
Proof.
  unfold reorder. intros NF' LD I H. destruct (selects TReorder st) eqn:SEL; [|discriminate].
  apply selects_ready in SEL. simpl in SEL. unfold can_reorder in SEL.
  destruct (qmin o_base pos_lt (x_reord_q st)) as [o|] eqn:Q; [|discriminate].
  destruct (remove_one oblk_eqb o (x_reord_q st)) as [q|] eqn:R; [|discriminate].
  destruct (llm_parts _ I) as [MH TW].
  assert (SAME : forall s, x_parsing_done s = x_parsing_done st -> x_order_q s = x_order_q st -> x_unords s = x_unords st ->
                   x_retr_q s = x_retr_q st -> x_running s = x_running st -> x_emit_q s = x_emit_q st ->
                   x_parse_token s = x_parse_token st -> x_work_units s = x_work_units st -> llm s).
  { intros s E1 E2 E3 E4 E5 E6 E7 E8. apply llm_of_parts.
    - eapply mhp_same; [..|exact MH]; auto. unfold all_jobs. rewrite E4, E5. auto.
    - eapply twp_same; [..|exact TW]; auto. unfold estage. rewrite E5, E6. auto. }
  xs in H.
  destruct (x_order_q st) as [|ord rest] eqn:OQ.
  { inversion H; subst st'. apply SAME; xs; auto. }
  destruct (pos_lt (o_base o) (h_base ord)) eqn:LT.
  { inversion H; subst st'. apply SAME; xs; auto. }
  clear SAME.
  assert (EB : o_base o = h_base ord).
  { apply pos_lt_total; auto. unfold peek_reord, order_head in SEL. rewrite Q, ?OQ in SEL. simpl in SEL.
    bool_hyps. repeat match goal with K : _ || _ = true |- _ => apply orb_true_iff in K; destruct K as [K|K] end; bool_hyps;
      unfold pos_le in *; bool_hyps; auto; discriminate. }
  set (incr := if x_reord_offs st <? o_end o then o_end o - x_reord_offs st else 0) in *.
  set (status := if h_bs100k ord * 100000 <? o_blksz o then E_ERR_OVERFLOW else o_status o) in *.
  destruct (status =? MORE) eqn:SM.
  { (* one more buffer of the block: the head moves on, same bit position *)
    inversion H; subst st'; clear H. apply llm_of_parts.
    - eapply mhp_transfer; [| | |exact MH]; xs.
      + auto.
      + rewrite OQ. intros h [<-|Hh]; [eexists; split; [left; reflexivity|reflexivity]|exists h; split; [right; auto|auto]].
      + intros j Hj J. exists j. auto.
    - eapply twp_transfer; [| | | |exact TW]; xs.
      + auto.
      + rewrite OQ. intros h [<-|Hh]; [eexists; split; [left; reflexivity|reflexivity]|exists h; split; [right; auto|auto]].
      + intros e He. exists e. auto.
      + auto. }
  (* the last buffer of the block: the head leaves the order *)
  set (status2 := if (status =? OK) && negb (o_crc o =? h_crc ord) then E_ERR_BLKCRC else status) in *.
  destruct (status2 =? OK) eqn:SOK; inversion H; subst st'; clear H; [|unfold fail in NF'; xs in NF'; discriminate].
  assert (OF : o_status o <> MORE).
  { subst status2 status. destruct (h_bs100k ord * 100000 <? o_blksz o).
    - destruct (o_crc o =? h_crc ord); vm_compute in SOK; discriminate.
    - apply N.eqb_neq. exact SM. }
  assert (FIN : In (hb ord) (map obit (filter is_final (x_reord_q st)))).
  { replace (hb ord) with (obit o) by (unfold obit, hb; rewrite EB; reflexivity).
    apply in_map. apply filter_In. split; [eapply remove_one_self; eauto using oblk_eqb_eq|].
    unfold is_final. apply negb_true_iff. apply N.eqb_neq. exact OF. }
  pose proof (ll_dist _ LD) as ND. unfold lines in ND.
  apply llm_of_parts.
  - intros P j Hj J. destruct (MH P j Hj J) as (h & Hh & HB). rewrite OQ in Hh. destruct Hh as [<-|Hh].
    + exfalso. apply (nodup_app_disj _ _ (jbit j) ND); [apply in_map; exact Hj|].
      apply in_or_app. right. rewrite <- HB. exact FIN.
    + exists h. split; [xs; exact Hh|exact HB].
  - intros P T W. destruct (TW P T W) as (h & e & Hh & He & HB). rewrite OQ in Hh. destruct Hh as [<-|Hh].
    + exfalso. apply nodup_app_r in ND. apply (nodup_app_disj _ _ (ebit e) ND); [apply in_map; exact He|].
      rewrite HB. exact FIN.
    + exists h, e. split; [xs; exact Hh|]. split; [exact He|exact HB].
Qed.

(* ---- do_scan --------------------------------------------------------------------------------- *)
Lemma llm_give_unit st : llm st -> llm (give_unit st).
Proof.
  intro L. destruct (llm_parts _ L) as [A B]. apply llm_of_parts.
  - eapply mhp_same; [..|exact A]; lnrm; auto.
  - apply twp_vac. unfold give_unit. xs. intros _ _ W. exact (succ_not_zero _ W).
Qed.

Lemma llm_scan1 cfg s att found s' more st st' :
  inv st -> llm st -> scan1 cfg s att found s' more st = Some st' -> llm st'.
Proof.
  intros I LL H. unfold scan1 in H.
  destruct (del_run (CScan s att) st) as [s1|] eqn:D; [|discriminate].
  assert (I1 : inv s1) by (eapply inv_view; [eapply view_del_run; eauto|auto]).
  destruct (del_run_spec _ _ _ D) as (l1 & l2 & E & ES1).
  assert (L1 : llm s1).
  { destruct (llm_parts _ LL) as [A B]. subst s1. apply llm_of_parts.
    - eapply mhp_same; [..|exact A]; xs; auto.
      intro x. unfold all_jobs. xs. rewrite E, !run_jobs_app, run_jobs_cons. simpl. tauto.
    - eapply twp_same; [..|exact B]; xs; auto.
      intro x. unfold estage. xs. rewrite E, !run_ejobs_app, run_ejobs_cons. simpl. auto. }
  clear I LL D ES1 E. set (aend := att_end att s1) in *. clearbody aend.
  assert (I2 : inv (detach att s1)) by (eapply inv_view; [apply view_detach|auto]).
  assert (L2 : llm (detach att s1)).
  { destruct (llm_parts _ L1) as [A B]. apply llm_of_parts.
    - eapply mhp_same; [..|exact A]; lnrm; auto.
    - eapply twp_same; [..|exact B]; lnrm; auto. }
  set (s2 := detach att s1) in *. clearbody s2. clear I1 L1 s1.
  pose proof (llm_give_unit _ L2) as GU.
  destruct (negb found || x_parsing_done s2) eqn:F.
  { inversion H; subst. exact GU. }
  match type of H with (if ?c then _ else _) = _ => destruct c; [|discriminate] end.
  set (s3 := if pos_le (d_pos s') (d_pos (x_parser_bs s2)) || (c_scan_job_checks_head cfg && (d_off s' <? x_head_offs s2)) then give_unit s2
             else if c_scan_checks_unord_cap cfg && unord_full s2 then give_unit s2
             else set_retr_q (mkrjob (d_pos s') s' (Some (x_next_uid s2)) :: x_retr_q s2)
                   (set_next_uid (x_next_uid s2 + 1)
                      (set_unords (x_unords s2 ++ [mkunord (x_next_uid s2) (d_pos s') s' false false true]) s2))) in *.
  assert (O3 : llm s3).
  { subst s3. destruct (pos_le (d_pos s') (d_pos (x_parser_bs s2)) || (c_scan_job_checks_head cfg && (d_off s' <? x_head_offs s2)));
      [exact GU|destruct (c_scan_checks_unord_cap cfg && unord_full s2); [exact GU|]].
    destruct (llm_parts _ L2) as [A B]. apply llm_of_parts.
    - eapply mhp_transfer; [| | |exact A]; xs.
      + auto.
      + intros h Hh. exists h. auto.
      + intros j Hj J. rewrite jm_app_new in J by reflexivity.
        unfold all_jobs in Hj. xs in Hj. simpl in Hj. destruct Hj as [<-|Hj]; [|exists j; auto].
        exfalso. unfold jm in J. simpl in J. apply existsb_exists in J. destruct J as (u & Hu & K). bool_hyps.
        pose proof (i_ufresh _ I2) as FR. rewrite Forall_forall in FR. apply FR in Hu.
        match goal with X : (u_id u =? x_next_uid s2) = true |- _ => apply N.eqb_eq in X; rewrite X in Hu end.
        exact (N.lt_irrefl _ Hu).
    - eapply twp_same; [..|exact B]; xs; auto. }
  clearbody s3.
  match type of H with (if ?c then _ else _) = _ => destruct c end; inversion H; subst; auto.
  destruct (llm_parts _ O3) as [A B]. apply llm_of_parts.
  - eapply mhp_same; [..|exact A]; xs; auto.
  - eapply twp_same; [..|exact B]; xs; auto.
Qed.

(* ---- do_parse ---------------------------------------------------------------------------------- *)
Lemma parse_finish_done cfg g s :
  x_failed (parse_finish cfg g s) = None -> x_parsing_done (parse_finish cfg g s) = true.
Proof.
  unfold parse_finish. set (pb' := mkdbs _ _).
  match goal with |- x_failed (if ?c then _ else _) = None -> _ => destruct c end.
  - unfold fail. xs. discriminate.
  - intros _. destruct (c_finish_drops_link cfg); xs; autorewrite with xf; xs; reflexivity.
Qed.

(* a block header: the new master (created or adopted) gets the head that is pushed; the token
   comes back only together with a work unit *)
Lemma llm_parse_ok cfg lv crc s :
  inv s -> masters s = 0%nat -> x_parse_token s = false -> llm (parse_ok cfg lv crc s).
Proof.
  intros I M0 T0. unfold parse_ok.
  set (p := d_pos (x_parser_bs s)) in *. set (hnew := mkhead p lv crc).
  set (s1 := set_order_q (x_order_q s ++ [hnew]) s).
  assert (V1 : view_eq s s1) by (subst s1; view_tac).
  assert (I1 : inv s1) by (eapply inv_view; eauto).
  assert (E1 : masters s1 = 0%nat /\ x_parse_token s1 = false /\ x_order_q s1 = x_order_q s ++ [hnew])
    by (subst s1; unfold masters, all_jobs in *; xs; auto).
  clearbody s1. clear V1 I M0 T0. destruct E1 as (M1 & T1 & OQ1).
  set (s2 := set_unords (discard_below p (x_unords s1)) s1).
  destruct (inv_detached s1 (discard_below p (x_unords s1))) as (I2 & M2); auto.
  { apply discard_below_spec. } { apply nodup_discard. apply I1. }
  fold s2 in I2, M2.
  assert (E2 : x_parse_token s2 = false /\ x_order_q s2 = x_order_q s ++ [hnew]) by (subst s2; xs; auto).
  destruct E2 as (T2 & OQ2). clearbody s2. clear I1.
  assert (M2' : masters s2 = 0%nat) by (clear - M2 M1; lia). clear M2 M1.
  assert (HN : In hnew (x_order_q s2)) by (rewrite OQ2; apply in_or_app; right; left; reflexivity).
  assert (NEW : llm (set_retr_q (mkrjob p (x_parser_bs s2) None :: x_retr_q s2) s2)).
  { constructor.
    - intros _ j Hj J. unfold all_jobs in Hj. xs in Hj. simpl in Hj. destruct Hj as [<-|Hj].
      + exists hnew. split; [xs; exact HN|reflexivity].
      + exfalso. xs in J. rewrite (no_masters_jm s2 j M2' Hj) in J. discriminate.
    - intros _ T. xs in T. congruence. }
  destruct (qmin u_base pos_lt (unord_q s2)) as [u|] eqn:Q; [|exact NEW].
  destruct (pos_eq (u_base u) p) eqn:PE; [|exact NEW]. clear NEW.
  apply pos_eq_spec in PE. apply qmin_In in Q. unfold unord_q in Q. apply filter_In in Q. destruct Q as [Hu Qi].
  assert (UO2 : Forall unord_ok (x_unords s2)) by apply I2.
  pose proof (adv_jobs_sub cfg (u_end u) s2) as AJ3.
  pose proof (adv_nomaster cfg (u_end u) s2 UO2 (fun j => no_masters_jm s2 j M2')) as NM3.
  assert (E3 : x_parse_token (advance cfg (u_end u) s2) = false /\ x_order_q (advance cfg (u_end u) s2) = x_order_q s2)
    by (autorewrite with xf; auto).
  set (s3 := advance cfg (u_end u) s2) in *. destruct E3 as (T3 & OQ3). clearbody s3.
  destruct (u_complete u) eqn:UC.
  - (* the candidate has been retrieved already *)
    apply llm_nomaster_unit.
    + intros j Hj. unfold all_jobs in Hj. xs in Hj. xs.
      destruct (jm (del_unord (u_id u) (x_unords s3)) j) eqn:J; auto.
      apply (jm_sub (x_unords s3)) in J; [|unfold del_unord; intros v Hv; apply filter_In in Hv; tauto].
      rewrite (NM3 j Hj) in J. discriminate.
    + xs. intro W. exact (succ_not_zero _ W).
  - (* its job becomes the master *)
    constructor.
    + intros _ j Hj J. unfold all_jobs in Hj. xs in Hj. xs in J.
      destruct (jm_detach _ _ _ J) as [J1|J1]; [rewrite (NM3 j Hj) in J1; discriminate|].
      unfold links in J1. apply optN_eqb_eq in J1.
      pose proof (i_jobs _ I2) as IJ. rewrite Forall_forall in IJ.
      destruct (IJ j (AJ3 j Hj)) as (_ & _ & _ & _ & J5). destruct (J5 _ u J1 Hu eq_refl) as [JB _].
      exists hnew. split; [xs; rewrite OQ3; exact HN|]. unfold hb, jbit. rewrite <- JB, PE. reflexivity.
    + intros _ T. xs in T. congruence.
Qed.

Lemma llm_parse1 cfg att r st st' :
  inv st -> x_failed st' = None -> parse1 cfg att r st = Some st' -> llm st'.
Proof.
  intros I NF' H. unfold parse1 in H.
  destruct (del_run (CParse att) st) as [s1|] eqn:D; [|discriminate].
  destruct (inv_del_parse _ _ _ D I) as (I1 & M1 & N1 & T1 & PD1). clear I D.
  set (aend := att_end att s1) in *. clearbody aend.
  match type of H with (if ?c then _ else _) = _ => destruct c eqn:C; [|discriminate] end. bool_hyps.
  assert (V2 : view_eq s1 (detach att s1)) by apply view_detach.
  assert (I2 : inv (detach att s1)) by (eapply inv_view; eauto).
  assert (E2 : masters (detach att s1) = 0%nat /\ nparse (detach att s1) = 0%nat /\ x_parse_token (detach att s1) = false /\
               x_parsing_done (detach att s1) = false /\ x_parser_bs (detach att s1) = x_parser_bs s1)
    by (unfold masters, all_jobs, nparse in *; nrm; auto).
  set (s2 := detach att s1) in *. destruct E2 as (M2 & N2 & T2 & PD2 & PB2). clearbody s2.
  assert (HD : x_head_offs s2 <= d_off (res_bs r)).
  { assert (x_head_offs s2 <= d_off (x_parser_bs s2)) by (apply I2; auto). rewrite PB2 in *.
    match goal with K : (d_off (x_parser_bs s1) <=? d_off (res_bs r)) = true |- _ => apply N.leb_le in K end. lia. }
  destruct (inv_advance cfg (res_bs r) s2 I2 M2 HD) as (I3 & M3 & _).
  assert (E3 : x_parse_token (advance cfg (res_bs r) s2) = false) by (autorewrite with xf; auto).
  set (s3 := advance cfg (res_bs r) s2) in *. clearbody s3.
  destruct r as [bs ps|bs g|bs code|bs ps lv crc]; simpl res_bs in *.
  - match type of H with (if ?c then _ else _) = _ => destruct c; [|discriminate] end. inversion H; subst st'.
    apply llm_nomaster_unit.
    + intros j Hj. xs. apply (no_masters_jm s3 j M3). exact Hj.
    + xs. intro W. exact (succ_not_zero _ W).
  - match type of H with (if ?c then _ else _) = _ => destruct c; [|discriminate] end. inversion H; subst st'.
    apply llm_done. apply parse_finish_done. exact NF'.
  - match type of H with (if ?c then _ else _) = _ => destruct c; [discriminate|] end. inversion H; subst st'.
    unfold fail in NF'. xs in NF'. discriminate.
  - match type of H with (if ?c then _ else _) = _ => destruct c eqn:NB; [|discriminate] end. inversion H; subst st'.
    apply llm_parse_ok.
    + eapply inv_view; [|exact I3]. view_tac.
    + unfold masters, all_jobs in *. xs. exact M3.
    + xs. exact E3.
Qed.

(* ---- do_retrieve -------------------------------------------------------------------------------- *)
(* a job is dropped (and gives its unord block back): a work unit is released *)
Lemma llm_drop_unit JL l s (b : bool) :
  Forall unord_ok (x_unords s) -> mhp JL s -> (forall x, In x (all_jobs s) -> In x JL) ->
  llm (give_unit (if b then set_unords (drop_link l (x_unords s)) s else s)).
Proof.
  intros UO MH SUB. apply llm_of_parts.
  - eapply mhp_transfer; [| | |exact MH].
    + destruct b; lnrm; auto.
    + intros h Hh. exists h. split; auto. destruct b; lnrm; auto.
    + intros j Hj J. exists j. split; [apply SUB; destruct b; exact Hj|]. split; auto.
      destruct b; unfold give_unit in J; xs in J; auto.
      eapply jm_stems; [|exact UO|exact J]. apply drop_link_stems.
  - apply twp_vac. unfold give_unit. xs. intros _ _ W. exact (succ_not_zero _ W).
Qed.

(* the master (created by the parser, or adopted): when it finishes, the token comes back and
   its emit job is the witness of ll_tw *)
Lemma llm_retr1_master cfg j lk rv cur s2 st' :
  r_link j = lk -> Forall unord_ok (x_unords s2) -> x_parse_token s2 = false -> jm (x_unords s2) j = true ->
  mhp (j :: all_jobs s2) s2 ->
  (let st := advance cfg cur s2 in
   if rv =? MORE then
     if c_requeue_retr_checks_head cfg && (d_off cur <? x_head_offs st)
     then Some (give_unit (if c_stale_drops_link cfg then set_unords (drop_link lk (x_unords st)) st else st))
     else Some (set_retr_q (mkrjob (r_base j) cur lk :: x_retr_q st) st)
   else Some (add_run (CRetr2 (mkejob (r_base j) rv (d_off cur)))
                (match lk with
                 | Some id => set_unords (del_unord id (x_unords (set_parse_token true st))) (set_parse_token true st)
                 | None => set_parse_token true st
                 end))) = Some st' ->
  llm st'.
Proof.
  intros ELK UO T2 JM MH Hst. cbv zeta in Hst.
  assert (E3 : x_order_q (advance cfg cur s2) = x_order_q s2 /\ x_parsing_done (advance cfg cur s2) = x_parsing_done s2 /\
               x_parse_token (advance cfg cur s2) = false /\ x_running (advance cfg cur s2) = x_running s2 /\
               x_emit_q (advance cfg cur s2) = x_emit_q s2)
    by (autorewrite with xf; auto).
  pose proof (adv_jobs_sub cfg cur s2) as AJ3. pose proof (fun x => adv_jm cfg cur s2 x UO) as JM3.
  pose proof (adv_unord_ok cfg cur s2 UO) as UO3.
  set (st := advance cfg cur s2) in *. destruct E3 as (OQ3 & PD3 & TK3 & RU3 & EQ3). clearbody st.
  assert (MH3 : mhp (all_jobs st) st).
  { eapply mhp_transfer; [| | |exact MH].
    - congruence.
    - intros h Hh. exists h. rewrite OQ3. auto.
    - intros x Hx J. exists x. split; [right; apply AJ3; exact Hx|]. split; auto. }
  destruct (rv =? MORE) eqn:RV.
  - destruct (c_requeue_retr_checks_head cfg && (d_off cur <? x_head_offs st)).
    + inversion Hst; subst st'. apply (llm_drop_unit (all_jobs st)); auto.
    + inversion Hst; subst st'. clear Hst. apply llm_of_parts.
      * intros P x Hx J. xs in P. xs in J. unfold all_jobs in Hx. xs in Hx. simpl in Hx. destruct Hx as [<-|Hx].
        -- destruct (MH (eq_trans (eq_sym PD3) P) j (or_introl eq_refl) JM) as (h & Hh & HB).
           exists h. split; [xs; rewrite OQ3; exact Hh|exact HB].
        -- destruct (MH3 P x Hx J) as (h & Hh & HB). exists h. split; [xs; exact Hh|exact HB].
      * apply twp_vac. xs. rewrite TK3. intros; discriminate.
  - inversion Hst; subst st'; clear Hst.
    match goal with |- context [add_run _ ?x] => set (sf := x) end.
    assert (EF : x_order_q sf = x_order_q st /\ x_emit_q sf = x_emit_q st /\ x_running sf = x_running st /\
                 x_retr_q sf = x_retr_q st /\ x_parsing_done sf = x_parsing_done st).
    { subst sf. destruct lk; xs; auto 10. }
    destruct EF as (F1 & F3 & F4 & F6 & F8).
    assert (USub : forall u, In u (x_unords sf) -> In u (x_unords st)).
    { subst sf. destruct lk; xs; auto. intros u Hu. unfold del_unord in Hu. apply filter_In in Hu. tauto. }
    clearbody sf.
    set (e := mkejob (r_base j) rv (d_off cur)).
    constructor.
    + intros P x Hx J. unfold add_run in P, J, Hx. xs in P. xs in J.
      unfold all_jobs in Hx. xs in Hx. rewrite run_jobs_cons in Hx. simpl in Hx. rewrite F6, F4 in Hx.
      rewrite F8 in P. apply (jm_sub (x_unords st)) in J; [|exact USub].
      destruct (MH3 P x Hx J) as (h & Hh & HB). exists h. split; [unfold add_run; xs; rewrite F1; exact Hh|exact HB].
    + intros P _ _. unfold add_run in P. xs in P. rewrite F8, PD3 in P.
      destruct (MH P j (or_introl eq_refl) JM) as (h & Hh & HB).
      exists h, e. split; [unfold add_run; xs; rewrite F1, OQ3; exact Hh|].
      split; [unfold estage, add_run; xs; rewrite run_ejobs_cons; simpl; apply in_or_app; right; left; reflexivity|].
      rewrite HB. reflexivity.
Qed.

(* a speculative job: nothing the invariant looks at changes, or a unit is released *)
Lemma llm_retr1_spec cfg j id rv cur s2 st' :
  jfacts j s2 -> r_link j = Some id -> dbs_ok cur = true -> d_bit (r_cur j) <= d_bit cur ->
  mhp (j :: all_jobs s2) s2 -> twp s2 ->
  (let st := set_unords (upd_unord id (u_set_end cur) (x_unords s2)) s2 in
   if rv =? MORE then
     if c_requeue_retr_checks_head cfg && (d_off cur <? x_head_offs st)
     then Some (give_unit (if c_stale_drops_link cfg then set_unords (drop_link (Some id) (x_unords st)) st else st))
     else Some (set_retr_q (mkrjob (r_base j) cur (Some id) :: x_retr_q st) st)
   else Some (add_run (CRetr2 (mkejob (r_base j) rv (d_off cur)))
                (set_unords (upd_unord id (fun u => u_set_complete (u_set_end cur u)) (x_unords st)) st))) = Some st' ->
  llm st'.
Proof.
  intros (I2 & J2 & L2 & B2 & M2) EL Hok Hbit MH TW Hst.
  pose proof (L2 id EL) as Z2. destruct J2 as (J1 & J2' & J3 & J4 & J5).
  assert (UB : forall u, In u (x_unords s2) -> u_id u = id -> u_base u = r_base j) by (intros u Hu Hid; apply (J5 id u EL Hu Hid)).
  assert (I3 : inv (set_unords (upd_unord id (u_set_end cur) (x_unords s2)) s2)).
  { apply (inv_upd_spec id (u_set_end cur) s2 I2 Z2).
    - intro u. split; reflexivity.
    - intros u Hu Hid. destruct I2 as [_ _ _ _ Iu _ _ _ _ _ _ _ _]. rewrite Forall_forall in Iu. destruct (Iu u Hu) as (O1 & O2 & O3).
      unfold unord_ok, u_set_end; simpl. split; [|split; auto]. intro Q. destruct (O1 Q) as (_ & _ & L).
      repeat split; auto. rewrite (UB u Hu Hid). clear - J1 Hbit. lia. }
  cbv zeta in Hst. set (st := set_unords (upd_unord id (u_set_end cur) (x_unords s2)) s2) in *.
  assert (ES : x_order_q st = x_order_q s2 /\ all_jobs st = all_jobs s2 /\ x_parsing_done st = x_parsing_done s2 /\
               x_parse_token st = x_parse_token s2 /\ x_work_units st = x_work_units s2 /\ estage st = estage s2)
    by (subst st; unfold all_jobs, estage; xs; auto 10).
  destruct ES as (OQ3 & AJ3 & PD3 & TK3 & WU3 & ES3).
  assert (JMe : forall x, jm (x_unords st) x = jm (x_unords s2) x).
  { intro x. subst st. xs. apply jm_upd_same. intro u. repeat split; reflexivity. }
  assert (UO3 : Forall unord_ok (x_unords st)) by apply I3.
  assert (MH3 : mhp (j :: all_jobs st) st).
  { eapply mhp_transfer; [| | |exact MH].
    - congruence.
    - intros h Hh. exists h. rewrite OQ3. auto.
    - intros x Hx J. exists x. rewrite AJ3 in Hx. rewrite JMe in J. auto. }
  assert (TW3 : twp st).
  { eapply twp_same; [..|exact TW]; auto. all: try (rewrite ES3; auto). }
  clearbody st. clear I3 MH TW.
  destruct (rv =? MORE) eqn:RV.
  - destruct (c_requeue_retr_checks_head cfg && (d_off cur <? x_head_offs st)).
    + injection Hst as <-. apply (llm_drop_unit (j :: all_jobs st) (Some id) st (c_stale_drops_link cfg)); auto.
      intros x Hx. right. exact Hx.
    + inversion Hst; subst st'. clear Hst. apply llm_of_parts.
      * eapply mhp_transfer; [| | |exact MH3]; xs.
        -- auto.
        -- intros h Hh. exists h. auto.
        -- intros x Hx J. unfold all_jobs in Hx. xs in Hx. simpl in Hx. destruct Hx as [<-|Hx].
           ++ exists j. split; [left; reflexivity|]. split; [|reflexivity].
              rewrite <- (jm_link (x_unords st) j (mkrjob (r_base j) cur (Some id))) by (simpl; congruence). exact J.
           ++ exists x. split; [right; exact Hx|]. auto.
      * eapply twp_same; [..|exact TW3]; xs; auto.
  - inversion Hst; subst st'. clear Hst. apply llm_of_parts.
    + eapply mhp_transfer; [| | |exact MH3]; unfold add_run; xs.
      * auto.
      * intros h Hh. exists h. auto.
      * intros x Hx J. exists x. split; [right; exact Hx|]. split; [|reflexivity].
        eapply jm_upd_raise; [|exact UO3|exact J]. intro u. split; reflexivity.
    + eapply twp_same; [..|exact TW3]; unfold add_run; xs; auto.
      intros x Hx. unfold estage in *. xs. rewrite run_ejobs_cons. simpl. rewrite in_app_iff in *. simpl. tauto.
Qed.

Lemma llm_retr1 cfg j att rv cur st st' :
  inv st -> llm st -> retr1 cfg j att rv cur st = Some st' -> llm st'.
Proof.
  intros I LL H. unfold retr1 in H.
  destruct (del_run (CRetr j att) st) as [s1|] eqn:D; [|discriminate].
  assert (F1 : jfacts j s1) by (apply (inv_del_retr _ _ _ _ D I)).
  destruct (del_run_spec _ _ _ D) as (l1 & l2 & E & ES1).
  assert (L1 : mhp (j :: all_jobs s1) s1 /\ twp s1).
  { destruct (llm_parts _ LL) as [A B]. subst s1. split.
    - eapply mhp_same; [..|exact A]; xs; auto.
      intro x. unfold all_jobs. xs. rewrite E, !run_jobs_app, run_jobs_cons. simpl. rewrite !in_app_iff. simpl. rewrite ?in_app_iff. tauto.
    - eapply twp_same; [..|exact B]; xs; auto.
      intro x. unfold estage. xs. rewrite E, !run_ejobs_app, run_ejobs_cons. simpl. auto. }
  clear I LL D ES1 E.
  set (aend := att_end att s1) in *. clearbody aend.
  match type of H with (if ?c then _ else _) = _ => destruct c eqn:C; [|discriminate] end.
  assert (F2 : jfacts j (detach att s1)) by (eapply jfacts_view; [apply view_detach|auto]).
  assert (L2 : mhp (j :: all_jobs (detach att s1)) (detach att s1) /\ twp (detach att s1)).
  { destruct L1 as [A B]. split.
    - eapply mhp_same; [..|exact A]; lnrm; auto.
    - eapply twp_same; [..|exact B]; lnrm; auto. }
  clear F1 L1. set (s2 := detach att s1) in *. clearbody s2. clear s1.
  bool_hyps.
  assert (Hok : dbs_ok cur = true) by assumption.
  assert (Hbit : d_bit (r_cur j) <= d_bit cur) by (apply N.leb_le; assumption).
  destruct L2 as [MH TW].
  assert (F2' := F2). destruct F2' as (I2 & J2 & LK2 & B2 & M2).
  assert (UO2 : Forall unord_ok (x_unords s2)) by apply I2.
  assert (TKM : jm (x_unords s2) j = true -> x_parse_token s2 = false).
  { intro JM. rewrite JM in B2. destruct (x_parse_token s2); auto. exfalso. simpl in B2. clear - B2. lia. }
  (* parsing_done *)
  destruct (x_parsing_done s2) eqn:PD.
  { inversion H; subst st'. apply llm_done. unfold give_unit. destruct (c_retr_done_drops_link cfg); xs; exact PD. }
  destruct (link_state (r_link j) s2) as [u|] eqn:LS.
  - destruct (link_state_spec _ _ _ LS) as (id & EL & Hu & Hid). rewrite EL in H. cbn [andb negb orb] in H.
    destruct (u_complete u) eqn:UC; cbn [andb negb orb] in H.
    + destruct (u_legit u) eqn:UL; cbn [andb negb orb] in H.
      * (* adopted: acts as the master *)
        assert (JM : jm (x_unords s2) j = true) by (eapply jm_of_link_state; eauto).
        eapply (llm_retr1_master cfg j (Some id) rv cur s2 st' EL UO2 (TKM JM) JM MH). exact H.
      * (* proven not legitimate: aborted *)
        injection H as <-. apply (llm_drop_unit (j :: all_jobs s2) (Some id) s2 (c_retr_abort_drops_link cfg)); auto.
        intros x Hx. right. exact Hx.
    + (* speculative *)
      eapply (llm_retr1_spec cfg j id rv cur s2 st' F2 EL Hok Hbit MH TW). exact H.
  - assert (EL : (exists id, r_link j = Some id) \/ r_link j = None) by (destruct (r_link j); eauto).
    destruct EL as [[id EL]|EL]; rewrite EL in H; cbn [andb negb orb] in H.
    + (* dangling link: treated as speculative, the update is void *)
      eapply (llm_retr1_spec cfg j id rv cur s2 st' F2 EL Hok Hbit MH TW). exact H.
    + (* created by the parser: the master *)
      assert (JM : jm (x_unords s2) j = true) by (unfold jm; rewrite EL; reflexivity).
      eapply (llm_retr1_master cfg j None rv cur s2 st' EL UO2 (TKM JM) JM MH). exact H.
Qed.

(* ---- the invariant -------------------------------------------------------------------------------- *)
(* with no work unit at all (n = 0) the initial state has the token but no unit and nothing
   in flight: ll_tw needs at least one worker *)
Lemma llm_init n tin tout ultra : 0 < n -> llm (init_state n tin tout ultra).
Proof.
  intro P. constructor; simpl.
  - intros _ j [].
  - intros _ _ W. exfalso. clear - P W. lia.
Qed.

Lemma llm_init_zero_refuted tin tout ultra : ~ llm (init_state 0 tin tout ultra).
Proof. intros [_ B]. destruct (B eq_refl eq_refl eq_refl) as (h & _ & [] & _). Qed.

(* hypotheses used: inv st, lld st (do_reorder only), x_failed st' = None *)
Theorem llm_step_min cfg st e st' :
  inv st -> lld st -> x_failed st' = None -> llm st -> step cfg st e = Some st' -> llm st'.
Proof.
  intros I LD NF' LL H. unfold step in H. destruct (x_failed st) eqn:NF; [discriminate|].
  destruct e.
  - eapply llm_input; eauto.
  - eapply llm_eof; eauto.
  - eapply llm_written; eauto.
  - eapply llm_parse0; eauto.
  - eapply llm_parse1; eauto.
  - eapply llm_retr0; eauto.
  - eapply llm_retr1; eauto.
  - eapply llm_retr2; eauto.
  - eapply llm_emit0; eauto.
  - eapply llm_emit1; eauto.
  - eapply llm_reorder; eauto.
  - eapply llm_scan0; eauto.
  - eapply llm_scan1; eauto.
Qed.

(* the shape asked for by the assembly (the extra hypotheses are not used) *)
Theorem llm_step cfg st e st' :
  cfg_safe cfg -> cfg_drops cfg -> inv st -> own st -> lld st -> ev_next st e -> x_failed st' = None ->
  llm st -> step cfg st e = Some st' -> llm st'.
Proof. intros _ _ I _ LD _ NF' LL H. eapply llm_step_min; eauto. Qed.

Print Assumptions llm_init.
Print Assumptions llm_step_min.
Print Assumptions llm_step.
