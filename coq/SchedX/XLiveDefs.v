(* Liveness of the decompression scheduler (expand.c on process.c): definitions.

   Progress is stated for the whole system - worker tasks, reader thread, writer thread -
   like SchedC/SchedCLive.v does for the compressor: a reachable, non-failed state in which
   no worker is inside an unlocked computation and which is not final has an enabled event
   that is not a stutter.  The reader is counted as able to move only when the real
   source_thread_proc() is: it holds or can take an input slot, or request_close is set.

   The invariants the argument needs, beyond [inv] (XInvDefs), [own] (XOwn), [cnt] (XCount):
     lin  reference counts of the input blocks, position of the parser inside input_q
     ltk  exactly one of {parse token, running parser, master retriever} exists
     lld  the "lines" (retrieve jobs, emit-stage jobs, last buffers) have pairwise distinct
          bit positions; every line beyond the parser has its candidate in unord_q
     llm  the master's head is in order_q; the token is not stranded without a work unit
     lrs  the buffers of a line are contiguous in reord_q (chain) and EMIT_THRESH output
          slots stay reserved for what is at or before the head of order_q
   Label hypotheses of the runs ([lreach]): [ev_prog] (XOwn: a POk label consumes >= 32 bits)
   and [ev_fresh]: the scanner never reports a position that is the base of a candidate
   still in unord_q.  XScanFront.v derives [ev_fresh] from "every scan call that finds a
   magic ends strictly after it began" ([ev_scan_prog]). *)
From Coq Require Import List NArith Bool Lia Arith.
From LBZ Require Import Gen.Consts SchedX.XState Gen.SchedXTab SchedX.XSet SchedX.XModel SchedX.XLemmas
  SchedX.XInvDefs SchedX.XInv2 SchedX.XOracle SchedX.XOwn SchedX.XOwnProofs SchedX.XCount.
Import ListNotations.
Local Open Scope N_scope.

(* ---- label hypotheses ------------------------------------------------------------------- *)
Definition ubit (u : unord) : N := fst (u_base u).
Definition ubits (st : xstate) : list N := map ubit (unord_q st).

(* a candidate reported by scan() is not already queued *)
Definition ev_fresh (st : xstate) (e : event) : Prop :=
  match e with
  | EvScan1 _ _ true s' _ => ~ In (d_bit s') (ubits st)
  | _ => True
  end.

(* [ev_prog] (XOwn.v): a block confirmed by the parser starts at least HDR_MIN bits after the block
   confirmed before it.  (parse() consumes the 48-bit magic and the 32-bit CRC of a header, possibly over
   several calls that return MORE when the header straddles input blocks: the LAST call may consume fewer
   than 32 bits, so the hypothesis is stated against the previous base [x_next], not against the parser's
   position.)  [ev_next] is the same statement under the name the liveness files use. *)
Definition ev_next (st : xstate) (e : event) : Prop :=
  match e with
  | EvParse1 _ (POk bs _ _ _) => x_next st + HDR_MIN <= d_bit bs
  | _ => True
  end.

Lemma ev_prog_next st e : ev_prog st e <-> ev_next st e.
Proof. destruct e; simpl; tauto. Qed.

(* a scan() call that finds a magic stops strictly after the position it started from *)
Definition ev_scan_prog (e : event) : Prop :=
  match e with
  | EvScan1 s _ true s' _ => d_bit s < d_bit s'
  | _ => True
  end.

Inductive lreach (cfg : xcfg) (s0 : xstate) : xstate -> Prop :=
| lreach_init : lreach cfg s0 s0
| lreach_step st e st' : lreach cfg s0 st -> ev_prog st e -> ev_fresh st e -> step cfg st e = Some st' -> lreach cfg s0 st'.

Inductive sreach (cfg : xcfg) (s0 : xstate) : xstate -> Prop :=
| sreach_init : sreach cfg s0 s0
| sreach_step st e st' : sreach cfg s0 st -> ev_prog st e -> ev_scan_prog e -> step cfg st e = Some st' -> sreach cfg s0 st'.

Lemma lreach_preach cfg s0 st : lreach cfg s0 st -> preach cfg s0 st.
Proof. induction 1; [constructor|econstructor; eauto]. Qed.

Lemma sreach_preach cfg s0 st : sreach cfg s0 st -> preach cfg s0 st.
Proof. induction 1; [constructor|econstructor; eauto]. Qed.

(* ---- G1: input blocks ---------------------------------------------------------------------- *)
Definition catt (c : cont) : option N :=
  match c with CParse a => a | CRetr _ a => a | CScan _ a => a | CRetr2 _ => None | CEmit _ => None end.
Definition att_is (o : N) (c : cont) : bool := optN_eqb (catt c) (Some o).
Definition natt (o : N) (r : list cont) : N := N.of_nat (length (filter (att_is o) r)).

Record lin (st : xstate) : Prop := mklin {
  (* ref_count = 1 (input_q) + the bit streams attached to the block *)
  li_refq : forall b, In b (x_input_q st) -> ib_ref b = 1 + natt (ib_off b) (x_running st);
  li_refz : forall z, In z (x_zombies st) ->
            ib_ref z = natt (ib_off z) (x_running st) /\ 0 < ib_ref z /\ 0 < ib_size z /\ ib_end z <= x_head_offs st;
  li_att : forall c o, In c (x_running st) -> catt c = Some o ->
           exists b, In b (x_input_q st ++ x_zombies st) /\ ib_off b = o;
  (* the parser stands inside the first block of input_q (or at tail_offs) *)
  li_pbs : x_parsing_done st = false -> d_off (x_parser_bs st) <= x_tail_offs st;
  li_first : x_parsing_done st = false -> forall b rest, x_input_q st = b :: rest -> d_off (x_parser_bs st) < ib_end b;
  li_retr : Forall (fun j => d_off (r_cur j) <= x_tail_offs st) (x_retr_q st);
  li_uend : Forall (fun u => u_inq u = true -> d_off (u_end u) <= x_tail_offs st) (x_unords st)
}.

(* ---- G2: token / parser / master ------------------------------------------------------------- *)
Record ltk (st : xstate) : Prop := mkltk {
  lt_closed : x_closed st = x_parsing_done st;
  lt_r0 : x_parsing_done st = true -> x_retr_q st = [];
  lt_ex : x_parsing_done st = false -> (1 <= b2n (x_parse_token st) + nparse st + masters st)%nat;
  lt_mp : x_parsing_done st = false -> forall j, In j (x_retr_q st) -> jm (x_unords st) j = true -> r_cur j = x_parser_bs st
}.

(* ---- G3a: lines -------------------------------------------------------------------------------- *)
Definition jbit (j : rjob) : N := fst (r_base j).
Definition ebit (e : ejob) : N := fst (e_base e).
Definition obit (o : oblk) : N := fst (o_base o).

(* retrieve jobs, emit-stage jobs, last buffers waiting in reord_q *)
Definition lines (st : xstate) : list N :=
  map jbit (all_jobs st) ++ map ebit (estage st) ++ map obit (filter is_final (x_reord_q st)).
Definition allbits (st : xstate) : list N :=
  map jbit (all_jobs st) ++ map ebit (estage st) ++ map obit (x_reord_q st).

Record lld (st : xstate) : Prop := mklld {
  ll_dist : NoDup (lines st);
  ll_udist : NoDup (ubits st);
  (* whatever lies beyond the block confirmed last is speculative and its candidate is still queued *)
  ll_ub : x_parsing_done st = false -> forall b, In b (allbits st) -> x_next st < b -> In b (ubits st);
  (* a queued candidate that is complete has no retrieve job any more *)
  ll_ul : forall u j, In u (x_unords st) -> u_inq u = true -> u_complete u = true -> In j (all_jobs st) ->
          r_link j <> Some (u_id u)
}.

Record llm (st : xstate) : Prop := mkllm {
  (* the block of the master retriever is still in order_q *)
  ll_mh : x_parsing_done st = false -> forall j, In j (all_jobs st) -> jm (x_unords st) j = true ->
          exists h, In h (x_order_q st) /\ hb h = jbit j;
  (* the parse token without a work unit: the block confirmed last is being emitted *)
  ll_tw : x_parsing_done st = false -> x_parse_token st = true -> x_work_units st = 0 ->
          exists h e, In h (x_order_q st) /\ In e (estage st) /\ ebit e = hb h
}.

(* ---- G3b: chain and reserve -------------------------------------------------------------------- *)
(* a buffer position the order has moved past *)
Definition passed (st : xstate) (x : pos) : Prop :=
  (fst x <= x_next st \/ x_parsing_done st = true) /\ forall h, In h (x_order_q st) -> lexlt x (h_base h).

(* at or before the head of order_q (what can_emit()'s second disjunct and can_reorder() let through) *)
Definition atmostb (st : xstate) (x : pos) : bool :=
  match x_order_q st with
  | [] => (fst x <=? x_next st) || x_parsing_done st
  | h :: _ => pos_le x (h_base h)
  end.

Definition res_cont (st : xstate) (c : cont) : bool :=
  match c with CEmit e => atmostb st (e_base e) | _ => false end.

Definition rcount (st : xstate) : N :=
  x_out_slots st + x_outq st +
  N.of_nat (length (filter (fun o => atmostb st (o_base o)) (x_reord_q st))) +
  N.of_nat (length (filter (res_cont st) (x_running st))).

Definition linepos (st : xstate) : list pos := map e_base (estage st) ++ map o_base (x_reord_q st).

Record lrs (st : xstate) : Prop := mklrs {
  lr_ch : forall x k, In x (linepos st) -> k < snd x ->
          (exists o, In o (x_reord_q st) /\ o_base o = (fst x, k) /\ o_status o = MORE) \/ passed st (fst x, k);
  lr_rs : EMIT_THRESH <= x_total_out st -> EMIT_THRESH <= rcount st
}.

(* ---- G4: the scanner's frontier ----------------------------------------------------------------- *)
(* [s] works on the block [o, e) (word offsets): candidates it may still report lie in (d_bit s, 32 e] *)
Definition clear_of (st : xstate) (s : dbs) (e : N) : Prop :=
  forall u, In u (unord_q st) -> ubit u <= d_bit s \/ 32 * e < ubit u.

Record lsf (st : xstate) : Prop := mklsf {
  sf_q : forall s b, In s (x_scan_q st) -> In b (x_input_q st) -> ib_off b <= d_off s -> d_off s < ib_end b ->
         32 * ib_off b <= d_bit s /\ clear_of st s (ib_end b);
  sf_r : forall s o b, In (CScan s (Some o)) (x_running st) -> In b (x_input_q st ++ x_zombies st) -> ib_off b = o ->
         32 * o <= d_bit s /\ clear_of st s (ib_end b);
  sf_t : forall u, In u (unord_q st) -> ubit u <= 32 * x_tail_offs st
}.

(* ---- enabledness of the environment, productive events ------------------------------------------ *)
(* source_thread_proc(): waits while in_slots == 0 && !request_close *)
Definition reader_can_move (st : xstate) : bool := negb (x_eof st) && ((0 <? x_in_slots st) || x_closed st).

(* events that are not stutters: an input block handed over after source_close() changes nothing;
   the end of input is reported only when the reader thread is able to move *)
Definition productive (st : xstate) (e : event) : bool :=
  match e with
  | EvInput _ _ => negb (x_parsing_done st)
  | EvEof => reader_can_move st
  | _ => true
  end.

(* what every group of invariants assumes of the source *)
Definition cfg_live (cfg : xcfg) : Prop := cfg_safe cfg /\ cfg_drops cfg.
