(* Finding F4: the safety invariant "no queued retrieve job lies below head_offs"
   (what can_attach() asserts) and the three-block scenario that violates it when
   do_retrieve() re-queues a job on MORE without testing its offset.
   This file holds the statement and the scenario only; it compiles for every
   source.  notes/XF4Refuted_before_fix.v proves the refutation for the regenerated booleans and
   compiles only while the source lacks the test. *)
From Coq Require Import List NArith Bool.
From LBZ Require Import Gen.Consts SchedX.XState Gen.SchedXTab SchedX.XSet SchedX.XModel.
Import ListNotations.
Local Open Scope N_scope.

(* expand.c:181-184 (check_invariants, compiled out) and the assert in can_attach() *)
Definition retr_inv (st : xstate) : bool :=
  forallb (fun j => x_head_offs st <=? d_off (r_cur j)) (x_retr_q st).

(* Two workers, three input blocks of two words.  The parser confirms a block at
   bit 10; a scanner reports a candidate at bit 40 (inside that block); the
   candidate's retriever is attached to block [2,4) and is slow; meanwhile the
   legitimate retriever returns MORE three times and releases blocks [0,2), [2,4)
   and [4,6); then the candidate's retriever returns MORE at offset 4 < head_offs = 6. *)
Definition master0 : rjob := mkrjob (10, 0) (mkdbs 10 1) None.
Definition master1 : rjob := mkrjob (10, 0) (mkdbs 64 2) None.
Definition master2 : rjob := mkrjob (10, 0) (mkdbs 128 4) None.
Definition spec0 : rjob := mkrjob (40, 0) (mkdbs 40 2) (Some 0).

Definition f4_events : list event :=
  [ EvInput 2 0; EvInput 2 0; EvInput 2 0;
    EvParse0; EvParse1 (Some 0) (POk (mkdbs 10 1) 0 9 0);
    EvRetr0 master0;
    EvScan0; EvScan1 (mkdbs 0 0) (Some 0) true (mkdbs 40 2) false;
    EvRetr0 spec0;
    EvRetr1 master0 (Some 0) MORE (mkdbs 64 2);
    EvRetr0 master1; EvRetr1 master1 (Some 2) MORE (mkdbs 128 4);
    EvRetr0 master2; EvRetr1 master2 (Some 4) MORE (mkdbs 192 6);
    EvRetr1 spec0 (Some 2) MORE (mkdbs 100 4) ].

(* one more event: the stale job is selected and attach() runs outside the live input *)
Definition f4_events_attach : list event :=
  f4_events ++ [ EvRetr0 (mkrjob (40, 0) (mkdbs 100 4) (Some 0)) ].

Definition f4_init : xstate := init_dec 2 false false.
