(* Effects of the auxiliary operations of the model on the fields they touch. *)
From Coq Require Import List NArith Bool Lia Arith ZifyBool ZifyN.
From LBZ Require Import Gen.Consts SchedX.XState Gen.SchedXTab SchedX.XSet SchedX.XModel SchedX.XLemmas
  SchedX.XFrame SchedX.XInvDefs.
Import ListNotations.
Local Open Scope N_scope.

(* ---- input blocks ------------------------------------------------------------ *)
Lemma contig_upd_ref f o q : forall h t, contig h (upd_ref f o q) t <-> contig h q t.
Proof.
  induction q as [|b r IH]; simpl; intros h t; [tauto|].
  destruct (ib_off b =? o); simpl; unfold ib_end; simpl; rewrite IH; tauto.
Qed.

Lemma contig_le h q t : contig h q t -> h <= t.
Proof.
  revert h; induction q as [|b r IH]; simpl; intros h H; [lia|].
  destruct H as (H1 & H2 & H3). apply IH in H3. unfold ib_end in H3. lia.
Qed.

Lemma contig_app h q t b : contig h q t -> 0 < ib_size b -> ib_off b = t -> contig h (q ++ [b]) (t + ib_size b).
Proof.
  revert h; induction q as [|a r IH]; simpl; intros h H Hs Ho.
  - subst. unfold ib_end. repeat split; auto.
  - destruct H as (H1 & H2 & H3). repeat split; auto.
Qed.

Lemma find_blk_contig off q : forall h t, contig h q t -> h <= off -> off < t -> exists b, find_blk off q = Some b.
Proof.
  induction q as [|b r IH]; simpl; intros h t H Hl Hu; [lia|].
  destruct H as (H1 & H2 & H3). destruct (off <? ib_end b) eqn:E; [eauto|].
  eapply IH; eauto. lia.
Qed.

Lemma attach_contig d st h t : contig h (x_input_q (fst (attach d st))) t <-> contig h (x_input_q st) t.
Proof.
  unfold attach.
  destruct (can_attach_assert st d && (d_off d <=? x_tail_offs st));
    destruct (d_off d =? x_tail_offs st); simpl; xs; try tauto;
    destruct (find_blk (d_off d) (x_input_q st)); simpl; xs; try tauto;
    apply contig_upd_ref.
Qed.

Lemma attach_ok d st :
  contig (x_head_offs st) (x_input_q st) (x_tail_offs st) ->
  x_head_offs st <= d_off d -> d_off d <= x_tail_offs st ->
  x_bad_attach st = false -> x_bad_attach (fst (attach d st)) = false.
Proof.
  intros Hc Hl Hu Hb. unfold attach, can_attach_assert.
  replace ((x_head_offs st <=? d_off d) && (d_off d <=? x_tail_offs st)) with true by lia.
  destruct (d_off d =? x_tail_offs st) eqn:E; simpl; auto.
  destruct (find_blk_contig (d_off d) _ _ _ Hc Hl) as [b ->]; [lia|]. simpl. xs. auto.
Qed.

Lemma detach_contig att st h t : contig h (x_input_q (detach att st)) t <-> contig h (x_input_q st) t.
Proof.
  unfold detach. destruct att; [|tauto]. destruct (has_blk n (x_input_q st)); xs; [|tauto].
  apply contig_upd_ref.
Qed.

Lemma pop_input_spec lim q : forall h t, contig h q t ->
  contig (h + sum_sizes (fst (pop_input lim q))) (snd (pop_input lim q)) t /\
  (h <= lim -> h + sum_sizes (fst (pop_input lim q)) <= lim).
Proof.
  induction q as [|b r IH]; simpl; intros h t H.
  - rewrite N.add_0_r. auto.
  - destruct H as (H1 & H2 & H3). destruct (ib_end b <=? lim) eqn:E.
    + specialize (IH _ _ H3). destruct (pop_input lim r) as [p k]. simpl in *.
      unfold ib_end in *. replace (h + (ib_size b + sum_sizes p)) with (ib_off b + ib_size b + sum_sizes p) by lia.
      split; [tauto|]. intros _. apply IH. lia.
    + simpl. rewrite N.add_0_r. simpl. tauto.
Qed.

Lemma adv_input_head lim st :
  x_head_offs (adv_input lim st) = x_head_offs st + sum_sizes (fst (pop_input lim (x_input_q st))).
Proof. unfold adv_input. xs; autorewrite with xf; xs. reflexivity. Qed.

Lemma adv_input_q lim st : x_input_q (adv_input lim st) = snd (pop_input lim (x_input_q st)).
Proof. unfold adv_input. xs; autorewrite with xf; xs. reflexivity. Qed.

Lemma adv_input_spec lim st :
  contig (x_head_offs st) (x_input_q st) (x_tail_offs st) ->
  contig (x_head_offs (adv_input lim st)) (x_input_q (adv_input lim st)) (x_tail_offs st) /\
  x_head_offs st <= x_head_offs (adv_input lim st) /\
  (x_head_offs st <= lim -> x_head_offs (adv_input lim st) <= lim).
Proof.
  intro H. rewrite adv_input_head, adv_input_q.
  destruct (pop_input_spec lim _ _ _ H) as [H1 H2]. repeat split; auto. lia.
Qed.

(* ---- advance: retrieve and scan jobs ------------------------------------------------ *)
Lemma adv_retr_spec fuel hd q :
  (length q <= fuel)%nat -> Forall (fun j => dbs_norm (r_cur j) = true) q ->
  let dk := adv_retr fuel hd q in
  Forall (fun j => hd <= d_off (r_cur j)) (snd dk) /\
  (forall P, Forall P q -> Forall P (snd dk) /\ Forall P (fst dk)) /\
  (forall p, length (filter p q) = (length (filter p (fst dk)) + length (filter p (snd dk)))%nat).
Proof.
  revert q; induction fuel as [|f IH]; intros q Hl Hn; simpl.
  - destruct q; [|simpl in Hl; lia]. simpl. repeat split; auto.
  - destruct (qmin rkey pos_lt q) as [j|] eqn:Q.
    + destruct (d_off (r_cur j) <? hd) eqn:E.
      * destruct (remove_one rjob_eqb j q) as [q'|] eqn:R.
        -- pose proof (remove_one_length _ rjob_eqb_eq _ _ _ R) as HL.
           destruct (remove_one_Forall _ rjob_eqb_eq _ _ _ _ R Hn) as [Hn' _].
           specialize (IH q' ltac:(lia) Hn'). destruct (adv_retr f hd q') as [d k]. simpl in *.
           destruct IH as (I1 & I2 & I3). split; [exact I1|]. split.
           ++ intros P HP. destruct (remove_one_Forall _ rjob_eqb_eq P _ _ _ R HP) as [HP' Pj].
              destruct (I2 P HP') as [A B]. split; [exact A|constructor; auto].
           ++ intro p. rewrite (remove_one_filter_len _ rjob_eqb_eq p _ _ _ R), (I3 p). destruct (p j); simpl; lia.
        -- exfalso. apply qmin_In in Q. destruct (In_remove_one_some rjob_eqb rjob_eqb_refl _ _ Q) as [x Hx]. congruence.
      * simpl. repeat split; auto.
        rewrite Forall_forall in *. intros y Hy. pose proof (qmin_min _ _ _ _ Q Hy) as M.
        pose proof (Hn _ Hy) as Ny. pose proof (Hn _ (qmin_In _ _ _ Q)) as Nj.
        unfold rkey, d_pos in M. apply not_true_iff_false in M. rewrite pos_lt_spec in M. unfold lexlt in M. simpl in M.
        unfold dbs_norm in *. lia.
    + apply qmin_none in Q. subst. simpl. repeat split; auto.
Qed.

Lemma adv_scan_spec fuel hd q :
  (length q <= fuel)%nat -> Forall (fun s => dbs_norm s = true) q ->
  Forall (fun s => hd <= d_off s) (adv_scan fuel hd q) /\
  (forall P, Forall P q -> Forall P (adv_scan fuel hd q)) /\
  (length (adv_scan fuel hd q) <= length q)%nat.
Proof.
  revert q; induction fuel as [|f IH]; intros q Hl Hn; simpl.
  - destruct q; [|simpl in Hl; lia]. repeat split; auto.
  - destruct (qmin d_pos pos_lt q) as [j|] eqn:Q.
    + destruct (d_off j <? hd) eqn:E.
      * destruct (remove_one dbs_eqb j q) as [q'|] eqn:R.
        -- pose proof (remove_one_length _ dbs_eqb_eq _ _ _ R) as HL.
           destruct (remove_one_Forall _ dbs_eqb_eq _ _ _ _ R Hn) as [Hn' _].
           specialize (IH q' ltac:(lia) Hn'). destruct IH as (I1 & I2 & I3). split; [exact I1|]. split.
           ++ intros P HP. apply I2. destruct (remove_one_Forall _ dbs_eqb_eq P _ _ _ R HP) as [A _]; exact A.
           ++ lia.
        -- exfalso. apply qmin_In in Q. destruct (In_remove_one_some dbs_eqb dbs_eqb_refl _ _ Q) as [x Hx]. congruence.
      * repeat split; auto.
        rewrite Forall_forall in *. intros y Hy. pose proof (qmin_min _ _ _ _ Q Hy) as M.
        pose proof (Hn _ Hy) as Ny. pose proof (Hn _ (qmin_In _ _ _ Q)) as Nj.
        unfold d_pos in M. apply not_true_iff_false in M. rewrite pos_lt_spec in M. unfold lexlt in M. simpl in M.
        unfold dbs_norm in *. lia.
    + apply qmin_none in Q. subst. repeat split; auto.
Qed.

(* ---- unord store ---------------------------------------------------------------------- *)
(* every element of the new store stems from an element of the old one with the same
   identity, base, end, queue membership and legitimacy; only [complete] may have been raised *)
Definition stems (u u0 : unord) : Prop :=
  u_id u = u_id u0 /\ u_base u = u_base u0 /\ u_end u = u_end u0 /\ u_inq u = u_inq u0 /\ u_legit u = u_legit u0 /\
  (u_complete u0 = true -> u_complete u = true).

Lemma stems_refl u : stems u u.
Proof. unfold stems; tauto. Qed.

Lemma drop_link_stems l us u : In u (drop_link l us) -> exists u0, In u0 us /\ stems u u0.
Proof.
  unfold drop_link. destruct l as [id|]; [|intros; eexists; split; eauto using stems_refl].
  destruct (get_unord id us) as [u1|]; [|intros; eexists; split; eauto using stems_refl].
  destruct (u_complete u1).
  - unfold del_unord. rewrite filter_In. intros [H _]. eexists; split; eauto using stems_refl.
  - unfold upd_unord. rewrite in_map_iff. intros (u0 & <- & H0). exists u0. split; auto.
    destruct (u_id u0 =? id); [|apply stems_refl]. unfold stems, u_set_complete; simpl. tauto.
Qed.

Lemma drop_links_stems js us u : In u (drop_links js us) -> exists u0, In u0 us /\ stems u u0.
Proof.
  unfold drop_links. revert us u. induction js as [|j r IH]; simpl; intros us u H.
  - eexists; split; eauto using stems_refl.
  - destruct (IH _ _ H) as (u1 & H1 & S1). destruct (drop_link_stems _ _ _ H1) as (u0 & H0 & S0).
    exists u0. split; auto. unfold stems in *. intuition congruence.
Qed.

Lemma unord_ok_stems u u0 : stems u u0 -> unord_ok u0 -> unord_ok u.
Proof.
  unfold stems, unord_ok. intros (E1 & E2 & E3 & E4 & E5 & E6) (O1 & O2 & O3).
  rewrite E2, E3, E4, E5. repeat split; auto; intros; try apply O1; auto.
Qed.
