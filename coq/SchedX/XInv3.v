From Coq Require Import List NArith Bool Lia Arith ZifyBool ZifyN.
From LBZ Require Import Gen.Consts SchedX.XState Gen.SchedXTab SchedX.XSet SchedX.XModel SchedX.XLemmas
  SchedX.XFrame SchedX.XInvDefs SchedX.XOps SchedX.XInv SchedX.XInv2.
Import ListNotations.
Local Open Scope N_scope.

(* ---- identities in the unord store are unique ---------------------------------------- *)
Lemma nodup_id_unique us u v : NoDup (map u_id us) -> In u us -> In v us -> u_id u = u_id v -> u = v.
Proof.
  induction us as [|a r IH]; simpl; intros H Hu Hv E; [tauto|]. inversion H; subst.
  destruct Hu as [->|Hu], Hv as [->|Hv]; auto.
  - exfalso. apply H2. rewrite E. apply in_map; auto.
  - exfalso. apply H2. rewrite <- E. apply in_map; auto.
Qed.

Lemma get_unord_some id us u : get_unord id us = Some u -> In u us /\ u_id u = id.
Proof. unfold get_unord. intro H. apply find_some in H. destruct H. split; auto. lia. Qed.

Lemma get_unord_none id us u : get_unord id us = None -> In u us -> u_id u <> id.
Proof. unfold get_unord. intros H Hu E. eapply find_none in H; eauto. simpl in H. lia. Qed.

(* ---- a retrieve continuation leaves the running set ----------------------------------- *)
Lemma inv_del_retr j att st s1 : del_run (CRetr j att) st = Some s1 -> inv st ->
  inv s1 /\ job_ok s1 j /\
  (forall id, r_link j = Some id -> length (filter (links id) (all_jobs s1)) = 0%nat) /\
  (b2n (x_parse_token s1) + nparse s1 + masters s1 + b2n (jm (x_unords s1) j) <= 1)%nat /\
  (jm (x_unords s1) j = true -> x_head_offs s1 <= d_off (r_cur j)).
Proof.
  intros D [Ic Ip Ir Is Iu If Ij Il Ie Im Id Ib Iq].
  destruct (del_run_spec _ _ _ D) as (l1 & l2 & E & ->). unfold masters, all_jobs, nparse in *.
  rewrite E in *. rewrite !run_jobs_app, run_jobs_cons in *. simpl cjobs in *. change ([j] ++ run_jobs l2) with (j :: run_jobs l2) in *.
  rewrite !filter_len_app in Ie. simpl in Ie.
  assert (Ij' := Ij). rewrite !Forall_app in Ij'. destruct Ij' as (J1 & J2 & J3). inversion J3 as [|? ? Jj J4]; subst.
  assert (Im' := Im). rewrite !Forall_app in Im'. destruct Im' as (M1 & M2). inversion M2 as [|? ? Mj M3]; subst.
  split; [|split; [|split; [|split]]].
  - constructor; unfold all_jobs, nparse; nrm; rewrite ?run_jobs_app; auto.
    + rewrite !Forall_app. repeat split; auto; eapply Forall_impl; try eassumption; intros; eapply job_ok_ext; try eassumption; nrm; auto.
    + intro id. specialize (Il id). rewrite !filter_len_app in *. simpl in Il. destruct (links id j); simpl in Il; lia.
    + rewrite !filter_len_app. destruct (jm (x_unords st) j); simpl in Ie; lia.
    + rewrite Forall_app. auto.
    + intro P. destruct (Id P) as [A B]. split; auto. rewrite !filter_len_app in *. simpl in A. lia.
  - eapply job_ok_ext; [| |exact Jj]; nrm; auto.
  - intros id L. nrm. rewrite ?run_jobs_app. specialize (Il id). rewrite !filter_len_app in *. simpl in Il.
    assert (LJ : links id j = true) by (unfold links; rewrite L; simpl; apply N.eqb_refl). rewrite LJ in Il. simpl in Il. lia.
  - nrm. rewrite ?run_jobs_app. rewrite !filter_len_app in *. destruct (jm (x_unords st) j); simpl in *; lia.
  - nrm. exact Mj.
Qed.

Lemma inv_stems s us' :
  (forall u, In u us' -> exists u0, In u0 (x_unords s) /\ stems u u0) -> NoDup (map u_id us') ->
  inv s -> inv (set_unords us' s) /\ (masters (set_unords us' s) <= masters s)%nat.
Proof.
  intros ST ND [Ic Ip Ir Is Iu If Ij Il Ie Im Id Ib Iq]. unfold masters, all_jobs, nparse in *.
  assert (JM : forall j, jm us' j = true -> jm (x_unords s) j = true) by (intro j; apply jm_stems; auto).
  assert (LE : (length (filter (jm us') (x_retr_q s ++ run_jobs (x_running s))) <=
                length (filter (jm (x_unords s)) (x_retr_q s ++ run_jobs (x_running s))))%nat)
    by (apply filter_len_mono; intros; auto).
  split.
  - constructor; unfold all_jobs, nparse; nrm; auto.
    + apply Forall_forall. intros u Hu. destruct (ST u Hu) as (u0 & H0 & S0). eapply unord_ok_stems; eauto.
      rewrite Forall_forall in Iu. auto.
    + apply Forall_forall. intros u Hu. destruct (ST u Hu) as (u0 & H0 & S0). rewrite Forall_forall in If.
      destruct S0 as (S1 & _). rewrite S1. auto.
    + eapply Forall_impl; [|exact Ij]. intros j. apply job_ok_stems; nrm; auto.
    + lia.
    + eapply Forall_impl; [|exact Im]. simpl. intros j H K. auto.
  - nrm. exact LE.
Qed.

Lemma inv_drop_link l s : inv s ->
  inv (set_unords (drop_link l (x_unords s)) s) /\ (masters (set_unords (drop_link l (x_unords s)) s) <= masters s)%nat.
Proof.
  intro I. apply inv_stems; auto. apply drop_link_stems. apply nodup_drop_link. apply I.
Qed.

Lemma view_give_unit s : view_eq s (give_unit s).
Proof. unfold give_unit. view_tac. Qed.

Lemma no_link_job id s j : length (filter (links id) (all_jobs s)) = 0%nat -> In j (all_jobs s) -> r_link j <> Some id.
Proof.
  intros Z Hj E. assert (In j (filter (links id) (all_jobs s))).
  { apply filter_In. split; auto. unfold links. rewrite E. simpl. apply N.eqb_refl. }
  destruct (filter (links id) (all_jobs s)); [contradiction|discriminate].
Qed.

Lemma existsb_map {A B} (p : B -> bool) (g : A -> B) l : existsb p (map g l) = existsb (fun x => p (g x)) l.
Proof. induction l; simpl; congruence. Qed.

Lemma existsb_ext' {A} (p q : A -> bool) l : (forall x, In x l -> p x = q x) -> existsb p l = existsb q l.
Proof.
  induction l as [|a r IH]; simpl; intro H; auto. rewrite (H a (or_introl eq_refl)), IH; auto.
Qed.

Lemma inv_upd_spec id f s :
  inv s -> length (filter (links id) (all_jobs s)) = 0%nat ->
  (forall u, u_id (f u) = u_id u /\ u_base (f u) = u_base u) ->
  (forall u, In u (x_unords s) -> u_id u = id -> unord_ok (f u)) ->
  inv (set_unords (upd_unord id f (x_unords s)) s) /\
  masters (set_unords (upd_unord id f (x_unords s)) s) = masters s.
Proof.
  intros [Ic Ip Ir Is Iu If Ij Il Ie Im Id Ib Iq] Z HF HU.
  assert (NL := fun j => no_link_job id s j Z). unfold masters, all_jobs, nparse in *.
  assert (JM : forall j, In j (x_retr_q s ++ run_jobs (x_running s)) -> jm (upd_unord id f (x_unords s)) j = jm (x_unords s) j).
  { intros j Hj. specialize (NL j Hj). unfold jm. destruct (r_link j) as [id2|] eqn:L; auto.
    assert (id2 <> id) by congruence. unfold upd_unord. rewrite existsb_map. apply existsb_ext'. intros u Hu.
    destruct (u_id u =? id) eqn:E; auto. destruct (HF u) as [F1 _]. rewrite F1.
    replace (u_id u =? id2) with false by lia. reflexivity. }
  assert (ME : length (filter (jm (upd_unord id f (x_unords s))) (x_retr_q s ++ run_jobs (x_running s))) =
               length (filter (jm (x_unords s)) (x_retr_q s ++ run_jobs (x_running s)))) by (apply filter_len_ext; auto).
  split.
  - constructor; unfold all_jobs, nparse; nrm; auto.
    + unfold upd_unord. apply Forall_forall. intros u Hu. apply in_map_iff in Hu. destruct Hu as (u0 & <- & H0).
      destruct (u_id u0 =? id) eqn:E; [apply HU; auto; lia|]. rewrite Forall_forall in Iu; auto.
    + unfold upd_unord. apply Forall_forall. intros u Hu. apply in_map_iff in Hu. destruct Hu as (u0 & <- & H0).
      rewrite Forall_forall in If. destruct (u_id u0 =? id); [destruct (HF u0) as [-> _]|]; auto.
    + apply Forall_forall. intros j Hj. rewrite Forall_forall in Ij. destruct (Ij j Hj) as (J1 & J2 & J3 & J4 & J5).
      unfold job_ok. nrm. split; [auto|]. split; [auto|]. split; [auto|]. split; [auto|].
      intros id2 u L Hu Hid. unfold upd_unord in Hu. apply in_map_iff in Hu. destruct Hu as (u0 & <- & H0).
      destruct (u_id u0 =? id) eqn:E; [|eapply J5; eauto].
      exfalso. destruct (HF u0) as [F1 _]. rewrite F1 in Hid. apply (NL j Hj). rewrite L. f_equal. lia.
    + rewrite ME. exact Ie.
    + apply Forall_forall. intros j Hj. rewrite JM by (apply in_or_app; auto). rewrite Forall_forall in Im. auto.
    + rewrite map_id_upd; auto. intro u. apply HF.
  - nrm. exact ME.
Qed.

Lemma inv_requeue j s :
  inv s -> job_ok s j -> x_head_offs s <= d_off (r_cur j) ->
  (forall id, r_link j = Some id -> length (filter (links id) (all_jobs s)) = 0%nat) ->
  (b2n (x_parse_token s) + nparse s + masters s + b2n (jm (x_unords s) j) <= 1)%nat ->
  inv (set_retr_q (j :: x_retr_q s) s).
Proof.
  intros [Ic Ip Ir Is Iu If Ij Il Ie Im Id Ib Iq] J H L B. unfold masters, all_jobs, nparse in *.
  constructor; unfold all_jobs, nparse; nrm; auto.
  - simpl. constructor; [eapply job_ok_ext; [| |exact J]; nrm; auto|].
    eapply Forall_impl; [|exact Ij]. intros. eapply job_ok_ext; [| |eassumption]; nrm; auto.
  - intro id. simpl. unfold links at 1. destruct (optN_eqb (r_link j) (Some id)) eqn:E; [|apply Il].
    apply optN_eqb_eq in E. simpl. rewrite (L id E). lia.
  - simpl. destruct (jm (x_unords s) j); simpl in *; lia.
Qed.

(* what is known about a retrieve job that has just been taken out of the running set *)
Definition jfacts (j : rjob) (s : xstate) : Prop :=
  inv s /\ job_ok s j /\
  (forall id, r_link j = Some id -> length (filter (links id) (all_jobs s)) = 0%nat) /\
  (b2n (x_parse_token s) + nparse s + masters s + b2n (jm (x_unords s) j) <= 1)%nat /\
  (jm (x_unords s) j = true -> x_head_offs s <= d_off (r_cur j)).

Lemma jfacts_view j a b : view_eq a b -> jfacts j a -> jfacts j b.
Proof.
  intros V (I & J & L & B & M). pose proof (inv_view _ _ V I) as I'. destruct V.
  assert (AJ : all_jobs b = all_jobs a) by (unfold all_jobs; congruence).
  unfold jfacts, masters in *. split; [exact I'|]. split; [eapply job_ok_ext; eauto|].
  split; [intros id E; rewrite AJ; auto|]. split; [rewrite AJ, v_un, v_tok, v_np; exact B|].
  rewrite v_un, v_head. exact M.
Qed.

Lemma link_state_spec l s u : link_state l s = Some u -> exists id, l = Some id /\ In u (x_unords s) /\ u_id u = id.
Proof.
  unfold link_state. destruct l as [id|]; [|discriminate]. intro H. apply get_unord_some in H. exists id. tauto.
Qed.

Lemma jm_of_link_state j s u : link_state (r_link j) s = Some u -> u_complete u = true -> u_legit u = true -> jm (x_unords s) j = true.
Proof.
  intros H C L. destruct (link_state_spec _ _ _ H) as (id & E & Hu & Hid). unfold jm. rewrite E.
  apply existsb_exists. exists u. split; auto. rewrite C, L. replace (u_id u =? id) with true by lia. reflexivity.
Qed.

Lemma filter_len_zero {A} (p : A -> bool) l : length (filter p l) = 0%nat <-> Forall (fun x => p x = false) l.
Proof.
  induction l as [|a r IH]; simpl; [split; auto|]. destruct (p a) eqn:E; simpl.
  - split; [discriminate|]. intro H; inversion H; congruence.
  - rewrite IH. split; [constructor; auto|intro H; inversion H; auto].
Qed.

Lemma jm_upd_same id f us j :
  (forall u, u_id (f u) = u_id u /\ u_complete (f u) = u_complete u /\ u_legit (f u) = u_legit u) ->
  jm (upd_unord id f us) j = jm us j.
Proof.
  intro HF. unfold jm. destruct (r_link j) as [id2|]; auto. unfold upd_unord. rewrite existsb_map.
  apply existsb_ext'. intros u _. destruct (u_id u =? id); auto. destruct (HF u) as (-> & -> & ->). reflexivity.
Qed.

Lemma inv_set_token s : inv s -> masters s = 0%nat -> nparse s = 0%nat -> inv (set_parse_token true s).
Proof.
  intros [Ic Ip Ir Is Iu If Ij Il Ie Im Id Ib Iq] M0 N0. unfold masters, all_jobs, nparse in *.
  constructor; unfold all_jobs, nparse; nrm; auto.
  all: try (simpl; lia).
  all: try (intros; split; auto; apply Id; auto).
Qed.

Lemma retr1_master cfg j lk rv cur s2 st' :
  r_link j = lk ->
  c_requeue_retr_checks_head cfg = true -> jfacts j s2 -> jm (x_unords s2) j = true -> x_parsing_done s2 = false ->
  dbs_ok cur = true -> d_bit (r_cur j) <= d_bit cur -> d_off (r_cur j) <= d_off cur ->
  (rv = MORE -> dbs_norm cur = true) ->
  (let st := advance cfg cur s2 in
   if rv =? MORE then
     if c_requeue_retr_checks_head cfg && (d_off cur <? x_head_offs st)
     then Some (give_unit (if c_stale_drops_link cfg then set_unords (drop_link lk (x_unords st)) st else st))
     else Some (set_retr_q (mkrjob (r_base j) cur lk :: x_retr_q st) st)
   else Some (add_run (CRetr2 (mkejob (r_base j) rv (d_off cur)))
                (match lk with
                 | Some id => set_unords (del_unord id (x_unords (set_parse_token true st))) (set_parse_token true st)
                 | None => set_parse_token true st
                 end))) = Some st' ->
  inv st'.
Proof.
  intros ELK CR (I2 & J2 & L2 & B2 & M2) JM PD Hok Hbit Hoff Hn H. subst lk. rewrite JM in B2. simpl in B2.
  assert (M0 : masters s2 = 0%nat) by lia. assert (N0 : nparse s2 = 0%nat) by lia.
  assert (T0 : x_parse_token s2 = false) by (destruct (x_parse_token s2); simpl in B2; auto; lia).
  specialize (M2 JM).
  destruct (inv_advance cfg cur s2 I2 M0 ltac:(lia)) as (I3 & M3 & H3a & H3b & ST & RP).
  cbv zeta in H. set (st := advance cfg cur s2) in *.
  assert (NU : x_next_uid st = x_next_uid s2) by (subst st; nrm; auto).
  assert (RU : x_running st = x_running s2) by (subst st; nrm; auto).
  assert (TK : x_parse_token st = false) by (subst st; nrm; auto).
  assert (NP : nparse st = 0%nat) by (unfold nparse in *; rewrite RU; auto).
  clearbody st.
  destruct (rv =? MORE) eqn:RV.
  - rewrite CR in H. replace (d_off cur <? x_head_offs st) with false in H by lia. cbn [andb] in H.
    inversion H; subst st'. clear H. apply N.eqb_eq in RV. specialize (Hn RV).
    apply inv_requeue; auto.
    + destruct J2 as (J1 & J2' & J3 & J4 & J5). unfold job_ok; simpl. rewrite NU.
      split; [lia|]. split; [auto|]. split; [auto|]. split; [auto|].
      intros id u E Hu Hid. destruct (ST u Hu) as (u0 & H0 & (S1 & S2 & S3 & S4 & S5 & S6)).
      destruct (J5 id u0 E H0 ltac:(congruence)) as [B1 _]. split; [congruence|].
      intro C. exfalso.
      (* the job is master-like: the only unord block with this identity is complete *)
      unfold jm in JM. rewrite E in JM. apply existsb_exists in JM. destruct JM as (u1 & H1 & E1). bool_hyps.
      match goal with K : (u_id u1 =? id) = true |- _ => apply N.eqb_eq in K; rename K into K1 end.
      assert (u1 = u0) by (apply (nodup_id_unique (x_unords s2)); [apply I2|exact H1|exact H0|congruence]). subst u1.
      match goal with K : u_complete u0 = true |- _ => specialize (S6 K) end. congruence.
    + simpl. intros id E. specialize (L2 id E). apply filter_len_zero in L2. apply filter_len_zero.
      unfold all_jobs in *. rewrite RU. apply Forall_app in L2. destruct L2 as [A B]. apply Forall_app. split; auto.
    + rewrite TK, NP, M3. simpl. destruct (jm (x_unords st) _); simpl; lia.
  - inversion H; subst st'. clear H.
    eapply inv_view; [apply view_add_run; auto|].
    pose proof (inv_set_token st I3 M3 NP) as I4.
    destruct (r_link j) as [id|]; auto.
    apply inv_stems; auto.
    + unfold del_unord. intros u Hu. apply filter_In in Hu. exists u. split; [tauto|apply stems_refl].
    + unfold del_unord. apply nodup_map_filter. apply I4.
Qed.
Lemma retr1_spec cfg j id rv cur s2 st' :
  c_requeue_retr_checks_head cfg = true -> jfacts j s2 -> r_link j = Some id ->
  dbs_ok cur = true -> d_bit (r_cur j) <= d_bit cur -> (rv = MORE -> dbs_norm cur = true) ->
  (let st := set_unords (upd_unord id (u_set_end cur) (x_unords s2)) s2 in
   if rv =? MORE then
     if c_requeue_retr_checks_head cfg && (d_off cur <? x_head_offs st)
     then Some (give_unit (if c_stale_drops_link cfg then set_unords (drop_link (Some id) (x_unords st)) st else st))
     else Some (set_retr_q (mkrjob (r_base j) cur (Some id) :: x_retr_q st) st)
   else Some (add_run (CRetr2 (mkejob (r_base j) rv (d_off cur)))
                (set_unords (upd_unord id (fun u => u_set_complete (u_set_end cur u)) (x_unords st)) st))) = Some st' ->
  inv st'.
Proof.
  intros CR (I2 & J2 & L2 & B2 & M2) EL Hok Hbit Hn H. rewrite <- EL in H.
  pose proof (L2 id EL) as Z2. destruct J2 as (J1 & J2' & J3 & J4 & J5).
  assert (UO : forall u, In u (x_unords s2) -> u_id u = id -> unord_ok u /\ u_base u = r_base j).
  { intros u Hu Hid. split; [destruct I2 as [_ _ _ _ Iu _ _ _ _ _ _ _ _]; rewrite Forall_forall in Iu; auto|].
    apply (J5 id u EL Hu Hid). }
  destruct (inv_upd_spec id (u_set_end cur) s2 I2 Z2) as (I3 & M3).
  { intro u. split; reflexivity. }
  { intros u Hu Hid. destruct (UO u Hu Hid) as ((O1 & O2 & O3) & B). unfold unord_ok, u_set_end; simpl.
    split; [intro Q; destruct (O1 Q) as (_ & _ & L); repeat split; auto; rewrite B; lia|split; auto]. }
  cbv zeta in H. set (st := set_unords (upd_unord id (u_set_end cur) (x_unords s2)) s2) in *.
  assert (AJ : all_jobs st = all_jobs s2) by (subst st; unfold all_jobs; nrm; auto).
  assert (Z3 : length (filter (links id) (all_jobs st)) = 0%nat) by (rewrite AJ; auto).
  assert (JMe : jm (x_unords st) j = jm (x_unords s2) j).
  { subst st. nrm. apply jm_upd_same. intro u. repeat split; reflexivity. }
  assert (NU : x_next_uid st = x_next_uid s2) by (subst st; nrm; auto).
  assert (TK : x_parse_token st = x_parse_token s2) by (subst st; nrm; auto).
  assert (NP : nparse st = nparse s2) by (subst st; unfold nparse; nrm; auto).
  assert (HD : x_head_offs st = x_head_offs s2) by (subst st; nrm; auto).
  assert (US : x_unords st = upd_unord id (u_set_end cur) (x_unords s2)) by (subst st; nrm; auto).
  clearbody st.
  destruct (rv =? MORE) eqn:RV.
  - rewrite CR in H. cbn [andb] in H. destruct (d_off cur <? x_head_offs st) eqn:SL.
    + inversion H; subst st'. eapply inv_view; [apply view_give_unit|].
      destruct (c_stale_drops_link cfg); auto. exact (proj1 (inv_drop_link (r_link j) st I3)).
    + inversion H; subst st'. clear H. apply N.eqb_eq in RV. specialize (Hn RV).
      apply inv_requeue; auto.
      * unfold job_ok; simpl. rewrite NU. split; [lia|]. split; [auto|]. split; [auto|]. split; [auto|].
        intros id2 u E Hu Hid. rewrite EL in E. inversion E; subst id2. rewrite US in Hu.
        unfold upd_unord in Hu. apply in_map_iff in Hu. destruct Hu as (u0 & <- & Hin0).
        destruct (u_id u0 =? id) eqn:K.
        -- apply N.eqb_eq in K. simpl. split; [apply UO; auto|auto].
        -- exfalso. apply N.eqb_neq in K. congruence.
      * simpl. lia.
      * simpl. intros id2 E. rewrite EL in E. inversion E; subst id2. exact Z3.
      * simpl. change (jm (x_unords st) (mkrjob (r_base j) cur (r_link j))) with (jm (x_unords st) j).
        rewrite JMe, TK, NP, M3. exact B2.
  - inversion H; subst st'. clear H. eapply inv_view; [apply view_add_run; auto|].
    apply (inv_upd_spec id (fun u => u_set_complete (u_set_end cur u)) st I3 Z3).
    + intro u. split; reflexivity.
    + intros u Hu Hid. rewrite US in Hu. unfold upd_unord in Hu. apply in_map_iff in Hu. destruct Hu as (u0 & <- & Hin0).
      assert (K : u_id u0 = id) by (destruct (u_id u0 =? id); simpl in Hid; auto).
      destruct (UO u0 Hin0 K) as ((O1 & O2 & O3) & B). replace (u_id u0 =? id) with true by lia.
      unfold unord_ok, u_set_complete, u_set_end; simpl.
      split; [intro Q; destruct (O1 Q) as (_ & _ & L); repeat split; auto; rewrite B; lia|split; auto].
Qed.

Lemma inv_retr1 cfg j att rv cur st st' : cfg_safe cfg -> inv st -> retr1 cfg j att rv cur st = Some st' -> inv st'.
Proof.
  intros (CS & CJ & CR) I H. unfold retr1 in H.
  destruct (del_run (CRetr j att) st) as [s1|] eqn:D; [|discriminate].
  assert (F1 : jfacts j s1) by (apply (inv_del_retr _ _ _ _ D I)). clear I D.
  set (aend := att_end att s1) in *. clearbody aend.
  match type of H with (if ?c then _ else _) = _ => destruct c eqn:C; [|discriminate] end.
  assert (F2 : jfacts j (detach att s1)) by (eapply jfacts_view; [apply view_detach|auto]). clear F1.
  set (s2 := detach att s1) in *. clearbody s2. clear s1.
  bool_hyps.
  assert (Hok : dbs_ok cur = true) by assumption.
  assert (Hbit : d_bit (r_cur j) <= d_bit cur) by (apply N.leb_le; assumption).
  assert (Hoff : d_off (r_cur j) <= d_off cur) by (apply N.leb_le; assumption).
  destruct F2 as (I2 & J2 & L2 & B2 & M2).
  (* parsing_done *)
  destruct (x_parsing_done s2) eqn:PD.
  { inversion H; subst. eapply inv_view; [apply view_give_unit|]. destruct (c_retr_done_drops_link cfg); auto. exact (proj1 (inv_drop_link (r_link j) s2 I2)). }
  destruct (link_state (r_link j) s2) as [u|] eqn:LS.
  - (* the job has a link whose unord block exists *)
    destruct (link_state_spec _ _ _ LS) as (id & EL & Hu & Hid). rewrite EL in H. cbn [andb negb orb] in H.
    destruct (u_complete u) eqn:UC; cbn [andb negb orb] in H.
    + destruct (u_legit u) eqn:UL; cbn [andb negb orb] in H.
      * (* adopted: acts as the master *)
        eapply (retr1_master cfg j (Some id) rv cur s2 st' EL CR); try exact H; auto.
        -- exact (conj I2 (conj J2 (conj L2 (conj B2 M2)))).
        -- eapply jm_of_link_state; eauto.
        -- intro E; subst rv. match goal with K : (if MORE =? MORE then _ else _) = true |- _ => rewrite N.eqb_refl in K end. bool_hyps. auto.
      * inversion H; subst. eapply inv_view; [apply view_give_unit|]. destruct (c_retr_abort_drops_link cfg); auto. exact (proj1 (inv_drop_link (Some (u_id u)) s2 I2)).
    + (* speculative *)
      eapply (retr1_spec cfg j id rv cur s2 st' CR); try exact H; auto.
      -- exact (conj I2 (conj J2 (conj L2 (conj B2 M2)))).
      -- intro E; subst rv. match goal with K : (if MORE =? MORE then _ else _) = true |- _ => rewrite N.eqb_refl in K end. bool_hyps. auto.
  - assert (EL : (exists id, r_link j = Some id) \/ r_link j = None) by (destruct (r_link j); eauto).
    destruct EL as [[id EL]|EL]; rewrite EL in H; cbn [andb negb orb] in H.
    + (* dangling link: treated as speculative, the update is void *)
      eapply (retr1_spec cfg j id rv cur s2 st' CR); try exact H; auto.
      -- exact (conj I2 (conj J2 (conj L2 (conj B2 M2)))).
      -- intro E; subst rv. match goal with K : (if MORE =? MORE then _ else _) = true |- _ => rewrite N.eqb_refl in K end. bool_hyps. auto.
    + (* created by the parser: the master *)
      eapply (retr1_master cfg j None rv cur s2 st' EL CR); try exact H; auto.
      -- exact (conj I2 (conj J2 (conj L2 (conj B2 M2)))).
      -- unfold jm. rewrite EL. reflexivity.
      -- intro E; subst rv. match goal with K : (if MORE =? MORE then _ else _) = true |- _ => rewrite N.eqb_refl in K end. bool_hyps. auto.
Qed.
