(* Frame lemmas: which fields the auxiliary operations of the model leave alone (mechanical). *)
From Coq Require Import List NArith Bool.
From LBZ Require Import Gen.Consts SchedX.XState Gen.SchedXTab SchedX.XSet SchedX.XModel.
Import ListNotations.
Ltac ftac := repeat (match goal with
  | |- context [if ?c then _ else _] => destruct c
  | |- context [match ?x with Some _ => _ | None => _ end] => destruct x
  end); simpl; xs; try reflexivity.

Lemma x_eof_attach d st : x_eof (fst (attach d st)) = x_eof st. Proof. unfold attach; ftac. Qed.
Lemma x_work_units_attach d st : x_work_units (fst (attach d st)) = x_work_units st. Proof. unfold attach; ftac. Qed.
Lemma x_out_slots_attach d st : x_out_slots (fst (attach d st)) = x_out_slots st. Proof. unfold attach; ftac. Qed.
Lemma x_in_slots_attach d st : x_in_slots (fst (attach d st)) = x_in_slots st. Proof. unfold attach; ftac. Qed.
Lemma x_num_worker_attach d st : x_num_worker (fst (attach d st)) = x_num_worker st. Proof. unfold attach; ftac. Qed.
Lemma x_total_out_attach d st : x_total_out (fst (attach d st)) = x_total_out st. Proof. unfold attach; ftac. Qed.
Lemma x_total_in_attach d st : x_total_in (fst (attach d st)) = x_total_in st. Proof. unfold attach; ftac. Qed.
Lemma x_ultra_attach d st : x_ultra (fst (attach d st)) = x_ultra st. Proof. unfold attach; ftac. Qed.
Lemma x_closed_attach d st : x_closed (fst (attach d st)) = x_closed st. Proof. unfold attach; ftac. Qed.
Lemma x_outq_attach d st : x_outq (fst (attach d st)) = x_outq st. Proof. unfold attach; ftac. Qed.
Lemma x_eof_missing_attach d st : x_eof_missing (fst (attach d st)) = x_eof_missing st. Proof. unfold attach; ftac. Qed.
Lemma x_zombies_attach d st : x_zombies (fst (attach d st)) = x_zombies st. Proof. unfold attach; ftac. Qed.
Lemma x_head_offs_attach d st : x_head_offs (fst (attach d st)) = x_head_offs st. Proof. unfold attach; ftac. Qed.
Lemma x_tail_offs_attach d st : x_tail_offs (fst (attach d st)) = x_tail_offs st. Proof. unfold attach; ftac. Qed.
Lemma x_retr_q_attach d st : x_retr_q (fst (attach d st)) = x_retr_q st. Proof. unfold attach; ftac. Qed.
Lemma x_emit_q_attach d st : x_emit_q (fst (attach d st)) = x_emit_q st. Proof. unfold attach; ftac. Qed.
Lemma x_reord_q_attach d st : x_reord_q (fst (attach d st)) = x_reord_q st. Proof. unfold attach; ftac. Qed.
Lemma x_order_q_attach d st : x_order_q (fst (attach d st)) = x_order_q st. Proof. unfold attach; ftac. Qed.
Lemma x_unords_attach d st : x_unords (fst (attach d st)) = x_unords st. Proof. unfold attach; ftac. Qed.
Lemma x_next_uid_attach d st : x_next_uid (fst (attach d st)) = x_next_uid st. Proof. unfold attach; ftac. Qed.
Lemma x_parse_token_attach d st : x_parse_token (fst (attach d st)) = x_parse_token st. Proof. unfold attach; ftac. Qed.
Lemma x_parsing_done_attach d st : x_parsing_done (fst (attach d st)) = x_parsing_done st. Proof. unfold attach; ftac. Qed.
Lemma x_scan_q_attach d st : x_scan_q (fst (attach d st)) = x_scan_q st. Proof. unfold attach; ftac. Qed.
Lemma x_reord_offs_attach d st : x_reord_offs (fst (attach d st)) = x_reord_offs st. Proof. unfold attach; ftac. Qed.
Lemma x_parser_bs_attach d st : x_parser_bs (fst (attach d st)) = x_parser_bs st. Proof. unfold attach; ftac. Qed.
Lemma x_par_attach d st : x_par (fst (attach d st)) = x_par st. Proof. unfold attach; ftac. Qed.
Lemma x_running_attach d st : x_running (fst (attach d st)) = x_running st. Proof. unfold attach; ftac. Qed.
Lemma x_written_attach d st : x_written (fst (attach d st)) = x_written st. Proof. unfold attach; ftac. Qed.
Lemma x_failed_attach d st : x_failed (fst (attach d st)) = x_failed st. Proof. unfold attach; ftac. Qed.
Lemma x_next_attach d st : x_next (fst (attach d st)) = x_next st. Proof. unfold attach; ftac. Qed.
#[export] Hint Rewrite x_eof_attach x_work_units_attach x_out_slots_attach x_in_slots_attach x_num_worker_attach x_total_out_attach x_total_in_attach x_ultra_attach x_closed_attach x_outq_attach x_eof_missing_attach x_zombies_attach x_head_offs_attach x_tail_offs_attach x_retr_q_attach x_emit_q_attach x_reord_q_attach x_order_q_attach x_unords_attach x_next_uid_attach x_parse_token_attach x_parsing_done_attach x_scan_q_attach x_reord_offs_attach x_parser_bs_attach x_par_attach x_running_attach x_written_attach x_failed_attach x_next_attach : xf.

Lemma x_eof_detach att st : x_eof (detach att st) = x_eof st. Proof. unfold detach; ftac. Qed.
Lemma x_work_units_detach att st : x_work_units (detach att st) = x_work_units st. Proof. unfold detach; ftac. Qed.
Lemma x_out_slots_detach att st : x_out_slots (detach att st) = x_out_slots st. Proof. unfold detach; ftac. Qed.
Lemma x_num_worker_detach att st : x_num_worker (detach att st) = x_num_worker st. Proof. unfold detach; ftac. Qed.
Lemma x_total_out_detach att st : x_total_out (detach att st) = x_total_out st. Proof. unfold detach; ftac. Qed.
Lemma x_total_in_detach att st : x_total_in (detach att st) = x_total_in st. Proof. unfold detach; ftac. Qed.
Lemma x_ultra_detach att st : x_ultra (detach att st) = x_ultra st. Proof. unfold detach; ftac. Qed.
Lemma x_closed_detach att st : x_closed (detach att st) = x_closed st. Proof. unfold detach; ftac. Qed.
Lemma x_outq_detach att st : x_outq (detach att st) = x_outq st. Proof. unfold detach; ftac. Qed.
Lemma x_eof_missing_detach att st : x_eof_missing (detach att st) = x_eof_missing st. Proof. unfold detach; ftac. Qed.
Lemma x_head_offs_detach att st : x_head_offs (detach att st) = x_head_offs st. Proof. unfold detach; ftac. Qed.
Lemma x_tail_offs_detach att st : x_tail_offs (detach att st) = x_tail_offs st. Proof. unfold detach; ftac. Qed.
Lemma x_retr_q_detach att st : x_retr_q (detach att st) = x_retr_q st. Proof. unfold detach; ftac. Qed.
Lemma x_emit_q_detach att st : x_emit_q (detach att st) = x_emit_q st. Proof. unfold detach; ftac. Qed.
Lemma x_reord_q_detach att st : x_reord_q (detach att st) = x_reord_q st. Proof. unfold detach; ftac. Qed.
Lemma x_order_q_detach att st : x_order_q (detach att st) = x_order_q st. Proof. unfold detach; ftac. Qed.
Lemma x_unords_detach att st : x_unords (detach att st) = x_unords st. Proof. unfold detach; ftac. Qed.
Lemma x_next_uid_detach att st : x_next_uid (detach att st) = x_next_uid st. Proof. unfold detach; ftac. Qed.
Lemma x_parse_token_detach att st : x_parse_token (detach att st) = x_parse_token st. Proof. unfold detach; ftac. Qed.
Lemma x_parsing_done_detach att st : x_parsing_done (detach att st) = x_parsing_done st. Proof. unfold detach; ftac. Qed.
Lemma x_scan_q_detach att st : x_scan_q (detach att st) = x_scan_q st. Proof. unfold detach; ftac. Qed.
Lemma x_reord_offs_detach att st : x_reord_offs (detach att st) = x_reord_offs st. Proof. unfold detach; ftac. Qed.
Lemma x_parser_bs_detach att st : x_parser_bs (detach att st) = x_parser_bs st. Proof. unfold detach; ftac. Qed.
Lemma x_par_detach att st : x_par (detach att st) = x_par st. Proof. unfold detach; ftac. Qed.
Lemma x_running_detach att st : x_running (detach att st) = x_running st. Proof. unfold detach; ftac. Qed.
Lemma x_written_detach att st : x_written (detach att st) = x_written st. Proof. unfold detach; ftac. Qed.
Lemma x_failed_detach att st : x_failed (detach att st) = x_failed st. Proof. unfold detach; ftac. Qed.
Lemma x_bad_attach_detach att st : x_bad_attach (detach att st) = x_bad_attach st. Proof. unfold detach; ftac. Qed.
Lemma x_next_detach att st : x_next (detach att st) = x_next st. Proof. unfold detach; ftac. Qed.
#[export] Hint Rewrite x_eof_detach x_work_units_detach x_out_slots_detach x_num_worker_detach x_total_out_detach x_total_in_detach x_ultra_detach x_closed_detach x_outq_detach x_eof_missing_detach x_head_offs_detach x_tail_offs_detach x_retr_q_detach x_emit_q_detach x_reord_q_detach x_order_q_detach x_unords_detach x_next_uid_detach x_parse_token_detach x_parsing_done_detach x_scan_q_detach x_reord_offs_detach x_parser_bs_detach x_par_detach x_running_detach x_written_detach x_failed_detach x_bad_attach_detach x_next_detach : xf.

Lemma x_eof_release_blk b st : x_eof (release_blk b st) = x_eof st. Proof. unfold release_blk; ftac. Qed.
Lemma x_work_units_release_blk b st : x_work_units (release_blk b st) = x_work_units st. Proof. unfold release_blk; ftac. Qed.
Lemma x_out_slots_release_blk b st : x_out_slots (release_blk b st) = x_out_slots st. Proof. unfold release_blk; ftac. Qed.
Lemma x_num_worker_release_blk b st : x_num_worker (release_blk b st) = x_num_worker st. Proof. unfold release_blk; ftac. Qed.
Lemma x_total_out_release_blk b st : x_total_out (release_blk b st) = x_total_out st. Proof. unfold release_blk; ftac. Qed.
Lemma x_total_in_release_blk b st : x_total_in (release_blk b st) = x_total_in st. Proof. unfold release_blk; ftac. Qed.
Lemma x_ultra_release_blk b st : x_ultra (release_blk b st) = x_ultra st. Proof. unfold release_blk; ftac. Qed.
Lemma x_closed_release_blk b st : x_closed (release_blk b st) = x_closed st. Proof. unfold release_blk; ftac. Qed.
Lemma x_outq_release_blk b st : x_outq (release_blk b st) = x_outq st. Proof. unfold release_blk; ftac. Qed.
Lemma x_eof_missing_release_blk b st : x_eof_missing (release_blk b st) = x_eof_missing st. Proof. unfold release_blk; ftac. Qed.
Lemma x_input_q_release_blk b st : x_input_q (release_blk b st) = x_input_q st. Proof. unfold release_blk; ftac. Qed.
Lemma x_head_offs_release_blk b st : x_head_offs (release_blk b st) = x_head_offs st. Proof. unfold release_blk; ftac. Qed.
Lemma x_tail_offs_release_blk b st : x_tail_offs (release_blk b st) = x_tail_offs st. Proof. unfold release_blk; ftac. Qed.
Lemma x_retr_q_release_blk b st : x_retr_q (release_blk b st) = x_retr_q st. Proof. unfold release_blk; ftac. Qed.
Lemma x_emit_q_release_blk b st : x_emit_q (release_blk b st) = x_emit_q st. Proof. unfold release_blk; ftac. Qed.
Lemma x_reord_q_release_blk b st : x_reord_q (release_blk b st) = x_reord_q st. Proof. unfold release_blk; ftac. Qed.
Lemma x_order_q_release_blk b st : x_order_q (release_blk b st) = x_order_q st. Proof. unfold release_blk; ftac. Qed.
Lemma x_unords_release_blk b st : x_unords (release_blk b st) = x_unords st. Proof. unfold release_blk; ftac. Qed.
Lemma x_next_uid_release_blk b st : x_next_uid (release_blk b st) = x_next_uid st. Proof. unfold release_blk; ftac. Qed.
Lemma x_parse_token_release_blk b st : x_parse_token (release_blk b st) = x_parse_token st. Proof. unfold release_blk; ftac. Qed.
Lemma x_parsing_done_release_blk b st : x_parsing_done (release_blk b st) = x_parsing_done st. Proof. unfold release_blk; ftac. Qed.
Lemma x_scan_q_release_blk b st : x_scan_q (release_blk b st) = x_scan_q st. Proof. unfold release_blk; ftac. Qed.
Lemma x_reord_offs_release_blk b st : x_reord_offs (release_blk b st) = x_reord_offs st. Proof. unfold release_blk; ftac. Qed.
Lemma x_parser_bs_release_blk b st : x_parser_bs (release_blk b st) = x_parser_bs st. Proof. unfold release_blk; ftac. Qed.
Lemma x_par_release_blk b st : x_par (release_blk b st) = x_par st. Proof. unfold release_blk; ftac. Qed.
Lemma x_running_release_blk b st : x_running (release_blk b st) = x_running st. Proof. unfold release_blk; ftac. Qed.
Lemma x_written_release_blk b st : x_written (release_blk b st) = x_written st. Proof. unfold release_blk; ftac. Qed.
Lemma x_failed_release_blk b st : x_failed (release_blk b st) = x_failed st. Proof. unfold release_blk; ftac. Qed.
Lemma x_bad_attach_release_blk b st : x_bad_attach (release_blk b st) = x_bad_attach st. Proof. unfold release_blk; ftac. Qed.
Lemma x_next_release_blk b st : x_next (release_blk b st) = x_next st. Proof. unfold release_blk; ftac. Qed.
#[export] Hint Rewrite x_eof_release_blk x_work_units_release_blk x_out_slots_release_blk x_num_worker_release_blk x_total_out_release_blk x_total_in_release_blk x_ultra_release_blk x_closed_release_blk x_outq_release_blk x_eof_missing_release_blk x_input_q_release_blk x_head_offs_release_blk x_tail_offs_release_blk x_retr_q_release_blk x_emit_q_release_blk x_reord_q_release_blk x_order_q_release_blk x_unords_release_blk x_next_uid_release_blk x_parse_token_release_blk x_parsing_done_release_blk x_scan_q_release_blk x_reord_offs_release_blk x_parser_bs_release_blk x_par_release_blk x_running_release_blk x_written_release_blk x_failed_release_blk x_bad_attach_release_blk x_next_release_blk : xf.

Lemma x_eof_fold_release l st : x_eof (fold_left (fun a b => release_blk b a) l st) = x_eof st. Proof. revert st; induction l as [|b l IH]; intro st; simpl; [reflexivity|]; rewrite IH; autorewrite with xf; reflexivity. Qed.
Lemma x_work_units_fold_release l st : x_work_units (fold_left (fun a b => release_blk b a) l st) = x_work_units st. Proof. revert st; induction l as [|b l IH]; intro st; simpl; [reflexivity|]; rewrite IH; autorewrite with xf; reflexivity. Qed.
Lemma x_out_slots_fold_release l st : x_out_slots (fold_left (fun a b => release_blk b a) l st) = x_out_slots st. Proof. revert st; induction l as [|b l IH]; intro st; simpl; [reflexivity|]; rewrite IH; autorewrite with xf; reflexivity. Qed.
Lemma x_num_worker_fold_release l st : x_num_worker (fold_left (fun a b => release_blk b a) l st) = x_num_worker st. Proof. revert st; induction l as [|b l IH]; intro st; simpl; [reflexivity|]; rewrite IH; autorewrite with xf; reflexivity. Qed.
Lemma x_total_out_fold_release l st : x_total_out (fold_left (fun a b => release_blk b a) l st) = x_total_out st. Proof. revert st; induction l as [|b l IH]; intro st; simpl; [reflexivity|]; rewrite IH; autorewrite with xf; reflexivity. Qed.
Lemma x_total_in_fold_release l st : x_total_in (fold_left (fun a b => release_blk b a) l st) = x_total_in st. Proof. revert st; induction l as [|b l IH]; intro st; simpl; [reflexivity|]; rewrite IH; autorewrite with xf; reflexivity. Qed.
Lemma x_ultra_fold_release l st : x_ultra (fold_left (fun a b => release_blk b a) l st) = x_ultra st. Proof. revert st; induction l as [|b l IH]; intro st; simpl; [reflexivity|]; rewrite IH; autorewrite with xf; reflexivity. Qed.
Lemma x_closed_fold_release l st : x_closed (fold_left (fun a b => release_blk b a) l st) = x_closed st. Proof. revert st; induction l as [|b l IH]; intro st; simpl; [reflexivity|]; rewrite IH; autorewrite with xf; reflexivity. Qed.
Lemma x_outq_fold_release l st : x_outq (fold_left (fun a b => release_blk b a) l st) = x_outq st. Proof. revert st; induction l as [|b l IH]; intro st; simpl; [reflexivity|]; rewrite IH; autorewrite with xf; reflexivity. Qed.
Lemma x_eof_missing_fold_release l st : x_eof_missing (fold_left (fun a b => release_blk b a) l st) = x_eof_missing st. Proof. revert st; induction l as [|b l IH]; intro st; simpl; [reflexivity|]; rewrite IH; autorewrite with xf; reflexivity. Qed.
Lemma x_input_q_fold_release l st : x_input_q (fold_left (fun a b => release_blk b a) l st) = x_input_q st. Proof. revert st; induction l as [|b l IH]; intro st; simpl; [reflexivity|]; rewrite IH; autorewrite with xf; reflexivity. Qed.
Lemma x_head_offs_fold_release l st : x_head_offs (fold_left (fun a b => release_blk b a) l st) = x_head_offs st. Proof. revert st; induction l as [|b l IH]; intro st; simpl; [reflexivity|]; rewrite IH; autorewrite with xf; reflexivity. Qed.
Lemma x_tail_offs_fold_release l st : x_tail_offs (fold_left (fun a b => release_blk b a) l st) = x_tail_offs st. Proof. revert st; induction l as [|b l IH]; intro st; simpl; [reflexivity|]; rewrite IH; autorewrite with xf; reflexivity. Qed.
Lemma x_retr_q_fold_release l st : x_retr_q (fold_left (fun a b => release_blk b a) l st) = x_retr_q st. Proof. revert st; induction l as [|b l IH]; intro st; simpl; [reflexivity|]; rewrite IH; autorewrite with xf; reflexivity. Qed.
Lemma x_emit_q_fold_release l st : x_emit_q (fold_left (fun a b => release_blk b a) l st) = x_emit_q st. Proof. revert st; induction l as [|b l IH]; intro st; simpl; [reflexivity|]; rewrite IH; autorewrite with xf; reflexivity. Qed.
Lemma x_reord_q_fold_release l st : x_reord_q (fold_left (fun a b => release_blk b a) l st) = x_reord_q st. Proof. revert st; induction l as [|b l IH]; intro st; simpl; [reflexivity|]; rewrite IH; autorewrite with xf; reflexivity. Qed.
Lemma x_order_q_fold_release l st : x_order_q (fold_left (fun a b => release_blk b a) l st) = x_order_q st. Proof. revert st; induction l as [|b l IH]; intro st; simpl; [reflexivity|]; rewrite IH; autorewrite with xf; reflexivity. Qed.
Lemma x_unords_fold_release l st : x_unords (fold_left (fun a b => release_blk b a) l st) = x_unords st. Proof. revert st; induction l as [|b l IH]; intro st; simpl; [reflexivity|]; rewrite IH; autorewrite with xf; reflexivity. Qed.
Lemma x_next_uid_fold_release l st : x_next_uid (fold_left (fun a b => release_blk b a) l st) = x_next_uid st. Proof. revert st; induction l as [|b l IH]; intro st; simpl; [reflexivity|]; rewrite IH; autorewrite with xf; reflexivity. Qed.
Lemma x_parse_token_fold_release l st : x_parse_token (fold_left (fun a b => release_blk b a) l st) = x_parse_token st. Proof. revert st; induction l as [|b l IH]; intro st; simpl; [reflexivity|]; rewrite IH; autorewrite with xf; reflexivity. Qed.
Lemma x_parsing_done_fold_release l st : x_parsing_done (fold_left (fun a b => release_blk b a) l st) = x_parsing_done st. Proof. revert st; induction l as [|b l IH]; intro st; simpl; [reflexivity|]; rewrite IH; autorewrite with xf; reflexivity. Qed.
Lemma x_scan_q_fold_release l st : x_scan_q (fold_left (fun a b => release_blk b a) l st) = x_scan_q st. Proof. revert st; induction l as [|b l IH]; intro st; simpl; [reflexivity|]; rewrite IH; autorewrite with xf; reflexivity. Qed.
Lemma x_reord_offs_fold_release l st : x_reord_offs (fold_left (fun a b => release_blk b a) l st) = x_reord_offs st. Proof. revert st; induction l as [|b l IH]; intro st; simpl; [reflexivity|]; rewrite IH; autorewrite with xf; reflexivity. Qed.
Lemma x_parser_bs_fold_release l st : x_parser_bs (fold_left (fun a b => release_blk b a) l st) = x_parser_bs st. Proof. revert st; induction l as [|b l IH]; intro st; simpl; [reflexivity|]; rewrite IH; autorewrite with xf; reflexivity. Qed.
Lemma x_par_fold_release l st : x_par (fold_left (fun a b => release_blk b a) l st) = x_par st. Proof. revert st; induction l as [|b l IH]; intro st; simpl; [reflexivity|]; rewrite IH; autorewrite with xf; reflexivity. Qed.
Lemma x_running_fold_release l st : x_running (fold_left (fun a b => release_blk b a) l st) = x_running st. Proof. revert st; induction l as [|b l IH]; intro st; simpl; [reflexivity|]; rewrite IH; autorewrite with xf; reflexivity. Qed.
Lemma x_written_fold_release l st : x_written (fold_left (fun a b => release_blk b a) l st) = x_written st. Proof. revert st; induction l as [|b l IH]; intro st; simpl; [reflexivity|]; rewrite IH; autorewrite with xf; reflexivity. Qed.
Lemma x_failed_fold_release l st : x_failed (fold_left (fun a b => release_blk b a) l st) = x_failed st. Proof. revert st; induction l as [|b l IH]; intro st; simpl; [reflexivity|]; rewrite IH; autorewrite with xf; reflexivity. Qed.
Lemma x_bad_attach_fold_release l st : x_bad_attach (fold_left (fun a b => release_blk b a) l st) = x_bad_attach st. Proof. revert st; induction l as [|b l IH]; intro st; simpl; [reflexivity|]; rewrite IH; autorewrite with xf; reflexivity. Qed.
Lemma x_next_fold_release l st : x_next (fold_left (fun a b => release_blk b a) l st) = x_next st. Proof. revert st; induction l as [|b l IH]; intro st; simpl; [reflexivity|]; rewrite IH; autorewrite with xf; reflexivity. Qed.
#[export] Hint Rewrite x_eof_fold_release x_work_units_fold_release x_out_slots_fold_release x_num_worker_fold_release x_total_out_fold_release x_total_in_fold_release x_ultra_fold_release x_closed_fold_release x_outq_fold_release x_eof_missing_fold_release x_input_q_fold_release x_head_offs_fold_release x_tail_offs_fold_release x_retr_q_fold_release x_emit_q_fold_release x_reord_q_fold_release x_order_q_fold_release x_unords_fold_release x_next_uid_fold_release x_parse_token_fold_release x_parsing_done_fold_release x_scan_q_fold_release x_reord_offs_fold_release x_parser_bs_fold_release x_par_fold_release x_running_fold_release x_written_fold_release x_failed_fold_release x_bad_attach_fold_release x_next_fold_release : xf.

Lemma x_eof_adv_input lim st : x_eof (adv_input lim st) = x_eof st. Proof. unfold adv_input; xs; autorewrite with xf; xs; reflexivity. Qed.
Lemma x_work_units_adv_input lim st : x_work_units (adv_input lim st) = x_work_units st. Proof. unfold adv_input; xs; autorewrite with xf; xs; reflexivity. Qed.
Lemma x_out_slots_adv_input lim st : x_out_slots (adv_input lim st) = x_out_slots st. Proof. unfold adv_input; xs; autorewrite with xf; xs; reflexivity. Qed.
Lemma x_num_worker_adv_input lim st : x_num_worker (adv_input lim st) = x_num_worker st. Proof. unfold adv_input; xs; autorewrite with xf; xs; reflexivity. Qed.
Lemma x_total_out_adv_input lim st : x_total_out (adv_input lim st) = x_total_out st. Proof. unfold adv_input; xs; autorewrite with xf; xs; reflexivity. Qed.
Lemma x_total_in_adv_input lim st : x_total_in (adv_input lim st) = x_total_in st. Proof. unfold adv_input; xs; autorewrite with xf; xs; reflexivity. Qed.
Lemma x_ultra_adv_input lim st : x_ultra (adv_input lim st) = x_ultra st. Proof. unfold adv_input; xs; autorewrite with xf; xs; reflexivity. Qed.
Lemma x_closed_adv_input lim st : x_closed (adv_input lim st) = x_closed st. Proof. unfold adv_input; xs; autorewrite with xf; xs; reflexivity. Qed.
Lemma x_outq_adv_input lim st : x_outq (adv_input lim st) = x_outq st. Proof. unfold adv_input; xs; autorewrite with xf; xs; reflexivity. Qed.
Lemma x_eof_missing_adv_input lim st : x_eof_missing (adv_input lim st) = x_eof_missing st. Proof. unfold adv_input; xs; autorewrite with xf; xs; reflexivity. Qed.
Lemma x_tail_offs_adv_input lim st : x_tail_offs (adv_input lim st) = x_tail_offs st. Proof. unfold adv_input; xs; autorewrite with xf; xs; reflexivity. Qed.
Lemma x_retr_q_adv_input lim st : x_retr_q (adv_input lim st) = x_retr_q st. Proof. unfold adv_input; xs; autorewrite with xf; xs; reflexivity. Qed.
Lemma x_emit_q_adv_input lim st : x_emit_q (adv_input lim st) = x_emit_q st. Proof. unfold adv_input; xs; autorewrite with xf; xs; reflexivity. Qed.
Lemma x_reord_q_adv_input lim st : x_reord_q (adv_input lim st) = x_reord_q st. Proof. unfold adv_input; xs; autorewrite with xf; xs; reflexivity. Qed.
Lemma x_order_q_adv_input lim st : x_order_q (adv_input lim st) = x_order_q st. Proof. unfold adv_input; xs; autorewrite with xf; xs; reflexivity. Qed.
Lemma x_unords_adv_input lim st : x_unords (adv_input lim st) = x_unords st. Proof. unfold adv_input; xs; autorewrite with xf; xs; reflexivity. Qed.
Lemma x_next_uid_adv_input lim st : x_next_uid (adv_input lim st) = x_next_uid st. Proof. unfold adv_input; xs; autorewrite with xf; xs; reflexivity. Qed.
Lemma x_parse_token_adv_input lim st : x_parse_token (adv_input lim st) = x_parse_token st. Proof. unfold adv_input; xs; autorewrite with xf; xs; reflexivity. Qed.
Lemma x_parsing_done_adv_input lim st : x_parsing_done (adv_input lim st) = x_parsing_done st. Proof. unfold adv_input; xs; autorewrite with xf; xs; reflexivity. Qed.
Lemma x_scan_q_adv_input lim st : x_scan_q (adv_input lim st) = x_scan_q st. Proof. unfold adv_input; xs; autorewrite with xf; xs; reflexivity. Qed.
Lemma x_reord_offs_adv_input lim st : x_reord_offs (adv_input lim st) = x_reord_offs st. Proof. unfold adv_input; xs; autorewrite with xf; xs; reflexivity. Qed.
Lemma x_parser_bs_adv_input lim st : x_parser_bs (adv_input lim st) = x_parser_bs st. Proof. unfold adv_input; xs; autorewrite with xf; xs; reflexivity. Qed.
Lemma x_par_adv_input lim st : x_par (adv_input lim st) = x_par st. Proof. unfold adv_input; xs; autorewrite with xf; xs; reflexivity. Qed.
Lemma x_running_adv_input lim st : x_running (adv_input lim st) = x_running st. Proof. unfold adv_input; xs; autorewrite with xf; xs; reflexivity. Qed.
Lemma x_written_adv_input lim st : x_written (adv_input lim st) = x_written st. Proof. unfold adv_input; xs; autorewrite with xf; xs; reflexivity. Qed.
Lemma x_failed_adv_input lim st : x_failed (adv_input lim st) = x_failed st. Proof. unfold adv_input; xs; autorewrite with xf; xs; reflexivity. Qed.
Lemma x_bad_attach_adv_input lim st : x_bad_attach (adv_input lim st) = x_bad_attach st. Proof. unfold adv_input; xs; autorewrite with xf; xs; reflexivity. Qed.
Lemma x_next_adv_input lim st : x_next (adv_input lim st) = x_next st. Proof. unfold adv_input; xs; autorewrite with xf; xs; reflexivity. Qed.
#[export] Hint Rewrite x_eof_adv_input x_work_units_adv_input x_out_slots_adv_input x_num_worker_adv_input x_total_out_adv_input x_total_in_adv_input x_ultra_adv_input x_closed_adv_input x_outq_adv_input x_eof_missing_adv_input x_tail_offs_adv_input x_retr_q_adv_input x_emit_q_adv_input x_reord_q_adv_input x_order_q_adv_input x_unords_adv_input x_next_uid_adv_input x_parse_token_adv_input x_parsing_done_adv_input x_scan_q_adv_input x_reord_offs_adv_input x_parser_bs_adv_input x_par_adv_input x_running_adv_input x_written_adv_input x_failed_adv_input x_bad_attach_adv_input x_next_adv_input : xf.

Lemma x_eof_adv_jobs cfg st : x_eof (adv_jobs cfg st) = x_eof st. Proof. unfold adv_jobs; ftac. Qed.
Lemma x_out_slots_adv_jobs cfg st : x_out_slots (adv_jobs cfg st) = x_out_slots st. Proof. unfold adv_jobs; ftac. Qed.
Lemma x_in_slots_adv_jobs cfg st : x_in_slots (adv_jobs cfg st) = x_in_slots st. Proof. unfold adv_jobs; ftac. Qed.
Lemma x_num_worker_adv_jobs cfg st : x_num_worker (adv_jobs cfg st) = x_num_worker st. Proof. unfold adv_jobs; ftac. Qed.
Lemma x_total_out_adv_jobs cfg st : x_total_out (adv_jobs cfg st) = x_total_out st. Proof. unfold adv_jobs; ftac. Qed.
Lemma x_total_in_adv_jobs cfg st : x_total_in (adv_jobs cfg st) = x_total_in st. Proof. unfold adv_jobs; ftac. Qed.
Lemma x_ultra_adv_jobs cfg st : x_ultra (adv_jobs cfg st) = x_ultra st. Proof. unfold adv_jobs; ftac. Qed.
Lemma x_closed_adv_jobs cfg st : x_closed (adv_jobs cfg st) = x_closed st. Proof. unfold adv_jobs; ftac. Qed.
Lemma x_outq_adv_jobs cfg st : x_outq (adv_jobs cfg st) = x_outq st. Proof. unfold adv_jobs; ftac. Qed.
Lemma x_eof_missing_adv_jobs cfg st : x_eof_missing (adv_jobs cfg st) = x_eof_missing st. Proof. unfold adv_jobs; ftac. Qed.
Lemma x_input_q_adv_jobs cfg st : x_input_q (adv_jobs cfg st) = x_input_q st. Proof. unfold adv_jobs; ftac. Qed.
Lemma x_zombies_adv_jobs cfg st : x_zombies (adv_jobs cfg st) = x_zombies st. Proof. unfold adv_jobs; ftac. Qed.
Lemma x_head_offs_adv_jobs cfg st : x_head_offs (adv_jobs cfg st) = x_head_offs st. Proof. unfold adv_jobs; ftac. Qed.
Lemma x_tail_offs_adv_jobs cfg st : x_tail_offs (adv_jobs cfg st) = x_tail_offs st. Proof. unfold adv_jobs; ftac. Qed.
Lemma x_emit_q_adv_jobs cfg st : x_emit_q (adv_jobs cfg st) = x_emit_q st. Proof. unfold adv_jobs; ftac. Qed.
Lemma x_reord_q_adv_jobs cfg st : x_reord_q (adv_jobs cfg st) = x_reord_q st. Proof. unfold adv_jobs; ftac. Qed.
Lemma x_order_q_adv_jobs cfg st : x_order_q (adv_jobs cfg st) = x_order_q st. Proof. unfold adv_jobs; ftac. Qed.
Lemma x_next_uid_adv_jobs cfg st : x_next_uid (adv_jobs cfg st) = x_next_uid st. Proof. unfold adv_jobs; ftac. Qed.
Lemma x_parse_token_adv_jobs cfg st : x_parse_token (adv_jobs cfg st) = x_parse_token st. Proof. unfold adv_jobs; ftac. Qed.
Lemma x_parsing_done_adv_jobs cfg st : x_parsing_done (adv_jobs cfg st) = x_parsing_done st. Proof. unfold adv_jobs; ftac. Qed.
Lemma x_scan_q_adv_jobs cfg st : x_scan_q (adv_jobs cfg st) = x_scan_q st. Proof. unfold adv_jobs; ftac. Qed.
Lemma x_reord_offs_adv_jobs cfg st : x_reord_offs (adv_jobs cfg st) = x_reord_offs st. Proof. unfold adv_jobs; ftac. Qed.
Lemma x_parser_bs_adv_jobs cfg st : x_parser_bs (adv_jobs cfg st) = x_parser_bs st. Proof. unfold adv_jobs; ftac. Qed.
Lemma x_par_adv_jobs cfg st : x_par (adv_jobs cfg st) = x_par st. Proof. unfold adv_jobs; ftac. Qed.
Lemma x_running_adv_jobs cfg st : x_running (adv_jobs cfg st) = x_running st. Proof. unfold adv_jobs; ftac. Qed.
Lemma x_written_adv_jobs cfg st : x_written (adv_jobs cfg st) = x_written st. Proof. unfold adv_jobs; ftac. Qed.
Lemma x_failed_adv_jobs cfg st : x_failed (adv_jobs cfg st) = x_failed st. Proof. unfold adv_jobs; ftac. Qed.
Lemma x_bad_attach_adv_jobs cfg st : x_bad_attach (adv_jobs cfg st) = x_bad_attach st. Proof. unfold adv_jobs; ftac. Qed.
Lemma x_next_adv_jobs cfg st : x_next (adv_jobs cfg st) = x_next st. Proof. unfold adv_jobs; ftac. Qed.
#[export] Hint Rewrite x_eof_adv_jobs x_out_slots_adv_jobs x_in_slots_adv_jobs x_num_worker_adv_jobs x_total_out_adv_jobs x_total_in_adv_jobs x_ultra_adv_jobs x_closed_adv_jobs x_outq_adv_jobs x_eof_missing_adv_jobs x_input_q_adv_jobs x_zombies_adv_jobs x_head_offs_adv_jobs x_tail_offs_adv_jobs x_emit_q_adv_jobs x_reord_q_adv_jobs x_order_q_adv_jobs x_next_uid_adv_jobs x_parse_token_adv_jobs x_parsing_done_adv_jobs x_scan_q_adv_jobs x_reord_offs_adv_jobs x_parser_bs_adv_jobs x_par_adv_jobs x_running_adv_jobs x_written_adv_jobs x_failed_adv_jobs x_bad_attach_adv_jobs x_next_adv_jobs : xf.

Lemma x_eof_adv_scans st : x_eof (adv_scans st) = x_eof st. Proof. unfold adv_scans; ftac. Qed.
Lemma x_work_units_adv_scans st : x_work_units (adv_scans st) = x_work_units st. Proof. unfold adv_scans; ftac. Qed.
Lemma x_out_slots_adv_scans st : x_out_slots (adv_scans st) = x_out_slots st. Proof. unfold adv_scans; ftac. Qed.
Lemma x_in_slots_adv_scans st : x_in_slots (adv_scans st) = x_in_slots st. Proof. unfold adv_scans; ftac. Qed.
Lemma x_num_worker_adv_scans st : x_num_worker (adv_scans st) = x_num_worker st. Proof. unfold adv_scans; ftac. Qed.
Lemma x_total_out_adv_scans st : x_total_out (adv_scans st) = x_total_out st. Proof. unfold adv_scans; ftac. Qed.
Lemma x_total_in_adv_scans st : x_total_in (adv_scans st) = x_total_in st. Proof. unfold adv_scans; ftac. Qed.
Lemma x_ultra_adv_scans st : x_ultra (adv_scans st) = x_ultra st. Proof. unfold adv_scans; ftac. Qed.
Lemma x_closed_adv_scans st : x_closed (adv_scans st) = x_closed st. Proof. unfold adv_scans; ftac. Qed.
Lemma x_outq_adv_scans st : x_outq (adv_scans st) = x_outq st. Proof. unfold adv_scans; ftac. Qed.
Lemma x_eof_missing_adv_scans st : x_eof_missing (adv_scans st) = x_eof_missing st. Proof. unfold adv_scans; ftac. Qed.
Lemma x_input_q_adv_scans st : x_input_q (adv_scans st) = x_input_q st. Proof. unfold adv_scans; ftac. Qed.
Lemma x_zombies_adv_scans st : x_zombies (adv_scans st) = x_zombies st. Proof. unfold adv_scans; ftac. Qed.
Lemma x_head_offs_adv_scans st : x_head_offs (adv_scans st) = x_head_offs st. Proof. unfold adv_scans; ftac. Qed.
Lemma x_tail_offs_adv_scans st : x_tail_offs (adv_scans st) = x_tail_offs st. Proof. unfold adv_scans; ftac. Qed.
Lemma x_retr_q_adv_scans st : x_retr_q (adv_scans st) = x_retr_q st. Proof. unfold adv_scans; ftac. Qed.
Lemma x_emit_q_adv_scans st : x_emit_q (adv_scans st) = x_emit_q st. Proof. unfold adv_scans; ftac. Qed.
Lemma x_reord_q_adv_scans st : x_reord_q (adv_scans st) = x_reord_q st. Proof. unfold adv_scans; ftac. Qed.
Lemma x_order_q_adv_scans st : x_order_q (adv_scans st) = x_order_q st. Proof. unfold adv_scans; ftac. Qed.
Lemma x_unords_adv_scans st : x_unords (adv_scans st) = x_unords st. Proof. unfold adv_scans; ftac. Qed.
Lemma x_next_uid_adv_scans st : x_next_uid (adv_scans st) = x_next_uid st. Proof. unfold adv_scans; ftac. Qed.
Lemma x_parse_token_adv_scans st : x_parse_token (adv_scans st) = x_parse_token st. Proof. unfold adv_scans; ftac. Qed.
Lemma x_parsing_done_adv_scans st : x_parsing_done (adv_scans st) = x_parsing_done st. Proof. unfold adv_scans; ftac. Qed.
Lemma x_reord_offs_adv_scans st : x_reord_offs (adv_scans st) = x_reord_offs st. Proof. unfold adv_scans; ftac. Qed.
Lemma x_parser_bs_adv_scans st : x_parser_bs (adv_scans st) = x_parser_bs st. Proof. unfold adv_scans; ftac. Qed.
Lemma x_par_adv_scans st : x_par (adv_scans st) = x_par st. Proof. unfold adv_scans; ftac. Qed.
Lemma x_running_adv_scans st : x_running (adv_scans st) = x_running st. Proof. unfold adv_scans; ftac. Qed.
Lemma x_written_adv_scans st : x_written (adv_scans st) = x_written st. Proof. unfold adv_scans; ftac. Qed.
Lemma x_failed_adv_scans st : x_failed (adv_scans st) = x_failed st. Proof. unfold adv_scans; ftac. Qed.
Lemma x_bad_attach_adv_scans st : x_bad_attach (adv_scans st) = x_bad_attach st. Proof. unfold adv_scans; ftac. Qed.
Lemma x_next_adv_scans st : x_next (adv_scans st) = x_next st. Proof. unfold adv_scans; ftac. Qed.
#[export] Hint Rewrite x_eof_adv_scans x_work_units_adv_scans x_out_slots_adv_scans x_in_slots_adv_scans x_num_worker_adv_scans x_total_out_adv_scans x_total_in_adv_scans x_ultra_adv_scans x_closed_adv_scans x_outq_adv_scans x_eof_missing_adv_scans x_input_q_adv_scans x_zombies_adv_scans x_head_offs_adv_scans x_tail_offs_adv_scans x_retr_q_adv_scans x_emit_q_adv_scans x_reord_q_adv_scans x_order_q_adv_scans x_unords_adv_scans x_next_uid_adv_scans x_parse_token_adv_scans x_parsing_done_adv_scans x_reord_offs_adv_scans x_parser_bs_adv_scans x_par_adv_scans x_running_adv_scans x_written_adv_scans x_failed_adv_scans x_bad_attach_adv_scans x_next_adv_scans : xf.

Lemma x_eof_advance cfg bs st : x_eof (advance cfg bs st) = x_eof st. Proof. unfold advance; xs; autorewrite with xf; xs; reflexivity. Qed.
Lemma x_out_slots_advance cfg bs st : x_out_slots (advance cfg bs st) = x_out_slots st. Proof. unfold advance; xs; autorewrite with xf; xs; reflexivity. Qed.
Lemma x_num_worker_advance cfg bs st : x_num_worker (advance cfg bs st) = x_num_worker st. Proof. unfold advance; xs; autorewrite with xf; xs; reflexivity. Qed.
Lemma x_total_out_advance cfg bs st : x_total_out (advance cfg bs st) = x_total_out st. Proof. unfold advance; xs; autorewrite with xf; xs; reflexivity. Qed.
Lemma x_total_in_advance cfg bs st : x_total_in (advance cfg bs st) = x_total_in st. Proof. unfold advance; xs; autorewrite with xf; xs; reflexivity. Qed.
Lemma x_ultra_advance cfg bs st : x_ultra (advance cfg bs st) = x_ultra st. Proof. unfold advance; xs; autorewrite with xf; xs; reflexivity. Qed.
Lemma x_closed_advance cfg bs st : x_closed (advance cfg bs st) = x_closed st. Proof. unfold advance; xs; autorewrite with xf; xs; reflexivity. Qed.
Lemma x_outq_advance cfg bs st : x_outq (advance cfg bs st) = x_outq st. Proof. unfold advance; xs; autorewrite with xf; xs; reflexivity. Qed.
Lemma x_eof_missing_advance cfg bs st : x_eof_missing (advance cfg bs st) = x_eof_missing st. Proof. unfold advance; xs; autorewrite with xf; xs; reflexivity. Qed.
Lemma x_tail_offs_advance cfg bs st : x_tail_offs (advance cfg bs st) = x_tail_offs st. Proof. unfold advance; xs; autorewrite with xf; xs; reflexivity. Qed.
Lemma x_emit_q_advance cfg bs st : x_emit_q (advance cfg bs st) = x_emit_q st. Proof. unfold advance; xs; autorewrite with xf; xs; reflexivity. Qed.
Lemma x_reord_q_advance cfg bs st : x_reord_q (advance cfg bs st) = x_reord_q st. Proof. unfold advance; xs; autorewrite with xf; xs; reflexivity. Qed.
Lemma x_order_q_advance cfg bs st : x_order_q (advance cfg bs st) = x_order_q st. Proof. unfold advance; xs; autorewrite with xf; xs; reflexivity. Qed.
Lemma x_next_uid_advance cfg bs st : x_next_uid (advance cfg bs st) = x_next_uid st. Proof. unfold advance; xs; autorewrite with xf; xs; reflexivity. Qed.
Lemma x_parse_token_advance cfg bs st : x_parse_token (advance cfg bs st) = x_parse_token st. Proof. unfold advance; xs; autorewrite with xf; xs; reflexivity. Qed.
Lemma x_parsing_done_advance cfg bs st : x_parsing_done (advance cfg bs st) = x_parsing_done st. Proof. unfold advance; xs; autorewrite with xf; xs; reflexivity. Qed.
Lemma x_reord_offs_advance cfg bs st : x_reord_offs (advance cfg bs st) = x_reord_offs st. Proof. unfold advance; xs; autorewrite with xf; xs; reflexivity. Qed.
Lemma x_par_advance cfg bs st : x_par (advance cfg bs st) = x_par st. Proof. unfold advance; xs; autorewrite with xf; xs; reflexivity. Qed.
Lemma x_running_advance cfg bs st : x_running (advance cfg bs st) = x_running st. Proof. unfold advance; xs; autorewrite with xf; xs; reflexivity. Qed.
Lemma x_written_advance cfg bs st : x_written (advance cfg bs st) = x_written st. Proof. unfold advance; xs; autorewrite with xf; xs; reflexivity. Qed.
Lemma x_failed_advance cfg bs st : x_failed (advance cfg bs st) = x_failed st. Proof. unfold advance; xs; autorewrite with xf; xs; reflexivity. Qed.
Lemma x_bad_attach_advance cfg bs st : x_bad_attach (advance cfg bs st) = x_bad_attach st. Proof. unfold advance; xs; autorewrite with xf; xs; reflexivity. Qed.
Lemma x_next_advance cfg bs st : x_next (advance cfg bs st) = x_next st. Proof. unfold advance; xs; autorewrite with xf; xs; reflexivity. Qed.
#[export] Hint Rewrite x_eof_advance x_out_slots_advance x_num_worker_advance x_total_out_advance x_total_in_advance x_ultra_advance x_closed_advance x_outq_advance x_eof_missing_advance x_tail_offs_advance x_emit_q_advance x_reord_q_advance x_order_q_advance x_next_uid_advance x_parse_token_advance x_parsing_done_advance x_reord_offs_advance x_par_advance x_running_advance x_written_advance x_failed_advance x_bad_attach_advance x_next_advance : xf.

Lemma x_eof_add_run c st : x_eof (add_run c st) = x_eof st. Proof. unfold add_run; ftac. Qed.
Lemma x_work_units_add_run c st : x_work_units (add_run c st) = x_work_units st. Proof. unfold add_run; ftac. Qed.
Lemma x_out_slots_add_run c st : x_out_slots (add_run c st) = x_out_slots st. Proof. unfold add_run; ftac. Qed.
Lemma x_in_slots_add_run c st : x_in_slots (add_run c st) = x_in_slots st. Proof. unfold add_run; ftac. Qed.
Lemma x_num_worker_add_run c st : x_num_worker (add_run c st) = x_num_worker st. Proof. unfold add_run; ftac. Qed.
Lemma x_total_out_add_run c st : x_total_out (add_run c st) = x_total_out st. Proof. unfold add_run; ftac. Qed.
Lemma x_total_in_add_run c st : x_total_in (add_run c st) = x_total_in st. Proof. unfold add_run; ftac. Qed.
Lemma x_ultra_add_run c st : x_ultra (add_run c st) = x_ultra st. Proof. unfold add_run; ftac. Qed.
Lemma x_closed_add_run c st : x_closed (add_run c st) = x_closed st. Proof. unfold add_run; ftac. Qed.
Lemma x_outq_add_run c st : x_outq (add_run c st) = x_outq st. Proof. unfold add_run; ftac. Qed.
Lemma x_eof_missing_add_run c st : x_eof_missing (add_run c st) = x_eof_missing st. Proof. unfold add_run; ftac. Qed.
Lemma x_input_q_add_run c st : x_input_q (add_run c st) = x_input_q st. Proof. unfold add_run; ftac. Qed.
Lemma x_zombies_add_run c st : x_zombies (add_run c st) = x_zombies st. Proof. unfold add_run; ftac. Qed.
Lemma x_head_offs_add_run c st : x_head_offs (add_run c st) = x_head_offs st. Proof. unfold add_run; ftac. Qed.
Lemma x_tail_offs_add_run c st : x_tail_offs (add_run c st) = x_tail_offs st. Proof. unfold add_run; ftac. Qed.
Lemma x_retr_q_add_run c st : x_retr_q (add_run c st) = x_retr_q st. Proof. unfold add_run; ftac. Qed.
Lemma x_emit_q_add_run c st : x_emit_q (add_run c st) = x_emit_q st. Proof. unfold add_run; ftac. Qed.
Lemma x_reord_q_add_run c st : x_reord_q (add_run c st) = x_reord_q st. Proof. unfold add_run; ftac. Qed.
Lemma x_order_q_add_run c st : x_order_q (add_run c st) = x_order_q st. Proof. unfold add_run; ftac. Qed.
Lemma x_unords_add_run c st : x_unords (add_run c st) = x_unords st. Proof. unfold add_run; ftac. Qed.
Lemma x_next_uid_add_run c st : x_next_uid (add_run c st) = x_next_uid st. Proof. unfold add_run; ftac. Qed.
Lemma x_parse_token_add_run c st : x_parse_token (add_run c st) = x_parse_token st. Proof. unfold add_run; ftac. Qed.
Lemma x_parsing_done_add_run c st : x_parsing_done (add_run c st) = x_parsing_done st. Proof. unfold add_run; ftac. Qed.
Lemma x_scan_q_add_run c st : x_scan_q (add_run c st) = x_scan_q st. Proof. unfold add_run; ftac. Qed.
Lemma x_reord_offs_add_run c st : x_reord_offs (add_run c st) = x_reord_offs st. Proof. unfold add_run; ftac. Qed.
Lemma x_parser_bs_add_run c st : x_parser_bs (add_run c st) = x_parser_bs st. Proof. unfold add_run; ftac. Qed.
Lemma x_par_add_run c st : x_par (add_run c st) = x_par st. Proof. unfold add_run; ftac. Qed.
Lemma x_written_add_run c st : x_written (add_run c st) = x_written st. Proof. unfold add_run; ftac. Qed.
Lemma x_failed_add_run c st : x_failed (add_run c st) = x_failed st. Proof. unfold add_run; ftac. Qed.
Lemma x_bad_attach_add_run c st : x_bad_attach (add_run c st) = x_bad_attach st. Proof. unfold add_run; ftac. Qed.
Lemma x_next_add_run c st : x_next (add_run c st) = x_next st. Proof. unfold add_run; ftac. Qed.
#[export] Hint Rewrite x_eof_add_run x_work_units_add_run x_out_slots_add_run x_in_slots_add_run x_num_worker_add_run x_total_out_add_run x_total_in_add_run x_ultra_add_run x_closed_add_run x_outq_add_run x_eof_missing_add_run x_input_q_add_run x_zombies_add_run x_head_offs_add_run x_tail_offs_add_run x_retr_q_add_run x_emit_q_add_run x_reord_q_add_run x_order_q_add_run x_unords_add_run x_next_uid_add_run x_parse_token_add_run x_parsing_done_add_run x_scan_q_add_run x_reord_offs_add_run x_parser_bs_add_run x_par_add_run x_written_add_run x_failed_add_run x_bad_attach_add_run x_next_add_run : xf.

Lemma x_eof_give_unit st : x_eof (give_unit st) = x_eof st. Proof. unfold give_unit; ftac. Qed.
Lemma x_out_slots_give_unit st : x_out_slots (give_unit st) = x_out_slots st. Proof. unfold give_unit; ftac. Qed.
Lemma x_in_slots_give_unit st : x_in_slots (give_unit st) = x_in_slots st. Proof. unfold give_unit; ftac. Qed.
Lemma x_num_worker_give_unit st : x_num_worker (give_unit st) = x_num_worker st. Proof. unfold give_unit; ftac. Qed.
Lemma x_total_out_give_unit st : x_total_out (give_unit st) = x_total_out st. Proof. unfold give_unit; ftac. Qed.
Lemma x_total_in_give_unit st : x_total_in (give_unit st) = x_total_in st. Proof. unfold give_unit; ftac. Qed.
Lemma x_ultra_give_unit st : x_ultra (give_unit st) = x_ultra st. Proof. unfold give_unit; ftac. Qed.
Lemma x_closed_give_unit st : x_closed (give_unit st) = x_closed st. Proof. unfold give_unit; ftac. Qed.
Lemma x_outq_give_unit st : x_outq (give_unit st) = x_outq st. Proof. unfold give_unit; ftac. Qed.
Lemma x_eof_missing_give_unit st : x_eof_missing (give_unit st) = x_eof_missing st. Proof. unfold give_unit; ftac. Qed.
Lemma x_input_q_give_unit st : x_input_q (give_unit st) = x_input_q st. Proof. unfold give_unit; ftac. Qed.
Lemma x_zombies_give_unit st : x_zombies (give_unit st) = x_zombies st. Proof. unfold give_unit; ftac. Qed.
Lemma x_head_offs_give_unit st : x_head_offs (give_unit st) = x_head_offs st. Proof. unfold give_unit; ftac. Qed.
Lemma x_tail_offs_give_unit st : x_tail_offs (give_unit st) = x_tail_offs st. Proof. unfold give_unit; ftac. Qed.
Lemma x_retr_q_give_unit st : x_retr_q (give_unit st) = x_retr_q st. Proof. unfold give_unit; ftac. Qed.
Lemma x_emit_q_give_unit st : x_emit_q (give_unit st) = x_emit_q st. Proof. unfold give_unit; ftac. Qed.
Lemma x_reord_q_give_unit st : x_reord_q (give_unit st) = x_reord_q st. Proof. unfold give_unit; ftac. Qed.
Lemma x_order_q_give_unit st : x_order_q (give_unit st) = x_order_q st. Proof. unfold give_unit; ftac. Qed.
Lemma x_unords_give_unit st : x_unords (give_unit st) = x_unords st. Proof. unfold give_unit; ftac. Qed.
Lemma x_next_uid_give_unit st : x_next_uid (give_unit st) = x_next_uid st. Proof. unfold give_unit; ftac. Qed.
Lemma x_parse_token_give_unit st : x_parse_token (give_unit st) = x_parse_token st. Proof. unfold give_unit; ftac. Qed.
Lemma x_parsing_done_give_unit st : x_parsing_done (give_unit st) = x_parsing_done st. Proof. unfold give_unit; ftac. Qed.
Lemma x_scan_q_give_unit st : x_scan_q (give_unit st) = x_scan_q st. Proof. unfold give_unit; ftac. Qed.
Lemma x_reord_offs_give_unit st : x_reord_offs (give_unit st) = x_reord_offs st. Proof. unfold give_unit; ftac. Qed.
Lemma x_parser_bs_give_unit st : x_parser_bs (give_unit st) = x_parser_bs st. Proof. unfold give_unit; ftac. Qed.
Lemma x_par_give_unit st : x_par (give_unit st) = x_par st. Proof. unfold give_unit; ftac. Qed.
Lemma x_running_give_unit st : x_running (give_unit st) = x_running st. Proof. unfold give_unit; ftac. Qed.
Lemma x_written_give_unit st : x_written (give_unit st) = x_written st. Proof. unfold give_unit; ftac. Qed.
Lemma x_failed_give_unit st : x_failed (give_unit st) = x_failed st. Proof. unfold give_unit; ftac. Qed.
Lemma x_bad_attach_give_unit st : x_bad_attach (give_unit st) = x_bad_attach st. Proof. unfold give_unit; ftac. Qed.
Lemma x_next_give_unit st : x_next (give_unit st) = x_next st. Proof. unfold give_unit; ftac. Qed.
#[export] Hint Rewrite x_eof_give_unit x_out_slots_give_unit x_in_slots_give_unit x_num_worker_give_unit x_total_out_give_unit x_total_in_give_unit x_ultra_give_unit x_closed_give_unit x_outq_give_unit x_eof_missing_give_unit x_input_q_give_unit x_zombies_give_unit x_head_offs_give_unit x_tail_offs_give_unit x_retr_q_give_unit x_emit_q_give_unit x_reord_q_give_unit x_order_q_give_unit x_unords_give_unit x_next_uid_give_unit x_parse_token_give_unit x_parsing_done_give_unit x_scan_q_give_unit x_reord_offs_give_unit x_parser_bs_give_unit x_par_give_unit x_running_give_unit x_written_give_unit x_failed_give_unit x_bad_attach_give_unit x_next_give_unit : xf.

Lemma x_eof_fail code st : x_eof (fail code st) = x_eof st. Proof. unfold fail; ftac. Qed.
Lemma x_work_units_fail code st : x_work_units (fail code st) = x_work_units st. Proof. unfold fail; ftac. Qed.
Lemma x_out_slots_fail code st : x_out_slots (fail code st) = x_out_slots st. Proof. unfold fail; ftac. Qed.
Lemma x_in_slots_fail code st : x_in_slots (fail code st) = x_in_slots st. Proof. unfold fail; ftac. Qed.
Lemma x_num_worker_fail code st : x_num_worker (fail code st) = x_num_worker st. Proof. unfold fail; ftac. Qed.
Lemma x_total_out_fail code st : x_total_out (fail code st) = x_total_out st. Proof. unfold fail; ftac. Qed.
Lemma x_total_in_fail code st : x_total_in (fail code st) = x_total_in st. Proof. unfold fail; ftac. Qed.
Lemma x_ultra_fail code st : x_ultra (fail code st) = x_ultra st. Proof. unfold fail; ftac. Qed.
Lemma x_closed_fail code st : x_closed (fail code st) = x_closed st. Proof. unfold fail; ftac. Qed.
Lemma x_outq_fail code st : x_outq (fail code st) = x_outq st. Proof. unfold fail; ftac. Qed.
Lemma x_eof_missing_fail code st : x_eof_missing (fail code st) = x_eof_missing st. Proof. unfold fail; ftac. Qed.
Lemma x_input_q_fail code st : x_input_q (fail code st) = x_input_q st. Proof. unfold fail; ftac. Qed.
Lemma x_zombies_fail code st : x_zombies (fail code st) = x_zombies st. Proof. unfold fail; ftac. Qed.
Lemma x_head_offs_fail code st : x_head_offs (fail code st) = x_head_offs st. Proof. unfold fail; ftac. Qed.
Lemma x_tail_offs_fail code st : x_tail_offs (fail code st) = x_tail_offs st. Proof. unfold fail; ftac. Qed.
Lemma x_retr_q_fail code st : x_retr_q (fail code st) = x_retr_q st. Proof. unfold fail; ftac. Qed.
Lemma x_emit_q_fail code st : x_emit_q (fail code st) = x_emit_q st. Proof. unfold fail; ftac. Qed.
Lemma x_reord_q_fail code st : x_reord_q (fail code st) = x_reord_q st. Proof. unfold fail; ftac. Qed.
Lemma x_order_q_fail code st : x_order_q (fail code st) = x_order_q st. Proof. unfold fail; ftac. Qed.
Lemma x_unords_fail code st : x_unords (fail code st) = x_unords st. Proof. unfold fail; ftac. Qed.
Lemma x_next_uid_fail code st : x_next_uid (fail code st) = x_next_uid st. Proof. unfold fail; ftac. Qed.
Lemma x_parse_token_fail code st : x_parse_token (fail code st) = x_parse_token st. Proof. unfold fail; ftac. Qed.
Lemma x_parsing_done_fail code st : x_parsing_done (fail code st) = x_parsing_done st. Proof. unfold fail; ftac. Qed.
Lemma x_scan_q_fail code st : x_scan_q (fail code st) = x_scan_q st. Proof. unfold fail; ftac. Qed.
Lemma x_reord_offs_fail code st : x_reord_offs (fail code st) = x_reord_offs st. Proof. unfold fail; ftac. Qed.
Lemma x_parser_bs_fail code st : x_parser_bs (fail code st) = x_parser_bs st. Proof. unfold fail; ftac. Qed.
Lemma x_par_fail code st : x_par (fail code st) = x_par st. Proof. unfold fail; ftac. Qed.
Lemma x_running_fail code st : x_running (fail code st) = x_running st. Proof. unfold fail; ftac. Qed.
Lemma x_written_fail code st : x_written (fail code st) = x_written st. Proof. unfold fail; ftac. Qed.
Lemma x_bad_attach_fail code st : x_bad_attach (fail code st) = x_bad_attach st. Proof. unfold fail; ftac. Qed.
Lemma x_next_fail code st : x_next (fail code st) = x_next st. Proof. unfold fail; ftac. Qed.
#[export] Hint Rewrite x_eof_fail x_work_units_fail x_out_slots_fail x_in_slots_fail x_num_worker_fail x_total_out_fail x_total_in_fail x_ultra_fail x_closed_fail x_outq_fail x_eof_missing_fail x_input_q_fail x_zombies_fail x_head_offs_fail x_tail_offs_fail x_retr_q_fail x_emit_q_fail x_reord_q_fail x_order_q_fail x_unords_fail x_next_uid_fail x_parse_token_fail x_parsing_done_fail x_scan_q_fail x_reord_offs_fail x_parser_bs_fail x_par_fail x_running_fail x_written_fail x_bad_attach_fail x_next_fail : xf.

