(* C10: lemmas about the source as it is now (gen_cfg). *)
From Coq Require Import List NArith Bool Lia.
From LBZ Require Import Gen.Consts SchedX.XState Gen.SchedXTab SchedX.XSet SchedX.XModel SchedX.XLemmas
  SchedX.XInvDefs SchedX.XInv4 SchedX.XF4 SchedX.XOracle SchedX.XSeq.
Import ListNotations.
Local Open Scope N_scope.

(* the three offset tests are present in the regenerated source description *)
Lemma gen_cfg_safe : cfg_safe gen_cfg.
Proof. unfold cfg_safe, gen_cfg; simpl. repeat split; reflexivity. Qed.

Lemma C10_no_stale_attach_gen :
  forall n tin tout ultra st, reach gen_cfg (init_state n tin tout ultra) st ->
    x_bad_attach st = false /\ retr_inv st = true /\
    Forall (fun s => x_head_offs st <= d_off s) (x_scan_q st).
Proof.
  intros n tin tout ultra st R. destruct (no_bad_attach _ _ _ _ _ _ gen_cfg_safe R) as (A & B & C).
  repeat split; auto. unfold retr_inv. apply forallb_forall. intros j Hj. rewrite Forall_forall in B.
  apply N.leb_le. auto.
Qed.

Lemma C10_one_master_gen :
  forall n tin tout ultra st, reach gen_cfg (init_state n tin tout ultra) st ->
    (b2n (x_parse_token st) + nparse st + length (filter (jm (x_unords st)) (all_jobs st)) <= 1)%nat.
Proof. intros. apply (inv_reach _ _ _ _ _ _ gen_cfg_safe H). Qed.

Lemma C09_safe_gen :
  forall n small ultra st, reach gen_cfg (init_dec n small ultra) st ->
    x_bad_attach st = false /\ retr_inv st = true.
Proof. intros n small ultra st R. unfold init_dec in R. destruct (C10_no_stale_attach_gen _ _ _ _ _ R) as (A & B & _). auto. Qed.


(* ---- C10 proper ------------------------------------------------------------------------ *)
(* a run has terminated normally: nothing failed, the parser reached the end of the
   input, every confirmed block has been written *)
Definition completed (st : xstate) : Prop :=
  x_failed st = None /\ x_parsing_done st = true /\ x_order_q st = [].

Lemma C10_speculation_free_gen :
  forall (O : oracle) n tin tout ultra st L R,
    oreach O gen_cfg (init_state n tin tout ultra) st -> SeqDec O 0 0 L R ->
    (exists l', L = x_written st ++ l') /\
    (x_failed st <> None -> R = false) /\
    (completed st -> x_written st = L /\ R = true).
Proof.
  intros O n tin tout ultra st L R RE SD.
  destruct (speculation_free O gen_cfg n tin tout ultra st L R gen_cfg_safe RE SD) as (A & B & C).
  split; auto. split; auto. intros (F & D & Q). auto.
Qed.

(* C09, process level: two runs on the same stream (same oracles) with different worker
   counts, slot numbers, input fragmentations (EvInput sizes) and interleavings *)
Lemma C09_process_gen :
  forall (O : oracle) n1 tin1 tout1 u1 n2 tin2 tout2 u2 st1 st2 L R,
    SeqDec O 0 0 L R ->
    oreach O gen_cfg (init_state n1 tin1 tout1 u1) st1 ->
    oreach O gen_cfg (init_state n2 tin2 tout2 u2) st2 ->
    (completed st1 -> completed st2 -> x_written st1 = x_written st2) /\
    (completed st1 -> x_failed st2 = None) /\
    (exists l, x_written st1 = x_written st2 ++ l \/ x_written st2 = x_written st1 ++ l).
Proof.
  intros O n1 tin1 tout1 u1 n2 tin2 tout2 u2 st1 st2 L R SD R1 R2.
  destruct (C10_speculation_free_gen O _ _ _ _ _ L R R1 SD) as ((l1 & E1) & F1 & C1).
  destruct (C10_speculation_free_gen O _ _ _ _ _ L R R2 SD) as ((l2 & E2) & F2 & C2).
  split; [|split].
  - intros K1 K2. destruct (C1 K1) as [-> _]. destruct (C2 K2) as [-> _]. reflexivity.
  - intros K1. destruct (C1 K1) as [_ RT]. destruct (x_failed st2) eqn:F; auto.
    assert (R = false) by (apply F2; congruence). congruence.
  - rewrite E1 in E2. clear -E2. revert E2. generalize (x_written st1) as a, (x_written st2) as b. intro a.
    revert l1 l2. induction a as [|x a IH]; intros l1 l2 b E.
    + exists b. right. reflexivity.
    + destruct b as [|y b].
      * exists (x :: a). left. reflexivity.
      * simpl in E. inversion E; subst. destruct (IH _ _ _ H1) as (l & [K|K]); exists l; [left|right]; simpl; congruence.
Qed.
