(* C10: lemmas about the source as it is now (gen_cfg). *)
From Coq Require Import List NArith Bool Lia.
From LBZ Require Import Gen.Consts SchedX.XState Gen.SchedXTab SchedX.XSet SchedX.XModel SchedX.XLemmas
  SchedX.XInvDefs SchedX.XInv4 SchedX.XF4.
Import ListNotations.
Local Open Scope N_scope.

(* the three offset tests are present in the regenerated source description *)
Lemma gen_cfg_safe : cfg_safe gen_cfg.
Proof. unfold cfg_safe, gen_cfg; simpl. repeat split; reflexivity. Qed.

Lemma C10_no_stale_attach_gen :
  forall n tin tout ultra st, reach gen_cfg (init_state n tin tout ultra) st ->
    x_bad_attach st = false /\ retr_inv st = true /\
    Forall (fun s => x_head_offs st <= d_off s) (x_scan_q st).
Proof.
  intros n tin tout ultra st R. destruct (no_bad_attach _ _ _ _ _ _ gen_cfg_safe R) as (A & B & C).
  repeat split; auto. unfold retr_inv. apply forallb_forall. intros j Hj. rewrite Forall_forall in B.
  apply N.leb_le. auto.
Qed.

Lemma C10_one_master_gen :
  forall n tin tout ultra st, reach gen_cfg (init_state n tin tout ultra) st ->
    (b2n (x_parse_token st) + nparse st + length (filter (jm (x_unords st)) (all_jobs st)) <= 1)%nat.
Proof. intros. apply (inv_reach _ _ _ _ _ _ gen_cfg_safe H). Qed.

Lemma C09_safe_gen :
  forall n small ultra st, reach gen_cfg (init_dec n small ultra) st ->
    x_bad_attach st = false /\ retr_inv st = true.
Proof. intros n small ultra st R. unfold init_dec in R. destruct (C10_no_stale_attach_gen _ _ _ _ _ R) as (A & B & _). auto. Qed.
