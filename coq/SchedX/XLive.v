(* Liveness of the decompression scheduler: all invariants along a run, deadlock freedom,
   distinctness of the priority-queue keys.

   Runs: [lreach] (labels: ev_prog + ev_fresh) and [sreach] (ev_prog + ev_scan_prog, the
   hypothesis that every trace replay checks: a scan call that finds a magic ends strictly
   after the position it started from); XScanFront.v: sreach -> lreach. *)
From Coq Require Import List NArith Bool Lia Arith ZifyBool ZifyN ZifyNat Sorted.
From LBZ Require Import Gen.Consts SchedX.XState Gen.SchedXTab SchedX.XSet SchedX.XModel SchedX.XLemmas
  SchedX.XFrame SchedX.XInvDefs SchedX.XOps SchedX.XInv SchedX.XInv2 SchedX.XInv3 SchedX.XInv4 SchedX.XOracle
  SchedX.XSeq SchedX.XCount SchedX.XC10 SchedX.XC11 SchedX.XOwn SchedX.XOwnProofs SchedX.XScanOwn SchedX.XC11b
  SchedX.XLiveDefs SchedX.XLiveCore SchedX.XLiveIn SchedX.XLiveTok SchedX.XLiveDist SchedX.XLiveMh SchedX.XLiveRes
  SchedX.XLiveRd SchedX.XScanFront SchedX.XTie SchedX.XLiveRun.
Import ListNotations.
Local Open Scope N_scope.

(* ---- everything that holds along a run ------------------------------------------------------ *)
Record livep (st : xstate) : Prop := mklivep {
  lv_inv : inv st;
  lv_sown : sown st;
  lv_cnt : cnt st;
  lv_lin : lin st;
  lv_own : x_failed st = None -> own st;
  lv_ltk : x_failed st = None -> ltk st;
  lv_lld : x_failed st = None -> lld st;
  lv_llm : x_failed st = None -> llm st;
  lv_lrs : x_failed st = None -> lrs st;
  lv_lrd : x_failed st = None -> lrd st
}.

Lemma livep_init n tin tout ultra : 0 < n -> livep (init_state n tin tout ultra).
Proof.
  intro Hn. constructor; intros.
  - apply inv_init.
  - apply sown_init.
  - apply cnt_init.
  - apply lin_init.
  - apply own_init.
  - apply ltk_init.
  - apply lld_init.
  - apply llm_init. exact Hn.
  - apply lrs_init.
  - apply lrd_init.
Qed.

Lemma livep_step cfg st e st' :
  cfg_safe cfg -> cfg_drops cfg -> ev_prog st e -> ev_fresh st e -> livep st -> step cfg st e = Some st' -> livep st'.
Proof.
  intros CS CD EP EF [I S C LI OW LT LD LM LR RD] H.
  pose proof (step_not_failed _ _ _ _ H) as NF.
  specialize (OW NF). specialize (LT NF). specialize (LD NF). specialize (LM NF). specialize (LR NF). specialize (RD NF).
  pose proof (proj1 (ev_prog_next _ _) EP) as EN.
  constructor.
  - eapply inv_step; eauto.
  - eapply sown_step; eauto.
  - eapply cnt_step; eauto.
  - eapply lin_step; eauto.
  - intro NF'. eapply own_step; eauto.
  - intro NF'. eapply ltk_step; eauto.
  - intro NF'. eapply lld_step; eauto.
  - intro NF'. eapply llm_step; eauto.
  - intro NF'. eapply lrs_step; eauto.
  - intro NF'. eapply lrd_step; eauto.
Qed.

Theorem livep_lreach cfg n tin tout ultra st :
  cfg_safe cfg -> cfg_drops cfg -> 0 < n -> lreach cfg (init_state n tin tout ultra) st -> livep st.
Proof.
  intros CS CD Hn R. induction R as [|st e st' R IH EP EF H].
  - apply livep_init. exact Hn.
  - eapply livep_step; eauto.
Qed.

Lemma consts_lreach cfg s0 st : lreach cfg s0 st -> consts st = consts s0.
Proof. induction 1 as [|st e st' R IH EP EF H]; [reflexivity|]. rewrite (consts_step _ _ _ _ H). exact IH. Qed.

(* ---- deadlock freedom ------------------------------------------------------------------------- *)
(* A reachable, non-failed, non-final state: either some worker is inside an unlocked computation
   (parse, retrieve, decode/emit, scan - each terminates and then runs its second locked segment),
   or an event of the system is enabled that is not a stutter: a task can start, the writer can
   return an output slot, or the reader thread - which really is able to move: it has an input
   slot or source_close() was requested - can deliver. *)
Theorem progress_lreach cfg n tin tout ultra st :
  cfg_safe cfg -> cfg_drops cfg -> 1 <= n -> 1 <= tin -> EMIT_THRESH < tout ->
  lreach cfg (init_state n tin tout ultra) st -> x_failed st = None -> final st = false ->
  x_running st <> [] \/ exists e st', step cfg st e = Some st' /\ productive st e = true.
Proof.
  intros CS CD Hn Hi Ho R NF NFIN.
  destruct (x_running st) as [|c r] eqn:RUN; [right|left; discriminate].
  assert (Hn' : 0 < n) by lia.
  destruct (livep_lreach _ _ _ _ _ _ CS CD Hn' R) as [I S C LI OW LT LD LM LR RD].
  pose proof (consts_lreach _ _ _ R) as K. unfold consts in K. simpl in K.
  assert (K2 : x_total_in st = tin) by congruence. assert (K3 : x_total_out st = tout) by congruence.
  apply (progress_core cfg st); auto; [rewrite K2; exact Hi|rewrite K3; exact Ho].
Qed.

(* ... and a worker inside an unlocked computation can always complete its second segment (XLiveRun.v):
   some event that is not a stutter is enabled in EVERY reachable, non-failed, non-final state *)
Theorem progress_all_lreach cfg n tin tout ultra st :
  cfg_safe cfg -> cfg_drops cfg -> 1 <= n -> 1 <= tin -> EMIT_THRESH < tout ->
  lreach cfg (init_state n tin tout ultra) st -> x_failed st = None -> final st = false ->
  exists e st', step cfg st e = Some st' /\ productive st e = true.
Proof.
  intros CS CD Hn Hi Ho R NF NFIN.
  destruct (progress_lreach cfg n tin tout ultra st CS CD Hn Hi Ho R NF NFIN) as [RUN|P]; [|exact P].
  destruct (x_running st) as [|c r] eqn:RQ; [congruence|].
  apply (running_returns cfg st c NF).
  - eapply lrun_reach; [exact CS|]. apply preach_reach. apply lreach_preach. exact R.
  - rewrite RQ. left. reflexivity.
Qed.

Theorem progress_sreach cfg n tin tout ultra st :
  cfg_safe cfg -> cfg_drops cfg -> 1 <= n -> 1 <= tin -> EMIT_THRESH < tout ->
  sreach cfg (init_state n tin tout ultra) st -> x_failed st = None -> final st = false ->
  (x_running st = [] -> exists e st', step cfg st e = Some st' /\ productive st e = true /\
                         match e with EvParse1 _ _ | EvRetr1 _ _ _ _ | EvRetr2 _ | EvEmit1 _ _ _ _ _ | EvScan1 _ _ _ _ _ => False | _ => True end) /\
  exists e st', step cfg st e = Some st' /\ productive st e = true.
Proof.
  intros CS CD Hn Hi Ho R NF NFIN.
  assert (L : lreach cfg (init_state n tin tout ultra) st) by (apply sreach_lreach; auto).
  split; [|exact (progress_all_lreach cfg n tin tout ultra st CS CD Hn Hi Ho L NF NFIN)].
  intro RUN. destruct (progress_lreach cfg n tin tout ultra st CS CD Hn Hi Ho L NF NFIN) as [X|(e & st' & S & P)]; [congruence|].
  exists e, st'. split; [exact S|]. split; [exact P|].
  (* with nobody running no second-segment event is defined *)
  unfold step in S. rewrite NF in S.
  destruct e; auto; simpl in S.
  - unfold parse1, del_run in S. rewrite RUN in S. simpl in S. discriminate.
  - unfold retr1, del_run in S. rewrite RUN in S. simpl in S. discriminate.
  - unfold retr2, del_run in S. rewrite RUN in S. simpl in S. discriminate.
  - unfold emit1, del_run in S. rewrite RUN in S. simpl in S. discriminate.
  - unfold scan1, del_run in S. rewrite RUN in S. simpl in S. discriminate.
Qed.

(* ---- the keys of the priority queues ------------------------------------------------------------ *)
Lemma nodup_map_fst {A} (f : A -> pos) l : NoDup (map (fun x => fst (f x)) l) -> NoDup (map f l).
Proof.
  intro ND. assert (E : map (fun x => fst (f x)) l = map fst (map f l)) by (rewrite map_map; reflexivity).
  rewrite E in ND. eapply NoDup_map_inv; eauto.
Qed.

Lemma nodup_app_l {A} (a b : list A) : NoDup (a ++ b) -> NoDup a.
Proof. induction a as [|x a IH]; simpl; intro H; [constructor|]. inversion H; subst. constructor; [rewrite in_app_iff in *; tauto|auto]. Qed.

Lemma nodup_app_r {A} (a b : list A) : NoDup (a ++ b) -> NoDup b.
Proof. induction a as [|x a IH]; simpl; intro H; auto. inversion H; subst. auto. Qed.

Theorem queue_keys_distinct_lreach cfg n tin tout ultra st :
  cfg_safe cfg -> cfg_drops cfg -> 0 < n -> lreach cfg (init_state n tin tout ultra) st -> x_failed st = None ->
  NoDup (map d_pos (x_scan_q st)) /\ NoDup (map u_base (unord_q st)) /\
  NoDup (map e_base (x_emit_q st)) /\ NoDup (map o_base (x_reord_q st)).
Proof.
  intros CS CD Hn R NF. destruct (livep_lreach _ _ _ _ _ _ CS CD Hn R) as [I S C LI OW LT LD LM LR RD].
  specialize (LD NF). specialize (RD NF).
  split; [apply scan_pos_distinct; auto|]. split; [|split].
  - apply nodup_map_fst. exact (ll_udist _ LD).
  - apply nodup_map_fst. pose proof (ll_dist _ LD) as ND. unfold lines in ND.
    apply nodup_app_r in ND. apply nodup_app_l in ND. unfold estage in ND. rewrite map_app in ND. apply nodup_app_l in ND. exact ND.
  - exact (rd_nodup _ RD).
Qed.

Theorem queue_keys_distinct_sreach cfg n tin tout ultra st :
  cfg_safe cfg -> cfg_drops cfg -> 0 < n -> sreach cfg (init_state n tin tout ultra) st -> x_failed st = None ->
  NoDup (map d_pos (x_scan_q st)) /\ NoDup (map u_base (unord_q st)) /\
  NoDup (map e_base (x_emit_q st)) /\ NoDup (map o_base (x_reord_q st)).
Proof. intros CS CD Hn R NF. exact (queue_keys_distinct_lreach cfg n tin tout ultra st CS CD Hn (sreach_lreach cfg n tin tout ultra st CS CD R) NF). Qed.

(* ---- retr_q: the keys (current positions) of two jobs CAN be equal ------------------------------- *)
(* the master of the block at bit 40 and a candidate at bit 70 inside it both run to the end of the
   4-word input block and wait for the next one at (128, 4) *)
Definition tie_m : rjob := mkrjob (40, 0) (mkdbs 40 2) None.
Definition tie_s : rjob := mkrjob (70, 0) (mkdbs 70 3) (Some 0).
Definition tie_events : list event :=
  [ EvInput 4 0; EvParse0; EvParse1 (Some 0) (POk (mkdbs 40 2) 0 9 0);
    EvRetr0 tie_m;
    EvScan0; EvScan1 (mkdbs 0 0) (Some 0) true (mkdbs 70 3) true;
    EvRetr0 tie_s;
    EvRetr1 tie_s (Some 0) MORE (mkdbs 128 4);
    EvRetr1 tie_m (Some 0) MORE (mkdbs 128 4) ].

(* executable form of the label hypotheses, to exhibit concrete [sreach] runs *)
Definition ev_progb (st : xstate) (e : event) : bool :=
  match e with EvParse1 _ (POk bs _ _ _) => x_next st + HDR_MIN <=? d_bit bs | _ => true end.
Definition ev_scan_progb (e : event) : bool :=
  match e with EvScan1 s _ true s' _ => d_bit s <? d_bit s' | _ => true end.

Fixpoint srun (cfg : xcfg) (st : xstate) (es : list event) : option xstate :=
  match es with
  | [] => Some st
  | e :: r => if ev_progb st e && ev_scan_progb e
              then match step cfg st e with Some st' => srun cfg st' r | None => None end
              else None
  end.

Lemma ev_progb_spec st e : ev_progb st e = true -> ev_prog st e.
Proof. destruct e; simpl; auto. destruct r; simpl; auto. intro H. apply N.leb_le. exact H. Qed.

Lemma ev_scan_progb_spec e : ev_scan_progb e = true -> ev_scan_prog e.
Proof. destruct e; simpl; auto. destruct found; auto. intro H. apply N.ltb_lt. exact H. Qed.

Lemma srun_sreach cfg s0 es : forall st st', sreach cfg s0 st -> srun cfg st es = Some st' -> sreach cfg s0 st'.
Proof.
  induction es as [|e r IH]; simpl; intros st st' R H.
  - inversion H; subst. exact R.
  - destruct (ev_progb st e && ev_scan_progb e) eqn:B; [|discriminate]. apply andb_true_iff in B. destruct B as [B1 B2].
    destruct (step cfg st e) as [s1|] eqn:S; [|discriminate].
    eapply IH; [|exact H]. econstructor; eauto using ev_progb_spec, ev_scan_progb_spec.
Qed.

Lemma retr_keys_tie_witness :
  exists st j1 j2, sreach gen_cfg (init_state 3 8 8 false) st /\ x_failed st = None /\
    x_retr_q st = [j1; j2] /\ r_base j1 <> r_base j2 /\ rkey j1 = rkey j2.
Proof.
  assert (R : exists st, srun gen_cfg (init_state 3 8 8 false) tie_events = Some st /\
                x_failed st = None /\ exists j1 j2, x_retr_q st = [j1; j2] /\ r_base j1 <> r_base j2 /\ rkey j1 = rkey j2).
  { eexists. split; [vm_compute; reflexivity|]. split; [reflexivity|]. eexists. eexists. split; [reflexivity|].
    split; [discriminate|reflexivity]. }
  destruct R as (st & RUN & NF & j1 & j2 & A & B & C). exists st, j1, j2. split; [|auto].
  eapply srun_sreach; [constructor|exact RUN].
Qed.

(* ---- the statements for gen_cfg (Properties_C11x.v) ------------------------------------------------ *)
Lemma C11x_queue_keys_distinct_gen n tin tout ultra st :
  0 < n -> sreach gen_cfg (init_state n tin tout ultra) st -> x_failed st = None ->
  NoDup (map d_pos (x_scan_q st)) /\ NoDup (map u_base (unord_q st)) /\
  NoDup (map e_base (x_emit_q st)) /\ NoDup (map o_base (x_reord_q st)).
Proof. apply queue_keys_distinct_sreach; [exact gen_cfg_safe|exact gen_cfg_drops]. Qed.

Lemma C11x_can_retrieve_tie_gen n tin tout ultra st x :
  reach gen_cfg (init_state n tin tout ultra) st ->
  In x (x_retr_q st) -> is_minimal rkey pos_lt x (x_retr_q st) = true ->
  can_attach st (r_cur x) = can_attach st (r_cur (peek_retr pos_lt st)).
Proof. intro R. apply can_retrieve_tie. exact (inv_reach _ _ _ _ _ _ gen_cfg_safe R). Qed.

Lemma C11x_advance_any_tiebreak_gen n tin tout ultra st (pick : list rjob -> option rjob) hd :
  reach gen_cfg (init_state n tin tout ultra) st ->
  (forall q j, pick q = Some j -> In j q /\ forall y, In y q -> pos_lt (rkey y) (rkey j) = false) ->
  (forall q, q <> [] -> exists j, pick q = Some j) ->
  snd (adv_retr_g pick (length (x_retr_q st)) hd (x_retr_q st)) = snd (adv_retr (length (x_retr_q st)) hd (x_retr_q st)) /\
  Permutation.Permutation (fst (adv_retr_g pick (length (x_retr_q st)) hd (x_retr_q st)))
                          (fst (adv_retr (length (x_retr_q st)) hd (x_retr_q st))).
Proof.
  intros R PM PS. apply adv_retr_any_tiebreak; auto.
  pose proof (i_jobs _ (inv_reach _ _ _ _ _ _ gen_cfg_safe R)) as IJ. unfold all_jobs in IJ.
  apply Forall_app in IJ. destruct IJ as [IJ _]. eapply Forall_impl; [|exact IJ]. intros j J. apply J.
Qed.

Lemma C11x_progress_gen n tin tout ultra st :
  1 <= n -> 1 <= tin -> EMIT_THRESH < tout ->
  sreach gen_cfg (init_state n tin tout ultra) st -> x_failed st = None -> final st = false ->
  (x_running st = [] ->
   exists e st', step gen_cfg st e = Some st' /\ productive st e = true /\
     match e with EvParse1 _ _ | EvRetr1 _ _ _ _ | EvRetr2 _ | EvEmit1 _ _ _ _ _ | EvScan1 _ _ _ _ _ => False | _ => True end) /\
  exists e st', step gen_cfg st e = Some st' /\ productive st e = true.
Proof. apply progress_sreach; [exact gen_cfg_safe|exact gen_cfg_drops]. Qed.

Lemma C11x_progress_dec_gen n small ultra st :
  1 <= n -> (small = true -> 2 <= n) ->
  sreach gen_cfg (init_dec n small ultra) st -> x_failed st = None -> final st = false ->
  exists e st', step gen_cfg st e = Some st' /\ productive st e = true.
Proof.
  intros Hn Hs R NF NFIN. unfold init_dec in R.
  refine (proj2 (C11x_progress_gen n _ _ ultra st Hn _ _ R NF NFIN)).
  - unfold dec_total_in. destruct small; [discriminate|]. clear - Hn. lia.
  - unfold dec_total_out, EMIT_THRESH. destruct small; [specialize (Hs eq_refl)|]; lia.
Qed.

Lemma C11x_live_invariants_gen n tin tout ultra st :
  0 < n -> sreach gen_cfg (init_state n tin tout ultra) st -> livep st.
Proof.
  intros Hn R. apply (livep_lreach gen_cfg n tin tout ultra st gen_cfg_safe gen_cfg_drops Hn).
  apply sreach_lreach; [exact gen_cfg_safe|exact gen_cfg_drops|exact R].
Qed.

Lemma C11x_progress_example_gen :
  exists st, sreach gen_cfg (init_state 3 8 8 false) st /\ x_failed st = None /\ final st = false /\ x_running st = [].
Proof.
  assert (E : exists s, srun gen_cfg (init_state 3 8 8 false) tie_events = Some s /\ x_failed s = None /\ final s = false /\ x_running s = [])
    by (eexists; split; [vm_compute; reflexivity|repeat split; reflexivity]).
  destruct E as (s & RUN & A & B & C). exists s. split; [|auto]. eapply srun_sreach; [constructor|exact RUN].
Qed.
