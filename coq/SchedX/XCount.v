(* C11 (decompression part): conservation of work units, output slots and input
   slots; the queue capacities that follow from it; the final state. *)
From Coq Require Import List NArith Bool Lia Arith ZifyBool ZifyN ZifyNat.
From LBZ Require Import Gen.Consts SchedX.XState Gen.SchedXTab SchedX.XSet SchedX.XModel SchedX.XLemmas
  SchedX.XFrame SchedX.XInvDefs SchedX.XOps SchedX.XInv SchedX.XInv2.
Import ListNotations.
Local Open Scope N_scope.

Definition is_emit (c : cont) : bool := match c with CEmit _ => true | _ => false end.
Definition nemit (st : xstate) : nat := length (filter is_emit (x_running st)).

Definition units_held (st : xstate) : N :=
  N.of_nat (length (x_retr_q st) + length (x_emit_q st) + length (x_running st)).
Definition slots_held (st : xstate) : N :=
  N.of_nat (length (x_reord_q st) + nemit st) + x_outq st.
Definition in_held (st : xstate) : N :=
  N.of_nat (length (x_input_q st) + length (x_zombies st)).

Record cnt (st : xstate) : Prop := mkcnt {
  k_units : x_failed st = None -> x_work_units st + units_held st = x_num_worker st;
  k_slots : x_failed st = None -> x_out_slots st + slots_held st = x_total_out st;
  k_in : x_failed st = None -> x_in_slots st + in_held st = x_total_in st
}.

Lemma cnt_init n tin tout ultra : cnt (init_state n tin tout ultra).
Proof. constructor; unfold units_held, slots_held, in_held, nemit; simpl; lia. Qed.

(* ---- auxiliary operations ------------------------------------------------------------- *)
Lemma upd_ref_length f o q : length (upd_ref f o q) = length q.
Proof. unfold upd_ref. apply map_length. Qed.

Lemma attach_input_len d st : length (x_input_q (fst (attach d st))) = length (x_input_q st).
Proof.
  unfold attach. destruct (can_attach_assert st d && (d_off d <=? x_tail_offs st));
    destruct (d_off d =? x_tail_offs st); simpl; xs; auto;
    destruct (find_blk (d_off d) (x_input_q st)); simpl; xs; auto; apply upd_ref_length.
Qed.

Lemma filter_split_len {A} (p : A -> bool) l :
  (length (filter p l) + length (filter (fun x => negb (p x)) l) = length l)%nat.
Proof. induction l as [|a r IH]; simpl; auto. destruct (p a); simpl; lia. Qed.

Lemma detach_in att st : x_in_slots (detach att st) + in_held (detach att st) = x_in_slots st + in_held st.
Proof.
  unfold detach, in_held. destruct att as [o|]; auto. destruct (has_blk o (x_input_q st)); xs.
  - rewrite upd_ref_length. reflexivity.
  - pose proof (filter_split_len (fun b => ib_ref b =? 0) (upd_ref N.pred o (x_zombies st))) as F.
    rewrite upd_ref_length in F. lia.
Qed.

Lemma release_in b st : x_in_slots (release_blk b st) + N.of_nat (length (x_zombies (release_blk b st)))
                        = x_in_slots st + N.of_nat (length (x_zombies st)) + 1.
Proof. unfold release_blk. destruct (ib_ref b =? 1); xs; rewrite ?app_length; simpl; lia. Qed.

Lemma fold_release_in l st :
  x_in_slots (fold_left (fun a b => release_blk b a) l st) + N.of_nat (length (x_zombies (fold_left (fun a b => release_blk b a) l st)))
  = x_in_slots st + N.of_nat (length (x_zombies st)) + N.of_nat (length l).
Proof.
  revert st. induction l as [|b r IH]; intro st; simpl; [lia|]. rewrite IH, release_in. lia.
Qed.

Lemma pop_input_len lim q : (length (fst (pop_input lim q)) + length (snd (pop_input lim q)) = length q)%nat.
Proof.
  induction q as [|b r IH]; simpl; auto. destruct (ib_end b <=? lim); simpl; auto.
  destruct (pop_input lim r); simpl in *. lia.
Qed.

Lemma adv_input_in lim st : x_in_slots (adv_input lim st) + in_held (adv_input lim st) = x_in_slots st + in_held st.
Proof.
  unfold in_held. rewrite adv_input_q. unfold adv_input. pose proof (pop_input_len lim (x_input_q st)) as P.
  pose proof (fold_release_in (fst (pop_input lim (x_input_q st)))
                (set_head_offs (x_head_offs st + sum_sizes (fst (pop_input lim (x_input_q st)))) (set_input_q (snd (pop_input lim (x_input_q st))) st))) as F.
  xs in F. lia.
Qed.

Lemma advance_counts cfg bs st :
  x_work_units (advance cfg bs st) + N.of_nat (length (x_retr_q (advance cfg bs st))) = x_work_units st + N.of_nat (length (x_retr_q st)) /\
  x_in_slots (advance cfg bs st) + in_held (advance cfg bs st) = x_in_slots st + in_held st.
Proof.
  split.
  - unfold advance. autorewrite with xf. unfold adv_jobs.
    set (sa := adv_input (d_off bs) (set_parser_bs bs st)).
    assert (Erq : x_retr_q sa = x_retr_q st) by (subst sa; xs; autorewrite with xf; xs; reflexivity).
    assert (Ewu : x_work_units sa = x_work_units st) by (subst sa; xs; autorewrite with xf; xs; reflexivity).
    assert (L : forall fuel hd q, (length (fst (adv_retr fuel hd q)) + length (snd (adv_retr fuel hd q)) = length q)%nat).
    { induction fuel as [|f IH]; intros hd q; simpl; auto.
      destruct (qmin rkey pos_lt q) as [j|]; simpl; auto. destruct (d_off (r_cur j) <? hd); simpl; auto.
      destruct (remove_one rjob_eqb j q) as [q'|] eqn:R; simpl; auto.
      specialize (IH hd q'). destruct (adv_retr f hd q'); simpl in *. rewrite (remove_one_length _ rjob_eqb_eq _ _ _ R). lia. }
    specialize (L (length (x_retr_q sa)) (x_head_offs sa) (x_retr_q sa)).
    destruct (c_advance_drops_link cfg); xs; rewrite <- Erq, <- Ewu; lia.
  - unfold advance, in_held. autorewrite with xf.
    pose proof (adv_input_in (d_off bs) (set_parser_bs bs st)) as A. unfold in_held in A. xs in A. exact A.
Qed.

Lemma del_run_counts c st s1 : del_run c st = Some s1 ->
  (length (x_running st) = S (length (x_running s1)))%nat /\
  (nemit st = nemit s1 + (if is_emit c then 1 else 0))%nat /\
  exists r, s1 = set_running r st.
Proof.
  intro D. destruct (del_run_spec _ _ _ D) as (l1 & l2 & E & ->). unfold nemit. xs. rewrite E.
  rewrite !app_length, !filter_len_app. simpl. destruct (is_emit c); simpl; (split; [lia|split; [lia|eauto]]).
Qed.

Ltac cnt_tac := constructor; unfold units_held, slots_held, in_held, nemit, add_run, give_unit, fail in *; xs; autorewrite with xf; xs; simpl length; rewrite ?app_length; simpl length; try lia; try (intros _; lia); try discriminate.

Lemma cnt_step cfg st e st' : cnt st -> step cfg st e = Some st' -> cnt st'.
Proof.
  intros [KU KS KI] H. unfold step in H. destruct (x_failed st) eqn:NF; [discriminate|]. specialize (KS eq_refl). specialize (KU eq_refl). specialize (KI eq_refl).
  destruct e.
  - (* input *) unfold input in H. match type of H with (if ?c then _ else _) = _ => destruct c eqn:C; [|discriminate] end.
    bool_hyps. destruct (x_parsing_done st); inversion H; subst; [constructor; rewrite NF; auto|].
    cnt_tac.
  - unfold reader_eof in H. destruct (x_eof st); [discriminate|]. inversion H; subst. cnt_tac.
  - unfold written in H. destruct (0 <? x_outq st) eqn:C; [|discriminate]. inversion H; subst. cnt_tac.
  - (* parse0 *) unfold parse0 in H. destruct (selects TParse st) eqn:S; [|discriminate].
    apply selects_ready in S. simpl in S. unfold can_parse in S. bool_hyps.
    set (st1 := set_work_units (N.pred (x_work_units st)) (set_parse_token false st)) in *.
    destruct (attach (x_parser_bs st1) st1) as [st2 att] eqn:A.
    assert (E2 : st2 = fst (attach (x_parser_bs st1) st1)) by (rewrite A; reflexivity).
    inversion H; subst st'. rewrite E2. pose proof (attach_input_len (x_parser_bs st1) st1) as AL.
    subst st1. xs in AL; cnt_tac; rewrite ?AL; try lia; try (intros _; lia).
  - (* parse1 *) unfold parse1 in H. destruct (del_run (CParse att) st) as [s1|] eqn:D; [|discriminate].
    destruct (del_run_counts _ _ _ D) as (L1 & L2 & r0 & ->). simpl in L2. unfold nemit in *. xs in L1. xs in L2.
    match type of H with (if ?c then _ else _) = _ => destruct c; [|discriminate] end.
    pose proof (detach_in att (set_running r0 st)) as DI. unfold in_held in DI. xs in DI. autorewrite with xf in DI. xs in DI.
    set (s2 := detach att (set_running r0 st)) in *.
    assert (F2 : x_work_units s2 = x_work_units st /\ x_retr_q s2 = x_retr_q st /\ x_emit_q s2 = x_emit_q st /\ x_running s2 = r0 /\
                 x_out_slots s2 = x_out_slots st /\ x_reord_q s2 = x_reord_q st /\ x_outq s2 = x_outq st /\ x_failed s2 = None /\
                 x_num_worker s2 = x_num_worker st /\ x_total_out s2 = x_total_out st /\ x_total_in s2 = x_total_in st)
      by (subst s2; autorewrite with xf; xs; auto 15).
    destruct F2 as (F1 & F2 & F3 & F4 & F5 & F6 & F7 & F8 & F9 & F10 & F11). clearbody s2.
    assert (A2 : x_work_units s2 + units_held s2 + 1 = x_num_worker s2) by (unfold units_held in *; rewrite F1, F2, F3, F4, F9; lia).
    assert (B2 : x_out_slots s2 + slots_held s2 = x_total_out s2) by (unfold slots_held, nemit in *; rewrite F5, F6, F7, F4, F10; lia).
    assert (C2 : x_in_slots s2 + in_held s2 = x_total_in s2) by (unfold in_held in *; rewrite F11; lia).
    clear KU KS KI DI L1 L2 F1 F2 F3 F4 F5 F6 F7 F9 F10 F11.
    set (s3 := advance cfg (res_bs r) s2) in *.
    assert (K3 : (x_work_units s3 + units_held s3 + 1 = x_num_worker s3 /\ x_out_slots s3 + slots_held s3 = x_total_out s3 /\
                  x_in_slots s3 + in_held s3 = x_total_in s3) /\ x_failed s3 = None).
    { subst s3. destruct (advance_counts cfg (res_bs r) s2) as [P Q]. split; [|autorewrite with xf; auto].
      unfold units_held, slots_held, in_held, nemit in *; autorewrite with xf. repeat split; lia. }
    clearbody s3. destruct K3 as ((A & B & C) & NF3). clear A2 B2 C2.
    destruct r as [bs ps|bs g|bs code|bs ps lv crc].
    + match type of H with (if ?c then _ else _) = _ => destruct c; [|discriminate] end. inversion H; subst. cnt_tac.
    + match type of H with (if ?c then _ else _) = _ => destruct c; [|discriminate] end. inversion H; subst.
      unfold parse_finish. set (pb' := mkdbs _ _). clearbody pb'.
      match goal with |- cnt (if ?c then _ else _) => destruct c end; [cnt_tac|].
      match goal with |- cnt ?x => set (rr := x) end.
      pose proof (fold_release_in (x_input_q s3)) as FR.
      destruct (c_finish_drops_link cfg); subst rr; constructor; unfold units_held, slots_held, in_held, nemit in *; xs; autorewrite with xf; xs;
        simpl length; intros _; try lia;
        match goal with |- context [fold_left _ _ ?y] => specialize (FR y); xs in FR; lia end.
    + match type of H with (if ?c then _ else _) = _ => destruct c; [discriminate|] end. inversion H; subst. cnt_tac.
    + match type of H with (if ?c then _ else _) = _ => destruct c; [|discriminate] end. inversion H; subst.
      unfold parse_ok.
      set (s4 := set_unords _ (set_order_q _ (set_par ps (set_next (d_bit bs) s3)))).
      assert (K4 : (x_work_units s4 + units_held s4 + 1 = x_num_worker s4 /\ x_out_slots s4 + slots_held s4 = x_total_out s4 /\
                    x_in_slots s4 + in_held s4 = x_total_in s4) /\ x_failed s4 = None).
      { subst s4. unfold units_held, slots_held, in_held, nemit in *; xs. repeat split; auto; lia. }
      clearbody s4. destruct K4 as ((A4 & B4 & C4) & NF4).
      destruct (qmin u_base pos_lt (unord_q s4)) as [u|]; [|cnt_tac].
      destruct (pos_eq (u_base u) (d_pos (x_parser_bs (set_par ps (set_next (d_bit bs) s3))))); [|cnt_tac].
      destruct (advance_counts cfg (u_end u) s4) as [P Q].
      destruct (u_complete u); constructor; unfold units_held, slots_held, in_held, nemit in *; xs; autorewrite with xf; xs; intros _; try lia.
  - (* retr0 *) unfold retr0 in H. destruct (selects TRetrieve st); [|discriminate].
    destruct (take_min rjob_eqb rkey j (x_retr_q st)) as [q|] eqn:T; [|discriminate].
    apply take_min_spec in T. destruct T as [R _]. pose proof (remove_one_length _ rjob_eqb_eq _ _ _ R) as RL.
    set (st1 := set_retr_q q st) in *.
    destruct (attach (r_cur j) st1) as [st2 att] eqn:A.
    assert (E2 : st2 = fst (attach (r_cur j) st1)) by (rewrite A; reflexivity).
    inversion H; subst st'. rewrite E2. pose proof (attach_input_len (r_cur j) st1) as AL.
    subst st1. xs in AL; cnt_tac; rewrite ?AL; try lia; try (intros _; lia).
  - (* retr1 *) unfold retr1 in H. destruct (del_run (CRetr j att) st) as [s1|] eqn:D; [|discriminate].
    destruct (del_run_counts _ _ _ D) as (L1 & L2 & r & ->). simpl in L2. unfold nemit in *. xs in L1. xs in L2.
    match type of H with (if ?c then _ else _) = _ => destruct c; [|discriminate] end.
    pose proof (detach_in att (set_running r st)) as DI. unfold in_held in DI. xs in DI. autorewrite with xf in DI. xs in DI.
    set (s2 := detach att (set_running r st)) in *.
    assert (F2 : x_work_units s2 = x_work_units st /\ x_retr_q s2 = x_retr_q st /\ x_emit_q s2 = x_emit_q st /\ x_running s2 = r /\
                 x_out_slots s2 = x_out_slots st /\ x_reord_q s2 = x_reord_q st /\ x_outq s2 = x_outq st /\ x_failed s2 = None /\
                 x_num_worker s2 = x_num_worker st /\ x_total_out s2 = x_total_out st /\ x_total_in s2 = x_total_in st)
      by (subst s2; autorewrite with xf; xs; auto 15).
    destruct F2 as (F1 & F2 & F3 & F4 & F5 & F6 & F7 & F8 & F9 & F10 & F11). clearbody s2.
    assert (A2 : x_work_units s2 + units_held s2 + 1 = x_num_worker s2) by (unfold units_held in *; rewrite F1, F2, F3, F4, F9; lia).
    assert (B2 : x_out_slots s2 + slots_held s2 = x_total_out s2) by (unfold slots_held, nemit in *; rewrite F5, F6, F7, F4, F10; lia).
    assert (C2 : x_in_slots s2 + in_held s2 = x_total_in s2) by (unfold in_held in *; rewrite F11; lia).
    clear KU KS KI DI L1 L2 F1 F2 F3 F4 F5 F6 F7 F9 F10 F11.
    assert (DROP : forall us', cnt (give_unit (set_unords us' s2)) /\ cnt (give_unit s2)).
    { intro us'. split; cnt_tac. }
    destruct (x_parsing_done s2); [inversion H; subst; destruct (c_retr_done_drops_link cfg); [apply (DROP (drop_link (r_link j) (x_unords s2)))|apply (DROP [])]|].
    cbv zeta in H.
    match type of H with (if ?c then _ else _) = _ => destruct c end;
      [inversion H; subst; destruct (c_retr_abort_drops_link cfg); [apply (DROP (drop_link (r_link j) (x_unords s2)))|apply (DROP [])]|].
    match type of H with context [d_off cur <? x_head_offs ?s] => set (s3 := s) in H end.
    assert (K3 : (x_work_units s3 + units_held s3 + 1 = x_num_worker s3 /\ x_out_slots s3 + slots_held s3 = x_total_out s3 /\
                  x_in_slots s3 + in_held s3 = x_total_in s3) /\ x_failed s3 = None).
    { subst s3. match goal with |- context [if ?c then _ else _] => destruct c end.
      - destruct (advance_counts cfg cur s2) as [P Q]. split; [|autorewrite with xf; auto].
        unfold units_held, slots_held, in_held, nemit in *; autorewrite with xf. repeat split; lia.
      - destruct (r_link j); (split; [|xs; auto]); unfold units_held, slots_held, in_held, nemit in *; xs; repeat split; lia. }
    clearbody s3. destruct K3 as ((A & B & C) & NF3).
    destruct (rv =? MORE).
    + match type of H with (if ?c then _ else _) = _ => destruct c end; inversion H; subst.
      * destruct (c_stale_drops_link cfg); cnt_tac.
      * cnt_tac.
    + inversion H; subst. match goal with |- cnt (add_run _ ?x) => set (s4 := x) end.
      assert (K4 : (x_work_units s4 + units_held s4 + 1 = x_num_worker s4 /\ x_out_slots s4 + slots_held s4 = x_total_out s4 /\
                    x_in_slots s4 + in_held s4 = x_total_in s4) /\ x_failed s4 = None).
      { subst s4. match goal with |- context [if ?c then _ else _] => destruct c end; destruct (r_link j);
          (split; [|xs; auto]); unfold units_held, slots_held, in_held, nemit in *; xs; repeat split; lia. }
      destruct K4 as ((A4 & B4 & C4) & NF4). clearbody s4. cnt_tac.
  - (* retr2 *) unfold retr2 in H. destruct (del_run (CRetr2 e) st) as [s1|] eqn:D; [|discriminate]. inversion H; subst.
    destruct (del_run_counts _ _ _ D) as (L1 & L2 & r & ->). simpl in L2. unfold nemit in *. xs in L1. xs in L2.
    cnt_tac.
  - (* emit0 *) unfold emit0 in H. destruct (selects TEmit st) eqn:S; [|discriminate].
    apply selects_ready in S. simpl in S. unfold can_emit in S. bool_hyps.
    destruct (qmin e_base pos_lt (x_emit_q st)) as [e|]; [|discriminate].
    destruct (remove_one ejob_eqb e (x_emit_q st)) as [q|] eqn:R; [|discriminate]. inversion H; subst.
    pose proof (remove_one_length _ ejob_eqb_eq _ _ _ R) as RL.
    assert (0 < x_out_slots st).
    { match goal with K : _ || _ = true |- _ => apply orb_true_iff in K; destruct K as [K|K] end; bool_hyps; unfold EMIT_THRESH in *; lia. }
    cnt_tac.
  - (* emit1 *) unfold emit1 in H. destruct (del_run (CEmit e) st) as [s1|] eqn:D; [|discriminate].
    destruct (del_run_counts _ _ _ D) as (L1 & L2 & r & ->). simpl in L2. unfold nemit in *. xs in L1. xs in L2.
    match type of H with (if ?c then _ else _) = _ => destruct c; [|discriminate] end.
    destruct (rv =? MORE); inversion H; subst; cnt_tac.
  - (* reorder *) unfold reorder in H. destruct (selects TReorder st); [|discriminate].
    destruct (qmin o_base pos_lt (x_reord_q st)) as [o|]; [|discriminate].
    destruct (remove_one oblk_eqb o (x_reord_q st)) as [q|] eqn:R; [|discriminate].
    pose proof (remove_one_length _ oblk_eqb_eq _ _ _ R) as RL. xs in H.
    destruct (x_order_q st) as [|ord rest]; [inversion H; subst; cnt_tac|].
    destruct (pos_lt (o_base o) (h_base ord)); [inversion H; subst; cnt_tac|].
    repeat match type of H with context [if ?c then _ else _] => destruct c end;
      inversion H; subst; cnt_tac.
  - (* scan0 *) unfold scan0 in H. destruct (selects TScan st) eqn:S; [|discriminate].
    apply selects_ready in S. simpl in S. unfold can_scan in S. bool_hyps.
    destruct (qmin d_pos pos_lt (x_scan_q st)) as [s|]; [|discriminate].
    destruct (remove_one dbs_eqb s (x_scan_q st)) as [q|]; [|discriminate].
    set (st1 := set_scan_q q (set_work_units (N.pred (x_work_units st)) st)) in *.
    destruct (attach s st1) as [st2 att] eqn:A.
    assert (E2 : st2 = fst (attach s st1)) by (rewrite A; reflexivity).
    inversion H; subst st'. rewrite E2. pose proof (attach_input_len s st1) as AL.
    assert (0 < x_work_units st).
    { match goal with K : _ || _ = true |- _ => apply orb_true_iff in K; destruct K as [K|K] end; bool_hyps; unfold SCAN_THRESH in *; lia. }
    subst st1. xs in AL; cnt_tac; rewrite ?AL; try lia; try (intros _; lia).
  - (* scan1 *) unfold scan1 in H. destruct (del_run (CScan s att) st) as [s1|] eqn:D; [|discriminate].
    destruct (del_run_counts _ _ _ D) as (L1 & L2 & r & ->). simpl in L2. unfold nemit in *. xs in L1. xs in L2.
    pose proof (detach_in att (set_running r st)) as DI. unfold in_held in DI. xs in DI. autorewrite with xf in DI. xs in DI.
    set (s2 := detach att (set_running r st)) in *.
    assert (F2 : x_work_units s2 = x_work_units st /\ x_retr_q s2 = x_retr_q st /\ x_emit_q s2 = x_emit_q st /\ x_running s2 = r /\
                 x_out_slots s2 = x_out_slots st /\ x_reord_q s2 = x_reord_q st /\ x_outq s2 = x_outq st /\ x_failed s2 = None /\
                 x_num_worker s2 = x_num_worker st /\ x_total_out s2 = x_total_out st /\ x_total_in s2 = x_total_in st)
      by (subst s2; autorewrite with xf; xs; auto 15).
    destruct F2 as (F1 & F2 & F3 & F4 & F5 & F6 & F7 & F8 & F9 & F10 & F11). clearbody s2.
    destruct (negb found || x_parsing_done s2); [inversion H; subst; cnt_tac; rewrite ?F1, ?F2, ?F3, ?F4, ?F5, ?F6, ?F7, ?F9, ?F10, ?F11; try lia; try (intros _; lia)|].
    match type of H with (if ?c then _ else _) = _ => destruct c; [|discriminate] end.
    repeat match type of H with context [if ?c then _ else _] => destruct c end; inversion H; subst;
      cnt_tac; rewrite ?F1, ?F2, ?F3, ?F4, ?F5, ?F6, ?F7, ?F9, ?F10, ?F11; simpl length; try lia; try (intros _; lia).
Qed.

(* ---- the configuration constants never change ---------------------------------------- *)
Definition consts (st : xstate) := (x_num_worker st, x_total_in st, x_total_out st).
Lemma consts_del c st s1 : del_run c st = Some s1 -> consts s1 = consts st.
Proof. intro D. destruct (del_run_spec _ _ _ D) as (? & ? & ? & ->). reflexivity. Qed.
Ltac ctac := unfold consts, add_run, give_unit, fail; xs; autorewrite with xf; xs; auto.
Lemma consts_pf cfg g s : consts (parse_finish cfg g s) = consts s.
Proof. unfold parse_finish. set (pb := mkdbs _ _). clearbody pb. match goal with |- context [if ?c then _ else _] => destruct c end; [ctac|].
  destruct (c_finish_drops_link cfg); ctac. Qed.
Lemma consts_pok cfg a b s : consts (parse_ok cfg a b s) = consts s.
Proof. unfold parse_ok. match goal with |- context [match ?c with Some _ => _ | None => _ end] => destruct c end; [|ctac].
  match goal with |- context [if ?c then _ else _] => destruct c end; [|ctac]. destruct (u_complete u); ctac. Qed.
Lemma consts_step cfg st e st' : step cfg st e = Some st' -> consts st' = consts st.
Proof.
  unfold step. destruct (x_failed st); [discriminate|]. destruct e; intro H.
  - unfold input in H. repeat match type of H with context [if ?c then _ else _] => destruct c end; inversion H; subst; ctac.
  - unfold reader_eof in H. destruct (x_eof st); inversion H; ctac.
  - unfold written in H. destruct (0 <? x_outq st); inversion H; ctac.
  - unfold parse0 in H. destruct (selects TParse st); [|discriminate].
    match type of H with context [attach ?a ?b] => destruct (attach a b) as [s2 att] eqn:A; assert (s2 = fst (attach a b)) by (rewrite A; auto) end.
    inversion H; subst. ctac.
  - unfold parse1 in H. destruct (del_run (CParse att) st) as [s1|] eqn:D; [|discriminate]. rewrite <- (consts_del _ _ _ D).
    match type of H with (if ?c then _ else _) = _ => destruct c; [|discriminate] end.
    destruct r; repeat match type of H with (if ?c then _ else _) = _ => destruct c; try discriminate end; inversion H; subst;
      rewrite ?consts_pf, ?consts_pok; ctac.
  - unfold retr0 in H. destruct (selects TRetrieve st); [|discriminate]. destruct (take_min rjob_eqb rkey j (x_retr_q st)); [|discriminate].
    match type of H with context [attach ?a ?b] => destruct (attach a b) as [s2 att] eqn:A; assert (s2 = fst (attach a b)) by (rewrite A; auto) end.
    inversion H; subst. ctac.
  - unfold retr1 in H. destruct (del_run (CRetr j att) st) as [s1|] eqn:D; [|discriminate]. rewrite <- (consts_del _ _ _ D).
    match type of H with (if ?c then _ else _) = _ => destruct c; [|discriminate] end. cbv zeta in H.
    repeat match type of H with context [if ?c then _ else _] => destruct c end; try destruct (r_link j); inversion H; subst; ctac.
  - unfold retr2 in H. destruct (del_run (CRetr2 e) st) as [s1|] eqn:D; [|discriminate]. rewrite <- (consts_del _ _ _ D). inversion H; ctac.
  - unfold emit0 in H. destruct (selects TEmit st); [|discriminate]. destruct (qmin e_base pos_lt (x_emit_q st)); [|discriminate].
    destruct (remove_one ejob_eqb e (x_emit_q st)); inversion H; ctac.
  - unfold emit1 in H. destruct (del_run (CEmit e) st) as [s1|] eqn:D; [|discriminate]. rewrite <- (consts_del _ _ _ D).
    repeat match type of H with context [if ?c then _ else _] => destruct c end; inversion H; subst; ctac.
  - unfold reorder in H. destruct (selects TReorder st); [|discriminate]. destruct (qmin o_base pos_lt (x_reord_q st)); [|discriminate].
    destruct (remove_one oblk_eqb o (x_reord_q st)); [|discriminate]. xs in H. destruct (x_order_q st); [inversion H; ctac|].
    repeat match type of H with context [if ?c then _ else _] => destruct c end; inversion H; subst; ctac.
  - unfold scan0 in H. destruct (selects TScan st); [|discriminate]. destruct (qmin d_pos pos_lt (x_scan_q st)); [|discriminate].
    destruct (remove_one dbs_eqb d (x_scan_q st)); [|discriminate].
    match type of H with context [attach ?a ?b] => destruct (attach a b) as [s2 att] eqn:A; assert (s2 = fst (attach a b)) by (rewrite A; auto) end.
    inversion H; subst. ctac.
  - unfold scan1 in H. destruct (del_run (CScan s att) st) as [s1|] eqn:D; [|discriminate]. rewrite <- (consts_del _ _ _ D).
    repeat match type of H with context [if ?c then _ else _] => destruct c end; inversion H; subst; ctac.
Qed.
