(* Ownership results for the source as it is now (gen_cfg): capacities of all seven queues,
   order_q is empty when can_terminate() holds, C10/C09 with "terminated" instead of
   "completed".  The three side conditions on the regenerated booleans are discharged by
   reflexivity, so this file compiles only when the source has the offset tests (F4), gives
   every unord block of a dropped job back (F3) and tests the capacity of unord_q (F9). *)
From Coq Require Import List NArith Bool Lia Arith ZifyBool ZifyN ZifyNat.
From LBZ Require Import Gen.Consts SchedX.XState Gen.SchedXTab SchedX.XSet SchedX.XModel SchedX.XLemmas
  SchedX.XInvDefs SchedX.XInv4 SchedX.XF4 SchedX.XOracle SchedX.XSeq SchedX.XCount SchedX.XC10 SchedX.XC11
  SchedX.XOwn SchedX.XOwnProofs SchedX.XUnordCap SchedX.XScanOwn.
Import ListNotations.
Local Open Scope N_scope.

Lemma gen_cfg_drops : cfg_drops gen_cfg.
Proof. unfold cfg_drops, gen_cfg; simpl. repeat split; reflexivity. Qed.

Lemma gen_cfg_ucap : c_scan_checks_unord_cap gen_cfg = true.
Proof. reflexivity. Qed.

(* all seven queues stay within the capacities given to pqueue_init/deque_init in init() *)
Lemma C11x_capacity_all_gen n tin tout ultra st :
  preach gen_cfg (init_state n tin tout ultra) st -> x_failed st = None ->
  let cap f := f (x_total_in st) (x_num_worker st) (x_total_out st) in
  N.of_nat (length (x_input_q st)) <= cap cap_input_q /\
  N.of_nat (length (x_scan_q st)) <= cap cap_scan_q /\
  N.of_nat (length (x_retr_q st)) <= cap cap_retr_q /\
  N.of_nat (length (x_emit_q st)) <= cap cap_emit_q /\
  N.of_nat (length (unord_q st)) <= cap cap_unord_q /\
  N.of_nat (length (x_order_q st)) <= cap cap_order_q /\
  N.of_nat (length (x_reord_q st)) <= cap cap_reord_q.
Proof.
  intros R NF. pose proof (preach_reach _ _ _ R) as R0.
  destruct (XC11.C11x_capacity_gen _ _ _ _ _ R0 NF) as (A & B & C & D). cbv zeta in *.
  split; [exact A|]. split; [exact (scan_q_capacity _ _ _ _ _ _ gen_cfg_safe R0 NF)|]. split; [exact B|]. split; [exact C|].
  split; [exact (unord_q_capacity _ _ _ _ _ _ gen_cfg_ucap R0)|].
  split; [exact (order_q_capacity _ _ _ _ _ _ gen_cfg_safe gen_cfg_drops R NF)|exact D].
Qed.

(* the two capacities that do not depend on the progress of the parser's labels *)
Lemma C11x_capacity_scan_unord_gen n tin tout ultra st :
  reach gen_cfg (init_state n tin tout ultra) st -> x_failed st = None ->
  N.of_nat (length (x_scan_q st)) <= cap_scan_q (x_total_in st) (x_num_worker st) (x_total_out st) /\
  N.of_nat (length (unord_q st)) <= cap_unord_q (x_total_in st) (x_num_worker st) (x_total_out st).
Proof.
  intros R NF. split; [exact (scan_q_capacity _ _ _ _ _ _ gen_cfg_safe R NF)|exact (unord_q_capacity _ _ _ _ _ _ gen_cfg_ucap R)].
Qed.

Lemma terminate_order_empty_gen n tin tout ultra st :
  preach gen_cfg (init_state n tin tout ultra) st -> x_failed st = None -> can_terminate st = true -> x_order_q st = [].
Proof. apply terminate_order_empty; [exact gen_cfg_safe|exact gen_cfg_drops]. Qed.

(* a run has terminated: nothing failed and the workers may exit *)
Definition terminated (st : xstate) : Prop := x_failed st = None /\ can_terminate st = true.

Lemma terminated_completed n tin tout ultra st :
  preach gen_cfg (init_state n tin tout ultra) st -> terminated st -> completed st.
Proof.
  intros R [NF T]. split; [auto|]. split; [|eapply terminate_order_empty_gen; eauto].
  unfold can_terminate in T. repeat (apply andb_true_iff in T; destruct T as [T ?]). assumption.
Qed.

Lemma order_head_owned_gen n tin tout ultra st h rest :
  preach gen_cfg (init_state n tin tout ultra) st -> x_failed st = None -> x_order_q st = h :: rest ->
  (snd (h_base h) = 0 /\ exists j, In j (all_jobs st) /\ jm (x_unords st) j = true /\ fst (r_base j) = fst (h_base h)) \/
  (exists e, In e (estage st) /\ fst (e_base e) = fst (h_base h) /\ snd (h_base h) <= snd (e_base e)) \/
  (exists o, In o (x_reord_q st) /\ o_status o <> MORE /\ fst (o_base o) = fst (h_base h) /\ snd (h_base h) <= snd (o_base o)).
Proof. apply order_head_owned; [exact gen_cfg_safe|exact gen_cfg_drops]. Qed.

(* C10 with the hypothesis a caller can observe: the run did not fail and can_terminate() holds *)
Lemma C10_speculation_free_term_gen :
  forall (O : oracle) n tin tout ultra st L R,
    opreach O gen_cfg (init_state n tin tout ultra) st -> SeqDec O 0 0 L R ->
    (exists l', L = x_written st ++ l') /\
    (x_failed st <> None -> R = false) /\
    (terminated st -> x_written st = L /\ R = true).
Proof.
  intros O n tin tout ultra st L R RE SD.
  destruct (C10_speculation_free_gen O n tin tout ultra st L R (opreach_oreach _ _ _ _ RE) SD) as (A & B & C).
  split; auto. split; auto. intro T. apply C. eapply terminated_completed; eauto. eapply opreach_preach; eauto.
Qed.

Lemma C09_process_term_gen :
  forall (O : oracle) n1 tin1 tout1 u1 n2 tin2 tout2 u2 st1 st2 L R,
    SeqDec O 0 0 L R ->
    opreach O gen_cfg (init_state n1 tin1 tout1 u1) st1 ->
    opreach O gen_cfg (init_state n2 tin2 tout2 u2) st2 ->
    (terminated st1 -> terminated st2 -> x_written st1 = x_written st2) /\
    (terminated st1 -> x_failed st2 = None) /\
    (exists l, x_written st1 = x_written st2 ++ l \/ x_written st2 = x_written st1 ++ l).
Proof.
  intros O n1 tin1 tout1 u1 n2 tin2 tout2 u2 st1 st2 L R SD R1 R2.
  destruct (C09_process_gen O _ _ _ _ _ _ _ _ st1 st2 L R SD (opreach_oreach _ _ _ _ R1) (opreach_oreach _ _ _ _ R2)) as (A & B & C).
  pose proof (terminated_completed _ _ _ _ _ (opreach_preach _ _ _ _ R1)) as T1.
  pose proof (terminated_completed _ _ _ _ _ (opreach_preach _ _ _ _ R2)) as T2.
  split; [|split]; auto.
Qed.

(* C13: the small unord_blk records.  Those in unord_q are bounded by its capacity, every other
   one is referenced by its own retrieve job, which holds a work unit. *)
Lemma C13x_unord_records_gen n small ultra st :
  preach gen_cfg (init_dec n small ultra) st -> x_failed st = None ->
  N.of_nat (length (x_unords st)) <= cap_unord_q (dec_total_in small n) n (dec_total_out small n) + n.
Proof.
  intros R NF. unfold init_dec in R. pose proof (preach_reach _ _ _ R) as R0.
  assert (K : consts st = (n, dec_total_in small n, dec_total_out small n)).
  { clear - R0. induction R0; [reflexivity|]. rewrite (consts_step _ _ _ _ H). exact IHR0. }
  unfold consts in K.
  assert (K1 : x_num_worker st = n) by (inversion K; auto).
  assert (K2 : x_total_in st = dec_total_in small n) by (inversion K; auto).
  assert (K3 : x_total_out st = dec_total_out small n) by (inversion K; auto).
  clear K.
  pose proof (unord_records_bound _ _ _ _ _ _ gen_cfg_safe gen_cfg_drops R NF) as L1.
  pose proof (unord_q_capacity _ _ _ _ _ _ gen_cfg_ucap R0) as L2. unfold ucap_ok, unord_cap in L2. rewrite K1, K2, K3 in L2.
  destruct (cnt_reach _ _ _ _ _ _ R0) as [KU _ _]. specialize (KU NF). rewrite K1 in KU.
  assert (L3 : (length (all_jobs st) <= length (x_retr_q st) + length (x_running st))%nat).
  { unfold all_jobs. rewrite app_length. pose proof (run_lists_len (x_running st)). lia. }
  unfold units_held in KU. lia.
Qed.

Lemma C13x_unord_linear_gen small : exists a b, forall n, 1 <= n ->
  cap_unord_q (dec_total_in small n) n (dec_total_out small n) + n = a * n - b.
Proof.
  destruct small; unfold cap_unord_q, dec_total_in, dec_total_out, UNORD_THRESH; [exists 4, 3|exists 18, 3]; intros n Hn.
  - destruct (3 <? n + 2 * n) eqn:E; lia.
  - destruct (3 <? n + 16 * n) eqn:E; lia.
Qed.
