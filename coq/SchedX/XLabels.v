(* The label hypotheses of the decompression-scheduler runs (SchedX/XOwn.v [ev_prog],
   SchedX/XLiveDefs.v [ev_scan_prog], SchedX/XLiveTerm.v [ev_term]) DERIVED from the models of the
   unlocked functions, in the vocabulary of those models:

   (L1) parse()  : Dec/ParseModel.v (the regenerated state machine of src/parse.c)
        - a chain of parse() calls MORE* OK (the buffer is replaced arbitrarily between the calls)
          started in a state [s] consumes at least [16 * ok_dist s] bits; from the state in which
          parser_init() and every OK leave the machine (BLOCK_MAGIC_1) that is 80 bits;
        - a call that returns MORE was made with eof = false, leaves fewer than 16 bits, and what
          it leaves is a suffix of what it got: it consumes >= 1 bit iff >= 16 bits were offered;
          with eof = true MORE is never returned.
   (L2) scan() : Scan/ScanModel.v + Scan/ScanProofs.v
   (L3) emit() : Safe/EmitProofs.v

   What stays assumed: that the label of a scheduler event IS the result of the corresponding
   call of the function model (EvParse1 <-> parse_call, EvScan1 <-> scan, EvEmit1 <-> emit). *)
From Coq Require Import List NArith ZArith Bool Lia.
From LBZ Require Import Common.Bits Dec.Prog Dec.Sim Dec.Format Dec.ParseVocab Gen.ParseTab Dec.ParseModel Dec.ParseProofs.
Import ListNotations.

(* ================================================================================== *)
(* L1: parse()                                                                         *)
(* ================================================================================== *)
(* the least number of 16-bit words parse() must take off the buffer, from state [s], before it
   can return OK *)
Definition ok_dist (s : pstate) : nat :=
  match s with
  | PS_BLOCK_MAGIC_1 => 5 | PS_BLOCK_MAGIC_2 => 4 | PS_BLOCK_MAGIC_3 => 3
  | PS_BLOCK_CRC_1 => 2 | PS_BLOCK_CRC_2 => 1
  | PS_STREAM_MAGIC_2 => 6 | PS_STREAM_MAGIC_1 => 7
  | PS_EOS_CRC_2 => 8 | PS_EOS_CRC_1 => 9 | PS_EOS_3 => 10 | PS_EOS_2 => 11
  | PS_ACCEPT => 0
  end.

Lemma ok_dist_values :
  ok_dist PS_BLOCK_MAGIC_1 = 5%nat /\ ok_dist PS_BLOCK_MAGIC_2 = 4%nat /\ ok_dist PS_BLOCK_MAGIC_3 = 3%nat /\
  ok_dist PS_BLOCK_CRC_1 = 2%nat /\ ok_dist PS_BLOCK_CRC_2 = 1%nat /\
  (forall s, s <> PS_ACCEPT -> (1 <= ok_dist s)%nat).
Proof. repeat split. intros s H. destruct s; cbn [ok_dist]; try lia. congruence. Qed.

(* one iteration of the loop *)
Lemma step_dist m w :
  match snd (parse_step m w) with
  | PCont => (ok_dist (m_state m) <= S (ok_dist (m_state (fst (parse_step m w)))))%nat
  | PRet RC_OK => (ok_dist (m_state m) <= 1)%nat /\ m_state (fst (parse_step m w)) = PS_BLOCK_MAGIC_1
  | _ => True
  end.
Proof.
  destruct m as [st b sc cc md hb hc g buf].
  destruct st; pm_cases; cbn [ok_dist]; auto; lia.
Qed.

Lemma step_state_buf m w x : m_state (fst (parse_step (set_buf m x) w)) = m_state (fst (parse_step m w)) /\
                             snd (parse_step (set_buf m x) w) = snd (parse_step m w).
Proof.
  destruct m as [st b sc cc md hb hc g buf].
  destruct st; pm_cases; auto.
Qed.

Lemma eof_not_ok_more m : snd (parse_eof m) <> PRet RC_OK /\ snd (parse_eof m) <> PRet RC_MORE.
Proof.
  destruct m as [st b sc cc md hb hc g buf]. pm_unfold. split_ifs; split; discriminate.
Qed.

Lemma run_word_length bits w rest :
  run (take 16) bits = Ok (w, rest) -> length bits = (16 + length rest)%nat.
Proof. apply run_take_length. Qed.

Lemma run_word_err bits e : run (take 16) bits = Err e -> (length bits < 16)%nat.
Proof.
  intro H. destruct (le_lt_dec 16 (length bits)) as [L|L]; [|exact L]. exfalso.
  do 16 (destruct bits as [|? bits]; [cbn in L; lia|]). vm_compute in H. discriminate.
Qed.

Lemma run_word_suffix bits w rest :
  run (take 16) bits = Ok (w, rest) -> exists pre, bits = pre ++ rest.
Proof. intro H. apply run_frame in H as [d [-> _]]. eauto. Qed.

Lemma bits_align_suffix buf : exists pre, buf = pre ++ bits_align buf.
Proof. exists (firstn (length buf mod 8) buf). unfold bits_align. symmetry. apply firstn_skipn. Qed.

(* parse(): after the loop, at end of input: the buffer is not touched *)
Lemma parse_eof_buf m : m_buf (fst (parse_eof m)) = m_buf m.
Proof. destruct m as [st b sc cc md hb hc g buf]. pm_unfold. split_ifs; reflexivity. Qed.

(* the loop *)
Lemma ploop_dist eof : forall n m c m',
  (length (m_buf m) <= n)%nat ->
  ploop m eof = PC_ret c m' ->
  (exists pre, m_buf m = pre ++ m_buf m') /\
  (c = RC_OK -> (16 * ok_dist (m_state m) + length (m_buf m') <= length (m_buf m))%nat /\
                m_state m' = PS_BLOCK_MAGIC_1) /\
  (c = RC_MORE -> eof = false /\ (length (m_buf m') < 16)%nat /\
                  (parse_entry_ok m = true -> parse_entry_ok m' = true) /\
                  (16 * ok_dist (m_state m) + length (m_buf m') <=
                   length (m_buf m) + 16 * ok_dist (m_state m'))%nat).
Proof.
  induction n as [|n IH]; intros m c m' Hn H; rewrite ploop_unfold in H;
    (destruct (run (take 16) (m_buf m)) as [[w rest]|e] eqn:E;
     [pose proof (run_word_length _ _ _ E) as L1
     |pose proof (run_word_err _ _ E) as L1; destruct eof;
      [pose proof (eof_not_ok_more m) as [N1 N2]; pose proof (parse_eof_buf m) as PB;
       destruct (parse_eof m) as [m1 [|c1|]]; try discriminate; inversion H; subst c1 m1; cbn [fst snd] in *;
       split; [exists []; rewrite PB; reflexivity|split; intro; subst; congruence]
      |inversion H; subst; split; [exists []; reflexivity|]; split; [discriminate|]; intros _;
       split; [reflexivity|]; split; [exact L1|]; split; [auto|lia]]]).
  - lia.
  - pose proof (run_word_suffix _ _ _ E) as [pre0 S0].
    pose proof (parse_step_buf (set_buf m rest) w) as SB. rewrite m_buf_set_buf in SB.
    pose proof (parse_step_buf_le (set_buf m rest) w) as L2. rewrite m_buf_set_buf in L2.
    pose proof (step_dist m w) as SD.
    pose proof (step_state_buf m w rest) as [SS1 SS2]. rewrite <- SS1, <- SS2 in SD.
    pose proof (step_never_more (set_buf m rest) w) as NM.
    destruct (parse_step (set_buf m rest) w) as [m1 out] eqn:PS. cbn [fst snd] in *.
    assert (SUF : exists pre, m_buf m = pre ++ m_buf m1).
    { destruct SB as [SB|SB]; rewrite SB, S0.
      - eauto.
      - destruct (bits_align_suffix rest) as [p Hp]. exists (pre0 ++ p). rewrite <- app_assoc, <- Hp. reflexivity. }
    destruct out as [|c1|]; [| |discriminate].
    + destruct (IH m1 c m' ltac:(lia) H) as [[pre1 I0] [I1 I2]].
      split; [|split].
      * destruct SUF as [p Hp]. exists (p ++ pre1). rewrite <- app_assoc, <- I0. exact Hp.
      * intro Hc. destruct (I1 Hc) as [A B]. split; [lia|exact B].
      * intro Hc. destruct (I2 Hc) as [A [B [C D]]]. split; [exact A|]. split; [exact B|].
        split; [|lia]. intros _. apply C. exact (step_cont_entry _ _ _ PS).
    + inversion H; subst c1 m1. split; [exact SUF|]. split.
      * intro Hc. subst c. destruct SD as [SD1 SD2]. split; [lia|exact SD2].
      * intro Hc. subst c. congruence.
Qed.

(* ---- one call of parse() ---------------------------------------------------------------- *)
(* whatever it returns: what is left in the buffer is a suffix of what was offered *)
Theorem parse_call_suffix m eof c m' :
  parse_call m eof = PC_ret c m' -> exists consumed, m_buf m = consumed ++ m_buf m'.
Proof.
  unfold parse_call. destruct (parse_entry_ok m); [|discriminate]. intro H.
  exact (proj1 (ploop_dist eof _ m c m' (le_n _) H)).
Qed.

(* OK: the call alone consumed 16 * ok_dist bits at least, and leaves the machine where
   parser_init() leaves it *)
Theorem parse_call_ok m eof m' :
  parse_call m eof = PC_ret RC_OK m' ->
  (16 * ok_dist (m_state m) + length (m_buf m') <= length (m_buf m))%nat /\ m_state m' = PS_BLOCK_MAGIC_1.
Proof.
  unfold parse_call. destruct (parse_entry_ok m); [|discriminate]. intro H.
  exact (proj1 (proj2 (ploop_dist eof _ m RC_OK m' (le_n _) H)) eq_refl).
Qed.

(* MORE: only when more input may come; every complete 16-bit word was consumed; the distance to OK
   decreased by the number of words consumed at most; the next call will not hit the assert *)
Theorem parse_call_more m eof m' :
  parse_call m eof = PC_ret RC_MORE m' ->
  eof = false /\ (length (m_buf m') < 16)%nat /\ parse_entry_ok m' = true /\
  (16 * ok_dist (m_state m) + length (m_buf m') <= length (m_buf m) + 16 * ok_dist (m_state m'))%nat.
Proof.
  unfold parse_call. destruct (parse_entry_ok m) eqn:EO; [|discriminate]. intro H.
  destruct (proj2 (proj2 (ploop_dist eof _ m RC_MORE m' (le_n _) H)) eq_refl) as [A [B [C D]]].
  auto.
Qed.

(* H3, precisely: a call that returns MORE consumed at least one bit iff at least 16 bits were
   offered.  (With fewer than 16 bits and eof = false it returns MORE having consumed nothing;
   with eof = true it never returns MORE.) *)
Theorem parse_more_progress m eof m' :
  parse_call m eof = PC_ret RC_MORE m' ->
  ((length (m_buf m') < length (m_buf m))%nat <-> (16 <= length (m_buf m))%nat).
Proof.
  intro H. destruct (parse_call_more _ _ _ H) as [_ [B _]].
  destruct (parse_call_suffix _ _ _ _ H) as [pre Hp].
  split; [|lia]. intro L.
  destruct (le_lt_dec 16 (length (m_buf m))) as [G|G]; [exact G|exfalso].
  (* fewer than 16 bits: the loop body is not entered *)
  revert H L. unfold parse_call. destruct (parse_entry_ok m); [|discriminate].
  rewrite ploop_unfold.
  destruct (run (take 16) (m_buf m)) as [[w rest]|e] eqn:E.
  - apply run_word_length in E. lia.
  - destruct eof.
    + pose proof (eof_not_ok_more m) as [_ N2]. destruct (parse_eof m) as [m1 [|c1|]]; try discriminate.
      intro H; inversion H; subst. cbn in N2. congruence.
    + intro H; inversion H; subst. lia.
Qed.

Theorem parse_eof_never_more m m' : parse_call m true <> PC_ret RC_MORE m'.
Proof. intro H. destruct (parse_call_more _ _ _ H) as [A _]. discriminate. Qed.

(* ---- chains of calls: MORE* OK ----------------------------------------------------------- *)
(* [ok_chain m n m']: parse() is called on m; as long as it returns MORE it is called again
   with the same *ps and ANY new buffer content (expand.c: left-over ++ next input piece);
   finally it returns OK with memory m'.  n = the total number of bits the calls took off
   their buffers. *)
Inductive ok_chain : pmem -> nat -> pmem -> Prop :=
| okc_ok m eof m' :
    parse_call m eof = PC_ret RC_OK m' ->
    ok_chain m (length (m_buf m) - length (m_buf m')) m'
| okc_more m eof m1 buf n m' :
    parse_call m eof = PC_ret RC_MORE m1 ->
    ok_chain (set_buf m1 buf) n m' ->
    ok_chain m ((length (m_buf m) - length (m_buf m1)) + n) m'.

Theorem ok_chain_consumes m n m' :
  ok_chain m n m' -> (16 * ok_dist (m_state m) <= n)%nat /\ m_state m' = PS_BLOCK_MAGIC_1.
Proof.
  induction 1 as [m eof m' H|m eof m1 buf n m' H C IH].
  - destruct (parse_call_ok _ _ _ H) as [A B]. split; [lia|exact B].
  - destruct (parse_call_more _ _ _ H) as [_ [_ [_ D]]]. destruct IH as [A B].
    change (m_state (set_buf m1 buf)) with (m_state m1) in A. split; [lia|exact B].
Qed.

(* H1: from the state parser_init() sets up, and from the state after any OK (wherever the
   retriever left the bit buffer: any [rest]), the next OK comes after >= 80 consumed bits *)
Theorem first_header_80 m0 level mode buf n m' :
  ok_chain (set_buf (parser_init m0 level mode) buf) n m' -> (80 <= n)%nat.
Proof. intro C. apply ok_chain_consumes in C as [A _]. exact A. Qed.

Theorem next_header_80 m eof m1 rest n m2 :
  parse_call m eof = PC_ret RC_OK m1 ->
  ok_chain (set_buf m1 rest) n m2 -> (80 <= n)%nat.
Proof.
  intros H C. apply parse_call_ok in H as [_ S1]. apply ok_chain_consumes in C as [A _].
  change (m_state (set_buf m1 rest)) with (m_state m1) in A. rewrite S1 in A. exact A.
Qed.

Theorem chain_header_80 m n m1 rest n' m2 :
  ok_chain m n m1 -> ok_chain (set_buf m1 rest) n' m2 -> (80 <= n')%nat.
Proof.
  intros C1 C. apply ok_chain_consumes in C1 as [_ S1]. apply ok_chain_consumes in C as [A _].
  change (m_state (set_buf m1 rest)) with (m_state m1) in A. rewrite S1 in A. exact A.
Qed.

(* non-vacuity: a real block header, offered in two pieces (40 bits, of which 32 are consumed
   and MORE is returned; then the remaining 48) *)
Example ok_chain_example :
  let hdr := bits_msb 48 block_magic ++ bits_msb 32 0x9E625BFE%N in
  exists n m', ok_chain (set_buf (parser_init pmem0 9%Z expand_stream_mode) (firstn 40 hdr)) n m' /\
               n = 80%nat /\ m_hd_crc m' = 0x9E625BFE%N.
Proof.
  cbv zeta. eexists. eexists. split; [|split].
  - eapply okc_more with (eof := false) (buf := skipn 32 (bits_msb 48 block_magic ++ bits_msb 32 0x9E625BFE%N)).
    + vm_compute. reflexivity.
    + eapply okc_ok with (eof := false). vm_compute. reflexivity.
  - vm_compute. reflexivity.
  - vm_compute. reflexivity.
Qed.

(* H3 in the form the scheduler uses it: the parser is resumed after MORE with what it left
   over ++ the next piece of input [s]; appending does not move the position, and the call
   consumes >= 1 bit iff left-over + piece have >= 16 bits.  So: every piece of input that is
   not the last one must bring the buffer to >= 16 bits (e.g. has >= 2 bytes); after the last
   one eof = true and MORE is not returned at all. *)
Corollary parse_more_progress_piece m1 s m' :
  parse_call (madd m1 s) false = PC_ret RC_MORE m' ->
  (16 <= length (m_buf m1) + length s)%nat -> (length (m_buf m') < length (m_buf m1) + length s)%nat.
Proof.
  intros H L. apply parse_more_progress in H. change (m_buf (madd m1 s)) with (m_buf m1 ++ s) in H.
  rewrite app_length in H. apply H. exact L.
Qed.

(* ---- the driver of Dec/ParseModel.v: the header positions the scheduler gets --------------- *)
(* [parse_headers] reports, for every block, the number of bits left when its header was
   complete.  In an accepted input these numbers go down by at least 80 from one block to the
   next (and the first one is at least 80 below the start), wherever each block body ends. *)
Fixpoint desc80 (bound : nat) (ps : list nat) : Prop :=
  match ps with
  | [] => True
  | p :: r => (p + 80 <= bound)%nat /\ desc80 p r
  end.

Lemma desc80_mono b b' ps : (b <= b')%nat -> desc80 b ps -> desc80 b' ps.
Proof. destruct ps as [|p r]; cbn [desc80]; [auto|]. intros L [A B]. split; [lia|exact B]. Qed.

Theorem pdrive_header_positions body_end :
  (forall b r, body_end b = Some r -> (length r <= length b)%nat) ->
  forall fuel m hs g, m_state m = PS_BLOCK_MAGIC_1 ->
  pdrive (header_blk body_end) fuel m = D_ok hs g ->
  desc80 (length (m_buf m)) (map (fun h => fst (fst h)) hs).
Proof.
  intros HB. induction fuel as [|f IH]; intros m hs g S H; cbn [pdrive] in H; [discriminate|].
  destruct (parse_call m true) as [c m'| |] eqn:PC; try discriminate.
  destruct c; try (cbn [err_of_rcode] in H; discriminate).
  - destruct (parse_call_ok _ _ _ PC) as [L S']. rewrite S in L. cbn [ok_dist] in L.
    destruct (header_blk body_end (Z.to_N (m_hd_bs100k m')) (m_hd_crc m') (m_buf m')) as [[out rest]|e] eqn:HBK;
      [|discriminate].
    unfold header_blk in HBK. destruct (body_end (m_buf m')) as [rest'|] eqn:BE; [|discriminate].
    injection HBK as <- <-.
    destruct (pdrive (header_blk body_end) f (set_buf m' rest')) as [outs g'| | | |] eqn:PD; try discriminate.
    injection H as <- <-. cbn [app map fst desc80]. split; [lia|].
    apply (desc80_mono (length rest')); [exact (HB _ _ BE)|].
    exact (IH (set_buf m' rest') outs g' S' PD).
  - injection H as <- _. exact I.
Qed.

Corollary parse_headers_positions body_end m0 bits hs g :
  (forall b r, body_end b = Some r -> (length r <= length b)%nat) ->
  parse_headers body_end m0 bits = D_ok hs g ->
  desc80 (length bits - 32) (map (fun h => fst (fst h)) hs).
Proof.
  intros HB H. unfold parse_headers, pdecode_gen in H.
  destruct (run (take 32) bits) as [[h rest]|e] eqn:E; [|discriminate].
  destruct ((file_magic_base + file_magic_lo <=? h)%N && (h <=? file_magic_base + file_magic_hi)%N); [|discriminate].
  apply run_take_length in E. rewrite E. replace (32 + length rest - 32)%nat with (length rest) by lia.
  change (length rest) with (length (m_buf (set_buf (parser_init m0 (Z.of_N (h - (file_magic_base + file_magic_level_base))) expand_stream_mode) rest))).
  eapply (pdrive_header_positions body_end HB); [|exact H]. reflexivity.
Qed.

(* non-vacuity: the two-block example of Properties_C15parse: 608 + 80 <= 720 - 32, 248 + 80 <= 608 *)
Example parse_headers_positions_example :
  desc80 (720 - 32) [608; 248]%nat.
Proof. cbn. lia. Qed.

(* ---- the same with absolute positions ------------------------------------------------------- *)
(* position of the parser = number of input bits consumed so far.  [ok_run p m p' m']: parse() is
   called at position p with memory m; on MORE it is resumed with left-over ++ next piece
   (appending does not move the position); finally it returns OK at position p'. *)
Inductive ok_run : nat -> pmem -> nat -> pmem -> Prop :=
| okr_ok p m eof m' :
    parse_call m eof = PC_ret RC_OK m' ->
    ok_run p m (p + (length (m_buf m) - length (m_buf m'))) m'
| okr_more p m m1 s p' m' :
    parse_call m false = PC_ret RC_MORE m1 ->
    ok_run (p + (length (m_buf m) - length (m_buf m1))) (madd m1 s) p' m' ->
    ok_run p m p' m'.

Theorem ok_run_advances p m p' m' :
  ok_run p m p' m' -> (p + 16 * ok_dist (m_state m) <= p')%nat /\ m_state m' = PS_BLOCK_MAGIC_1.
Proof.
  induction 1 as [p m eof m' H|p m m1 s p' m' H C IH].
  - destruct (parse_call_ok _ _ _ H) as [A B]. split; [lia|exact B].
  - destruct (parse_call_more _ _ _ H) as [_ [_ [_ D]]]. destruct IH as [A B].
    change (m_state (madd m1 s)) with (m_state m1) in A. split; [lia|exact B].
Qed.

(* H1 in the form of [ev_prog]: a header is confirmed at position p1 (memory m1); the retriever
   consumes the block body (any prefix [body] of the unread bits; [rest] is what it leaves);
   the next header is confirmed at p2 >= p1 + |body| + 80 >= p1 + 32 *)
Theorem confirmed_positions_advance p0 m0 p1 m1 body rest p2 m2 :
  ok_run p0 m0 p1 m1 ->
  m_buf m1 = body ++ rest ->
  ok_run (p1 + length body) (set_buf m1 rest) p2 m2 ->
  (p1 + length body + 80 <= p2)%nat /\ (p1 + 32 <= p2)%nat.
Proof.
  intros R1 _ R2. apply ok_run_advances in R1 as [_ S1]. apply ok_run_advances in R2 as [A _].
  change (m_state (set_buf m1 rest)) with (m_state m1) in A. rewrite S1 in A. cbn [ok_dist] in A. lia.
Qed.

Theorem first_position_advance p m0 level mode buf p' m' :
  ok_run p (set_buf (parser_init m0 level mode) buf) p' m' -> (p + 80 <= p')%nat.
Proof. intro R. apply ok_run_advances in R as [A _]. exact A. Qed.

(* ---- end of input, precisely ------------------------------------------------------------------ *)
(* eof = true and fewer than 16 bits offered: nothing is consumed; FINISH if the machine is
   between streams (STREAM_MAGIC_1/2: trailing garbage of 0/16 bits), ERR_EOF otherwise.
   (eof = true and >= 16 bits: the loop runs as usual; MORE is never returned, see above.) *)
Theorem parse_eof_short m c m' :
  parse_call m true = PC_ret c m' -> (length (m_buf m) < 16)%nat ->
  m_buf m' = m_buf m /\
  ((c = RC_FINISH /\ (m_state m = PS_STREAM_MAGIC_1 \/ m_state m = PS_STREAM_MAGIC_2)) \/
   (c = RC_ERR_EOF /\ m_state m <> PS_STREAM_MAGIC_1 /\ m_state m <> PS_STREAM_MAGIC_2)).
Proof.
  unfold parse_call. destruct (parse_entry_ok m); [|discriminate]. rewrite ploop_unfold.
  destruct (run (take 16) (m_buf m)) as [[w rest]|e] eqn:E.
  - apply run_word_length in E. lia.
  - clear E. destruct m as [st b sc cc md hb hc g buf]. destruct st; pm_unfold; cbn;
      intros H _; inversion H; subst; (split; [reflexivity|]);
      ((left; split; [reflexivity|]; auto; fail) || (right; split; [reflexivity|]; split; discriminate)).
Qed.

Print Assumptions ok_chain_consumes.
Print Assumptions next_header_80.
Print Assumptions parse_call_more.
Print Assumptions parse_more_progress.
Print Assumptions parse_call_suffix.
Print Assumptions parse_headers_positions.
Print Assumptions ok_run_advances.
Print Assumptions confirmed_positions_advance.
Print Assumptions parse_eof_short.

(* non-vacuity of [ok_run]: the parser starts at bit 32 (after the stream header); a block header
   arrives in two pieces of 40 bits; it is confirmed at bit 32 + 80 = 112 *)
Example ok_run_example :
  let hdr := bits_msb 48 block_magic ++ bits_msb 32 0x9E625BFE%N in
  exists p' m', ok_run 32 (set_buf (parser_init pmem0 9%Z expand_stream_mode) (firstn 40 hdr)) p' m' /\
                p' = 112%nat /\ m_hd_crc m' = 0x9E625BFE%N /\ m_buf m' = [].
Proof.
  cbv zeta. eexists. eexists. split; [|split; [|split]].
  - eapply okr_more with (s := skipn 40 (bits_msb 48 block_magic ++ bits_msb 32 0x9E625BFE%N)).
    + vm_compute. reflexivity.
    + eapply okr_ok with (eof := false). vm_compute. reflexivity.
  - vm_compute. reflexivity.
  - vm_compute. reflexivity.
  - vm_compute. reflexivity.
Qed.
